import LinOp.C07.ProofsSym
import Mathlib.Tactic.NormNum
import LinOp.C07.ProofsFunc
/-!
C07 — gradients through operators equal gradients through the dense computation.  Property theorems only.

Derivatives are defined algebraically by dual numbers (`Dual α` = α[ε]/ε², `dDenote o θ δ` = ε-part of
`⟦o⟧(θ+εδ)`), over an arbitrary commutative ring: no analysis.  `bilinDeriv` mirrors the hand-written
`_bilinear_derivative` code of each class; `pair o g δ = Σ_k g_k δ_k` over all floating parameters.
-/
namespace LinOp.C07
open LinOp Matrix

variable {α : Type} [CommRing α]

/-- **Hand-written derivative = derivative of the dense matrix** (`bilinearDerivative_<class>` and
`bilinearDerivative_nested` in one statement), FULL: for EVERY operator tree of the model — Dense, Diag, ConstantDiag,
Toeplitz (`sym_toeplitz_derivative_quadratic_form`), ConstantMul (incl. the constant's own gradient), Matmul, Sum/AddedDiag,
Mul, Masked, Interpolated, BlockDiag, BlockInterleaved, SumBatch, nested to any depth, any sizes, any number of vector
pairs — and every perturbation `δ` of the parameters,
`Σ_k (op._bilinear_derivative(U, V))_k · δ_k = Σ_c u_cᵀ (D⟦op⟧_θ[δ]) v_c`, the ε-part of `Σ_c u_cᵀ ⟦op(θ+εδ)⟧ v_c`.
Structural induction over all 13 constructors (`all_correct`), each step feeding the intermediate vectors to the sub-operator. -/
theorem bilinearDerivative_all {n m : Nat} (o : Op n m) (θ δ : Param α o) {d : Nat} (U : Mat α n d) (V : Mat α m d) :
    pair o (bilinDeriv o θ U V) δ = bil (dDenote o θ δ) U V := by
  rw [bil_eq_bilS]
  exact (all_correct o (Or.inr correct_toeplitz)).2 θ δ d U V

/-- The Toeplitz leaf on its own: `sym_toeplitz_derivative_quadratic_form(U, V)[k] = Σ_c Σ_{|a−b| = k} U[a,c] V[b,c]`
(two triangular Toeplitz products minus the doubly counted diagonal). -/
theorem bilinearDerivative_toeplitz {n d : Nat} (U V : Mat α n d) (k : Fin n) :
    toeplitzQF U V k = ∑ c, ∑ b, (∑ a, if absDiff a b = k then U a c else 0) * V b c :=
  toeplitzQF_eq U V k

/-- The ε⁰-part of the dual-number evaluation is the operator itself: `⟦o⟧(θ+εδ) = ⟦o⟧θ + ε·(…)`, all trees. -/
theorem denote_dual_re {n m : Nat} (o : Op n m) (θ δ : Param α o) (i : Fin n) (j : Fin m) :
    (denote o (mkDual o θ δ) i j).re = denote o θ i j := by
  induction o with
  | dense n m => exact reOK_dense n m θ δ i j
  | diag n => exact reOK_diag n θ δ i j
  | constDiag n => exact reOK_constDiag n θ δ i j
  | toeplitz n => exact reOK_toeplitz n θ δ i j
  | constMul o ih => exact reOK_constMul o ih θ δ i j
  | matmul a b iha ihb => exact reOK_matmul a b iha ihb θ δ i j
  | sum a b iha ihb => exact reOK_sum a b iha ihb θ δ i j
  | mul a b iha ihb => exact reOK_mul a b iha ihb θ δ i j
  | masked rows cols o ih => exact reOK_masked rows cols o ih θ δ i j
  | interp ql qr li ri o ih => exact reOK_interp ql qr li ri o ih θ δ i j
  | blockDiag k o ih => exact reOK_blockDiag k o ih θ δ i j
  | blockInterleaved k o ih => exact reOK_blockInterleaved k o ih θ δ i j
  | sumBatch k o ih => exact reOK_sumBatch k o ih θ δ i j

/-- **BatchRepeat / broadcast parameters are summed** (`broadcast_params_summed`): moving the repeat batches into the
columns delivers to the base operator's parameters the SUM over the repeats of the per-repeat bilinear forms. -/
theorem batchRepeat_params_summed {n m : Nat} (o : Op n m) (θ δ : Param α o) {r d : Nat}
    (U : Fin r → Mat α n d) (V : Fin r → Mat α m d) :
    pair o (batchRepeatDeriv o θ U V) δ = ∑ q, bil (dDenote o θ δ) (U q) (V q) := by
  simp only [bil_eq_bilS]
  exact batchRepeatDeriv_correct o (all_correct o (Or.inr correct_toeplitz)).2 θ δ U V

/-- **Nesting** (`bilinearDerivative_nested`, the Matmul step): if both factors' derivative code is correct for
ALL vector pairs, then the product's is — its code hands the *intermediate* vectors `B V` and `Aᵀ U` to the factors.
The hypotheses are exactly the induction hypotheses; the factors may be arbitrary operator trees. -/
theorem bilinearDerivative_nested_matmul {n k m : Nat} (a : Op n k) (b : Op k m)
    (hra : ReOK α a) (hrb : ReOK α b) (ha : Correct α a) (hb : Correct α b) : Correct α (.matmul a b) :=
  correct_matmul a b hra hrb ha hb

/-- Nesting, ConstantMul step: the sub-operator receives `c·U`; the constant receives `Σ u_cᵀ ⟦base⟧ v_c`. -/
theorem bilinearDerivative_nested_constMul {n m : Nat} (o : Op n m) (hr : ReOK α o) (h : Correct α o) :
    Correct α (.constMul o) :=
  correct_constMul o hr h

/-- Nesting, SumBatch step (`broadcast_params_summed`, block form): every batch member of the base receives the
same vectors, and the pairing is the SUM over the members. -/
theorem bilinearDerivative_nested_sumBatch {n m : Nat} (k : Nat) (o : Op n m) (h : Correct α o) :
    Correct α (.sumBatch k o) :=
  correct_sumBatch k o h

/-- **Tuple alignment, length**: the tuple returned by the hand-written `_bilinear_derivative` of every operator
tree (all classes of the model) has exactly one entry per tensor of `representation()`. -/
theorem bilinearDerivative_aligned_length {n m : Nat} (o : Op n m) :
    (gradSlots o).length = (slots o).length := by
  induction o <;> simp_all [gradSlots, slots]

/-- **Tuple alignment, order**: position by position, floating tensors receive a gradient, index tensors
(Interpolated) zeros, masks (Masked) `None`. -/
theorem bilinearDerivative_aligned {n m : Nat} (o : Op n m) :
    List.Forall₂ (fun s g => slotMatches s g = true) (slots o) (gradSlots o) := by
  induction o with
  | dense | diag | constDiag | toeplitz => simp [slots, gradSlots, slotMatches]
  | constMul o ih => exact List.rel_append ih (by simp [slotMatches])
  | matmul a b iha ihb => exact List.rel_append iha ihb
  | sum a b iha ihb => exact List.rel_append iha ihb
  | mul a b iha ihb => exact List.rel_append iha ihb
  | masked rows cols o ih => exact List.rel_append ih (by simp [slotMatches])
  | interp ql qr li ri o ih => exact List.rel_append ih (by simp [slotMatches])
  | blockDiag k o ih => exact ih
  | blockInterleaved k o ih => exact ih
  | sumBatch k o ih => exact ih

/-- **matmul backward**: for `Y = A B` the first-order change is `dY = dA B + A dB`; against an upstream gradient `G`,
`⟨G, dY⟩ = tr(Gᵀ dA B) + ⟨Aᵀ G, dB⟩` — the parameters receive `_bilinear_derivative(G, B)` and the right-hand side
receives `A._t_matmul(G)`, as `Matmul.backward` computes. -/
theorem matmul_backward {n k c : Nat} (A dA : Matrix (Fin n) (Fin k) α) (B dB : Matrix (Fin k) (Fin c) α)
    (G : Matrix (Fin n) (Fin c) α) :
    Matrix.trace (Gᵀ * (dA * B + A * dB)) = bilS dA G B + Matrix.trace ((Aᵀ * G)ᵀ * dB) := by
  have hb : bilS dA G B = Matrix.trace (Gᵀ * dA * B) := rfl
  rw [hb]
  simp only [Matrix.mul_add, Matrix.trace_add, Matrix.transpose_mul, Matrix.transpose_transpose, Matrix.mul_assoc]

/-- **solve backward**: if `A X = B` and, to first order, `(A+εdA)(X+εdX) = B+εdB` (i.e. `A dX + dA X = dB`), then
`dX = A⁻¹ (dB − dA X)`: the derivative of the solve is `−A⁻¹ dA A⁻¹ B + A⁻¹ dB`. -/
theorem solve_backward {n c : Nat} (A Ainv dA : Matrix (Fin n) (Fin n) α) (X dX B dB : Matrix (Fin n) (Fin c) α)
    (hinv : Ainv * A = 1) (_h0 : A * X = B) (h1 : A * dX + dA * X = dB) :
    dX = Ainv * (dB - dA * X) := by
  rw [← h1, add_sub_cancel_right, ← Matrix.mul_assoc, hinv, Matrix.one_mul]

/-- **solve backward, scalarised**: with `Ls = A⁻ᵀ G` (the code's `left_solves`), `⟨G, dX⟩ = ⟨Ls, dB⟩ − tr(Lsᵀ dA X)`:
the right-hand side receives `Ls` and the parameters `_bilinear_derivative` with factors pairing to `−Ls Xᵀ`. -/
theorem solve_backward_scalar {n c : Nat} (A Ainv dA : Matrix (Fin n) (Fin n) α) (X dX B dB G : Matrix (Fin n) (Fin c) α)
    (hinv : Ainv * A = 1) (h0 : A * X = B) (h1 : A * dX + dA * X = dB) :
    Matrix.trace (Gᵀ * dX) = Matrix.trace ((Ainvᵀ * G)ᵀ * dB) - bilS dA (Ainvᵀ * G) X := by
  have hb : bilS dA (Ainvᵀ * G) X = Matrix.trace ((Ainvᵀ * G)ᵀ * dA * X) := rfl
  rw [solve_backward A Ainv dA X dX B dB hinv h0 h1, hb]
  simp only [Matrix.transpose_mul, Matrix.transpose_transpose, Matrix.mul_sub, Matrix.trace_sub, Matrix.mul_assoc]

/-- **Broadcast parameters are summed, arbitrary pattern** (`broadcast_params_summed`): if batch member `b` reads entry
`π b` of a parameter (any broadcast pattern — scalar, missing leading dims, leading or NON-leading size-1 dims) and `g b` is
the member's gradient, then the summed-back gradient `bcastSum π g` pairs with a perturbation `δ` of the small parameter
exactly as the members' gradients pair with the perturbation each member sees. -/
theorem broadcast_params_summed {B K : Nat} (π : Fin B → Fin K) (g : Fin B → α) (δ : Fin K → α) :
    ∑ k, bcastSum π g k * δ k = ∑ b, g b * δ (π b) :=
  bcastSum_pair π g δ

/-- **ConstantMul with a broadcast constant**: for a batch of members `b` with base parameters `θ b` and constant entry
`c (π b)`, the constant's gradient summed back along the pattern `π` pairs with `δc` to the total ε-part contributed by the
constant: `Σ_b Σ_c u_cᵀ (⟦base_b⟧ · δc(π b)) v_c` — for every base operator tree and every pattern. -/
theorem constMul_broadcast_constant {n m B K : Nat} (o : Op n m) (π : Fin B → Fin K) (θ : Fin B → Param α o) (c δc : Fin K → α)
    {d : Nat} (U : Fin B → Mat α n d) (V : Fin B → Mat α m d) :
    ∑ k, bcastSum π (fun b => (bilinDeriv (.constMul o) (θ b, c (π b)) (U b) (V b)).2) k * δc k
      = ∑ b, bilS (fun i j => denote o (θ b) i j * δc (π b)) (U b) (V b) := by
  rw [bcastSum_pair]
  exact Finset.sum_congr rfl fun b _ => constMul_const_grad o (θ b, c (π b)) (U b) (V b) (δc (π b))

/-- **inv_quad backward**: `q = Σ_c b_cᵀ A⁻¹ b_c = tr(Xᵀ B)` with `A X = B`, `A` symmetric: its first-order change is
`2·tr(Xᵀ dB) − Σ_c x_cᵀ dA x_c` — the rhs receives `2·solves` and the parameters `_bilinear_derivative(−solves, solves)`,
as `InvQuad.backward` computes (before the upstream factor). -/
theorem invQuad_backward {n c : Nat} (A dA : Matrix (Fin n) (Fin n) α) (X dX B dB : Matrix (Fin n) (Fin c) α)
    (hs : Aᵀ = A) (h0 : A * X = B) (h1 : A * dX + dA * X = dB) :
    Matrix.trace (dXᵀ * B) + Matrix.trace (Xᵀ * dB)
      = Matrix.trace (Xᵀ * dB) + Matrix.trace (Xᵀ * dB) - bilS dA X X :=
  invQuad_first_order A dA X dX B dB hs h0 h1

/-- **logdet backward**: in a commutative ring with a square-zero element `e` (the dual numbers `K[ε]`, `e = ε`),
`det(A + e·dA) = det A · (1 + e · tr(A⁻¹ dA))`, i.e. `d log det A = tr(A⁻¹ dA)`. -/
theorem logdet_backward {n : Nat} {S : Type} [CommRing S] (e : S) (he : e * e = 0)
    (A Ainv dA : Matrix (Fin n) (Fin n) S) (hinv : A * Ainv = 1) :
    Matrix.det (A + e • dA) = Matrix.det A * (1 + e * Matrix.trace (Ainv * dA)) :=
  det_add_eps_smul e he A Ainv dA hinv

/-- The probe estimator `Σ_c z_cᵀ A⁻¹ dA z_c` of `InvQuadLogdet.backward` equals `tr(A⁻¹ dA)` exactly for a complete
orthonormal probe set (`Z Zᵀ = I`) — the form the harness checks on the CG path. -/
theorem logdet_probe_estimator {n : Nat} (Ainv dA Z : Matrix (Fin n) (Fin n) α) (hZ : Z * Zᵀ = 1) :
    Matrix.trace (Zᵀ * (Ainv * dA) * Z) = Matrix.trace (Ainv * dA) :=
  probe_estimator_exact Ainv dA Z hZ

/-- **Concatenated factors** (`Solve.backward`, `InvQuadLogdet.backward`): feeding the concatenated left factors `[L | R]`
and right factors `−½·[R | L]` ONCE to `_bilinear_derivative` yields, for EVERY operator tree and every parameter
perturbation, the sum of the two symmetrised terms `−½ (Σ_c l_cᵀ D r_c + Σ_c r_cᵀ D l_c)`, `D = D⟦op⟧_θ[δ]`. -/
theorem solveBackward_concatenated {n : Nat} (o : Op n n) (θ δ : Param α o) (half : α) {d : Nat} (L R : Mat α n d) :
    pair o (symmetrisedDeriv o θ half L R) δ
      = (bilS (dDenote o θ δ) L R + bilS (dDenote o θ δ) R L) * (-half) :=
  symmetrisedDeriv_pair o θ δ half L R

/-- **Symmetrised solve gradient**: along a perturbation that keeps the matrix symmetric (`D⟦op⟧_θ[δ]` symmetric) and with
`half + half = 1`, the concatenated call equals the single term `−Σ_c l_cᵀ D r_c` — with `L = A⁻¹G`, `R = A⁻¹B` this is the
parameter part of `solve_backward_scalar`. -/
theorem solveBackward_symmetrised {n : Nat} (o : Op n n) (θ δ : Param α o) (half : α) (hh : half + half = 1)
    (hD : ∀ i j, dDenote o θ δ i j = dDenote o θ δ j i) {d : Nat} (L R : Mat α n d) :
    pair o (symmetrisedDeriv o θ half L R) δ = - bilS (dDenote o θ δ) L R :=
  symmetrisedDeriv_symm o θ δ half hh hD L R

/-- **Rebuild from the saved tensors**: `representation_tree()(*representation())` gives back the operator's parameters
(flat-list form, every operator tree of the model). -/
theorem rebuild_flatten {n m : Nat} (o : Op n m) (θ : Param α o) (rest : List α) :
    rebuild o (flat o θ ++ rest) = (θ, rest) :=
  rebuild_flat o θ rest

/-- **`settings.memory_efficient` is irrelevant, Matmul**: with the flag on (`ctx._linear_op` absent, operator rebuilt from
the saved tensors) and off (operator object kept), `Matmul.backward` returns the same parameter and rhs gradients. -/
theorem memoryEfficient_irrelevant_matmul {n m c : Nat} (o : Op n m) (θ : Param α o) (rhs : Mat α m c) (G : Mat α n c) :
    matmulBackward o (matmulForwardCtx true o θ rhs) G = matmulBackward o (matmulForwardCtx false o θ rhs) G :=
  matmulBackward_memoryEfficient o θ rhs G

/-- **`settings.memory_efficient` is irrelevant, Solve / InvQuad**: the parameter gradients computed from the saved solves
with the rebuilt operator equal those computed with the kept operator. -/
theorem memoryEfficient_irrelevant_solve {n c : Nat} (o : Op n n) (θ : Param α o) (half : α) (X Ls : Mat α n c) :
    solveBackwardArgs o (solveForwardCtx true o θ X) half Ls = solveBackwardArgs o (solveForwardCtx false o θ X) half Ls :=
  solveBackward_memoryEfficient o θ half X Ls

/-- The hypotheses of `solveBackward_symmetrised` are satisfiable: `½ + ½ = 1` in ℚ, and a diagonal operator is symmetric
along every perturbation. -/
example : ((1 : ℚ) / 2) + 1 / 2 = 1 := by norm_num
example (θ δ : Param ℚ (.diag 3)) (i j : Fin 3) : dDenote (.diag 3) θ δ i j = dDenote (.diag 3) θ δ j i := by
  rw [dDenote_diag, dDenote_diag]
  by_cases h : i = j
  · subst h; rfl
  · have h' : ¬ j = i := fun e => h e.symm
    simp [h, h']

/-- A non-trivial instance of the main theorem's quantifier: a depth-4 nesting through every kind of step. -/
example : Op 3 3 := .constMul (.matmul (.sum (.toeplitz 3) (.dense 3 3))
    (.sumBatch 2 (.mul (.blockDiag 3 (.diag 1)) (.masked (fun i => i) (fun j => j) (.dense 3 3)))))

end LinOp.C07
