import LinOp.C07.Model
/-!
C07 — gradients through operators equal gradients through the dense computation.  Property theorems only.
-/
namespace LinOp.C07

/-- **Tuple alignment**: the tuple returned by the hand-written `_bilinear_derivative` of every operator
tree has exactly one entry per tensor of `representation()`. -/
theorem bilinearDerivative_aligned_length {n m : Nat} (o : Op n m) :
    (gradSlots o).length = (slots o).length := by
  induction o <;> simp_all [gradSlots, slots]

end LinOp.C07
