import LinOp.C07.ProofsStruct
/-!
C07 — gradients through operators equal gradients through the dense computation.  Property theorems only.

Derivatives are defined algebraically by dual numbers (`Dual α` = α[ε]/ε², `dDenote o θ δ` = ε-part of
`⟦o⟧(θ+εδ)`), over an arbitrary commutative ring: no analysis.  `bilinDeriv` mirrors the hand-written
`_bilinear_derivative` code of each class; `pair o g δ = Σ_k g_k δ_k` over all floating parameters.
-/
namespace LinOp.C07
open LinOp Matrix

variable {α : Type} [CommRing α]

/-- **Hand-written derivative = derivative of the dense matrix** (`bilinearDerivative_<class>` for Dense, Diag,
ConstantDiag, ConstantMul incl. the constant's own gradient, Matmul, Sum/AddedDiag, SumBatch, and all their
nestings of any depth and any sizes): for every perturbation `δ` of the parameters,
`Σ_k (op._bilinear_derivative(U, V))_k · δ_k = Σ_c u_cᵀ (D⟦op⟧_θ[δ]) v_c`, the ε-part of `Σ_c u_cᵀ ⟦op(θ+εδ)⟧ v_c`.
PARTIAL with respect to the full model grammar: the classes Toeplitz, Mul, Masked, Interpolated, BlockDiag,
BlockInterleaved are modelled and executed (driver correspondence, `dbil` protocol) but their step lemmas are not
closed; the full claim is `∀ o : Op n m, pair o (bilinDeriv o θ U V) δ = bil (dDenote o θ δ) U V`. -/
theorem bilinearDerivative_supported_partial {n m : Nat} {o : Op n m} (h : Supported o) (θ δ : Param α o)
    {d : Nat} (U : Mat α n d) (V : Mat α m d) :
    pair o (bilinDeriv o θ U V) δ = bil (dDenote o θ δ) U V := by
  rw [bil_eq_bilS]
  exact (supported_correct h).2 θ δ d U V

/-- The ε⁰-part of the dual-number evaluation is the operator itself: `⟦o⟧(θ+εδ) = ⟦o⟧θ + ε·(…)`. -/
theorem denote_dual_re {n m : Nat} {o : Op n m} (h : Supported o) (θ δ : Param α o) (i : Fin n) (j : Fin m) :
    (denote o (mkDual o θ δ) i j).re = denote o θ i j :=
  (supported_correct h).1 θ δ i j

/-- **Nesting** (`bilinearDerivative_nested`, the Matmul step): if both factors' derivative code is correct for
ALL vector pairs, then the product's is — its code hands the *intermediate* vectors `B V` and `Aᵀ U` to the factors.
The hypotheses are exactly the induction hypotheses; the factors may be arbitrary operator trees. -/
theorem bilinearDerivative_nested_matmul {n k m : Nat} (a : Op n k) (b : Op k m)
    (hra : ReOK α a) (hrb : ReOK α b) (ha : Correct α a) (hb : Correct α b) : Correct α (.matmul a b) :=
  correct_matmul a b hra hrb ha hb

/-- Nesting, ConstantMul step: the sub-operator receives `c·U`; the constant receives `Σ u_cᵀ ⟦base⟧ v_c`. -/
theorem bilinearDerivative_nested_constMul {n m : Nat} (o : Op n m) (hr : ReOK α o) (h : Correct α o) :
    Correct α (.constMul o) :=
  correct_constMul o hr h

/-- Nesting, SumBatch step (`broadcast_params_summed`, block form): every batch member of the base receives the
same vectors, and the pairing is the SUM over the members. -/
theorem bilinearDerivative_nested_sumBatch {n m : Nat} (k : Nat) (o : Op n m) (h : Correct α o) :
    Correct α (.sumBatch k o) :=
  correct_sumBatch k o h

/-- **Tuple alignment, length**: the tuple returned by the hand-written `_bilinear_derivative` of every operator
tree (all classes of the model) has exactly one entry per tensor of `representation()`. -/
theorem bilinearDerivative_aligned_length {n m : Nat} (o : Op n m) :
    (gradSlots o).length = (slots o).length := by
  induction o <;> simp_all [gradSlots, slots]

/-- **Tuple alignment, order**: position by position, floating tensors receive a gradient, index tensors
(Interpolated) zeros, masks (Masked) `None`. -/
theorem bilinearDerivative_aligned {n m : Nat} (o : Op n m) :
    List.Forall₂ (fun s g => slotMatches s g = true) (slots o) (gradSlots o) := by
  induction o with
  | dense | diag | constDiag | toeplitz => simp [slots, gradSlots, slotMatches]
  | constMul o ih => exact List.rel_append ih (by simp [slotMatches])
  | matmul a b iha ihb => exact List.rel_append iha ihb
  | sum a b iha ihb => exact List.rel_append iha ihb
  | mul a b iha ihb => exact List.rel_append iha ihb
  | masked rows cols o ih => exact List.rel_append ih (by simp [slotMatches])
  | interp ql qr li ri o ih => exact List.rel_append ih (by simp [slotMatches])
  | blockDiag k o ih => exact ih
  | blockInterleaved k o ih => exact ih
  | sumBatch k o ih => exact ih

/-- **matmul backward**: for `Y = A B` the first-order change is `dY = dA B + A dB`; against an upstream gradient `G`,
`⟨G, dY⟩ = tr(Gᵀ dA B) + ⟨Aᵀ G, dB⟩` — the parameters receive `_bilinear_derivative(G, B)` and the right-hand side
receives `A._t_matmul(G)`, as `Matmul.backward` computes. -/
theorem matmul_backward {n k c : Nat} (A dA : Matrix (Fin n) (Fin k) α) (B dB : Matrix (Fin k) (Fin c) α)
    (G : Matrix (Fin n) (Fin c) α) :
    Matrix.trace (Gᵀ * (dA * B + A * dB)) = bilS dA G B + Matrix.trace ((Aᵀ * G)ᵀ * dB) := by
  have hb : bilS dA G B = Matrix.trace (Gᵀ * dA * B) := rfl
  rw [hb]
  simp only [Matrix.mul_add, Matrix.trace_add, Matrix.transpose_mul, Matrix.transpose_transpose, Matrix.mul_assoc]

/-- **solve backward**: if `A X = B` and, to first order, `(A+εdA)(X+εdX) = B+εdB` (i.e. `A dX + dA X = dB`), then
`dX = A⁻¹ (dB − dA X)`: the derivative of the solve is `−A⁻¹ dA A⁻¹ B + A⁻¹ dB`. -/
theorem solve_backward {n c : Nat} (A Ainv dA : Matrix (Fin n) (Fin n) α) (X dX B dB : Matrix (Fin n) (Fin c) α)
    (hinv : Ainv * A = 1) (_h0 : A * X = B) (h1 : A * dX + dA * X = dB) :
    dX = Ainv * (dB - dA * X) := by
  rw [← h1, add_sub_cancel_right, ← Matrix.mul_assoc, hinv, Matrix.one_mul]

/-- **solve backward, scalarised**: with `Ls = A⁻ᵀ G` (the code's `left_solves`), `⟨G, dX⟩ = ⟨Ls, dB⟩ − tr(Lsᵀ dA X)`:
the right-hand side receives `Ls` and the parameters `_bilinear_derivative` with factors pairing to `−Ls Xᵀ`. -/
theorem solve_backward_scalar {n c : Nat} (A Ainv dA : Matrix (Fin n) (Fin n) α) (X dX B dB G : Matrix (Fin n) (Fin c) α)
    (hinv : Ainv * A = 1) (h0 : A * X = B) (h1 : A * dX + dA * X = dB) :
    Matrix.trace (Gᵀ * dX) = Matrix.trace ((Ainvᵀ * G)ᵀ * dB) - bilS dA (Ainvᵀ * G) X := by
  have hb : bilS dA (Ainvᵀ * G) X = Matrix.trace ((Ainvᵀ * G)ᵀ * dA * X) := rfl
  rw [solve_backward A Ainv dA X dX B dB hinv h0 h1, hb]
  simp only [Matrix.transpose_mul, Matrix.transpose_transpose, Matrix.mul_sub, Matrix.trace_sub, Matrix.mul_assoc]

/-- The hypotheses of the main theorem are satisfiable by a depth-3 nesting. -/
example : Supported (.constMul (.matmul (.sum (.dense 2 3) (.dense 2 3)) (.sumBatch 2 (.dense 3 2)))) :=
  .constMul (.matmul (.sum (.dense 2 3) (.dense 2 3)) (.sumBatch 2 (.dense 3 2)))

end LinOp.C07
