import LinOp.C07.ProofsSym
import LinOp.C07.ProofsBackward
import LinOp.C07.ProofsEig
import Mathlib.Tactic.NormNum
import LinOp.C07.ProofsFunc
import LinOp.C07.ProofsEntry
import LinOp.Generated.C07Funcs
import Mathlib.Tactic.FinCases
/-!
C07 — gradients through operators equal gradients through the dense computation.  Property theorems only.

Derivatives are defined algebraically by dual numbers (`Dual α` = α[ε]/ε², `dDenote o θ δ` = ε-part of
`⟦o⟧(θ+εδ)`), over an arbitrary commutative ring: no analysis.  `bilinDeriv` mirrors the hand-written
`_bilinear_derivative` code of each class; `pair o g δ = Σ_k g_k δ_k` over all floating parameters.
-/
namespace LinOp.C07
open LinOp Matrix

variable {α : Type} [CommRing α]

/-- **`_bilinear_derivative` (hand-written or inherited) = derivative of the dense matrix** (`bilinearDerivative_<class>` and
`bilinearDerivative_nested` in one statement), FULL: for EVERY operator tree of the model — Dense / Triangular, Diag,
ConstantDiag, Toeplitz (`sym_toeplitz_derivative_quadratic_form`), ConstantMul (incl. the constant's own gradient), Matmul,
Sum / AddedDiag / PsdSum / LowRankRootAddedDiag / KroneckerProductAddedDiag / SumKronecker, Mul (root branch `mulRoot` and the
dead non-root branch `mul`), Masked, Interpolated, BlockDiag, BlockInterleaved, SumBatch, and the classes that inherit the default
derivative (reverse sweep through their own `_matmul`): Root / LowRankRoot / Chol, Kronecker (binary constructor; P factors are
the right-nested tree, which is the loop of `_matmul`), Cat along rows / columns, transposes — nested to any depth, any sizes,
any number of vector pairs — and every perturbation `δ` of the parameters,
`Σ_k (op._bilinear_derivative(U, V))_k · δ_k = Σ_c u_cᵀ (D⟦op⟧_θ[δ]) v_c`, the ε-part of `Σ_c u_cᵀ ⟦op(θ+εδ)⟧ v_c`.
Structural induction over all 19 constructors (`all_correct`), each step feeding the intermediate vectors to the sub-operator. -/
theorem bilinearDerivative_all {n m : Nat} (o : Op n m) (θ δ : Param α o) {d : Nat} (U : Mat α n d) (V : Mat α m d) :
    pair o (bilinDeriv o θ U V) δ = bil (dDenote o θ δ) U V := by
  rw [bil_eq_bilS]
  exact (all_correct o (Or.inr correct_toeplitz)).2 θ δ d U V

/-- The Toeplitz leaf on its own: `sym_toeplitz_derivative_quadratic_form(U, V)[k] = Σ_c Σ_{|a−b| = k} U[a,c] V[b,c]`
(two triangular Toeplitz products minus the doubly counted diagonal). -/
theorem bilinearDerivative_toeplitz {n d : Nat} (U V : Mat α n d) (k : Fin n) :
    toeplitzQF U V k = ∑ c, ∑ b, (∑ a, if absDiff a b = k then U a c else 0) * V b c :=
  toeplitzQF_eq U V k

/-- The ε⁰-part of the dual-number evaluation is the operator itself: `⟦o⟧(θ+εδ) = ⟦o⟧θ + ε·(…)`, all trees. -/
theorem denote_dual_re {n m : Nat} (o : Op n m) (θ δ : Param α o) (i : Fin n) (j : Fin m) :
    (denote o (mkDual o θ δ) i j).re = denote o θ i j := by
  induction o with
  | dense n m => exact reOK_dense n m θ δ i j
  | diag n => exact reOK_diag n θ δ i j
  | constDiag n => exact reOK_constDiag n θ δ i j
  | toeplitz n => exact reOK_toeplitz n θ δ i j
  | constMul o ih => exact reOK_constMul o ih θ δ i j
  | matmul a b iha ihb => exact reOK_matmul a b iha ihb θ δ i j
  | sum a b iha ihb => exact reOK_sum a b iha ihb θ δ i j
  | mul a b iha ihb => exact reOK_mul a b iha ihb θ δ i j
  | masked rows cols o ih => exact reOK_masked rows cols o ih θ δ i j
  | interp ql qr li ri o ih => exact reOK_interp ql qr li ri o ih θ δ i j
  | blockDiag k o ih => exact reOK_blockDiag k o ih θ δ i j
  | blockInterleaved k o ih => exact reOK_blockInterleaved k o ih θ δ i j
  | sumBatch k o ih => exact reOK_sumBatch k o ih θ δ i j
  | transpose o ih => exact reOK_transpose o ih θ δ i j
  | root o ih => exact reOK_root o ih θ δ i j
  | mulRoot a b iha ihb => exact reOK_mulRoot a b iha ihb θ δ i j
  | kron a b iha ihb => exact reOK_kron a b iha ihb θ δ i j
  | catRows a b iha ihb => exact reOK_catRows a b iha ihb θ δ i j
  | catCols a b iha ihb => exact reOK_catCols a b iha ihb θ δ i j

/-- **BatchRepeat / broadcast parameters are summed** (`broadcast_params_summed`): moving the repeat batches into the
columns delivers to the base operator's parameters the SUM over the repeats of the per-repeat bilinear forms. -/
theorem batchRepeat_params_summed {n m : Nat} (o : Op n m) (θ δ : Param α o) {r d : Nat}
    (U : Fin r → Mat α n d) (V : Fin r → Mat α m d) :
    pair o (batchRepeatDeriv o θ U V) δ = ∑ q, bil (dDenote o θ δ) (U q) (V q) := by
  simp only [bil_eq_bilS]
  exact batchRepeatDeriv_correct o (all_correct o (Or.inr correct_toeplitz)).2 θ δ U V

/-- **Nesting** (`bilinearDerivative_nested`, the Matmul step): if both factors' derivative code is correct for
ALL vector pairs, then the product's is — its code hands the *intermediate* vectors `B V` and `Aᵀ U` to the factors.
The hypotheses are exactly the induction hypotheses; the factors may be arbitrary operator trees. -/
theorem bilinearDerivative_nested_matmul {n k m : Nat} (a : Op n k) (b : Op k m)
    (hra : ReOK α a) (hrb : ReOK α b) (ha : Correct α a) (hb : Correct α b) : Correct α (.matmul a b) :=
  correct_matmul a b hra hrb ha hb

/-- Nesting, ConstantMul step: the sub-operator receives `c·U`; the constant receives `Σ u_cᵀ ⟦base⟧ v_c`. -/
theorem bilinearDerivative_nested_constMul {n m : Nat} (o : Op n m) (hr : ReOK α o) (h : Correct α o) :
    Correct α (.constMul o) :=
  correct_constMul o hr h

/-- Nesting, SumBatch step (`broadcast_params_summed`, block form): every batch member of the base receives the
same vectors, and the pairing is the SUM over the members. -/
theorem bilinearDerivative_nested_sumBatch {n m : Nat} (k : Nat) (o : Op n m) (h : Correct α o) :
    Correct α (.sumBatch k o) :=
  correct_sumBatch k o h

/-- Nesting, Root / LowRankRoot / Chol step: the default derivative (reverse sweep through `root._matmul(root._t_matmul(rhs))`)
hands `(U, Rᵀ V)` and `(V, Rᵀ U)` to the root operator and ADDS the two tuples; correct if the root operator's derivative is. -/
theorem bilinearDerivative_nested_root {n k : Nat} (o : Op n k) (hr : ReOK α o) (h : Correct α o) : Correct α (.root o) :=
  correct_root o hr h

/-- Nesting, Mul (root branch, the live branch of the hand-written code): each Root factor receives the `rank·d` columns
`U[:,c]·R_other[:,r]`, `V[:,c]·R_other[:,r]`; pairs to the derivative of `(R_a R_aᵀ) ∘ (R_b R_bᵀ)`. -/
theorem bilinearDerivative_nested_mulRoot {n k₁ k₂ : Nat} (a : Op n k₁) (b : Op n k₂)
    (hra : ReOK α a) (hrb : ReOK α b) (ha : Correct α a) (hb : Correct α b) : Correct α (.mulRoot a b) :=
  correct_mulRoot a b hra hrb ha hb

/-- Nesting, Kronecker step: the reverse sweep through the view / `factor._matmul` / `transpose(-3,-2)` / reshape loop gives
the first factor `(Bᵀ-applied upstream, re-viewed rhs)` and the second `(re-viewed upstream, first factor's output)`, with
`m₂·d` resp. `n₁·d` columns; pairs to `dA ⊗ B + A ⊗ dB`.  Right-nesting gives any number of factors. -/
theorem bilinearDerivative_nested_kron {n₁ m₁ n₂ m₂ : Nat} (a : Op n₁ m₁) (b : Op n₂ m₂)
    (hra : ReOK α a) (hrb : ReOK α b) (ha : Correct α a) (hb : Correct α b) : Correct α (.kron a b) :=
  correct_kron a b hra hrb ha hb

/-- Nesting, Cat step (rows: `torch.cat` of the parts' products — each part gets its rows of `U`; columns: sum of the parts'
products with the matching rows of the rhs — each part gets its rows of `V`). -/
theorem bilinearDerivative_nested_cat {n₁ n₂ n m m₁ m₂ : Nat} (a : Op n₁ m) (b : Op n₂ m) (a' : Op n m₁) (b' : Op n m₂)
    (ha : Correct α a) (hb : Correct α b) (ha' : Correct α a') (hb' : Correct α b') :
    Correct α (.catRows a b) ∧ Correct α (.catCols a' b') :=
  ⟨correct_catRows a b ha hb, correct_catCols a' b' ha' hb'⟩

/-- Nesting, transpose step: `uᵀ Aᵀ v = vᵀ A u`. -/
theorem bilinearDerivative_nested_transpose {n m : Nat} (o : Op n m) (h : Correct α o) : Correct α (.transpose o) :=
  correct_transpose o h

/-- Reverse-mode accumulation: the tuple `addP g h` (two uses of the same tensors) pairs to the sum of the pairings. -/
theorem gradient_accumulation {n m : Nat} (o : Op n m) (g h δ : Param α o) :
    pair o (addP o g h) δ = pair o g δ + pair o h δ :=
  pair_addP o g h δ

/-- **Tuple alignment, length**: the tuple returned by the hand-written `_bilinear_derivative` of every operator
tree (all classes of the model) has exactly one entry per tensor of `representation()`. -/
theorem bilinearDerivative_aligned_length {n m : Nat} (o : Op n m) :
    (gradSlots o).length = (slots o).length := by
  induction o <;> simp_all [gradSlots, slots]

/-- **Tuple alignment, order**: position by position, floating tensors receive a gradient, index tensors
(Interpolated) zeros, masks (Masked) `None`. -/
theorem bilinearDerivative_aligned {n m : Nat} (o : Op n m) :
    List.Forall₂ (fun s g => slotMatches s g = true) (slots o) (gradSlots o) := by
  induction o with
  | dense | diag | constDiag | toeplitz => simp [slots, gradSlots, slotMatches]
  | constMul o ih => exact List.rel_append ih (by simp [slotMatches])
  | matmul a b iha ihb => exact List.rel_append iha ihb
  | sum a b iha ihb => exact List.rel_append iha ihb
  | mul a b iha ihb => exact List.rel_append iha ihb
  | masked rows cols o ih => exact List.rel_append ih (by simp [slotMatches])
  | interp ql qr li ri o ih => exact List.rel_append ih (by simp [slotMatches])
  | blockDiag k o ih => exact ih
  | blockInterleaved k o ih => exact ih
  | sumBatch k o ih => exact ih
  | transpose o ih => exact ih
  | root o ih => exact ih
  | mulRoot a b iha ihb => exact List.rel_append iha ihb
  | kron a b iha ihb => exact List.rel_append iha ihb
  | catRows a b iha ihb => exact List.rel_append iha ihb
  | catCols a b iha ihb => exact List.rel_append iha ihb

/-- **matmul backward**: for `Y = A B` the first-order change is `dY = dA B + A dB`; against an upstream gradient `G`,
`⟨G, dY⟩ = tr(Gᵀ dA B) + ⟨Aᵀ G, dB⟩` — the parameters receive `_bilinear_derivative(G, B)` and the right-hand side
receives `A._t_matmul(G)`, as `Matmul.backward` computes. -/
theorem matmul_backward {n k c : Nat} (A dA : Matrix (Fin n) (Fin k) α) (B dB : Matrix (Fin k) (Fin c) α)
    (G : Matrix (Fin n) (Fin c) α) :
    Matrix.trace (Gᵀ * (dA * B + A * dB)) = bilS dA G B + Matrix.trace ((Aᵀ * G)ᵀ * dB) := by
  have hb : bilS dA G B = Matrix.trace (Gᵀ * dA * B) := rfl
  rw [hb]
  simp only [Matrix.mul_add, Matrix.trace_add, Matrix.transpose_mul, Matrix.transpose_transpose, Matrix.mul_assoc]

/-- **solve backward**: if `A X = B` and, to first order, `(A+εdA)(X+εdX) = B+εdB` (i.e. `A dX + dA X = dB`), then
`dX = A⁻¹ (dB − dA X)`: the derivative of the solve is `−A⁻¹ dA A⁻¹ B + A⁻¹ dB`. -/
theorem solve_backward {n c : Nat} (A Ainv dA : Matrix (Fin n) (Fin n) α) (X dX B dB : Matrix (Fin n) (Fin c) α)
    (hinv : Ainv * A = 1) (_h0 : A * X = B) (h1 : A * dX + dA * X = dB) :
    dX = Ainv * (dB - dA * X) := by
  rw [← h1, add_sub_cancel_right, ← Matrix.mul_assoc, hinv, Matrix.one_mul]

/-- **solve backward, scalarised**: with `Ls = A⁻ᵀ G` (the code's `left_solves`), `⟨G, dX⟩ = ⟨Ls, dB⟩ − tr(Lsᵀ dA X)`:
the right-hand side receives `Ls` and the parameters `_bilinear_derivative` with factors pairing to `−Ls Xᵀ`. -/
theorem solve_backward_scalar {n c : Nat} (A Ainv dA : Matrix (Fin n) (Fin n) α) (X dX B dB G : Matrix (Fin n) (Fin c) α)
    (hinv : Ainv * A = 1) (h0 : A * X = B) (h1 : A * dX + dA * X = dB) :
    Matrix.trace (Gᵀ * dX) = Matrix.trace ((Ainvᵀ * G)ᵀ * dB) - bilS dA (Ainvᵀ * G) X := by
  have hb : bilS dA (Ainvᵀ * G) X = Matrix.trace ((Ainvᵀ * G)ᵀ * dA * X) := rfl
  rw [solve_backward A Ainv dA X dX B dB hinv h0 h1, hb]
  simp only [Matrix.transpose_mul, Matrix.transpose_transpose, Matrix.mul_sub, Matrix.trace_sub, Matrix.mul_assoc]

/-- **Broadcast parameters are summed, arbitrary pattern** (`broadcast_params_summed`): if batch member `b` reads entry
`π b` of a parameter (any broadcast pattern — scalar, missing leading dims, leading or NON-leading size-1 dims) and `g b` is
the member's gradient, then the summed-back gradient `bcastSum π g` pairs with a perturbation `δ` of the small parameter
exactly as the members' gradients pair with the perturbation each member sees. -/
theorem broadcast_params_summed {B K : Nat} (π : Fin B → Fin K) (g : Fin B → α) (δ : Fin K → α) :
    ∑ k, bcastSum π g k * δ k = ∑ b, g b * δ (π b) :=
  bcastSum_pair π g δ

/-- **ConstantMul with a broadcast constant**: for a batch of members `b` with base parameters `θ b` and constant entry
`c (π b)`, the constant's gradient summed back along the pattern `π` pairs with `δc` to the total ε-part contributed by the
constant: `Σ_b Σ_c u_cᵀ (⟦base_b⟧ · δc(π b)) v_c` — for every base operator tree and every pattern. -/
theorem constMul_broadcast_constant {n m B K : Nat} (o : Op n m) (π : Fin B → Fin K) (θ : Fin B → Param α o) (c δc : Fin K → α)
    {d : Nat} (U : Fin B → Mat α n d) (V : Fin B → Mat α m d) :
    ∑ k, bcastSum π (fun b => (bilinDeriv (.constMul o) (θ b, c (π b)) (U b) (V b)).2) k * δc k
      = ∑ b, bilS (fun i j => denote o (θ b) i j * δc (π b)) (U b) (V b) := by
  rw [bcastSum_pair]
  exact Finset.sum_congr rfl fun b _ => constMul_const_grad o (θ b, c (π b)) (U b) (V b) (δc (π b))

/-- **inv_quad backward**: `q = Σ_c b_cᵀ A⁻¹ b_c = tr(Xᵀ B)` with `A X = B`, `A` symmetric: its first-order change is
`2·tr(Xᵀ dB) − Σ_c x_cᵀ dA x_c` — the rhs receives `2·solves` and the parameters `_bilinear_derivative(−solves, solves)`,
as `InvQuad.backward` computes (before the upstream factor). -/
theorem invQuad_backward {n c : Nat} (A dA : Matrix (Fin n) (Fin n) α) (X dX B dB : Matrix (Fin n) (Fin c) α)
    (hs : Aᵀ = A) (h0 : A * X = B) (h1 : A * dX + dA * X = dB) :
    Matrix.trace (dXᵀ * B) + Matrix.trace (Xᵀ * dB)
      = Matrix.trace (Xᵀ * dB) + Matrix.trace (Xᵀ * dB) - bilS dA X X :=
  invQuad_first_order A dA X dX B dB hs h0 h1

/-- **logdet backward**: in a commutative ring with a square-zero element `e` (the dual numbers `K[ε]`, `e = ε`),
`det(A + e·dA) = det A · (1 + e · tr(A⁻¹ dA))`, i.e. `d log det A = tr(A⁻¹ dA)`. -/
theorem logdet_backward {n : Nat} {S : Type} [CommRing S] (e : S) (he : e * e = 0)
    (A Ainv dA : Matrix (Fin n) (Fin n) S) (hinv : A * Ainv = 1) :
    Matrix.det (A + e • dA) = Matrix.det A * (1 + e * Matrix.trace (Ainv * dA)) :=
  det_add_eps_smul e he A Ainv dA hinv

/-- The probe estimator `Σ_c z_cᵀ A⁻¹ dA z_c` of `InvQuadLogdet.backward` equals `tr(A⁻¹ dA)` exactly for a complete
orthonormal probe set (`Z Zᵀ = I`) — the form the harness checks on the CG path. -/
theorem logdet_probe_estimator {n : Nat} (Ainv dA Z : Matrix (Fin n) (Fin n) α) (hZ : Z * Zᵀ = 1) :
    Matrix.trace (Zᵀ * (Ainv * dA) * Z) = Matrix.trace (Ainv * dA) :=
  probe_estimator_exact Ainv dA Z hZ

/-- **Concatenated factors** (`Solve.backward`, `InvQuadLogdet.backward`): feeding the concatenated left factors `[L | R]`
and right factors `−½·[R | L]` ONCE to `_bilinear_derivative` yields, for EVERY operator tree and every parameter
perturbation, the sum of the two symmetrised terms `−½ (Σ_c l_cᵀ D r_c + Σ_c r_cᵀ D l_c)`, `D = D⟦op⟧_θ[δ]`. -/
theorem solveBackward_concatenated {n : Nat} (o : Op n n) (θ δ : Param α o) (half : α) {d : Nat} (L R : Mat α n d) :
    pair o (symmetrisedDeriv o θ half L R) δ
      = (bilS (dDenote o θ δ) L R + bilS (dDenote o θ δ) R L) * (-half) :=
  symmetrisedDeriv_pair o θ δ half L R

/-- **Symmetrised solve gradient**: along a perturbation that keeps the matrix symmetric (`D⟦op⟧_θ[δ]` symmetric) and with
`half + half = 1`, the concatenated call equals the single term `−Σ_c l_cᵀ D r_c` — with `L = A⁻¹G`, `R = A⁻¹B` this is the
parameter part of `solve_backward_scalar`. -/
theorem solveBackward_symmetrised {n : Nat} (o : Op n n) (θ δ : Param α o) (half : α) (hh : half + half = 1)
    (hD : ∀ i j, dDenote o θ δ i j = dDenote o θ δ j i) {d : Nat} (L R : Mat α n d) :
    pair o (symmetrisedDeriv o θ half L R) δ = - bilS (dDenote o θ δ) L R :=
  symmetrisedDeriv_symm o θ δ half hh hD L R

/-- **Rebuild from the saved tensors**: `representation_tree()(*representation())` gives back the operator's parameters
(flat-list form, every operator tree of the model). -/
theorem rebuild_flatten {n m : Nat} (o : Op n m) (θ : Param α o) (rest : List α) :
    rebuild o (flat o θ ++ rest) = (θ, rest) :=
  rebuild_flat o θ rest

/-- **`settings.memory_efficient` is irrelevant, Matmul**: with the flag on (`ctx._linear_op` absent, operator rebuilt from
the saved tensors) and off (operator object kept), `Matmul.backward` returns the same parameter and rhs gradients. -/
theorem memoryEfficient_irrelevant_matmul {n m c : Nat} (o : Op n m) (θ : Param α o) (rhs : Mat α m c) (G : Mat α n c) :
    matmulBackward o (matmulForwardCtx true o θ rhs) G = matmulBackward o (matmulForwardCtx false o θ rhs) G :=
  matmulBackward_memoryEfficient o θ rhs G

/-- **`settings.memory_efficient` is irrelevant, Solve / InvQuad**: the parameter gradients computed from the saved solves
with the rebuilt operator equal those computed with the kept operator. -/
theorem memoryEfficient_irrelevant_solve {n c : Nat} (o : Op n n) (θ : Param α o) (half : α) (X Ls : Mat α n c) :
    solveBackwardArgs o (solveForwardCtx true o θ X) half Ls = solveBackwardArgs o (solveForwardCtx false o θ X) half Ls :=
  solveBackward_memoryEfficient o θ half X Ls

/-- **solve backward with a left factor** (`Y = L A⁻¹ R`, the `has_left` branch of `Solve.backward`): the left factor receives
`G Xᵀ` (`X = A⁻¹R` the saved solves), the rhs `A⁻ᵀ Lᵀ G`, the parameters the bilinear form with `−(A⁻ᵀLᵀG) Xᵀ`. -/
theorem solve_backward_left {n c l : Nat} (A Ainv dA : Matrix (Fin n) (Fin n) α) (X dX R dR : Matrix (Fin n) (Fin c) α)
    (L dL : Matrix (Fin l) (Fin n) α) (G : Matrix (Fin l) (Fin c) α)
    (hinv : Ainv * A = 1) (h1 : A * dX + dA * X = dR) :
    Matrix.trace (Gᵀ * (dL * X + L * dX))
      = Matrix.trace ((G * Xᵀ)ᵀ * dL) + (Matrix.trace ((Ainvᵀ * (Lᵀ * G))ᵀ * dR) - bilS dA (Ainvᵀ * (Lᵀ * G)) X) :=
  solveLeft_pullback A Ainv dA X dX R dR L dL G hinv h1

/-- **First-order perturbation of the eigen-decomposition under the eigh contract** (`A U = U Λ`, `Uᵀ U = 1`, `A` symmetric,
distinct eigenvalues expressed by a kernel `F` with `F_ij (λ_j − λ_i) = 1` for `i ≠ j`, `F_ii = 0`; `2` cancellable): if
`(A+εdA)(U+εdU) = (U+εdU)(Λ+εdΛ)` and `(U+εdU)ᵀ(U+εdU) = 1` to first order, then `dλ_i = (Uᵀ dA U)_ii` and
`Uᵀ dU = F ∘ (Uᵀ dA U)`, i.e. `dU = U (F ∘ (Uᵀ dA U))`. -/
theorem diagonalization_first_order {n : Nat} (U A dA dU F : Matrix (Fin n) (Fin n) α) (lam dlam : Fin n → α)
    (hU : Uᵀ * U = 1) (hA : A * U = U * Matrix.diagonal lam) (hAs : Aᵀ = A)
    (h1 : dA * U + A * dU = dU * Matrix.diagonal lam + U * Matrix.diagonal dlam)
    (h2 : dUᵀ * U + Uᵀ * dU = 0)
    (hF : ∀ i j, i ≠ j → F i j * (lam j - lam i) = 1) (hF0 : ∀ i, F i i = 0) (h2c : ∀ x : α, x + x = 0 → x = 0) :
    (∀ i, dlam i = (Uᵀ * dA * U) i i) ∧ (∀ i j, (Uᵀ * dU) i j = F i j * (Uᵀ * dA * U) i j) :=
  eig_first_order U A dA dU F lam dlam hU hA hAs h1 h2 hF hF0 h2c

/-- **`Diagonalization.backward`** (`diagonalization(method="lanczos")`): the code computes `kmat_ij = 1/(λ_i − λ_j)` and returns
`dL/dM = U (kmat.mT ∘ (Uᵀ G)) Uᵀ + U diag(g) Uᵀ`, `G = dL/dU`, `g = dL/dΛ`; with `F = kmat.mT` (`F_ij = 1/(λ_j − λ_i)`, the
transposition applied ONCE, to `kmat` only) this matrix pairs with every perturbation `dA` to the first-order change of the loss:
`⟨G, dU⟩ + Σ_i g_i dλ_i = ⟨dL/dM, dA⟩`.  (The gradient is delivered un-symmetrised; it is compared along symmetric `dA`.)
NOT covered: that the Lanczos output satisfies the eigh contract (C09), the `1e-10` regulariser in `kmat`, and the fact that the
code returns `dL/dM` as the gradient of the first representation tensor (finding D65: correct for dense operators only). -/
theorem diagonalization_backward {n : Nat} (U A dA dU F G : Matrix (Fin n) (Fin n) α) (lam dlam g : Fin n → α)
    (hU : Uᵀ * U = 1) (hA : A * U = U * Matrix.diagonal lam) (hAs : Aᵀ = A)
    (h1 : dA * U + A * dU = dU * Matrix.diagonal lam + U * Matrix.diagonal dlam)
    (h2 : dUᵀ * U + Uᵀ * dU = 0)
    (hF : ∀ i j, i ≠ j → F i j * (lam j - lam i) = 1) (hF0 : ∀ i, F i i = 0) (h2c : ∀ x : α, x + x = 0 → x = 0) :
    Matrix.trace (Gᵀ * dU) + ∑ i, g i * dlam i
      = Matrix.trace ((U * (Matrix.hadamard F (Uᵀ * G) + Matrix.diagonal g) * Uᵀ)ᵀ * dA) :=
  diagonalization_pullback U A dA dU F G lam dlam g hU hA hAs h1 h2 hF hF0 h2c

/-- The kernel of `Diagonalization.backward` is antisymmetric (`F_ji = −F_ij`): using `kmat` instead of `kmat.mT` flips the
sign of the eigenvector term — invisible to losses whose `Uᵀ dL/dU` is symmetric (trace-like, eigenvalue-only). -/
theorem diagonalization_kernel_antisymm {n : Nat} (F : Matrix (Fin n) (Fin n) α) (lam : Fin n → α)
    (hF : ∀ i j, i ≠ j → F i j * (lam j - lam i) = 1) (i j : Fin n) (hij : i ≠ j) : F j i = - F i j :=
  eigKernel_antisymm F lam hF i j hij

/-- **`RootDecomposition.backward`** (full-rank case, `W = R⁻ᵀ` the saved inverse root, `½ + ½ = 1`, symmetric `dA`):
(1) the root differential `dR = ½ dA W` is a first-order root of `A + ε dA` (`dR Rᵀ + R dRᵀ = dA`);
(2) `dW = −W dRᵀ W` is the matching differential of the inverse root (`dRᵀ W + Rᵀ dW = 0`);
(3) for upstream gradients `G_R`, `G_W`: `⟨G_R, dR⟩ + ⟨G_W, dW⟩ = Σ_c l_cᵀ dA r_c` with `l = G_R − W G_Wᵀ W`, `r = ½ W` —
the factors the code hands to `_bilinear_derivative` (`inverse @ inverse_grad_output.mT @ inverse`, `inverse.div(2)`). -/
theorem rootDecomposition_backward {n : Nat} (half : α) (hh : half + half = 1) (R W dA GR GW : Matrix (Fin n) (Fin n) α)
    (hW : W * Rᵀ = 1) (hW' : Rᵀ * W = 1) (hs : dAᵀ = dA) :
    (half • (dA * W)) * Rᵀ + R * (half • (dA * W))ᵀ = dA
    ∧ (half • (dA * W))ᵀ * W + Rᵀ * (-(W * (half • (dA * W))ᵀ * W)) = 0
    ∧ Matrix.trace (GRᵀ * (half • (dA * W))) + Matrix.trace (GWᵀ * (-(W * (half • (dA * W))ᵀ * W)))
        = bilS dA (GR - W * GWᵀ * W) (half • W) :=
  ⟨rootDiff_isRoot half hh R W dA hW hs, invRootDiff_isInverse R W _ hW', rootDecomposition_pullback half W dA GR GW hs⟩

/-- **`SqrtInvMatmul.backward`** (no left factor): `Y = Σ_q w_q X_q` with the shifted solves `(v·A + s_q) X_q = B`
(`minres(value = v = −1, shifts)`; weights and shifts constant).  The rhs receives `Σ_q w_q M_q⁻ᵀ G` and the matrix parameters
`−v · Σ_q Σ_c (w_q M_q⁻ᵀ G)_cᵀ dA (X_q)_c` — factors `terms1 = grad_solves·weights`, `terms2 = rhs_solves`, summed over the
quadrature index (a leading batch dimension), sign `+` for `v = −1`. -/
theorem sqrtInvMatmul_backward {Q n c : Nat} (v : α) (w s : Fin Q → α) (A dA : Matrix (Fin n) (Fin n) α)
    (Minv : Fin Q → Matrix (Fin n) (Fin n) α) (X dX : Fin Q → Matrix (Fin n) (Fin c) α) (B dB G : Matrix (Fin n) (Fin c) α)
    (hinv : ∀ q, Minv q * (v • A + s q • 1) = 1) (h0 : ∀ q, (v • A + s q • 1) * X q = B)
    (h1 : ∀ q, (v • A + s q • 1) * dX q + (v • dA) * X q = dB) :
    Matrix.trace (Gᵀ * ∑ q, w q • dX q)
      = Matrix.trace ((∑ q, w q • ((Minv q)ᵀ * G))ᵀ * dB) - v * ∑ q, bilS dA (w q • ((Minv q)ᵀ * G)) (X q) :=
  sqrtInvMatmul_pullback v w s A dA Minv X dX B dB G hinv h0 h1

/-- **`InvQuadLogdet.backward`, probe vectors drawn with a preconditioner**: if the probes have second moment `P`
(`coef · Z Zᵀ = P`, `coef = 1/num_probes`, the exact form of `z ~ N(0, P)`), the probe block of the factors —
left `coef · A⁻¹ Z` (`probe_vector_solves`), right `P⁻¹ Z` (`preconditioner(probe_vectors)`) — pairs to `tr(A⁻¹ dA)`,
the derivative of the log-determinant (`logdet_backward`).  `P = 1` is `logdet_probe_estimator`. -/
theorem logdet_probe_estimator_preconditioned {n t : Nat} (coef : α) (Ainv dA P Pinv : Matrix (Fin n) (Fin n) α)
    (Z : Matrix (Fin n) (Fin t) α) (hA : Ainvᵀ = Ainv) (hP : Pinv * P = 1) (hZ : coef • (Z * Zᵀ) = P) :
    bilS dA (coef • (Ainv * Z)) (Pinv * Z) = Matrix.trace (Ainv * dA) :=
  logdet_probe_estimator_precond coef Ainv dA P Pinv Z hA hP hZ

/-- The preconditioner's own tensors receive `_bilinear_derivative(−coef·P⁻¹Z, P⁻¹Z)` = `−tr(P⁻¹ dP)`, cancelling the
derivative of the `logdet(P)` term of the preconditioned estimate. -/
theorem logdet_preconditioner_gradient {n t : Nat} (coef : α) (dP P Pinv : Matrix (Fin n) (Fin n) α) (Z : Matrix (Fin n) (Fin t) α)
    (hPs : Pinvᵀ = Pinv) (hP : Pinv * P = 1) (hZ : coef • (Z * Zᵀ) = P) :
    bilS dP (-(coef • (Pinv * Z))) (Pinv * Z) = - Matrix.trace (Pinv * dP) :=
  logdet_precond_gradient coef dP P Pinv Z hPs hP hZ

/-- **`InvQuadLogdet.backward`, concatenated factors**: the ONE call `_bilinear_derivative(cat[L₁, L₂], cat[R₁, R₂])` (probe
block and inv_quad block, different numbers of columns) pairs, for EVERY operator tree and every parameter perturbation, to
the sum of the two bilinear forms `g_ld · tr-estimator − g_iq · Σ_c x_cᵀ D x_c`. -/
theorem invQuadLogdet_concatenated {n m : Nat} (o : Op n m) (θ δ : Param α o) {d₁ d₂ : Nat}
    (L₁ : Mat α n d₁) (L₂ : Mat α n d₂) (R₁ : Mat α m d₁) (R₂ : Mat α m d₂) :
    pair o (bilinDeriv o θ (hcat L₁ L₂) (hcat R₁ R₂)) δ = bilS (dDenote o θ δ) L₁ R₁ + bilS (dDenote o θ δ) L₂ R₂ :=
  concatenatedDeriv_pair o θ δ L₁ L₂ R₁ R₂

/-- **`PivotedCholesky.backward`** differentiates a re-computation of the factor from the selected rows with the permutation
held fixed: `F = [L; K₂₁ L⁻ᵀ]`, `L Lᵀ = K₁₁`.  In every commutative ring (hence for `K + ε dK`, to first order) `F Fᵀ` has the
blocks `K₁₁`, `K₂₁` and the Schur form `K₂₁ K₁₁⁻¹ K₂₁ᵀ`: the re-computed expression is the pivoted Cholesky factor of that
permutation.  (The derivative of `cholesky` / `solve_triangular` themselves is torch's — assumed.) -/
theorem pivotedCholesky_backward_recompute {m r : Nat} (L Linv K11 : Matrix (Fin m) (Fin m) α) (K21 : Matrix (Fin r) (Fin m) α)
    (hL : L * Lᵀ = K11) (hinv : Linv * L = 1) :
    L * Lᵀ = K11 ∧ (K21 * Linvᵀ) * Lᵀ = K21 ∧ (K21 * Linvᵀ) * (K21 * Linvᵀ)ᵀ = K21 * (Linvᵀ * Linv) * K21ᵀ
      ∧ (Linvᵀ * Linv) * K11 = 1 :=
  pivotedCholesky_recompute L Linv K11 K21 hL hinv

/-! ### Extension session 5: entry points through `Matmul` with special right-hand sides, generic context, more backward formulas -/

/-- **`to_dense()`** (`self.matmul(eye)` → `Matmul.backward` → `_bilinear_derivative(G, eye)`): for EVERY operator tree the tuple
pairs with every parameter perturbation to `⟨G, D⟦op⟧_θ[δ]⟩` — the gradient of `⟨G, dense matrix⟩`. -/
theorem toDense_backward {n m : Nat} (o : Op n m) (θ δ : Param α o) (G : Mat α n m) :
    pair o (toDenseBackward o θ G) δ = ∑ i, ∑ j, G i j * dDenote o θ δ i j :=
  toDense_pair o θ δ G

/-- `to_dense()` of a wide operator (`num_rows < num_cols`: `self.mT.matmul(eye).mT`): the transposed operator's derivative with
`(Gᵀ, eye)` pairs to the same `⟨G, D⟦op⟧_θ[δ]⟩`. -/
theorem toDense_backward_wide {n m : Nat} (o : Op n m) (θ δ : Param α o) (G : Mat α n m) :
    pair (.transpose o) (bilinDeriv (.transpose o) θ (fun j i => G i j) (idMat n)) δ = ∑ i, ∑ j, G i j * dDenote o θ δ i j :=
  toDenseWide_pair o θ δ G

/-- **diagonal** through the structured derivative: factors `(diag(g), eye)` pair to `Σ_i g_i · (D⟦op⟧_θ[δ])_ii`, every tree. -/
theorem diagonal_backward {n : Nat} (o : Op n n) (θ δ : Param α o) (g : Fin n → α) :
    pair o (diagonalBackward o θ g) δ = ∑ i, g i * dDenote o θ δ i i :=
  diagonal_pair o θ δ g

/-- **single entry** `op[i, j] = e_iᵀ (op @ e_j)`: factors `(g·e_i, e_j)` pair to `g · (D⟦op⟧_θ[δ])_ij`, every tree. -/
theorem getitem_backward {n m : Nat} (o : Op n m) (θ δ : Param α o) (i : Fin n) (j : Fin m) (g : α) :
    pair o (getitemBackward o θ i j g) δ = g * dDenote o θ δ i j :=
  getitem_pair o θ δ i j g

/-- **`op.sum(-1)`** (`op @ ones`) and **`op.sum(-2)`** (`op.mT @ ones`): factors `(g, ones)` / `(ones, g)` pair to the weighted
row / column sums of the derivative, every tree. -/
theorem sum_backward {n m : Nat} (o : Op n m) (θ δ : Param α o) (g : Fin n → α) (h : Fin m → α) :
    pair o (sumLastBackward o θ g) δ = ∑ i, g i * ∑ j, dDenote o θ δ i j
    ∧ pair o (sumFirstBackward o θ h) δ = ∑ j, h j * ∑ i, dDenote o θ δ i j :=
  ⟨sumLast_pair o θ δ g, sumFirst_pair o θ δ h⟩

/-- **`settings.memory_efficient` is irrelevant for EVERY Function** whose backward works with
`ctx._linear_op if hasattr(ctx, "_linear_op") else ctx.representation_tree(*matrix_args)` (Matmul, Solve, InvQuad,
RootDecomposition, Diagonalization — table `C07Funcs.keepOrRebuild`) or always rebuilds (InvQuadLogdet, PivotedCholesky): the operator
the backward sees is the forward's operator, whichever the flag — so any function of it (every gradient) is the same. -/
theorem memoryEfficient_irrelevant_ctx {n m : Nat} (o : Op n m) (θ : Param α o) (me : Bool) :
    ctxOperator o (forwardCtx me o θ) = θ ∧ ctxRebuilt o (forwardCtx me o θ) = θ :=
  ⟨ctxOperator_forward me o θ, ctxRebuilt_forward me o θ⟩

/-- **`InvQuadLogdet.backward` does not depend on `skip_logdet_forward` or `memory_efficient`**: the parameter gradients computed
from the context left by the forward under any setting of the two flags are `_bilinear_derivative` of the forward's operator with
the concatenated factors (hence, by `invQuadLogdet_concatenated`, pair to the sum of the two bilinear forms). -/
theorem invQuadLogdet_settings_irrelevant {n m d₁ d₂ : Nat} (o : Op n m) (θ : Param α o) (skip me : Bool) (logdet : α)
    (L₁ : Mat α n d₁) (L₂ : Mat α n d₂) (R₁ : Mat α m d₁) (R₂ : Mat α m d₂) :
    invQuadLogdetBackwardArgs o (invQuadLogdetForward skip me o θ logdet).1 L₁ L₂ R₁ R₂
      = bilinDeriv o θ (hcat L₁ L₂) (hcat R₁ R₂) := by
  simp only [invQuadLogdetBackwardArgs, invQuadLogdetForward, ctxRebuilt_forward]

/-- **`InvQuad.backward` / the inv_quad block of `InvQuadLogdet.backward`, with the per-column upstream gradient** `g_c`
(`inv_quad_term` has one entry per column of the rhs): `Σ_c g_c · d(x_cᵀ b_c) = 2 Σ_c g_c x_cᵀ db_c + bil(dA; −X diag g, X)` — the rhs
receives `2 · X diag g` (`neg_inv_quad_solves_times_grad_out.mul(-2)`), the parameters `_bilinear_derivative(−X diag g, X)` — exactly
the code's `left_factors = inv_quad_solves.mul(grad).mul(-1)`, `right_factors = inv_quad_solves`.  `g = 1` is `invQuad_backward`. -/
theorem invQuad_backward_weighted {n c : Nat} (A dA : Matrix (Fin n) (Fin n) α) (X dX B dB : Matrix (Fin n) (Fin c) α)
    (g : Fin c → α) (hs : Aᵀ = A) (h0 : A * X = B) (h1 : A * dX + dA * X = dB) :
    Matrix.trace (Matrix.diagonal g * (dXᵀ * B + Xᵀ * dB))
      = Matrix.trace (Matrix.diagonal g * (Xᵀ * dB)) + Matrix.trace (Matrix.diagonal g * (Xᵀ * dB))
        + bilS dA (-(X * Matrix.diagonal g)) X :=
  invQuad_weighted_first_order A dA X dX B dB g hs h0 h1

/-- **`DSMM.backward`** (`bdsmm(sparse, dense)`; only the dense factor is differentiable): the dense factor receives `Sᵀ G`. -/
theorem dsmm_backward {n k c : Nat} (S : Matrix (Fin n) (Fin k) α) (dB : Matrix (Fin k) (Fin c) α) (G : Matrix (Fin n) (Fin c) α) :
    Matrix.trace (Gᵀ * (S * dB)) = Matrix.trace ((Sᵀ * G)ᵀ * dB) :=
  dsmm_pullback S dB G

/-- **`SqrtInvMatmul.backward`, `lhs` branch** (`Y = L · Σ_q w_q X_q`, `(v·A + s_q) X_q = B`): the left factor receives
`G (Σ_q w_q X_q)ᵀ` (`weighted_rhs_solves_mul_grad.mT.sum(0)`), the rhs `Σ_q w_q M_q⁻ᵀ Lᵀ G` (`(lhs_solves @ grad).mul(weights).sum(0)`),
the matrix `−v Σ_q bil(dA; w_q M_q⁻ᵀLᵀG, X_q)`; and (second conjunct) the factors the code actually concatenates,
`terms1 = lhs_solves = M_q⁻ᵀLᵀ`, `terms2 = (w_q X_q) Gᵀ`, pair to the same bilinear form; (third) the inv_quad block
`(S, −S·diag g)`, `S = A⁻¹Lᵀ`, pairs to `−Σ_i g_i s_iᵀ dA s_i` (cf. `invQuad_backward`). -/
theorem sqrtInvMatmul_backward_lhs {Q n c l : Nat} (v : α) (w s : Fin Q → α) (A dA : Matrix (Fin n) (Fin n) α)
    (Minv : Fin Q → Matrix (Fin n) (Fin n) α) (X dX : Fin Q → Matrix (Fin n) (Fin c) α) (B dB : Matrix (Fin n) (Fin c) α)
    (L dL : Matrix (Fin l) (Fin n) α) (G : Matrix (Fin l) (Fin c) α) (S : Matrix (Fin n) (Fin l) α) (g : Fin l → α)
    (hinv : ∀ q, Minv q * (v • A + s q • 1) = 1) (h0 : ∀ q, (v • A + s q • 1) * X q = B)
    (h1 : ∀ q, (v • A + s q • 1) * dX q + (v • dA) * X q = dB) :
    Matrix.trace (Gᵀ * (dL * (∑ q, w q • X q) + L * ∑ q, w q • dX q))
      = Matrix.trace ((G * (∑ q, w q • X q)ᵀ)ᵀ * dL)
        + (Matrix.trace ((∑ q, w q • ((Minv q)ᵀ * (Lᵀ * G)))ᵀ * dB)
            - v * ∑ q, bilS dA (w q • ((Minv q)ᵀ * (Lᵀ * G))) (X q))
    ∧ (∀ q, bilS dA (w q • ((Minv q)ᵀ * (Lᵀ * G))) (X q) = bilS dA ((Minv q)ᵀ * Lᵀ) ((w q • X q) * Gᵀ))
    ∧ bilS dA S (-(S * Matrix.diagonal g)) = - ∑ i, g i * (Sᵀ * dA * S) i i :=
  ⟨sqrtInvMatmul_lhs_pullback v w s A dA Minv X dX B dB L dL G hinv h0 h1,
   fun q => sqrtInvMatmul_lhs_factors (w q) dA (Minv q) (X q) L G, invQuad_weighted_factors dA S g⟩

/-- **`PivotedCholesky.backward`, differential of the re-computed factor with the pivots held fixed** (`F = [L; F₂]`, `L Lᵀ = K₁₁`,
`F₂ Lᵀ = K₂₁`, `L` and `dL` lower triangular — stated through `X = L⁻¹ dL`).  The first-order equations
`dL Lᵀ + L dLᵀ = dK₁₁`, `dF₂ Lᵀ + F₂ dLᵀ = dK₂₁` DETERMINE the differential: `X = Φ(L⁻¹ dK₁₁ L⁻ᵀ)` (strictly lower part, half the
diagonal — `2·X_ii = S_ii` —, zero above; i.e. `dL = L Φ(L⁻¹ dK₁₁ L⁻ᵀ)`, the Cholesky derivative torch implements) and
`dF₂ = (dK₂₁ − F₂ dLᵀ) L⁻ᵀ` (the derivative of the `solve_triangular` row block).  Together with
`pivotedCholesky_backward_recompute` this makes the derivative of the pivoted factor a consequence of the two defining equations;
what stays assumed is that torch's `cholesky` / `solve_triangular` backward implement these formulas. -/
theorem pivotedCholesky_backward_differential {m r : Nat} (L Linv dL dK11 : Matrix (Fin m) (Fin m) α)
    (F2 dF2 dK21 : Matrix (Fin r) (Fin m) α) (hinv : Linv * L = 1)
    (hX : ∀ i j, i < j → (Linv * dL) i j = 0)
    (h1 : dL * Lᵀ + L * dLᵀ = dK11) (h2 : dF2 * Lᵀ + F2 * dLᵀ = dK21) :
    (∀ i j, j < i → (Linv * dL) i j = (Linv * dK11 * Linvᵀ) i j)
    ∧ (∀ i, (Linv * dL) i i + (Linv * dL) i i = (Linv * dK11 * Linvᵀ) i i)
    ∧ (∀ i j, i < j → (Linv * dL) i j = 0)
    ∧ dF2 = (dK21 - F2 * dLᵀ) * Linvᵀ := by
  obtain ⟨a, b, c⟩ := lower_of_symm_sum (Linv * dL) (Linv * dK11 * Linvᵀ) hX (cholesky_first_order L Linv dL dK11 hinv h1)
  exact ⟨a, b, c, pivoted_lower_block L Linv dL F2 dF2 dK21 hinv h2⟩

/-- Hypotheses of `pivotedCholesky_backward_differential` are satisfiable non-trivially: `L = [[1,0],[1,1]]`, `dL = [[1,0],[2,3]]`. -/
example : (!![1, 0; -1, 1] : Matrix (Fin 2) (Fin 2) ℚ) * !![1, 0; 1, 1] = 1
    ∧ (((!![1, 0; -1, 1] : Matrix (Fin 2) (Fin 2) ℚ) * (!![1, 0; 2, 3] : Matrix (Fin 2) (Fin 2) ℚ)) :
        Matrix (Fin 2) (Fin 2) ℚ) 0 1 = 0 := by
  constructor
  · ext i j; fin_cases i <;> fin_cases j <;> simp [Matrix.mul_apply, Fin.sum_univ_two]
  · simp [Matrix.mul_apply, Fin.sum_univ_two]

/-! ### Translator facts (`Generated/C07Funcs.lean`, regenerated from /repo's source by Python `ast` on every run) -/

open LinOp.Generated.C07 in
/-- **Positional gradient tuples are aligned with the forward's parameters** (source fact, all 9 Functions): every tuple-returning
`return` of `backward` starts with at least one fixed slot per named parameter of `forward` (`ctx` excluded), at most two more
(the tensors popped off `*args`: rhs / left factor), exactly as many when there is no `*args`; the leading literal `None`s
(non-differentiable arguments: `representation_tree`, flags, sizes) are at least one and never more than the named parameters. -/
theorem backward_tuple_covers_forward_params :
    ∀ f ∈ funcs, f.bwdLeading ≠ [] ∧ f.bwdLeadingNone ≠ []
      ∧ (∀ k ∈ f.bwdLeading, f.fwdFixed ≤ k ∧ k ≤ f.fwdFixed + 2 ∧ (f.fwdVarargs = false → k = f.fwdFixed))
      ∧ (∀ z ∈ f.bwdLeadingNone, 1 ≤ z ∧ z ≤ f.fwdFixed) := by
  decide +kernel

open LinOp.Generated.C07 in
/-- The exact layout the backward-formula theorems assume: (name, named forward parameters, fixed leading slots per return, leading
`None`s) — Matmul `(None, rhs_grad, *args)`, Solve `(None, None, [left,] rhs, *args)`, InvQuad `(None, rhs, *args)`, InvQuadLogdet
`7 × None (+ rhs)`, RootDecomposition `9 × None`, Diagonalization `6 × None`, PivotedCholesky `3 × None`, SqrtInvMatmul
`(None, rhs, lhs, *args)`, DSMM `(None, dense)`. -/
theorem backward_tuple_layout :
    funcs.map (fun f => (f.name, f.fwdFixed, f.bwdLeading, f.bwdLeadingNone))
      = [("Matmul", 2, [2], [1]), ("Solve", 2, [3, 4], [2]), ("InvQuad", 1, [2], [1]), ("InvQuadLogdet", 7, [7, 8], [7]),
         ("RootDecomposition", 9, [9], [9]), ("Diagonalization", 6, [6], [6]), ("PivotedCholesky", 3, [3], [3]),
         ("SqrtInvMatmul", 3, [3], [1]), ("DSMM", 2, [2], [1])] := by
  decide +kernel

open LinOp.Generated.C07 in
/-- **How each backward obtains its operator** (source fact): the forward stores `ctx._linear_op` under
`settings.memory_efficient.off()` exactly when the backward uses the keep-or-rebuild pattern modelled by `ctxOperator`; every
backward that calls `_bilinear_derivative` is in one of the three modelled modes (keep-or-rebuild, always rebuild = `ctxRebuilt`,
always keep `ctx.linear_op`), so `memoryEfficient_irrelevant_ctx` applies to all of them; `settings.skip_logdet_forward` is read
by `InvQuadLogdet.forward` only and by no backward (`invQuadLogdet_settings_irrelevant`). -/
theorem memoryEfficient_dispatch_table :
    ∀ f ∈ funcs, f.storesOp = f.keepOrRebuild
      ∧ (f.keepOrRebuild = true → f.rebuilds = false ∧ f.alwaysKeeps = false)
      ∧ (0 < f.bilinearCalls → (f.keepOrRebuild || f.rebuilds || f.alwaysKeeps) = true)
      ∧ f.skipBwd = false ∧ (f.skipFwd = true → f.name = "InvQuadLogdet") := by
  decide +kernel

open LinOp.Generated.C07 in
/-- **Every operator class's derivative code is the code the model mirrors** (source fact, all classes of
`linear_operator/operators`): the class providing `_bilinear_derivative` is either hand-written code with a model constructor
(`providerCtor`), one of the two providers outside the model, or the base-class default — and a class resolving to the default is
one of the listed classes modelled by the reverse sweep through its own `_matmul` (`defaultCtor`).  A new override, a removed one,
or a new operator class breaks this obligation. -/
theorem derivative_providers_modelled :
    ∀ cp ∈ providers,
      (cp.2 = "LinearOperator" ∧ cp.1 ∈ defaultCtor.map Prod.fst)
      ∨ (cp.2 ≠ "LinearOperator" ∧ (cp.2 ∈ providerCtor.map Prod.fst ∨ cp.2 ∈ providerUnmodelled)) := by
  decide +kernel

open LinOp.Generated.C07 in
/-- …and conversely every hand-written provider the model mirrors still exists in the source. -/
theorem derivative_providers_present :
    ∀ pc ∈ providerCtor, pc.1 ∈ providers.map Prod.snd := by
  decide +kernel

/-- The entry-point theorems quantify over every tree; a non-trivial instance (Kronecker under ConstantMul, 4 × 4). -/
example : Op 4 4 := .constMul (.kron (.toeplitz 2) (.root (.dense 2 1)))

/-- The hypotheses of `solveBackward_symmetrised` are satisfiable: `½ + ½ = 1` in ℚ, and a diagonal operator is symmetric
along every perturbation. -/
example : ((1 : ℚ) / 2) + 1 / 2 = 1 := by norm_num
example (θ δ : Param ℚ (.diag 3)) (i j : Fin 3) : dDenote (.diag 3) θ δ i j = dDenote (.diag 3) θ δ j i := by
  rw [dDenote_diag, dDenote_diag]
  by_cases h : i = j
  · subst h; rfl
  · have h' : ¬ j = i := fun e => h e.symm
    simp [h, h']

/-- Hypotheses of the backward-formula theorems are satisfiable (identity matrices; shift `2`, value `−1`). -/
example : (1 : Matrix (Fin 2) (Fin 2) ℚ) * (1 : Matrix (Fin 2) (Fin 2) ℚ)ᵀ = 1 := by simp
example : (1 : Matrix (Fin 2) (Fin 2) ℚ) * ((-1 : ℚ) • (1 : Matrix (Fin 2) (Fin 2) ℚ) + (2 : ℚ) • 1) = 1 := by
  rw [← add_smul]; norm_num
example : (1 : ℚ) • ((1 : Matrix (Fin 2) (Fin 2) ℚ) * (1 : Matrix (Fin 2) (Fin 2) ℚ)ᵀ) = 1 := by simp

/-- Hypotheses of `diagonalization_backward` are satisfiable: eigenvalues 1, 2 in ℚ with kernel `F = [[0, 1], [−1, 0]]`,
`U = 1`, `A = diag(1, 2)`; `x + x = 0 → x = 0` in ℚ. -/
example : ∀ i j : Fin 2, i ≠ j → (!![0, 1; -1, 0] : Matrix (Fin 2) (Fin 2) ℚ) i j * ((![1, 2] : Fin 2 → ℚ) j - ![1, 2] i) = 1 := by
  intro i j h
  match i, j, h with
  | 0, 0, h => exact absurd rfl h
  | 0, 1, _ => norm_num
  | 1, 0, _ => norm_num
  | 1, 1, h => exact absurd rfl h
example : ∀ x : ℚ, x + x = 0 → x = 0 := fun x h => by linarith
example : (Matrix.diagonal ![1, 2] : Matrix (Fin 2) (Fin 2) ℚ) * 1 = 1 * Matrix.diagonal ![1, 2] := by simp

/-- Kronecker product of three factors (right-nested), under a hand-written parent, with a Chol-type root and a Cat. -/
example : Op (2 * (3 * 2) + 4) 12 :=
  .catRows (.constMul (.kron (.dense 2 2) (.kron (.toeplitz 3) (.dense 2 2)))) (.transpose (.matmul (.dense 12 4) (.root (.dense 4 4))))

/-- A non-trivial instance of the main theorem's quantifier: a depth-4 nesting through every kind of step. -/
example : Op 3 3 := .constMul (.matmul (.sum (.toeplitz 3) (.dense 3 3))
    (.sumBatch 2 (.mul (.blockDiag 3 (.diag 1)) (.masked (fun i => i) (fun j => j) (.dense 3 3)))))

end LinOp.C07
