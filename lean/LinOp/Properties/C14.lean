import LinOp.C14.Proofs
import LinOp.Generated.C14Classes
import LinOp.Generated.C14Alloc
import LinOp.C14.ShapeProofs
import LinOp.Generated.C14Shape
import LinOp.C14.BcastProofs
import LinOp.C14.KernelBProofs
/-!
C14 — copies, conversions and rebuilds denote the same matrix with the right dtype.  Property theorems only.

`cfg : Cfg` (constructor layout table + torch default dtype) is arbitrary in the general theorems, so they hold
for every table the translator can generate from the source.
-/
namespace LinOp.C14

/-! ### Flatten / rebuild -/

/-- **The slice bookkeeping of `LinearOperatorRepresentationTree.__init__` is right**: for every argument list
(any length, any nesting) the counter advances by exactly the number of tensors `representation()` emits. -/
theorem representation_length (xs : List Op) (h : representableL xs = true) :
    widthL xs = (repL xs).length := widthL_eq xs h

/-- **`representation_tree()(*representation())` returns the same operator** — every class in the layout table,
any nesting depth, any number of positional / differentiable-keyword arguments, any trailing extra tensors —
provided every node is as its constructor leaves it (`normal`: normal form of the class specific argument
normalisation, keyword arguments known to the constructor, *hidden attributes at their defaults*). -/
theorem rebuild_flatten (cfg : Cfg) (o : Op) (hn : normal cfg o = true) (hr : representable o = true)
    (rest : List Leaf) : call cfg (tree o) (rep o ++ rest) = some o := by
  have := call_tree cfg o hn hr [] rest
  simpa [tree] using this

/-- **Rebuilding with other tensors** (what every autograd Function does in forward and backward): for any list
`ts` of as many tensors as `representation()` returns, the rebuild succeeds and yields an operator with the same
skeleton — classes, arities, keyword names, all non-tensor arguments and flags — holding exactly `ts`, in order. -/
theorem rebuild_any_tensors (cfg : Cfg) (o : Op) (hn : normal cfg o = true) (hr : representable o = true)
    (ts rest : List Leaf) (hlen : ts.length = (rep o).length) :
    ∃ o', call cfg (tree o) (ts ++ rest) = some o' ∧ skel o' = skel o ∧ rep o' = ts := by
  have := call_any cfg o hn hr [] ts rest hlen
  simpa [tree] using this

/-- **clone / detach / to / type (double, float, half) preserve the structure** of every normal operator —
class tree, arities, keyword names, non-tensor arguments, flags — for every nesting depth and every mode,
for all classes whose conversion does not rewrite a dtype/device keyword (`plain`: everything except
Identity / Zero / Cat, whose keyword rewrite is mirrored separately and tied by the correspondence). -/
theorem conversions_preserve_structure (cfg : Cfg) (o : Op) (hn : normal cfg o = true) (hp : plain o = true) (m : Mode) :
    ∃ o', conv cfg m o = some o' ∧ skel o' = skel o := conv_skel cfg o hn hp m

/-- A constructor applied to what it stored (`cls(*_args, **_kwargs)`, the last step of every clone / detach /
to / type / rebuild) is the identity on normal nodes. -/
theorem constructor_idempotent (cfg : Cfg) (cls : String) (a : List Op) (dn : List String) (d : List Op)
    (nkw hid : KV) (h : nodeOK cfg cls a dn d nkw hid = true) :
    construct cfg cls a (kwOf dn d nkw) = some (.node cls a dn d nkw hid) := construct_fix cfg cls a dn d nkw hid h

/-- The class specific normalisations (to_linear_operator wrapping, Triangular unwrapping, Cat's negative dim,
Kernel's defaultdict) are the identity on their normal form. -/
theorem normalise_idempotent (cls : String) (a : List Op) (kw : List (String × Op))
    (h : normalForm cls a kw = true) : normalise cls a kw = some (a, kw) := normalise_fix cls a kw h

/-- Being normal depends only on the skeleton, never on the tensors: replacing / casting / cloning tensors keeps
an operator a fixed point of its constructors. -/
theorem normal_node_depends_on_skeleton_only (cfg : Cfg) (cls : String) (a a' : List Op) (dn : List String)
    (d d' : List Op) (nkw hid : KV) (ha : skelL a = skelL a') (hd : skelL d = skelL d')
    (h : nodeOK cfg cls a dn d nkw hid = true) : nodeOK cfg cls a' dn d' nkw hid = true :=
  nodeOK_congr cfg cls a a' dn d d' nkw hid ha hd h

/-! ### Examples, and the defects D16 / D17 / D18 as machine-checked counterexamples

D16 / D16b / D17 were repaired in /repo (commits 05006ba, ebb6d3b): `upper` resp. `dtype`/`device` are now forwarded to
`LinearOperator.__init__` and live in `_kwargs`.  The statements named `previous_code_…` below are about the
constructor layouts *before* those commits (the literal `snapshot`); the `…_today` statements are about the layout
table generated from today's source, where the general theorems apply to upper-orientation operators as well. -/

/-- The constructor layouts of the classes used in the examples below, **as of the pinned commit**
(Chol.upper, Zero.dtype/device only kept as attributes).  `snapshot_matches_source` ties it to today's source. -/
def snapshot : List (String × Layout) := [
  ("DenseLinearOperator", ⟨1, false, ["tsr"], [], false, [], []⟩),
  ("TriangularLinearOperator", ⟨1, false, ["tensor", "upper"], [("upper", some (.bool false))], false, [], []⟩),
  ("CholLinearOperator", ⟨1, false, ["chol", "upper"], [], false, [("upper", .bool false)], []⟩),
  ("InterpolatedLinearOperator", ⟨5, false, ["base_linear_op", "left_interp_indices", "left_interp_values",
      "right_interp_indices", "right_interp_values"], [], false, [], []⟩),
  ("SumLinearOperator", ⟨0, true, [], [], true, [], []⟩),
  ("ConstantDiagLinearOperator", ⟨1, false, ["diag_values", "diag_shape"], [("diag_shape", none)], false, [], []⟩),
  ("PermutationLinearOperator", ⟨2, false, ["perm", "inv_perm", "validate_args"], [("validate_args", some (.bool true))], false, [], []⟩),
  ("ZeroLinearOperator", ⟨0, true, [], [], false, [("dtype", .none), ("device", .none)], []⟩),
  ("KernelLinearOperator", ⟨2, false, ["x1", "x2", "covar_func", "num_outputs_per_input", "num_nonbatch_dimensions"],
    [("covar_func", none), ("num_outputs_per_input", some (.ints [1, 1])), ("num_nonbatch_dimensions", some .none)],
    true, [], []⟩)]

def genCfg (d : DT) : Cfg := ⟨fun c => (snapshot.find? (·.1 = c)).map (·.2), d, false⟩

open LinOp.Generated.C14 in
/-- Every snapshot layout is today's generated layout, or differs from it only in that the formerly hidden
parameters are now forwarded as keywords (a landed fix of D16 / D17). -/
theorem snapshot_matches_source :
    snapshot.all (fun c =>
      decide (layoutOf c.1 = some c.2) ||
      (decide ((layoutOf c.1).map (fun L => (L.npos, L.vararg, L.posNames, L.hidden)) =
          some (c.2.npos, c.2.vararg, c.2.posNames, ([] : KV))) &&
        c.2.hidden.all (fun h => (layoutOf c.1).map (fun L => hasKey L.kwStored h.1) == some true))) = true := by
  decide +kernel

def tL (i : Nat) (dt : DT) : Op := .leaf ⟨dt, [2, 2], i, false, false⟩
def exTri (up : Bool) : Op :=
  .node "TriangularLinearOperator" [.node "DenseLinearOperator" [tL 0 .f32] [] [] [] []] [] [] [("upper", .bool up)] []
def exChol (up : Bool) : Op := .node "CholLinearOperator" [exTri up] [] [] [] [("upper", .bool up)]
def exInterp : Op :=
  .node "InterpolatedLinearOperator"
    [.node "DenseLinearOperator" [tL 0 .f32] [] [] [] [], tL 1 .i64, tL 2 .f32, tL 3 .i64, tL 4 .f32] [] [] [] []
def exSum : Op :=
  .node "SumLinearOperator" [exInterp, exChol false,
    .node "ConstantDiagLinearOperator" [tL 5 .f32] [] [] [("diag_shape", .int 2)] []] [] [] [] []

def hidOf : Op → KV
  | .node _ _ _ _ _ h => h
  | _ => []

/-- Non-vacuity: a three-level nesting with integer tensors, keyword arguments and a hidden attribute at its
default satisfies the hypotheses of `rebuild_flatten`, `rebuild_any_tensors`, `conversions_preserve_structure`. -/
theorem hypotheses_satisfiable :
    normal (genCfg .f32) exSum = true ∧ representable exSum = true ∧ plain exSum = true ∧ (rep exSum).length = 7 := by
  decide +kernel

/-- **D16, previous code (counterexample)**: with the pre-05006ba constructor (`upper` only kept as an attribute)
`CholLinearOperator(R, upper=True)` is *not* reproduced by the rebuild — the result has `upper = False`. -/
theorem previous_code_chol_upper_lost_counterexample :
    (call (genCfg .f32) (tree (exChol true)) (rep (exChol true))).map hidOf = some [("upper", .bool false)] ∧
    hidOf (exChol true) = [("upper", .bool true)] := by
  decide +kernel

/-- **D16, previous code (partial)**: with the flag at its default the Cholesky operator round-tripped. -/
theorem previous_code_chol_default_roundtrip (rest : List Leaf) :
    call (genCfg .f32) (tree (exChol false)) (rep (exChol false) ++ rest) = some (exChol false) :=
  rebuild_flatten _ _ (by decide +kernel) (by decide +kernel) rest

/-! ### Today's constructors (layout table generated from the current source) -/

def todayCfg (d : DT) : Cfg := ⟨LinOp.Generated.C14.layoutOf, d, LinOp.Generated.C14.baseToGuardsKind⟩

/-- today's stored form of `CholLinearOperator(TriangularLinearOperator(R, upper=up), upper=up)` -/
def exCholToday (up : Bool) : Op := .node "CholLinearOperator" [exTri up] [] [] [("upper", .bool up)] []

/-- today's stored form of `KroneckerProductTriangularLinearOperator(T1, T2, upper=up)` -/
def exKronTriToday (up : Bool) : Op :=
  .node "KroneckerProductTriangularLinearOperator" [exTri up, exTri up] [] [] [("upper", .bool up)] []

/-- **D16 / D16b fixed**: with today's constructors (`upper` is a stored keyword argument) upper-orientation Cholesky and
Kronecker-triangular operators are normal, so `rebuild_flatten`, `rebuild_any_tensors` and
`conversions_preserve_structure` apply to them: the rebuild returns the same operator, `upper = True` included. -/
theorem rebuild_flatten_upper_today (rest : List Leaf) :
    call (todayCfg .f32) (tree (exCholToday true)) (rep (exCholToday true) ++ rest) = some (exCholToday true) ∧
    call (todayCfg .f32) (tree (exKronTriToday true)) (rep (exKronTriToday true) ++ rest) = some (exKronTriToday true) :=
  ⟨rebuild_flatten _ _ (by decide +kernel) (by decide +kernel) rest,
   rebuild_flatten _ _ (by decide +kernel) (by decide +kernel) rest⟩

/-- a user subclass storing an operator-valued (flattening to 5 tensors) and a tensor-valued keyword argument:
`super().__init__(base, extra_op=<Interpolated>, scale=<tensor>)` -/
def exUserWrap : Op :=
  .node "UserWrapLinearOperator" [.node "DenseLinearOperator" [tL 7 .f32] [] [] [] []]
    ["extra_op", "scale"] [exInterp, tL 8 .f32] [("index", .none), ("mask", .none)] []

/-- **Operator-valued keyword arguments** are rebuilt from the *unflattened* children: the general theorems cover
them (`dv : List Op` may hold operators of any depth); here instantiated for a keyword operator that flattens to
five tensors followed by a tensor keyword — rebuilt exactly, and with other tensors the skeleton is kept. -/
theorem rebuild_flatten_operator_valued_kwargs (rest : List Leaf) :
    (rep exUserWrap).length = 7 ∧
    call (todayCfg .f32) (tree exUserWrap) (rep exUserWrap ++ rest) = some exUserWrap :=
  ⟨by decide +kernel, rebuild_flatten _ _ (by decide +kernel) (by decide +kernel) rest⟩

/-- today's stored form of `ZeroLinearOperator(2, 2, dtype=float64)` -/
def exZeroToday : Op :=
  .node "ZeroLinearOperator" [.val (.int 2), .val (.int 2)] [] [] [("device", .none), ("dtype", .dt .f64)] []

/-- `Sum(Interpolated(Zero), Dense, Zero)`: a ZeroLinearOperator nested at two depths -/
def exZeroNested : Op :=
  .node "SumLinearOperator"
    [.node "InterpolatedLinearOperator" [exZeroToday, tL 1 .i64, tL 2 .f32, tL 3 .i64, tL 4 .f32] [] [] [] [],
     .node "DenseLinearOperator" [tL 5 .f32] [] [] [] [], exZeroToday] [] [] [] []

/-- **ZeroLinearOperator has an empty representation and a total rebuild (since /repo 7504982)**: it contributes no
tensors, its private tree re-creates it from sizes / dtype / device, and operators containing Zeros at any depth are
covered by `rebuild_flatten` / `rebuild_any_tensors` (instantiated here for a Zero nested at two depths). -/
theorem rebuild_flatten_nested_zero_today (rest : List Leaf) :
    rep exZeroToday = [] ∧ (rep exZeroNested).length = 5 ∧
    call (todayCfg .f32) (tree exZeroToday) rest = some exZeroToday ∧
    call (todayCfg .f32) (tree exZeroNested) (rep exZeroNested ++ rest) = some exZeroNested := by
  refine ⟨by decide +kernel, by decide +kernel, ?_, rebuild_flatten _ _ (by decide +kernel) (by decide +kernel) rest⟩
  have := rebuild_flatten (todayCfg .f32) exZeroToday (by decide +kernel) (by decide +kernel) rest
  simpa [show rep exZeroToday = [] by decide +kernel] using this

/-- clone / to / type of today's upper-orientation operators keep the skeleton (hence `upper = True`). -/
theorem conversions_keep_upper_today (m : Mode) :
    ∃ o', conv (todayCfg .f32) m (exCholToday true) = some o' ∧ skel o' = skel (exCholToday true) :=
  conversions_preserve_structure _ _ (by decide +kernel) (by decide +kernel) m

/-- **D17 fixed**: today a ZeroLinearOperator built with `dtype=float64` keeps reporting float64 after clone, and
`to(float32)` / `type(float32)` change the reported dtype, whatever torch's default dtype is. -/
theorem zero_dtype_kept_today (d : DT) :
    let z : Op := .node "ZeroLinearOperator" [.val (.int 3), .val (.int 3)] [] [] [("device", .none), ("dtype", .dt .f64)] []
    ((conv (todayCfg d) .clone z).bind (dtypeOf (todayCfg d) false)) = some .f64 ∧
    ((conv (todayCfg d) (.to .f32) z).bind (dtypeOf (todayCfg d) false)) = some .f32 ∧
    ((conv (todayCfg d) (.type .f32) z).bind (dtypeOf (todayCfg d) false)) = some .f32 := by
  cases d <;> decide +kernel

/-! ### Conversions: which tensors are cast -/

/-- **`type` / `double` / `float` cast exactly the floating tensors** held directly by an operator, and clone all. -/
theorem type_casts_exactly_float (t : DT) (g : Bool) (l : Leaf) :
    (convLeaf (.type t) g l).dt = (if l.dt.isFloat then t else l.dt) ∧ (convLeaf (.type t) g l).fresh = true ∧
    (convLeaf (.type t) g l).shape = l.shape ∧ (convLeaf (.type t) g l).rg = l.rg := by
  unfold convLeaf; cases h : l.dt.isFloat <;> simp

/-- **Index tensors are never cast** by the `to` overrides of Interpolated / Masked operators (`guard`). -/
theorem index_tensors_not_cast (t : DT) (l : Leaf) (h : l.dt.isFloat = false) :
    (convLeaf (.to t) true l) = l ∧ (convLeaf (.cloneTo t) true l).dt = l.dt ∧ (convLeaf (.type t) true l).dt = l.dt := by
  unfold convLeaf; simp [h]

/-- **`type` / `double` / `float` / `half` touch exactly the floating-point leaves of the whole tree.**
For every operator tree — any nesting depth, sub-operators in positional *and* keyword position, any number of
tensors — that is normal and `typeOK` (no Identity/Zero/Cat dtype keyword, no TransposePermutation, every sub-operator
reports a floating dtype: otherwise `type` merely clones that child), and a base-class `to` that leaves integer /
boolean tensors alone (`baseToGuard`, true since /repo f389e83), the conversion succeeds, keeps the skeleton (classes,
arities, keyword names, non-tensor arguments, flags), and its flattened representation is the old one with
`tyLeaf t` applied leaf by leaf: floating leaves get dtype `t`, integer / boolean leaves keep theirs, all get fresh
storage, shapes and requires_grad are kept. -/
theorem type_tree_spec (cfg : Cfg) (hb : cfg.baseToGuard = true) (t : DT) (o : Op)
    (hn : normal cfg o = true) (hp : typeOK cfg o = true) :
    ∃ o', conv cfg (.type t) o = some o' ∧ skel o' = skel o ∧ rep o' = (rep o).map (tyLeaf t) ∧
      (rep o').map (·.dt) = (rep o).map (fun l => if l.dt.isFloat then t else l.dt) := by
  have key : ∃ o', conv cfg (.type t) o = some o' ∧ skel o' = skel o ∧ rep o' = (rep o).map (tyLeaf t) := by
    cases o with
    | leaf l => exact ⟨_, rfl, rfl, by simp [rep, convLeaf_type_eq]⟩
    | val v => exact ⟨_, rfl, rfl, rfl⟩
    | node cls a dn d nkw hid =>
      exact conv_ty_node cfg hb t _ hn hp (.type t) (Or.inl rfl) (by intro l h; cases h)
  obtain ⟨o', h1, h2, h3⟩ := key
  refine ⟨o', h1, h2, h3, ?_⟩
  rw [h3, List.map_map]
  apply List.map_congr_left
  intro l _
  simp only [Function.comp, tyLeaf]
  cases l.dt.isFloat <;> rfl

open LinOp.Generated.C14 in
/-- Today's source satisfies the `baseToGuard` hypothesis of `type_tree_spec` (re-introducing D32 breaks this). -/
theorem base_to_guards_today : baseToGuardsKind = true := by decide +kernel

/-- `type_tree_spec` for the layout table and base `to` generated from today's source, for every torch default dtype. -/
theorem type_tree_spec_today (dflt t : DT) (o : Op)
    (hn : normal (todayCfg dflt) o = true) (hp : typeOK (todayCfg dflt) o = true) :
    ∃ o', conv (todayCfg dflt) (.type t) o = some o' ∧ skel o' = skel o ∧ rep o' = (rep o).map (tyLeaf t) := by
  obtain ⟨o', h1, h2, h3, _⟩ := type_tree_spec (todayCfg dflt) base_to_guards_today t o hn hp
  exact ⟨o', h1, h2, h3⟩

/-- **`to(dtype)` over the whole tree** (operator root; base `to` guarding, every sub-operator reporting a floating
dtype, no Identity/Zero/Cat keyword rewrite): same skeleton, and leaf by leaf `toLeaf t` — a floating tensor of another
dtype is cast (new storage), a tensor that already has dtype `t` is *the same tensor* (no copy), integer / boolean
tensors are never touched, at any depth, positional or keyword. -/
theorem to_tree_spec (cfg : Cfg) (hb : cfg.baseToGuard = true) (t : DT) (o : Op)
    (hn : normal cfg o = true) (hp : toOK cfg o = true) (hnode : ∀ l, o ≠ .leaf l) :
    ∃ o', conv cfg (.to t) o = some o' ∧ skel o' = skel o ∧ rep o' = (rep o).map (toLeaf t) :=
  conv_to_node cfg hb t o hn hp hnode

example : toOK { genCfg .f32 with baseToGuard := true } exSum = true ∧ (∀ l, exSum ≠ .leaf l) :=
  ⟨by decide +kernel, by intro l h; cases h⟩

/-- **`clone` is deep and independent**: for every normal operator tree (any depth, kwargs sub-operators included,
no further side condition) `clone` succeeds, keeps the skeleton, and *every* tensor leaf of the result — floating,
integer or boolean, at every depth — has fresh storage (`fresh = true`: the leaf-identity abstraction that the
correspondence compares with `untyped_storage()` overlap against all leaves of the original), while dtype, shape,
position and requires_grad are unchanged. -/
theorem clone_deep_independent (cfg : Cfg) (o : Op) (hn : normal cfg o = true) :
    ∃ o', conv cfg .clone o = some o' ∧ skel o' = skel o ∧
      rep o' = (rep o).map (fun l => { l with fresh := true }) ∧ (∀ l ∈ rep o', l.fresh = true) := by
  obtain ⟨o', h1, h2, h3⟩ := conv_simple cfg .clone (Or.inl rfl) o hn
  have h3' : rep o' = (rep o).map (fun l => { l with fresh := true }) := h3
  refine ⟨o', h1, h2, h3', ?_⟩
  intro l hl
  rw [h3'] at hl
  rcases List.mem_map.mp hl with ⟨l0, _, rfl⟩
  rfl

/-- **`detach` over the whole tree**: same skeleton, every leaf keeps its storage (shares it with the original) and
has `requires_grad = False`. -/
theorem detach_tree_spec (cfg : Cfg) (o : Op) (hn : normal cfg o = true) :
    ∃ o', conv cfg .detach o = some o' ∧ skel o' = skel o ∧ rep o' = (rep o).map (fun l => { l with rg := false }) :=
  conv_simple cfg .detach (Or.inr rfl) o hn

/-- Satisfiability of the hypotheses of `type_tree_spec` / `clone_deep_independent`: the three-level example with
integer tensors, keyword arguments and a kwargs sub-operator variant, under a guarding base `to`. -/
example : normal { genCfg .f32 with baseToGuard := true } exSum = true ∧
    typeOK { genCfg .f32 with baseToGuard := true } exSum = true ∧
    typeOK (todayCfg .f32) exUserWrap = true ∧ normal (todayCfg .f32) exUserWrap = true := by
  decide +kernel

/-- **Keyword tensors obey the same casting law as positional tensors**: for every class, mode, and lists of
positional / keyword tensors of any length, a conversion passes `convLeaf` of each tensor to the constructor —
so with `type_casts_exactly_float` an integer index tensor or boolean mask held as a *keyword* argument (Kernel
`**params`, user subclasses) keeps its dtype under `type` / `double` / `float` / `half`, exactly like a positional one. -/
theorem conversion_casts_kwargs_like_args (cfg : Cfg) (m : Mode) (cls : String) (la ld : List Leaf)
    (dn : List String) (nkw hid : KV)
    (hc : (decide (cls = "TransposePermutationLinearOperator") && isTypeMode m) = false) :
    conv cfg m (.node cls (la.map Op.leaf) dn (ld.map Op.leaf) nkw hid) =
      construct cfg cls
        (la.map fun l => Op.leaf (convLeaf (nodeMode m cls) (floatOnlyTo cls || cfg.baseToGuard) l))
        (kwOf dn (ld.map fun l => Op.leaf (convLeaf (nodeMode m cls) (floatOnlyTo cls || cfg.baseToGuard) l))
          (convNkw m cls nkw)) := by
  rw [conv_node, if_neg (by simp [hc]), convL_leaves, convL_leaves]

/-- `KernelLinearOperator(x1, x2, covar_func, active_dims=<int64>, keep=<bool>, lengthscale=<float>)` as stored -/
def exKernelKw : Op :=
  .node "KernelLinearOperator" [tL 0 .f32, tL 1 .f32] ["active_dims", "keep", "lengthscale"]
    [.leaf ⟨.i64, [2], 2, false, false⟩, .leaf ⟨.bool, [2], 3, false, false⟩, tL 4 .f32]
    [("covar_func", .str "fn"), ("num_nonbatch_dimensions", .str "dict"), ("num_outputs_per_input", .ints [1, 1])] []

/-- `type` (double / float / half) never casts integer / boolean **keyword** tensors — also one level down
(`Sum(Kernel, …)` is converted through `clone().to(dtype)` of the child, which needs the base `to` to guard). -/
theorem type_keeps_index_kwargs_example :
    normal (genCfg .f32) exKernelKw = true ∧
    (conv (genCfg .f32) (.type .f64) exKernelKw).map (fun o => (rep o).map (·.dt)) = some [.f64, .f64, .i64, .bool, .f64] ∧
    (conv (genCfg .f32) (.type .f16) exKernelKw).map (fun o => (rep o).map (·.dt)) = some [.f16, .f16, .i64, .bool, .f16] := by
  decide +kernel

/-- **D32 (counterexample)**: the base-class `to(dtype)` casts integer / boolean keyword tensors of a class without
a `to` override (today's `LinearOperator.to`, `baseToGuard = false`), directly and — through `type` — below a parent. -/
theorem to_casts_index_kwargs_counterexample :
    (conv (genCfg .f32) (.to .f64) exKernelKw).map (fun o => (rep o).map (·.dt)) = some [.f64, .f64, .f64, .f64, .f64] ∧
    (conv (genCfg .f32) (.type .f64) (.node "SumLinearOperator" [exKernelKw] [] [] [] [])).map
      (fun o => (rep o).map (·.dt)) = some [.f64, .f64, .f64, .f64, .f64] := by
  decide +kernel

/-- **D32 (partial / proposed fix)**: once the base `to` tests the kind of each tensor (`baseToGuard = true`,
notes/C14_fix_4.diff) integer / boolean tensors survive `to` and nested `type` for args and kwargs alike. -/
theorem to_keeps_index_kwargs_when_base_guards :
    let cfg : Cfg := { genCfg .f32 with baseToGuard := true }
    (conv cfg (.to .f64) exKernelKw).map (fun o => (rep o).map (·.dt)) = some [.f64, .f64, .i64, .bool, .f64] ∧
    (conv cfg (.type .f64) (.node "SumLinearOperator" [exKernelKw] [] [] [] [])).map
      (fun o => (rep o).map (·.dt)) = some [.f64, .f64, .i64, .bool, .f64] ∧
    (conv cfg (.to .f64)
      (.node "PermutationLinearOperator" [.leaf ⟨.i64, [3], 0, false, false⟩, .leaf ⟨.i64, [3], 1, false, false⟩]
        [] [] [("validate_args", .bool false)] [])).map (fun o => (rep o).map (·.dt)) = some [.i64, .i64] := by
  decide +kernel

/-- **D18 (counterexample)**: the base-class `to` casts *every* tensor argument, so an integer tensor held by a class
without a `to` override (PermutationLinearOperator) becomes floating point. -/
theorem to_casts_index_counterexample :
    (convLeaf (.to .f64) false ⟨.i64, [3], 0, false, false⟩).dt = .f64 ∧
    (conv (genCfg .f32) (.to .f64)
      (.node "PermutationLinearOperator" [.leaf ⟨.i64, [3], 0, false, false⟩, .leaf ⟨.i64, [3], 1, false, false⟩]
        [] [] [("validate_args", .bool false)] [])).map (fun o => (rep o).map (·.dt)) = some [.f64, .f64] := by
  decide +kernel

/-- **D18 (partial)**: below an Interpolated operator the integer index tensors survive `to` and `type` at every
nesting level of this example (Sum → Interpolated → Dense). -/
theorem to_keeps_index_example :
    (conv (genCfg .f32) (.to .f64) exSum).map (fun o => (rep o).map (·.dt)) =
      some [.f64, .i64, .f64, .i64, .f64, .f64, .f64] ∧
    (conv (genCfg .f32) (.type .f64) exSum).map (fun o => (rep o).map (·.dt)) =
      some [.f64, .i64, .f64, .i64, .f64, .f64, .f64] := by
  decide +kernel

/-- clone gives every tensor fresh storage; detach clears requires_grad and shares storage. -/
theorem clone_fresh_detach_shares (g : Bool) (l : Leaf) :
    (convLeaf .clone g l).fresh = true ∧ (convLeaf .clone g l).dt = l.dt ∧
    (convLeaf .detach g l).rg = false ∧ (convLeaf .detach g l).fresh = l.fresh ∧ (convLeaf .detach g l).id = l.id := by
  simp [convLeaf]

/-- **`requires_grad_(v)` reaches every floating tensor, whatever the flags were before**: for every operator tree
of any depth, any number of args / kwargs and *any initial requires_grad pattern* (all off, all on, mixed), if every
sub-operator reports a floating `dtype` (`fdt`; that is the test `_set_requires_grad` itself applies before it
descends), then afterwards the flattened representation is the old one with every floating leaf's flag set to `v`
and every integer / boolean leaf untouched.  In particular the result does not depend on the initial flags of the
floating leaves (no "already done" shortcut for a partially switched-on child). -/
theorem requires_grad_reaches_every_floating_leaf (cfg : Cfg) (v : Bool) (o : Op) (h : fdt cfg o = true) :
    rep (setRG cfg v o) = (rep o).map (rgLeaf v) ∧
    (∀ l ∈ rep (setRG cfg v o), l.dt.isFloat = true → l.rg = v) := by
  have e := rep_setRG cfg v o h
  refine ⟨e, ?_⟩
  intro l hl hf
  rw [e] at hl
  rcases List.mem_map.mp hl with ⟨l0, _, rfl⟩
  unfold rgLeaf at hf ⊢
  by_cases h0 : l0.dt.isFloat = true
  · simp [h0]
  · simp [h0] at hf

/-- Non-vacuity and the mixed-history instance: in `Sum(Interpolated(…), Chol(…), ConstantDiag)` with only
`left_interp_values` (leaf 2) already requiring grad, `requires_grad_(True)` switches on all five floating leaves and
leaves the two index tensors off; `requires_grad_(False)` switches everything off. -/
theorem requires_grad_mixed_history_example :
    let mixed : Op := .node "SumLinearOperator"
      [.node "InterpolatedLinearOperator"
        [.node "DenseLinearOperator" [tL 0 .f32] [] [] [] [], tL 1 .i64, .leaf ⟨.f32, [2, 2], 2, false, true⟩, tL 3 .i64,
         tL 4 .f32] [] [] [] [],
       exChol false, .node "ConstantDiagLinearOperator" [tL 5 .f32] [] [] [("diag_shape", .int 2)] []] [] [] [] []
    fdt (genCfg .f32) mixed = true ∧
    (rep (setRG (genCfg .f32) true mixed)).map (·.rg) = [true, false, true, false, true, true, true] ∧
    (rep (setRG (genCfg .f32) false mixed)).map (·.rg) = [false, false, false, false, false, false, false] := by
  decide +kernel

/-- `_set_requires_grad` touches exactly the floating tensors held directly by an operator. -/
theorem requires_grad_exactly_float (cfg : Cfg) (v : Bool) (l : Leaf) :
    setRG cfg v (.leaf l) = .leaf (if l.dt.isFloat then { l with rg := v } else l) := by
  simp [setRG]

/-- **D17, previous code (counterexample)**: with the pre-ebb6d3b constructor a ZeroLinearOperator built with
`dtype=float64` reported float64 while its copy reported torch's default dtype (hidden attribute, never copied). -/
theorem previous_code_zero_dtype_lost_counterexample :
    let z : Op := .node "ZeroLinearOperator" [.val (.int 3), .val (.int 3)] [] [] [] [("dtype", .dt .f64), ("device", .none)]
    dtypeOf (genCfg .f32) false z = some .f64 ∧
    ((conv (genCfg .f32) .clone z).bind (dtypeOf (genCfg .f32) false)) = some .f32 := by
  decide +kernel

/-! ### Extension session 5: shape-dependent constructor normalisations (BatchRepeat unsqueeze loop, Block* block_dim move) -/

/-- **`op.unsqueeze(0)` through the generic `LinearOperator._unsqueeze_batch`** (any nesting depth; every node reached
through positional arguments uses the generic method — `genU`): the result has exactly one more dimension, the same
skeleton (classes, arities, keyword names, all non-tensor arguments), and the same tensors up to their shapes — storage
identity, dtype and requires_grad of every leaf are kept (views, nothing copied or cast); keyword tensors are untouched. -/
theorem unsqueeze_adds_one_dim (o : Op) (h : genU o = true) :
    ndim (unsqT o) = ndim o + 1 ∧ skel (unsqT o) = skel o ∧
      (rep (unsqT o)).map Leaf.noShape = (rep o).map Leaf.noShape ∧ genU (unsqT o) = true :=
  ⟨ndim_unsqT o h, skel_unsqT o, rep_unsqT o, by rw [genU_unsqT]; exact h⟩

/-- **`BatchRepeatLinearOperator.__init__` unsqueeze loop** (`for _ in range(len(batch_repeat) + 2 - base.dim())`), for
every base operator and every `r = len(batch_repeat)`: if the pre-pass succeeds, the stored base has
`max(base.dim(), r + 2)` dimensions (so the repeat sizes line up with batch dimensions), the same skeleton, and the same
tensors up to shape. -/
theorem batch_repeat_constructor_spec (base b' : Op) (r : Nat) (h : preBR base r = some b') :
    r + 2 ≤ ndim b' ∧ ndim b' = max (ndim base) (r + 2) ∧ skel b' = skel base ∧
      (rep b').map Leaf.noShape = (rep base).map Leaf.noShape := preBR_spec base b' r h

/-- **The generic `_permute_batch`** (tensors permuted in their leading `len(dims)` dimensions, sub-operators
recursively, keyword arguments untouched) keeps the number of dimensions, the skeleton and every tensor up to its
shape, for every tree in which no class overrides the method and every tensor has at least `len(dims)` dimensions. -/
theorem permute_batch_keeps_structure (dims : List Nat) (o : Op) (h : genP dims.length o = true) :
    ndim (permT dims o) = ndim o ∧ skel (permT dims o) = skel o ∧
      (rep (permT dims o)).map Leaf.noShape = (rep o).map Leaf.noShape :=
  ⟨ndim_permT dims o h, skel_permT dims o, rep_permT dims o⟩

/-- **`BlockLinearOperator.__init__` moves the block dimension last**: the permutation
`(*range(p), *range(p + 1, nd - 2), p)` it passes to `_permute_batch` has one entry per batch dimension and ends in
`p`, and a tensor with at least that many dimensions keeps its number of dimensions — for all `nd`, `p < nd - 2`. -/
theorem block_dim_moved_last (nd p : Nat) (h : p + 2 < nd) (s : List Nat) (hs : nd - 2 ≤ s.length) :
    (moveDims nd p).length = nd - 2 ∧ (moveDims nd p).getLast? = some p ∧
      (permShape (moveDims nd p) s).length = s.length :=
  ⟨moveDims_length nd p h, moveDims_last nd p, permShape_length _ _ (by rw [moveDims_length nd p h]; exact hs)⟩

/-- **The shape-dependent constructor normalisations are idempotent** — every class, every raw argument list: whatever
the BatchRepeat unsqueeze loop / the Block* block_dim move produce is a fixed point of the same pre-pass (the loop runs
zero times, `block_dim` is `-3`).  Together with `constructor_idempotent` this is why `cls(*_args, **_kwargs)` — the last
step of every clone / detach / to / type / rebuild — does not reshape anything again. -/
theorem shape_normalisation_idempotent (cls : String) (pos : List Op) (kw : List (String × Op)) (pos' : List Op)
    (kw' : List (String × Op)) (h : preNorm cls pos kw = some (pos', kw')) :
    preNorm cls pos' kw' = some (pos', kw') := preNorm_idem cls pos kw pos' kw' h

/-- The full constructor (shape pre-pass, class normalisation, parameter binding) is the identity on every stored node
whose arguments are shape-normal. -/
theorem constructor_with_shape_pass_idempotent (cfg : Cfg) (cls : String) (a : List Op) (dn : List String) (d : List Op)
    (nkw hid : KV) (hs : preNorm cls a (kwOf dn d nkw) = some (a, kwOf dn d nkw))
    (h : nodeOK cfg cls a dn d nkw hid = true) :
    constructS cfg cls a (kwOf dn d nkw) = some (.node cls a dn d nkw hid) := constructS_fix cfg cls a dn d nkw hid hs h

def exDense22 : Op := .node "DenseLinearOperator" [tL 0 .f32] [] [] [] []
def exSumDD : Op := .node "SumLinearOperator" [exDense22, .node "DiagLinearOperator" [.leaf ⟨.f32, [2], 1, false, true⟩] [] [] [] []] [] [] [] []

/-- `cls(*_args, **_kwargs)` of a constructed operator, shape pre-pass included -/
def reS (cfg : Cfg) : Option Op → Option Op
  | some (.node c a dn d nkw _) => constructS cfg c a (kwOf dn d nkw)
  | _ => none

/-- Satisfiability of `genU` / `genP` / `preBR` / `preNorm` hypotheses, and an end-to-end instance with today's layouts:
`BatchRepeat(Sum(Dense 2x2, Diag 2), batch_repeat=Size([2, 3]))` stores the base with shapes `[1,1,2,2]` / `[1,1,2]`
(same storage ids, requires_grad kept), and re-applying the constructor to what was stored returns the same node;
`BlockDiag(Dense[2,3,2,2], block_dim=0)` stores the base permuted to `[3,2,2,2]` and is a fixed point as well. -/
theorem shape_constructor_examples :
    genU exSumDD = true ∧ genP 2 exSumDD = false ∧
    (constructS (todayCfg .f32) "BatchRepeatLinearOperator" [exSumDD] [("batch_repeat", .val (.ints [2, 3]))]).map
        (fun o => (rep o).map (fun l => (l.shape, l.id, l.rg))) = some [([1, 1, 2, 2], 0, false), ([1, 1, 2], 1, true)] ∧
    (reS (todayCfg .f32) (constructS (todayCfg .f32) "BatchRepeatLinearOperator" [exSumDD]
        [("batch_repeat", .val (.ints [2, 3]))])).map (fun o => (rep o).map (·.shape)) = some [[1, 1, 2, 2], [1, 1, 2]] ∧
    (constructS (todayCfg .f32) "BlockDiagLinearOperator"
        [.node "DenseLinearOperator" [.leaf ⟨.f32, [2, 3, 2, 2], 0, false, false⟩] [] [] [] [], .val (.int 0)] []).map
        (fun o => (rep o).map (·.shape)) = some [[3, 2, 2, 2]] := by
  decide +kernel

open LinOp.Generated.C14 in
/-- **The generic `_unsqueeze_batch` / `_permute_batch` are applied exactly to the classes that inherit them**: the
override lists of the model equal the classes whose C3-MRO-resolved method is not `LinearOperator`'s in today's source
(a new override, or a removed one, breaks this obligation). -/
theorem batch_method_owners_reviewed :
    batchOwners.filterMap (fun r => if r.2.1 = "LinearOperator" then none else some r.1) = unsqOverride ∧
    batchOwners.filterMap (fun r => if r.2.2.1 = "LinearOperator" then none else some r.1) = permOverride := by
  decide +kernel

/-- reviewed source text of the code regions mirrored by `LinOp/C14/Shape.lean` -/
def reviewedPinned : List (String × List String) := [
  ("BatchRepeatLinearOperator.__init__", ["if settings.debug.on():\n    if not isinstance(batch_repeat, torch.Size):\n        raise RuntimeError('batch_repeat must be a torch.Size, got a {} instead'.format(batch_repeat.__class__.__name__))\n    if isinstance(base_linear_op, BatchRepeatLinearOperator):\n        raise RuntimeError('BatchRepeatLinearOperator received the following args:\\nbase_linear_op: {} (size: {}), batch_repeat: {}.'.format(base_linear_op, base_linear_op.shape, batch_repeat))",
    "for _ in range(len(batch_repeat) + 2 - base_linear_op.dim()):\n    base_linear_op = base_linear_op.unsqueeze(0)",
    "super().__init__(base_linear_op, batch_repeat=batch_repeat)"]),
  ("BlockLinearOperator.__init__", ["if base_linear_op.dim() < 3:\n    raise RuntimeError('base_linear_op must be a batch matrix (i.e. at least 3 dimensions - got {}'.format(base_linear_op.dim()))",
    "block_dim = block_dim if block_dim < 0 else block_dim - base_linear_op.dim()",
    "if block_dim != -3:\n    positive_block_dim = base_linear_op.dim() + block_dim\n    base_linear_op = base_linear_op._permute_batch(*range(positive_block_dim), *range(positive_block_dim + 1, base_linear_op.dim() - 2), positive_block_dim)",
    "super(BlockLinearOperator, self).__init__(to_linear_operator(base_linear_op))"]),
  ("LinearOperator._unsqueeze_batch", ["components = [component.unsqueeze(dim) for component in self._args]",
    "res = self.__class__(*components, **self._kwargs)",
    "return res"]),
  ("LinearOperator._permute_batch", ["components = []",
    "for component in self._args:\n    if torch.is_tensor(component):\n        extra_dims = range(len(dims), component.dim())\n        components.append(component.permute(*dims, *extra_dims))\n    elif isinstance(component, LinearOperator):\n        components.append(component._permute_batch(*dims))\n    else:\n        components.append(component)",
    "res = self.__class__(*components, **self._kwargs)",
    "return res"]),
  ("LinearOperator.unsqueeze", ["positive_dim = self.dim() + dim + 1 if dim < 0 else dim",
    "if positive_dim > len(self.batch_shape):\n    raise ValueError('Can only unsqueeze batch dimensions of {} (size {}). Got dim={}.'.format(self.__class__.__name__, self.shape, dim))",
    "res = self._unsqueeze_batch(positive_dim)",
    "return res"]),
  ("DenseLinearOperator._expand_batch", ["return self.__class__(self.tensor.expand(*batch_shape, *self.matrix_shape))"])]

open LinOp.Generated.C14 in
/-- **The mirrored constructor code is unchanged**: the statements of `BatchRepeatLinearOperator.__init__` and
`BlockLinearOperator.__init__` up to their `super().__init__` call, and the bodies of the generic
`_unsqueeze_batch`, `_permute_batch`, `unsqueeze` and `DenseLinearOperator._expand_batch`, are literally the reviewed
ones (any edit of these lines must be re-reviewed against `preBR` / `preBlock` / `unsqT` / `permT`). -/
theorem pinned_source_reviewed : pinnedSource = reviewedPinned := by decide +kernel


/-! ### Extension session 5, part 2: batch-broadcasting constructors (Sum / PsdSum / AddedDiag / Matmul / Interpolated) -/

/-- **`_expand_batch(bs)` yields batch shape `bs`** for every operator tree the model follows (Dense / Diag / ConstantDiag /
Toeplitz tensors `.expand`ed; Triangular / Chol / Root / LowRankRoot expanding the wrapped operator; Sum / PsdSum / AddedDiag /
Matmul expanding every component), any nesting depth, any non-empty target shape. -/
theorem expand_batch_gives_shape (bs : List Nat) (hbs : bs.isEmpty = false) (o o' : Op) (h : expandB bs o = some o') :
    bshape o' = some bs := bshape_expandB bs hbs o o' h

/-- **The broadcasting part of `SumLinearOperator.__init__` / `MatmulLinearOperator.__init__`** (also reached by PsdSum and
AddedDiag), for every argument list: afterwards all stored arguments have one common batch shape, their number is
unchanged, and the pre-pass applied to its own result changes nothing (so `cls(*_args, **_kwargs)` never expands again). -/
theorem broadcast_constructor_spec (pos pos' : List Op) (h : preBroadcast pos = some pos') :
    (∃ bs, ∀ x ∈ pos', bshape x = some bs) ∧ pos'.length = pos.length ∧ preBroadcast pos' = some pos' :=
  preBroadcast_spec pos pos' h

/-- **`InterpolatedLinearOperator.__init__` base expansion** is idempotent (the stored base already has the batch shape of
the interpolation indices), and stores five arguments. -/
theorem interpolated_base_expansion_idempotent (pos pos' : List Op) (h : preInterp pos = some pos') :
    preInterp pos' = some pos' ∧ pos'.length = 5 := preInterp_idem pos pos' h

/-- `torch.broadcast_shapes` laws used above: a shape broadcasts with itself and with `()` to itself. -/
theorem broadcast_shapes_laws (bs : List Nat) : bcast bs bs = some bs ∧ bcast bs [] = some bs :=
  ⟨bcast_self bs, bcast_nil_right bs⟩

/-- **All shape-dependent constructor normalisations of the model together are idempotent** — BatchRepeat unsqueeze loop,
Block* block_dim move, Sum / PsdSum / AddedDiag / Matmul batch broadcasting, Interpolated base expansion — for every class and
every raw argument list. -/
theorem all_shape_normalisations_idempotent (cls : String) (pos : List Op) (kw : List (String × Op)) (pos' : List Op)
    (kw' : List (String × Op)) (h : preNormB cls pos kw = some (pos', kw')) :
    preNormB cls pos' kw' = some (pos', kw') := preNormB_idem cls pos kw pos' kw' h

/-- The full constructor with all shape pre-passes is the identity on every stored, shape-normal node. -/
theorem constructor_with_broadcast_idempotent (cfg : Cfg) (cls : String) (a : List Op) (dn : List String) (d : List Op)
    (nkw hid : KV) (hs : preNormB cls a (kwOf dn d nkw) = some (a, kwOf dn d nkw))
    (h : nodeOK cfg cls a dn d nkw hid = true) :
    constructB cfg cls a (kwOf dn d nkw) = some (.node cls a dn d nkw hid) := constructB_fix cfg cls a dn d nkw hid hs h

def exDiagB (sh : List Nat) (i : Nat) : Op := .node "DiagLinearOperator" [.leaf ⟨.f32, sh, i, false, false⟩] [] [] [] []
def exTriB (sh : List Nat) (i : Nat) : Op :=
  .node "TriangularLinearOperator" [.node "DenseLinearOperator" [.leaf ⟨.f32, sh, i, false, true⟩] [] [] [] []] [] []
    [("upper", .bool true)] []

/-- `cls(*_args, **_kwargs)` of a constructed operator, all shape pre-passes included -/
def reB (cfg : Cfg) : Option Op → Option Op
  | some (.node c a dn d nkw _) => constructB cfg c a (kwOf dn d nkw)
  | _ => none

/-- Satisfiability and end-to-end instances with today's layouts: `Sum(TriU(Dense[2,2]), Diag[3,1,2], <tensor [2,2]>)`
stores `TriU(Dense[3,1,2,2])` (upper kept, same storage id, requires_grad kept), the Diag unchanged and the raw tensor
wrapped and expanded to `[3,1,2,2]`; `Matmul(Dense[2,2], Dense[2,2,2])` expands the left factor; re-applying the
constructor to what was stored returns the same shapes. -/
theorem broadcast_constructor_examples :
    (constructB (todayCfg .f32) "SumLinearOperator" [exTriB [2, 2] 0, exDiagB [3, 1, 2] 1, tL 2 .f32] []).map
        (fun o => (rep o).map (fun l => (l.shape, l.id, l.rg))) =
      some [([3, 1, 2, 2], 0, true), ([3, 1, 2], 1, false), ([3, 1, 2, 2], 2, false)] ∧
    (reB (todayCfg .f32) (constructB (todayCfg .f32) "SumLinearOperator"
        [exTriB [2, 2] 0, exDiagB [3, 1, 2] 1, tL 2 .f32] [])).map (fun o => (rep o).map (·.shape)) =
      some [[3, 1, 2, 2], [3, 1, 2], [3, 1, 2, 2]] ∧
    (constructB (todayCfg .f32) "MatmulLinearOperator" [tL 0 .f32, .leaf ⟨.f32, [2, 2, 2], 1, false, false⟩] []).map
        (fun o => (rep o).map (·.shape)) = some [[2, 2, 2], [2, 2, 2]] ∧
    expandB [3] (exTriB [2, 2] 0) ≠ none ∧ preBroadcast [exTriB [2, 2] 0, exDiagB [3, 1, 2] 1] ≠ none := by
  decide +kernel


/-! ### Extension session 5, part 3: `KernelLinearOperator.__init__` broadcasting of x1 / x2 / tensor `**params` -/

/-- **The Kernel constructor's broadcasting is idempotent** (all batch shapes, any number of tensor / operator / non-tensor
`**params`), provided every tensor parameter has the two non-batch dimensions that the default
`num_nonbatch_dimensions` assumes: re-applying the constructor to the stored `x1`, `x2`, `**params` neither reshapes nor
copies anything again. -/
theorem kernel_broadcast_idempotent (pos : List Op) (kw : List (String × Op)) (pos' : List Op) (kw' : List (String × Op))
    (hk : kwDims2 kw = true) (h : preKernel pos kw = some (pos', kw')) : preKernel pos' kw' = some (pos', kw') :=
  preKernel_idem pos kw pos' kw' hk h

/-- **Every shape-dependent constructor pre-pass of the model is idempotent** (BatchRepeat, Block*, Sum / PsdSum /
AddedDiag / Matmul, Interpolated, Kernel), every class and raw argument list. -/
theorem all_constructor_prepasses_idempotent (cls : String) (pos : List Op) (kw : List (String × Op)) (pos' : List Op)
    (kw' : List (String × Op)) (hk : cls = "KernelLinearOperator" → kwDims2 kw = true)
    (h : preNormK cls pos kw = some (pos', kw')) : preNormK cls pos' kw' = some (pos', kw') :=
  preNormK_idem cls pos kw pos' kw' hk h

def exKx1 : Op := .leaf ⟨.f32, [3, 2], 0, false, true⟩
def exKx2 : Op := .leaf ⟨.f32, [2, 2, 2], 1, false, false⟩
def kwShapes (r : Option (List Op × List (String × Op))) : Option (List (List Nat) × List (List Nat) × List Bool) :=
  r.map fun p => (repL p.1 |>.map (·.shape), repL (p.2.map (·.2)) |>.map (·.shape), repL p.1 |>.map (·.fresh))

/-- Instances: `Kernel(x1[3,2], x2[2,2,2], scale[1,1], sel:int64[1,1], op=<operator>)` stores x1 expanded **and copied**
(`contiguous`: fresh storage), x2 untouched (same storage), both tensor parameters expanded to `[2,1,1]`, the operator-valued
parameter untouched; the hypothesis of `kernel_broadcast_idempotent` holds for it. -/
theorem kernel_broadcast_example :
    let kw : List (String × Op) := [("scale", .leaf ⟨.f32, [1, 1], 2, false, true⟩), ("sel", .leaf ⟨.i64, [1, 1], 3, false, false⟩),
      ("op", exDense22), ("flag", .val (.int 2))]
    kwDims2 kw = true ∧
    kwShapes (preKernel [exKx1, exKx2, .val (.str "fn")] kw) =
      some ([[2, 3, 2], [2, 2, 2]], [[2, 1, 1], [2, 1, 1], [2, 2]], [true, false]) := by
  decide +kernel

/-- **Observation (counterexample to unconditional idempotence)**: a tensor parameter with fewer than two dimensions
(here a 0-dim `scale`) under the default `num_nonbatch_dimensions` is expanded to `[2]` by the constructor and to `[2, 2]`
by the next `cls(*_args, **_kwargs)` — every clone / rebuild of such an operator grows the parameter.  (Such parameters
are outside the documented contract of KernelLinearOperator; the constructor does not validate it.) -/
theorem kernel_lowdim_param_grows_counterexample :
    let kw : List (String × Op) := [("scale", .leaf ⟨.f32, [], 2, false, false⟩)]
    kwShapes (preKernel [exKx1, exKx2] kw) = some ([[2, 3, 2], [2, 2, 2]], [[2]], [true, false]) ∧
    kwShapes ((preKernel [exKx1, exKx2] kw).bind (fun p => preKernel p.1 p.2)) =
      some ([[2, 3, 2], [2, 2, 2]], [[2, 2]], [true, false]) := by
  decide +kernel


/-! ### Obligations on the tables generated from today's source -/

/-- Reviewed allocation sites that use torch's default dtype: index lists and scalars whose dtype is irrelevant.
(The two `ZeroLinearOperator` sites of defect D17 are gone since /repo ebb6d3b; re-introducing them breaks the obligation.) -/
def reviewedDefaultDtype : List (String × String × String) := [
  ("linear_operator/operators/_linear_operator.py", "LinearOperator.__getitem__", "torch.tensor(idx)"),
  ("linear_operator/operators/cat_linear_operator.py", "CatLinearOperator.__init__",
    "torch.tensor([t.size(dim) for t in linear_ops], device=output_device)"),
  ("linear_operator/operators/zero_linear_operator.py", "ZeroLinearOperator.logdet", "torch.tensor(0.0)"),
  ("linear_operator/utils/deprecation.py", "<module>", "torch.ones(1)"),
  ("linear_operator/utils/sparse.py", "sparse_eye", "torch.tensor(1.0)")]

open LinOp.Generated.C14 in
/-- **No floating allocation without an explicit dtype** anywhere in `linear_operator/` beyond the reviewed list:
every `torch.zeros/ones/eye/tensor/full/empty/randn/rand/linspace/as_tensor/…` call passes `dtype=`, or is
index-valued (`arange`, `randperm`, integer dtype).  A new default-dtype allocation breaks this obligation. -/
theorem no_default_dtype_float_alloc :
    ∀ s ∈ allocSites, s.hasDtype = true ∨ s.intIndex = true ∨ (s.file, s.func, s.src) ∈ reviewedDefaultDtype := by
  decide +kernel

open LinOp.Generated.C14 in
/-- The translator expressed every constructor chain as a layout. -/
theorem layouts_complete : issues = [] := by decide +kernel

open LinOp.Generated.C14 in
/-- **No constructor parameter is only kept as an attribute**: every parameter of every operator class reaches
`_args`/`_kwargs` (or is consumed by a normalisation), so no flag can be reset by a copy or a rebuild.
Re-introducing D16 / D16b / D17 (dropping `upper`, `dtype`, `device` from the `super().__init__` call), or dropping any
other parameter in any class, breaks this obligation. -/
theorem no_hidden_parameters : ∀ c ∈ classes, c.2.hidden = [] := by
  decide +kernel

open LinOp.Generated.C14 in
/-- Layout sanity: stored positionals are a prefix of the signature, `*args` classes have no named stored
positionals, consumed parameters are only the block operators' `block_dim` (normalised to −3 by a permute). -/
theorem layouts_wellformed :
    ∀ c ∈ classes, c.2.npos ≤ c.2.posNames.length ∧ (c.2.vararg = true → c.2.npos = 0) ∧
      (∀ k ∈ c.2.consumed, k = "block_dim") ∧
      (∀ k ∈ c.2.kwStored, (!hasKey c.2.hidden k.1 && !c.2.consumed.contains k.1) = true) := by
  decide +kernel

open LinOp.Generated.C14 in
/-- The copy / conversion methods are overridden only where the model mirrors an override. -/
theorem overrides_reviewed :
    ∀ c ∈ overrides, ∀ m ∈ c.2, (c.1, m) ∈
      [("CatLinearOperator", "to"), ("CatLinearOperator", "device"),
       ("IdentityLinearOperator", "to"), ("IdentityLinearOperator", "type"), ("IdentityLinearOperator", "dtype"),
       ("IdentityLinearOperator", "device"), ("InterpolatedLinearOperator", "to"), ("MaskedLinearOperator", "to"),
       ("TransposePermutationLinearOperator", "type"), ("TransposePermutationLinearOperator", "dtype"),
       ("TransposePermutationLinearOperator", "device"), ("ZeroLinearOperator", "dtype"), ("ZeroLinearOperator", "device"),
       ("ZeroLinearOperator", "to"), ("ZeroLinearOperator", "type"),
       -- Zero's empty representation and private representation tree are mirrored by `representable` / `RT.zero`
       ("ZeroLinearOperator", "representation"), ("ZeroLinearOperator", "representation_tree"),
       ("AddedDiagLinearOperator", "evaluate_kernel"), ("MulLinearOperator", "representation"),
       ("MulLinearOperator", "representation_tree")] := by
  decide +kernel

end LinOp.C14
