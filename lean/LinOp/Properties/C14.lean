import LinOp.C14.Proofs
import LinOp.Generated.C14Classes
import LinOp.Generated.C14Alloc
/-!
C14 — copies, conversions and rebuilds denote the same matrix with the right dtype.  Property theorems only.
-/
namespace LinOp.C14

/-! ### Obligations on the tables generated from today's source -/

/-- Reviewed allocation sites that use torch's default dtype: index lists, scalars whose dtype is irrelevant,
and the two `ZeroLinearOperator` sites of defect D17 (`to_dense`, `_get_indices`). -/
def reviewedDefaultDtype : List (String × String × String) := [
  ("linear_operator/operators/_linear_operator.py", "LinearOperator.__getitem__", "torch.tensor(idx)"),
  ("linear_operator/operators/cat_linear_operator.py", "CatLinearOperator.__init__",
    "torch.tensor([t.size(dim) for t in linear_ops], device=output_device)"),
  ("linear_operator/operators/zero_linear_operator.py", "ZeroLinearOperator._get_indices", "torch.zeros(*new_size)"),
  ("linear_operator/operators/zero_linear_operator.py", "ZeroLinearOperator.logdet", "torch.tensor(0.0)"),
  ("linear_operator/operators/zero_linear_operator.py", "ZeroLinearOperator.to_dense", "torch.zeros(*self.sizes)"),
  ("linear_operator/utils/deprecation.py", "<module>", "torch.ones(1)"),
  ("linear_operator/utils/sparse.py", "sparse_eye", "torch.tensor(1.0)")]

open LinOp.Generated.C14 in
/-- **No floating allocation without an explicit dtype** anywhere in `linear_operator/` beyond the reviewed list:
every `torch.zeros/ones/eye/tensor/full/empty/randn/rand/linspace/as_tensor/…` call passes `dtype=`, or is
index-valued (`arange`, `randperm`, integer dtype).  A new default-dtype allocation breaks this obligation. -/
theorem no_default_dtype_float_alloc :
    ∀ s ∈ allocSites, s.hasDtype = true ∨ s.intIndex = true ∨ (s.file, s.func, s.src) ∈ reviewedDefaultDtype := by
  decide +kernel

end LinOp.C14
