import LinOp.C03.ProofsConvert
import LinOp.C03.ProofsOps
import LinOp.C03.ProofsRange
import LinOp.C03.ProofsFront
import LinOp.Generated.C03Getitem
import LinOp.C03.ProofsGetitem
import LinOp.Generated.C03SlicePath
/-!
C03 — indexing matches torch indexing of the dense matrix.  Property theorems only.

`specShape` / `specPos` / `hasTST` are the torch rule (ints are selects applied first; the broadcast tensor dims
sit at the first tensor position if all tensor positions are adjacent, else at the front);
`computeGetitemSize`, `movedToStart`, `intToSlice`, `kronIdx`, `toepIdx`, `blockDiagIdx`, `blockInterIdx`,
`batchRepeatIdx`, `catLocate`, `splitSliceBounds` mirror the library (see `LinOp/C03/Model.lean`).
-/
namespace LinOp.C03

/-- **`_compute_getitem_size` computes the torch shape**: for every rank, every dims and every (ellipsis-expanded)
index tuple of ints / slices / tensor indices of any shapes, the single-pass state machine of
`utils/getitem.py::_compute_getitem_size` (expected shape of the debug-mode assertion) returns exactly the
declarative torch shape `specShape`. -/
theorem computeGetitemSize_eq_spec (zi : List (Nat × Item)) : computeGetitemSize zi = specShape zi := by
  unfold computeGetitemSize specShape St.finish
  have hf := run_final zi St.init
  have ht := run_tidx_none zi St.init rfl rfl
  have hs := run_tshape_none zi St.init rfl
  have hk := hasT_iff_tensorShapes zi
  change (match (run St.init zi).tidx with
    | none => (run St.init zi).final
    | some k => (run St.init zi).final.take k ++ (run St.init zi).tshape ++ (run St.init zi).final.drop k) = _
  rw [ht, hf, hs]
  cases hsh : tensorShapes zi with
  | nil => simp [hsh] at hk; simp [hk, St.init]
  | cons s r =>
    simp [hsh] at hk
    simp only [hk, if_true, St.init, List.nil_append, List.length_nil, Nat.zero_add, specPos]
    rfl

/-- **`_is_tensor_index_moved_to_start`** answers `True` exactly when the first index is a tensor or the tensor
positions are not adjacent (tensor … slice … tensor, ints ignored) — for index tuples of any length. -/
theorem movedToStart_iff_nonadjacent (k : K) (l : List K) :
    movedToStart (k :: l) = (decide (k = K.T) || hasTST (k :: l)) := movedToStart_cases k l

/-- in the non-moved case the tensor dims sit after exactly the slices that precede the first tensor, and when
`movedToStart` holds the torch position is 0 — so `__getitem__`'s un-flattening rule uses the torch position
whenever the tensor block is first or last among the result dims. -/
theorem movedToStart_specPos (k : K) (l : List K) (h : movedToStart (k :: l) = true) : specPos (k :: l) = 0 :=
  movedToStart_specPos' k l h

/-- **Python `slice.indices` model**: the index list has the length given by the closed formula. -/
theorem sliceIndices_length (n : Nat) (a b c : Option Int) : (sliceIndices n a b c).length = sliceLen n a b c := by
  simp [sliceIndices]

/-- clamping: a bound never leaves `[0, n]`, whatever (negative, over-long) value is given. -/
theorem clampBound_le (n : Nat) (b : Int) : clampBound n b ≤ n := by
  unfold clampBound; split <;> omega

/-- **every index produced by a slice with positive step is in range** (all sizes, all bounds). -/
theorem sliceIndices_inRange (n : Nat) (a b c : Option Int) (hc : 0 < sliceStep c) :
    ∀ x ∈ sliceIndices n a b c, x < n := by
  intro x hx
  simp only [sliceIndices, List.mem_map, List.mem_range] at hx
  obtain ⟨k, hk, rfl⟩ := hx
  have hstop : sliceStop n b ≤ n := by unfold sliceStop; split; · exact Nat.le_refl n
                                       · exact clampBound_le n _
  unfold sliceLen at hk
  simp only at hk
  split at hk
  · rename_i hlt
    have : k * sliceStep c ≤ sliceStop n b - sliceStart n a - 1 := by
      have h1 : k ≤ (sliceStop n b - sliceStart n a - 1) / sliceStep c := by omega
      calc k * sliceStep c ≤ ((sliceStop n b - sliceStart n a - 1) / sliceStep c) * sliceStep c := Nat.mul_le_mul_right _ h1
        _ ≤ _ := Nat.div_mul_le_self _ _
    omega
  · omega

/-- the full slice `:` enumerates the whole dimension -/
theorem sliceLen_full (n : Nat) : sliceLen n none none none = n := by
  unfold sliceLen sliceStart sliceStop sliceStep
  simp only
  split
  · rw [Nat.div_one]; omega
  · omega

/-- for a non-negative in-range int, `slice(i, i+1)` selects exactly row `i` (helper statement) -/
theorem intSlice_nonneg (n i : Nat) (h : i < n) :
    sliceIndices n (some (i : Int)) (some ((i : Int) + 1)) none = [i] := by
  have h1 : sliceStart n (some (i : Int)) = i := by
    simp only [sliceStart, clampBound]; split <;> omega
  have h2 : sliceStop n (some ((i : Int) + 1)) = i + 1 := by
    simp only [sliceStop, clampBound]; split <;> omega
  have h3 : sliceLen n (some (i : Int)) (some ((i : Int) + 1)) none = 1 := by
    unfold sliceLen; simp only [h1, h2, sliceStep]; simp
  simp [sliceIndices, h3, h1, sliceStep]

/-- **`__getitem__`, int in a matrix position (code as of 11686d1: `if i < 0: i += size; slice(i, i + 1)`)**:
for EVERY valid int of every size — negative ones included — the rewriting is a slice that selects exactly the
row/column torch's `select` reads (`wrap n i`), so the later `squeeze` returns the torch result. -/
theorem intToSlice_selects (n : Nat) (i : Int) (h : -(n : Int) ≤ i ∧ i < n) :
    intToSlice n i = Item.slice (some (wrap n i : Int)) (some ((wrap n i : Int) + 1)) none ∧
    sliceIndices n (some (wrap n i : Int)) (some ((wrap n i : Int) + 1)) none = [wrap n i] ∧ wrap n i < n := by
  have hw : ((wrap n i : Nat) : Int) = if i < 0 then i + n else i := by
    unfold wrap; split <;> omega
  have hlt : wrap n i < n := by unfold wrap; split <;> omega
  refine ⟨?_, intSlice_nonneg n (wrap n i) hlt, hlt⟩
  unfold intToSlice; simp only [hw]

/-- statement about the PREVIOUS code (before 11686d1, defect D06): `-1` is valid for every `n ≥ 1`, but the old
rewriting gave `slice(-1, 0)`, empty for every `n`.  A re-introduction makes `generated_arith_table` fail. -/
theorem intToSliceOld_negInt_counterexample (n : Nat) :
    intToSliceOld (-1) = Item.slice (some (-1)) (some 0) none ∧ sliceLen n (some (-1)) (some 0) none = 0 := by
  refine ⟨rfl, ?_⟩
  unfold sliceLen sliceStart sliceStop clampBound
  simp only
  split <;> simp_all <;> omega

/-- **Toeplitz `_get_indices`**: for in-range `i, j` the looked-up column entry is `|i - j|` (the symmetric
Toeplitz definition), for every size. -/
theorem toeplitz_entry (n i j : Nat) (hi : i < n) (hj : j < n) :
    toepIdx n i j = ((i : Int) - j).natAbs ∧ toepIdx n i j < n := by
  have : fmod ((i : Int) - j) n = (i : Int) - j := by
    unfold fmod
    by_cases h : (j : Int) ≤ i
    · exact Int.tmod_eq_of_lt (by omega) (by omega)
    · have h1 : (i : Int) - j = -((j : Int) - i) := by omega
      rw [h1, Int.neg_tmod, Int.tmod_eq_of_lt (by omega) (by omega)]
  unfold toepIdx; rw [this]; omega

/-- **D25/D26 counterexample**: an out-of-range index is not rejected but wraps modulo `n`
(`T[3, 0]` on a 3×3 Toeplitz operator silently reads `column[0]`). -/
theorem toeplitz_outOfRange_counterexample : toepIdx 3 3 0 = 0 ∧ inRange 3 3 = false := by decide

/-- the Toeplitz `_diagonal` (`column[..., 0]` expanded) is the `_get_indices` entry `(k, k)` -/
theorem diagonal_toeplitz (n k : Nat) (hk : k < n) : toepIdx n k k = 0 := by
  have := (toeplitz_entry n k k hk hk).1; simpa using this

/-- **BlockDiag `_get_indices`** (block number by `div`, position in the block by `fmod`, off-diagonal blocks
masked to zero: `blockDiagIdx m n i j = (i / m, i % m, j % n, i / m == j / n)`) reads the block-diagonal matrix —
for any number of blocks and any block size. -/
theorem blockDiag_entry (m n : Nat) (hm : 0 < m) (hn : 0 < n) (Bs : List (Nat → Nat → Int)) :
    ∀ i j, i < m * Bs.length → j < n * Bs.length →
      (if (blockDiagIdx m n i j).2.2.2 then
         (Bs.getD (blockDiagIdx m n i j).1 (fun _ _ => 0)) (blockDiagIdx m n i j).2.1 (blockDiagIdx m n i j).2.2.1
       else 0) = blockDiagSpec m n Bs i j := by
  simp only [blockDiagIdx]
  induction Bs with
  | nil => intro i j hi; simp at hi
  | cons B rest ih =>
    intro i j hi hj
    simp only [blockDiagSpec]
    by_cases h1 : i < m
    · by_cases h2 : j < n
      · simp [h1, h2, Nat.div_eq_of_lt, Nat.mod_eq_of_lt]
      · have : 0 < j / n := Nat.div_pos (by omega) hn
        have hne : ¬ (0 = j / n) := by omega
        have hc : ¬ (m ≤ i ∧ n ≤ j) := by omega
        simp [h1, h2, Nat.div_eq_of_lt h1, hne, hc]
    · have hi' : m ≤ i := by omega
      by_cases h2 : j < n
      · have : 0 < i / m := Nat.div_pos hi' hm
        have hne : ¬ (i / m = 0) := by omega
        have hc : ¬ (m ≤ i ∧ n ≤ j) := by omega
        simp [h1, h2, Nat.div_eq_of_lt h2, hne, hc]
      · have hj' : n ≤ j := by omega
        have e1 : i / m = (i - m) / m + 1 := by
          conv => lhs; rw [show i = (i - m) + m by omega]
          exact Nat.add_div_right _ hm
        have e2 : j / n = (j - n) / n + 1 := by
          conv => lhs; rw [show j = (j - n) + n by omega]
          exact Nat.add_div_right _ hn
        have e3 : i % m = (i - m) % m := by
          conv => lhs; rw [show i = (i - m) + m by omega]
          exact Nat.add_mod_right _ _
        have e4 : j % n = (j - n) % n := by
          conv => lhs; rw [show j = (j - n) + n by omega]
          exact Nat.add_mod_right _ _
        have hi2 : i - m < m * rest.length := by
          simp only [List.length_cons, Nat.mul_succ] at hi; omega
        have hj2 : j - n < n * rest.length := by
          simp only [List.length_cons, Nat.mul_succ] at hj; omega
        have := ih (i - m) (j - n) hi2 hj2
        have hc : ¬ (i < m ∧ j < n) := by omega
        simp only [hc, if_false, hi', hj', and_self, if_true]
        rw [← this]
        simp only [e1, e2, e3, e4, List.getD_cons_succ]
        simp

/-- **BlockInterleaved `_get_indices`**: entry `(i*k + b, j*k + b')` of the interleaved layout is `B_b[i, j]` when
`b = b'` and masked otherwise — the `fmod`/`div` pair recovers `(b, i)` for every number of blocks `k`. -/
theorem blockInterleaved_entry (k i j b b' : Nat) (hb : b < k) (hb' : b' < k) :
    blockInterIdx k (i * k + b) (j * k + b') = (b, i, j, b == b') := by
  have hk : 0 < k := by omega
  have h1 : (i * k + b) % k = b := by rw [Nat.add_comm, Nat.add_mul_mod_self_right, Nat.mod_eq_of_lt hb]
  have h2 : (i * k + b) / k = i := by rw [Nat.add_comm, Nat.add_mul_div_right _ _ hk, Nat.div_eq_of_lt hb, Nat.zero_add]
  have h3 : (j * k + b') % k = b' := by rw [Nat.add_comm, Nat.add_mul_mod_self_right, Nat.mod_eq_of_lt hb']
  have h4 : (j * k + b') / k = j := by rw [Nat.add_comm, Nat.add_mul_div_right _ _ hk, Nat.div_eq_of_lt hb', Nat.zero_add]
  simp [blockInterIdx, h1, h2, h3, h4]

/-- **BatchRepeat `_get_indices`**: `torch.repeat` of a batch of size `s` (`r` copies laid one after the other)
holds at position `b` the base entry `b fmod s`. -/
theorem batchRepeat_entry (α : Type) (base : List α) (r b : Nat) (hb : b < r * base.length) :
    ((List.replicate r base).flatten)[b]? = base[batchRepeatIdx base.length b]? := by
  induction r generalizing b with
  | zero => simp at hb
  | succ r ih =>
    simp only [List.replicate_succ, List.flatten_cons, batchRepeatIdx]
    by_cases h : b < base.length
    · rw [List.getElem?_append_left h, Nat.mod_eq_of_lt h]
    · have h' : base.length ≤ b := by omega
      rw [List.getElem?_append_right h']
      have hb2 : b - base.length < r * base.length := by
        rw [Nat.succ_mul] at hb; omega
      rw [ih (b - base.length) hb2]
      simp only [batchRepeatIdx]
      rw [Nat.mod_eq_sub_mod h']

/-- **Cat: `idx_to_tensor_idx` + cumulative offsets**: global position `i` of a concatenation is entry
`local` of piece `piece` — for any number and sizes of pieces. -/
theorem cat_offsets (α : Type) (pieces : List (List α)) (i : Nat) (hi : i < sumNat (pieces.map List.length)) :
    pieces.flatten[i]? = (pieces.getD (catLocate (pieces.map List.length) i).1 [])[(catLocate (pieces.map List.length) i).2]? := by
  induction pieces generalizing i with
  | nil => simp [sumNat] at hi
  | cons p r ih =>
    simp only [List.map_cons, catLocate, List.flatten_cons]
    by_cases h : i < p.length
    · simp [h, List.getElem?_append_left h]
    · have h' : p.length ≤ i := by omega
      simp only [h, if_false]
      rw [List.getElem?_append_right h']
      have hsum : ∀ (l : List Nat) (a : Nat), l.foldl (· + ·) a = a + l.foldl (· + ·) 0 := by
        intro l; induction l with
        | nil => intro a; simp
        | cons x t iht => intro a; simp only [List.foldl_cons]; rw [iht (a + x), iht (0 + x)]; omega
      have hi2 : i - p.length < sumNat (r.map List.length) := by
        simp only [sumNat, List.map_cons, List.foldl_cons] at hi ⊢
        rw [hsum] at hi; omega
      rw [ih (i - p.length) hi2]
      simp

/-- cumulative offsets: the global index is the sizes of the pieces before `piece` plus the local index -/
theorem catLocate_cum (sizes : List Nat) : ∀ i, i < sumNat sizes →
    sumNat (sizes.take (catLocate sizes i).1) + (catLocate sizes i).2 = i := by
  have hsum : ∀ (l : List Nat) (a : Nat), l.foldl (· + ·) a = a + l.foldl (· + ·) 0 := by
    intro l; induction l with
    | nil => intro a; simp
    | cons x t iht => intro a; simp only [List.foldl_cons]; rw [iht (a + x), iht (0 + x)]; omega
  induction sizes with
  | nil => intro i hi; simp [sumNat] at hi
  | cons s r ih =>
    intro i hi
    simp only [catLocate]
    by_cases h : i < s
    · simp [h, sumNat]
    · simp only [h, if_false]
      have hi2 : i - s < sumNat r := by
        simp only [sumNat, List.foldl_cons] at hi ⊢; rw [hsum] at hi; omega
      have := ih (i - s) hi2
      simp only [sumNat, List.take_succ_cons, List.foldl_cons] at this ⊢
      rw [hsum]; omega

/-- **`CatLinearOperator._split_slice` (code as of d38a2f1, bounds via `slice.indices`)** — full statement: for every
list of piece sizes and EVERY slice `a:b` (None / negative / over-long bounds, explicit stop == size) that selects
at least one element, the first piece and the start inside it are those of global row `start`, the last piece is
the one holding global row `stop - 1`, and the stop inside it is that row's local index + 1 — where
`start, stop` are Python's clamped bounds.  With `cat_offsets` this is exactly torch's `x[a:b]` on the concatenation. -/
theorem splitSlice_inRange (sizes : List Nat) (a b : Option Int)
    (h : sliceStart (sumNat sizes) a < sliceStop (sumNat sizes) b) :
    splitSliceBounds sizes a b =
      ((catLocate sizes (sliceStart (sumNat sizes) a)).1, (catLocate sizes (sliceStart (sumNat sizes) a)).2,
       (catLocate sizes (sliceStop (sumNat sizes) b - 1)).1, (catLocate sizes (sliceStop (sumNat sizes) b - 1)).2 + 1) := by
  have hstop : sliceStop (sumNat sizes) b ≤ sumNat sizes := by
    unfold sliceStop; split
    · exact Nat.le_refl _
    · exact clampBound_le _ _
  have h0 : ¬ (sliceStop (sumNat sizes) b = 0) := by omega
  have hc := catLocate_cum sizes (sliceStop (sumNat sizes) b - 1) (by omega)
  simp only [splitSliceBounds, splitFrom, h0, if_false]
  refine Prod.ext rfl (Prod.ext rfl (Prod.ext rfl ?_))
  simp only
  omega

/-- statements about the PREVIOUS code (`% cat_size`, defect D07) next to the current code on the same inputs:
`op[1:5]` (stop == size) on pieces of 2 and 3 rows, and `op[-7:2]` (over-long negative start). -/
theorem splitSliceOld_counterexamples :
    splitSliceBoundsOld [2, 3] (some 1) (some 5) = (0, 1, 1, 0) ∧
    splitSliceBounds [2, 3] (some 1) (some 5) = (0, 1, 1, 3) ∧
    splitSliceBoundsOld [2, 3] (some (-7)) (some 2) = (1, 1, 0, 2) ∧
    splitSliceBounds [2, 3] (some (-7)) (some 2) = (0, 0, 0, 2) ∧
    sliceIndices 5 (some 1) (some 5) none = [1, 2, 3, 4] ∧ sliceIndices 5 (some (-7)) (some 2) none = [0, 1] := by decide

/-- **Kronecker `_get_indices`** — for ANY number of factors of any (also non-square) sizes: multiplying, in the
library's order (`res = sub_res * res`), each factor's entry at the indices produced by the chain
`factor //= n_k ; idx_k = (i div factor) fmod n_k` yields entry `(i, j)` of `A₁ ⊗ A₂ ⊗ … ⊗ A_P`
(recursive definition `kronSpec`), for every in-range `i, j`.  Induction on the factor list. -/
theorem kron_getIndices (fs : List Factor) (i j : Nat)
    (hi : i < prodNat (rowsOf fs)) (hj : j < prodNat (colsOf fs)) :
    kronModel fs i j = kronSpec fs i j := by
  have h := kron_go fs i j (by omega) (by omega)
  rw [Nat.mod_eq_of_lt hi, Nat.mod_eq_of_lt hj] at h
  exact h

/-- the hypotheses of `kron_getIndices` are satisfiable by a non-trivial instance (2×3 ⊗ 2×2, entry (3, 5)) -/
example : kronModel [(fun a b => (a : Int) + 2 * b + 1, 2, 3), (fun a b => (a : Int) * 3 + b + 1, 2, 2)] 3 5
    = ((1 : Int) + 2 * 2 + 1) * (1 * 3 + 1 + 1) := by decide

/-- **`_convert_indices_to_tensors` is sound (entry level)**: for every rank, every mix of ints, slices (any bounds
/ step) and tensor indices of any shapes, and every result coordinate `r` (one dim per slice, so
`#slices ≤ r.length`), indexing with the converted all-tensor tuple — slice number `q` occupying result dim
`num_singletons_before`, the tensor indices occupying the `k` dims at `num_singletons_before_tensor`, the start
position chosen by `_is_tensor_index_moved_to_start` — reads exactly the source entry torch's mixed
int/slice/tensor indexing reads.  Induction over the index list through the phases of the counters. -/
theorem convertIndices_sound (zi : List (Nat × Item)) (r : List Nat) (hr : (sliceLens zi).length ≤ r.length) :
    convSrc (bcAll (tensorShapes zi)).length zi r = specSrc (bcAll (tensorShapes zi)).length zi r :=
  convSrc_eq_specSrc zi r hr

/-- … hence the whole result (all coordinates, row-major) agrees with the spec's element map. -/
theorem convertIndices_elems (dims : List Nat) (zi : List (Nat × Item)) : convElems dims zi = specElems dims zi := by
  unfold convElems specElems
  apply List.map_congr_left
  intro r hr
  have hl := box_length _ r hr
  have := convSrc_eq_specSrc zi r (by have := specShape_length_ge zi; omega)
  rw [this]
  simp only [specSrc, List.isEmpty_iff]

/-- non-trivial instance: `x[t, 1:3, t']` on a 4×5×6 tensor with broadcasting index tensors (non-adjacent → front) -/
example : convElems [4, 5, 6] [(4, .tensor [2] [0, 3]), (5, .slice (some 1) (some 3) none), (6, .tensor [2] [5, 1])]
    = [11, 17, 97, 103] := by decide

/-- **`getitem_refines`, `_get_indices` path (generic)**: for an unbatched operator whose `_get_indices` arithmetic
`cls` agrees with the dense matrix on all in-range entries, `op[idx]` computed by `__getitem__` (flatten →
`_convert_indices_to_tensors` → `_get_indices`) equals torch indexing of the dense matrix — for every index
tuple whose source indices are in range (`hin`; guaranteed for valid indices: slices by `sliceIndices_inRange`,
ints / tensor entries by the range check at the top of `__getitem__`). -/
theorem getIndices_refines (cls dense : Nat → Nat → Int) (R C : Nat)
    (h : ∀ i j, i < R → j < C → cls i j = dense i j) (zi : List (Nat × Item))
    (hin : ∀ r ∈ box (specShape zi),
      (specSrc (bcAll (tensorShapes zi)).length zi r).getD 0 0 < R ∧
      (specSrc (bcAll (tensorShapes zi)).length zi r).getD 1 0 < C) :
    getitemViaGetIndices cls zi = denseGetitem dense zi := by
  unfold getitemViaGetIndices denseGetitem
  apply List.map_congr_left
  intro r hr
  have hl := box_length _ r hr
  have hc := convSrc_eq_specSrc zi r (by have := specShape_length_ge zi; omega)
  simp only [hc]
  exact h _ _ (hin r hr).1 (hin r hr).2

/-- Dense: `_get_indices` reads the stored tensor. -/
theorem dense_getitem_refines (T : Nat → Nat → Int) (R C : Nat) (zi : List (Nat × Item))
    (hin : ∀ r ∈ box (specShape zi),
      (specSrc (bcAll (tensorShapes zi)).length zi r).getD 0 0 < R ∧
      (specSrc (bcAll (tensorShapes zi)).length zi r).getD 1 0 < C) :
    getitemViaGetIndices T zi = denseGetitem T zi :=
  getIndices_refines T T R C (fun _ _ _ _ => rfl) zi hin

/-- Diag: `diag[row] * (row == col)` against the diagonal matrix. -/
theorem diag_getitem_refines (d : Nat → Int) (n : Nat) (zi : List (Nat × Item))
    (hin : ∀ r ∈ box (specShape zi),
      (specSrc (bcAll (tensorShapes zi)).length zi r).getD 0 0 < n ∧
      (specSrc (bcAll (tensorShapes zi)).length zi r).getD 1 0 < n) :
    getitemViaGetIndices (diagGet d) zi = denseGetitem (fun i j => if i = j then d i else 0) zi :=
  getIndices_refines _ _ n n (fun i j _ _ => by unfold diagGet; by_cases hij : i = j <;> simp [hij]) zi hin

/-- Kronecker (any number of factors): div/fmod chain against `A₁ ⊗ … ⊗ A_P`. -/
theorem kron_getitem_refines (fs : List Factor) (zi : List (Nat × Item))
    (hin : ∀ r ∈ box (specShape zi),
      (specSrc (bcAll (tensorShapes zi)).length zi r).getD 0 0 < prodNat (rowsOf fs) ∧
      (specSrc (bcAll (tensorShapes zi)).length zi r).getD 1 0 < prodNat (colsOf fs)) :
    getitemViaGetIndices (kronModel fs) zi = denseGetitem (kronSpec fs) zi :=
  getIndices_refines _ _ _ _ (fun i j hi hj => kron_getIndices fs i j hi hj) zi hin

/-- BlockDiag (any number of `m × n` blocks): div/fmod + mask against the block-diagonal matrix. -/
theorem blockDiag_getitem_refines (m n : Nat) (hm : 0 < m) (hn : 0 < n) (Bs : List (Nat → Nat → Int))
    (zi : List (Nat × Item))
    (hin : ∀ r ∈ box (specShape zi),
      (specSrc (bcAll (tensorShapes zi)).length zi r).getD 0 0 < m * Bs.length ∧
      (specSrc (bcAll (tensorShapes zi)).length zi r).getD 1 0 < n * Bs.length) :
    getitemViaGetIndices (blockDiagGet m n Bs) zi = denseGetitem (blockDiagSpec m n Bs) zi :=
  getIndices_refines _ _ _ _ (fun i j hi hj => blockDiag_entry m n hm hn Bs i j hi hj) zi hin

/-- Cat along the rows (any number of pieces): piece / local-row lookup against the stacked matrix. -/
theorem catRows_getitem_refines (pieces : List ((Nat → Nat → Int) × Nat)) (C : Nat) (zi : List (Nat × Item))
    (hin : ∀ r ∈ box (specShape zi),
      (specSrc (bcAll (tensorShapes zi)).length zi r).getD 0 0 < sumNat (pieces.map (·.2)) ∧
      (specSrc (bcAll (tensorShapes zi)).length zi r).getD 1 0 < C) :
    getitemViaGetIndices (catRowsGet pieces) zi = denseGetitem (catRowsSpec pieces) zi :=
  getIndices_refines _ _ _ C (fun i j hi _ => catRows_entry pieces i j hi) zi hin

/-- the hypotheses are satisfiable and the statement non-trivial: `K[[5,0,3],[1,2,0]]` on a 2×3 ⊗ 3×1 Kronecker operator -/
example :
    getitemViaGetIndices (kronModel [(fun a b => (a : Int) + 2 * b + 1, 2, 3), (fun a _ => (a : Int) - 1, 3, 1)])
      [(6, .tensor [3] [5, 0, 3]), (3, .tensor [3] [1, 2, 0])] = [4, -5, -2] ∧
    denseGetitem (kronSpec [(fun a b => (a : Int) + 2 * b + 1, 2, 3), (fun a _ => (a : Int) - 1, 3, 1)])
      [(6, .tensor [3] [5, 0, 3]), (3, .tensor [3] [1, 2, 0])] = [4, -5, -2] := by decide

/-! ## The operator type (`LinOp/C03/Ops.lean`): per-class `_get_indices` / `_diagonal` refinement, nestings, batch dims

`Opv` = (size, dense value `den`, `_get_indices` arithmetic `gi`, `_diagonal` arithmetic `dg`); one constructor
per operator class, applied to each other for nestings; `Built` = everything obtained from the constructors with
their size side conditions.  `b` is the batch multi-index (any number of batch dims). -/

/-- **`_get_indices` of every class and every nesting reads the dense value** — for every operator built from the class
constructors (Dense, Diag/ConstantDiag/Identity, Zero, Toeplitz, Kronecker (any number of possibly non-square
factors), BlockDiag, BlockInterleaved, SumBatch, BatchRepeat, Cat along rows / columns / a batch dim,
Interpolated, Triangular, Root/LowRankRoot/Chol, Matmul, Sum, ConstantMul, Mul, Masked, TransposePermutation,
base-class fallback), to any nesting depth, every batch index and every in-range `(i, j)`:
the class's index arithmetic returns entry `(b, i, j)` of the dense value.  Induction over `Built`. -/
theorem opv_getIndices_refines (op : Opv) (h : Built op) (b : List Nat) (i j : Nat) (hi : i < op.R) (hj : j < op.C) :
    op.gi b i j = op.den b i j := (built_refines op h).1 b i j hi hj

/-- **`_diagonal` of every class and every nesting is the dense main diagonal** (square operators; batched). -/
theorem opv_diagonal_refines (op : Opv) (h : Built op) (hsq : op.R = op.C) (b : List Nat) (k : Nat) (hk : k < op.R) :
    op.dg b k = op.den b k k := (built_refines op h).2 hsq b k hk

/-- the operator type is inhabited by non-trivial nestings: BlockDiag over a Kronecker product of a dense and a Toeplitz factor, summed with a Diag -/
example (f : List Nat → Nat → Nat → Int) (c d : List Nat → Nat → Int) :
    Built (Opv.sum 12 12 [Opv.blockDiag 2 (Opv.kron [Opv.dense 2 2 f, Opv.toeplitz 3 c]), Opv.diag 12 d]) := by
  refine Built.sum _ _ _ (fun p hp => ?_) (fun p hp => ?_)
  · simp only [List.mem_cons, List.not_mem_nil, or_false] at hp
    rcases hp with rfl | rfl
    · refine Built.blockDiag _ _ (Built.kron _ (fun o ho => ?_))
      simp only [List.mem_cons, List.not_mem_nil, or_false] at ho
      rcases ho with rfl | rfl
      · exact Built.dense ..
      · exact Built.toeplitz ..
    · exact Built.diag ..
  · simp only [List.mem_cons, List.not_mem_nil, or_false] at hp
    rcases hp with rfl | rfl <;> exact ⟨rfl, rfl⟩

/-- **`getitem_refines`** — `__getitem__`'s tensor-index path (flatten → `_convert_indices_to_tensors` →
`_get_indices(row, col, *batch)`) over the whole operator type: for every built operator (any class / nesting), any
number `m` of batch dims and EVERY valid index tuple (ints incl. negative, slices with any bounds / positive step,
integer tensors of any shapes with in-range entries, in every position; `hv` = the range check at the top of
`__getitem__` + positive dims), the values returned are exactly torch's indexing of the dense batched value.
No in-range hypothesis is left: it is discharged by `specSrc_inRange`. -/
theorem getitem_refines (op : Opv) (h : Built op) (zi : List (Nat × Item)) (m : Nat) (hlen : zi.length = m + 2)
    (hR : (zi.getD m (0, Item.ellipsis)).1 = op.R) (hC : (zi.getD (m + 1) (0, Item.ellipsis)).1 = op.C)
    (hv : ∀ x ∈ zi, itemValid x = true ∧ 0 < x.1) :
    getitemOp op zi = denseGetitemOp op zi := by
  unfold getitemOp denseGetitemOp
  apply List.map_congr_left
  intro r hr
  have hl := box_length _ r hr
  have hc := convSrc_eq_specSrc zi r (by have := specShape_length_ge zi; omega)
  simp only [hc]
  have hF := specSrc_inRange _ hv r hr
  have hlen' := hF.length_eq
  have h1 := forall₂_getD_lt _ _ hF m (by omega)
  have h2 := forall₂_getD_lt _ _ hF (m + 1) (by omega)
  rw [hR] at h1; rw [hC] at h2
  simp only [splitB, hlen', hlen, Nat.add_sub_cancel, show m + 2 - 1 = m + 1 by omega]
  exact (built_refines op h).1 _ _ _ h1 h2

/-- the hypotheses of `getitem_refines` in the familiar form: batch items `pre`, then the row and column items -/
theorem getitem_refines_rowcol (op : Opv) (h : Built op) (pre : List (Nat × Item)) (ir ic : Item)
    (hv : ∀ x ∈ pre ++ [(op.R, ir), (op.C, ic)], itemValid x = true ∧ 0 < x.1) :
    getitemOp op (pre ++ [(op.R, ir), (op.C, ic)]) = denseGetitemOp op (pre ++ [(op.R, ir), (op.C, ic)]) :=
  getitem_refines op h _ pre.length (by simp) (by simp [List.getD_eq_getElem?_getD])
    (by simp [List.getD_eq_getElem?_getD]) hv

/-- **`__getitem__` front end, composed** (tensor-index dispatch): ellipsis expansion + padding ∘ range check ∘
`_normalize_negative_index` ∘ `row_col_are_absorbed` dispatch ∘ `_convert_indices_to_tensors` ∘ `_get_indices` of any
built operator, together with the debug-mode expected shape `_compute_getitem_size` of the NORMALISED index:
whenever the modelled front end answers, its shape is torch's result shape of the ORIGINAL index (advanced-index
dims at torch's position) and its values are torch's indexing of the dense batched value with the ORIGINAL
index (negative ints / negative tensor entries included). -/
theorem frontEnd_eq_torch (op : Opv) (h : Built op) (bdims : List Nat) (idx : List Item) (sh : List Nat) (vals : List Int)
    (hres : frontEnd op bdims idx = some (sh, vals)) :
    ∃ e, expandEllipsis (bdims ++ [op.R, op.C]).length idx = some e ∧
      sh = specShape (List.zip (bdims ++ [op.R, op.C]) e) ∧
      vals = denseGetitemOp op (List.zip (bdims ++ [op.R, op.C]) e) := by
  unfold frontEnd at hres
  simp only at hres
  split at hres
  · exact absurd hres (by simp)
  · rename_i e he
    refine ⟨e, he, ?_⟩
    split at hres
    · exact absurd hres (by simp)
    · rename_i hvalid
      split at hres
      · exact absurd hres (by simp)
      · rename_i hguard
        split at hres
        · simp only [Option.some.injEq, Prod.mk.injEq] at hres
          obtain ⟨hs, hvv⟩ := hres
          simp only [Bool.not_eq_true', Bool.not_eq_false, Bool.and_eq_true, decide_eq_true_eq, List.all_eq_true] at hvalid hguard
          have hv : ∀ x ∈ List.zip (bdims ++ [op.R, op.C]) e, itemValid x = true ∧ 0 < x.1 := hvalid
          have hvn := valid_normalise _ hv
          constructor
          · rw [← hs, computeGetitemSize_eq_spec, specShape_normalise]
          · rw [← hvv, getitem_refines op h (normalise _) bdims.length (by rw [normalise_length]; exact hguard.1.1)
              (by rw [normalise_getD_fst]; exact hguard.1.2) (by rw [normalise_getD_fst]; exact hguard.2) hvn]
            unfold denseGetitemOp
            simp only [specShape_normalise, tensorShapes_normalise, specSrc_normalise]
        · exact absurd hres (by simp)

/-- the front end answers on non-trivial inputs: `K[..., [-1, 0, 3], [1, -1, 0]]` on a batch-(2) Kronecker operator (2×3 ⊗ 3×1)
— the premise of `frontEnd_eq_torch` is satisfiable, negative tensor entries included -/
example : frontEnd (Opv.kron [Opv.dense 2 3 (fun b i j => (i : Int) + 2 * j + 1 + b.headD 0), Opv.dense 3 1 (fun _ i _ => (i : Int) - 1)])
    [2] [.ellipsis, .tensor [3] [-1, 0, 3], .tensor [3] [1, -1, 0]]
    = some ([2, 3], [4, -5, -2, 5, -6, -3]) := by decide

/-- **every source index read for a valid index tuple is in range** (ints / tensor entries wrapped once, slices
by `slice.indices`, for every result coordinate) — the fact the refinement theorems used to assume (`hin`). -/
theorem srcIndex_inRange (zi : List (Nat × Item)) (hv : ∀ x ∈ zi, itemValid x = true ∧ 0 < x.1)
    (r : List Nat) (hr : r ∈ box (specShape zi)) :
    List.Forall₂ (fun s (x : Nat × Item) => s < x.1) (specSrc (bcAll (tensorShapes zi)).length zi r) zi :=
  specSrc_inRange zi hv r hr

/-- Kronecker `_diagonal` (`_kron_diag`, all factors square): entry `k` of the reshaped outer product of the factors'
diagonals is the `(k, k)` entry of `A₁ ⊗ … ⊗ A_P` — mixed-radix decomposition of `k`, any number of factors. -/
theorem kron_diagonal (b : List Nat) (fs : List Opv) (hsq : ∀ o ∈ fs, o.R = o.C)
    (h : ∀ o ∈ fs, ∀ q, q < o.R → o.dg b q = o.den b q q) (k : Nat) (hk : k < prodNat (fs.map (·.R))) :
    Opv.kronDiag (fs.map fun o => (o.dg b, o.R)) k = kronSpec (Opv.facDen fs b) k k :=
  kronDiag_eq b fs hsq h k hk

/-- BlockDiag `_diagonal` (`base._diagonal().view(*batch, k·n)`) is the diagonal of the block-diagonal matrix;
BlockDiag `_get_indices` with the base's own (refining) `_get_indices` reads the block-diagonal matrix — batched, nested. -/
theorem blockDiag_refines (k : Nat) (base : Opv) (h : Refines base) : Refines (Opv.blockDiag k base) :=
  refines_blockDiag k base h

/-- the dense value of the interleaved layout really is "entry `(r·k + blk, c·k + blk')` = `δ_{blk blk'} B_blk[r, c]`" -/
theorem blockInter_den_layout (k : Nat) (base : Opv) (b : List Nat) (r c blk blk' : Nat) (h1 : blk < k) (h2 : blk' < k) :
    (Opv.blockInter k base).den b (r * k + blk) (c * k + blk') = if blk = blk' then base.den (b ++ [blk]) r c else 0 := by
  have hk : 0 < k := by omega
  have e1 : (r * k + blk) % k = blk := by rw [Nat.add_comm, Nat.add_mul_mod_self_right, Nat.mod_eq_of_lt h1]
  have e2 : (r * k + blk) / k = r := by rw [Nat.add_comm, Nat.add_mul_div_right _ _ hk, Nat.div_eq_of_lt h1, Nat.zero_add]
  have e3 : (c * k + blk') % k = blk' := by rw [Nat.add_comm, Nat.add_mul_mod_self_right, Nat.mod_eq_of_lt h2]
  have e4 : (c * k + blk') / k = c := by rw [Nat.add_comm, Nat.add_mul_div_right _ _ hk, Nat.div_eq_of_lt h2, Nat.zero_add]
  simp only [Opv.blockInter, e1, e2, e3, e4]

/-- the dense value of `TransposePermutationLinearOperator(m)` is the commutation matrix: row `a·m + b` has its one in column `b·m + a` -/
theorem transPerm_den_layout (m a b a' b' : Nat) (_ha : a < m) (hb : b < m) (ha' : a' < m) (hb' : b' < m) (bt : List Nat) :
    (Opv.transPerm m).den bt (a * m + b) (b' * m + a') = if a = a' ∧ b = b' then 1 else 0 := by
  have hm : 0 < m := by omega
  have e1 : (a * m + b) % m = b := by rw [Nat.add_comm, Nat.add_mul_mod_self_right, Nat.mod_eq_of_lt hb]
  have e2 : (a * m + b) / m = a := by rw [Nat.add_comm, Nat.add_mul_div_right _ _ hm, Nat.div_eq_of_lt hb, Nat.zero_add]
  have e3 : (b' * m + a') % m = a' := by rw [Nat.add_comm, Nat.add_mul_mod_self_right, Nat.mod_eq_of_lt ha']
  have e4 : (b' * m + a') / m = b' := by rw [Nat.add_comm, Nat.add_mul_div_right _ _ hm, Nat.div_eq_of_lt ha', Nat.zero_add]
  simp only [Opv.transPerm, e1, e2, e3, e4]

/-- base-class `_get_indices` / `_diagonal` (one-hot interpolation `e_iᵀ (A e_j)` around any operator) returns `A[i, j]` -/
theorem fallback_refines (R C : Nat) (den : List Nat → Nat → Nat → Int) : Refines (Opv.fallback R C den) :=
  refines_fallback R C den

/-- Cat (rows / columns / a batch dim, any number of pieces): `idx_to_tensor_idx` + cumulative offsets against the
recursive concatenation — the lookup equals the spec for EVERY index (out-of-range ones read 0 on both sides) -/
theorem cat_lookup_eq_spec (ps : List (Nat × (Nat → Int))) (x : Nat) : Opv.catGet ps x = Opv.catSpecG ps x :=
  catGet_eq_spec ps x

/-- Matmul `_diagonal`, Diag-operand branch (`left._diagonal() * right._diagonal()`), and the Dense·Dense / fallback
branches: all three equal the diagonal of the product (the Diag branch needs one operand to be a diagonal matrix). -/
theorem matmul_refines (mode : Nat) (A B : Opv) (hA : Refines A) (hB : Refines B) (hAB : A.C = B.R)
    (hd : mode = 1 → A.R = A.C ∧ B.R = B.C ∧
      ((∀ b i k, i ≠ k → A.den b i k = 0) ∨ (∀ b k j, k ≠ j → B.den b k j = 0))) :
    Refines (Opv.matmul mode A B) := refines_matmul mode A B hA hB hAB hd

/-- the Diag-branch hypothesis of `matmul_refines` is satisfiable: a Diag operand is a diagonal matrix -/
example (n : Nat) (d : List Nat → Nat → Int) : ∀ b i k, i ≠ k → (Opv.diag n d).den b i k = 0 := by
  intro b i k h; simp [Opv.diag, h]

/-- **Translator obligation**: the index arithmetic extracted (Python `ast`) from /repo's working tree — which
operations, with which rounding mode, in which order, each class's `_get_indices` / `_split_slice` and the
`__getitem__` int rewriting use — is exactly the arithmetic mirrored by `kronIdx` (floor-div then fmod per
factor), `toepIdx` (sub, fmod, abs), `blockDiagIdx` (div, div, fmod, fmod, eq), `blockInterIdx` (fmod, fmod,
div, div, eq), `batchRepeatIdx` (fmod), `splitSliceBounds` (`slice.indices`) and `intToSlice` (`if i < 0: i += size`, `slice(i, i + 1)`). -/
theorem generated_arith_table : LinOp.Generated.C03.table = [
    ("KroneckerProductLinearOperator._get_indices", ["//=", "//=", "fmod", "div:floor", "fmod", "div:floor"]),
    ("ToeplitzLinearOperator._get_indices", ["abs", "fmod", "-"]),
    ("BlockDiagLinearOperator._get_indices", ["div:floor", "div:floor", "fmod", "fmod", "eq"]),
    ("BlockInterleavedLinearOperator._get_indices", ["fmod", "fmod", "div:floor", "div:floor", "eq"]),
    ("BatchRepeatLinearOperator._get_indices", ["-", "-", "fmod"]),
    ("CatLinearOperator._split_slice", ["indices", "-", "-", "-", "-", "-"]),
    ("MaskedLinearOperator._get_indices", ["arange", "arange"]),
    ("LinearOperator.__getitem__.int_to_slice",
      ["if col_index < 0: col_index += self.size(-1)", "if row_index < 0: row_index += self.size(-2)",
       "slice(col_index, col_index + 1, None)", "slice(row_index, row_index + 1, None)"])] := by
  decide +kernel

/-! ## Extension session 5: the `_getitem` (slice) path -/

/-- **BlockDiag block-aligned shortcut, decision part**: whenever `_getitem_block_aligned` does not return `None`
(any block size `m × n`, any bounds), the four bounds are exactly the block multiples `m·b0, m·b1, n·b0, n·b1` of the
block slice `b0:b1` it hands to the base operator. -/
theorem blockDiag_aligned_bounds (m n rs re cs ce b0 b1 : Nat)
    (h : blockDiagAligned m n rs re cs ce = some (b0, b1)) :
    rs = m * b0 ∧ re = m * b1 ∧ cs = n * b0 ∧ ce = n * b1 :=
  blockDiagAligned_some m n rs re cs ce b0 b1 h

/-- **BlockDiag block-aligned shortcut = torch slicing of the dense matrix** (any number `k` of blocks, any block size,
any batch index, any base operator): if the shortcut answers with block slice `b0:b1` and the recursive
`base._getitem(noop, noop, *batch, b0:b1)` denotes blocks `b0 … b1-1` of the base, then
`BlockDiag(new_base)` holds at `(i, j)` the entry `(row_start + i, col_start + j)` of the original block-diagonal matrix,
for every `i < row_end - row_start`, `j < col_end - col_start`. -/
theorem blockDiag_aligned_getitem (m n k rs re cs ce b0 b1 : Nat) (hm : 0 < m) (hn : 0 < n) (base sub : Opv)
    (hbR : base.R = m) (hbC : base.C = n) (hsR : sub.R = m) (hsC : sub.C = n)
    (hal : blockDiagAligned m n rs re cs ce = some (b0, b1)) (hre : re ≤ m * k) (hlt : rs ≤ re)
    (hsub : ∀ b blk i j, blk < b1 - b0 → i < m → j < n → sub.den (b ++ [blk]) i j = base.den (b ++ [b0 + blk]) i j) :
    ∀ b i j, i < re - rs → j < ce - cs →
      (Opv.blockDiag (b1 - b0) sub).den b i j = (Opv.blockDiag k base).den b (rs + i) (cs + j) := by
  obtain ⟨e1, e2, e3, e4⟩ := blockDiagAligned_some m n rs re cs ce b0 b1 hal
  subst e1 e2 e3 e4
  have h01 : b0 ≤ b1 := Nat.le_of_mul_le_mul_left hlt hm
  have h1k : b1 ≤ k := Nat.le_of_mul_le_mul_left hre hm
  intro b i j hi hj
  have em : m * b1 - m * b0 = m * (b1 - b0) := (Nat.mul_sub m b1 b0).symm
  have en : n * b1 - n * b0 = n * (b1 - b0) := (Nat.mul_sub n b1 b0).symm
  exact blockDiag_window m n k b0 b1 hm hn base sub hbR hbC hsR hsC h01 h1k hsub b i j (by omega) (by omega)

example : blockDiagAligned 2 3 2 6 3 9 = some (1, 3) := by decide
example : blockDiagAligned 2 3 2 6 3 6 = none := by decide
example : blockDiagAligned 2 3 1 6 3 9 = none := by decide

/-- **BlockInterleaved block-aligned shortcut, decision part** -/
theorem blockInter_aligned_bounds (k rs re cs ce r0 r1 c0 c1 : Nat)
    (h : blockInterAligned k rs re cs ce = some ((r0, r1), (c0, c1))) :
    rs = k * r0 ∧ re = k * r1 ∧ cs = k * c0 ∧ ce = k * c1 ∧ re - rs = ce - cs :=
  blockInterAligned_some k rs re cs ce r0 r1 c0 c1 h

/-- **BlockInterleaved block-aligned shortcut = torch slicing of the dense matrix** (any `k`, any batch index, any base):
if the shortcut answers with base slices `r0:r1`, `c0:c1` and the recursive `base._getitem(r0:r1, c0:c1, *batch, noop)`
denotes that window of every block, then `BlockInterleaved(new_base)` holds at `(i, j)` the entry
`(row_start + i, col_start + j)` of the original interleaved matrix. -/
theorem blockInter_aligned_getitem (k rs re cs ce r0 r1 c0 c1 : Nat) (hk : 0 < k) (base sub : Opv)
    (hal : blockInterAligned k rs re cs ce = some ((r0, r1), (c0, c1)))
    (hsub : ∀ bb i j, i < r1 - r0 → j < c1 - c0 → sub.den bb i j = base.den bb (r0 + i) (c0 + j)) :
    ∀ b i j, i < re - rs → j < ce - cs →
      (Opv.blockInter k sub).den b i j = (Opv.blockInter k base).den b (rs + i) (cs + j) := by
  obtain ⟨e1, e2, e3, e4, _⟩ := blockInterAligned_some k rs re cs ce r0 r1 c0 c1 hal
  subst e1 e2 e3 e4
  intro b i j hi hj
  have em : k * r1 - k * r0 = k * (r1 - r0) := (Nat.mul_sub k r1 r0).symm
  have en : k * c1 - k * c0 = k * (c1 - c0) := (Nat.mul_sub k c1 c0).symm
  exact blockInter_window k r0 r1 c0 c1 hk base sub hsub b i j (by omega) (by omega)

example : blockInterAligned 3 3 9 0 6 = some ((1, 3), (0, 2)) := by decide
example : blockInterAligned 3 3 9 0 3 = none := by decide

/-- **`_getitem` result-operator constructions refine torch indexing** (Sum / ConstantMul / Matmul / Root overrides, any
nesting of them, any selection lists `rows` / `cols` — slices via `sliceIndices`, 1-D tensors, ints as singleton lists —
any batch map): every operator the modelled `_getitem` overrides can build out of correct leaf results has the shape of
the selection and at every entry `(b, i, j)` the value `dense[bmap b, rows[i], cols[j]]` of the original operator. -/
theorem getitem_slicePath_refines (bmap : List Nat → List Nat) (rows cols : List Nat) (op r : Opv)
    (h : GetitemResult bmap rows cols op r) :
    r.R = rows.length ∧ r.C = cols.length ∧
    ∀ b i j, i < rows.length → j < cols.length → r.den b i j = op.den (bmap b) (rows.getD i 0) (cols.getD j 0) :=
  getitemResult_sound bmap rows cols op r h

/-- the relation is inhabited by a non-trivial nesting: `ConstantMul(Matmul(A, B))` sliced with rows `[2, 0]`, cols `[1]` -/
example (c : List Nat → Int) (A B : Opv) (h : A.C = B.R) :
    GetitemResult id [2, 0] [1] (Opv.constMul c (Opv.matmul 0 A B))
      (Opv.constMulGetitem c id (Opv.matmulGetitem 2 (Opv.sel [2, 0] (List.range A.C) id A) (Opv.sel (List.range B.R) [1] id B))) :=
  .constMul _ _ _ _ _ (.matmul _ _ _ _ _ _ _ _ h (.leaf _ _ _ _ rfl rfl (fun _ _ _ _ _ => rfl)) (.leaf _ _ _ _ rfl rfl (fun _ _ _ _ _ => rfl)))

/-- **`InterpolatedLinearOperator._diagonal`, dense-root fast path** (any interpolation lists of any lengths, any rank of
the root, any batch index, any nested root operator): `(left_interp(…, root) * left_interp(…, root)).sum(-1)` at
position `k` equals entry `(k, k)` of the dense value `W_l (R Rᵀ) W_rᵀ` of the interpolated operator. -/
theorem interpRoot_diagonal_refines (R C : Nat) (li ri : List Nat → Nat → List (Nat × Int)) (rt : Opv)
    (b : List Nat) (k : Nat) :
    (Opv.interpRoot R C li ri rt).dg b k = (Opv.interp R C li ri (Opv.root true rt)).den b k k := by
  simp only [Opv.interpRoot, Opv.interp, Opv.root, interpRootDiag]
  exact interpRootDiag_eq (li b k) (ri b k) (rt.den b) rt.C

/-- `_get_indices` of the fast-path variant is the one of every Interpolated operator, so the refinement of
`opv_getIndices_refines` carries over; with the theorem above: the variant refines its dense value. -/
theorem interpRoot_refines (R C : Nat) (li ri : List Nat → Nat → List (Nat × Int)) (rt : Opv)
    (h : Refines (Opv.interp R C li ri (Opv.root true rt))) : Refines (Opv.interpRoot R C li ri rt) :=
  ⟨fun b i j hi hj => h.1 b i j hi hj, fun _ b k _ => interpRoot_diagonal_refines R C li ri rt b k⟩

example : (Opv.interpRoot 2 2 (fun _ i => [(i, 2), (i + 1, 1)]) (fun _ j => [(j, 1), (j + 1, 3)])
    (Opv.dense 3 2 (fun _ i j => (i : Int) + 2 * j + 1))).dg [] 1 = 324 := by decide

/-- **the front end is total on its domain**: for EVERY operator, batch shape and index tuple that (1) has at most one
ellipsis and not too many items, (2) passes the `[-size, size)` range check with positive step slices on non-empty dims,
and (3) is dispatched to the tensor-index path by `row_col_are_absorbed`, the modelled `__getitem__` answers (no internal
error), with `_compute_getitem_size` of the normalised index as shape. -/
theorem frontEnd_total (op : Opv) (bdims : List Nat) (idx e : List Item)
    (he : expandEllipsis (bdims ++ [op.R, op.C]).length idx = some e)
    (hv : ∀ x ∈ List.zip (bdims ++ [op.R, op.C]) e, itemValid x = true ∧ 0 < x.1)
    (habs : absorbedOf (normalise (List.zip (bdims ++ [op.R, op.C]) e)) = true) :
    frontEnd op bdims idx = some (computeGetitemSize (normalise (List.zip (bdims ++ [op.R, op.C]) e)),
                                  getitemOp op (normalise (List.zip (bdims ++ [op.R, op.C]) e))) := by
  have hlen := expandEllipsis_length _ _ _ he
  have hdl : (bdims ++ [op.R, op.C]).length = bdims.length + 2 := by simp
  have hz : (List.zip (bdims ++ [op.R, op.C]) e).length = bdims.length + 2 := by
    rw [List.length_zip, hlen, hdl]; omega
  have h1 : (List.zip (bdims ++ [op.R, op.C]) e).all (fun x => itemValid x && decide (0 < x.1)) = true := by
    rw [List.all_eq_true]; intro x hx; simp [hv x hx]
  have g1 : ((List.zip (bdims ++ [op.R, op.C]) e).getD bdims.length (0, Item.ellipsis)).1 = op.R := by
    have hi : bdims.length < (List.zip (bdims ++ [op.R, op.C]) e).length := by omega
    rw [List.getD_eq_getElem?_getD, List.getElem?_eq_getElem hi]
    simp [List.getElem_zip]
  have g2 : ((List.zip (bdims ++ [op.R, op.C]) e).getD (bdims.length + 1) (0, Item.ellipsis)).1 = op.C := by
    have hi : bdims.length + 1 < (List.zip (bdims ++ [op.R, op.C]) e).length := by omega
    rw [List.getD_eq_getElem?_getD, List.getElem?_eq_getElem hi]
    simp [List.getElem_zip, List.getElem_append_right]
  unfold frontEnd
  simp only [he, h1, hz, g1, g2, habs, decide_true, Bool.and_self, Bool.not_true, Bool.false_eq_true, if_false, if_true]

/-- **total correctness of the tensor-index path**: on its whole domain (previous theorem) the front end returns exactly
torch's shape and torch's values for the ORIGINAL index tuple (composition of `frontEnd_total` and `frontEnd_eq_torch`). -/
theorem frontEnd_total_correct (op : Opv) (h : Built op) (bdims : List Nat) (idx e : List Item)
    (he : expandEllipsis (bdims ++ [op.R, op.C]).length idx = some e)
    (hv : ∀ x ∈ List.zip (bdims ++ [op.R, op.C]) e, itemValid x = true ∧ 0 < x.1)
    (habs : absorbedOf (normalise (List.zip (bdims ++ [op.R, op.C]) e)) = true) :
    frontEnd op bdims idx = some (specShape (List.zip (bdims ++ [op.R, op.C]) e),
                                  denseGetitemOp op (List.zip (bdims ++ [op.R, op.C]) e)) := by
  have ht := frontEnd_total op bdims idx e he hv habs
  obtain ⟨e', he', hs, hvals⟩ := frontEnd_eq_torch op h bdims idx _ _ ht
  rw [he] at he'
  cases he'
  rw [ht, hs, hvals]

/-- **slice path against the torch spec**: when rows and columns are indexed by slices (any bounds: `None`, negative,
over-long, stepped; ints arrive here as `slice(i, i+1)` by `intToSlice_selects`), every operator the modelled `_getitem`
constructions build has torch's result size `sliceLen × sliceLen` (= `specShape`) and holds at `(i, j)` the dense entry at
exactly the source coordinates `srcIndex` that the torch spec reads for result coordinate `(i, j)`. -/
theorem getitem_slicePath_torch (bmap : List Nat → List Nat) (nR nC : Nat) (ra rb rc ca cb cc : Option Int) (op r : Opv)
    (h : GetitemResult bmap (sliceIndices nR ra rb rc) (sliceIndices nC ca cb cc) op r) :
    [r.R, r.C] = specShape [(nR, .slice ra rb rc), (nC, .slice ca cb cc)] ∧
    ∀ b i j, i < sliceLen nR ra rb rc → j < sliceLen nC ca cb cc →
      r.den b i j = op.den (bmap b)
        ((srcIndex [(nR, .slice ra rb rc), (nC, .slice ca cb cc)] [i, j] []).getD 0 0)
        ((srcIndex [(nR, .slice ra rb rc), (nC, .slice ca cb cc)] [i, j] []).getD 1 0) := by
  obtain ⟨hR, hC, hd⟩ := getitemResult_sound bmap _ _ op r h
  have lR : (sliceIndices nR ra rb rc).length = sliceLen nR ra rb rc := by simp [sliceIndices]
  have lC : (sliceIndices nC ca cb cc).length = sliceLen nC ca cb cc := by simp [sliceIndices]
  refine ⟨by simp [specShape, sliceLens, tensorShapes, hR, hC, lR, lC], fun b i j hi hj => ?_⟩
  rw [hd b i j (by omega) (by omega)]
  have eR : (sliceIndices nR ra rb rc).getD i 0 = sliceStart nR ra + i * sliceStep rc := by
    simp [sliceIndices, List.getD_eq_getElem?_getD, hi]
  have eC : (sliceIndices nC ca cb cc).getD j 0 = sliceStart nC ca + j * sliceStep cc := by
    simp [sliceIndices, List.getD_eq_getElem?_getD, hj]
  rw [eR, eC]
  simp [srcIndex]

/-! ## Landing of /repo 716435a (index-count guard) and the Matmul `_diagonal` row·column theorem -/

/-- **the index-count guard is torch's too-many-indices rule**: for every rank `d` and every index tuple with at most one
ellipsis, `len(index) > ndimension` after the library's ellipsis fill and padding holds iff the tuple has more than `d`
non-ellipsis items — exactly when `torch.Tensor.__getitem__` raises "too many indices". -/
theorem tooManyIndices_iff_torch (d : Nat) (idx : List Item) (h1 : (idx.filter isEll).length ≤ 1) :
    tooManyIndices d idx = true ↔ d < (idx.filter (fun i => !isEll i)).length :=
  tooMany_iff_count d idx h1

/-- **model raises too-many-indices ⇔ torch raises it** (front end with the guard, any operator / batch shape) -/
theorem frontEndG_tooMany_iff (op : Opv) (bdims : List Nat) (idx : List Item) (h1 : (idx.filter isEll).length ≤ 1) :
    frontEndG op bdims idx = .tooMany ↔ bdims.length + 2 < (idx.filter (fun i => !isEll i)).length := by
  rw [← tooMany_iff_count _ idx h1]
  unfold frontEndG
  by_cases h : tooManyIndices (bdims.length + 2) idx = true
  · simp [h]
  · simp only [h, Bool.false_eq_true, if_false, iff_false]
    split <;> simp

/-- the ellipsis expansion fails exactly on the guarded tuples (so `frontEnd` alone already rejected them; the guard names the error) -/
theorem expandEllipsis_none_iff_tooMany (d : Nat) (idx : List Item) (h1 : (idx.filter isEll).length ≤ 1) :
    expandEllipsis d idx = none ↔ tooManyIndices d idx = true := by
  constructor
  · exact expandEllipsis_none_tooMany d idx h1
  · intro h
    cases he : expandEllipsis d idx with
    | none => rfl
    | some e => rw [expandEllipsis_some_not_tooMany d idx e he] at h; cases h

/-- `frontEnd_eq_torch` restated for the guarded front end: an answer implies the guard did not fire, and is torch's. -/
theorem frontEndG_eq_torch (op : Opv) (h : Built op) (bdims : List Nat) (idx : List Item) (sh : List Nat) (vals : List Int)
    (hres : frontEndG op bdims idx = .ok sh vals) :
    tooManyIndices (bdims.length + 2) idx = false ∧
    ∃ e, expandEllipsis (bdims ++ [op.R, op.C]).length idx = some e ∧
      sh = specShape (List.zip (bdims ++ [op.R, op.C]) e) ∧
      vals = denseGetitemOp op (List.zip (bdims ++ [op.R, op.C]) e) := by
  unfold frontEndG at hres
  by_cases hg : tooManyIndices (bdims.length + 2) idx = true
  · simp [hg] at hres
  · simp only [hg, Bool.false_eq_true, if_false] at hres
    refine ⟨by simpa using hg, ?_⟩
    cases hf : frontEnd op bdims idx with
    | none => simp [hf] at hres
    | some r =>
      obtain ⟨s, v⟩ := r
      simp only [hf, FrontOut.ok.injEq] at hres
      obtain ⟨rfl, rfl⟩ := hres
      exact frontEnd_eq_torch op h bdims idx _ _ hf

/-- `frontEnd_total_correct` restated for the guarded front end: on the whole domain of the tensor-index path the guard does
not fire and the answer is torch's shape and values of the original index. -/
theorem frontEndG_total_correct (op : Opv) (h : Built op) (bdims : List Nat) (idx e : List Item)
    (he : expandEllipsis (bdims ++ [op.R, op.C]).length idx = some e)
    (hv : ∀ x ∈ List.zip (bdims ++ [op.R, op.C]) e, itemValid x = true ∧ 0 < x.1)
    (habs : absorbedOf (normalise (List.zip (bdims ++ [op.R, op.C]) e)) = true) :
    frontEndG op bdims idx = .ok (specShape (List.zip (bdims ++ [op.R, op.C]) e))
                                 (denseGetitemOp op (List.zip (bdims ++ [op.R, op.C]) e)) := by
  have hd : (bdims ++ [op.R, op.C]).length = bdims.length + 2 := by simp
  have hg := expandEllipsis_some_not_tooMany _ idx e he
  rw [hd] at hg
  unfold frontEndG
  simp only [hg, Bool.false_eq_true, if_false, frontEnd_total_correct op h bdims idx e he hv habs]

/-- the guard fires on `Dense(3×3)[0, 1, 2]` and on `[..., 0, 1, 2]`; the previous code dropped the surplus `2` and answered a scalar -/
example : frontEndG (Opv.dense 3 3 (fun _ i j => (i : Int) + j)) [] [.int 0, .int 1, .int 2] = .tooMany := by decide
example : frontEndG (Opv.dense 3 3 (fun _ i j => (i : Int) + j)) [] [.ellipsis, .int 0, .int 1, .int 2] = .tooMany := by decide
theorem previous_getitem_dropped_surplus_counterexample :
    previousDroppedSurplus 2 [.int 0, .int 1, .int 2] = [.int 0, .int 1] ∧ tooManyIndices 2 [.int 0, .int 1, .int 2] = true := by decide

/-- **Matmul `_diagonal` = row of the left factor · column of the right factor, for ANY pair of factor operators** (no
orientation / structure shortcut: triangular factors of equal or opposite orientation, Root, Toeplitz, Kronecker, …, nested,
batched): outside the Diag-operand branch, entry `q` of `_diagonal` is `Σ_k left[q, k] · right[k, q]` of the dense factors. -/
theorem matmul_diagonal_rowcol (mode : Nat) (A B : Opv) (hA : Built A) (hB : Built B) (hAB : A.C = B.R) (hsq : A.R = B.C)
    (hmode : mode ≠ 1) (b : List Nat) (q : Nat) (hq : q < A.R) :
    (Opv.matmul mode A B).dg b q = sumTo A.C fun k => A.den b q k * B.den b k q :=
  (refines_matmul mode A B (built_refines A hA) (built_refines B hB) hAB (fun h => absurd h hmode)).2 hsq b q hq

/-- instance: lower-triangular @ upper-triangular (e.g. the lazily built `L @ L.mT`) and upper @ lower, any wrapped operators -/
theorem matmul_tri_diagonal (L U : Opv) (hL : Built L) (hU : Built U) (hLU : L.C = U.R) (hsq : L.R = U.C)
    (b : List Nat) (q : Nat) (hq : q < L.R) :
    (Opv.matmul 2 (Opv.tri L) (Opv.tri U)).dg b q = sumTo L.C fun k => L.den b q k * U.den b k q :=
  matmul_diagonal_rowcol 2 (Opv.tri L) (Opv.tri U) (.tri L hL) (.tri U hU) hLU hsq (by decide) b q hq

/-- **translator obligation (slice path)**: the statements of the block-aligned shortcuts, of the guard chain in
`BlockLinearOperator._getitem` and of the `_getitem` overrides of Sum / ConstantMul / Matmul / Root, regenerated from
/repo on every run, are the ones the model above mirrors. -/
theorem generated_slicepath_table : LinOp.Generated.C03SlicePath.table = [
  ("BlockDiagLinearOperator._getitem_block_aligned", ["block_rows, block_cols = self.base_linear_op.shape[-2:]", "if row_start % block_rows or row_end % block_rows or col_start % block_cols or col_end % block_cols", "return None", "block_index = slice(row_start // block_rows, row_end // block_rows, None)", "if block_index != slice(col_start // block_cols, col_end // block_cols, None)", "return None", "noop = slice(None, None, None)", "new_base_linear_op = self.base_linear_op._getitem(noop, noop, *batch_indices, block_index)", "return self.__class__(new_base_linear_op, block_dim=-3)"]),
  ("BlockInterleavedLinearOperator._getitem_block_aligned", ["num_blocks = self.num_blocks", "if row_start % num_blocks or col_start % num_blocks or row_end % num_blocks or col_end % num_blocks", "return None", "if row_end - row_start != col_end - col_start", "return None", "row_index = slice(row_start // num_blocks, row_end // num_blocks, None)", "col_index = slice(col_start // num_blocks, col_end // num_blocks, None)", "new_base_linear_op = self.base_linear_op._getitem(row_index, col_index, *batch_indices, slice(None, None, None))", "return self.__class__(new_base_linear_op, block_dim=-3)"]),
  ("BlockLinearOperator._getitem", ["if _is_noop_index(row_index) and _is_noop_index(col_index)", "return self.__class__(self.base_linear_op._getitem(row_index, col_index, *batch_indices, _noop_index))", "if not isinstance(row_index, slice) or not isinstance(col_index, slice)", "return super()._getitem(row_index, col_index, *batch_indices)", "if row_index.step is not None or col_index.step is not None", "return super()._getitem(row_index, col_index, *batch_indices)", "num_rows, num_cols = self.matrix_shape", "row_start, row_end, _ = row_index.indices(num_rows)", "col_start, col_end, _ = col_index.indices(num_cols)", "res = self._getitem_block_aligned(row_start, row_end, col_start, col_end, batch_indices)", "if res is None", "return super()._getitem(row_index, col_index, *batch_indices)", "return res"]),
  ("SumLinearOperator._getitem", ["results = [linear_op._getitem(row_index, col_index, *batch_indices) for linear_op in self.linear_ops]", "return SumLinearOperator(*results)"]),
  ("ConstantMulLinearOperator._getitem", ["base_linear_op = self.base_linear_op._getitem(row_index, col_index, *batch_indices)", "constant = self._constant.expand(self.batch_shape)[batch_indices]", "return type(self)(base_linear_op=base_linear_op, constant=constant)"]),
  ("MatmulLinearOperator._getitem", ["if torch.is_tensor(row_index) and torch.is_tensor(col_index)", "num_indices = row_index.numel()", "if num_indices > self.matrix_shape.numel()", "return to_linear_operator(self.to_dense())._getitem(row_index, col_index, *batch_indices)", "left_tensor = self.left_linear_op._getitem(row_index, _noop_index, *batch_indices)", "right_tensor = self.right_linear_op._getitem(_noop_index, col_index, *batch_indices)", "res = MatmulLinearOperator(left_tensor, right_tensor)", "return res"]),
  ("RootLinearOperator._getitem", ["if torch.is_tensor(row_index) and torch.is_tensor(col_index)", "num_indices = row_index.numel()", "if num_indices > self.matrix_shape.numel()", "return to_linear_operator(self.to_dense())._getitem(row_index, col_index, *batch_indices)", "left_tensor = self.root._getitem(row_index, _noop_index, *batch_indices)", "if _equal_indices(row_index, col_index)", "res = self.__class__(left_tensor)", "right_tensor = self.root._getitem(col_index, _noop_index, *batch_indices)", "res = MatmulLinearOperator(left_tensor, right_tensor.mT)", "return res"]),
  ("LinearOperator.__getitem__.index_count", ["ndimension = self.ndimension()", "num_to_fill_in = ndimension - (len(index) - 1)", "index = index[:ellipsis_loc] + tuple((_noop_index for _ in range(num_to_fill_in))) + index[ellipsis_loc + 1:]", "index = index + tuple((_noop_index for _ in range(ndimension - len(index))))", "if len(index) > ndimension"])] := by decide +kernel

end LinOp.C03
