import LinOp.C03.Proofs
import LinOp.Generated.C03Getitem
/-!
C03 — indexing matches torch indexing of the dense matrix.  Property theorems only.

`specShape` / `specPos` / `hasTST` are the torch rule (ints are selects applied first; the broadcast tensor dims
sit at the first tensor position if all tensor positions are adjacent, else at the front);
`computeGetitemSize`, `movedToStart`, `intToSlice`, `kronIdx`, `toepIdx`, `blockDiagIdx`, `blockInterIdx`,
`batchRepeatIdx`, `catLocate`, `splitSliceBounds` mirror the library (see `LinOp/C03/Model.lean`).
-/
namespace LinOp.C03

/-- **`_compute_getitem_size` computes the torch shape**: for every rank, every dims and every (ellipsis-expanded)
index tuple of ints / slices / tensor indices of any shapes, the single-pass state machine of
`utils/getitem.py::_compute_getitem_size` (expected shape of the debug-mode assertion) returns exactly the
declarative torch shape `specShape`. -/
theorem computeGetitemSize_eq_spec (zi : List (Nat × Item)) : computeGetitemSize zi = specShape zi := by
  unfold computeGetitemSize specShape St.finish
  have hf := run_final zi St.init
  have ht := run_tidx_none zi St.init rfl rfl
  have hs := run_tshape_none zi St.init rfl
  have hk := hasT_iff_tensorShapes zi
  change (match (run St.init zi).tidx with
    | none => (run St.init zi).final
    | some k => (run St.init zi).final.take k ++ (run St.init zi).tshape ++ (run St.init zi).final.drop k) = _
  rw [ht, hf, hs]
  cases hsh : tensorShapes zi with
  | nil => simp [hsh] at hk; simp [hk, St.init]
  | cons s r =>
    simp [hsh] at hk
    simp only [hk, if_true, St.init, List.nil_append, List.length_nil, Nat.zero_add, specPos]
    rfl

/-- **`_is_tensor_index_moved_to_start`** answers `True` exactly when the first index is a tensor or the tensor
positions are not adjacent (tensor … slice … tensor, ints ignored) — for index tuples of any length. -/
theorem movedToStart_iff_nonadjacent (k : K) (l : List K) :
    movedToStart (k :: l) = (decide (k = K.T) || hasTST (k :: l)) := by
  have go : ∀ (l : List K),
      movedGo false true l = hasTST l ∧ movedGo true true l = hasST l ∧ movedGo true false l = hasT l := by
    intro l
    induction l with
    | nil => simp [movedGo, hasTST, hasST, hasT]
    | cons x r ih =>
      obtain ⟨h1, h2, h3⟩ := ih
      cases x <;> simp [movedGo, hasTST, hasST, hasT, h1, h2, h3]
  cases k <;> simp [movedToStart, hasTST, (go l).1]

/-- in the non-moved case the tensor dims sit after exactly the slices that precede the first tensor, and when
`movedToStart` holds the torch position is 0 — so `__getitem__`'s un-flattening rule uses the torch position
whenever the tensor block is first or last among the result dims. -/
theorem movedToStart_specPos (k : K) (l : List K) (h : movedToStart (k :: l) = true) : specPos (k :: l) = 0 := by
  rw [movedToStart_iff_nonadjacent] at h
  cases k with
  | T => unfold specPos; simp only [hasTST, slicesBeforeT]; by_cases hh : hasST l = true <;> simp [hh]
  | I => simp_all [specPos, hasTST, slicesBeforeT]
  | S => simp_all [specPos, hasTST, slicesBeforeT]

/-- **Python `slice.indices` model**: the index list has the length given by the closed formula. -/
theorem sliceIndices_length (n : Nat) (a b c : Option Int) : (sliceIndices n a b c).length = sliceLen n a b c := by
  simp [sliceIndices]

/-- clamping: a bound never leaves `[0, n]`, whatever (negative, over-long) value is given. -/
theorem clampBound_le (n : Nat) (b : Int) : clampBound n b ≤ n := by
  unfold clampBound; split <;> omega

/-- **every index produced by a slice with positive step is in range** (all sizes, all bounds). -/
theorem sliceIndices_inRange (n : Nat) (a b c : Option Int) (hc : 0 < sliceStep c) :
    ∀ x ∈ sliceIndices n a b c, x < n := by
  intro x hx
  simp only [sliceIndices, List.mem_map, List.mem_range] at hx
  obtain ⟨k, hk, rfl⟩ := hx
  have hstop : sliceStop n b ≤ n := by unfold sliceStop; split; · exact Nat.le_refl n
                                       · exact clampBound_le n _
  unfold sliceLen at hk
  simp only at hk
  split at hk
  · rename_i hlt
    have : k * sliceStep c ≤ sliceStop n b - sliceStart n a - 1 := by
      have h1 : k ≤ (sliceStop n b - sliceStart n a - 1) / sliceStep c := by omega
      calc k * sliceStep c ≤ ((sliceStop n b - sliceStart n a - 1) / sliceStep c) * sliceStep c := Nat.mul_le_mul_right _ h1
        _ ≤ _ := Nat.div_mul_le_self _ _
    omega
  · omega

/-- the full slice `:` enumerates the whole dimension -/
theorem sliceLen_full (n : Nat) : sliceLen n none none none = n := by
  unfold sliceLen sliceStart sliceStop sliceStep
  simp only
  split
  · rw [Nat.div_one]; omega
  · omega

/-- **`__getitem__`, int in a matrix position (as the code is), partial**: for a NON-negative in-range int the
rewriting `i ↦ slice(i, i+1)` selects exactly row `i`. -/
theorem intToSlice_nonneg_partial (n i : Nat) (h : i < n) :
    sliceIndices n (some (i : Int)) (some ((i : Int) + 1)) none = [i] := by
  have h1 : sliceStart n (some (i : Int)) = i := by
    simp only [sliceStart, clampBound]; split <;> omega
  have h2 : sliceStop n (some ((i : Int) + 1)) = i + 1 := by
    simp only [sliceStop, clampBound]; split <;> omega
  have h3 : sliceLen n (some (i : Int)) (some ((i : Int) + 1)) none = 1 := by
    unfold sliceLen; simp only [h1, h2, sliceStep]; simp
  simp [sliceIndices, h3, h1, sliceStep]

/-- **D06 counterexample (every size)**: the int `-1` is valid for every `n ≥ 1` (torch selects row `n-1`), but the
library's rewriting yields `slice(-1, 0)`, which is empty for every `n`. -/
theorem intToSlice_negInt_counterexample (n : Nat) :
    intToSlice (-1) = Item.slice (some (-1)) (some 0) none ∧ sliceLen n (some (-1)) (some 0) none = 0 := by
  refine ⟨rfl, ?_⟩
  unfold sliceLen sliceStart sliceStop clampBound
  simp only
  split <;> simp_all <;> omega

/-- the repaired rewriting (normalise the int first, `notes/C03_fix_1.diff`) selects exactly the torch row for
every valid int, negative ones included. -/
theorem intToSliceFixed_selects (n : Nat) (i : Int) (h : -(n : Int) ≤ i ∧ i < n) :
    intToSliceFixed n i = Item.slice (some (wrap n i : Int)) (some ((wrap n i : Int) + 1)) none ∧
    sliceIndices n (some (wrap n i : Int)) (some ((wrap n i : Int) + 1)) none = [wrap n i] := by
  refine ⟨rfl, intToSlice_nonneg_partial n (wrap n i) ?_⟩
  unfold wrap; split <;> omega

/-- **Toeplitz `_get_indices`**: for in-range `i, j` the looked-up column entry is `|i - j|` (the symmetric
Toeplitz definition), for every size. -/
theorem toeplitz_entry (n i j : Nat) (hi : i < n) (hj : j < n) :
    toepIdx n i j = ((i : Int) - j).natAbs ∧ toepIdx n i j < n := by
  have : fmod ((i : Int) - j) n = (i : Int) - j := by
    unfold fmod
    by_cases h : (j : Int) ≤ i
    · exact Int.tmod_eq_of_lt (by omega) (by omega)
    · have h1 : (i : Int) - j = -((j : Int) - i) := by omega
      rw [h1, Int.neg_tmod, Int.tmod_eq_of_lt (by omega) (by omega)]
  unfold toepIdx; rw [this]; omega

/-- **D25/D26 counterexample**: an out-of-range index is not rejected but wraps modulo `n`
(`T[3, 0]` on a 3×3 Toeplitz operator silently reads `column[0]`). -/
theorem toeplitz_outOfRange_counterexample : toepIdx 3 3 0 = 0 ∧ inRange 3 3 = false := by decide

/-- the Toeplitz `_diagonal` (`column[..., 0]` expanded) is the `_get_indices` entry `(k, k)` -/
theorem diagonal_toeplitz (n k : Nat) (hk : k < n) : toepIdx n k k = 0 := by
  have := (toeplitz_entry n k k hk hk).1; simpa using this

/-- **BlockDiag `_get_indices`** (block number by `div`, position in the block by `fmod`, off-diagonal blocks
masked to zero: `blockDiagIdx m n i j = (i / m, i % m, j % n, i / m == j / n)`) reads the block-diagonal matrix —
for any number of blocks and any block size. -/
theorem blockDiag_entry (m n : Nat) (hm : 0 < m) (hn : 0 < n) (Bs : List (Nat → Nat → Int)) :
    ∀ i j, i < m * Bs.length → j < n * Bs.length →
      (if (blockDiagIdx m n i j).2.2.2 then
         (Bs.getD (blockDiagIdx m n i j).1 (fun _ _ => 0)) (blockDiagIdx m n i j).2.1 (blockDiagIdx m n i j).2.2.1
       else 0) = blockDiagSpec m n Bs i j := by
  simp only [blockDiagIdx]
  induction Bs with
  | nil => intro i j hi; simp at hi
  | cons B rest ih =>
    intro i j hi hj
    simp only [blockDiagSpec]
    by_cases h1 : i < m
    · by_cases h2 : j < n
      · simp [h1, h2, Nat.div_eq_of_lt, Nat.mod_eq_of_lt]
      · have : 0 < j / n := Nat.div_pos (by omega) hn
        have hne : ¬ (0 = j / n) := by omega
        have hc : ¬ (m ≤ i ∧ n ≤ j) := by omega
        simp [h1, h2, Nat.div_eq_of_lt h1, hne, hc]
    · have hi' : m ≤ i := by omega
      by_cases h2 : j < n
      · have : 0 < i / m := Nat.div_pos hi' hm
        have hne : ¬ (i / m = 0) := by omega
        have hc : ¬ (m ≤ i ∧ n ≤ j) := by omega
        simp [h1, h2, Nat.div_eq_of_lt h2, hne, hc]
      · have hj' : n ≤ j := by omega
        have e1 : i / m = (i - m) / m + 1 := by
          conv => lhs; rw [show i = (i - m) + m by omega]
          exact Nat.add_div_right _ hm
        have e2 : j / n = (j - n) / n + 1 := by
          conv => lhs; rw [show j = (j - n) + n by omega]
          exact Nat.add_div_right _ hn
        have e3 : i % m = (i - m) % m := by
          conv => lhs; rw [show i = (i - m) + m by omega]
          exact Nat.add_mod_right _ _
        have e4 : j % n = (j - n) % n := by
          conv => lhs; rw [show j = (j - n) + n by omega]
          exact Nat.add_mod_right _ _
        have hi2 : i - m < m * rest.length := by
          simp only [List.length_cons, Nat.mul_succ] at hi; omega
        have hj2 : j - n < n * rest.length := by
          simp only [List.length_cons, Nat.mul_succ] at hj; omega
        have := ih (i - m) (j - n) hi2 hj2
        have hc : ¬ (i < m ∧ j < n) := by omega
        simp only [hc, if_false, hi', hj', and_self, if_true]
        rw [← this]
        simp only [e1, e2, e3, e4, List.getD_cons_succ]
        simp

/-- **BlockInterleaved `_get_indices`**: entry `(i*k + b, j*k + b')` of the interleaved layout is `B_b[i, j]` when
`b = b'` and masked otherwise — the `fmod`/`div` pair recovers `(b, i)` for every number of blocks `k`. -/
theorem blockInterleaved_entry (k i j b b' : Nat) (hb : b < k) (hb' : b' < k) :
    blockInterIdx k (i * k + b) (j * k + b') = (b, i, j, b == b') := by
  have hk : 0 < k := by omega
  have h1 : (i * k + b) % k = b := by rw [Nat.add_comm, Nat.add_mul_mod_self_right, Nat.mod_eq_of_lt hb]
  have h2 : (i * k + b) / k = i := by rw [Nat.add_comm, Nat.add_mul_div_right _ _ hk, Nat.div_eq_of_lt hb, Nat.zero_add]
  have h3 : (j * k + b') % k = b' := by rw [Nat.add_comm, Nat.add_mul_mod_self_right, Nat.mod_eq_of_lt hb']
  have h4 : (j * k + b') / k = j := by rw [Nat.add_comm, Nat.add_mul_div_right _ _ hk, Nat.div_eq_of_lt hb', Nat.zero_add]
  simp [blockInterIdx, h1, h2, h3, h4]

/-- **BatchRepeat `_get_indices`**: `torch.repeat` of a batch of size `s` (`r` copies laid one after the other)
holds at position `b` the base entry `b fmod s`. -/
theorem batchRepeat_entry (α : Type) (base : List α) (r b : Nat) (hb : b < r * base.length) :
    ((List.replicate r base).flatten)[b]? = base[batchRepeatIdx base.length b]? := by
  induction r generalizing b with
  | zero => simp at hb
  | succ r ih =>
    simp only [List.replicate_succ, List.flatten_cons, batchRepeatIdx]
    by_cases h : b < base.length
    · rw [List.getElem?_append_left h, Nat.mod_eq_of_lt h]
    · have h' : base.length ≤ b := by omega
      rw [List.getElem?_append_right h']
      have hb2 : b - base.length < r * base.length := by
        rw [Nat.succ_mul] at hb; omega
      rw [ih (b - base.length) hb2]
      simp only [batchRepeatIdx]
      rw [Nat.mod_eq_sub_mod h']

/-- **Cat: `idx_to_tensor_idx` + cumulative offsets**: global position `i` of a concatenation is entry
`local` of piece `piece` — for any number and sizes of pieces. -/
theorem cat_offsets (α : Type) (pieces : List (List α)) (i : Nat) (hi : i < (pieces.map List.length).foldl (· + ·) 0) :
    pieces.flatten[i]? = (pieces.getD (catLocate (pieces.map List.length) i).1 [])[(catLocate (pieces.map List.length) i).2]? := by
  induction pieces generalizing i with
  | nil => simp at hi
  | cons p r ih =>
    simp only [List.map_cons, catLocate, List.flatten_cons]
    by_cases h : i < p.length
    · simp [h, List.getElem?_append_left h]
    · have h' : p.length ≤ i := by omega
      simp only [h, if_false]
      rw [List.getElem?_append_right h']
      have hsum : ∀ (l : List Nat) (a : Nat), l.foldl (· + ·) a = a + l.foldl (· + ·) 0 := by
        intro l; induction l with
        | nil => intro a; simp
        | cons x t iht => intro a; simp only [List.foldl_cons]; rw [iht (a + x), iht (0 + x)]; omega
      have hi2 : i - p.length < (r.map List.length).foldl (· + ·) 0 := by
        simp only [List.map_cons, List.foldl_cons] at hi
        rw [hsum] at hi; omega
      rw [ih (i - p.length) hi2]
      simp

/-- **D07 counterexample**: two pieces of 2 and 3 rows, `op[1:5]` (explicit stop == size): `_split_slice` computes
`5 % 5 = 0` and asks the FIRST piece for rows `1:0` (empty), whereas the slice covers rows 1..4
(piece 0 row 1 up to piece 1 row 3 exclusive-stop 3). -/
theorem splitSlice_stopEqSize_counterexample :
    splitSliceBounds [2, 3] (some 1) (some 5) = (0, 1, 1, 0) ∧
    splitSliceBoundsFixed [2, 3] (some 1) (some 5) = (0, 1, 1, 3) ∧
    sliceIndices 5 (some 1) (some 5) none = [1, 2, 3, 4] := by decide

/-- D07, over-long negative start (`op[-7:2]` on 5 rows): `-7 % 5 = 3` instead of clamping to 0. -/
theorem splitSlice_overlong_counterexample :
    (splitSliceBounds [2, 3] (some (-7)) (some 2)).2.1 = 1 ∧ (splitSliceBounds [2, 3] (some (-7)) (some 2)).1 = 1 ∧
    sliceIndices 5 (some (-7)) (some 2) none = [0, 1] := by decide

/-- **`_split_slice`, partial**: when the bounds are in `[0, size)` with `start < stop < size`… the `%` normalisation
is the identity, so first/last piece and local bounds are those of `catLocate` (the repaired function). -/
theorem splitSlice_inRange_partial (sizes : List Nat) (a b : Nat)
    (hab : a < b) (hb : b < sizes.foldl (· + ·) 0) :
    (splitSliceBounds sizes (some (a : Int)) (some (b : Int))).1 = (catLocate sizes a).1 ∧
    (splitSliceBounds sizes (some (a : Int)) (some (b : Int))).2.1 = (catLocate sizes a).2 ∧
    (splitSliceBounds sizes (some (a : Int)) (some (b : Int))).2.2.1 = (catLocate sizes (b - 1)).1 := by
  have ha' : pyMod (a : Int) (sizes.foldl (· + ·) 0) = a := by
    unfold pyMod
    rw [Int.emod_eq_of_lt (by omega) (by omega)]; simp
  have hb' : pyMod (b : Int) (sizes.foldl (· + ·) 0) = b := by
    unfold pyMod
    rw [Int.emod_eq_of_lt (by omega) (by omega)]; simp
  have hb0 : ¬ (b = 0) := by omega
  simp [splitSliceBounds, ha', hb', hb0]

/-- **Translator obligation**: the index arithmetic extracted (Python `ast`) from /repo's working tree — which
operations, with which rounding mode, in which order, each class's `_get_indices` / `_split_slice` and the
`__getitem__` int rewriting use — is exactly the arithmetic mirrored by `kronIdx` (floor-div then fmod per
factor), `toepIdx` (sub, fmod, abs), `blockDiagIdx` (div, div, fmod, fmod, eq), `blockInterIdx` (fmod, fmod,
div, div, eq), `batchRepeatIdx` (fmod), `splitSliceBounds` (`%`, `%`) and `intToSlice` (`slice(i, i + 1)`). -/
theorem generated_arith_table : LinOp.Generated.C03.table = [
    ("KroneckerProductLinearOperator._get_indices", ["//=", "//=", "fmod", "div:floor", "fmod", "div:floor"]),
    ("ToeplitzLinearOperator._get_indices", ["abs", "fmod", "-"]),
    ("BlockDiagLinearOperator._get_indices", ["div:floor", "div:floor", "fmod", "fmod", "eq"]),
    ("BlockInterleavedLinearOperator._get_indices", ["fmod", "fmod", "div:floor", "div:floor", "eq"]),
    ("BatchRepeatLinearOperator._get_indices", ["-", "-", "fmod"]),
    ("CatLinearOperator._split_slice", ["%", "%", "-", "-", "-", "-", "-"]),
    ("MaskedLinearOperator._get_indices", ["arange", "arange"]),
    ("LinearOperator.__getitem__.int_to_slice",
      ["slice(col_index, col_index + 1, None)", "slice(row_index, row_index + 1, None)"])] := by
  decide +kernel

end LinOp.C03
