import LinOp.C20.ProofsToeplitz
import LinOp.C20.ProofsPermQr
/-!
C20 — utility kernels equal their dense definitions.  Property theorems only (proofs in `LinOp/C20/Proofs*.lean`).

Vectors / matrices are index functions on `Nat`; every theorem holds for all sizes `n ≥ 1` and for
every commutative ring (field, for QR / pseudo-inverse) of scalars.  `sumN n f = Σ_{i<n} f i`
(`sumN_eq_sum` relates it to `Finset.sum`).  The FFT is abstracted as the circular convolution
`circConv`, `torch.dsmm` as `spmm`, `torch.linalg.qr` / `solve_triangular` as parameters with their contracts
as hypotheses.
-/
namespace LinOp.C20.Property
open LinOp.C20

/-! ### Toeplitz -/

/-- `toeplitz(c, r)` (n ≥ 1, equal first elements) succeeds and its two loop nests write exactly
`T[i,j] = c[i-j]` (i ≥ j), `r[j-i]` (i < j), whatever `torch.empty` contained. -/
theorem toeplitz_dense_def {α : Type} [DecidableEq α] (n : Nat) (c r : Nat → α) (junk : M α)
    (hn : 1 ≤ n) (h0 : c 0 = r 0) :
    ∃ T, toeplitz n n c r junk = .ok T ∧ ∀ i j, i < n → j < n → T i j = toeplitzEntry c r i j :=
  _root_.LinOp.C20.toeplitz_dense_def n c r junk hn h0

/-- `toeplitz` raises exactly when the first elements differ or the lengths differ. -/
theorem toeplitz_raises_iff {α : Type} [DecidableEq α] (nc nr : Nat) (c r : Nat → α) (junk : M α) :
    (∃ e, toeplitz nc nr c r junk = .error e) ↔ (c 0 ≠ r 0 ∨ nc ≠ nr) :=
  _root_.LinOp.C20.toeplitz_raises_iff nc nr c r junk

/-- `sym_toeplitz(c)[i,j] = c[|i-j|]`. -/
theorem sym_toeplitz_def {α : Type} [DecidableEq α] (n : Nat) (c : Nat → α) (junk : M α) (hn : 1 ≤ n) :
    ∃ T, symToeplitz n c junk = .ok T ∧ ∀ i j, i < n → j < n → T i j = if j ≤ i then c (i - j) else c (j - i) :=
  _root_.LinOp.C20.sym_toeplitz_def n c junk hn

/-- `toeplitz_getitem(c, r, i, j)` is the dense entry. -/
theorem toeplitz_getitem_def {α : Type} (c r : Nat → α) (i j : Nat) :
    toeplitzGetitem c r i j = toeplitzEntry c r i j :=
  _root_.LinOp.C20.toeplitz_getitem_def c r i j

/-- `toeplitz_matmul`: the first `n` entries of the circular convolution (length `2n-1`) of the embedding
`[c, reversed r[1:]]` with the zero-padded right-hand side are `T x` — for every `n ≥ 1`. -/
theorem toeplitz_matmul_embedding {α : Type} [CommRing α] (n : Nat) (hn : 1 ≤ n) (c r x : Nat → α) (i : Nat) (hi : i < n) :
    toeplitzMatmulCore n c r x i = sumN n fun j => toeplitzEntry c r i j * x j :=
  _root_.LinOp.C20.toeplitz_matmul_embedding n hn c r x i hi

/-- `sym_toeplitz_derivative_quadratic_form`: entry `i` is `Σ_j u_jᵀ (∂T/∂c_i) v_j`, `∂T/∂c_i` the indicator of the
`i`-th sub- and super-diagonal (the identity for `i = 0`: the diagonal correction). -/
theorem toeplitz_dqf {α : Type} [CommRing α] (m s : Nat) (hm : 1 ≤ m) (u v : Nat → Nat → α) (i : Nat) (hi : i < m) :
    dqfCore m s u v i = dqfSpec m s u v i :=
  _root_.LinOp.C20.toeplitz_dqf m s hm u v i hi

def d27c : Tn Int := ⟨[3], fun i => [1, 2, 3].getD (i.getD 0 0) 0⟩
def d27r : Tn Int := ⟨[3], fun i => [1, 4, 5].getD (i.getD 0 0) 0⟩
def d27x : Tn Int := ⟨[3], fun i => [1, 1, 2].getD (i.getD 0 0) 0⟩
def isErr {β : Type} : Except String β → Bool
  | .error _ => true
  | .ok _ => false
def okVals (e : Except String (Tn Int)) (idxs : List (List Nat)) : Option (List Nat × List Int) :=
  match e with
  | .ok t => some (t.shape, idxs.map t.get)
  | .error _ => none

/-- D27 (defect of the unchanged tree): with a 1-D right-hand side the code as it is raises although the
multiplication is well defined; the repaired shape logic returns a vector. -/
theorem toeplitz_matmul_vector_counterexample :
    isErr (toeplitzMatmul false d27c d27r d27x) = true ∧
    okVals (toeplitzMatmul true d27c d27r d27x) [[0], [1], [2]] = some ([3], [15, 11, 7]) := by
  decide

/-! ### permutations -/

/-- `apply_permutation`: `K[l.unsqueeze(-1), r.unsqueeze(-2)] = Π_l K Π_rᵀ` with `Π_l[i,a] = [l i = a]` — full or
partial permutations (any index vectors with entries in range). -/
theorem apply_perm_def {α : Type} [CommRing α] (m n : Nat) (K : M α) (l r : Nat → Nat) (i j : Nat)
    (hl : l i < m) (hr : r j < n) :
    applyPermCore K l r i j =
      sumN m fun a => sumN n fun b => (if l i = a then 1 else 0) * K a b * (if r j = b then 1 else 0) :=
  _root_.LinOp.C20.apply_perm_def m n K l r i j hl hr

/-- `inverse_permutation`: `inv[p[i]] = i` for every injective `p` of any length. -/
theorem inverse_perm_def (n : Nat) (p : Nat → Nat)
    (hinj : ∀ a b, a < n → b < n → p a = p b → a = b) (i : Nat) (hi : i < n) :
    inversePermCore n p (p i) = i :=
  _root_.LinOp.C20.inverse_perm_def n p hinj i hi

/-- … and `p[inv[a]] = a` for every `a` in the image. -/
theorem inverse_perm_right (n : Nat) (p : Nat → Nat)
    (hinj : ∀ a b, a < n → b < n → p a = p b → a = b) (a : Nat) (hsurj : ∃ i, i < n ∧ p i = a) :
    p (inversePermCore n p a) = a :=
  _root_.LinOp.C20.inverse_perm_right n p hinj a hsurj

example : inversePermCore 5 (fun i => [1, 3, 2, 4, 0].getD i 0) 0 = 4 := by decide

/-! ### stable QR / pseudo-inverse -/

/-- `stable_qr`, under the QR contract `Q R = A`: `Q R' = A + Q J`, `J` the diagonal jitter. -/
theorem stable_qr_contract {α : Type} [Field α] [LinearOrder α] [IsStrictOrderedRing α] (eps : α) (k : Nat) (Q R A : M α)
    (hqr : ∀ i j, sumN k (fun a => Q i a * R a j) = A i j) (i j : Nat) :
    sumN k (fun a => Q i a * stableQrR eps k R a j) =
      A i j + (if j < k then Q i j * qrJitter eps k (fun t => R t t) j else 0) :=
  _root_.LinOp.C20.stable_qr_contract eps k Q R A hqr i j

/-- … every diagonal entry of `R'` is at least `eps` in absolute value (so a triangular `R'` is invertible) … -/
theorem stable_qr_diag_bound {α : Type} [Field α] [LinearOrder α] [IsStrictOrderedRing α] (eps : α) (heps : 0 < eps)
    (k : Nat) (R : M α) (i : Nat) (hi : i < k) :
    eps ≤ |stableQrR eps k R i i| := by
  have := _root_.LinOp.C20.qr_jitter_diag_bound eps heps k (fun t => R t t) i hi
  simpa [stableQrR] using this

/-- … and `R` is returned unchanged when no pivot is below `eps`. -/
theorem stable_qr_noop {α : Type} [Field α] [LinearOrder α] [IsStrictOrderedRing α] (eps : α) (k : Nat) (R : M α)
    (h : ∀ i, i < k → ¬ ((if R i i < 0 then -R i i else R i i) < eps)) :
    stableQrR eps k R = R :=
  _root_.LinOp.C20.stable_qr_noop eps k R h

/-- the triangular solve of `stable_pinverse` as modelled (back substitution) solves `R X = B`. -/
theorem backSubst_solves {α : Type} [Field α] (k : Nat) (R : M α) (b : Nat → α)
    (htri : ∀ i j, j < i → R i j = 0) (hdiag : ∀ i, i < k → R i i ≠ 0) (i : Nat) (hi : i < k) :
    sumN k (fun j => R i j * backSubst k R b k j) = b i :=
  _root_.LinOp.C20.backSubst_solves k R b htri hdiag i hi

/-- `stable_pinverse`, tall / square branch under full column rank (`A = Q R`, `QᵀQ = I`, `R` invertible,
`R P = Qᵀ`): `P A = I` and the four Moore–Penrose conditions. -/
theorem pinverse_def {α : Type} [Field α] {m n : Type} [Fintype m] [Fintype n] [DecidableEq n]
    (A Q : Matrix m n α) (R : Matrix n n α) (P : Matrix n m α)
    (hA : A = Q * R) (hQ : Q.transpose * Q = 1) (hR : IsUnit R.det) (hP : R * P = Q.transpose) :
    P * A = 1 ∧ IsMP A P :=
  _root_.LinOp.C20.pinverse_tall A Q R P hA hQ hR hP

/-- fat branch: `stable_pinverse(A) = stable_pinverse(Aᵀ)ᵀ` is a Moore–Penrose inverse of `A`. -/
theorem pinverse_fat {α : Type} [Field α] {m n : Type} [Fintype m] [Fintype n] [DecidableEq n]
    (A : Matrix m n α) (P : Matrix m n α) (h : IsMP A.transpose P) : IsMP A P.transpose :=
  _root_.LinOp.C20.pinverse_fat A P h

end LinOp.C20.Property
