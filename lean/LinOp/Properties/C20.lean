import LinOp.C20.ProofsToeplitz
import LinOp.C20.ProofsPermQr
import LinOp.C20.ProofsInterp
import LinOp.C20.ProofsSparse
import LinOp.C20.ProofsExtra
import LinOp.C20.ProofsAdjoint
import LinOp.C20.ProofsGetitemFold
import LinOp.C20.ProofsBdsmm
import LinOp.C20.ProofsBcast
import LinOp.C20.ProofsRepeatFold
import LinOp.C20.ProofsModel2
import LinOp.C20.ProofsCompose
import LinOp.C20.ProofsGeneral
import LinOp.C20.ProofsLift
import LinOp.C20.ProofsLift2
import LinOp.C20.ProofsLift3
import LinOp.C20.ProofsGlue
import LinOp.C20.ProofsBackward
import LinOp.Generated.C20Facts
/-!
C20 — utility kernels equal their dense definitions.  Property theorems only (proofs in `LinOp/C20/Proofs*.lean`).

Vectors / matrices are index functions on `Nat`; every theorem holds for all sizes `n ≥ 1` and for
every commutative ring (field, for QR / pseudo-inverse) of scalars.  `sumN n f = Σ_{i<n} f i`
(`sumN_eq_sum` relates it to `Finset.sum`).  The FFT is abstracted as the circular convolution
`circConv`, `torch.dsmm` as `spmm`, `torch.linalg.qr` / `solve_triangular` as parameters with their contracts
as hypotheses.
-/
namespace LinOp.C20.Property
open LinOp.C20

/-! ### Toeplitz -/

/-- `toeplitz(c, r)` (n ≥ 1, equal first elements) succeeds and its two loop nests write exactly
`T[i,j] = c[i-j]` (i ≥ j), `r[j-i]` (i < j), whatever `torch.empty` contained. -/
theorem toeplitz_dense_def {α : Type} [DecidableEq α] (n : Nat) (c r : Nat → α) (junk : M α)
    (hn : 1 ≤ n) (h0 : c 0 = r 0) :
    ∃ T, toeplitz n n c r junk = .ok T ∧ ∀ i j, i < n → j < n → T i j = toeplitzEntry c r i j :=
  _root_.LinOp.C20.toeplitz_dense_def n c r junk hn h0

/-- `toeplitz` raises exactly when the first elements differ or the lengths differ. -/
theorem toeplitz_raises_iff {α : Type} [DecidableEq α] (nc nr : Nat) (c r : Nat → α) (junk : M α) :
    (∃ e, toeplitz nc nr c r junk = .error e) ↔ (c 0 ≠ r 0 ∨ nc ≠ nr) :=
  _root_.LinOp.C20.toeplitz_raises_iff nc nr c r junk

/-- `sym_toeplitz(c)[i,j] = c[|i-j|]`. -/
theorem sym_toeplitz_def {α : Type} [DecidableEq α] (n : Nat) (c : Nat → α) (junk : M α) (hn : 1 ≤ n) :
    ∃ T, symToeplitz n c junk = .ok T ∧ ∀ i j, i < n → j < n → T i j = if j ≤ i then c (i - j) else c (j - i) :=
  _root_.LinOp.C20.sym_toeplitz_def n c junk hn

/-- `toeplitz_getitem(c, r, i, j)` is the dense entry. -/
theorem toeplitz_getitem_def {α : Type} (c r : Nat → α) (i j : Nat) :
    toeplitzGetitem c r i j = toeplitzEntry c r i j :=
  _root_.LinOp.C20.toeplitz_getitem_def c r i j

/-- `toeplitz_matmul`: the first `n` entries of the circular convolution (length `2n-1`) of the embedding
`[c, reversed r[1:]]` with the zero-padded right-hand side are `T x` — for every `n ≥ 1`. -/
theorem toeplitz_matmul_embedding {α : Type} [CommRing α] (n : Nat) (hn : 1 ≤ n) (c r x : Nat → α) (i : Nat) (hi : i < n) :
    toeplitzMatmulCore n c r x i = sumN n fun j => toeplitzEntry c r i j * x j :=
  _root_.LinOp.C20.toeplitz_matmul_embedding n hn c r x i hi

/-- `sym_toeplitz_derivative_quadratic_form`: entry `i` is `Σ_j u_jᵀ (∂T/∂c_i) v_j`, `∂T/∂c_i` the indicator of the
`i`-th sub- and super-diagonal (the identity for `i = 0`: the diagonal correction). -/
theorem toeplitz_dqf {α : Type} [CommRing α] (m s : Nat) (hm : 1 ≤ m) (u v : Nat → Nat → α) (i : Nat) (hi : i < m) :
    dqfCore m s u v i = dqfSpec m s u v i :=
  _root_.LinOp.C20.toeplitz_dqf m s hm u v i hi

def d27c : Tn Int := ⟨[3], fun i => [1, 2, 3].getD (i.getD 0 0) 0⟩
def d27r : Tn Int := ⟨[3], fun i => [1, 4, 5].getD (i.getD 0 0) 0⟩
def d27x : Tn Int := ⟨[3], fun i => [1, 1, 2].getD (i.getD 0 0) 0⟩
def isErr {β : Type} : Except String β → Bool
  | .error _ => true
  | .ok _ => false
def okVals (e : Except String (Tn Int)) (idxs : List (List Nat)) : Option (List Nat × List Int) :=
  match e with
  | .ok t => some (t.shape, idxs.map t.get)
  | .error _ => none

/-- `toeplitz_matmul(c, r, M)`, unbatched, matrix right-hand side: the whole function (shape logic, first-element check,
embedding, circular convolution, slice) returns `T M`. -/
theorem toeplitz_matmul_matrix_def {α : Type} [CommRing α] [DecidableEq α] (n p : Nat) (hn : 1 ≤ n) (c r x : Tn α)
    (hc : c.shape = [n]) (hr : r.shape = [n]) (hx : x.shape = [n, p]) (h0 : c.get [0] = r.get [0]) :
    ∃ t, toeplitzMatmul true c r x = .ok t ∧ t.shape = [n, p] ∧ ∀ i k, i < n →
      t.get [i, k] = sumN n fun j => toeplitzEntry (fun a => c.get [a]) (fun a => r.get [a]) i j * x.get [j, k] := by
  refine ⟨⟨[n, p], fun idx => toeplitzMatmulCore n (fun a => c.get [a]) (fun a => r.get [a])
      (fun a => x.get [a, idx.getD 1 0]) (idx.getD 0 0)⟩, ?_, rfl, ?_⟩
  · simp [toeplitzMatmul, hc, hr, hx, matmulBroadcastShape, broadcastShapes, bcastRev, allIdx, prod, unflat, restrictIdx, h0]
  · intro i k hi
    exact _root_.LinOp.C20.toeplitz_matmul_embedding n hn _ _ _ i hi

/-- `toeplitz_matmul(c, r, v)` with a 1-D right-hand side (documented; the code unsqueezes before the shape computation and
squeezes the result): returns the vector `T v`. -/
theorem toeplitz_matmul_vector_def {α : Type} [CommRing α] [DecidableEq α] (n : Nat) (hn : 1 ≤ n) (c r x : Tn α)
    (hc : c.shape = [n]) (hr : r.shape = [n]) (hx : x.shape = [n]) (h0 : c.get [0] = r.get [0]) :
    ∃ t, toeplitzMatmul true c r x = .ok t ∧ t.shape = [n] ∧ ∀ i, i < n →
      t.get [i] = sumN n fun j => toeplitzEntry (fun a => c.get [a]) (fun a => r.get [a]) i j * x.get [j] := by
  refine ⟨⟨[n], fun idx => toeplitzMatmulCore n (fun a => c.get [a]) (fun a => r.get [a])
      (fun a => x.get [a]) ((idx ++ [0]).getD 0 0)⟩, ?_, rfl, ?_⟩
  · simp [toeplitzMatmul, hc, hr, hx, matmulBroadcastShape, broadcastShapes, bcastRev, allIdx, prod, unflat, restrictIdx, h0]
  · intro i hi
    show toeplitzMatmulCore n (fun a => c.get [a]) (fun a => r.get [a]) (fun a => x.get [a]) i = _
    exact _root_.LinOp.C20.toeplitz_matmul_embedding n hn _ _ _ i hi

/-- Statement about the PREVIOUS code (before fix 94ba5d1, defect D27; model flag `fixed = false`): a 1-D right-hand side
made `toeplitz_matmul` raise, where the current code returns `T v = [15, 11, 7]`. -/
theorem previous_code_D27_vector_rhs_raised :
    isErr (toeplitzMatmul false d27c d27r d27x) = true ∧
    okVals (toeplitzMatmul true d27c d27r d27x) [[0], [1], [2]] = some ([3], [15, 11, 7]) := by
  decide

/-! ### permutations -/

/-- `apply_permutation`: `K[l.unsqueeze(-1), r.unsqueeze(-2)] = Π_l K Π_rᵀ` with `Π_l[i,a] = [l i = a]` — full or
partial permutations (any index vectors with entries in range). -/
theorem apply_perm_def {α : Type} [CommRing α] (m n : Nat) (K : M α) (l r : Nat → Nat) (i j : Nat)
    (hl : l i < m) (hr : r j < n) :
    applyPermCore K l r i j =
      sumN m fun a => sumN n fun b => (if l i = a then 1 else 0) * K a b * (if r j = b then 1 else 0) :=
  _root_.LinOp.C20.apply_perm_def m n K l r i j hl hr

/-- `inverse_permutation`: `inv[p[i]] = i` for every injective `p` of any length. -/
theorem inverse_perm_def (n : Nat) (p : Nat → Nat)
    (hinj : ∀ a b, a < n → b < n → p a = p b → a = b) (i : Nat) (hi : i < n) :
    inversePermCore n p (p i) = i :=
  _root_.LinOp.C20.inverse_perm_def n p hinj i hi

/-- … and `p[inv[a]] = a` for every `a` in the image. -/
theorem inverse_perm_right (n : Nat) (p : Nat → Nat)
    (hinj : ∀ a b, a < n → b < n → p a = p b → a = b) (a : Nat) (hsurj : ∃ i, i < n ∧ p i = a) :
    p (inversePermCore n p a) = a :=
  _root_.LinOp.C20.inverse_perm_right n p hinj a hsurj

example : inversePermCore 5 (fun i => [1, 3, 2, 4, 0].getD i 0) 0 = 4 := by decide

/-! ### stable QR / pseudo-inverse -/

/-- `stable_qr`, under the QR contract `Q R = A`: `Q R' = A + Q J`, `J` the diagonal jitter. -/
theorem stable_qr_contract {α : Type} [Field α] [LinearOrder α] [IsStrictOrderedRing α] (eps : α) (k : Nat) (Q R A : M α)
    (hqr : ∀ i j, sumN k (fun a => Q i a * R a j) = A i j) (i j : Nat) :
    sumN k (fun a => Q i a * stableQrR eps k R a j) =
      A i j + (if j < k then Q i j * qrJitter eps k (fun t => R t t) j else 0) :=
  _root_.LinOp.C20.stable_qr_contract eps k Q R A hqr i j

/-- … every diagonal entry of `R'` is at least `eps` in absolute value (so a triangular `R'` is invertible) … -/
theorem stable_qr_diag_bound {α : Type} [Field α] [LinearOrder α] [IsStrictOrderedRing α] (eps : α) (heps : 0 < eps)
    (k : Nat) (R : M α) (i : Nat) (hi : i < k) :
    eps ≤ |stableQrR eps k R i i| := by
  have := _root_.LinOp.C20.qr_jitter_diag_bound eps heps k (fun t => R t t) i hi
  simpa [stableQrR] using this

/-- … and `R` is returned unchanged when no pivot is below `eps`. -/
theorem stable_qr_noop {α : Type} [Field α] [LinearOrder α] [IsStrictOrderedRing α] (eps : α) (k : Nat) (R : M α)
    (h : ∀ i, i < k → ¬ ((if R i i < 0 then -R i i else R i i) < eps)) :
    stableQrR eps k R = R :=
  _root_.LinOp.C20.stable_qr_noop eps k R h

/-- the triangular solve of `stable_pinverse` as modelled (back substitution) solves `R X = B`. -/
theorem backSubst_solves {α : Type} [Field α] (k : Nat) (R : M α) (b : Nat → α)
    (htri : ∀ i j, j < i → R i j = 0) (hdiag : ∀ i, i < k → R i i ≠ 0) (i : Nat) (hi : i < k) :
    sumN k (fun j => R i j * backSubst k R b k j) = b i :=
  _root_.LinOp.C20.backSubst_solves k R b htri hdiag i hi

/-- `stable_pinverse`, tall / square branch under full column rank (`A = Q R`, `QᵀQ = I`, `R` invertible,
`R P = Qᵀ`): `P A = I` and the four Moore–Penrose conditions. -/
theorem pinverse_def {α : Type} [Field α] {m n : Type} [Fintype m] [Fintype n] [DecidableEq n]
    (A Q : Matrix m n α) (R : Matrix n n α) (P : Matrix n m α)
    (hA : A = Q * R) (hQ : Q.transpose * Q = 1) (hR : IsUnit R.det) (hP : R * P = Q.transpose) :
    P * A = 1 ∧ IsMP A P :=
  _root_.LinOp.C20.pinverse_tall A Q R P hA hQ hR hP

/-- fat branch: `stable_pinverse(A) = stable_pinverse(Aᵀ)ᵀ` is a Moore–Penrose inverse of `A`. -/
theorem pinverse_fat {α : Type} [Field α] {m n : Type} [Fintype m] [Fintype n] [DecidableEq n]
    (A : Matrix m n α) (P : Matrix m n α) (h : IsMP A.transpose P) : IsMP A P.transpose :=
  _root_.LinOp.C20.pinverse_fat A P h


/-! ### interpolation -/

/-- `left_interp` (gather, multiply, sum over the coefficients) is `(W x)_r` for the dense interpolation matrix
`W[r,c] = Σ_k [idx[r,k] = c] val[r,k]` — duplicate indices add. -/
theorem left_interp_def {α : Type} [CommRing α] (n K : Nat) (idx : Nat → Nat → Nat) (val : Nat → Nat → α) (x : Nat → α) (r : Nat)
    (h : ∀ k, k < K → idx r k < n) :
    leftInterpCore K idx val x r = sumN n fun c => interpW K idx val r c * x c :=
  _root_.LinOp.C20.left_interp_def n K idx val x r h

/-- `left_t_interp` (scatter-add through the summing matrix and dsmm) is `(Wᵀ x)_o`; duplicates add. -/
theorem left_t_interp_def {α : Type} [CommRing α] (D K : Nat) (idx : Nat → Nat → Nat) (val : Nat → Nat → α) (x : Nat → α) (o : Nat) :
    leftTInterpCore D K idx val x o = sumN D fun d => interpW K idx val d o * x d :=
  _root_.LinOp.C20.left_t_interp_def D K idx val x o

/-! ### sparse tensors (entry lists; equal index tuples add) -/

/-- the entry-list product `spmm` (contract of `torch.dsmm`) is densify-then-dense-matmul. -/
theorem spmm_def {α : Type} [CommRing α] (ents : Ents α) (d : Nat → Nat → α) (i c ncols : Nat)
    (h : ∀ e ∈ ents, e.1.length = 2 ∧ e.1.getD 1 0 < ncols) :
    spmm ents d i c = sumN ncols fun j => densify ents [i, j] * d j c :=
  _root_.LinOp.C20.spmm_def ents d i c ncols h

theorem sparse_eye_def {α : Type} [CommRing α] (n i j : Nat) (hi : i < n) (hj : j < n) :
    densify (sparseEye (α := α) n).ents [i, j] = if i = j then 1 else 0 :=
  _root_.LinOp.C20.sparse_eye_def n i j hi hj

/-- `make_sparse_from_indices_and_values`: batch index construction, zero dropping and the all-zero special case
leave exactly one contribution `valf p` per flattened position `p`, at index (batch digits of p, idxf p, row of p). -/
theorem make_sparse_def {α : Type} [CommRing α] [DecidableEq α] (bs : List Nat) (T K : Nat) (idxf : Nat → Nat) (valf : Nat → α)
    (numRows : Nat) (bidx : List Nat) (i t : Nat) (hb : bidx.length = bs.length) :
    densify (makeSparse bs T K idxf valf numRows).ents (bidx ++ [i, t]) =
      sumN (prod bs * T * K) fun p =>
        if (unflat (bs ++ [T, K]) p).take bs.length = bidx ∧ idxf p = i ∧ (p / K) % T = t then valf p else 0 :=
  _root_.LinOp.C20.make_sparse_def bs T K idxf valf numRows bidx i t hb

theorem make_sparse_shape {α : Type} [CommRing α] [DecidableEq α] (bs : List Nat) (T K : Nat) (idxf : Nat → Nat) (valf : Nat → α)
    (numRows : Nat) : (makeSparse bs T K idxf valf numRows).shape = bs ++ [numRows, T] :=
  _root_.LinOp.C20.make_sparse_shape bs T K idxf valf numRows

/-- unbatched: `densify(make_sparse(idx, val))[i, t] = W[t, i]`. -/
theorem make_sparse_unbatched {α : Type} [CommRing α] [DecidableEq α] (T K : Nat) (hK : 0 < K) (idx : Nat → Nat → Nat)
    (val : Nat → Nat → α) (numRows i t : Nat) (ht : t < T) :
    densify (makeSparse [] T K (fun p => idx (p / K) (p % K)) (fun p => val (p / K) (p % K)) numRows).ents [i, t]
      = interpW K idx val t i :=
  _root_.LinOp.C20.make_sparse_unbatched T K hK idx val numRows i t ht

/-- row-major digits determine the flat position / round trip. -/
theorem unflat_inj (shape : List Nat) (p q : Nat) (hp : p < prod shape) (hq : q < prod shape)
    (h : unflat shape p = unflat shape q) : p = q :=
  _root_.LinOp.C20.unflat_inj shape p q hp hq h

theorem flat_unflat (shape : List Nat) (p : Nat) (hp : p < prod shape) : flat shape (unflat shape p) = p :=
  _root_.LinOp.C20.flat_unflat shape p hp

/-- `to_sparse(dense)` densifies back to `dense` at every position of the box (any rank, zeros dropped, all-zero case). -/
theorem to_sparse_roundtrip {α : Type} [CommRing α] [DecidableEq α] (d : Tn α) (p : Nat) (hp : p < prod d.shape) :
    densify (toSparse d).ents (unflat d.shape p) = d.get (unflat d.shape p) :=
  _root_.LinOp.C20.to_sparse_roundtrip d _ p hp rfl
    (fun q hq h => _root_.LinOp.C20.unflat_inj d.shape q p hq hp h)

/-- `sparse_repeat`, one repeated dimension (copy `k` is shifted by `k * size`): dense `repeat`. -/
theorem sparse_repeat_def {α : Type} [AddCommMonoid α] (i rep : Nat) (s : Sp α) (idx : List Nat)
    (hi : i < s.shape.length) (hlen : idx.length = s.shape.length)
    (hents : ∀ e ∈ s.ents, e.1.length = s.shape.length ∧ e.1.getD i 0 < s.shape.getD i 0)
    (hidx : idx.getD i 0 < rep * s.shape.getD i 0) :
    densify (repeatDim true i rep s).ents idx = densify s.ents (idx.set i (idx.getD i 0 % s.shape.getD i 0)) :=
  _root_.LinOp.C20.sparse_repeat_def i rep s idx hi hlen hents hidx

/-- Statement about the PREVIOUS code (before fix 571691c, defect D28; `fixed = false`): the offset was the repeat number
`k` instead of `k * size`, wrong on a dimension of size 2 … -/
theorem previous_code_D28_offset_was_repeat_number :
    let s : Sp Int := ⟨[2, 2], [([0, 0], 1), ([1, 0], 2), ([1, 1], 3)]⟩
    densify (sparseRepeat false s [2, 1]).ents [1, 0] = 3 ∧ densify (sparseRepeat true s [2, 1]).ents [1, 0] = 2
      ∧ densify (sparseRepeat true s [2, 1]).ents [2, 0] = 1 ∧ densify (sparseRepeat false s [2, 1]).ents [2, 0] = 2 :=
  _root_.LinOp.C20.sparse_repeat_counterexample

/-- … and agreed with the current code whenever the repeated dimension has size 1 (how `bdsmm` uses it). -/
theorem previous_code_D28_agreed_on_size_one_dims {α : Type} (i rep : Nat) (s : Sp α) (h : s.shape.getD i 0 = 1) :
    repeatDim false i rep s = repeatDim true i rep s :=
  _root_.LinOp.C20.sparse_repeat_partial i rep s h

/-- `sparse_getitem`, integer at position `i`: the result at `ridx` is the operand at `ridx` with `z` inserted at `i`. -/
theorem sparse_getitem_int_def {α : Type} [AddCommMonoid α] (i : Nat) (z : Nat) (s : Sp α) (ridx : List Nat)
    (hi : i < s.shape.length) (hlen : ridx.length + 1 = s.shape.length)
    (hents : ∀ e ∈ s.ents, e.1.length = s.shape.length) :
    ∃ s', getitemStep i (.int (z : Int)) s = .ok s' ∧ s'.shape = s.shape.eraseIdx i ∧
      densify s'.ents ridx = densify s.ents (ridx.insertIdx i z) :=
  _root_.LinOp.C20.sparse_getitem_int_def i z s ridx hi hlen hents

/-- `sparse_getitem`, slice (step 1, Python bound clamping) at position `i`. -/
theorem sparse_getitem_slice_def {α : Type} [AddCommMonoid α] (i : Nat) (start stop : Option Int) (s : Sp α) (ridx : List Nat)
    (hi : i < s.shape.length) (hlen : ridx.length = s.shape.length)
    (hents : ∀ e ∈ s.ents, e.1.length = s.shape.length)
    (hr : sliceBound (s.shape.getD i 0) start 0 + ridx.getD i 0 < sliceBound (s.shape.getD i 0) stop (s.shape.getD i 0)) :
    ∃ s', getitemStep i (.slice start stop none) s = .ok s' ∧
      s'.shape = s.shape.set i (sliceBound (s.shape.getD i 0) stop (s.shape.getD i 0) - sliceBound (s.shape.getD i 0) start 0) ∧
      densify s'.ents ridx = densify s.ents (ridx.set i (ridx.getD i 0 + sliceBound (s.shape.getD i 0) start 0)) :=
  _root_.LinOp.C20.sparse_getitem_slice_def i start stop s ridx hi hlen hents hr

def spVal (e : Except String (Sum Int (Sp Int))) : Option Int :=
  match e with
  | .ok (.inl v) => some v
  | _ => none

/-- `sparse_getitem` with a NEGATIVE integer `z ≥ -size` at position `i`: the index is normalised to `z + size` and the
result is the operand's slice counted from the end. -/
theorem sparse_getitem_negint_def {α : Type} [AddCommMonoid α] (i : Nat) (z : Int) (s : Sp α) (ridx : List Nat)
    (hi : i < s.shape.length) (hlen : ridx.length + 1 = s.shape.length)
    (hents : ∀ e ∈ s.ents, e.1.length = s.shape.length)
    (hz : z < 0) (hz' : 0 ≤ z + (s.shape.getD i 0 : Nat)) :
    ∃ s', getitemStep i (normIx true (s.shape.getD i 0) (.int z)) s = .ok s' ∧ s'.shape = s.shape.eraseIdx i ∧
      densify s'.ents ridx = densify s.ents (ridx.insertIdx i (z + (s.shape.getD i 0 : Nat)).toNat) := by
  have h : normIx true (s.shape.getD i 0) (.int z) = .int (((z + (s.shape.getD i 0 : Nat)).toNat : Nat) : Int) := by
    simp only [normIx, hz, Bool.true_and, decide_true, if_true]
    rw [Int.toNat_of_nonneg hz']
  rw [h]
  exact _root_.LinOp.C20.sparse_getitem_int_def i _ s ridx hi hlen hents

/-- Statement about the PREVIOUS code (before fix 826dae6, defect D31; `fixed = false`): a negative integer matched no
stored index (`0` instead of the last entry `2`). -/
theorem previous_code_D31_negative_int_selected_nothing :
    spVal (sparseGetitem false ⟨[3], [([1], 1), ([2], 2)]⟩ [.int (-1)]) = some 0 ∧
    spVal (sparseGetitem true ⟨[3], [([1], 1), ([2], 2)]⟩ [.int (-1)]) = some 2 := by
  decide

/-- block-diagonal flattening of `bdsmm` (row += b·rows, col += b·cols, b the flat batch index): row `b·rows + i` of the
2-D product sees exactly the entries of batch `b`, row `i`, against the rows `b·cols + j` of the flattened dense operand. -/
theorem blockdiag_spmm {α : Type} [CommRing α] (bshape : List Nat) (numRows numCols : Nat) (ents : Ents α) (d2 : Nat → Nat → α)
    (fb i c : Nat) (hi : i < numRows)
    (hents : ∀ e ∈ ents, e.1.getD bshape.length 0 < numRows ∧ e.1.getD (bshape.length + 1) 0 < numCols) :
    spmm (blockDiagEnts bshape numRows numCols ents) d2 (fb * numRows + i) c =
      spmm ((ents.filter fun e => flat bshape (e.1.take bshape.length) = fb ∧ e.1.getD bshape.length 0 = i)
              |>.map fun e => ([e.1.getD bshape.length 0, e.1.getD (bshape.length + 1) 0], e.2))
           (fun j c => d2 (fb * numCols + j) c) i c :=
  _root_.LinOp.C20.blockdiag_spmm bshape numRows numCols ents d2 fb i c hi hents

/-- `bdsmm`, unbatched branch: `S D` with `S = densify(sparse)`. -/
theorem bdsmm_2d_def {α : Type} [CommRing α] (fixed : Bool) (s : Sp α) (d : Tn α) (m n p : Nat)
    (hs : s.shape = [m, n]) (hd : d.shape = [n, p])
    (hents : ∀ e ∈ s.ents, e.1.length = 2 ∧ e.1.getD 1 0 < n) :
    ∃ t, bdsmm fixed s d = .ok t ∧ t.shape = [m, p] ∧
      ∀ i c, t.get [i, c] = sumN n fun j => densify s.ents [i, j] * d.get [j, c] := by
  refine ⟨⟨[m, p], fun o => spmm s.ents (fun j c => d.get [j, c]) (o.getD 0 0) (o.getD 1 0)⟩, ?_, rfl, ?_⟩
  · simp [bdsmm, hs, hd]
  · intro i c
    exact _root_.LinOp.C20.spmm_def s.ents (fun j c => d.get [j, c]) i c n hents

/-- `DSMM.backward`, unbatched: the gradient w.r.t. the dense operand is `Sᵀ · grad_output`
(`bdsmm(sparse.mT, grad)` with the transposed entry list). -/
theorem dsmm_backward_2d_def {α : Type} [CommRing α] (fixed : Bool) (s : Sp α) (g : Tn α) (m n p : Nat)
    (hs : s.shape = [m, n]) (hg : g.shape = [m, p])
    (hents : ∀ e ∈ s.ents, e.1.length = 2 ∧ e.1.getD 0 0 < m) :
    ∃ t, dsmmBackward fixed s g = .ok t ∧ t.shape = [n, p] ∧
      ∀ j c, t.get [j, c] = sumN m fun i => densify s.ents [i, j] * g.get [i, c] :=
  _root_.LinOp.C20.dsmm_backward_2d_def fixed s g m n p hs hg hents


/-- `stable_qr` for EVERY shape of `R` (`k × n2`, tall, square or fat): it succeeds and returns `R` with the jitter added on
the diagonal only (`stableQrR`; unchanged when no pivot is near zero) — so `stable_qr_contract` / `_diag_bound` apply. -/
theorem stable_qr_any_shape_def {α : Type} [Field α] [LinearOrder α] [IsStrictOrderedRing α] (eps : α) (k n2 : Nat) (R : M α) :
    stableQr true eps k n2 R = .ok (stableQrR eps k R) := by
  unfold stableQr
  simp only
  by_cases h : ((List.range k).any fun i => decide ((if R i i < 0 then -R i i else R i i) < eps)) = true
  · simp [h]
  · have hnone : ∀ i, i < k → ¬ ((if R i i < 0 then -R i i else R i i) < eps) := by
      intro i hi hlt
      apply h
      rw [List.any_eq_true]
      exact ⟨i, List.mem_range.mpr hi, by simpa using hlt⟩
    rw [_root_.LinOp.C20.stable_qr_noop eps k R hnone]
    simp [h]

/-- Statement about the PREVIOUS code (before fix 64f3bec, defect D32; `fixed = false`): on a fat `R` (1 × 3, zero pivot,
`eps = 1`) the jitter was added to the whole row; on a 2 × 3 `R` with a zero pivot it raised. -/
theorem previous_code_D32_fat_jitter_wrong :
    (match stableQr (α := Int) false 1 1 3 (fun _ b => [0, 5, 7].getD b 0) with
      | .ok R => [R 0 0, R 0 1, R 0 2] | .error _ => []) = [1, 6, 8] ∧
    (match stableQr (α := Int) true 1 1 3 (fun _ b => [0, 5, 7].getD b 0) with
      | .ok R => [R 0 0, R 0 1, R 0 2] | .error _ => []) = [1, 5, 7] ∧
    isErr (stableQr (α := Int) false 1 2 3 (fun a b => if a = b then 0 else 4)) = true := by
  decide

/-- … and agreed with the current code on tall / square `R` (`n2 = k`). -/
theorem previous_code_D32_agreed_on_square_R {α : Type} [Field α] [LinearOrder α] (eps : α) (k : Nat) (R : M α) :
    stableQr false eps k k R = stableQr true eps k k R := by
  simp [stableQr]

/-! ### round 3: adjointness, multi-step indexing, batched products -/

/-- `left_interp` and `left_t_interp` are adjoint: `⟨W x, y⟩ = ⟨x, Wᵀ y⟩` for every number of rows `R`, columns `n` and
interpolation points per row `K` (repeated indices allowed; only `idx[r,k] < n` is assumed). -/
theorem interp_adjoint {α : Type} [CommRing α] (R K n : Nat) (idx : Nat → Nat → Nat) (val : Nat → Nat → α) (x y : Nat → α)
    (h : ∀ r, r < R → ∀ k, k < K → idx r k < n) :
    sumN R (fun r => leftInterpCore K idx val x r * y r) =
      sumN n (fun c => x c * leftTInterpCore R K idx val y c) :=
  _root_.LinOp.C20.interp_adjoint R K n idx val x y h

-- satisfiable with repeated indices: two rows, both points of row 0 hit column 1
example : ∀ r, r < 2 → ∀ k, k < 2 → (fun r k => if r = 0 then 1 else k) r k < 2 := by
  intro r _ k hk; by_cases h : r = 0 <;> simp [h] <;> omega

/-- `sparse_getitem` applied item by item (any list of (position, item) steps, in processing order) equals ONE multi-index
selection: the final tensor at `r` is the operand at `liftLoop items shape r` (ints inserted, slice starts added), its shape is
`shapeLoop items shape`, and every intermediate entry list stays well-formed.  `LoopOk` asks that each position is in range, ints
are non-negative, slices have step 1 and `r` lies inside every slice. -/
theorem getitem_loop_def {α : Type} [AddCommMonoid α] (items : List (Nat × Ix)) (s : Sp α) (r : List Nat)
    (hents : ∀ e ∈ s.ents, e.1.length = s.shape.length) (hok : LoopOk items s.shape r) :
    ∃ s', getitemLoop items s = .ok s' ∧ s'.shape = shapeLoop items s.shape ∧
      (∀ e ∈ s'.ents, e.1.length = s'.shape.length) ∧
      densify s'.ents r = densify s.ents (liftLoop items s.shape r) :=
  _root_.LinOp.C20.getitem_loop_def items s r hents hok

example : LoopOk [(1, Ix.slice (some 1) none none), (0, Ix.int 2)] [3, 4] [2] := by
  simp [LoopOk, StepOk, liftLoop, liftStep, shapeStep, sliceBound]

/-- the public function on a 2-D tensor, `S[a0:b0, a1:b1]` (processed last position first): entry `(j0, j1)` is `S[a0+j0, a1+j1]`. -/
theorem sparse_getitem_slice_slice_def {α : Type} [AddCommMonoid α] (s : Sp α) (m n : Nat) (hs : s.shape = [m, n])
    (hents : ∀ e ∈ s.ents, e.1.length = 2) (a0 b0 a1 b1 : Option Int) (j0 j1 : Nat)
    (h0 : sliceBound m a0 0 + j0 < sliceBound m b0 m) (h1 : sliceBound n a1 0 + j1 < sliceBound n b1 n) :
    ∃ t, sparseGetitem true s [.slice a0 b0 none, .slice a1 b1 none] = .ok (.inr t) ∧
      t.shape = [sliceBound m b0 m - sliceBound m a0 0, sliceBound n b1 n - sliceBound n a1 0] ∧
      densify t.ents [j0, j1] = densify s.ents [sliceBound m a0 0 + j0, sliceBound n a1 0 + j1] :=
  _root_.LinOp.C20.sparse_getitem_slice_slice_def s m n hs hents a0 b0 a1 b1 j0 j1 h0 h1

/-- `S[z, a1:b1]`. -/
theorem sparse_getitem_int_slice_def {α : Type} [AddCommMonoid α] (s : Sp α) (m n : Nat) (hs : s.shape = [m, n])
    (hents : ∀ e ∈ s.ents, e.1.length = 2) (z : Nat) (a1 b1 : Option Int) (j1 : Nat)
    (h1 : sliceBound n a1 0 + j1 < sliceBound n b1 n) :
    ∃ t, sparseGetitem true s [.int z, .slice a1 b1 none] = .ok (.inr t) ∧
      t.shape = [sliceBound n b1 n - sliceBound n a1 0] ∧
      densify t.ents [j1] = densify s.ents [z, sliceBound n a1 0 + j1] :=
  _root_.LinOp.C20.sparse_getitem_int_slice_def s m n hs hents z a1 b1 j1 h1

/-- `S[a0:b0, z]`. -/
theorem sparse_getitem_slice_int_def {α : Type} [AddCommMonoid α] (s : Sp α) (m n : Nat) (hs : s.shape = [m, n])
    (hents : ∀ e ∈ s.ents, e.1.length = 2) (a0 b0 : Option Int) (z : Nat) (j0 : Nat)
    (h0 : sliceBound m a0 0 + j0 < sliceBound m b0 m) :
    ∃ t, sparseGetitem true s [.slice a0 b0 none, .int z] = .ok (.inr t) ∧
      t.shape = [sliceBound m b0 m - sliceBound m a0 0] ∧
      densify t.ents [j0] = densify s.ents [sliceBound m a0 0 + j0, z] :=
  _root_.LinOp.C20.sparse_getitem_slice_int_def s m n hs hents a0 b0 z j0 h0

/-- `S[z0, z1]`: the returned scalar `sum(values)` is the dense entry (0 when nothing is stored there). -/
theorem sparse_getitem_int_int_def {α : Type} [AddCommMonoid α] (s : Sp α) (m n : Nat) (hs : s.shape = [m, n])
    (hents : ∀ e ∈ s.ents, e.1.length = 2) (z0 z1 : Nat) :
    sparseGetitem true s [.int z0, .int z1] = .ok (.inl (densify s.ents [z0, z1])) :=
  _root_.LinOp.C20.sparse_getitem_int_int_def s m n hs hents z0 z1

/-- `bdsmm`, 2-D sparse × batched dense (the `(rows, batch·cols)` view), EVERY batch shape: `out[b] = S · D[b]`. -/
theorem bdsmm_2d_batched_def {α : Type} [CommRing α] (fixed : Bool) (s : Sp α) (d : Tn α) (bshape : List Nat) (m n p : Nat)
    (hb : bshape ≠ []) (hs : s.shape = [m, n]) (hd : d.shape = bshape ++ [n, p])
    (hents : ∀ e ∈ s.ents, e.1.length = 2 ∧ e.1.getD 1 0 < n)
    (b : List Nat) (hbox : InBox b bshape) (i c : Nat) (hc : c < p) :
    ∃ t, bdsmm fixed s d = .ok t ∧ t.shape = bshape ++ [m, p] ∧
      t.get (b ++ [i, c]) = sumN n fun j => densify s.ents [i, j] * d.get (b ++ [j, c]) :=
  _root_.LinOp.C20.bdsmm_2d_batched_def fixed s d bshape m n p hb hs hd hents b hbox i c hc

/-- `bdsmm`, batched sparse × batched dense of the same batch shape (block-diagonal flattening through the flat batch index,
no repetition needed), EVERY batch shape: `out[b] = S[b] · D[b]` — the whole function, not only the flattening lemma. -/
theorem bdsmm_batched_def {α : Type} [CommRing α] (s : Sp α) (d : Tn α) (bshape : List Nat) (m n p : Nat)
    (hb : bshape ≠ []) (hs : s.shape = bshape ++ [m, n]) (hd : d.shape = bshape ++ [n, p])
    (hents : ∀ e ∈ s.ents, e.1.length = bshape.length + 2 ∧ InBox (e.1.take bshape.length) bshape ∧
               e.1.getD bshape.length 0 < m ∧ e.1.getD (bshape.length + 1) 0 < n)
    (b : List Nat) (hbox : InBox b bshape) (i c : Nat) (hi : i < m) :
    ∃ t, bdsmm true s d = .ok t ∧ t.shape = bshape ++ [m, p] ∧
      t.get (b ++ [i, c]) = sumN n fun j => densify s.ents (b ++ [i, j]) * d.get (b ++ [j, c]) :=
  _root_.LinOp.C20.bdsmm_batched_def s d bshape m n p hb hs hd hents b hbox i c hi

/-- `bdsmm`, batched sparse × UNBATCHED dense (dense operand broadcast over the batch), EVERY batch shape: `out[b] = S[b] · D`. -/
theorem bdsmm_batched_dense2d_def {α : Type} [CommRing α] (s : Sp α) (d : Tn α) (bshape : List Nat) (m n p : Nat)
    (hb : bshape ≠ []) (hs : s.shape = bshape ++ [m, n]) (hd : d.shape = [n, p])
    (hents : ∀ e ∈ s.ents, e.1.length = bshape.length + 2 ∧ InBox (e.1.take bshape.length) bshape ∧
               e.1.getD bshape.length 0 < m ∧ e.1.getD (bshape.length + 1) 0 < n)
    (b : List Nat) (hbox : InBox b bshape) (i c : Nat) (hi : i < m) :
    ∃ t, bdsmm true s d = .ok t ∧ t.shape = bshape ++ [m, p] ∧
      t.get (b ++ [i, c]) = sumN n fun j => densify s.ents (b ++ [i, j]) * d.get [j, c] :=
  _root_.LinOp.C20.bdsmm_batched_dense2d_def s d bshape m n p hb hs hd hents b hbox i c hi

example : InBox [1, 2] [2, 3] := by
  refine List.Forall₂.cons (by omega) (List.Forall₂.cons (by omega) List.Forall₂.nil)



/-! ## Extension session 5 -/

/-- `sparse_repeat`: the loop `for i, repeat_size in enumerate(repeat_sizes)` (current code) over ANY list of repeat sizes, started
at any dimension `i`: entry `idx` of the result is the original entry with positions `i … i+len-1` reduced modulo the original
sizes (induction over the list of repeat sizes; the step is `sparse_repeat_def`). -/
theorem repeat_loop_def {α : Type} [AddCommMonoid α] (reps : List Nat) (i : Nat) (s : Sp α) (idx : List Nat)
    (hi : i + reps.length ≤ s.shape.length) (hlen : idx.length = s.shape.length) (hbox : EntsInBox s)
    (hidx : ∀ k, k < reps.length → idx.getD (i + k) 0 < reps.getD k 0 * s.shape.getD (i + k) 0) :
    densify (repeatLoop true i reps s).ents idx = densify s.ents (modAt i reps.length s.shape idx) :=
  _root_.LinOp.C20.repeat_loop_def reps i s idx hi hlen hbox hidx

/-- `sparse_repeat(sparse, *repeat_sizes)` with one repeat size per dimension — ANY rank, ANY repeat sizes, several repeated
dimensions of any size: the dense `repeat`, `out[idx] = sparse[idx mod shape]`. -/
theorem sparse_repeat_fold_def {α : Type} [AddCommMonoid α] (s : Sp α) (reps idx : List Nat)
    (hr : reps.length = s.shape.length) (hlen : idx.length = s.shape.length) (hbox : EntsInBox s)
    (hidx : ∀ k, k < reps.length → idx.getD k 0 < reps.getD k 0 * s.shape.getD k 0) :
    densify (sparseRepeat true s reps).ents idx = densify s.ents (modAt 0 s.shape.length s.shape idx) :=
  _root_.LinOp.C20.sparse_repeat_fold_def s reps idx hr hlen hbox hidx

example : EntsInBox (⟨[2, 1, 2], [([1, 0, 1], 5), ([0, 0, 0], 7)]⟩ : Sp Int) ∧
    densify (sparseRepeat true (⟨[2, 1, 2], [([1, 0, 1], 5), ([0, 0, 0], 7)]⟩ : Sp Int) [2, 3, 1]).ents [3, 2, 1] = 5 ∧
    modAt 0 3 [2, 1, 2] [3, 2, 1] = [1, 0, 1] := by
  refine ⟨by unfold EntsInBox; decide, by decide, by decide⟩

/-- the flattened product of `bdsmm`'s first branch for ANY flattened dense operand: row `flat(b)·m + i` of
`blockdiag(S) · dense2` is `Σ_j S[b,i,j] · dense2[flat(b)·n + j]`. -/
theorem blockdiag_batch_core {α : Type} [CommRing α] (ents : Ents α) (bshape : List Nat) (m n : Nat) (dense2 : Nat → Nat → α)
    (hents : BatchedEntsOk ents bshape m n) (b : List Nat) (hbox : InBox b bshape) (i c : Nat) (hi : i < m) :
    spmm (blockDiagEnts bshape m n ents) dense2 (flat bshape b * m + i) c
      = sumN n fun j => densify ents (b ++ [i, j]) * dense2 (flat bshape b * n + j) c :=
  _root_.LinOp.C20.blockdiag_batch_core ents bshape m n dense2 hents b hbox i c hi

/-- `bdsmm`, first branch, ANY sparse batch shape × ANY dense batch shape accepted by `_matmul_broadcast_shape` (different ranks,
size-1 dimensions on either side): the result at batch index `b` of the broadcast batch shape is `S'[b] · D[restrict b]`, where
`S' = sparse_repeat(sparse, *repeat_sizes)` with exactly the repeat sizes the code computes (`bdsmmReps`; `S'` itself is
characterised by `sparse_repeat_fold_def` / `repeat_loop_def`) and the dense operand is read with `expand` semantics. -/
theorem bdsmm_bcast_def {α : Type} [CommRing α] (s : Sp α) (d : Tn α) (bshape db : List Nat) (m n p : Nat)
    (hsl : s.shape.length > 2) (hd : d.shape = db ++ [n, p])
    (hmb : matmulBroadcastShape s.shape d.shape = .ok (bshape ++ [m, p]))
    (hs' : (sparseRepeat true s (bdsmmReps s.shape (bshape ++ [m, p]))).shape = bshape ++ [m, n])
    (hents : BatchedEntsOk (sparseRepeat true s (bdsmmReps s.shape (bshape ++ [m, p]))).ents bshape m n)
    (b : List Nat) (hbox : InBox b bshape) (i c : Nat) (hi : i < m) (hn : 0 < n) :
    ∃ t, bdsmm true s d = .ok t ∧ t.shape = bshape ++ [m, p] ∧
      t.get (b ++ [i, c]) = sumN n fun j =>
        densify (sparseRepeat true s (bdsmmReps s.shape (bshape ++ [m, p]))).ents (b ++ [i, j])
          * d.get (restrictIdx db b ++ [j, c]) :=
  _root_.LinOp.C20.bdsmm_bcast_def s d bshape db m n p hsl hd hmb hs' hents b hbox i c hi hn

/-- satisfiable: sparse batch `(1,)` against dense batch `(3,)` — the size-1 dimension is repeated 3 times -/
example : matmulBroadcastShape [1, 2, 2] [3, 2, 1] = .ok ([3] ++ [2, 1]) ∧ bdsmmReps [1, 2, 2] ([3] ++ [2, 1]) = [3, 1, 1] ∧
    (sparseRepeat true (⟨[1, 2, 2], [([0, 1, 0], 4)]⟩ : Sp Int) [3, 1, 1]).shape = [3] ++ [2, 2] := by decide

/-- `sparse_repeat` (current code; any repeat sizes, with or without new leading dimensions) keeps every stored index tuple inside
the box of the result's shape — the invariant that makes the repeated tensor a legal operand of the block-diagonal flattening. -/
theorem sparse_repeat_inBox {α : Type} (s : Sp α) (reps : List Nat) (hr : s.shape.length ≤ reps.length) (h : EntsInBox s) :
    EntsInBox (sparseRepeat true s reps) :=
  _root_.LinOp.C20.sparse_repeat_inBox s reps hr h

/-- `bdsmm`, first branch, ANY sparse batch shape × ANY dense batch shape, with well-formedness required of the ORIGINAL sparse
operand only (entries inside the box of its own shape; the invariant is carried through `sparse_repeat` by `sparse_repeat_inBox`):
`out[b] = S'[b] · D[restrict b]`. -/
theorem bdsmm_bcast_wf_def {α : Type} [CommRing α] (s : Sp α) (d : Tn α) (bshape db : List Nat) (m n p : Nat)
    (hsl : s.shape.length > 2) (hd : d.shape = db ++ [n, p])
    (hmb : matmulBroadcastShape s.shape d.shape = .ok (bshape ++ [m, p]))
    (hrank : s.shape.length ≤ bshape.length + 2)
    (hs' : (sparseRepeat true s (bdsmmReps s.shape (bshape ++ [m, p]))).shape = bshape ++ [m, n])
    (hbox : EntsInBox s)
    (b : List Nat) (hb : InBox b bshape) (i c : Nat) (hi : i < m) (hn : 0 < n) :
    ∃ t, bdsmm true s d = .ok t ∧ t.shape = bshape ++ [m, p] ∧
      t.get (b ++ [i, c]) = sumN n fun j =>
        densify (sparseRepeat true s (bdsmmReps s.shape (bshape ++ [m, p]))).ents (b ++ [i, j])
          * d.get (restrictIdx db b ++ [j, c]) :=
  _root_.LinOp.C20.bdsmm_bcast_wf_def s d bshape db m n p hsl hd hmb hrank hs' hbox b hb i c hi hn

/-- satisfiable: sparse batch `(2,)` against dense batch `(3, 1)` — one new leading dimension, repeated 3 times -/
example : matmulBroadcastShape [2, 2, 2] [3, 1, 2, 1] = .ok ([3, 2] ++ [2, 1]) ∧ bdsmmReps [2, 2, 2] ([3, 2] ++ [2, 1]) = [3, 1, 1, 1] ∧
    (sparseRepeat true (⟨[2, 2, 2], [([1, 1, 0], 4)]⟩ : Sp Int) [3, 1, 1, 1]).shape = [3, 2] ++ [2, 2] ∧
    densify (sparseRepeat true (⟨[2, 2, 2], [([1, 1, 0], 4)]⟩ : Sp Int) [3, 1, 1, 1]).ents ([2, 1] ++ [1, 0]) = 4 := by decide

/-- **`bdsmm` with broadcasting, end to end.**  For a batched sparse operand of shape `(sb…, m, n)` and a dense operand of shape
`(db…, n, p)`: if the code's own `_matmul_broadcast_shape` accepts the shapes with broadcast batch shape `bshape` (non-empty batch,
`m, n > 0`) and the stored indices of the sparse operand are inside its shape, then `bdsmm` returns a tensor of shape `(bshape…, m, p)` with
`out[b, i, c] = Σ_j S[(b right-aligned) mod sb, i, j] · D[restrict b, j, c]` — missing leading sparse batch dimensions and sparse batch
dimensions of size 1 are broadcast, i.e. `torch.matmul(sparse.to_dense(), dense)`.  No hypothesis on how the two batch shapes relate
is needed beyond the success of the shape function (`broadcastShapes_spec` derives the broadcast relation from it). -/
theorem bdsmm_broadcast_def {α : Type} [CommRing α] (s : Sp α) (d : Tn α) (sb bshape db : List Nat) (m n p : Nat)
    (hsb : sb ≠ []) (hs : s.shape = sb ++ [m, n]) (hd : d.shape = db ++ [n, p])
    (hmb : matmulBroadcastShape s.shape d.shape = .ok (bshape ++ [m, p]))
    (hpos : ∀ o ∈ bshape, 0 < o) (hbox : EntsInBox s)
    (b : List Nat) (hb : InBox b bshape) (i c : Nat) (hi : i < m) (hn : 0 < n) :
    ∃ t, bdsmm true s d = .ok t ∧ t.shape = bshape ++ [m, p] ∧
      t.get (b ++ [i, c]) = sumN n fun j =>
        densify s.ents (List.zipWith (· % ·) ((b ++ [i, j]).drop (bshape.length - sb.length)) s.shape)
          * d.get (restrictIdx db b ++ [j, c]) :=
  _root_.LinOp.C20.bdsmm_broadcast_def s d sb bshape db m n p hsb hs hd hmb hpos hbox b hb i c hi hn

/-- satisfiable and non-trivial: sparse batch `(1, 2)` × dense batch `(3, 1)` (both sides are broadcast) -/
example : matmulBroadcastShape ([1, 2] ++ [2, 2]) ([3, 1] ++ [2, 1]) = .ok ([3, 2] ++ [2, 1]) ∧ (∀ o ∈ [3, 2], 0 < o) ∧
    List.zipWith (· % ·) (([2, 1] ++ [1, 0]).drop ([3, 2].length - [1, 2].length)) ([1, 2] ++ [2, 2]) = [0, 1, 1, 0] ∧
    restrictIdx [3, 1] [2, 1] = [2, 0] := by decide

/-- `bdsmm`, batched sparse × dense with GENUINELY DIFFERENT batch shapes (sparse batch of lower rank than the output batch,
size-1 sparse batch dimensions repeated, dense batch broadcast independently) — the whole function composed end to end:
`_matmul_broadcast_shape`, the repeat sizes `output_size // sparse_size`, `sparse_repeat` (new leading dimensions + its loop,
`repeat_loop_def`), the block-diagonal flattening (`blockdiag_batch_core`), the flattened expanded dense operand, `torch.dsmm`'s
contract and the final `view`: `out[b,i,c] = Σ_j S[(b right-aligned) mod sparse batch shape, i, j] · D[restrict b, j, c]` for every
non-empty batch shape.  `BcTo` says that every (right-aligned, padded) sparse size equals the output size or is 1. -/
theorem bdsmm_general_def {α : Type} [CommRing α] (s : Sp α) (d : Tn α) (sb bshape db : List Nat) (m n p : Nat)
    (hsb : sb ≠ []) (hs : s.shape = sb ++ [m, n]) (hd : d.shape = db ++ [n, p])
    (hmb : matmulBroadcastShape s.shape d.shape = .ok (bshape ++ [m, p]))
    (hle : sb.length ≤ bshape.length)
    (hbc : BcTo (List.replicate (bshape.length - sb.length) 1 ++ (sb ++ [m, n])) (bshape ++ [m, n]))
    (hbox : EntsInBox s)
    (b : List Nat) (hb : InBox b bshape) (i c : Nat) (hi : i < m) (hn : 0 < n) :
    ∃ t, bdsmm true s d = .ok t ∧ t.shape = bshape ++ [m, p] ∧
      t.get (b ++ [i, c]) = sumN n fun j =>
        densify s.ents (List.zipWith (· % ·) ((b ++ [i, j]).drop (bshape.length - sb.length)) s.shape)
          * d.get (restrictIdx db b ++ [j, c]) :=
  _root_.LinOp.C20.bdsmm_general_def s d sb bshape db m n p hsb hs hd hmb hle hbc hbox b hb i c hi hn

/-- satisfiable: sparse batch `(1,)` (padded to `(1, 1)`) against the output batch `(3, 2)` produced by a dense batch `(3, 2)` -/
example : BcTo (List.replicate ([3, 2].length - [1].length) 1 ++ ([1] ++ [2, 2])) ([3, 2] ++ [2, 2]) ∧
    matmulBroadcastShape ([1] ++ [2, 2]) ([3, 2] ++ [2, 5]) = .ok ([3, 2] ++ [2, 5]) ∧
    List.zipWith (· % ·) (([2, 1] ++ [1, 0]).drop ([3, 2].length - [1].length)) ([1] ++ [2, 2]) = [0, 1, 0] := by
  refine ⟨?_, by decide, by decide⟩
  exact List.Forall₂.cons ⟨Or.inr rfl, by decide⟩ (List.Forall₂.cons ⟨Or.inr rfl, by decide⟩
    (List.Forall₂.cons ⟨Or.inl rfl, by decide⟩ (List.Forall₂.cons ⟨Or.inl rfl, by decide⟩ List.Forall₂.nil)))

/-- `bdsmm`, sparse operand with the full output batch shape × dense operand of ANY batch shape that broadcasts to it (fewer
dimensions, size-1 dimensions, none): `out[b] = S[b] · D[restrict b]` for every batch shape.  Generalises `bdsmm_batched_def`
and `bdsmm_batched_dense2d_def`. -/
theorem bdsmm_bcast_dense_def {α : Type} [CommRing α] (s : Sp α) (d : Tn α) (bshape db : List Nat) (m n p : Nat)
    (hb : bshape ≠ []) (hs : s.shape = bshape ++ [m, n]) (hd : d.shape = db ++ [n, p])
    (hmb : matmulBroadcastShape (bshape ++ [m, n]) (db ++ [n, p]) = .ok (bshape ++ [m, p]))
    (hents : BatchedEntsOk s.ents bshape m n)
    (b : List Nat) (hbox : InBox b bshape) (i c : Nat) (hi : i < m) (hn : 0 < n) :
    ∃ t, bdsmm true s d = .ok t ∧ t.shape = bshape ++ [m, p] ∧
      t.get (b ++ [i, c]) = sumN n fun j => densify s.ents (b ++ [i, j]) * d.get (restrictIdx db b ++ [j, c]) :=
  _root_.LinOp.C20.bdsmm_bcast_dense_def s d bshape db m n p hb hs hd hmb hents b hbox i c hi hn

example : matmulBroadcastShape ([2, 3] ++ [2, 2]) ([3] ++ [2, 1]) = .ok ([2, 3] ++ [2, 1]) ∧
    matmulBroadcastShape ([2, 3] ++ [2, 2]) ([2, 1] ++ [2, 1]) = .ok ([2, 3] ++ [2, 1]) ∧ restrictIdx [2, 1] [1, 2] = [1, 0] := by decide

/-- **`DSMM.backward` with broadcasting.**  For a batched sparse operand of shape `(sb…, m, n)` and a cotangent of shape `(gb…, m, p)`
whose batch shapes broadcast (the code's `_matmul_broadcast_shape` on the TRANSPOSED sparse shape succeeds, non-empty batch): the returned
gradient `bdsmm(sparse.mT, grad_output)` has shape `(bshape…, n, p)` and
`grad[b, j, c] = Σ_i S[(b right-aligned) mod sb, i, j] · grad_output[restrict b, i, c]` — `Sᵀ · grad_output` per broadcast batch member
(autograd's sum-reduction to the dense operand's shape happens outside the library). -/
theorem dsmm_backward_broadcast_def {α : Type} [CommRing α] (s : Sp α) (g : Tn α) (sb bshape gb : List Nat) (m n p : Nat)
    (hsb : sb ≠ []) (hs : s.shape = sb ++ [m, n]) (hg : g.shape = gb ++ [m, p])
    (hmb : matmulBroadcastShape (sb ++ [n, m]) g.shape = .ok (bshape ++ [n, p]))
    (hpos : ∀ o ∈ bshape, 0 < o) (hbox : EntsInBox s)
    (b : List Nat) (hb : InBox b bshape) (j c : Nat) (hj : j < n) (hm : 0 < m) :
    ∃ t, dsmmBackward true s g = .ok t ∧ t.shape = bshape ++ [n, p] ∧
      t.get (b ++ [j, c]) = sumN m fun i =>
        densify s.ents (List.zipWith (· % ·) (b.drop (bshape.length - sb.length)) sb ++ [i, j])
          * g.get (restrictIdx gb b ++ [i, c]) :=
  _root_.LinOp.C20.dsmm_backward_broadcast_def s g sb bshape gb m n p hsb hs hg hmb hpos hbox b hb j c hj hm

example : matmulBroadcastShape ([2] ++ [3, 2]) ([3, 1] ++ [2, 4]) = .ok ([3, 2] ++ [3, 4]) ∧
    List.zipWith (· % ·) (([2, 1] : List Nat).drop ([3, 2].length - [2].length)) [2] ++ [1, 2] = [1, 1, 2] := by decide

/-- `DSMM.backward` for a batched sparse operand and a cotangent of the same batch shape, EVERY batch shape: the gradient
w.r.t. the dense operand is `S[b]ᵀ · grad[b]`. -/
theorem dsmm_backward_batched_def {α : Type} [CommRing α] (s : Sp α) (g : Tn α) (bshape : List Nat) (m n p : Nat)
    (hb : bshape ≠ []) (hs : s.shape = bshape ++ [m, n]) (hg : g.shape = bshape ++ [m, p])
    (hents : BatchedEntsOk s.ents bshape m n)
    (b : List Nat) (hbox : InBox b bshape) (j c : Nat) (hj : j < n) :
    ∃ t, dsmmBackward true s g = .ok t ∧ t.shape = bshape ++ [n, p] ∧
      t.get (b ++ [j, c]) = sumN m fun i => densify s.ents (b ++ [i, j]) * g.get (b ++ [i, c]) :=
  _root_.LinOp.C20.dsmm_backward_batched_def s g bshape m n p hb hs hg hents b hbox j c hj

/-- the first branch of `bdsmm` factors through its intermediate state (`sparse_2d`, `dense_2d`): the objects compared by the
`bdsmm_flat` correspondence cells are the ones the result is computed from. -/
theorem bdsmm_eq_flat {α : Type} [Add α] [Zero α] [Mul α] (s : Sp α) (d : Tn α) (hsl : s.shape.length > 2) :
    bdsmm true s d = (bdsmmFlat s d).map bdsmmUnflat :=
  _root_.LinOp.C20.bdsmm_eq_flat s d hsl

/-- `toeplitz_getitem` on arbitrary ints depends on `i - j` only (negative / beyond-`n` indices). -/
theorem toeplitz_getitem_shift {α : Type} (n : Nat) (c r : Nat → α) (i j o : Int) :
    toeplitzGetitemZ n c r (i + o) (j + o) = toeplitzGetitemZ n c r i j :=
  _root_.LinOp.C20.toeplitz_getitem_shift n c r i j o

/-- `toeplitz_getitem` on arbitrary ints: the Toeplitz entry by difference when `|i - j| < n`, `IndexError` otherwise. -/
theorem toeplitz_getitem_int_def {α : Type} (n : Nat) (c r : Nat → α) (i j : Int) :
    toeplitzGetitemZ n c r i j =
      if (i - j).natAbs < n then .ok (if j ≤ i then c (i - j).toNat else r (j - i).toNat) else .error "IndexError" :=
  _root_.LinOp.C20.toeplitz_getitem_int_def n c r i j

/-- inside the matrix the integer version is `toeplitz_getitem_def`'s function. -/
theorem toeplitz_getitem_nat {α : Type} (n : Nat) (c r : Nat → α) (i j : Nat) (hi : i < n) (hj : j < n) :
    toeplitzGetitemZ n c r i j = .ok (toeplitzGetitem c r i j) :=
  _root_.LinOp.C20.toeplitz_getitem_nat n c r i j hi hj

/-- `sym_toeplitz_derivative_quadratic_form(left, right)` for inputs of shape `(*batch, m, s)` with ANY number of leading batch
dimensions: the result has shape `(*batch, m)` and entry `(b, i)` is `Σ_j u_jᵀ (∂T/∂c_i) v_j` of batch member `b`. -/
theorem dqf_batched_def {α : Type} [CommRing α] (left right : Tn α) (bs : List Nat) (m s : Nat) (hm : 1 ≤ m)
    (hl : left.shape = bs ++ [m, s]) (b : List Nat) (hb : b.length = bs.length) (i : Nat) (hi : i < m) :
    (dqf left right).shape = bs ++ [m] ∧
    (dqf left right).get (b ++ [i]) =
      dqfSpec m s (fun j a => left.get (b ++ [a, j])) (fun j a => right.get (b ++ [a, j])) i :=
  _root_.LinOp.C20.dqf_batched_def left right bs m s hm hl b hb i hi

/-- the 1-D form of `sym_toeplitz_derivative_quadratic_form` (one pair of vectors of length `m`). -/
theorem dqf_vector_def {α : Type} [CommRing α] (left right : Tn α) (m : Nat) (hm : 1 ≤ m) (hl : left.shape = [m]) (i : Nat) (hi : i < m) :
    (dqf left right).shape = [m] ∧
    (dqf left right).get [i] = dqfSpec m 1 (fun _ a => left.get [a]) (fun _ a => right.get [a]) i :=
  _root_.LinOp.C20.dqf_vector_def left right m hm hl i hi

/-- `left_interp` — the WHOLE function for a matrix right-hand side with INDEPENDENTLY broadcast batch shapes of the index tensor,
the value tensor and the right-hand side (any ranks, size-1 dimensions): at batch index `b` of the broadcast batch shape the result
is `W[restrict b] · rhs[restrict b]` (duplicates within a row of indices add). -/
theorem left_interp_batched_def {α : Type} [CommRing α] (idx : Tn Nat) (val rhs : Tn α) (ib vb rb bshape : List Nat) (R K nd cols : Nat)
    (hi : idx.shape = ib ++ [R, K]) (hv : val.shape = vb ++ [R, K]) (hr : rhs.shape = rb ++ [nd, cols])
    (hmb : matmulBroadcastShape (ib ++ [R, nd]) (rb ++ [nd, cols]) = .ok (bshape ++ [R, cols]))
    (b : List Nat) (hb : b.length = bshape.length) (r c : Nat)
    (hidx : ∀ k, k < K → idx.get (restrictIdx ib b ++ [r, k]) < nd) :
    ∃ t, leftInterp idx val rhs = .ok t ∧ t.shape = bshape ++ [R, cols] ∧
      t.get (b ++ [r, c]) = sumN nd fun a =>
        interpW K (fun r k => idx.get (restrictIdx ib b ++ [r, k])) (fun r k => val.get (restrictIdx vb b ++ [r, k])) r a
          * rhs.get (restrictIdx rb b ++ [a, c]) :=
  _root_.LinOp.C20.left_interp_batched_def idx val rhs ib vb rb bshape R K nd cols hi hv hr hmb b hb r c hidx

/-- `left_t_interp` — the WHOLE function for a matrix right-hand side with independently broadcast batch shapes: at batch index `b`
the result is `W[restrict b]ᵀ · rhs[restrict b]`. -/
theorem left_t_interp_batched_def {α : Type} [CommRing α] (idx : Tn Nat) (val rhs : Tn α) (ib vb rb bshape : List Nat)
    (D K outDim cols : Nat)
    (hi : idx.shape = ib ++ [D, K]) (hv : val.shape = vb ++ [D, K]) (hr : rhs.shape = rb ++ [D, cols])
    (hmb : matmulBroadcastShape (ib ++ [outDim, D]) (rb ++ [D, cols]) = .ok (bshape ++ [outDim, cols]))
    (b : List Nat) (hb : b.length = bshape.length) (o c : Nat) :
    ∃ t, leftTInterp idx val rhs outDim = .ok t ∧ t.shape = bshape ++ [outDim, cols] ∧
      t.get (b ++ [o, c]) = sumN D fun d =>
        interpW K (fun d k => idx.get (restrictIdx ib b ++ [d, k])) (fun d k => val.get (restrictIdx vb b ++ [d, k])) d o
          * rhs.get (restrictIdx rb b ++ [d, c]) :=
  _root_.LinOp.C20.left_t_interp_batched_def idx val rhs ib vb rb bshape D K outDim cols hi hv hr hmb b hb o c

/-- satisfiable: interpolation batch `(2, 1)` against right-hand-side batch `(3,)` -/
example : matmulBroadcastShape ([2, 1] ++ [2, 3]) ([3] ++ [3, 2]) = .ok ([2, 3] ++ [2, 2]) ∧
    matmulBroadcastShape ([2, 1] ++ [5, 2]) ([3] ++ [2, 2]) = .ok ([2, 3] ++ [5, 2]) ∧ restrictIdx [2, 1] [1, 2] = [1, 0] ∧
    restrictIdx [3] [1, 2] = [2] := by decide

/-- `toeplitz_matmul(c, r, M)` / `sym_toeplitz_matmul(c, M)` — the WHOLE function with batch broadcasting (column / row of batch
shape `cb`, right-hand side of batch shape `xb`; any ranks, size-1 dimensions): shape check, `_matmul_broadcast_shape`, `expand`, the
first-element check over every member of the broadcast batch, circulant embedding, FFT contract, slice.  At batch index `b` the result
is `T[restrict b] · M[restrict b]`, for every `n ≥ 1` and every batch shape. -/
theorem toeplitz_matmul_batched_def {α : Type} [CommRing α] [DecidableEq α] (c r x : Tn α) (cb xb bshape : List Nat) (n p : Nat)
    (hn : 1 ≤ n) (hc : c.shape = cb ++ [n]) (hr : r.shape = cb ++ [n]) (hx : x.shape = xb ++ [n, p])
    (hmb : matmulBroadcastShape (cb ++ [n, n]) (xb ++ [n, p]) = .ok (bshape ++ [n, p]))
    (h0 : ∀ b' ∈ allIdx bshape, c.get (restrictIdx cb b' ++ [0]) = r.get (restrictIdx cb b' ++ [0])) :
    ∃ t, toeplitzMatmul true c r x = .ok t ∧ t.shape = bshape ++ [n, p] ∧
      ∀ (b : List Nat), b.length = bshape.length → ∀ i k, i < n →
        t.get (b ++ [i, k]) = sumN n fun j =>
          toeplitzEntry (fun a => c.get (restrictIdx cb b ++ [a])) (fun a => r.get (restrictIdx cb b ++ [a])) i j
            * x.get (restrictIdx xb b ++ [j, k]) :=
  _root_.LinOp.C20.toeplitz_matmul_batched_def c r x cb xb bshape n p hn hc hr hx hmb h0

example : matmulBroadcastShape ([2, 1] ++ [3, 3]) ([1, 3] ++ [3, 2]) = .ok ([2, 3] ++ [3, 2]) := by decide

/-- `apply_permutation(K, left, right)` — the WHOLE function with batched (partial) permutations whose batch shapes broadcast against
the matrix' batch shape (any ranks, size-1 dimensions, more batch dimensions than `K`): entry `(b, i, j)` of the result is
`K[restrict b][left[restrict b][i], right[restrict b][j]]`, i.e. `Π_l K Π_rᵀ` per batch member (with `apply_perm_def`). -/
theorem apply_perm_batched_def {α : Type} (K : Tn α) (l r : Tn Nat) (kb lb rb b1 bshape : List Nat) (m n nl nr : Nat)
    (hK : K.shape = kb ++ [m, n]) (hl : l.shape = lb ++ [nl]) (hr : r.shape = rb ++ [nr])
    (h1 : broadcastShapes kb lb = some b1) (h2 : broadcastShapes b1 rb = some bshape)
    (b : List Nat) (hb : b.length = bshape.length) (i j : Nat) :
    ∃ t, applyPerm K (some l) (some r) = .ok t ∧ t.shape = bshape ++ [nl, nr] ∧
      t.get (b ++ [i, j]) =
        K.get (restrictIdx kb b ++ [l.get (restrictIdx lb b ++ [i]), r.get (restrictIdx rb b ++ [j])]) :=
  _root_.LinOp.C20.apply_perm_batched_def K l r kb lb rb b1 bshape m n nl nr hK hl hr h1 h2 b hb i j

example : broadcastShapes [3] [2, 1] = some [2, 3] ∧ broadcastShapes [2, 3] [3] = some [2, 3] := by decide

/-- `inverse_permutation` on a batch of permutation vectors of shape `(*batch, n)`, ANY batch shape: `inv[b, p[b, i]] = i` for
every injective batch member. -/
theorem inverse_perm_batched_def (p : Tn Nat) (bs : List Nat) (n : Nat) (hp : p.shape = bs ++ [n]) (b : List Nat)
    (hinj : ∀ x y, x < n → y < n → p.get (b ++ [x]) = p.get (b ++ [y]) → x = y) (i : Nat) (hi : i < n) :
    (inversePerm p).shape = bs ++ [n] ∧ (inversePerm p).get (b ++ [p.get (b ++ [i])]) = i :=
  _root_.LinOp.C20.inverse_perm_batched_def p bs n hp b hinj i hi

/-- `toeplitz_matmul(c, r, v)` / `sym_toeplitz_matmul(c, v)` with a 1-D right-hand side and column / row of ANY batch shape `cb`: the
vector is unsqueezed, broadcast against every batch member and squeezed again — shape `(cb…, n)` and `out[b] = T[b] · v`, every `n ≥ 1`. -/
theorem toeplitz_matmul_vector_batched_def {α : Type} [CommRing α] [DecidableEq α] (c r x : Tn α) (cb : List Nat) (n : Nat) (hn : 1 ≤ n)
    (hc : c.shape = cb ++ [n]) (hr : r.shape = cb ++ [n]) (hx : x.shape = [n])
    (h0 : ∀ b' ∈ allIdx cb, c.get (restrictIdx cb b' ++ [0]) = r.get (restrictIdx cb b' ++ [0])) :
    ∃ t, toeplitzMatmul true c r x = .ok t ∧ t.shape = cb ++ [n] ∧
      ∀ (b : List Nat), b.length = cb.length → ∀ i, i < n →
        t.get (b ++ [i]) = sumN n fun j =>
          toeplitzEntry (fun a => c.get (restrictIdx cb b ++ [a])) (fun a => r.get (restrictIdx cb b ++ [a])) i j * x.get [j] :=
  _root_.LinOp.C20.toeplitz_matmul_vector_batched_def c r x cb n hn hc hr hx h0

/-- `left_interp` with a 1-D right-hand side (the `index_select` branch) and interpolation tensors of ANY batch shape: shape
`(vb…, R)`, entry `o = (b…, r)` is `Σ_a W[b][r, a] · rhs[a]`. -/
theorem left_interp_vector_def {α : Type} [CommRing α] (idx : Tn Nat) (val rhs : Tn α) (vb : List Nat) (R K n : Nat)
    (hi : idx.shape = vb ++ [R, K]) (hv : val.shape = vb ++ [R, K]) (hr : rhs.shape = [n]) (o : List Nat)
    (hidx : ∀ k, k < K → idx.get (o ++ [k]) < n) :
    ∃ t, leftInterp idx val rhs = .ok t ∧ t.shape = vb ++ [R] ∧
      t.get o = sumN n fun a =>
        interpW K (fun _ k => idx.get (o ++ [k])) (fun _ k => val.get (o ++ [k])) 0 a * rhs.get [a] :=
  _root_.LinOp.C20.left_interp_vector_def idx val rhs vb R K n hi hv hr o hidx

/-- `left_t_interp` with a 1-D right-hand side and interpolation tensors of batch shapes `ib` / `vb`: shape `(ib…, output_dim)` and
`out[b] = W[b]ᵀ · rhs`. -/
theorem left_t_interp_vector_def {α : Type} [CommRing α] (idx : Tn Nat) (val rhs : Tn α) (ib vb : List Nat) (D K outDim : Nat)
    (hi : idx.shape = ib ++ [D, K]) (hv : val.shape = vb ++ [D, K]) (hr : rhs.shape = [D])
    (b : List Nat) (hb : b.length = ib.length) (q : Nat) :
    ∃ t, leftTInterp idx val rhs outDim = .ok t ∧ t.shape = ib ++ [outDim] ∧
      t.get (b ++ [q]) = sumN D fun d =>
        interpW K (fun d k => idx.get (restrictIdx ib b ++ [d, k])) (fun d k => val.get (restrictIdx vb b ++ [d, k])) d q
          * rhs.get [d] :=
  _root_.LinOp.C20.left_t_interp_vector_def idx val rhs ib vb D K outDim hi hv hr b hb q

/-! ### translator obligations: the source text read by `harness/extract/c20_kernels.py` is what the model mirrors -/

open LinOp.Generated in
/-- every function of the covered modules is either mirrored or explicitly listed as not mirrored, and every mirrored function exists. -/
theorem gen_inventory :
    (C20.publicFunctions.all fun f => listedFunctions.contains f) = true ∧
    (listedFunctions.all fun f => C20.publicFunctions.contains f) = true := by decide +kernel

open LinOp.Generated in
/-- `bdsmm`: branch order, repeat sizes `output_size // sparse_size` over the right-aligned shapes, `batch_shape / num_rows / num_cols`
taken from the REPEATED sparse tensor, row-major batch multiplication factors, row offset `alpha=num_rows` on `indices[0]` and column
offset `alpha=num_cols` on `indices[1]`, `sparse_2d` of size `(B·rows, B·cols)`, dense operand expanded then reshaped to
`(B·cols, -1)`, result viewed as `(*batch, rows, -1)`; second branch: `(rows, B·cols)` view through two transposes. -/
theorem gen_bdsmm :
    C20.bdsmmBranchTests = ["sparse.ndimension() > 2", "dense.dim() > 2"] ∧
    C20.bdsmmRepeatExpr = "output_size // sparse_size | (output_size, sparse_size) in zip(expanded_sparse_shape, unsqueezed_sparse_shape)" ∧
    C20.bdsmmExpandDense = "dense.expand(*output_shape[:-2], dense.size(-2), dense.size(-1))" ∧
    C20.bdsmmUnpack = "(*batch_shape, num_rows, num_cols) = sparse.shape" ∧
    C20.bdsmmFactor = "[torch.Size(batch_shape[i + 1:]).numel() for i in range(len(batch_shape))]" ∧
    C20.bdsmmAssignment = "sparse._indices()[:-2].t() @ batch_multiplication_factor" ∧
    C20.bdsmmOffsets.map (fun x => (x.1, x.2.1)) = expectedBdsmmOffsets ∧
    C20.bdsmmOffsets.map (fun x => x.2.2) = ["batch_assignment", "batch_assignment"] ∧
    C20.bdsmmSparse2dSize = "torch.Size((batch_size * num_rows, batch_size * num_cols))" ∧
    C20.bdsmmDense2d = "dense.reshape(batch_size * num_cols, -1)" ∧
    C20.bdsmmView = "torch.dsmm(sparse_2d, dense_2d) ; res.view(*batch_shape, num_rows, -1)" ∧
    C20.bdsmm2dDense = "dense.transpose(0, 1).reshape(-1, batch_size * num_cols)" ∧
    C20.bdsmm2dResult = "torch.dsmm(sparse, dense.transpose(0, 1).reshape(-1, batch_size * num_cols)) ; res.view(-1, batch_size, num_cols) ; res.transpose(0, 1).reshape(*batch_shape, -1, num_cols)" := by
  decide +kernel

open LinOp.Generated in
/-- `sparse_repeat`: new leading dims iff more repeat sizes than dims, loop over `enumerate(repeat_sizes)`, guard `repeat_size > 1`,
offset `arange(repeat_size) * sparse.size(i)` (the D28 fix), new size `repeat_size * sparse.size(i)` at position `i`. -/
theorem gen_sparse_repeat :
    C20.repeatNewDimsTest = "len(repeat_sizes) > len(sparse.shape)" ∧
    C20.repeatLoopIter = "(i, repeat_size) in enumerate(repeat_sizes)" ∧ C20.repeatGuard = "repeat_size > 1" ∧
    C20.repeatFactor = "torch.arange(0, repeat_size, dtype=new_indices.dtype, device=new_indices.device).unsqueeze_(1) * sparse.size(i)" ∧
    C20.repeatNewSize = "torch.Size((*sparse.shape[:i], repeat_size * sparse.size(i), *sparse.shape[i + 1:]))" := by
  decide +kernel

open LinOp.Generated in
/-- `sparse_getitem`: rank / length guards, items processed LAST to FIRST, negative ints normalised by the current size (the D31 fix),
int mask `eq`, scalar `sum(values)`, `slice.indices(size[i])`, step test, slice mask `lt(stop) & ge(start)`, `sub_(start)` on the copy. -/
theorem gen_sparse_getitem :
    C20.getitemRankTest = "not sparse.ndimension() <= 2" ∧ C20.getitemLenTest = "len(idxs) > sparse.ndimension()" ∧
    C20.getitemLoopIter = "(i, idx) in list(enumerate(idxs))[::-1]" ∧
    C20.getitemNegTest = "idx < 0" ∧ C20.getitemNegFix = "idx = idx + size[i]" ∧ C20.getitemIntMask = "indices[i].eq(idx)" ∧
    C20.getitemScalarReturn = "sum(values)" ∧ C20.getitemSliceIndices = "idx.indices(size[i])" ∧ C20.getitemStepTest = "step != 1" ∧
    C20.getitemSliceMask = "indices[i].lt(stop) & indices[i].ge(start)" ∧ C20.getitemStartSub = "new_indices[i].sub_(start)" := by
  decide +kernel

open LinOp.Generated in
/-- `toeplitz_getitem` (`index = i - j`, row for negative index) , `DSMM.forward/backward` (`bdsmm(ctx.sparse.mT, grad_output)`),
`stable_qr`'s literals (`1e-6` threshold and jitter magnitude, `1.0` sign for zero pivots). -/
theorem gen_small_kernels :
    C20.tgIndex = "i - j" ∧ C20.tgTest = "index < 0" ∧ C20.tgNegReturn = "toeplitz_row[abs(index)]" ∧
    C20.tgPosReturn = "toeplitz_column[index]" ∧
    C20.dsmmForwardSaves = "sparse" ∧ C20.dsmmForwardReturn = "bdsmm(ctx.sparse, dense)" ∧
    C20.dsmmBackwardReturn = "(None, bdsmm(ctx.sparse.mT, grad_output))" ∧
    C20.qrFloatLiterals = [(1 : Rat) / 1000000, 1, (1 : Rat) / 1000000] := by
  decide +kernel


end LinOp.C20.Property
