import LinOp.C20.ProofsToeplitz
import LinOp.C20.ProofsPermQr
import LinOp.C20.ProofsInterp
import LinOp.C20.ProofsSparse
import LinOp.C20.ProofsExtra
import LinOp.C20.ProofsAdjoint
import LinOp.C20.ProofsGetitemFold
import LinOp.C20.ProofsBdsmm
/-!
C20 — utility kernels equal their dense definitions.  Property theorems only (proofs in `LinOp/C20/Proofs*.lean`).

Vectors / matrices are index functions on `Nat`; every theorem holds for all sizes `n ≥ 1` and for
every commutative ring (field, for QR / pseudo-inverse) of scalars.  `sumN n f = Σ_{i<n} f i`
(`sumN_eq_sum` relates it to `Finset.sum`).  The FFT is abstracted as the circular convolution
`circConv`, `torch.dsmm` as `spmm`, `torch.linalg.qr` / `solve_triangular` as parameters with their contracts
as hypotheses.
-/
namespace LinOp.C20.Property
open LinOp.C20

/-! ### Toeplitz -/

/-- `toeplitz(c, r)` (n ≥ 1, equal first elements) succeeds and its two loop nests write exactly
`T[i,j] = c[i-j]` (i ≥ j), `r[j-i]` (i < j), whatever `torch.empty` contained. -/
theorem toeplitz_dense_def {α : Type} [DecidableEq α] (n : Nat) (c r : Nat → α) (junk : M α)
    (hn : 1 ≤ n) (h0 : c 0 = r 0) :
    ∃ T, toeplitz n n c r junk = .ok T ∧ ∀ i j, i < n → j < n → T i j = toeplitzEntry c r i j :=
  _root_.LinOp.C20.toeplitz_dense_def n c r junk hn h0

/-- `toeplitz` raises exactly when the first elements differ or the lengths differ. -/
theorem toeplitz_raises_iff {α : Type} [DecidableEq α] (nc nr : Nat) (c r : Nat → α) (junk : M α) :
    (∃ e, toeplitz nc nr c r junk = .error e) ↔ (c 0 ≠ r 0 ∨ nc ≠ nr) :=
  _root_.LinOp.C20.toeplitz_raises_iff nc nr c r junk

/-- `sym_toeplitz(c)[i,j] = c[|i-j|]`. -/
theorem sym_toeplitz_def {α : Type} [DecidableEq α] (n : Nat) (c : Nat → α) (junk : M α) (hn : 1 ≤ n) :
    ∃ T, symToeplitz n c junk = .ok T ∧ ∀ i j, i < n → j < n → T i j = if j ≤ i then c (i - j) else c (j - i) :=
  _root_.LinOp.C20.sym_toeplitz_def n c junk hn

/-- `toeplitz_getitem(c, r, i, j)` is the dense entry. -/
theorem toeplitz_getitem_def {α : Type} (c r : Nat → α) (i j : Nat) :
    toeplitzGetitem c r i j = toeplitzEntry c r i j :=
  _root_.LinOp.C20.toeplitz_getitem_def c r i j

/-- `toeplitz_matmul`: the first `n` entries of the circular convolution (length `2n-1`) of the embedding
`[c, reversed r[1:]]` with the zero-padded right-hand side are `T x` — for every `n ≥ 1`. -/
theorem toeplitz_matmul_embedding {α : Type} [CommRing α] (n : Nat) (hn : 1 ≤ n) (c r x : Nat → α) (i : Nat) (hi : i < n) :
    toeplitzMatmulCore n c r x i = sumN n fun j => toeplitzEntry c r i j * x j :=
  _root_.LinOp.C20.toeplitz_matmul_embedding n hn c r x i hi

/-- `sym_toeplitz_derivative_quadratic_form`: entry `i` is `Σ_j u_jᵀ (∂T/∂c_i) v_j`, `∂T/∂c_i` the indicator of the
`i`-th sub- and super-diagonal (the identity for `i = 0`: the diagonal correction). -/
theorem toeplitz_dqf {α : Type} [CommRing α] (m s : Nat) (hm : 1 ≤ m) (u v : Nat → Nat → α) (i : Nat) (hi : i < m) :
    dqfCore m s u v i = dqfSpec m s u v i :=
  _root_.LinOp.C20.toeplitz_dqf m s hm u v i hi

def d27c : Tn Int := ⟨[3], fun i => [1, 2, 3].getD (i.getD 0 0) 0⟩
def d27r : Tn Int := ⟨[3], fun i => [1, 4, 5].getD (i.getD 0 0) 0⟩
def d27x : Tn Int := ⟨[3], fun i => [1, 1, 2].getD (i.getD 0 0) 0⟩
def isErr {β : Type} : Except String β → Bool
  | .error _ => true
  | .ok _ => false
def okVals (e : Except String (Tn Int)) (idxs : List (List Nat)) : Option (List Nat × List Int) :=
  match e with
  | .ok t => some (t.shape, idxs.map t.get)
  | .error _ => none

/-- `toeplitz_matmul(c, r, M)`, unbatched, matrix right-hand side: the whole function (shape logic, first-element check,
embedding, circular convolution, slice) returns `T M`. -/
theorem toeplitz_matmul_matrix_def {α : Type} [CommRing α] [DecidableEq α] (n p : Nat) (hn : 1 ≤ n) (c r x : Tn α)
    (hc : c.shape = [n]) (hr : r.shape = [n]) (hx : x.shape = [n, p]) (h0 : c.get [0] = r.get [0]) :
    ∃ t, toeplitzMatmul true c r x = .ok t ∧ t.shape = [n, p] ∧ ∀ i k, i < n →
      t.get [i, k] = sumN n fun j => toeplitzEntry (fun a => c.get [a]) (fun a => r.get [a]) i j * x.get [j, k] := by
  refine ⟨⟨[n, p], fun idx => toeplitzMatmulCore n (fun a => c.get [a]) (fun a => r.get [a])
      (fun a => x.get [a, idx.getD 1 0]) (idx.getD 0 0)⟩, ?_, rfl, ?_⟩
  · simp [toeplitzMatmul, hc, hr, hx, matmulBroadcastShape, broadcastShapes, bcastRev, allIdx, prod, unflat, restrictIdx, h0]
  · intro i k hi
    exact _root_.LinOp.C20.toeplitz_matmul_embedding n hn _ _ _ i hi

/-- `toeplitz_matmul(c, r, v)` with a 1-D right-hand side (documented; the code unsqueezes before the shape computation and
squeezes the result): returns the vector `T v`. -/
theorem toeplitz_matmul_vector_def {α : Type} [CommRing α] [DecidableEq α] (n : Nat) (hn : 1 ≤ n) (c r x : Tn α)
    (hc : c.shape = [n]) (hr : r.shape = [n]) (hx : x.shape = [n]) (h0 : c.get [0] = r.get [0]) :
    ∃ t, toeplitzMatmul true c r x = .ok t ∧ t.shape = [n] ∧ ∀ i, i < n →
      t.get [i] = sumN n fun j => toeplitzEntry (fun a => c.get [a]) (fun a => r.get [a]) i j * x.get [j] := by
  refine ⟨⟨[n], fun idx => toeplitzMatmulCore n (fun a => c.get [a]) (fun a => r.get [a])
      (fun a => x.get [a]) ((idx ++ [0]).getD 0 0)⟩, ?_, rfl, ?_⟩
  · simp [toeplitzMatmul, hc, hr, hx, matmulBroadcastShape, broadcastShapes, bcastRev, allIdx, prod, unflat, restrictIdx, h0]
  · intro i hi
    show toeplitzMatmulCore n (fun a => c.get [a]) (fun a => r.get [a]) (fun a => x.get [a]) i = _
    exact _root_.LinOp.C20.toeplitz_matmul_embedding n hn _ _ _ i hi

/-- Statement about the PREVIOUS code (before fix 94ba5d1, defect D27; model flag `fixed = false`): a 1-D right-hand side
made `toeplitz_matmul` raise, where the current code returns `T v = [15, 11, 7]`. -/
theorem previous_code_D27_vector_rhs_raised :
    isErr (toeplitzMatmul false d27c d27r d27x) = true ∧
    okVals (toeplitzMatmul true d27c d27r d27x) [[0], [1], [2]] = some ([3], [15, 11, 7]) := by
  decide

/-! ### permutations -/

/-- `apply_permutation`: `K[l.unsqueeze(-1), r.unsqueeze(-2)] = Π_l K Π_rᵀ` with `Π_l[i,a] = [l i = a]` — full or
partial permutations (any index vectors with entries in range). -/
theorem apply_perm_def {α : Type} [CommRing α] (m n : Nat) (K : M α) (l r : Nat → Nat) (i j : Nat)
    (hl : l i < m) (hr : r j < n) :
    applyPermCore K l r i j =
      sumN m fun a => sumN n fun b => (if l i = a then 1 else 0) * K a b * (if r j = b then 1 else 0) :=
  _root_.LinOp.C20.apply_perm_def m n K l r i j hl hr

/-- `inverse_permutation`: `inv[p[i]] = i` for every injective `p` of any length. -/
theorem inverse_perm_def (n : Nat) (p : Nat → Nat)
    (hinj : ∀ a b, a < n → b < n → p a = p b → a = b) (i : Nat) (hi : i < n) :
    inversePermCore n p (p i) = i :=
  _root_.LinOp.C20.inverse_perm_def n p hinj i hi

/-- … and `p[inv[a]] = a` for every `a` in the image. -/
theorem inverse_perm_right (n : Nat) (p : Nat → Nat)
    (hinj : ∀ a b, a < n → b < n → p a = p b → a = b) (a : Nat) (hsurj : ∃ i, i < n ∧ p i = a) :
    p (inversePermCore n p a) = a :=
  _root_.LinOp.C20.inverse_perm_right n p hinj a hsurj

example : inversePermCore 5 (fun i => [1, 3, 2, 4, 0].getD i 0) 0 = 4 := by decide

/-! ### stable QR / pseudo-inverse -/

/-- `stable_qr`, under the QR contract `Q R = A`: `Q R' = A + Q J`, `J` the diagonal jitter. -/
theorem stable_qr_contract {α : Type} [Field α] [LinearOrder α] [IsStrictOrderedRing α] (eps : α) (k : Nat) (Q R A : M α)
    (hqr : ∀ i j, sumN k (fun a => Q i a * R a j) = A i j) (i j : Nat) :
    sumN k (fun a => Q i a * stableQrR eps k R a j) =
      A i j + (if j < k then Q i j * qrJitter eps k (fun t => R t t) j else 0) :=
  _root_.LinOp.C20.stable_qr_contract eps k Q R A hqr i j

/-- … every diagonal entry of `R'` is at least `eps` in absolute value (so a triangular `R'` is invertible) … -/
theorem stable_qr_diag_bound {α : Type} [Field α] [LinearOrder α] [IsStrictOrderedRing α] (eps : α) (heps : 0 < eps)
    (k : Nat) (R : M α) (i : Nat) (hi : i < k) :
    eps ≤ |stableQrR eps k R i i| := by
  have := _root_.LinOp.C20.qr_jitter_diag_bound eps heps k (fun t => R t t) i hi
  simpa [stableQrR] using this

/-- … and `R` is returned unchanged when no pivot is below `eps`. -/
theorem stable_qr_noop {α : Type} [Field α] [LinearOrder α] [IsStrictOrderedRing α] (eps : α) (k : Nat) (R : M α)
    (h : ∀ i, i < k → ¬ ((if R i i < 0 then -R i i else R i i) < eps)) :
    stableQrR eps k R = R :=
  _root_.LinOp.C20.stable_qr_noop eps k R h

/-- the triangular solve of `stable_pinverse` as modelled (back substitution) solves `R X = B`. -/
theorem backSubst_solves {α : Type} [Field α] (k : Nat) (R : M α) (b : Nat → α)
    (htri : ∀ i j, j < i → R i j = 0) (hdiag : ∀ i, i < k → R i i ≠ 0) (i : Nat) (hi : i < k) :
    sumN k (fun j => R i j * backSubst k R b k j) = b i :=
  _root_.LinOp.C20.backSubst_solves k R b htri hdiag i hi

/-- `stable_pinverse`, tall / square branch under full column rank (`A = Q R`, `QᵀQ = I`, `R` invertible,
`R P = Qᵀ`): `P A = I` and the four Moore–Penrose conditions. -/
theorem pinverse_def {α : Type} [Field α] {m n : Type} [Fintype m] [Fintype n] [DecidableEq n]
    (A Q : Matrix m n α) (R : Matrix n n α) (P : Matrix n m α)
    (hA : A = Q * R) (hQ : Q.transpose * Q = 1) (hR : IsUnit R.det) (hP : R * P = Q.transpose) :
    P * A = 1 ∧ IsMP A P :=
  _root_.LinOp.C20.pinverse_tall A Q R P hA hQ hR hP

/-- fat branch: `stable_pinverse(A) = stable_pinverse(Aᵀ)ᵀ` is a Moore–Penrose inverse of `A`. -/
theorem pinverse_fat {α : Type} [Field α] {m n : Type} [Fintype m] [Fintype n] [DecidableEq n]
    (A : Matrix m n α) (P : Matrix m n α) (h : IsMP A.transpose P) : IsMP A P.transpose :=
  _root_.LinOp.C20.pinverse_fat A P h


/-! ### interpolation -/

/-- `left_interp` (gather, multiply, sum over the coefficients) is `(W x)_r` for the dense interpolation matrix
`W[r,c] = Σ_k [idx[r,k] = c] val[r,k]` — duplicate indices add. -/
theorem left_interp_def {α : Type} [CommRing α] (n K : Nat) (idx : Nat → Nat → Nat) (val : Nat → Nat → α) (x : Nat → α) (r : Nat)
    (h : ∀ k, k < K → idx r k < n) :
    leftInterpCore K idx val x r = sumN n fun c => interpW K idx val r c * x c :=
  _root_.LinOp.C20.left_interp_def n K idx val x r h

/-- `left_t_interp` (scatter-add through the summing matrix and dsmm) is `(Wᵀ x)_o`; duplicates add. -/
theorem left_t_interp_def {α : Type} [CommRing α] (D K : Nat) (idx : Nat → Nat → Nat) (val : Nat → Nat → α) (x : Nat → α) (o : Nat) :
    leftTInterpCore D K idx val x o = sumN D fun d => interpW K idx val d o * x d :=
  _root_.LinOp.C20.left_t_interp_def D K idx val x o

/-! ### sparse tensors (entry lists; equal index tuples add) -/

/-- the entry-list product `spmm` (contract of `torch.dsmm`) is densify-then-dense-matmul. -/
theorem spmm_def {α : Type} [CommRing α] (ents : Ents α) (d : Nat → Nat → α) (i c ncols : Nat)
    (h : ∀ e ∈ ents, e.1.length = 2 ∧ e.1.getD 1 0 < ncols) :
    spmm ents d i c = sumN ncols fun j => densify ents [i, j] * d j c :=
  _root_.LinOp.C20.spmm_def ents d i c ncols h

theorem sparse_eye_def {α : Type} [CommRing α] (n i j : Nat) (hi : i < n) (hj : j < n) :
    densify (sparseEye (α := α) n).ents [i, j] = if i = j then 1 else 0 :=
  _root_.LinOp.C20.sparse_eye_def n i j hi hj

/-- `make_sparse_from_indices_and_values`: batch index construction, zero dropping and the all-zero special case
leave exactly one contribution `valf p` per flattened position `p`, at index (batch digits of p, idxf p, row of p). -/
theorem make_sparse_def {α : Type} [CommRing α] [DecidableEq α] (bs : List Nat) (T K : Nat) (idxf : Nat → Nat) (valf : Nat → α)
    (numRows : Nat) (bidx : List Nat) (i t : Nat) (hb : bidx.length = bs.length) :
    densify (makeSparse bs T K idxf valf numRows).ents (bidx ++ [i, t]) =
      sumN (prod bs * T * K) fun p =>
        if (unflat (bs ++ [T, K]) p).take bs.length = bidx ∧ idxf p = i ∧ (p / K) % T = t then valf p else 0 :=
  _root_.LinOp.C20.make_sparse_def bs T K idxf valf numRows bidx i t hb

theorem make_sparse_shape {α : Type} [CommRing α] [DecidableEq α] (bs : List Nat) (T K : Nat) (idxf : Nat → Nat) (valf : Nat → α)
    (numRows : Nat) : (makeSparse bs T K idxf valf numRows).shape = bs ++ [numRows, T] :=
  _root_.LinOp.C20.make_sparse_shape bs T K idxf valf numRows

/-- unbatched: `densify(make_sparse(idx, val))[i, t] = W[t, i]`. -/
theorem make_sparse_unbatched {α : Type} [CommRing α] [DecidableEq α] (T K : Nat) (hK : 0 < K) (idx : Nat → Nat → Nat)
    (val : Nat → Nat → α) (numRows i t : Nat) (ht : t < T) :
    densify (makeSparse [] T K (fun p => idx (p / K) (p % K)) (fun p => val (p / K) (p % K)) numRows).ents [i, t]
      = interpW K idx val t i :=
  _root_.LinOp.C20.make_sparse_unbatched T K hK idx val numRows i t ht

/-- row-major digits determine the flat position / round trip. -/
theorem unflat_inj (shape : List Nat) (p q : Nat) (hp : p < prod shape) (hq : q < prod shape)
    (h : unflat shape p = unflat shape q) : p = q :=
  _root_.LinOp.C20.unflat_inj shape p q hp hq h

theorem flat_unflat (shape : List Nat) (p : Nat) (hp : p < prod shape) : flat shape (unflat shape p) = p :=
  _root_.LinOp.C20.flat_unflat shape p hp

/-- `to_sparse(dense)` densifies back to `dense` at every position of the box (any rank, zeros dropped, all-zero case). -/
theorem to_sparse_roundtrip {α : Type} [CommRing α] [DecidableEq α] (d : Tn α) (p : Nat) (hp : p < prod d.shape) :
    densify (toSparse d).ents (unflat d.shape p) = d.get (unflat d.shape p) :=
  _root_.LinOp.C20.to_sparse_roundtrip d _ p hp rfl
    (fun q hq h => _root_.LinOp.C20.unflat_inj d.shape q p hq hp h)

/-- `sparse_repeat`, one repeated dimension (copy `k` is shifted by `k * size`): dense `repeat`. -/
theorem sparse_repeat_def {α : Type} [AddCommMonoid α] (i rep : Nat) (s : Sp α) (idx : List Nat)
    (hi : i < s.shape.length) (hlen : idx.length = s.shape.length)
    (hents : ∀ e ∈ s.ents, e.1.length = s.shape.length ∧ e.1.getD i 0 < s.shape.getD i 0)
    (hidx : idx.getD i 0 < rep * s.shape.getD i 0) :
    densify (repeatDim true i rep s).ents idx = densify s.ents (idx.set i (idx.getD i 0 % s.shape.getD i 0)) :=
  _root_.LinOp.C20.sparse_repeat_def i rep s idx hi hlen hents hidx

/-- Statement about the PREVIOUS code (before fix 571691c, defect D28; `fixed = false`): the offset was the repeat number
`k` instead of `k * size`, wrong on a dimension of size 2 … -/
theorem previous_code_D28_offset_was_repeat_number :
    let s : Sp Int := ⟨[2, 2], [([0, 0], 1), ([1, 0], 2), ([1, 1], 3)]⟩
    densify (sparseRepeat false s [2, 1]).ents [1, 0] = 3 ∧ densify (sparseRepeat true s [2, 1]).ents [1, 0] = 2
      ∧ densify (sparseRepeat true s [2, 1]).ents [2, 0] = 1 ∧ densify (sparseRepeat false s [2, 1]).ents [2, 0] = 2 :=
  _root_.LinOp.C20.sparse_repeat_counterexample

/-- … and agreed with the current code whenever the repeated dimension has size 1 (how `bdsmm` uses it). -/
theorem previous_code_D28_agreed_on_size_one_dims {α : Type} (i rep : Nat) (s : Sp α) (h : s.shape.getD i 0 = 1) :
    repeatDim false i rep s = repeatDim true i rep s :=
  _root_.LinOp.C20.sparse_repeat_partial i rep s h

/-- `sparse_getitem`, integer at position `i`: the result at `ridx` is the operand at `ridx` with `z` inserted at `i`. -/
theorem sparse_getitem_int_def {α : Type} [AddCommMonoid α] (i : Nat) (z : Nat) (s : Sp α) (ridx : List Nat)
    (hi : i < s.shape.length) (hlen : ridx.length + 1 = s.shape.length)
    (hents : ∀ e ∈ s.ents, e.1.length = s.shape.length) :
    ∃ s', getitemStep i (.int (z : Int)) s = .ok s' ∧ s'.shape = s.shape.eraseIdx i ∧
      densify s'.ents ridx = densify s.ents (ridx.insertIdx i z) :=
  _root_.LinOp.C20.sparse_getitem_int_def i z s ridx hi hlen hents

/-- `sparse_getitem`, slice (step 1, Python bound clamping) at position `i`. -/
theorem sparse_getitem_slice_def {α : Type} [AddCommMonoid α] (i : Nat) (start stop : Option Int) (s : Sp α) (ridx : List Nat)
    (hi : i < s.shape.length) (hlen : ridx.length = s.shape.length)
    (hents : ∀ e ∈ s.ents, e.1.length = s.shape.length)
    (hr : sliceBound (s.shape.getD i 0) start 0 + ridx.getD i 0 < sliceBound (s.shape.getD i 0) stop (s.shape.getD i 0)) :
    ∃ s', getitemStep i (.slice start stop none) s = .ok s' ∧
      s'.shape = s.shape.set i (sliceBound (s.shape.getD i 0) stop (s.shape.getD i 0) - sliceBound (s.shape.getD i 0) start 0) ∧
      densify s'.ents ridx = densify s.ents (ridx.set i (ridx.getD i 0 + sliceBound (s.shape.getD i 0) start 0)) :=
  _root_.LinOp.C20.sparse_getitem_slice_def i start stop s ridx hi hlen hents hr

def spVal (e : Except String (Sum Int (Sp Int))) : Option Int :=
  match e with
  | .ok (.inl v) => some v
  | _ => none

/-- `sparse_getitem` with a NEGATIVE integer `z ≥ -size` at position `i`: the index is normalised to `z + size` and the
result is the operand's slice counted from the end. -/
theorem sparse_getitem_negint_def {α : Type} [AddCommMonoid α] (i : Nat) (z : Int) (s : Sp α) (ridx : List Nat)
    (hi : i < s.shape.length) (hlen : ridx.length + 1 = s.shape.length)
    (hents : ∀ e ∈ s.ents, e.1.length = s.shape.length)
    (hz : z < 0) (hz' : 0 ≤ z + (s.shape.getD i 0 : Nat)) :
    ∃ s', getitemStep i (normIx true (s.shape.getD i 0) (.int z)) s = .ok s' ∧ s'.shape = s.shape.eraseIdx i ∧
      densify s'.ents ridx = densify s.ents (ridx.insertIdx i (z + (s.shape.getD i 0 : Nat)).toNat) := by
  have h : normIx true (s.shape.getD i 0) (.int z) = .int (((z + (s.shape.getD i 0 : Nat)).toNat : Nat) : Int) := by
    simp only [normIx, hz, Bool.true_and, decide_true, if_true]
    rw [Int.toNat_of_nonneg hz']
  rw [h]
  exact _root_.LinOp.C20.sparse_getitem_int_def i _ s ridx hi hlen hents

/-- Statement about the PREVIOUS code (before fix 826dae6, defect D31; `fixed = false`): a negative integer matched no
stored index (`0` instead of the last entry `2`). -/
theorem previous_code_D31_negative_int_selected_nothing :
    spVal (sparseGetitem false ⟨[3], [([1], 1), ([2], 2)]⟩ [.int (-1)]) = some 0 ∧
    spVal (sparseGetitem true ⟨[3], [([1], 1), ([2], 2)]⟩ [.int (-1)]) = some 2 := by
  decide

/-- block-diagonal flattening of `bdsmm` (row += b·rows, col += b·cols, b the flat batch index): row `b·rows + i` of the
2-D product sees exactly the entries of batch `b`, row `i`, against the rows `b·cols + j` of the flattened dense operand. -/
theorem blockdiag_spmm {α : Type} [CommRing α] (bshape : List Nat) (numRows numCols : Nat) (ents : Ents α) (d2 : Nat → Nat → α)
    (fb i c : Nat) (hi : i < numRows)
    (hents : ∀ e ∈ ents, e.1.getD bshape.length 0 < numRows ∧ e.1.getD (bshape.length + 1) 0 < numCols) :
    spmm (blockDiagEnts bshape numRows numCols ents) d2 (fb * numRows + i) c =
      spmm ((ents.filter fun e => flat bshape (e.1.take bshape.length) = fb ∧ e.1.getD bshape.length 0 = i)
              |>.map fun e => ([e.1.getD bshape.length 0, e.1.getD (bshape.length + 1) 0], e.2))
           (fun j c => d2 (fb * numCols + j) c) i c :=
  _root_.LinOp.C20.blockdiag_spmm bshape numRows numCols ents d2 fb i c hi hents

/-- `bdsmm`, unbatched branch: `S D` with `S = densify(sparse)`. -/
theorem bdsmm_2d_def {α : Type} [CommRing α] (fixed : Bool) (s : Sp α) (d : Tn α) (m n p : Nat)
    (hs : s.shape = [m, n]) (hd : d.shape = [n, p])
    (hents : ∀ e ∈ s.ents, e.1.length = 2 ∧ e.1.getD 1 0 < n) :
    ∃ t, bdsmm fixed s d = .ok t ∧ t.shape = [m, p] ∧
      ∀ i c, t.get [i, c] = sumN n fun j => densify s.ents [i, j] * d.get [j, c] := by
  refine ⟨⟨[m, p], fun o => spmm s.ents (fun j c => d.get [j, c]) (o.getD 0 0) (o.getD 1 0)⟩, ?_, rfl, ?_⟩
  · simp [bdsmm, hs, hd]
  · intro i c
    exact _root_.LinOp.C20.spmm_def s.ents (fun j c => d.get [j, c]) i c n hents

/-- `DSMM.backward`, unbatched: the gradient w.r.t. the dense operand is `Sᵀ · grad_output`
(`bdsmm(sparse.mT, grad)` with the transposed entry list). -/
theorem dsmm_backward_2d_def {α : Type} [CommRing α] (fixed : Bool) (s : Sp α) (g : Tn α) (m n p : Nat)
    (hs : s.shape = [m, n]) (hg : g.shape = [m, p])
    (hents : ∀ e ∈ s.ents, e.1.length = 2 ∧ e.1.getD 0 0 < m) :
    ∃ t, dsmmBackward fixed s g = .ok t ∧ t.shape = [n, p] ∧
      ∀ j c, t.get [j, c] = sumN m fun i => densify s.ents [i, j] * g.get [i, c] :=
  _root_.LinOp.C20.dsmm_backward_2d_def fixed s g m n p hs hg hents


/-- `stable_qr` for EVERY shape of `R` (`k × n2`, tall, square or fat): it succeeds and returns `R` with the jitter added on
the diagonal only (`stableQrR`; unchanged when no pivot is near zero) — so `stable_qr_contract` / `_diag_bound` apply. -/
theorem stable_qr_any_shape_def {α : Type} [Field α] [LinearOrder α] [IsStrictOrderedRing α] (eps : α) (k n2 : Nat) (R : M α) :
    stableQr true eps k n2 R = .ok (stableQrR eps k R) := by
  unfold stableQr
  simp only
  by_cases h : ((List.range k).any fun i => decide ((if R i i < 0 then -R i i else R i i) < eps)) = true
  · simp [h]
  · have hnone : ∀ i, i < k → ¬ ((if R i i < 0 then -R i i else R i i) < eps) := by
      intro i hi hlt
      apply h
      rw [List.any_eq_true]
      exact ⟨i, List.mem_range.mpr hi, by simpa using hlt⟩
    rw [_root_.LinOp.C20.stable_qr_noop eps k R hnone]
    simp [h]

/-- Statement about the PREVIOUS code (before fix 64f3bec, defect D32; `fixed = false`): on a fat `R` (1 × 3, zero pivot,
`eps = 1`) the jitter was added to the whole row; on a 2 × 3 `R` with a zero pivot it raised. -/
theorem previous_code_D32_fat_jitter_wrong :
    (match stableQr (α := Int) false 1 1 3 (fun _ b => [0, 5, 7].getD b 0) with
      | .ok R => [R 0 0, R 0 1, R 0 2] | .error _ => []) = [1, 6, 8] ∧
    (match stableQr (α := Int) true 1 1 3 (fun _ b => [0, 5, 7].getD b 0) with
      | .ok R => [R 0 0, R 0 1, R 0 2] | .error _ => []) = [1, 5, 7] ∧
    isErr (stableQr (α := Int) false 1 2 3 (fun a b => if a = b then 0 else 4)) = true := by
  decide

/-- … and agreed with the current code on tall / square `R` (`n2 = k`). -/
theorem previous_code_D32_agreed_on_square_R {α : Type} [Field α] [LinearOrder α] (eps : α) (k : Nat) (R : M α) :
    stableQr false eps k k R = stableQr true eps k k R := by
  simp [stableQr]

/-! ### round 3: adjointness, multi-step indexing, batched products -/

/-- `left_interp` and `left_t_interp` are adjoint: `⟨W x, y⟩ = ⟨x, Wᵀ y⟩` for every number of rows `R`, columns `n` and
interpolation points per row `K` (repeated indices allowed; only `idx[r,k] < n` is assumed). -/
theorem interp_adjoint {α : Type} [CommRing α] (R K n : Nat) (idx : Nat → Nat → Nat) (val : Nat → Nat → α) (x y : Nat → α)
    (h : ∀ r, r < R → ∀ k, k < K → idx r k < n) :
    sumN R (fun r => leftInterpCore K idx val x r * y r) =
      sumN n (fun c => x c * leftTInterpCore R K idx val y c) :=
  _root_.LinOp.C20.interp_adjoint R K n idx val x y h

-- satisfiable with repeated indices: two rows, both points of row 0 hit column 1
example : ∀ r, r < 2 → ∀ k, k < 2 → (fun r k => if r = 0 then 1 else k) r k < 2 := by
  intro r _ k hk; by_cases h : r = 0 <;> simp [h] <;> omega

/-- `sparse_getitem` applied item by item (any list of (position, item) steps, in processing order) equals ONE multi-index
selection: the final tensor at `r` is the operand at `liftLoop items shape r` (ints inserted, slice starts added), its shape is
`shapeLoop items shape`, and every intermediate entry list stays well-formed.  `LoopOk` asks that each position is in range, ints
are non-negative, slices have step 1 and `r` lies inside every slice. -/
theorem getitem_loop_def {α : Type} [AddCommMonoid α] (items : List (Nat × Ix)) (s : Sp α) (r : List Nat)
    (hents : ∀ e ∈ s.ents, e.1.length = s.shape.length) (hok : LoopOk items s.shape r) :
    ∃ s', getitemLoop items s = .ok s' ∧ s'.shape = shapeLoop items s.shape ∧
      (∀ e ∈ s'.ents, e.1.length = s'.shape.length) ∧
      densify s'.ents r = densify s.ents (liftLoop items s.shape r) :=
  _root_.LinOp.C20.getitem_loop_def items s r hents hok

example : LoopOk [(1, Ix.slice (some 1) none none), (0, Ix.int 2)] [3, 4] [2] := by
  simp [LoopOk, StepOk, liftLoop, liftStep, shapeStep, sliceBound]

/-- the public function on a 2-D tensor, `S[a0:b0, a1:b1]` (processed last position first): entry `(j0, j1)` is `S[a0+j0, a1+j1]`. -/
theorem sparse_getitem_slice_slice_def {α : Type} [AddCommMonoid α] (s : Sp α) (m n : Nat) (hs : s.shape = [m, n])
    (hents : ∀ e ∈ s.ents, e.1.length = 2) (a0 b0 a1 b1 : Option Int) (j0 j1 : Nat)
    (h0 : sliceBound m a0 0 + j0 < sliceBound m b0 m) (h1 : sliceBound n a1 0 + j1 < sliceBound n b1 n) :
    ∃ t, sparseGetitem true s [.slice a0 b0 none, .slice a1 b1 none] = .ok (.inr t) ∧
      t.shape = [sliceBound m b0 m - sliceBound m a0 0, sliceBound n b1 n - sliceBound n a1 0] ∧
      densify t.ents [j0, j1] = densify s.ents [sliceBound m a0 0 + j0, sliceBound n a1 0 + j1] :=
  _root_.LinOp.C20.sparse_getitem_slice_slice_def s m n hs hents a0 b0 a1 b1 j0 j1 h0 h1

/-- `S[z, a1:b1]`. -/
theorem sparse_getitem_int_slice_def {α : Type} [AddCommMonoid α] (s : Sp α) (m n : Nat) (hs : s.shape = [m, n])
    (hents : ∀ e ∈ s.ents, e.1.length = 2) (z : Nat) (a1 b1 : Option Int) (j1 : Nat)
    (h1 : sliceBound n a1 0 + j1 < sliceBound n b1 n) :
    ∃ t, sparseGetitem true s [.int z, .slice a1 b1 none] = .ok (.inr t) ∧
      t.shape = [sliceBound n b1 n - sliceBound n a1 0] ∧
      densify t.ents [j1] = densify s.ents [z, sliceBound n a1 0 + j1] :=
  _root_.LinOp.C20.sparse_getitem_int_slice_def s m n hs hents z a1 b1 j1 h1

/-- `S[a0:b0, z]`. -/
theorem sparse_getitem_slice_int_def {α : Type} [AddCommMonoid α] (s : Sp α) (m n : Nat) (hs : s.shape = [m, n])
    (hents : ∀ e ∈ s.ents, e.1.length = 2) (a0 b0 : Option Int) (z : Nat) (j0 : Nat)
    (h0 : sliceBound m a0 0 + j0 < sliceBound m b0 m) :
    ∃ t, sparseGetitem true s [.slice a0 b0 none, .int z] = .ok (.inr t) ∧
      t.shape = [sliceBound m b0 m - sliceBound m a0 0] ∧
      densify t.ents [j0] = densify s.ents [sliceBound m a0 0 + j0, z] :=
  _root_.LinOp.C20.sparse_getitem_slice_int_def s m n hs hents a0 b0 z j0 h0

/-- `S[z0, z1]`: the returned scalar `sum(values)` is the dense entry (0 when nothing is stored there). -/
theorem sparse_getitem_int_int_def {α : Type} [AddCommMonoid α] (s : Sp α) (m n : Nat) (hs : s.shape = [m, n])
    (hents : ∀ e ∈ s.ents, e.1.length = 2) (z0 z1 : Nat) :
    sparseGetitem true s [.int z0, .int z1] = .ok (.inl (densify s.ents [z0, z1])) :=
  _root_.LinOp.C20.sparse_getitem_int_int_def s m n hs hents z0 z1

/-- `bdsmm`, 2-D sparse × batched dense (the `(rows, batch·cols)` view), EVERY batch shape: `out[b] = S · D[b]`. -/
theorem bdsmm_2d_batched_def {α : Type} [CommRing α] (fixed : Bool) (s : Sp α) (d : Tn α) (bshape : List Nat) (m n p : Nat)
    (hb : bshape ≠ []) (hs : s.shape = [m, n]) (hd : d.shape = bshape ++ [n, p])
    (hents : ∀ e ∈ s.ents, e.1.length = 2 ∧ e.1.getD 1 0 < n)
    (b : List Nat) (hbox : InBox b bshape) (i c : Nat) (hc : c < p) :
    ∃ t, bdsmm fixed s d = .ok t ∧ t.shape = bshape ++ [m, p] ∧
      t.get (b ++ [i, c]) = sumN n fun j => densify s.ents [i, j] * d.get (b ++ [j, c]) :=
  _root_.LinOp.C20.bdsmm_2d_batched_def fixed s d bshape m n p hb hs hd hents b hbox i c hc

/-- `bdsmm`, batched sparse × batched dense of the same batch shape (block-diagonal flattening through the flat batch index,
no repetition needed), EVERY batch shape: `out[b] = S[b] · D[b]` — the whole function, not only the flattening lemma. -/
theorem bdsmm_batched_def {α : Type} [CommRing α] (s : Sp α) (d : Tn α) (bshape : List Nat) (m n p : Nat)
    (hb : bshape ≠ []) (hs : s.shape = bshape ++ [m, n]) (hd : d.shape = bshape ++ [n, p])
    (hents : ∀ e ∈ s.ents, e.1.length = bshape.length + 2 ∧ InBox (e.1.take bshape.length) bshape ∧
               e.1.getD bshape.length 0 < m ∧ e.1.getD (bshape.length + 1) 0 < n)
    (b : List Nat) (hbox : InBox b bshape) (i c : Nat) (hi : i < m) :
    ∃ t, bdsmm true s d = .ok t ∧ t.shape = bshape ++ [m, p] ∧
      t.get (b ++ [i, c]) = sumN n fun j => densify s.ents (b ++ [i, j]) * d.get (b ++ [j, c]) :=
  _root_.LinOp.C20.bdsmm_batched_def s d bshape m n p hb hs hd hents b hbox i c hi

/-- `bdsmm`, batched sparse × UNBATCHED dense (dense operand broadcast over the batch), EVERY batch shape: `out[b] = S[b] · D`. -/
theorem bdsmm_batched_dense2d_def {α : Type} [CommRing α] (s : Sp α) (d : Tn α) (bshape : List Nat) (m n p : Nat)
    (hb : bshape ≠ []) (hs : s.shape = bshape ++ [m, n]) (hd : d.shape = [n, p])
    (hents : ∀ e ∈ s.ents, e.1.length = bshape.length + 2 ∧ InBox (e.1.take bshape.length) bshape ∧
               e.1.getD bshape.length 0 < m ∧ e.1.getD (bshape.length + 1) 0 < n)
    (b : List Nat) (hbox : InBox b bshape) (i c : Nat) (hi : i < m) :
    ∃ t, bdsmm true s d = .ok t ∧ t.shape = bshape ++ [m, p] ∧
      t.get (b ++ [i, c]) = sumN n fun j => densify s.ents (b ++ [i, j]) * d.get [j, c] :=
  _root_.LinOp.C20.bdsmm_batched_dense2d_def s d bshape m n p hb hs hd hents b hbox i c hi

example : InBox [1, 2] [2, 3] := by
  refine List.Forall₂.cons (by omega) (List.Forall₂.cons (by omega) List.Forall₂.nil)


end LinOp.C20.Property
