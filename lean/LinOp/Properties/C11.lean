import LinOp.C11.ProofsPrecond
import LinOp.C11.ProofsCiq
import Mathlib.Algebra.BigOperators.Fin
import Mathlib.Analysis.Real.Sqrt
import Mathlib.Tactic.NormNum
import LinOp.Generated.C11Consts
/-!
C11 — MINRES solves all shifted systems; contour quadrature gives the matrix root.  Property theorems only.

The model (`LinOp/C11/Model.lean`) follows `minres`, `_jit_minres_updates`, the plumbing of `contour_integral_quad`
and `SqrtInvMatmul.forward` statement by statement; scalars are an arbitrary field, `sqrt` and `<` are parameters.

Global statements (section `minres_global`, `minres_exact`): the model's `minres` output is the iterated loop body
(`minres_output_is_track`); residual recurrence, `‖r_j‖ = |scale_prev_j| = β₀|s_1⋯s_j|`, monotonicity, QR identity in column
form, optimality over the Krylov space (`minres_optimal_over_krylov`, Lanczos orthonormality proved for a symmetric closure
without preconditioner while the clamp is inactive), the eps-perturbed breakdown statement (`minres_exact_at_dim_eps`).
CIQ: the matrix statement is reduced to the scalar quadrature rule (`ciq_reduction`, `sqrt_inv_matmul_twice_is_solve`).

Stated but NOT proved (checked numerically on the implementation only, see `harness/checks/c11.py`):
* quadrature accuracy `Σ_q w_q / (s_q − λ) ≈ λ^{-1/2}` (Hale–Higham–Trefethen; needs Jacobi elliptic functions);
* with a preconditioner, the identification of the span of the search vectors with the Krylov space of `M⁻¹A` (optimality
  over that span in the `M⁻¹`-norm IS proved: `minres_optimal_preconditioned`); floating point.
-/
namespace LinOp.C11
open Generated.C11

/-! ### generated facts -/

/-- The literals of the source are the documented ones (every 10th step, two extra iterations, `n + 1`,
`value = -1` in CIQ, 15 quadrature nodes, tolerance 1e-4, eps 1e-25, zero threshold 1e-10). -/
theorem generated_literals :
    checkEvery = 10 ∧ extraIters = 2 ∧ sizeSlack = 1 ∧ literalsFound = true ∧ ciqValue = -1 ∧
    numContourQuadrature = 15 ∧ maxLanczosIter = 20 ∧ minresTolerance = 1 / 10000 ∧
    eps = 1 / 10000000000000000000000000 ∧ zeroThresh = 1 / 10000000000 ∧ shiftOffset = 0 := by
  decide +kernel

/-- `minres.py`, `contour_integral_quad.py` and `_sqrt_inv_matmul.py` keep no module-level mutable state and no memoisation
(no module-level statement other than imports / definitions, no caching decorator, no `global`, no attribute store on a
module-level function, no mutable default argument): a call cannot depend on earlier calls in the process — the model's
`ciq` / `minres` are functions of their arguments only. -/
theorem no_module_state : moduleState = [] := by decide +kernel

/-- The kernel is called with its own parameter names in order (no swapped buffer at the call site). -/
theorem kernel_call_aligned : kernelCallArgs = kernelParams := by decide +kernel

/-- The statements of `_jit_minres_updates` are the ones `rotTerms` / `givensStep` mirror. -/
theorem kernel_statements_mirrored :
    kernel = ["torch.mul(sin_prev2, beta_prev, out=subsub_diag_term)",
      "torch.mul(cos_prev2, beta_prev, out=sub_diag_term)",
      "torch.add(alpha_curr, shifts, out=alpha_shifted_curr)",
      "torch.mul(alpha_shifted_curr, cos_prev1, out=diag_term).addcmul_(sin_prev1, sub_diag_term, value=-1)",
      "sub_diag_term.mul_(cos_prev1).addcmul_(sin_prev1, alpha_shifted_curr)",
      "torch.mul(diag_term, diag_term, out=radius_curr).addcmul_(beta_curr, beta_curr).sqrt_()",
      "cos_curr = torch.div(diag_term, radius_curr, out=cos_curr)",
      "sin_curr = torch.div(beta_curr, radius_curr, out=sin_curr)",
      "diag_term.mul_(cos_curr).addcmul_(sin_curr, beta_curr)",
      "torch.mul(scale_prev, sin_curr, out=scale_curr).mul_(-1)",
      "scale_prev.mul_(cos_curr)",
      "torch.addcmul(qvec_prev1, sub_diag_term, search_prev1, value=-1, out=search_curr)",
      "search_curr.addcmul_(subsub_diag_term, search_prev2, value=-1)",
      "search_curr.div_(diag_term)",
      "torch.mul(search_curr, scale_prev, out=search_update)",
      "solution.add_(search_update)"] := by decide +kernel

/-- The Lanczos part of the loop body and the convergence test are the ones `lanczosStep` / `iterate` mirror. -/
theorem loop_statements_mirrored :
    (loopBody.take 12 = ["prod = mm_(qvec_prev1)", "if value is not None: prod.mul_(value)",
      "torch.mul(prod, qvec_prev1, out=tmpvec)", "torch.sum(tmpvec, -2, keepdim=True, out=alpha_curr)",
      "zvec_curr = prod.addcmul_(alpha_curr, zvec_prev1, value=-1).addcmul_(beta_prev, zvec_prev2, value=-1)",
      "qvec_curr = preconditioner(zvec_curr)", "torch.mul(zvec_curr, qvec_curr, out=tmpvec)",
      "torch.sum(tmpvec, -2, keepdim=True, out=beta_curr)", "beta_curr.sqrt_()", "beta_curr.clamp_min_(eps)",
      "zvec_curr.div_(beta_curr)", "qvec_curr.div_(beta_curr)"]) ∧
    loopBody.length = 13 ∧ loopIter = "range(max_iter + 2)" ∧ checkTest = "(i + 1) % 10 == 0" ∧
    checkBody = ["torch.norm(search_update, dim=-2, out=search_update_norm)",
      "torch.norm(solution, dim=-2, out=solution_norm)",
      "conv = search_update_norm.div_(solution_norm).mean().item()",
      "if conv < settings.minres_tolerance.value(): break"] ∧
    afterLoop = ["solution.masked_fill_(rhs_is_zero, 0)",
      "if squeeze: solution = solution.squeeze(-1) rhs = rhs.squeeze(-1) rhs_norm = rhs_norm.squeeze(-1)",
      "if shifts.numel() == 1: solution = solution.squeeze(0)", "return solution.mul_(rhs_norm)"] := by
  decide +kernel

/-- The CIQ call of MINRES and the forward pass of `SqrtInvMatmul` are the ones `ciq` / `sqrtInvMatmulLhs` mirror. -/
theorem ciq_statements_mirrored :
    ciqMinresCall = "minres(lambda v: linear_op._matmul(v), rhs, value=-1, shifts=shifts, preconditioner=preconditioner)" ∧
    ciqBody.drop (ciqBody.length - 5) = ["with torch.no_grad(): solves = minres(lambda v: linear_op._matmul(v), rhs, value=-1, shifts=shifts, preconditioner=preconditioner)",
      "no_shift_solves = solves[0]", "solves = solves[1:]", "if not inverse: solves = linear_op._matmul(solves)",
      "return (solves, weights, no_shift_solves, shifts)"] ∧
    simForward.length = 5 ∧ simForward.getLast? = some "return (sqrt_inv_matmul_res, inv_quad_res)" := by
  decide +kernel

/-! ### buffer rotation -/

/-- Every assignment of the rotation block that recycles in-place buffers is a permutation of its names. -/
theorem rotation_is_permutation : rotPerm.all TupleAssign.isPerm = true ∧ rotPerm.length = 5 ∧
    rotShift = [{ lhs := ["zvec_prev2", "zvec_prev1"], rhs := ["zvec_prev1", "prod"] },
                { lhs := ["qvec_prev1"], rhs := ["qvec_curr"] }] := by decide +kernel

/-- **`buffer_rotation_no_alias`** — after any number `k` of loop iterations, no two of the names
`beta_*`, `cos_*`, `sin_*`, `search_*`, `scale_*` (the buffers written through `out=` by the kernel) denote the same
buffer.  (`zvec_*`/`qvec_*` are shifted, not permuted: `prod` and `qvec_curr` are freshly allocated in every iteration.)
Proved for the rotation block *extracted from the source*: period 6, then all residues by kernel evaluation. -/
theorem buffer_rotation_no_alias (k : Nat) : NoAlias (rotateN rotPerm k (env0 rotPermNames)) := by
  refine rotateN_forall rotPerm 6 (by decide) _ (by decide +kernel) NoAlias ?_ k
  intro r hr
  have : r = 0 ∨ r = 1 ∨ r = 2 ∨ r = 3 ∨ r = 4 ∨ r = 5 := by omega
  rcases this with h | h | h | h | h | h <;> subst h <;> decide +kernel

/-- The buffer written as `*_curr` in an iteration is the one that was `*_prev2` (three-way groups) resp.
`*_prev` (two-way groups) in the previous iteration — the oldest, dead one; and `prev1`/`prev2` shift down. -/
def RecyclesOldest (e : Env) : Prop :=
  let e' := applyAll rotPerm e
  e'.get "cos_curr" = e.get "cos_prev2" ∧ e'.get "sin_curr" = e.get "sin_prev2" ∧
  e'.get "search_curr" = e.get "search_prev2" ∧ e'.get "scale_curr" = e.get "scale_prev" ∧
  e'.get "beta_curr" = e.get "beta_prev" ∧ e'.get "cos_prev1" = e.get "cos_curr" ∧
  e'.get "search_prev1" = e.get "search_curr" ∧ e'.get "search_prev2" = e.get "search_prev1"

instance (e : Env) : Decidable (RecyclesOldest e) := by unfold RecyclesOldest; infer_instance

theorem rotation_recycles_oldest (k : Nat) : RecyclesOldest (rotateN rotPerm k (env0 rotPermNames)) := by
  refine rotateN_forall rotPerm 6 (by decide) _ (by decide +kernel) RecyclesOldest ?_ k
  intro r hr
  have : r = 0 ∨ r = 1 ∨ r = 2 ∨ r = 3 ∨ r = 4 ∨ r = 5 := by omega
  rcases this with h | h | h | h | h | h <;> subst h <;> decide +kernel

/-- **`zvec_*` / `qvec_*` never alias** (the names that the rotation block *shifts*; complements `buffer_rotation_no_alias`).
With `prod` and `qvec_curr` freshly allocated in every iteration (they are results of the closure calls
`mm_(qvec_prev1)` / `preconditioner(zvec_curr)`, pinned by `loop_statements_mirrored`; `zvec_curr` is `prod` updated in
place), after any number `k` of iterations of the GENERATED shift assignments the three live names `zvec_prev2`, `zvec_prev1`,
`qvec_prev1` denote pairwise different buffers, all of them older than the next allocation — so the in-place updates
`prod.addcmul_`, `zvec_curr.div_`, `qvec_curr.div_` of the next iteration never write into a live Lanczos vector.
(Assumes the closures return new tensors; a preconditioner returning its argument would alias `qvec_curr` with `zvec_curr`.) -/
theorem lanczos_shift_no_alias (k : Nat) :
    let st := allocN rotShift shiftFresh k (env0 shiftNames, shiftNames.length)
    st.1.get "zvec_prev2" ≠ st.1.get "zvec_prev1" ∧ st.1.get "zvec_prev1" ≠ st.1.get "qvec_prev1" ∧
    st.1.get "zvec_prev2" ≠ st.1.get "qvec_prev1" ∧
    st.1.get "zvec_prev2" < st.2 ∧ st.1.get "zvec_prev1" < st.2 ∧ st.1.get "qvec_prev1" < st.2 := by
  intro st
  refine (allocN_inv rotShift shiftFresh ?_ k _ ?_).get
  · rintro ⟨e, f⟩ ⟨a, b, p, c, q, he, h1, h2, h3, h4, h5, h6⟩
    simp only at he h4 h5 h6
    subst he
    refine ⟨b, f, f, f + 1, f + 1, rfl, ?_, ?_, ?_, ?_, ?_, ?_⟩ <;> first | omega | (show _ < f + 2; omega)
  · exact ⟨0, 1, 2, 3, 4, rfl, by decide, by decide, by decide, by decide, by decide, by decide⟩

/-! ### shapes -/

/-- **`minres_shift_dim`** — with `shifts=None` the result has the shape of the (broadcast) right-hand side; a vector
right-hand side loses its column dimension. -/
theorem minres_shape_no_shifts (prodShape : List Nat) (vec : Bool) (h : prodShape ≠ []) :
    outShape none prodShape vec = if vec then prodShape.dropLast else prodShape := by
  have hrep : ∀ m, prodNat (List.replicate m 1) = 1 := by
    intro m
    unfold prodNat
    induction m with
    | zero => rfl
    | succ m ih => simpa [List.replicate_succ] using ih
  have h1 : prodNat (padShifts [] prodShape.length) = 1 := by
    simp only [padShifts, List.nil_append, List.length_nil, Nat.sub_zero]; exact hrep _
  have h2 : (padShifts [] prodShape.length).take 1 = [1] := by
    simp [padShifts, List.replicate_succ]
  cases prodShape with
  | nil => exact absurd rfl h
  | cons a l =>
    unfold outShape
    simp only [Option.getD_none, h1, h2, if_true]
    cases vec <;> simp [List.dropLast]

/-- **`minres_shift_dim`** — with a shift tensor of shape `q :: rest` the result has the leading dimension `q` exactly
when the shift tensor has more than one element (`numel` of the padded tensor ≠ 1); the remaining dimensions are those of
the right-hand side (minus the column dimension for a vector). -/
theorem minres_shift_dim (q : Nat) (rest prodShape : List Nat) (vec : Bool) (h : prodShape ≠ []) :
    outShape (some (q :: rest)) prodShape vec =
      (if prodNat (padShifts (q :: rest) prodShape.length) = 1 then [] else [q]) ++
        (if vec then prodShape.dropLast else prodShape) := by
  cases prodShape with
  | nil => exact absurd rfl h
  | cons a l =>
    cases vec <;> by_cases hn : prodNat (padShifts (q :: rest) (a :: l).length) = 1 <;>
      simp [outShape, padShifts, List.dropLast] at hn ⊢ <;> simp [hn]

/-! ### Givens rotations and the search recurrence -/

section field
variable {α : Type} [Field α]

/-- **`givens_qr_invariant`** (one step, any shift, any history): provided the radius is a genuine square root of
`diag² + β²` and non-zero, the new rotation is orthogonal (`c² + s² = 1`), annihilates the sub-diagonal entry `β_curr`
(`−s·diag + c·β = 0`), and the rotated diagonal entry `diag_term` equals the radius. -/
theorem givens_qr_invariant (N : NumOps α) (shift alpha bp bc : α) {n : Nat} (g : Gv α n)
    (hr : (rotTerms N shift alpha bp bc g).radius * (rotTerms N shift alpha bp bc g).radius =
          (rotTerms N shift alpha bp bc g).diag0 * (rotTerms N shift alpha bp bc g).diag0 + bc * bc)
    (hne : (rotTerms N shift alpha bp bc g).radius ≠ 0) :
    let r := rotTerms N shift alpha bp bc g
    r.cosc * r.cosc + r.sinc * r.sinc = 1 ∧ -r.sinc * r.diag0 + r.cosc * bc = 0 ∧ r.diag = r.radius := by
  intro r
  have hr' : r.radius * r.radius = r.diag0 * r.diag0 + bc * bc := hr
  have hne' : r.radius ≠ 0 := hne
  have hc : r.cosc = r.diag0 / r.radius := rfl
  have hs : r.sinc = bc / r.radius := rfl
  have hd : r.diag = r.diag0 * r.cosc + r.sinc * bc := rfl
  refine ⟨?_, ?_, ?_⟩
  · rw [hc, hs]; field_simp; linear_combination -hr'
  · rw [hc, hs]; field_simp; ring
  · rw [hd, hc, hs]; field_simp; linear_combination -hr'

/-- The three tracked terms are the column `(0, β_prev, α + s, β_curr)` of the shifted tridiagonal matrix after the
rotations from two steps ago and one step ago: `(subsub, sub₀) = G(c₂,s₂)(0, β_prev)`, `(sub, diag₀) = G(c₁,s₁)(sub₀, α+s)`
with `G(c,s)(x,y) = (c x + s y, −s x + c y)`.  The shift enters only through the diagonal entry `α + s`. -/
theorem givens_column (N : NumOps α) (shift alpha bp bc : α) {n : Nat} (g : Gv α n) :
    let r := rotTerms N shift alpha bp bc g
    r.subsub = g.cos2 * 0 + g.sin2 * bp ∧
    r.sub = g.cos1 * (-g.sin2 * 0 + g.cos2 * bp) + g.sin1 * (alpha + shift) ∧
    r.diag0 = -g.sin1 * (-g.sin2 * 0 + g.cos2 * bp) + g.cos1 * (alpha + shift) := by
  intro r
  refine ⟨?_, ?_, ?_⟩ <;> simp only [r, rotTerms] <;> ring

/-- **Search recurrence** (`D R = Q` column by column): the new search vector `d_j` satisfies
`diag·d_j + sub·d_{j−1} + subsub·d_{j−2} = q_j`, i.e. the search vectors are the columns of `Q R⁻¹`; the solution is
advanced by `d_j` times the rotated right-hand-side entry, and the names are rotated correctly
(`prev2 := prev1`, `prev1 := curr`). -/
theorem search_recurrence (N : NumOps α) (shift alpha bp bc : α) {n : Nat} (q1 : Vec α n) (g : Gv α n)
    (hd : (rotTerms N shift alpha bp bc g).diag ≠ 0) (i : Fin n) :
    let r := rotTerms N shift alpha bp bc g
    let g' := givensStep N shift q1 alpha bp bc g
    r.diag * g'.s1 i + r.sub * g.s1 i + r.subsub * g.s2 i = q1 i ∧
    g'.s2 = g.s1 ∧ g'.cos2 = g.cos1 ∧ g'.sin2 = g.sin1 ∧ g'.cos1 = r.cosc ∧ g'.sin1 = r.sinc ∧
    g'.sol i = g.sol i + g'.s1 i * (g.scalePrev * r.cosc) ∧ g'.scalePrev = -(g.scalePrev * r.sinc) := by
  intro r g'
  have hd' : r.diag ≠ 0 := hd
  refine ⟨?_, rfl, rfl, rfl, rfl, rfl, ?_, ?_⟩
  · have hs1 : g'.s1 i = (q1 i - r.sub * g.s1 i - r.subsub * g.s2 i) / r.diag := by
      simp [g', givensStep, r]
    rw [hs1]; field_simp; ring
  · simp [g', givensStep, r]
  · simp [g', givensStep, r]

/-! ### Lanczos part: the shift enters only on the diagonal -/

/-- **`minres_lanczos_part`** — one Lanczos step of the *shifted pencil* `K + σ·P` (where `P` inverts the preconditioner
on the current vector: `P q = z`, and `⟨z, q⟩ = 1`) produces the same vectors and the same `β` as the step for `K`, and
`α + σ` instead of `α`: this is why one Lanczos recurrence serves all shifts (`alpha_shifted_curr = alpha_curr + shifts`).
Without preconditioner `P = id` and the pencil is `K + σI`; **with** a preconditioner the systems solved are
`(K + σP)x = b`, not `(K + σI)x = b` (listed finding). -/
theorem minres_lanczos_part (N : NumOps α) (P : Params α) {n : Nat} (s : Sys α n) (l : Lz α n) (σ : α)
    (pinv : Vec α n → Vec α n) (hv : P.value = none) (hq : pinv l.q1 = l.z1) (hnorm : dot l.z1 l.q1 = 1) :
    let sσ : Sys α n := { s with amul := fun v i => s.amul v i + σ * pinv v i }
    (lanczosStep N P sσ l).alpha = (lanczosStep N P s l).alpha + σ ∧
    (lanczosStep N P sσ l).zc = (lanczosStep N P s l).zc ∧
    (lanczosStep N P sσ l).qc = (lanczosStep N P s l).qc ∧
    (lanczosStep N P sσ l).betaCurr = (lanczosStep N P s l).betaCurr := by
  intro sσ
  have ha : (lanczosStep N P sσ l).alpha = (lanczosStep N P s l).alpha + σ := by
    simp only [lanczosStep, applyA, hv, mem_eq, sσ, hq]
    rw [dot_add_smul_left, hnorm, mul_one]
  have hz : (fun i => applyA P sσ l.q1 i - (lanczosStep N P sσ l).alpha * l.z1 i - l.betaPrev * l.z2 i) =
      (fun i => applyA P s l.q1 i - (lanczosStep N P s l).alpha * l.z1 i - l.betaPrev * l.z2 i) := by
    funext i
    rw [ha]
    simp only [applyA, hv, sσ, hq]
    ring
  simp only [lanczosStep, mem_eq] at hz
  have hzi := fun i => congrFun hz i
  refine ⟨ha, ?_, ?_, ?_⟩ <;>
    · simp only [lanczosStep, mem_eq, hz, hzi]
      rfl

/-! ### zero right-hand side, scaling -/

/-- **`minres_zero_rhs`** — a right-hand-side column whose norm is below the threshold (in particular a zero column:
`sqrt 0 = 0 < 1e-10`) yields the zero solution for every shift, whatever the iteration produced (the masked fill comes
after the loop). -/
theorem minres_zero_rhs (N : NumOps α) (P : Params α) {n : Nat} (s : Sys α n) (c : ColSt α n)
    (hz : N.lt (norm2 N s.rhs) P.zeroThresh = true) :
    ∀ v ∈ finishCol (prep N P s) c, v = fun _ => 0 := by
  intro v hv
  simp only [finishCol, prep, hz, List.mem_map, mem_eq] at hv
  obtain ⟨g, _, rfl⟩ := hv
  funext i; simp

/-- The zero vector is below the threshold as soon as `sqrt 0 = 0` and `0 < threshold`. -/
theorem zero_rhs_detected (N : NumOps α) (P : Params α) {n : Nat} (s : Sys α n) (h0 : s.rhs = fun _ => 0)
    (hs : N.sqrt 0 = 0) (hlt : N.lt 0 P.zeroThresh = true) : N.lt (norm2 N s.rhs) P.zeroThresh = true := by
  rw [norm2, h0, dot_zero_left, hs, hlt]

/-- The loop never reads the right-hand side: the iteration only sees the closures and the shifts
(`colStep` of a system with another rhs is the same function). -/
theorem colStep_rhs_irrelevant (N : NumOps α) (P : Params α) {n : Nat} (s : Sys α n) (r' : Vec α n) (c : ColSt α n) :
    colStep N P { s with rhs := r' } c = colStep N P s c := rfl

/-- **`minres_linear_in_rhs`** (scaling through the normalisation) — for `c > 0` (as a field element with
`sqrt (c² t) = c sqrt t`) and columns above the zero threshold, the normalised right-hand side handed to the iteration is
the same for `b` and `c·b`, and the final un-normalisation factor is multiplied by `c`: hence `x(c·b) = c·x(b)`,
for every shift and every iteration count. -/
theorem minres_linear_in_rhs (N : NumOps α) (P : Params α) {n : Nat} (s : Sys α n) (c : α) (hc : c ≠ 0)
    (hsq : N.sqrt (dot (fun i => c * s.rhs i) (fun i => c * s.rhs i)) = c * N.sqrt (dot s.rhs s.rhs))
    (hnz : N.lt (norm2 N s.rhs) P.zeroThresh = false)
    (hnz' : N.lt (c * norm2 N s.rhs) P.zeroThresh = false) (hn : norm2 N s.rhs ≠ 0) :
    let s' : Sys α n := { s with rhs := fun i => c * s.rhs i }
    (prep N P s').b = (prep N P s).b ∧ (prep N P s').nrm = c * (prep N P s).nrm ∧
    ∀ st : ColSt α n, finishCol (prep N P s') st = (finishCol (prep N P s) st).map fun v => fun i => c * v i := by
  intro s'
  have hn' : norm2 N s'.rhs = c * norm2 N s.rhs := hsq
  have hb : (prep N P s').b = (prep N P s).b := by
    simp only [prep, mem_eq, hn', hnz, hnz', Bool.false_eq_true, if_false]
    funext i
    show c * s.rhs i / (c * norm2 N s.rhs) = s.rhs i / norm2 N s.rhs
    field_simp
  have hm : (prep N P s').nrm = c * (prep N P s).nrm := by
    simp only [prep, hn', hnz, hnz', Bool.false_eq_true, if_false]
  refine ⟨hb, hm, ?_⟩
  intro st
  have hz1 : (prep N P s').isZero = false := by simp only [prep, hn', hnz']
  have hz2 : (prep N P s).isZero = false := by simp only [prep, hnz]
  simp only [finishCol, mem_eq, hz1, hz2, hm, List.map_map, Bool.false_eq_true, if_false]
  apply List.map_congr_left
  intro g _
  funext i
  simp only [Function.comp]
  ring

/-! ### contour-integral plumbing -/

/-- **`ciq_plumbing`** — given an exact shifted solver (`solver shifts b = shifts.map (R · b)` with `R s b` the
solution of `(−K + sI)x = b`), `contour_integral_quad` returns the solve for the first shift (`0 − shift_offset`) as
`no_shift_solves`, and for the remaining shifts `w_q² − shift_offset` the solves `R s_q b` (`inverse=True`) resp.
`K·R s_q b` (`inverse=False`), paired with the weights `cn·dn·constant` in the same order; hence
`Σ_q w_q·solves_q = Σ_q w_q (−K + s_q I)⁻¹ b` resp. `K·` that. -/
theorem ciq_plumbing (N : NumOps α) {n : Nat} (R : α → Vec α n → Vec α n) (kmul : Vec α n → Vec α n) (e : Ellip α)
    (off : α) (inverse : Bool) (b : Vec α n) :
    let o := ciq N (fun shifts b => shifts.map fun s => R s b) kmul e off inverse b
    o.noShift = R (0 - off) b ∧
    o.solves = (ellipWPow2 N e).map (fun w => if inverse then R (w - off) b else kmul (R (w - off) b)) ∧
    o.weights = ciqWeights N e ∧ o.shifts = (0 - off) :: (ellipWPow2 N e).map (· - off) := by
  intro o
  refine ⟨?_, ?_, rfl, ?_⟩
  · simp [o, ciq, ciqShifts]
  · cases inverse <;> simp [o, ciq, ciqShifts, List.map_map, Function.comp]
  · simp [o, ciq, ciqShifts]

/-- **`sqrtInvMatmul_lhs`** — in the left-factor variant the `inv_quad` output is `diag(L K⁻¹ Lᵀ)`: if the unshifted
solve returned by CIQ for a column `l` is `−K⁻¹ l` (it solves `(−K)x = l`), then entry `i` of `inv_quad_res` is
`⟨K⁻¹ lᵢ, lᵢ⟩` for the `i`-th row `lᵢ` of `lhs` — the rows are found at the right place of the concatenated
`[rhs, lhsᵀ]` and the sign is undone. -/
theorem sqrtInvMatmul_lhs {n : Nat} (ciqCol : Vec α n → CiqOut α n) (kinv : Vec α n → Vec α n)
    (hsolve : ∀ l, (ciqCol l).noShift = fun i => -(kinv l i)) (rhsCols lhsRows : List (Vec α n)) :
    (sqrtInvMatmulLhs ciqCol rhsCols lhsRows).2 = lhsRows.map fun l => dot (kinv l) l := by
  simp only [sqrtInvMatmulLhs, List.length_append, Nat.add_sub_cancel, List.map_append, List.drop_left',
    List.length_map]
  rw [List.zipWith_map_right]
  have hf : (fun (a b : Vec α n) => dot (ciqCol b).noShift a * (-(1 : α))) = fun a b => dot (kinv b) a := by
    funext a b
    rw [hsolve, dot_neg_left]; ring
  rw [hf, List.zipWith_self]

/-- The `sqrt_inv_matmul_res` output uses exactly the first `rhs.size(-1)` columns of the concatenation. -/
theorem sqrtInvMatmul_lhs_result {n : Nat} (ciqCol : Vec α n → CiqOut α n) (rhsCols lhsRows : List (Vec α n)) :
    (sqrtInvMatmulLhs ciqCol rhsCols lhsRows).1 =
      lhsRows.map fun l => (sqrtInvMatmul ciqCol rhsCols).map fun c => dot l c := by
  simp [sqrtInvMatmulLhs, sqrtInvMatmul, List.map_append, List.take_left']

end field

/-! ### MINRES: global statements about the whole iteration

`trk N P s σ (track0 N s b) j` is the state `(Lanczos variables, Givens/solution variables)` of the pair (column `s`, shift
`σ`) after `j` executions of the loop body, started from the normalised right-hand side `b` — by `minres_output_is_track`
this is what the model's `minres` returns (`j = iters`).  `A` is the effective operator `v ↦ value · matmul_closure(v)`,
`pinv` inverts the preconditioner (`LinearMap.id` without one): the systems are `(A + σ·pinv) x = b`. -/

section minres_global
variable {α : Type} [Field α] {n : Nat}

/-- **Output = iterated loop body.**  For column `m` (system `s`) and shift number `k` (value `σ`) the model's `minres`
returns `solution` of the track `(s, σ)` after `iters ≤ min(max_iter, n+1)+2` iterations — whatever the convergence test
decided, all columns and shifts stop at the same `iters` — masked for a zero column and multiplied by `rhs_norm`. -/
theorem minres_output_is_track (N : NumOps α) (P : Params α) (sys : List (Sys α n)) (m k : Nat) (s : Sys α n) (σ : α)
    (hs : sys[m]? = some s) (hσ : s.shifts[k]? = some σ) :
    (minres N P sys).iters ≤ nIter P n ∧
    ∃ col, (minres N P sys).x[m]? = some col ∧
      col[k]? = some (fun i => (if (prep N P s).isZero then 0
        else (trk N P s σ (track0 N s (prep N P s).b) (minres N P sys).iters).2.sol i) * (prep N P s).nrm) :=
  minres_output_track N P sys m k s σ hs hσ

/-- The `scales` output of the model (printed by the driver, compared by the harness with the true residual norm of the REAL
implementation's result) is `scale_prev · rhs_norm` of the track after `iters` iterations. -/
theorem minres_output_scale_is_track (N : NumOps α) (P : Params α) (sys : List (Sys α n)) (m k : Nat) (s : Sys α n)
    (σ : α) (hs : sys[m]? = some s) (hσ : s.shifts[k]? = some σ) :
    ∃ col, (minres N P sys).scales[m]? = some col ∧
      col[k]? = some ((trk N P s σ (track0 N s (prep N P s).b) (minres N P sys).iters).2.scalePrev * (prep N P s).nrm) :=
  minres_output_scale N P sys m k s σ hs hσ

/-- **Residual of the RETURNED solution for the ORIGINAL right-hand side.**  For a column above the zero threshold
(`rhs_norm ≠ 0`), the vector `x_out = solution · rhs_norm` returned by `minres` satisfies
`rhs − (A + σ·pinv) x_out = rhs_norm · (b̂ − (A + σ·pinv) x_j)` with `b̂ = rhs / rhs_norm` the normalised right-hand side the
iteration ran on: un-normalisation commutes with the residual.  With `minres_residual_norm` this gives
`‖rhs − (A+σI) x_out‖ = |scale_prev_j| · rhs_norm` — the `scales` output of the model that the harness compares with the
true residual norm of the real implementation's result. -/
theorem minres_returned_residual (N : NumOps α) (P : Params α) (s : Sys α n) (σ : α) (A pinv : Vec α n →ₗ[α] Vec α n)
    (hnz : (prep N P s).isZero = false) (hn : (prep N P s).nrm ≠ 0) (xj : Vec α n) (i : Fin n) :
    s.rhs i - (A (fun i => (if (prep N P s).isZero then 0 else xj i) * (prep N P s).nrm) i +
        σ * pinv (fun i => (if (prep N P s).isZero then 0 else xj i) * (prep N P s).nrm) i) =
      (prep N P s).nrm * ((prep N P s).b i - (A xj i + σ * pinv xj i)) := by
  have hx : (fun i => (if (prep N P s).isZero then 0 else xj i) * (prep N P s).nrm) = (prep N P s).nrm • xj := by
    funext k; simp only [hnz, Bool.false_eq_true, if_false, Pi.smul_apply, smul_eq_mul]; ring
  have hb : (prep N P s).b i = s.rhs i / (prep N P s).nrm := by simp only [prep, mem_eq]
  rw [hx, map_smul, map_smul, hb]
  simp only [Pi.smul_apply, smul_eq_mul]
  field_simp

/-- **Residual recurrence (ghost-free, any preconditioner, clamped or not).**  As long as the steps are regular
(`beta_curr ≠ 0` after the clamp, `radius_curr` a genuine non-zero root — automatic in exact arithmetic, see
`minres_regular_of_exact`), the true residual `r_j = b − (A + σ·pinv) x_j` of the model's iterate obeys
`r_0 = b`, `r_{j+1} = s_{j+1}² r_j + (φ̄_{j+1} c_{j+1}) z_{j+2}` with `s, c` the Givens coefficients, `φ̄ = scale_prev` and
`z_{j+2}` the newest Lanczos vector.  No orthogonality is used: this is an algebraic identity of the recurrences. -/
theorem minres_residual_recurrence (N : NumOps α) (P : Params α) (s : Sys α n) (σ : α) (A pinv : Vec α n →ₗ[α] Vec α n)
    (hA : ∀ v, applyA P s v = A v) (hpre : ∀ v, pinv (s.pre v) = v) (b : Vec α n)
    (hb0 : (initLz N s b).betaPrev ≠ 0) (J : Nat) (hreg : Regular N P s σ (track0 N s b) J) (j : Nat) (hj : j + 1 ≤ J)
    (i : Fin n) :
    b i - (A (trk N P s σ (track0 N s b) 0).2.sol i + σ * pinv (trk N P s σ (track0 N s b) 0).2.sol i) = b i ∧
    b i - (A (trk N P s σ (track0 N s b) (j + 1)).2.sol i + σ * pinv (trk N P s σ (track0 N s b) (j + 1)).2.sol i) =
      (trk N P s σ (track0 N s b) (j + 1)).2.sin1 * (trk N P s σ (track0 N s b) (j + 1)).2.sin1 *
        (b i - (A (trk N P s σ (track0 N s b) j).2.sol i + σ * pinv (trk N P s σ (track0 N s b) j).2.sol i)) +
      (trk N P s σ (track0 N s b) (j + 1)).2.scalePrev * (trk N P s σ (track0 N s b) (j + 1)).2.cos1 *
        (trk N P s σ (track0 N s b) (j + 1)).1.z1 i := by
  constructor
  · have h0 : (trk N P s σ (track0 N s b) 0).2.sol = 0 := rfl
    rw [h0, map_zero, map_zero]; simp
  · have h1 := (trackInv_iter N P s σ A pinv hA hpre b hb0 J hreg j (by omega)).res i
    have h2 := (trackInv_iter N P s σ A pinv hA hpre b hb0 J hreg (j + 1) hj).res i
    have hm := resDir_succ N P s σ (track0 N s b) j i
    have hsc := scale_succ N P s σ (track0 N s b) j
    unfold resDir at hm
    rw [hm] at h2
    rw [h2, h1, hsc]; ring

/-- **`minres_residual_norm`, scale part** (the code, no hypothesis): `scale_prev` after `j` iterations is
`(−1)^j · β₀ · s_1 s_2 ⋯ s_j` (`β₀ = beta_prev` before the loop). -/
theorem minres_scale_product (N : NumOps α) (P : Params α) (s : Sys α n) (σ : α) (b : Vec α n) (j : Nat) :
    (trk N P s σ (track0 N s b) j).2.scalePrev =
      (-1) ^ j * (initLz N s b).betaPrev * ∏ k ∈ Finset.range j, (trk N P s σ (track0 N s b) (k + 1)).2.sin1 :=
  scale_prod N P s σ (track0 N s b) j

/-- **`minres_residual_norm`** — without preconditioner (`pre = id`), if the Lanczos vectors `z_0 … z_J` produced by the
model are orthonormal (hypothesis `LanczosOrthonormal`: the C09-style exact-arithmetic Lanczos property, which needs a
symmetric closure and no clamping; NOT re-proved here), then for every `j ≤ J` the squared norm of the true residual
`b − (A + σI) x_j` equals `scale_prev²`, i.e. `‖r_j‖ = β₀ |s_1 ⋯ s_j|` by `minres_scale_product`. -/
theorem minres_residual_norm (N : NumOps α) (P : Params α) (s : Sys α n) (σ : α) (A : Vec α n →ₗ[α] Vec α n)
    (hA : ∀ v, applyA P s v = A v) (hpre : ∀ v, s.pre v = v) (b : Vec α n)
    (hb0 : (initLz N s b).betaPrev ≠ 0) (J : Nat) (hreg : Regular N P s σ (track0 N s b) J)
    (horth : LanczosOrthonormal N P s σ (track0 N s b) J) (j : Nat) (hj : j ≤ J) :
    dot (fun i => b i - (A (trk N P s σ (track0 N s b) j).2.sol i + σ * (trk N P s σ (track0 N s b) j).2.sol i))
        (fun i => b i - (A (trk N P s σ (track0 N s b) j).2.sol i + σ * (trk N P s σ (track0 N s b) j).2.sol i)) =
      (trk N P s σ (track0 N s b) j).2.scalePrev * (trk N P s σ (track0 N s b) j).2.scalePrev := by
  have hinv := fun j hj => trackInv_iter N P s σ A LinearMap.id hA (fun v => by rw [hpre]; rfl) b hb0 J hreg j hj
  have hfr := frame N P s σ (track0 N s b) J horth (fun j hj => (hinv j hj).rot1)
    (by funext i; simp [resDir, ghost, gM1, gM0, trk, track0, initGv])
    (by funext i; simp [imgDir, ghost, gP1, gM0, trk, track0, initGv, initLz]) j hj
  have hres : (fun i => b i - (A (trk N P s σ (track0 N s b) j).2.sol i + σ * (trk N P s σ (track0 N s b) j).2.sol i)) =
      fun i => (trk N P s σ (track0 N s b) j).2.scalePrev * resDir N P s σ (track0 N s b) j i + 0 * b i := by
    funext i
    have := (hinv j hj).res i
    simp only [LinearMap.id_apply] at this
    rw [this]; unfold resDir; ring
  rw [hres, dot_lin_left, dot_lin_right, dot_lin_right, hfr.1]
  ring

/-- **`minres_residual_norm` with a preconditioner.**  Let the preconditioner closure be a symmetric linear map `Mi`
(`= M⁻¹`, with left inverse `pinv = M`), and let the Lanczos vectors be `M⁻¹`-orthonormal (`⟨z_a, M⁻¹ z_b⟩ = δ_ab`, i.e.
`⟨zvec_a, qvec_b⟩ = δ_ab`; hypothesis, not re-proved).  Then the residual of the system that is actually solved — the pencil
`(A + σM) x = b`, see `minres_lanczos_part` and finding F1 — has squared `M⁻¹`-norm `scale_prev²` after every `j ≤ J`
regular iterations: `⟨r_j, M⁻¹ r_j⟩ = scale_prev_j²`. -/
theorem minres_residual_norm_preconditioned (N : NumOps α) (P : Params α) (s : Sys α n) (σ : α)
    (A pinv Mi : Vec α n →ₗ[α] Vec α n) (hA : ∀ v, applyA P s v = A v) (hpre : ∀ v, s.pre v = Mi v)
    (hinv : ∀ v, pinv (Mi v) = v) (hMsym : ∀ u v, dot u (Mi v) = dot (Mi u) v) (b : Vec α n)
    (hb0 : (initLz N s b).betaPrev ≠ 0) (J : Nat) (hreg : Regular N P s σ (track0 N s b) J)
    (horth : ∀ a c, a ≤ J → c ≤ J → dot (trk N P s σ (track0 N s b) a).1.z1
      (Mi (trk N P s σ (track0 N s b) c).1.z1) = if a = c then 1 else 0) (j : Nat) (hj : j ≤ J) :
    dot (fun i => b i - (A (trk N P s σ (track0 N s b) j).2.sol i + σ * pinv (trk N P s σ (track0 N s b) j).2.sol i))
        (Mi fun i => b i - (A (trk N P s σ (track0 N s b) j).2.sol i +
          σ * pinv (trk N P s σ (track0 N s b) j).2.sol i)) =
      (trk N P s σ (track0 N s b) j).2.scalePrev * (trk N P s σ (track0 N s b) j).2.scalePrev := by
  have hinv' := fun j hj => trackInv_iter N P s σ A pinv hA (fun v => by rw [hpre, hinv]) b hb0 J hreg j hj
  have hBl : ∀ (a c : α) (u v w : Vec α n), dot (fun i => a * u i + c * v i) (Mi w) = a * dot u (Mi w) + c * dot v (Mi w) :=
    fun a c u v w => dot_lin_left a c u v (Mi w)
  have hBc : ∀ u v : Vec α n, dot u (Mi v) = dot v (Mi u) := fun u v => by rw [hMsym, dot_comm]
  have hfr := frameB N P s σ (track0 N s b) (fun u v => dot u (Mi v)) hBl hBc J horth (fun j hj => (hinv' j hj).rot1)
    (by funext i; simp [resDir, ghost, gM1, gM0, trk, track0, initGv])
    (by funext i; simp [imgDir, ghost, gP1, gM0, trk, track0, initGv, initLz]) j hj
  have hres : (fun i => b i - (A (trk N P s σ (track0 N s b) j).2.sol i +
      σ * pinv (trk N P s σ (track0 N s b) j).2.sol i)) =
      fun i => (trk N P s σ (track0 N s b) j).2.scalePrev * resDir N P s σ (track0 N s b) j i +
        0 * resDir N P s σ (track0 N s b) j i := by
    funext i
    rw [(hinv' j hj).res i]; unfold resDir; ring
  rw [hres, hBl, hBc, hBl, hfr.1]
  ring

/-- **MINRES as a QR least-squares solve (`x_j = Q_j R_j⁻¹ t_j`), vector form.**  Without preconditioner and with
orthonormal Lanczos vectors (hypothesis, see `minres_residual_norm`), after `j ≤ J` regular iterations there are vectors
`p_1 … p_j, m` (columns of `Z_{j+1} G_1ᵀ ⋯ G_jᵀ`) such that
* `p_1 … p_j, m` are orthonormal;
* `(A + σI) d_k = p_k` for the search vectors `d_k` (`search_curr` of iteration `k`) — and `D R = Q` column by column
  (`z_k = diag·d_{k+1} + sub·d_k + subsub·d_{k−1}` with the three terms of `_jit_minres_updates`), so that
  `(A + σI) Q_j = P_j R_j` is a QR factorisation with `R_j` upper triangular (three bands);
* `b = Σ_k τ_k p_k + φ̄_j m` with `τ_k = φ̄_{k−1} c_k` (i.e. `(t_j, φ̄_j) = G_j ⋯ G_1 β₀e₁`), and `x_j = Σ_k τ_k d_k = D_j t_j`.
Hence `x_j = Q_j R_j⁻¹ t_j` where `y_j = R_j⁻¹ t_j` solves `min ‖b − (A+σI) Q_j y‖ = min ‖β₀e₁ − T̄_j y‖`
(`minres_optimal` is that minimisation statement). -/
theorem minres_qr_identity (N : NumOps α) (P : Params α) (s : Sys α n) (σ : α) (A : Vec α n →ₗ[α] Vec α n)
    (hA : ∀ v, applyA P s v = A v) (hpre : ∀ v, s.pre v = v) (b : Vec α n)
    (hb0 : (initLz N s b).betaPrev ≠ 0) (J : Nat) (hreg : Regular N P s σ (track0 N s b) J)
    (horth : LanczosOrthonormal N P s σ (track0 N s b) J) (j : Nat) (hj : j ≤ J) :
    ∃ (p : Nat → Vec α n) (m : Vec α n),
      (∀ a c, 1 ≤ a → a ≤ c → c ≤ j → dot (p a) (p c) = if a = c then 1 else 0) ∧
      (∀ a, a ≤ j → dot (p a) m = 0) ∧ dot m m = 1 ∧
      (∀ k, k ≤ j → ∀ i, A (trk N P s σ (track0 N s b) k).2.s1 i + σ * (trk N P s σ (track0 N s b) k).2.s1 i = p k i) ∧
      (∀ i, b i - (A (trk N P s σ (track0 N s b) j).2.sol i + σ * (trk N P s σ (track0 N s b) j).2.sol i) =
        (trk N P s σ (track0 N s b) j).2.scalePrev * m i) ∧
      (trk N P s σ (track0 N s b) j).2.sol = ∑ k ∈ Finset.range j,
        ((trk N P s σ (track0 N s b) k).2.scalePrev * (trk N P s σ (track0 N s b) (k + 1)).2.cos1) •
          (trk N P s σ (track0 N s b) (k + 1)).2.s1 ∧
      (∀ k, k < j → ∀ i,
        let t := trk N P s σ (track0 N s b) k
        let o := lanczosStep N P s t.1
        let r := rotTerms N σ o.alpha t.1.betaPrev o.betaCurr t.2
        t.1.z1 i = r.diag * (trk N P s σ (track0 N s b) (k + 1)).2.s1 i + r.sub * t.2.s1 i + r.subsub * t.2.s2 i) := by
  have hinv := fun j hj => trackInv_iter N P s σ A LinearMap.id hA (fun v => by rw [hpre]; rfl) b hb0 J hreg j hj
  have hm0 : resDir N P s σ (track0 N s b) 0 = (trk N P s σ (track0 N s b) 0).1.z1 := by
    funext i; simp [resDir, ghost, gM1, gM0, trk, track0, initGv]
  have hp0 : imgDir N P s σ (track0 N s b) 0 = fun _ => 0 := by
    funext i; simp [imgDir, ghost, gP1, gM0, trk, track0, initGv, initLz]
  have hrot := fun j hj => (hinv j hj).rot1
  have hfr := frame N P s σ (track0 N s b) J horth hrot hm0 hp0 j hj
  refine ⟨imgDir N P s σ (track0 N s b), resDir N P s σ (track0 N s b) j, ?_, hfr.2.2.1, hfr.1, ?_, ?_, ?_, ?_⟩
  · intro a c ha hac hc
    exact frame_img N P s σ (track0 N s b) J horth hrot hm0 hp0 a c hac ha (by omega)
  · intro k hk i
    have := (hinv k (by omega)).As1 i
    simp only [LinearMap.id_apply] at this
    exact this
  · intro i
    have := (hinv j hj).res i
    simp only [LinearMap.id_apply] at this
    exact this
  · exact sol_sum N P s σ (track0 N s b) rfl j
  · intro k hk i t o r
    have hok := hreg k (by omega)
    obtain ⟨hbc, hrad, hr0⟩ := hok
    have hq : t.1.q1 = t.1.z1 := by
      have := (hinv k (by omega)).pq
      simpa only [LinearMap.id_apply] using this
    have hd : r.diag ≠ 0 := by
      have := (givens_qr_invariant N σ o.alpha t.1.betaPrev o.betaCurr t.2 hrad hr0).2.2
      show (rotTerms N σ o.alpha t.1.betaPrev o.betaCurr t.2).diag ≠ 0
      rw [this]; exact hr0
    have hsr := (search_recurrence N σ o.alpha t.1.betaPrev o.betaCurr t.1.q1 t.2 hd i).1
    rw [← hq]
    have e : (trk N P s σ (track0 N s b) (k + 1)).2.s1 =
        (givensStep N σ t.1.q1 o.alpha t.1.betaPrev o.betaCurr t.2).s1 := by rw [trk_succ]; rfl
    rw [e]
    linear_combination -hsr

/-- **The search vectors span the Krylov space** (no preconditioner, regular steps, `j ≤ J`): the model's iterate `x_j` lies
in `𝒦_j = span{b, Ab, …, A^{j−1}b}` (`A` the effective operator — the shift does not change the space), and every element of
`𝒦_j` is a combination `Σ_{k<j} y_k d_{k+1}` of the search vectors. -/
theorem minres_krylov_space (N : NumOps α) (P : Params α) (s : Sys α n) (σ : α) (A : Vec α n →ₗ[α] Vec α n)
    (hA : ∀ v, applyA P s v = A v) (hpre : ∀ v, s.pre v = v) (b : Vec α n)
    (hb0 : (initLz N s b).betaPrev ≠ 0) (J : Nat) (hreg : Regular N P s σ (track0 N s b) J) (j : Nat) (hj : j ≤ J) :
    (trk N P s σ (track0 N s b) j).2.sol ∈ Submodule.span α {v | ∃ i, i < j ∧ v = (A ^ i) b} ∧
    ∀ x ∈ Submodule.span α {v | ∃ i, i < j ∧ v = (A ^ i) b},
      ∃ y : Nat → α, x = ∑ k ∈ Finset.range j, y k • (trk N P s σ (track0 N s b) (k + 1)).2.s1 :=
  ⟨sol_mem_krylov N P s σ A hA hpre b hb0 J hreg j hj,
   fun x hx => exists_coeff _ j x (krylov_le_dspan N P s σ A hA hpre b hb0 J hreg j hj hx)⟩

end minres_global

/-! ### MINRES in exact arithmetic (ordered field, exact square root): optimality, monotonicity, breakdown -/

section minres_exact
variable {α : Type} [Field α] [LinearOrder α] [IsStrictOrderedRing α] {n : Nat}

/-- In exact arithmetic with `eps > 0` every iteration is regular, in every state: the clamp keeps `beta_curr ≥ eps > 0`,
hence `radius_curr = sqrt(diag² + beta_curr²) > 0`.  (So the `Regular` hypothesis of the theorems above is automatic; what the
clamp destroys is the *normalisation* of the next Lanczos vector, not the recurrences.) -/
theorem minres_regular_of_exact (N : NumOps α) (hN : ExactOps N) (P : Params α) (heps : 0 < P.eps) (s : Sys α n) (σ : α)
    (t0 : Lz α n × Gv α n) (J : Nat) : Regular N P s σ t0 J ∧
    ∀ j, P.eps ≤ (trk N P s σ t0 (j + 1)).1.betaPrev :=
  ⟨regular_of_exact N hN P heps s σ t0 J, fun j => by rw [trk_succ]; exact betaCurr_ge_eps N hN P s _⟩

/-- **MINRES optimality over the span of the search vectors** (exact arithmetic, no preconditioner, orthonormal Lanczos
vectors as hypothesis): for every coefficient vector `y` the residual of `x = Σ_{k<j} y_k d_{k+1}` is at least as long as the
residual of the model's iterate `x_j`, whose squared norm is `scale_prev²`.  (`span{d_1 … d_j}` is the Krylov space:
`minres_krylov_space`; the combined statement is `minres_optimal_over_krylov`.) -/
theorem minres_optimal (N : NumOps α) (hN : ExactOps N) (P : Params α) (heps : 0 < P.eps) (s : Sys α n) (σ : α)
    (A : Vec α n →ₗ[α] Vec α n) (hA : ∀ v, applyA P s v = A v) (hpre : ∀ v, s.pre v = v) (b : Vec α n)
    (hb0 : (initLz N s b).betaPrev ≠ 0) (J : Nat) (horth : LanczosOrthonormal N P s σ (track0 N s b) J) (j : Nat)
    (hj : j ≤ J) (y : Nat → α) :
    let L : Vec α n →ₗ[α] Vec α n := A + σ • LinearMap.id
    let xj := (trk N P s σ (track0 N s b) j).2.sol
    let x := ∑ k ∈ Finset.range j, y k • (trk N P s σ (track0 N s b) (k + 1)).2.s1
    (b - L xj) ⬝ᵥ (b - L xj) = (trk N P s σ (track0 N s b) j).2.scalePrev * (trk N P s σ (track0 N s b) j).2.scalePrev ∧
    (b - L xj) ⬝ᵥ (b - L xj) ≤ (b - L x) ⬝ᵥ (b - L x) := by
  intro L xj x
  have hreg := regular_of_exact N hN P heps s σ (track0 N s b) J
  have hinv := fun j hj => trackInv_iter N P s σ A LinearMap.id hA (fun v => by rw [hpre]; rfl) b hb0 J hreg j hj
  have hm0 : resDir N P s σ (track0 N s b) 0 = (trk N P s σ (track0 N s b) 0).1.z1 := by
    funext i; simp [resDir, ghost, gM1, gM0, trk, track0, initGv]
  have hp0 : imgDir N P s σ (track0 N s b) 0 = fun _ => 0 := by
    funext i; simp [imgDir, ghost, gP1, gM0, trk, track0, initGv, initLz]
  have hfr := frame N P s σ (track0 N s b) J horth (fun j hj => (hinv j hj).rot1) hm0 hp0 j hj
  have hLd : ∀ k, k < j → L ((fun k => (trk N P s σ (track0 N s b) (k + 1)).2.s1) k) =
      (fun k => imgDir N P s σ (track0 N s b) (k + 1)) k := by
    intro k hk
    funext i
    have := (hinv (k + 1) (by omega)).As1 i
    simp only [LinearMap.id_apply] at this
    simp only [L, LinearMap.add_apply, LinearMap.smul_apply, LinearMap.id_apply, Pi.add_apply, Pi.smul_apply,
      smul_eq_mul]
    exact this
  have hres : b - L xj = (trk N P s σ (track0 N s b) j).2.scalePrev • resDir N P s σ (track0 N s b) j := by
    funext i
    have := (hinv j hj).res i
    simp only [LinearMap.id_apply] at this
    simp only [L, xj, LinearMap.add_apply, LinearMap.smul_apply, LinearMap.id_apply, Pi.add_apply, Pi.smul_apply,
      Pi.sub_apply, smul_eq_mul]
    exact this
  have hcore := fun y => lsq_core L b xj (resDir N P s σ (track0 N s b) j) (trk N P s σ (track0 N s b) j).2.scalePrev
    (fun k => (trk N P s σ (track0 N s b) (k + 1)).2.s1) (fun k => imgDir N P s σ (track0 N s b) (k + 1))
    (fun k => (trk N P s σ (track0 N s b) k).2.scalePrev * (trk N P s σ (track0 N s b) (k + 1)).2.cos1) j
    (sol_sum N P s σ (track0 N s b) rfl j) hLd hres (by rw [← dot_eq_dotProduct]; exact hfr.1)
    (fun k hk => by rw [← dot_eq_dotProduct]; exact hfr.2.2.1 (k + 1) (by omega)) y
  have hself : (b - L xj) ⬝ᵥ (b - L xj) =
      (trk N P s σ (track0 N s b) j).2.scalePrev * (trk N P s σ (track0 N s b) j).2.scalePrev := by
    rw [hres, smul_dotProduct, dotProduct_smul, ← dot_eq_dotProduct, hfr.1]; simp
  refine ⟨hself, ?_⟩
  rw [hself, hcore y]
  have : 0 ≤ (∑ k ∈ Finset.range j, ((trk N P s σ (track0 N s b) k).2.scalePrev *
      (trk N P s σ (track0 N s b) (k + 1)).2.cos1 - y k) • imgDir N P s σ (track0 N s b) (k + 1)) ⬝ᵥ
      (∑ k ∈ Finset.range j, ((trk N P s σ (track0 N s b) k).2.scalePrev *
      (trk N P s σ (track0 N s b) (k + 1)).2.cos1 - y k) • imgDir N P s σ (track0 N s b) (k + 1)) :=
    Finset.sum_nonneg fun i _ => mul_self_nonneg _
  linarith

/-- **The residual norm never increases** (exact arithmetic; no orthogonality needed for the `scale` recurrence):
`scale_prev_{j+1}² = s_{j+1}² · scale_prev_j² ≤ scale_prev_j²`.  Together with `minres_residual_norm` (`‖r_j‖² = scale_prev_j²`
under orthonormal Lanczos vectors): `‖r_{j+1}‖ ≤ ‖r_j‖`. -/
theorem minres_residual_monotone (N : NumOps α) (hN : ExactOps N) (P : Params α) (heps : 0 < P.eps) (s : Sys α n) (σ : α)
    (A pinv : Vec α n →ₗ[α] Vec α n) (hA : ∀ v, applyA P s v = A v) (hpre : ∀ v, pinv (s.pre v) = v) (b : Vec α n)
    (hb0 : (initLz N s b).betaPrev ≠ 0) (j : Nat) :
    (trk N P s σ (track0 N s b) (j + 1)).2.scalePrev * (trk N P s σ (track0 N s b) (j + 1)).2.scalePrev =
      (trk N P s σ (track0 N s b) (j + 1)).2.sin1 * (trk N P s σ (track0 N s b) (j + 1)).2.sin1 *
        ((trk N P s σ (track0 N s b) j).2.scalePrev * (trk N P s σ (track0 N s b) j).2.scalePrev) ∧
    (trk N P s σ (track0 N s b) (j + 1)).2.sin1 * (trk N P s σ (track0 N s b) (j + 1)).2.sin1 ≤ 1 ∧
    (trk N P s σ (track0 N s b) (j + 1)).2.scalePrev * (trk N P s σ (track0 N s b) (j + 1)).2.scalePrev ≤
      (trk N P s σ (track0 N s b) j).2.scalePrev * (trk N P s σ (track0 N s b) j).2.scalePrev := by
  have hreg := regular_of_exact N hN P heps s σ (track0 N s b) (j + 1)
  have hrot := (trackInv_iter N P s σ A pinv hA hpre b hb0 (j + 1) hreg (j + 1) (le_refl _)).rot1
  have hsc := scale_succ N P s σ (track0 N s b) j
  have h1 : (trk N P s σ (track0 N s b) (j + 1)).2.sin1 * (trk N P s σ (track0 N s b) (j + 1)).2.sin1 ≤ 1 := by
    have := mul_self_nonneg (trk N P s σ (track0 N s b) (j + 1)).2.cos1
    linarith
  have h2 : (trk N P s σ (track0 N s b) (j + 1)).2.scalePrev * (trk N P s σ (track0 N s b) (j + 1)).2.scalePrev =
      (trk N P s σ (track0 N s b) (j + 1)).2.sin1 * (trk N P s σ (track0 N s b) (j + 1)).2.sin1 *
        ((trk N P s σ (track0 N s b) j).2.scalePrev * (trk N P s σ (track0 N s b) j).2.scalePrev) := by
    rw [hsc]; ring
  refine ⟨h2, h1, ?_⟩
  rw [h2]
  have := mul_self_nonneg (trk N P s σ (track0 N s b) j).2.scalePrev
  nlinarith

/-- **Lanczos vectors of the model are orthonormal** (discharges the hypothesis of `minres_residual_norm`,
`minres_qr_identity`, `minres_optimal`): exact arithmetic, symmetric effective operator `A`, no preconditioner, non-zero `b`,
and the clamp `beta_curr.clamp_min_(eps)` not active during the first `J` iterations (`NoClamp`: `eps ≤ ‖zvec_curr‖`). -/
theorem lanczos_vectors_orthonormal (N : NumOps α) (hN : ExactOps N) (P : Params α) (heps : 0 < P.eps) (s : Sys α n)
    (σ : α) (A : Vec α n →ₗ[α] Vec α n) (hA : ∀ v, applyA P s v = A v) (hsym : ∀ u v, dot (A u) v = dot u (A v))
    (hpre : ∀ v, s.pre v = v) (b : Vec α n) (hb : 0 < dot b b) (J : Nat) (hnc : NoClamp N P s σ b J) :
    LanczosOrthonormal N P s σ (track0 N s b) J :=
  lanczos_orthonormal N P s σ A hA hsym hpre b J (regular_of_exact N hN P heps s σ _ J)
    (lanczos_unit_of_noclamp N P s σ hN heps hpre b hb J hnc)

/-- **MINRES optimality and residual norm, no orthogonality hypothesis**: exact arithmetic, symmetric `A`, no preconditioner,
non-zero normalised right-hand side, clamp not active before iteration `J`.  For every `j ≤ J` and every coefficient vector
`y`: `‖b − (A+σI)x_j‖² = scale_prev_j² ≤ ‖b − (A+σI) Σ_k y_k d_{k+1}‖²`. -/
theorem minres_optimal_of_symmetric (N : NumOps α) (hN : ExactOps N) (P : Params α) (heps : 0 < P.eps) (s : Sys α n)
    (σ : α) (A : Vec α n →ₗ[α] Vec α n) (hA : ∀ v, applyA P s v = A v) (hsym : ∀ u v, dot (A u) v = dot u (A v))
    (hpre : ∀ v, s.pre v = v) (b : Vec α n) (hb : 0 < dot b b) (J : Nat) (hnc : NoClamp N P s σ b J) (j : Nat)
    (hj : j ≤ J) (y : Nat → α) :
    let L : Vec α n →ₗ[α] Vec α n := A + σ • LinearMap.id
    let xj := (trk N P s σ (track0 N s b) j).2.sol
    let x := ∑ k ∈ Finset.range j, y k • (trk N P s σ (track0 N s b) (k + 1)).2.s1
    (b - L xj) ⬝ᵥ (b - L xj) = (trk N P s σ (track0 N s b) j).2.scalePrev * (trk N P s σ (track0 N s b) j).2.scalePrev ∧
    (b - L xj) ⬝ᵥ (b - L xj) ≤ (b - L x) ⬝ᵥ (b - L x) :=
  minres_optimal N hN P heps s σ A hA hpre b (beta0_ne_zero N s hN hpre b hb) J
    (lanczos_vectors_orthonormal N hN P heps s σ A hA hsym hpre b hb J hnc) j hj y

/-- **`minres_exact_at_dim`, the eps-perturbed version that is true of the code.**  If in iteration `j+1` the vector
`zvec_curr` vanishes before its normalisation (the Krylov space is exhausted), then in exact arithmetic
`beta_curr = eps` (clamped), the new Lanczos vector is zero, and the true residual is *not* annihilated but multiplied by
`sin_{j+1}² = eps² / (diag₀² + eps²)` (`diag₀` = the rotated diagonal entry of this step):
`r_{j+1} = eps²/(diag₀² + eps²) · r_j`.  With `eps = 0` (no clamp, `0/0` aside) this would be `r_{j+1} = 0`; with the
default `eps = 1e-25` it is a reduction by `≈ 1e-50/diag₀²`.  Any preconditioner; no orthogonality needed. -/
theorem minres_exact_at_dim_eps (N : NumOps α) (hN : ExactOps N) (P : Params α) (heps : 0 < P.eps) (s : Sys α n) (σ : α)
    (A pinv : Vec α n →ₗ[α] Vec α n) (hA : ∀ v, applyA P s v = A v) (hpre : ∀ v, pinv (s.pre v) = v)
    (hpre0 : s.pre (fun _ => 0) = fun _ => 0) (b : Vec α n) (hb0 : (initLz N s b).betaPrev ≠ 0) (j : Nat)
    (hz : unnormZ N P s (trk N P s σ (track0 N s b) j).1 = fun _ => 0) :
    (trk N P s σ (track0 N s b) (j + 1)).1.betaPrev = P.eps ∧
    (trk N P s σ (track0 N s b) (j + 1)).1.z1 = (fun _ => 0) ∧
    (trk N P s σ (track0 N s b) (j + 1)).2.sin1 * (trk N P s σ (track0 N s b) (j + 1)).2.sin1 =
      P.eps * P.eps / ((rotTerms N σ (lanczosStep N P s (trk N P s σ (track0 N s b) j).1).alpha
          (trk N P s σ (track0 N s b) j).1.betaPrev P.eps (trk N P s σ (track0 N s b) j).2).diag0 *
        (rotTerms N σ (lanczosStep N P s (trk N P s σ (track0 N s b) j).1).alpha
          (trk N P s σ (track0 N s b) j).1.betaPrev P.eps (trk N P s σ (track0 N s b) j).2).diag0 + P.eps * P.eps) ∧
    ∀ i, b i - (A (trk N P s σ (track0 N s b) (j + 1)).2.sol i + σ * pinv (trk N P s σ (track0 N s b) (j + 1)).2.sol i) =
      (trk N P s σ (track0 N s b) (j + 1)).2.sin1 * (trk N P s σ (track0 N s b) (j + 1)).2.sin1 *
        (b i - (A (trk N P s σ (track0 N s b) j).2.sol i + σ * pinv (trk N P s σ (track0 N s b) j).2.sol i)) := by
  obtain ⟨h1, h2, h3⟩ := breakdown_step N P s σ hN heps hpre0 (trk N P s σ (track0 N s b) j) hz
  have e : trk N P s σ (track0 N s b) (j + 1) = trackStep N P s σ (trk N P s σ (track0 N s b) j) := trk_succ _ _ _ _ _ _
  refine ⟨by rw [e]; exact h1, by rw [e]; exact h2, by rw [e]; exact h3, ?_⟩
  intro i
  have hrec := (minres_residual_recurrence N P s σ A pinv hA hpre b hb0 (j + 1)
    (regular_of_exact N hN P heps s σ _ (j + 1)) j (le_refl _) i).2
  rw [hrec, e, h2]; ring

/-- **MINRES residual minimisation over the Krylov space** (target statement (b)): exact arithmetic, symmetric effective
operator `A`, no preconditioner, `b ≠ 0`, clamp not active before iteration `J`.  For `j ≤ J` the model's iterate `x_j`
belongs to `𝒦_j = span{b, Ab, …, A^{j−1}b}` and minimises `‖b − (A + σI)x‖` over `𝒦_j`; the minimum is `|scale_prev_j|`. -/
theorem minres_optimal_over_krylov (N : NumOps α) (hN : ExactOps N) (P : Params α) (heps : 0 < P.eps) (s : Sys α n)
    (σ : α) (A : Vec α n →ₗ[α] Vec α n) (hA : ∀ v, applyA P s v = A v) (hsym : ∀ u v, dot (A u) v = dot u (A v))
    (hpre : ∀ v, s.pre v = v) (b : Vec α n) (hb : 0 < dot b b) (J : Nat) (hnc : NoClamp N P s σ b J) (j : Nat)
    (hj : j ≤ J) :
    let L : Vec α n →ₗ[α] Vec α n := A + σ • LinearMap.id
    let xj := (trk N P s σ (track0 N s b) j).2.sol
    xj ∈ Submodule.span α {v | ∃ i, i < j ∧ v = (A ^ i) b} ∧
    (b - L xj) ⬝ᵥ (b - L xj) = (trk N P s σ (track0 N s b) j).2.scalePrev * (trk N P s σ (track0 N s b) j).2.scalePrev ∧
    ∀ x ∈ Submodule.span α {v | ∃ i, i < j ∧ v = (A ^ i) b}, (b - L xj) ⬝ᵥ (b - L xj) ≤ (b - L x) ⬝ᵥ (b - L x) := by
  intro L xj
  have hb0 := beta0_ne_zero N s hN hpre b hb
  have hreg := regular_of_exact N hN P heps s σ (track0 N s b) J
  obtain ⟨hmem, hco⟩ := minres_krylov_space N P s σ A hA hpre b hb0 J hreg j hj
  refine ⟨hmem, (minres_optimal_of_symmetric N hN P heps s σ A hA hsym hpre b hb J hnc j hj fun _ => 0).1, ?_⟩
  intro x hx
  obtain ⟨y, rfl⟩ := hco x hx
  exact (minres_optimal_of_symmetric N hN P heps s σ A hA hsym hpre b hb J hnc j hj y).2

/-- **`M⁻¹`-orthonormality of the preconditioned Lanczos vectors** (discharges the hypothesis of
`minres_residual_norm_preconditioned`): exact arithmetic, symmetric `A`, symmetric positive semidefinite preconditioner map
`Mi = M⁻¹` (`preconditioner(v) = Mi v`), `⟨b, M⁻¹b⟩ > 0`, clamp inactive before iteration `J`: `⟨zvec_a, qvec_c⟩ = δ_ac`. -/
theorem lanczos_vectors_orthonormal_preconditioned (N : NumOps α) (hN : ExactOps N) (P : Params α) (heps : 0 < P.eps)
    (s : Sys α n) (σ : α) (A Mi : Vec α n →ₗ[α] Vec α n) (hA : ∀ v, applyA P s v = A v)
    (hsym : ∀ u v, dot (A u) v = dot u (A v)) (hMsym : ∀ u v, dot u (Mi v) = dot (Mi u) v)
    (hpsd : ∀ v, 0 ≤ dot v (Mi v)) (hpre : ∀ v, s.pre v = Mi v) (b : Vec α n) (hb : 0 < dot b (Mi b)) (J : Nat)
    (hnc : NoClamp N P s σ b J) :
    ∀ a c, a ≤ J → c ≤ J → dot (trk N P s σ (track0 N s b) a).1.z1 (Mi (trk N P s σ (track0 N s b) c).1.z1) =
      if a = c then 1 else 0 :=
  lanczos_orthonormalB N P s σ A Mi hA hsym hMsym hpre b J (regular_of_exact N hN P heps s σ _ J)
    (lanczos_unit_of_noclampB N P s σ hN heps Mi hpre hpsd b hb J hnc)

/-- **Preconditioned MINRES minimises the `M⁻¹`-norm of the residual of the pencil `A + σM`** over the span of its search
vectors (exact arithmetic, symmetric `A`, symmetric PSD `Mi = M⁻¹` with left inverse `pinv = M`, clamp inactive before `J`;
no orthogonality hypothesis): for `j ≤ J` and every `y`,
`⟨r_j, M⁻¹r_j⟩ = scale_prev_j² ≤ ⟨r_y, M⁻¹r_y⟩` with `r_y = b − (A + σM) Σ_k y_k d_{k+1}`.  (This is the system the code
solves with a preconditioner and a shift — finding F1 — not `(A + σI)x = b`.) -/
theorem minres_optimal_preconditioned (N : NumOps α) (hN : ExactOps N) (P : Params α) (heps : 0 < P.eps)
    (s : Sys α n) (σ : α) (A pinv Mi : Vec α n →ₗ[α] Vec α n) (hA : ∀ v, applyA P s v = A v)
    (hsym : ∀ u v, dot (A u) v = dot u (A v)) (hMsym : ∀ u v, dot u (Mi v) = dot (Mi u) v)
    (hpsd : ∀ v, 0 ≤ dot v (Mi v)) (hpre : ∀ v, s.pre v = Mi v) (hinv : ∀ v, pinv (Mi v) = v) (b : Vec α n)
    (hb : 0 < dot b (Mi b)) (J : Nat) (hnc : NoClamp N P s σ b J) (j : Nat) (hj : j ≤ J) (y : Nat → α) :
    let L : Vec α n →ₗ[α] Vec α n := A + σ • pinv
    let xj := (trk N P s σ (track0 N s b) j).2.sol
    let x := ∑ k ∈ Finset.range j, y k • (trk N P s σ (track0 N s b) (k + 1)).2.s1
    (b - L xj) ⬝ᵥ Mi (b - L xj) =
      (trk N P s σ (track0 N s b) j).2.scalePrev * (trk N P s σ (track0 N s b) j).2.scalePrev ∧
    (b - L xj) ⬝ᵥ Mi (b - L xj) ≤ (b - L x) ⬝ᵥ Mi (b - L x) := by
  intro L xj x
  have hb0 := beta0_ne_zeroB N s hN Mi hpre b hb
  have hreg := regular_of_exact N hN P heps s σ (track0 N s b) J
  have hinv' := fun j hj => trackInv_iter N P s σ A pinv hA (fun v => by rw [hpre, hinv]) b hb0 J hreg j hj
  have horth := lanczos_vectors_orthonormal_preconditioned N hN P heps s σ A Mi hA hsym hMsym hpsd hpre b hb J hnc
  have hBl : ∀ (a c : α) (u v w : Vec α n), dot (fun i => a * u i + c * v i) (Mi w) = a * dot u (Mi w) + c * dot v (Mi w) :=
    fun a c u v w => dot_lin_left a c u v (Mi w)
  have hBc : ∀ u v : Vec α n, dot u (Mi v) = dot v (Mi u) := fun u v => by rw [hMsym, dot_comm]
  have hfr := frameB N P s σ (track0 N s b) (fun u v => dot u (Mi v)) hBl hBc J horth (fun j hj => (hinv' j hj).rot1)
    (by funext i; simp [resDir, ghost, gM1, gM0, trk, track0, initGv])
    (by funext i; simp [imgDir, ghost, gP1, gM0, trk, track0, initGv, initLz]) j hj
  have hLd : ∀ k, k < j → L ((fun k => (trk N P s σ (track0 N s b) (k + 1)).2.s1) k) =
      (fun k => imgDir N P s σ (track0 N s b) (k + 1)) k := by
    intro k hk
    funext i
    have := (hinv' (k + 1) (by omega)).As1 i
    simp only [L, LinearMap.add_apply, LinearMap.smul_apply, Pi.add_apply, Pi.smul_apply, smul_eq_mul]
    exact this
  have hres : b - L xj = (trk N P s σ (track0 N s b) j).2.scalePrev • resDir N P s σ (track0 N s b) j := by
    funext i
    have := (hinv' j hj).res i
    simp only [L, xj, LinearMap.add_apply, LinearMap.smul_apply, Pi.add_apply, Pi.smul_apply, Pi.sub_apply, smul_eq_mul]
    exact this
  have hcomm : ∀ u v : Vec α n, u ⬝ᵥ Mi v = v ⬝ᵥ Mi u := fun u v => by
    rw [← dot_eq_dotProduct, ← dot_eq_dotProduct]; exact hBc u v
  have hcore := fun y => lsq_coreB L Mi hcomm b xj (resDir N P s σ (track0 N s b) j)
    (trk N P s σ (track0 N s b) j).2.scalePrev
    (fun k => (trk N P s σ (track0 N s b) (k + 1)).2.s1) (fun k => imgDir N P s σ (track0 N s b) (k + 1))
    (fun k => (trk N P s σ (track0 N s b) k).2.scalePrev * (trk N P s σ (track0 N s b) (k + 1)).2.cos1) j
    (sol_sum N P s σ (track0 N s b) rfl j) hLd hres (by rw [← dot_eq_dotProduct]; exact hfr.1)
    (fun k hk => by rw [← dot_eq_dotProduct]; exact hfr.2.2.1 (k + 1) (by omega)) y
  have hself : (b - L xj) ⬝ᵥ Mi (b - L xj) =
      (trk N P s σ (track0 N s b) j).2.scalePrev * (trk N P s σ (track0 N s b) j).2.scalePrev := by
    rw [hres, map_smul, smul_dotProduct, dotProduct_smul, ← dot_eq_dotProduct]
    have h1 : dot (resDir N P s σ (track0 N s b) j) (Mi (resDir N P s σ (track0 N s b) j)) = 1 := hfr.1
    rw [h1]; simp
  refine ⟨hself, ?_⟩
  rw [hself, hcore y]
  have := hpsd (∑ k ∈ Finset.range j, ((trk N P s σ (track0 N s b) k).2.scalePrev *
      (trk N P s σ (track0 N s b) (k + 1)).2.cos1 - y k) • imgDir N P s σ (track0 N s b) (k + 1))
  rw [dot_eq_dotProduct] at this
  linarith

end minres_exact

/-! ### contour-integral quadrature: reduction of the matrix statement to the scalar rule -/

section ciq_reduction
variable {α : Type} [Field α] {n : Nat}

/-- **`contour_integral_quad`: matrix statement ⇐ scalar quadrature rule.**  Let `K` have the orthonormal eigenbasis `u` with
eigenvalues `lam` (`EigenBasis`), let the shifted solver be exact on the shifts produced by the model
(`(−K + s_q I)(R s_q b) = b` — MINRES is called with `value = −1` — and `s_q ≠ λ_i`).  If the *scalar* rule built from the
model's weights and shifts satisfies `Σ_q w_q / (s_q − λ_i) = ρ_i` for every eigenvalue, then the weighted sum returned by
`contour_integral_quad(inverse=True)` is `ρ(K) b = Σ_i ρ_i ⟨u_i, b⟩ u_i`; with `inverse=False` it is `K ρ(K) b`.
The analytic fact `ρ_i ≈ λ_i^{-1/2}` (Hale–Higham–Trefethen) is NOT proved; this theorem reduces the matrix statement to it. -/
theorem ciq_reduction (N : NumOps α) (K : Vec α n →ₗ[α] Vec α n) (u : Fin n → Vec α n) (lam : Fin n → α)
    (h : EigenBasis K u lam) (R : α → Vec α n → Vec α n) (e : Ellip α) (off : α) (b : Vec α n)
    (hsolve : ∀ sh ∈ (ellipWPow2 N e).map (· - off), -K (R sh b) + sh • R sh b = b)
    (hne : ∀ sh ∈ (ellipWPow2 N e).map (· - off), ∀ i, sh - lam i ≠ 0) (ρ : Fin n → α)
    (hrule : ∀ i, lsum (List.zipWith (fun w sh => w / (sh - lam i)) (ciqWeights N e)
      ((ellipWPow2 N e).map (· - off))) = ρ i) :
    (weightedSum (ciq N (fun shifts b => shifts.map fun s => R s b) K e off true b).weights
        (ciq N (fun shifts b => shifts.map fun s => R s b) K e off true b).solves = spectralApply u ρ b) ∧
    (weightedSum (ciq N (fun shifts b => shifts.map fun s => R s b) K e off false b).weights
        (ciq N (fun shifts b => shifts.map fun s => R s b) K e off false b).solves = K (spectralApply u ρ b)) := by
  have hρ : (fun i => lsum (List.zipWith (fun w sh => w / (sh - lam i)) (ciqWeights N e)
      ((ellipWPow2 N e).map (· - off)))) = ρ := funext hrule
  have hcore := weightedSum_spectral h R (ciqWeights N e) ((ellipWPow2 N e).map (· - off)) b hsolve hne
  rw [hρ, List.map_map] at hcore
  constructor
  · obtain ⟨_, hs, hw, _⟩ := ciq_plumbing N R K e off true b
    rw [hw, hs]
    simpa only [if_true, Function.comp_def] using hcore
  · obtain ⟨_, hs, hw, _⟩ := ciq_plumbing N R K e off false b
    rw [hw, hs]
    have : (ellipWPow2 N e).map (fun w => if false = true then R (w - off) b else K (R (w - off) b)) =
        ((ellipWPow2 N e).map (fun w => R (w - off) b)).map K := by
      rw [List.map_map]; rfl
    rw [this, weightedSum_map_linear]
    congr 1

/-- **`sqrt_inv_matmul` applied twice = solve** (model of `SqrtInvMatmul.forward` without `lhs`, exact shifted solves, scalar
rule exact with `ρ_i² λ_i = 1`, i.e. `ρ_i = λ_i^{-1/2}`): `K · sqrt_inv_matmul(sqrt_inv_matmul(R)) = R`, column by column. -/
theorem sqrt_inv_matmul_twice_is_solve (N : NumOps α) (K : Vec α n →ₗ[α] Vec α n) (u : Fin n → Vec α n)
    (lam : Fin n → α) (h : EigenBasis K u lam) (R : α → Vec α n → Vec α n) (e : Ellip α) (off : α)
    (hsolve : ∀ b, ∀ sh ∈ (ellipWPow2 N e).map (· - off), -K (R sh b) + sh • R sh b = b)
    (hne : ∀ sh ∈ (ellipWPow2 N e).map (· - off), ∀ i, sh - lam i ≠ 0) (ρ : Fin n → α)
    (hrule : ∀ i, lsum (List.zipWith (fun w sh => w / (sh - lam i)) (ciqWeights N e)
      ((ellipWPow2 N e).map (· - off))) = ρ i)
    (hρ : ∀ i, ρ i * ρ i * lam i = 1) (cols : List (Vec α n)) :
    let ciqCol := ciq N (fun shifts b => shifts.map fun s => R s b) K e off true
    (sqrtInvMatmul ciqCol (sqrtInvMatmul ciqCol cols)).map K = cols := by
  intro ciqCol
  have hone : ∀ b, weightedSum (ciqCol b).weights (ciqCol b).solves = spectralApply u ρ b :=
    fun b => (ciq_reduction N K u lam h R e off b (hsolve b) hne ρ hrule).1
  simp only [sqrtInvMatmul, List.map_map]
  conv_rhs => rw [← List.map_id cols]
  apply List.map_congr_left
  intro r _
  simp only [Function.comp, hone, id]
  exact spectral_twice_inverse h ρ hρ r

end ciq_reduction

/-! ### hypotheses are satisfiable -/

/-- A genuine rotation: `diag₀ = 3`, `β = 4`, radius `5` (rational square root). -/
example : (rotTerms (α := Rat) { sqrt := fun x => if x = 25 then 5 else 0, lt := fun a b => decide (a < b) } 0 3 0 4
    (initGv (n := 1) 1)).radius = 5 := by decide +kernel

/-- Exact arithmetic exists: the reals with `Real.sqrt`. -/
noncomputable example : ExactOps (α := ℝ) { sqrt := Real.sqrt, lt := fun a b => decide (a < b) } :=
  ⟨fun _ _ => rfl, fun _ h => Real.mul_self_sqrt h, fun x => Real.sqrt_nonneg x⟩

/-- `K = [[0,1],[1,0]]`, `b = e₁`, no shift, rational square roots: the first iteration is regular and the two Lanczos vectors
`z_0 = e₁`, `z_1 = e₂` are orthonormal (`Regular`, `LanczosOrthonormal` are satisfiable with `J = 1 = n − 1`). -/
def exOps : NumOps Rat := { sqrt := fun x => if x = 1 then 1 else 0, lt := fun a b => decide (a < b) }
def exP : Params Rat :=
  { eps := 1 / 10000000000000000000000000
    zeroThresh := 1 / 10000000000
    tol := 1 / 10000
    maxIter := 5
    checkEvery := 10
    extraIters := 2
    sizeSlack := 1
    value := none }
def exSys : Sys Rat 2 :=
  { amul := fun v i => if i = 0 then v 1 else v 0
    pre := id
    rhs := fun i => if i = 0 then 1 else 0
    shifts := [0] }

example : Regular exOps exP exSys 0 (track0 exOps exSys exSys.rhs) 1 := by
  intro j hj
  have : j = 0 := by omega
  subst this
  simp [StepOK, trk, track0, initLz, initGv, lanczosStep, rotTerms, applyA, exOps, exP, exSys, clampMin, dot_eq_sum,
    Fin.sum_univ_two]
  norm_num

example : LanczosOrthonormal exOps exP exSys 0 (track0 exOps exSys exSys.rhs) 1 := by
  intro a b ha hb
  have : a = 0 ∨ a = 1 := by omega
  have : b = 0 ∨ b = 1 := by omega
  rcases ‹a = 0 ∨ a = 1› with h | h <;> rcases ‹b = 0 ∨ b = 1› with h' | h' <;> subst h <;> subst h' <;>
    (simp [trk, trackStep, track0, initLz, initGv, lanczosStep, applyA, exOps, exP, exSys, clampMin, dot_eq_sum,
      Fin.sum_univ_two]; try norm_num)

/-- The hypotheses of `ciq_reduction` are satisfiable for every size and spectrum (diagonal operator, standard basis). -/
example {α : Type} [Field α] {n : Nat} (lam : Fin n → α) : EigenBasis (diagMap lam) (fun i => Pi.single i 1) lam :=
  eigenBasis_diag lam

end LinOp.C11
