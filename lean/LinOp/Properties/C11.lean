import LinOp.C11.Model
import LinOp.Generated.C11Consts
/-!
C11 — MINRES / contour-integral quadrature.  Property theorems only (stub while the harness is brought up).
-/
namespace LinOp.C11

/-- The literals of the source are the documented ones. -/
theorem generated_literals :
    Generated.C11.checkEvery = 10 ∧ Generated.C11.extraIters = 2 ∧ Generated.C11.sizeSlack = 1 := by
  decide +kernel

end LinOp.C11
