import LinOp.C02.Proofs4
import LinOp.C02.ProofsBatch3
import LinOp.C02.ProofsBProg
import LinOp.C02.ProofsBlock
import LinOp.Generated.C02Table
/-!
C02 — composition and structure-preserving rewrites never change the matrix.  Property theorems only.

`Op` is the deep embedding of the operator classes, `denote` the matrix a class documents, and
`add` / `addDiagonal` / `addJitter` / `matmulOp` / … the library's type-dispatching methods
(LinOp/C02/Model.lean).  All statements hold for every operand of every class at every nesting depth
and every size, over any commutative ring.
-/
namespace LinOp.C02
open Op
variable {α : Type} [CommRing α]

/-- **`a + b` denotes `⟦a⟧ + ⟦b⟧` whichever class the dispatch picks** — all 23 × 23 pairs of
constructors, arbitrary nesting (AddedDiag / Triangular / LowRankRootAddedDiag recurse into their
components), Sum flattening, Kronecker → KroneckerProductAddedDiag / SumKronecker, root operands
through `add_low_rank`.  A `.ok` result is never a wrong value. -/
theorem add_value (a b r : Op α) (h : add a b = .ok r) (i j : Nat) (hi : i < a.rows) :
    r.denote i j = a.denote i j + b.denote i j := add_refines a b r h i j hi

/-- **Zero is absorbed**: `Zero + b` is `b` itself and `a + Zero` is `a` itself for the classes whose
ladder ends in the base class or in `SumLinearOperator.__add__` (no wrapper object is built). -/
theorem zero_add_absorb (n m : Nat) (b : Op α) : add (.zero n m) b = .ok b := rfl

theorem add_zero_absorb_base (a : Op α) (n m : Nat) : baseAdd a (.zero n m) = .ok a := rfl

theorem add_zero_absorb_sum (a : Op α) (n m : Nat) : sumAdd a (.zero n m) = .ok a := rfl

/-- **`add_diagonal` adds `diag(d)`** for the three accepted shapes of `d`, for every class (Diag stays
Diag, Kronecker → KroneckerProductAddedDiag, LowRankRoot → LowRankRootAddedDiag, Triangular and the
AddedDiag family recurse, Zero becomes a Diag, everything else becomes an AddedDiag). -/
theorem addDiagonal_value (a r : Op α) (g : DiagArg α) (h : addDiagonal a g = .ok r) (i j : Nat) (hi : i < a.rows) :
    r.denote i j = a.denote i j + (if i = j then g.fn i else 0) := addDiagonal_refines a r g h i j hi

/-- size-1 corner: a full diagonal of a 1×1 operator is a length-1 tensor, which the code treats as a constant
diagonal (`diag.shape[-1] != 1` is false) — the class is ConstantDiag, the value is the same. -/
theorem addDiagonal_one_by_one (t : NMat α) (d : Nat → α) :
    addDiagonal (.dense 1 1 t) (.full d) = .ok (.addedDiag (.dense 1 1 t) (.constDiag 1 (d 0))) := by
  simp [addDiagonal, isDiag, rows, cols, isKron, isLowRankRoot, DiagArg.toOp, mkAddedDiag]

/-- **`add_jitter` adds `c·I`**, including the Toeplitz override that only touches the first column entry. -/
theorem addJitter_value (a r : Op α) (c : α) (h : addJitter a c = .ok r) (i j : Nat) (hi : i < a.rows) :
    r.denote i j = a.denote i j + (if i = j then c else 0) := addJitter_refines a r c h i j hi

/-- **`a @ b` for an operator `b`** (rows of the result inside `a`'s row range): the structured results of
`Zero.matmul`, `Identity.matmul`, `ConstantDiag.matmul`, `Diag.matmul` (× Dense, × Triangular(Dense),
× Diag) and the lazy `MatmulLinearOperator` all denote the matrix product. -/
theorem matmulOp_value (a b r : Op α) (h : matmulOp a b = .ok r) (i j : Nat) (hi : i < a.rows)
    (hk : a.cols = b.rows) :
    r.denote i j = sumN a.cols fun k => a.denote i k * b.denote k j := matmulOp_refines a b r h i j hi hk

/-- **Orientation is kept**: `Diag @ Triangular(T, upper=u)` is a TriangularLinearOperator with the SAME `upper` flag
(`TriangularLinearOperator(self @ other._tensor, upper=other.upper)`); the class-tree correspondence compares the flag. -/
theorem diag_matmul_tri_keeps_orientation (n k m : Nat) (d : Nat → α) (up : Bool) (t : NMat α) :
    matmulOp (.diag n d) (.tri up (.dense k m t)) = .ok (.tri up (.dense n m fun i j => d i * t i j)) := by
  simp [matmulOp, isConstDiag, isDiag, rows, diagOf]

/-- transposing a Triangular flips the flag, transposing twice restores it. -/
theorem transpose_tri_flag (up : Bool) (t : Op α) :
    transposeOp (.tri up t) = .tri (!up) (transposeOp t) := by simp [transposeOp]

/-- The Mul constructor's operand swap (larger root first) is invisible in the value. -/
theorem mkMul_value (a b : Op α) (i j : Nat) : (mkMul a b).denote i j = a.denote i j * b.denote i j :=
  mkMul_refines a b i j

/-- **`a - b` denotes `⟦a⟧ - ⟦b⟧`** (`self + other.mul(-1)`; includes `X - Zero` since fix 63d7878), for every
pair of classes; `S` supplies the positivity test and square root used for root folding. -/
theorem sub_value (S : ScalarOps α) (hS : SqrtLaw S) (a b r : Op α) (h : sub S a b = .ok r) (i j : Nat)
    (hi : i < a.rows) :
    r.denote i j = a.denote i j - b.denote i j := by
  rw [sub_refines S hS a b r h i j hi]; ring

/-- **Multiplication by a constant** (python number, 0-d tensor …) denotes the scaled matrix whatever the class
does with it: Diag/ConstantDiag/Identity/KroneckerProductDiag rescale their diagonal, Triangular and the Sum family
recurse, **Root/LowRankRoot/Chol fold `sqrt c` into the root when `c > 0`** (needs `sqrt c · sqrt c = c`) and
wrap in ConstantMul otherwise, Mul scales its left root, LowRankRootAddedDiag degrades to AddedDiag for
non-positive constants, Zero stays Zero, everything else becomes a ConstantMulLinearOperator. -/
theorem mulScalar_value (S : ScalarOps α) (hS : SqrtLaw S) (a : Op α) (c : α) (i j : Nat) :
    (mulScalar S a c).denote i j = a.denote i j * c := mulScalar_refines S hS a c i j

theorem mulConst_value (S : ScalarOps α) (hS : SqrtLaw S) (a : Op α) (c : α) (i j : Nat) :
    (mulConst S a c).denote i j = a.denote i j * c := mulConst_refines S hS a c i j

/-- `op / c` = `op * (1/c)`. -/
theorem divScalar_value (S : ScalarOps α) (hS : SqrtLaw S) (a : Op α) (cinv : α) (i j : Nat) :
    (divScalar S a cinv).denote i j = a.denote i j * cinv := divScalar_refines S hS a cinv i j

/-- scaling never changes the shape. -/
theorem mulConst_shape (S : ScalarOps α) (a : Op α) (c : α) :
    (mulConst S a c).rows = a.rows ∧ (mulConst S a c).cols = a.cols := shape_mulConst S a c

/-- **Transpose** (`_transpose_nonbatch` of every class) denotes the transposed matrix and swaps the shape. -/
theorem transpose_value (a : Op α) (i j : Nat) : (transposeOp a).denote i j = a.denote j i := transpose_refines a i j

theorem transpose_shape (a : Op α) : (transposeOp a).rows = a.cols ∧ (transposeOp a).cols = a.rows :=
  shape_transpose a

/-- **Elementwise product of two operators** (`mul` → `_mul_matrix`): Zero on either side, ConstantDiag∘ConstantDiag,
Diag-like ∘ anything (only the diagonal of the other operand is read — this now includes Identity), the Dense
shortcut, and the MulLinearOperator built from root decompositions (`rootDec` is the numerical primitive, assumed to
return an operator with the same value) all denote the Hadamard product. -/
theorem mulMatrix_value (rootDec : Op α → Op α) (hroot : ∀ x i j, (rootDec x).denote i j = x.denote i j)
    (a b r : Op α) (h : mulMatrix rootDec a b = .ok r) (i j : Nat) :
    r.denote i j = a.denote i j * b.denote i j := mulMatrix_refines rootDec hroot a b r h i j

/-- `Identity * b` is the diagonal part of `b` (full theorem since fix 7b74d3a), never an error. -/
theorem mulMatrix_identity (rootDec : Op α → Op α) (n : Nat) (b : Op α) (hz : b.isZero = false)
    (hc : b.isConstDiag = false) :
    mulMatrix rootDec (.identity n) b = .ok (.diag n fun i => 1 * b.denote i i) := by
  have h1 : ((Op.identity n : Op α).isConstDiag && b.isConstDiag) = false := by simp [hc]
  simp [mulMatrix, hz, h1, isDiag, isTri, rows, diagOf]

/-- `Triangular * b` (be9ba88): a triangular operator (same orientation) over the dense Hadamard product — never a
MulLinearOperator of root decompositions (triangular operators are not PSD). -/
theorem mulMatrix_triangular (rootDec : Op α → Op α) (up : Bool) (t b : Op α) (hz : b.isZero = false) :
    mulMatrix rootDec (.tri up t) b
      = .ok (.tri up (.dense t.rows t.cols fun i j => t.denote i j * b.denote i j)) := by
  simp [mulMatrix, hz, isTri, triUpper, rows, cols, denote]

/-- **Programs**: for every expression program `p` (any depth) over operators of any class, built from +, −, scalar * and /,
elementwise *, @, add_diagonal, add_jitter and transpose: if the library's evaluation (every step through the
dispatch model) yields `r`, then `r` has the shape of the dense expression and denotes the dense value on it.
Which result classes were chosen along the way is invisible. -/
theorem eval_refines (E : Env α) (hS : SqrtLaw E.S)
    (hroot : ∀ x i j, (E.rootDec x).denote i j = x.denote i j) (p : Prog α) (r : Op α)
    (h : Impl.eval E p = .ok r) :
    r.rows = p.rows ∧ r.cols = p.cols ∧ ∀ i j, i < p.rows → j < p.cols → r.denote i j = Spec.eval p i j :=
  eval_refines_aux E hS hroot p r h

/-- Corollary (**result class irrelevant**): two evaluations of the same program under different numerical
primitives / scalar implementations (hence possibly different class trees) agree entrywise. -/
theorem resultClass_irrelevant (E E' : Env α) (hS : SqrtLaw E.S) (hS' : SqrtLaw E'.S)
    (hroot : ∀ x i j, (E.rootDec x).denote i j = x.denote i j)
    (hroot' : ∀ x i j, (E'.rootDec x).denote i j = x.denote i j)
    (p : Prog α) (r r' : Op α) (h : Impl.eval E p = .ok r) (h' : Impl.eval E' p = .ok r')
    (i j : Nat) (hi : i < p.rows) (hj : j < p.cols) : r.denote i j = r'.denote i j := by
  rw [(eval_refines E hS hroot p r h).2.2 i j hi hj, (eval_refines E' hS' hroot' p r' h').2.2 i j hi hj]


/-! ### batched layer (LinOp/C02/Batch.lean): batch shapes, broadcasting, batch rewrites — all batch shapes, all nesting depths -/
section batched
open BOp

/-- **Every batch rewrite denotes the torch rewrite of the dense value** (`expand` / `_expand_batch`, `permute`, `unsqueeze`,
`sum(dim)`, `prod(dim)` over a batch dimension): for an operator `o` whose tensors all have batch shape `S` (what the
constructors establish; the constant of a ConstantMul may be 0-d) and every valid batch index `idx` of the rewritten shape,
the rewritten operator's matrix at `idx` is what torch computes from the dense batched value of `o` — whichever per-class
override did the work (tensor.expand / .permute / .unsqueeze / .sum / .prod on the class's own tensor, recursion through
Triangular / Root / Sum / Matmul, ConstantMul expanding its constant first, Identity → ConstantDiag of the count for `sum`). -/
theorem batchRewrite_value (ρ : Rewrite) (S : Shape) (o r : BOp α) (hu : o.uniform S = true) (hok : ρ.okFor o = true)
    (h : ρ.apply o = .ok r) (idx : BIdx) (hidx : inRange (ρ.shape S) idx = true) (i j : Nat) :
    r.denote idx i j = ρ.spec S o.denote idx i j := rewrite_value_aux ρ S o r hu hok h idx hidx i j

/-- **…and has the torch batch shape**: every tensor of the result has batch shape `ρ.shape S` (so rewrites compose), the
matrix shape is unchanged. -/
theorem batchRewrite_shape (ρ : Rewrite) (S : Shape) (o r : BOp α) (hu : o.uniform S = true) (hok : ρ.okFor o = true)
    (h : ρ.apply o = .ok r) : r.uniform (ρ.shape S) = true ∧ r.bshape = ρ.shape S :=
  ⟨rewrite_uniform_aux ρ S o r hu hok h, bshape_of_uniform _ r (rewrite_uniform_aux ρ S o r hu hok h)⟩

/-- `_expand_batch(S')` spelled out: the expanded operator at `idx` is the old one at the broadcast index. -/
theorem expandBatch_value (S' S : Shape) (o : BOp α) (hu : o.uniform S = true) (idx : BIdx) (hidx : inRange S' idx = true)
    (i j : Nat) : (expandBatch S' o).denote idx i j = o.denote (bcast S idx) i j := expand_value S' S idx hidx o hu i j

/-- `_permute_batch(dims)` of a tree without a ZeroLinearOperator: `out[idx] = in[old]` with `old[dims[k]] = idx[k]`. -/
theorem permuteBatch_value (dims : List Nat) (S : Shape) (o : BOp α) (hu : o.uniform S = true) (hz : o.hasZero = false)
    (idx : BIdx) (hidx : inRange (permShape dims S) idx = true) (i j : Nat) :
    (permuteBatch dims o).denote idx i j = o.denote (permIdx dims idx) i j := by
  rw [permuteBatch_eq_reindex dims o hz]
  exact reindex_value _ _ S idx (bcast_id _ idx hidx) o hu i j

/-- **ZeroLinearOperator inherits the generic `_permute_batch`, which rebuilds it from its unpermuted sizes** (open finding):
the value is still zero but the batch shape is not the permuted one. -/
theorem zero_permute_shape_counterexample :
    (permuteBatch [1, 0] (BOp.zero [2, 3] 2 2 : BOp Int)).bshape ≠ permShape [1, 0] [2, 3] := by decide

/-- **`a @ b` with operands of different batch shapes** (`MatmulLinearOperator.__init__` expands both factors to the broadcast
shape `S`): the product at every batch index of `S` multiplies the operands read at their broadcast indices (torch
broadcasting of `@`), the result is batch-uniform — so every later batch rewrite of the lazy product is covered by
`batchRewrite_value`. -/
theorem matmul_broadcast_value (a b r : BOp α) (sa sb : Shape) (ha : a.uniform sa = true) (hb : b.uniform sb = true)
    (h : mkMatmul a b = .ok r) :
    ∃ S, bshapes sa sb = some S ∧ r.bshape = S ∧ r.uniform S = true ∧ r.rows = a.rows ∧ r.cols = b.cols ∧
      ∀ idx, inRange S idx = true → ∀ i j,
        r.denote idx i j = sumN a.cols fun k => a.denote (bcast sa idx) i k * b.denote (bcast sb idx) k j :=
  mkMatmul_value a b r sa sb ha hb h

/-- **`a + b` through `SumLinearOperator(a, b)` with operands of different batch shapes** (the `_expand_batch` wrappers of the
constructor): the sum at every batch index of the broadcast shape adds the operands read at their broadcast indices. -/
theorem add_broadcast_value (a b r : BOp α) (sa sb : Shape) (ha : a.uniform sa = true) (hb : b.uniform sb = true)
    (h : mkSum2 a b = .ok r) :
    ∃ S, bshapes sa sb = some S ∧ r.bshape = S ∧ r.uniform S = true ∧ r.rows = a.rows ∧ r.cols = a.cols ∧
      ∀ idx, inRange S idx = true → ∀ i j,
        r.denote idx i j = a.denote (bcast sa idx) i j + b.denote (bcast sb idx) i j := by
  obtain ⟨S, h1, h2, h3, h4, h5, h6⟩ := mkSum2_value a b r sa sb ha hb h
  exact ⟨S, h1, h2, h3, h4, h5, fun idx hidx i j => by rw [h6 idx hidx i j]; ring⟩

/-- **`op * c` for a batch of constants** (`c` of batch shape `cbs`, e.g. a `(b,1,1)` tensor after the front-end's `view`, or a
0-d constant): Diag / ConstantDiag / Identity rescale their diagonal with torch broadcasting, Triangular and Sum recurse, Zero
stays Zero, everything else is wrapped in a ConstantMulLinearOperator that keeps the constant's own batch shape — at every
batch index the matrix is scaled by the constant read at its broadcast index. -/
theorem mulConstBatch_value (cbs : Shape) (c : BIdx → α) (S : Shape) (o r : BOp α) (hu : o.uniform S = true)
    (h : mulConstB cbs c o = some r) (idx : BIdx) (hidx : inRange S idx = true) (i j : Nat) :
    r.denote idx i j = o.denote idx i j * c (bcast cbs idx) := mulConstB_value cbs c S o r hu h idx hidx i j

/-- **`a + Zero` broadcasts (since d734ac2)**: `a + ZeroLinearOperator(zbs…)` is `a` expanded to the broadcast batch shape `S`
(`a` itself when it already has that shape): batch shape `S`, batch-uniform, and at every batch index the matrix of `a` read at
its broadcast index. -/
theorem add_zero_broadcast_value (a r : BOp α) (sa zbs : Shape) (ha : a.uniform sa = true) (h : addZeroRight a zbs = .ok r) :
    ∃ S, bshapes sa zbs = some S ∧ r.bshape = S ∧ r.uniform S = true ∧
      ∀ idx, inRange S idx = true → ∀ i j, r.denote idx i j = a.denote (bcast sa idx) i j + 0 := by
  unfold addZeroRight at h
  rw [bshape_of_uniform sa a ha] at h
  cases hS : bshapes sa zbs with
  | none => simp [hS] at h
  | some S =>
    simp only [hS, Except.ok.injEq] at h
    subst h
    exact ⟨S, rfl, bshape_of_uniform S _ (matchBatch_uniform S sa a ha), matchBatch_uniform S sa a ha,
      fun idx hidx i j => by rw [matchBatch_value S sa idx hidx a ha]; ring⟩

/-- **`a * Zero` is a Zero of the broadcast shape (since d734ac2)**. -/
theorem mul_zero_broadcast_value (a r : BOp α) (zbs : Shape) (h : mulZeroRight a zbs = .ok r) :
    ∃ S, bshapes a.bshape zbs = some S ∧ r.bshape = S ∧ r.rows = a.rows ∧ r.cols = a.cols ∧
      ∀ idx i j, r.denote idx i j = 0 := by
  unfold mulZeroRight at h
  cases hS : bshapes a.bshape zbs with
  | none => simp [hS] at h
  | some S =>
    simp only [hS, Except.ok.injEq] at h
    subst h
    exact ⟨S, rfl, rfl, rfl, rfl, fun _ _ _ => rfl⟩

/-- **The code before d734ac2 returned the left operand of `a + Zero(b…)` unchanged**: statement about the OLD formula only — an
unbatched `a` plus a `(2,)`-batched Zero kept batch shape `()` instead of the broadcast shape `(2,)`. -/
theorem old_code_add_zero_shape_counterexample :
    (oldAddZeroRight (BOp.dense [] 1 1 fun _ _ _ => (1 : Int)) [2]).bshape ≠ [2] ∧
    bshapes ([] : Shape) [2] = some [2] := by decide

/-- **The code before d734ac2 returned the Zero operand of `a * Zero` unchanged**: a `(2,)`-batched `a` times an unbatched
Zero kept batch shape `()`; statement about the OLD formula only. -/
theorem old_code_mul_zero_shape_counterexample :
    (oldMulZeroRight (BOp.dense [2] 1 1 fun _ _ _ => (1 : Int)) [] 1 1).bshape ≠ [2] ∧
    bshapes ([2] : Shape) [] = some [2] := by decide

/-- the front-end tests of `LinearOperator.mul`: a `(b,1,1)` tensor against an operator of batch shape `(b,)` is a batch of
constants, a one-element tensor is a 0-d constant, an `(n,n)` tensor is a matrix. -/
theorem mulKind_examples :
    mulKind [2] [2, 1, 1] = .constantBatch ∧ mulKind [2, 3] [3, 1, 1] = .constantBatch ∧ mulKind [2] [1, 1, 1] = .constant0d ∧
    mulKind [2] [3, 1, 1] = .matrix ∧ mulKind [2] [3, 3] = .matrix ∧ mulKind [] [] = .constant0d := by decide

/-- hypotheses of the batched theorems are satisfiable on a non-trivial instance: Matmul of a (3,2)-batched Dense and a
(2,)-batched Diag, then `unsqueeze(1)`. -/
example : ∃ r : BOp Int, mkMatmul (.dense [3, 2] 2 2 fun idx i j => ((idx.sum + i + j : Nat) : Int))
      (.diag [2] 2 fun idx i => ((idx.sum + i : Nat) : Int)) = .ok r ∧
    r.uniform [3, 2] = true ∧ (unsqueezeBatch 1 r).tree = "Matmul(Dense[3,1,2],Diag[3,1,2])" :=
  ⟨.matmul (.dense [3, 2] 2 2 fun idx i j => ((idx.sum + i + j : Nat) : Int))
      (expandBatch [3, 2] (.diag [2] 2 fun idx i => ((idx.sum + i : Nat) : Int))), by rfl, by decide, by decide⟩
/-- **All programs of the batched layer refine the dense torch computation** (`beval_refines`): for EVERY program `p` built from
batch-uniform library objects (11 classes, any nesting), any chain of batch rewrites (`_expand_batch` / `expand`, `_permute_batch`,
`_unsqueeze_batch`, `_sum_batch`, `_prod_batch`) and the broadcasting constructors `SumLinearOperator(p, q)` /
`MatmulLinearOperator(p, q)` (operands of different batch ranks), nested in any order and to any depth: if the model evaluator
(`beval`: the per-class overrides of `Batch.lean`, step by step) returns an operator `r`, then the dense specification `bspec p`
(torch's `expand` / `permute` / `unsqueeze` / `sum` / `prod` / broadcasting `+` and `@` on dense batched tensors) is defined, `r` is
batch-uniform with the specification's batch and matrix shape, and `r`'s matrix at every valid batch index is the specification's.
Induction over programs; the composition step rests on the range-preservation lemmas of torch's index maps (`bcast_inRange`,
`permIdx_inRange`, `eraseIdx_inRange`, `insertIdx_inRange`).
Named `_partial` because the menu's full statement also ranges over `repeat` / BatchRepeat, `squeeze` (a `__getitem__`, C03), the
base-class `_sum_batch` (SumBatchLinearOperator) and `_prod_batch`, and because `beval` re-checks `expOk` (each operand shape
expands to the broadcast shape) instead of deriving it from `bshapes … = some S` (a lemma about `torch.broadcast_shapes` that is
not proved; the correspondence cells `C02/batchm/prog/*` show the check never rejects a program the library accepts). -/
theorem beval_refines_partial (p : BProg α) (r : BOp α) (h : beval p = .ok r) :
    ∃ x, bspec p = some x ∧ r.uniform x.bs = true ∧ r.bshape = x.bs ∧ r.rows = x.rows ∧ r.cols = x.cols ∧
      ∀ idx, inRange x.bs idx = true → ∀ i j, r.denote idx i j = x.v idx i j := beval_refines_aux p r h

/-- the hypothesis of `beval_refines_partial` is satisfiable by a non-trivial program: `sum(0)` of the transposed-batch
`(Diag[2] unsqueezed to [1,2]) @ Dense[3,2]`, plus an expanded Toeplitz. -/
example : ∃ r : BOp Int, beval (.add
    (.rw (.permute [1, 0]) (.matmul (.rw (.unsqueeze 0) (.leaf (.diag [2] 2 fun idx i => ((idx.getD 0 0 + i : Nat) : Int))))
      (.leaf (.dense [3, 2] 2 2 fun idx i j => ((idx.getD 0 0 + 2 * idx.getD 1 0 + i * j : Nat) : Int)))))
    (.rw (.expand [2, 3]) (.leaf (.toep [3] 2 fun idx k => ((idx.getD 0 0 + k : Nat) : Int))))) = .ok r :=
  ⟨_, rfl⟩

/-- **torch's index maps preserve validity** (what lets rewrites compose): a valid index of the rewritten shape is mapped to a
valid index of the old shape by `expand` / broadcasting (`bcast`), `permute` (`permIdx`, `dims` any list containing every batch dim),
`unsqueeze` (`eraseIdx`) and by every summand of `sum` / `prod` (`insertIdx`). -/
theorem index_maps_preserve_range (S : Shape) (idx : BIdx) :
    (∀ S', expOk S S' = true → inRange S' idx = true → inRange S (bcast S idx) = true) ∧
    (∀ dims : List Nat, dims.length = S.length → (∀ j, j < S.length → j ∈ dims) → inRange (permShape dims S) idx = true →
      inRange S (permIdx dims idx) = true) ∧
    (∀ d, d ≤ S.length → inRange (S.insertIdx d 1) idx = true → inRange S (idx.eraseIdx d) = true) ∧
    (∀ d k, d < S.length → k < S.getD d 0 → inRange (S.eraseIdx d) idx = true → inRange S (idx.insertIdx d k) = true) :=
  ⟨fun S' h1 h2 => bcast_inRange S S' idx h1 h2, fun dims h1 h2 h3 => permIdx_inRange dims S idx h1 h2 h3,
   fun d h1 h2 => eraseIdx_inRange d S idx h1 h2, fun d k h1 h2 h3 => insertIdx_inRange d S idx k h1 h2 h3⟩

end batched

/-! ### cat / cat_rows / add_low_rank (LinOp/C02/Block.lean) -/

/-- **`cat([a, b], dim)` over a matrix dimension denotes the stacked matrix** and has the stacked shape. -/
theorem cat_value (rowwise : Bool) (cls : Nat) (a b r : Op α) (h : catOp rowwise cls a b = .ok r) :
    (r.rows = if rowwise then a.rows + b.rows else a.rows) ∧ (r.cols = if rowwise then a.cols else a.cols + b.cols) ∧
    ∀ i j, r.denote i j = if rowwise then vcat a.rows a.denote b.denote i j else hcat a.cols a.denote b.denote i j :=
  catOp_refines rowwise cls a b r h

/-- **`A.cat_rows(B, D)` denotes the block matrix `[[A, Bᵀ], [B, D]]`** (for a square `A` of any class). -/
theorem catRows_value (cls : Nat) (a r : Op α) (o : Nat) (B D : NMat α) (h : catRowsOp cls a o B D = .ok r)
    (hsq : a.rows = a.cols) :
    r.rows = a.rows + o ∧ r.cols = a.cols + o ∧ ∀ i j, r.denote i j =
      if i < a.rows then (if j < a.cols then a.denote i j else B (j - a.cols) i)
      else (if j < a.cols then B (i - a.rows) j else D (i - a.rows) (j - a.cols)) :=
  catRowsOp_refines cls a r o B D h hsq

/-- **`A.add_low_rank(B)` denotes `A + B Bᵀ`** whichever branch is taken (re-dispatched `self + Dense(B Bᵀ)`, or the
Sum-family branch that returns a DenseLinearOperator). -/
theorem addLowRank_value (a r : Op α) (k : Nat) (B : NMat α) (h : addLowRank a k B = .ok r) (i j : Nat)
    (hi : i < a.rows) : r.denote i j = a.denote i j + sumN k fun l => B i l * B j l := addLowRank_refines a r k B h i j hi

open Matrix in
/-- **The Schur-complement identity the root transplant of `cat_rows` relies on**: with `E Eᵀ = A` (cached root), `E Rᵀ = 1`
(the inverse root the code multiplies with; it gives `R Rᵀ = A⁻¹`), `F = B R` and `G Gᵀ = D − F Fᵀ`, the new root
`Z = [[E, 0], [F, G]]` satisfies `Z Zᵀ = [[A, Bᵀ], [B, D]]` — the cached `root_decomposition` of the result denotes the
result.  (With the wrong sign `D + F Fᵀ` the lower-right block would be `D + 2 F Fᵀ`.) -/
theorem catRows_root_identity {n o k q : Type} [Fintype n] [Fintype o] [Fintype k] [Fintype q] [DecidableEq n]
    [DecidableEq o] [DecidableEq k] [DecidableEq q]
    (A : Matrix n n α) (B : Matrix o n α) (D : Matrix o o α) (E : Matrix n k α) (R : Matrix n k α) (G : Matrix o q α)
    (hE : E * Eᵀ = A) (hR : E * Rᵀ = 1) (hG : G * Gᵀ = D - (B * R) * (B * R)ᵀ) :
    fromBlocks E 0 (B * R) G * (fromBlocks E 0 (B * R) G)ᵀ = fromBlocks A Bᵀ B D :=
  catRows_root_identity_aux A B D E R G hE hR hG

/-- the hypotheses of `catRows_root_identity` are satisfiable (1×1 blocks over ℤ: A = 1, B = 2, D = 5, E = R = G = 1). -/
example : ∃ (A B D E R G : Matrix (Fin 1) (Fin 1) Int), E * E.transpose = A ∧ E * R.transpose = 1 ∧
    G * G.transpose = D - (B * R) * (B * R).transpose :=
  ⟨1, 2, 5, 1, 1, 1, by decide, by decide, by decide⟩

/-- The model has no other failure mode than the two explicit errors: a dispatch step either returns an operator
(with the right value, by the theorems above) or says `notSupported` / `shape`. -/
theorem error_explicit (e : Err) : e = .notSupported ∨ e = .shape := by cases e <;> simp

/-- the hypotheses of `eval_refines` are satisfiable (exact square roots of 0/1 over ℤ, identity root stand-in) -/
example : ∃ E : Env Int, SqrtLaw E.S ∧ ∀ x i j, (E.rootDec x).denote i j = x.denote i j :=
  ⟨⟨⟨fun c => c == 1, fun c => c⟩, id⟩, by intro c hc; simp at hc; subst hc; rfl, fun _ _ _ => rfl⟩

/-- **The previous `IdentityLinearOperator._mul_matrix` (`return other`, before fix 7b74d3a) was wrong**: a statement
about the OLD formula only — `A`'s off-diagonal entries differ from the elementwise product `I ∘ A`. -/
theorem old_code_identity_mul_counterexample :
    (oldIdentityMulMatrix 2 (Op.dense 2 2 fun _ _ => (1 : Int))).denote 0 1 ≠
      (Op.identity 2 : Op Int).denote 0 1 * (Op.dense 2 2 fun _ _ => (1 : Int)).denote 0 1 := by decide

/-- **The previous `ZeroLinearOperator.mul(python number)` (before fix 63d7878) produced no value** (AttributeError), so
`X - Zero` failed for every `X`; statement about the OLD formula only. -/
theorem old_code_zero_mul_counterexample : (oldZeroMulPyNumber 2 2 : Option (Op Int)) = none := rfl

/-! ### the dispatch model's case lists are the ladders in /repo's source (regenerated every run) -/
open LinOp.Generated.C02

/-- which classes define `__add__` themselves (= the left-operand cases of `add`). -/
theorem table_add_overriders : overriders "__add__" =
    ["LinearOperator", "AddedDiagLinearOperator", "DenseLinearOperator", "DiagLinearOperator",
     "ConstantDiagLinearOperator", "KroneckerProductAddedDiagLinearOperator", "KroneckerProductLinearOperator",
     "LowRankRootAddedDiagLinearOperator", "LowRankRootLinearOperator", "SumLinearOperator",
     "TriangularLinearOperator", "ZeroLinearOperator"] := by decide +kernel

theorem ladder_base_add : ladder "LinearOperator" "__add__" =
    some ["other:ZeroLinearOperator", "other:DiagLinearOperator", "other:RootLinearOperator", "other:Tensor",
          "other:numbers.Number"] := by decide +kernel
theorem ladder_dense_add : ladder "DenseLinearOperator" "__add__" =
    some ["other:DenseLinearOperator", "other:torch.Tensor"] := by decide +kernel
theorem ladder_diag_add : ladder "DiagLinearOperator" "__add__" = some ["other:DiagLinearOperator"] := by decide +kernel
theorem ladder_constdiag_add : ladder "ConstantDiagLinearOperator" "__add__" =
    some ["other:ConstantDiagLinearOperator"] := by decide +kernel
theorem ladder_tri_add : ladder "TriangularLinearOperator" "__add__" =
    some ["other:DiagLinearOperator", "other:TriangularLinearOperator"] := by decide +kernel
theorem ladder_kron_add : ladder "KroneckerProductLinearOperator" "__add__" =
    some ["other:KroneckerProductDiagLinearOperator|ConstantDiagLinearOperator", "other:KroneckerProductLinearOperator",
          "other:DiagLinearOperator"] := by decide +kernel
theorem ladder_kpad_add : ladder "KroneckerProductAddedDiagLinearOperator" "__add__" =
    some ["other:ConstantDiagLinearOperator"] := by decide +kernel
theorem ladder_addeddiag_add : ladder "AddedDiagLinearOperator" "__add__" = some ["other:DiagLinearOperator"] := by
  decide +kernel
theorem ladder_lrr_add : ladder "LowRankRootLinearOperator" "__add__" = some ["other:DiagLinearOperator"] := by
  decide +kernel
theorem ladder_lrrad_add : ladder "LowRankRootAddedDiagLinearOperator" "__add__" = some ["other:DiagLinearOperator"] := by
  decide +kernel
theorem ladder_sum_add : ladder "SumLinearOperator" "__add__" =
    some ["other:ZeroLinearOperator", "other:DiagLinearOperator", "other:SumLinearOperator", "other:LinearOperator",
          "other:Tensor"] := by decide +kernel
theorem ladder_zero_add : ladder "ZeroLinearOperator" "__add__" =
    some ["other:is_tensor", "other:LinearOperator", "other:LinearOperator"] := by decide +kernel
theorem ladder_zero_mul : ladder "ZeroLinearOperator" "mul" = some ["other:is_tensor", "other:LinearOperator"] := by
  decide +kernel
/-- `IdentityLinearOperator` has no `_mul_matrix` of its own any more (it must inherit ConstantDiag's). -/
theorem ladder_identity_mul_matrix : ladder "IdentityLinearOperator" "_mul_matrix" = none := by decide +kernel
theorem ladder_tri_init : ladder "TriangularLinearOperator" "__init__" =
    some ["tensor:TriangularLinearOperator", "tensor:BatchRepeatLinearOperator", "base_linear_op:TriangularLinearOperator",
          "tensor:is_tensor"] := by decide +kernel

/-- since d734ac2 the `isinstance(other, ZeroLinearOperator)` branches hand over to the Zero operand's own methods
(`ZeroLinearOperator.__add__` / `.mul` validate and broadcast); before, they returned `self` / `other` unchanged. -/
theorem zero_branch_base_add : zeroReturn "LinearOperator" "__add__" = some ["other + self"] := by decide +kernel
theorem zero_branch_sum_add : zeroReturn "SumLinearOperator" "__add__" = some ["other + self"] := by decide +kernel
theorem zero_branch_base_mul : zeroReturn "LinearOperator" "mul" = some ["other.mul(self)"] := by decide +kernel
/-- `BlockDiagLinearOperator.matmul` (53611b1): shapes are validated (`_matmul_broadcast_shape`) before the block-wise / diagonal
shortcuts, whose ladder is BlockDiag, then Diag. -/
theorem ladder_blockdiag_matmul : ladder "BlockDiagLinearOperator" "matmul" =
    some ["other:BlockDiagLinearOperator", "other:DiagLinearOperator"] := by decide +kernel
theorem blockdiag_matmul_validates_first : (callsOf "BlockDiagLinearOperator" "matmul").map List.head? =
    some (some "_matmul_broadcast_shape") := by decide +kernel

theorem table_mul_constant_overriders : overriders "_mul_constant" =
    ["LinearOperator", "BlockLinearOperator", "CholLinearOperator", "DiagLinearOperator", "ConstantDiagLinearOperator",
     "IdentityLinearOperator", "InterpolatedLinearOperator", "KroneckerProductDiagLinearOperator",
     "LowRankRootAddedDiagLinearOperator", "MulLinearOperator", "RootLinearOperator", "SumKroneckerLinearOperator",
     "SumLinearOperator", "TriangularLinearOperator"] := by decide +kernel
/-- a constant multiple of a SumKronecker is built as a plain SumLinearOperator (608f21e). -/
theorem builds_sumkron_mul_constant : builds "SumKroneckerLinearOperator" "_mul_constant" = some ["SumLinearOperator"] := by
  decide +kernel
theorem table_mul_matrix_overriders : overriders "_mul_matrix" =
    ["LinearOperator", "DiagLinearOperator", "ConstantDiagLinearOperator", "TriangularLinearOperator"] := by decide +kernel
theorem table_mul_overriders : overriders "mul" = ["LinearOperator", "ZeroLinearOperator"] := by decide +kernel
theorem table_matmul_overriders : overriders "matmul" =
    ["LinearOperator", "BlockDiagLinearOperator", "DiagLinearOperator", "ConstantDiagLinearOperator",
     "IdentityLinearOperator", "InterpolatedLinearOperator", "ZeroLinearOperator"] := by decide +kernel
theorem table_add_diagonal_overriders : overriders "add_diagonal" =
    ["LinearOperator", "AddedDiagLinearOperator", "DiagLinearOperator", "KroneckerProductLinearOperator",
     "LowRankRootLinearOperator", "TriangularLinearOperator", "ZeroLinearOperator"] := by decide +kernel
theorem table_add_jitter_overriders : overriders "add_jitter" =
    ["LinearOperator", "BatchRepeatLinearOperator", "ToeplitzLinearOperator"] := by decide +kernel
theorem ladder_diag_matmul : ladder "DiagLinearOperator" "matmul" =
    some ["other:Tensor", "other:DenseLinearOperator", "other:DiagLinearOperator", "other:TriangularLinearOperator",
          "other:BlockDiagLinearOperator"] := by decide +kernel
theorem ladder_constdiag_matmul : ladder "ConstantDiagLinearOperator" "matmul" =
    some ["other:ConstantDiagLinearOperator"] := by decide +kernel
theorem ladder_base_mul : ladder "LinearOperator" "mul" =
    some ["other:ZeroLinearOperator", "other:is_tensor", "other:LinearOperator", "other:is_tensor"] := by decide +kernel
theorem ladder_base_mul_matrix : ladder "LinearOperator" "_mul_matrix" =
    some ["self:DenseLinearOperator", "other:DenseLinearOperator"] := by decide +kernel
theorem ladder_constdiag_mul_matrix : ladder "ConstantDiagLinearOperator" "_mul_matrix" =
    some ["other:ConstantDiagLinearOperator"] := by decide +kernel
/-- the inheritance facts the `isinstance` predicates of the model encode. -/
theorem bases_kpdiag : basesOf "KroneckerProductDiagLinearOperator" =
    some ["DiagLinearOperator", "KroneckerProductTriangularLinearOperator"] := by decide +kernel
theorem bases_diag : basesOf "DiagLinearOperator" = some ["TriangularLinearOperator"] := by decide +kernel
theorem bases_identity : basesOf "IdentityLinearOperator" = some ["ConstantDiagLinearOperator"] := by decide +kernel
theorem bases_constdiag : basesOf "ConstantDiagLinearOperator" = some ["DiagLinearOperator"] := by decide +kernel
theorem bases_kpad : basesOf "KroneckerProductAddedDiagLinearOperator" = some ["AddedDiagLinearOperator"] := by decide +kernel
theorem bases_lrrad : basesOf "LowRankRootAddedDiagLinearOperator" = some ["AddedDiagLinearOperator"] := by decide +kernel
theorem bases_addeddiag : basesOf "AddedDiagLinearOperator" = some ["SumLinearOperator"] := by decide +kernel
theorem bases_chol : basesOf "CholLinearOperator" = some ["RootLinearOperator"] := by decide +kernel
theorem bases_lrr : basesOf "LowRankRootLinearOperator" = some ["RootLinearOperator"] := by decide +kernel

/-- hypotheses are satisfiable on a non-trivial instance: Kronecker + ConstantDiag. -/
example : ∃ r : Op Int, add (.kron (.dense 1 1 fun _ _ => 2) (.dense 2 2 fun i j => ((i + j : Nat) : Int))) (.constDiag 2 3) = .ok r ∧
    r.tree = "KroneckerProductAddedDiag(KroneckerProduct(Dense,Dense),ConstantDiag)" := ⟨_, rfl, by decide⟩

end LinOp.C02
