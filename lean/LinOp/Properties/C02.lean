import LinOp.C02.Model
import LinOp.Generated.C02Table
namespace LinOp.C02
open Op

/-- placeholder while the proofs are developed -/
theorem zero_add_left {α : Type} [Zero α] [One α] [Add α] [Mul α] [Neg α] (n m : Nat) (b : Op α) :
    add (.zero n m) b = .ok b := rfl

end LinOp.C02
