import LinOp.C02.Proofs4
import LinOp.Generated.C02Table
/-!
C02 — composition and structure-preserving rewrites never change the matrix.  Property theorems only.

`Op` is the deep embedding of the operator classes, `denote` the matrix a class documents, and
`add` / `addDiagonal` / `addJitter` / `matmulOp` / … the library's type-dispatching methods
(LinOp/C02/Model.lean).  All statements hold for every operand of every class at every nesting depth
and every size, over any commutative ring.
-/
namespace LinOp.C02
open Op
variable {α : Type} [CommRing α]

/-- **`a + b` denotes `⟦a⟧ + ⟦b⟧` whichever class the dispatch picks** — all 23 × 23 pairs of
constructors, arbitrary nesting (AddedDiag / Triangular / LowRankRootAddedDiag recurse into their
components), Sum flattening, Kronecker → KroneckerProductAddedDiag / SumKronecker, root operands
through `add_low_rank`.  A `.ok` result is never a wrong value. -/
theorem add_value (a b r : Op α) (h : add a b = .ok r) (i j : Nat) (hi : i < a.rows) :
    r.denote i j = a.denote i j + b.denote i j := add_refines a b r h i j hi

/-- **Zero is absorbed**: `Zero + b` is `b` itself and `a + Zero` is `a` itself for the classes whose
ladder ends in the base class or in `SumLinearOperator.__add__` (no wrapper object is built). -/
theorem zero_add_absorb (n m : Nat) (b : Op α) : add (.zero n m) b = .ok b := rfl

theorem add_zero_absorb_base (a : Op α) (n m : Nat) : baseAdd a (.zero n m) = .ok a := rfl

theorem add_zero_absorb_sum (a : Op α) (n m : Nat) : sumAdd a (.zero n m) = .ok a := rfl

/-- **`add_diagonal` adds `diag(d)`** for the three accepted shapes of `d`, for every class (Diag stays
Diag, Kronecker → KroneckerProductAddedDiag, LowRankRoot → LowRankRootAddedDiag, Triangular and the
AddedDiag family recurse, Zero becomes a Diag, everything else becomes an AddedDiag). -/
theorem addDiagonal_value (a r : Op α) (g : DiagArg α) (h : addDiagonal a g = .ok r) (i j : Nat) (hi : i < a.rows) :
    r.denote i j = a.denote i j + (if i = j then g.fn i else 0) := addDiagonal_refines a r g h i j hi

/-- size-1 corner: a full diagonal of a 1×1 operator is a length-1 tensor, which the code treats as a constant
diagonal (`diag.shape[-1] != 1` is false) — the class is ConstantDiag, the value is the same. -/
theorem addDiagonal_one_by_one (t : NMat α) (d : Nat → α) :
    addDiagonal (.dense 1 1 t) (.full d) = .ok (.addedDiag (.dense 1 1 t) (.constDiag 1 (d 0))) := by
  simp [addDiagonal, isDiag, rows, cols, isKron, isLowRankRoot, DiagArg.toOp, mkAddedDiag]

/-- **`add_jitter` adds `c·I`**, including the Toeplitz override that only touches the first column entry. -/
theorem addJitter_value (a r : Op α) (c : α) (h : addJitter a c = .ok r) (i j : Nat) (hi : i < a.rows) :
    r.denote i j = a.denote i j + (if i = j then c else 0) := addJitter_refines a r c h i j hi

/-- **`a @ b` for an operator `b`** (rows of the result inside `a`'s row range): the structured results of
`Zero.matmul`, `Identity.matmul`, `ConstantDiag.matmul`, `Diag.matmul` (× Dense, × Triangular(Dense),
× Diag) and the lazy `MatmulLinearOperator` all denote the matrix product. -/
theorem matmulOp_value (a b r : Op α) (h : matmulOp a b = .ok r) (i j : Nat) (hi : i < a.rows)
    (hk : a.cols = b.rows) :
    r.denote i j = sumN a.cols fun k => a.denote i k * b.denote k j := matmulOp_refines a b r h i j hi hk

/-- **Orientation is kept**: `Diag @ Triangular(T, upper=u)` is a TriangularLinearOperator with the SAME `upper` flag
(`TriangularLinearOperator(self @ other._tensor, upper=other.upper)`); the class-tree correspondence compares the flag. -/
theorem diag_matmul_tri_keeps_orientation (n k m : Nat) (d : Nat → α) (up : Bool) (t : NMat α) :
    matmulOp (.diag n d) (.tri up (.dense k m t)) = .ok (.tri up (.dense n m fun i j => d i * t i j)) := by
  simp [matmulOp, isConstDiag, isDiag, rows, diagOf]

/-- transposing a Triangular flips the flag, transposing twice restores it. -/
theorem transpose_tri_flag (up : Bool) (t : Op α) :
    transposeOp (.tri up t) = .tri (!up) (transposeOp t) := by simp [transposeOp]

/-- The Mul constructor's operand swap (larger root first) is invisible in the value. -/
theorem mkMul_value (a b : Op α) (i j : Nat) : (mkMul a b).denote i j = a.denote i j * b.denote i j :=
  mkMul_refines a b i j

/-- **`a - b` denotes `⟦a⟧ - ⟦b⟧`** (`self + other.mul(-1)`; includes `X - Zero` since fix 63d7878), for every
pair of classes; `S` supplies the positivity test and square root used for root folding. -/
theorem sub_value (S : ScalarOps α) (hS : SqrtLaw S) (a b r : Op α) (h : sub S a b = .ok r) (i j : Nat)
    (hi : i < a.rows) :
    r.denote i j = a.denote i j - b.denote i j := by
  rw [sub_refines S hS a b r h i j hi]; ring

/-- **Multiplication by a constant** (python number, 0-d tensor …) denotes the scaled matrix whatever the class
does with it: Diag/ConstantDiag/Identity/KroneckerProductDiag rescale their diagonal, Triangular and the Sum family
recurse, **Root/LowRankRoot/Chol fold `sqrt c` into the root when `c > 0`** (needs `sqrt c · sqrt c = c`) and
wrap in ConstantMul otherwise, Mul scales its left root, LowRankRootAddedDiag degrades to AddedDiag for
non-positive constants, Zero stays Zero, everything else becomes a ConstantMulLinearOperator. -/
theorem mulScalar_value (S : ScalarOps α) (hS : SqrtLaw S) (a : Op α) (c : α) (i j : Nat) :
    (mulScalar S a c).denote i j = a.denote i j * c := mulScalar_refines S hS a c i j

theorem mulConst_value (S : ScalarOps α) (hS : SqrtLaw S) (a : Op α) (c : α) (i j : Nat) :
    (mulConst S a c).denote i j = a.denote i j * c := mulConst_refines S hS a c i j

/-- `op / c` = `op * (1/c)`. -/
theorem divScalar_value (S : ScalarOps α) (hS : SqrtLaw S) (a : Op α) (cinv : α) (i j : Nat) :
    (divScalar S a cinv).denote i j = a.denote i j * cinv := divScalar_refines S hS a cinv i j

/-- scaling never changes the shape. -/
theorem mulConst_shape (S : ScalarOps α) (a : Op α) (c : α) :
    (mulConst S a c).rows = a.rows ∧ (mulConst S a c).cols = a.cols := shape_mulConst S a c

/-- **Transpose** (`_transpose_nonbatch` of every class) denotes the transposed matrix and swaps the shape. -/
theorem transpose_value (a : Op α) (i j : Nat) : (transposeOp a).denote i j = a.denote j i := transpose_refines a i j

theorem transpose_shape (a : Op α) : (transposeOp a).rows = a.cols ∧ (transposeOp a).cols = a.rows :=
  shape_transpose a

/-- **Elementwise product of two operators** (`mul` → `_mul_matrix`): Zero on either side, ConstantDiag∘ConstantDiag,
Diag-like ∘ anything (only the diagonal of the other operand is read — this now includes Identity), the Dense
shortcut, and the MulLinearOperator built from root decompositions (`rootDec` is the numerical primitive, assumed to
return an operator with the same value) all denote the Hadamard product. -/
theorem mulMatrix_value (rootDec : Op α → Op α) (hroot : ∀ x i j, (rootDec x).denote i j = x.denote i j)
    (a b r : Op α) (h : mulMatrix rootDec a b = .ok r) (i j : Nat) :
    r.denote i j = a.denote i j * b.denote i j := mulMatrix_refines rootDec hroot a b r h i j

/-- `Identity * b` is the diagonal part of `b` (full theorem since fix 7b74d3a), never an error. -/
theorem mulMatrix_identity (rootDec : Op α → Op α) (n : Nat) (b : Op α) (hz : b.isZero = false)
    (hc : b.isConstDiag = false) :
    mulMatrix rootDec (.identity n) b = .ok (.diag n fun i => 1 * b.denote i i) := by
  have h1 : ((Op.identity n : Op α).isConstDiag && b.isConstDiag) = false := by simp [hc]
  simp [mulMatrix, hz, h1, isDiag, isTri, rows, diagOf]

/-- `Triangular * b` (be9ba88): a triangular operator (same orientation) over the dense Hadamard product — never a
MulLinearOperator of root decompositions (triangular operators are not PSD). -/
theorem mulMatrix_triangular (rootDec : Op α → Op α) (up : Bool) (t b : Op α) (hz : b.isZero = false) :
    mulMatrix rootDec (.tri up t) b
      = .ok (.tri up (.dense t.rows t.cols fun i j => t.denote i j * b.denote i j)) := by
  simp [mulMatrix, hz, isTri, triUpper, rows, cols, denote]

/-- **Programs**: for every expression program `p` (any depth) over operators of any class, built from +, −, scalar * and /,
elementwise *, @, add_diagonal, add_jitter and transpose: if the library's evaluation (every step through the
dispatch model) yields `r`, then `r` has the shape of the dense expression and denotes the dense value on it.
Which result classes were chosen along the way is invisible. -/
theorem eval_refines (E : Env α) (hS : SqrtLaw E.S)
    (hroot : ∀ x i j, (E.rootDec x).denote i j = x.denote i j) (p : Prog α) (r : Op α)
    (h : Impl.eval E p = .ok r) :
    r.rows = p.rows ∧ r.cols = p.cols ∧ ∀ i j, i < p.rows → j < p.cols → r.denote i j = Spec.eval p i j :=
  eval_refines_aux E hS hroot p r h

/-- Corollary (**result class irrelevant**): two evaluations of the same program under different numerical
primitives / scalar implementations (hence possibly different class trees) agree entrywise. -/
theorem resultClass_irrelevant (E E' : Env α) (hS : SqrtLaw E.S) (hS' : SqrtLaw E'.S)
    (hroot : ∀ x i j, (E.rootDec x).denote i j = x.denote i j)
    (hroot' : ∀ x i j, (E'.rootDec x).denote i j = x.denote i j)
    (p : Prog α) (r r' : Op α) (h : Impl.eval E p = .ok r) (h' : Impl.eval E' p = .ok r')
    (i j : Nat) (hi : i < p.rows) (hj : j < p.cols) : r.denote i j = r'.denote i j := by
  rw [(eval_refines E hS hroot p r h).2.2 i j hi hj, (eval_refines E' hS' hroot' p r' h').2.2 i j hi hj]

/-- The model has no other failure mode than the two explicit errors: a dispatch step either returns an operator
(with the right value, by the theorems above) or says `notSupported` / `shape`. -/
theorem error_explicit (e : Err) : e = .notSupported ∨ e = .shape := by cases e <;> simp

/-- the hypotheses of `eval_refines` are satisfiable (exact square roots of 0/1 over ℤ, identity root stand-in) -/
example : ∃ E : Env Int, SqrtLaw E.S ∧ ∀ x i j, (E.rootDec x).denote i j = x.denote i j :=
  ⟨⟨⟨fun c => c == 1, fun c => c⟩, id⟩, by intro c hc; simp at hc; subst hc; rfl, fun _ _ _ => rfl⟩

/-- **The previous `IdentityLinearOperator._mul_matrix` (`return other`, before fix 7b74d3a) was wrong**: a statement
about the OLD formula only — `A`'s off-diagonal entries differ from the elementwise product `I ∘ A`. -/
theorem old_code_identity_mul_counterexample :
    (oldIdentityMulMatrix 2 (Op.dense 2 2 fun _ _ => (1 : Int))).denote 0 1 ≠
      (Op.identity 2 : Op Int).denote 0 1 * (Op.dense 2 2 fun _ _ => (1 : Int)).denote 0 1 := by decide

/-- **The previous `ZeroLinearOperator.mul(python number)` (before fix 63d7878) produced no value** (AttributeError), so
`X - Zero` failed for every `X`; statement about the OLD formula only. -/
theorem old_code_zero_mul_counterexample : (oldZeroMulPyNumber 2 2 : Option (Op Int)) = none := rfl

/-! ### the dispatch model's case lists are the ladders in /repo's source (regenerated every run) -/
open LinOp.Generated.C02

/-- which classes define `__add__` themselves (= the left-operand cases of `add`). -/
theorem table_add_overriders : overriders "__add__" =
    ["LinearOperator", "AddedDiagLinearOperator", "DenseLinearOperator", "DiagLinearOperator",
     "ConstantDiagLinearOperator", "KroneckerProductAddedDiagLinearOperator", "KroneckerProductLinearOperator",
     "LowRankRootAddedDiagLinearOperator", "LowRankRootLinearOperator", "SumLinearOperator",
     "TriangularLinearOperator", "ZeroLinearOperator"] := by decide +kernel

theorem ladder_base_add : ladder "LinearOperator" "__add__" =
    some ["other:ZeroLinearOperator", "other:DiagLinearOperator", "other:RootLinearOperator", "other:Tensor",
          "other:numbers.Number"] := by decide +kernel
theorem ladder_dense_add : ladder "DenseLinearOperator" "__add__" =
    some ["other:DenseLinearOperator", "other:torch.Tensor"] := by decide +kernel
theorem ladder_diag_add : ladder "DiagLinearOperator" "__add__" = some ["other:DiagLinearOperator"] := by decide +kernel
theorem ladder_constdiag_add : ladder "ConstantDiagLinearOperator" "__add__" =
    some ["other:ConstantDiagLinearOperator"] := by decide +kernel
theorem ladder_tri_add : ladder "TriangularLinearOperator" "__add__" =
    some ["other:DiagLinearOperator", "other:TriangularLinearOperator"] := by decide +kernel
theorem ladder_kron_add : ladder "KroneckerProductLinearOperator" "__add__" =
    some ["other:KroneckerProductDiagLinearOperator|ConstantDiagLinearOperator", "other:KroneckerProductLinearOperator",
          "other:DiagLinearOperator"] := by decide +kernel
theorem ladder_kpad_add : ladder "KroneckerProductAddedDiagLinearOperator" "__add__" =
    some ["other:ConstantDiagLinearOperator"] := by decide +kernel
theorem ladder_addeddiag_add : ladder "AddedDiagLinearOperator" "__add__" = some ["other:DiagLinearOperator"] := by
  decide +kernel
theorem ladder_lrr_add : ladder "LowRankRootLinearOperator" "__add__" = some ["other:DiagLinearOperator"] := by
  decide +kernel
theorem ladder_lrrad_add : ladder "LowRankRootAddedDiagLinearOperator" "__add__" = some ["other:DiagLinearOperator"] := by
  decide +kernel
theorem ladder_sum_add : ladder "SumLinearOperator" "__add__" =
    some ["other:ZeroLinearOperator", "other:DiagLinearOperator", "other:SumLinearOperator", "other:LinearOperator",
          "other:Tensor"] := by decide +kernel
theorem ladder_zero_add : ladder "ZeroLinearOperator" "__add__" =
    some ["other:is_tensor", "other:LinearOperator", "other:LinearOperator"] := by decide +kernel
theorem ladder_zero_mul : ladder "ZeroLinearOperator" "mul" = some ["other:is_tensor", "other:LinearOperator"] := by
  decide +kernel
/-- `IdentityLinearOperator` has no `_mul_matrix` of its own any more (it must inherit ConstantDiag's). -/
theorem ladder_identity_mul_matrix : ladder "IdentityLinearOperator" "_mul_matrix" = none := by decide +kernel
theorem ladder_tri_init : ladder "TriangularLinearOperator" "__init__" =
    some ["tensor:TriangularLinearOperator", "tensor:BatchRepeatLinearOperator", "base_linear_op:TriangularLinearOperator",
          "tensor:is_tensor"] := by decide +kernel

theorem table_mul_constant_overriders : overriders "_mul_constant" =
    ["LinearOperator", "BlockLinearOperator", "CholLinearOperator", "DiagLinearOperator", "ConstantDiagLinearOperator",
     "IdentityLinearOperator", "InterpolatedLinearOperator", "KroneckerProductDiagLinearOperator",
     "LowRankRootAddedDiagLinearOperator", "MulLinearOperator", "RootLinearOperator", "SumKroneckerLinearOperator",
     "SumLinearOperator", "TriangularLinearOperator"] := by decide +kernel
/-- a constant multiple of a SumKronecker is built as a plain SumLinearOperator (608f21e). -/
theorem builds_sumkron_mul_constant : builds "SumKroneckerLinearOperator" "_mul_constant" = some ["SumLinearOperator"] := by
  decide +kernel
theorem table_mul_matrix_overriders : overriders "_mul_matrix" =
    ["LinearOperator", "DiagLinearOperator", "ConstantDiagLinearOperator", "TriangularLinearOperator"] := by decide +kernel
theorem table_mul_overriders : overriders "mul" = ["LinearOperator", "ZeroLinearOperator"] := by decide +kernel
theorem table_matmul_overriders : overriders "matmul" =
    ["LinearOperator", "BlockDiagLinearOperator", "DiagLinearOperator", "ConstantDiagLinearOperator",
     "IdentityLinearOperator", "InterpolatedLinearOperator", "ZeroLinearOperator"] := by decide +kernel
theorem table_add_diagonal_overriders : overriders "add_diagonal" =
    ["LinearOperator", "AddedDiagLinearOperator", "DiagLinearOperator", "KroneckerProductLinearOperator",
     "LowRankRootLinearOperator", "TriangularLinearOperator", "ZeroLinearOperator"] := by decide +kernel
theorem table_add_jitter_overriders : overriders "add_jitter" =
    ["LinearOperator", "BatchRepeatLinearOperator", "ToeplitzLinearOperator"] := by decide +kernel
theorem ladder_diag_matmul : ladder "DiagLinearOperator" "matmul" =
    some ["other:Tensor", "other:DenseLinearOperator", "other:DiagLinearOperator", "other:TriangularLinearOperator",
          "other:BlockDiagLinearOperator"] := by decide +kernel
theorem ladder_constdiag_matmul : ladder "ConstantDiagLinearOperator" "matmul" =
    some ["other:ConstantDiagLinearOperator"] := by decide +kernel
theorem ladder_base_mul : ladder "LinearOperator" "mul" =
    some ["other:ZeroLinearOperator", "other:is_tensor", "other:LinearOperator", "other:is_tensor"] := by decide +kernel
theorem ladder_base_mul_matrix : ladder "LinearOperator" "_mul_matrix" =
    some ["self:DenseLinearOperator", "other:DenseLinearOperator"] := by decide +kernel
theorem ladder_constdiag_mul_matrix : ladder "ConstantDiagLinearOperator" "_mul_matrix" =
    some ["other:ConstantDiagLinearOperator"] := by decide +kernel
/-- the inheritance facts the `isinstance` predicates of the model encode. -/
theorem bases_kpdiag : basesOf "KroneckerProductDiagLinearOperator" =
    some ["DiagLinearOperator", "KroneckerProductTriangularLinearOperator"] := by decide +kernel
theorem bases_diag : basesOf "DiagLinearOperator" = some ["TriangularLinearOperator"] := by decide +kernel
theorem bases_identity : basesOf "IdentityLinearOperator" = some ["ConstantDiagLinearOperator"] := by decide +kernel
theorem bases_constdiag : basesOf "ConstantDiagLinearOperator" = some ["DiagLinearOperator"] := by decide +kernel
theorem bases_kpad : basesOf "KroneckerProductAddedDiagLinearOperator" = some ["AddedDiagLinearOperator"] := by decide +kernel
theorem bases_lrrad : basesOf "LowRankRootAddedDiagLinearOperator" = some ["AddedDiagLinearOperator"] := by decide +kernel
theorem bases_addeddiag : basesOf "AddedDiagLinearOperator" = some ["SumLinearOperator"] := by decide +kernel
theorem bases_chol : basesOf "CholLinearOperator" = some ["RootLinearOperator"] := by decide +kernel
theorem bases_lrr : basesOf "LowRankRootLinearOperator" = some ["RootLinearOperator"] := by decide +kernel

/-- hypotheses are satisfiable on a non-trivial instance: Kronecker + ConstantDiag. -/
example : ∃ r : Op Int, add (.kron (.dense 1 1 fun _ _ => 2) (.dense 2 2 fun i j => ((i + j : Nat) : Int))) (.constDiag 2 3) = .ok r ∧
    r.tree = "KroneckerProductAddedDiag(KroneckerProduct(Dense,Dense),ConstantDiag)" := ⟨_, rfl, by decide⟩

end LinOp.C02
