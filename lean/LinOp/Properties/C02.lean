import LinOp.C02.Proofs
import LinOp.Generated.C02Table
/-!
C02 — composition and structure-preserving rewrites never change the matrix.  Property theorems only.

`Op` is the deep embedding of the operator classes, `denote` the matrix a class documents, and
`add` / `addDiagonal` / `addJitter` / `matmulOp` / … the library's type-dispatching methods
(LinOp/C02/Model.lean).  All statements hold for every operand of every class at every nesting depth
and every size, over any commutative ring.
-/
namespace LinOp.C02
open Op
variable {α : Type} [CommRing α]

/-- **`a + b` denotes `⟦a⟧ + ⟦b⟧` whichever class the dispatch picks** — all 23 × 23 pairs of
constructors, arbitrary nesting (AddedDiag / Triangular / LowRankRootAddedDiag recurse into their
components), Sum flattening, Kronecker → KroneckerProductAddedDiag / SumKronecker, root operands
through `add_low_rank`.  A `.ok` result is never a wrong value. -/
theorem add_value (a b r : Op α) (h : add a b = .ok r) (i j : Nat) :
    r.denote i j = a.denote i j + b.denote i j := add_refines a b r h i j

/-- **Zero is absorbed**: `Zero + b` is `b` itself and `a + Zero` is `a` itself for the classes whose
ladder ends in the base class or in `SumLinearOperator.__add__` (no wrapper object is built). -/
theorem zero_add_absorb (n m : Nat) (b : Op α) : add (.zero n m) b = .ok b := rfl

theorem add_zero_absorb_base (a : Op α) (n m : Nat) : baseAdd a (.zero n m) = .ok a := rfl

theorem add_zero_absorb_sum (a : Op α) (n m : Nat) : sumAdd a (.zero n m) = .ok a := rfl

/-- **`add_diagonal` adds `diag(d)`** for the three accepted shapes of `d`, for every class (Diag stays
Diag, Kronecker → KroneckerProductAddedDiag, LowRankRoot → LowRankRootAddedDiag, Triangular and the
AddedDiag family recurse, Zero becomes a Diag, everything else becomes an AddedDiag). -/
theorem addDiagonal_value (a r : Op α) (g : DiagArg α) (h : addDiagonal a g = .ok r) (i j : Nat) :
    r.denote i j = a.denote i j + (if i = j then g.fn i else 0) := addDiagonal_refines a r g h i j

/-- **`add_jitter` adds `c·I`**, including the Toeplitz override that only touches the first column entry. -/
theorem addJitter_value (a r : Op α) (c : α) (h : addJitter a c = .ok r) (i j : Nat) :
    r.denote i j = a.denote i j + (if i = j then c else 0) := addJitter_refines a r c h i j

/-- **`a @ b` for an operator `b`** (rows of the result inside `a`'s row range): the structured results of
`Zero.matmul`, `Identity.matmul`, `ConstantDiag.matmul`, `Diag.matmul` (× Dense, × Triangular(Dense),
× Diag) and the lazy `MatmulLinearOperator` all denote the matrix product. -/
theorem matmulOp_value (a b r : Op α) (h : matmulOp a b = .ok r) (i j : Nat) (hi : i < a.rows) :
    r.denote i j = sumN a.cols fun k => a.denote i k * b.denote k j := matmulOp_refines a b r h i j hi

/-- The Mul constructor's operand swap (larger root first) is invisible in the value. -/
theorem mkMul_value (a b : Op α) (i j : Nat) : (mkMul a b).denote i j = a.denote i j * b.denote i j :=
  mkMul_refines a b i j

/-- **Defect D31 (code as it is)**: `IdentityLinearOperator._mul_matrix` returns `other`, so the model's
`Identity * A` is `A`, whose off-diagonal entries differ from the elementwise product `I ∘ A`. -/
theorem mulMatrix_identity_counterexample :
    ∃ r : Op Int, mulMatrix {} id (.identity 2) (.dense 2 2 fun _ _ => 1) = .ok r ∧
      r.denote 0 1 ≠ (Op.identity 2 : Op Int).denote 0 1 * (Op.dense 2 2 fun _ _ => (1 : Int)).denote 0 1 :=
  ⟨_, rfl, by decide⟩

/-- With the proposed fix (notes/C02_fix_3.diff) the same product is right. -/
theorem mulMatrix_identity_fixed (n : Nat) (b : Op α) (hz : b.isZero = false) (i j : Nat) :
    ∃ r, mulMatrix { identityMulFixed := true } id (.identity n) b = .ok r ∧
      r.denote i j = (Op.identity n : Op α).denote i j * b.denote i j := by
  refine ⟨.diag n fun i => b.denote i i, ?_, ?_⟩
  · simp [mulMatrix, hz]
  · by_cases hij : i = j <;> simp [denote, hij]

/-- **Defect D04 (code as it is)**: `X - Zero` fails in the model exactly as in the library. -/
theorem sub_zero_counterexample (S : ScalarOps Int) :
    sub {} S (.identity 2 : Op Int) (.zero 2 2) = .error (.internal 4) := rfl

/-! ### the dispatch model's case lists are the ladders in /repo's source (regenerated every run) -/
open LinOp.Generated.C02

/-- which classes define `__add__` themselves (= the left-operand cases of `add`). -/
theorem table_add_overriders : overriders "__add__" =
    ["LinearOperator", "AddedDiagLinearOperator", "DenseLinearOperator", "DiagLinearOperator",
     "ConstantDiagLinearOperator", "KroneckerProductAddedDiagLinearOperator", "KroneckerProductLinearOperator",
     "LowRankRootAddedDiagLinearOperator", "LowRankRootLinearOperator", "SumLinearOperator",
     "TriangularLinearOperator", "ZeroLinearOperator"] := by decide +kernel

theorem ladder_base_add : ladder "LinearOperator" "__add__" =
    some ["other:ZeroLinearOperator", "other:DiagLinearOperator", "other:RootLinearOperator", "other:Tensor",
          "other:numbers.Number"] := by decide +kernel
theorem ladder_dense_add : ladder "DenseLinearOperator" "__add__" =
    some ["other:DenseLinearOperator", "other:torch.Tensor"] := by decide +kernel
theorem ladder_diag_add : ladder "DiagLinearOperator" "__add__" = some ["other:DiagLinearOperator"] := by decide +kernel
theorem ladder_constdiag_add : ladder "ConstantDiagLinearOperator" "__add__" =
    some ["other:ConstantDiagLinearOperator"] := by decide +kernel
theorem ladder_tri_add : ladder "TriangularLinearOperator" "__add__" =
    some ["other:DiagLinearOperator", "other:TriangularLinearOperator"] := by decide +kernel
theorem ladder_kron_add : ladder "KroneckerProductLinearOperator" "__add__" =
    some ["other:KroneckerProductDiagLinearOperator|ConstantDiagLinearOperator", "other:KroneckerProductLinearOperator",
          "other:DiagLinearOperator"] := by decide +kernel
theorem ladder_kpad_add : ladder "KroneckerProductAddedDiagLinearOperator" "__add__" =
    some ["other:ConstantDiagLinearOperator"] := by decide +kernel
theorem ladder_addeddiag_add : ladder "AddedDiagLinearOperator" "__add__" = some ["other:DiagLinearOperator"] := by
  decide +kernel
theorem ladder_lrr_add : ladder "LowRankRootLinearOperator" "__add__" = some ["other:DiagLinearOperator"] := by
  decide +kernel
theorem ladder_lrrad_add : ladder "LowRankRootAddedDiagLinearOperator" "__add__" = some ["other:DiagLinearOperator"] := by
  decide +kernel
theorem ladder_sum_add : ladder "SumLinearOperator" "__add__" =
    some ["other:ZeroLinearOperator", "other:DiagLinearOperator", "other:SumLinearOperator", "other:LinearOperator",
          "other:Tensor"] := by decide +kernel
theorem ladder_zero_add : ladder "ZeroLinearOperator" "__add__" = some [] := by decide +kernel

theorem table_mul_constant_overriders : overriders "_mul_constant" =
    ["LinearOperator", "BlockLinearOperator", "DiagLinearOperator", "ConstantDiagLinearOperator",
     "IdentityLinearOperator", "InterpolatedLinearOperator", "KroneckerProductDiagLinearOperator",
     "LowRankRootAddedDiagLinearOperator", "MulLinearOperator", "RootLinearOperator", "SumLinearOperator",
     "TriangularLinearOperator"] := by decide +kernel
theorem table_mul_matrix_overriders : overriders "_mul_matrix" =
    ["LinearOperator", "DiagLinearOperator", "ConstantDiagLinearOperator", "IdentityLinearOperator"] := by decide +kernel
theorem table_mul_overriders : overriders "mul" = ["LinearOperator", "ZeroLinearOperator"] := by decide +kernel
theorem table_matmul_overriders : overriders "matmul" =
    ["LinearOperator", "BlockDiagLinearOperator", "DiagLinearOperator", "ConstantDiagLinearOperator",
     "IdentityLinearOperator", "InterpolatedLinearOperator", "ZeroLinearOperator"] := by decide +kernel
theorem table_add_diagonal_overriders : overriders "add_diagonal" =
    ["LinearOperator", "AddedDiagLinearOperator", "DiagLinearOperator", "KroneckerProductLinearOperator",
     "LowRankRootLinearOperator", "TriangularLinearOperator", "ZeroLinearOperator"] := by decide +kernel
theorem table_add_jitter_overriders : overriders "add_jitter" =
    ["LinearOperator", "BatchRepeatLinearOperator", "ToeplitzLinearOperator"] := by decide +kernel
theorem ladder_diag_matmul : ladder "DiagLinearOperator" "matmul" =
    some ["other:Tensor", "other:DenseLinearOperator", "other:DiagLinearOperator", "other:TriangularLinearOperator",
          "other:BlockDiagLinearOperator"] := by decide +kernel
theorem ladder_constdiag_matmul : ladder "ConstantDiagLinearOperator" "matmul" =
    some ["other:ConstantDiagLinearOperator"] := by decide +kernel
theorem ladder_base_mul : ladder "LinearOperator" "mul" =
    some ["other:ZeroLinearOperator", "other:is_tensor", "other:LinearOperator", "other:is_tensor"] := by decide +kernel
theorem ladder_base_mul_matrix : ladder "LinearOperator" "_mul_matrix" =
    some ["self:DenseLinearOperator", "other:DenseLinearOperator"] := by decide +kernel
theorem ladder_constdiag_mul_matrix : ladder "ConstantDiagLinearOperator" "_mul_matrix" =
    some ["other:ConstantDiagLinearOperator"] := by decide +kernel
/-- the inheritance facts the `isinstance` predicates of the model encode. -/
theorem bases_kpdiag : basesOf "KroneckerProductDiagLinearOperator" =
    some ["DiagLinearOperator", "KroneckerProductTriangularLinearOperator"] := by decide +kernel
theorem bases_diag : basesOf "DiagLinearOperator" = some ["TriangularLinearOperator"] := by decide +kernel
theorem bases_identity : basesOf "IdentityLinearOperator" = some ["ConstantDiagLinearOperator"] := by decide +kernel
theorem bases_constdiag : basesOf "ConstantDiagLinearOperator" = some ["DiagLinearOperator"] := by decide +kernel
theorem bases_kpad : basesOf "KroneckerProductAddedDiagLinearOperator" = some ["AddedDiagLinearOperator"] := by decide +kernel
theorem bases_lrrad : basesOf "LowRankRootAddedDiagLinearOperator" = some ["AddedDiagLinearOperator"] := by decide +kernel
theorem bases_addeddiag : basesOf "AddedDiagLinearOperator" = some ["SumLinearOperator"] := by decide +kernel
theorem bases_chol : basesOf "CholLinearOperator" = some ["RootLinearOperator"] := by decide +kernel
theorem bases_lrr : basesOf "LowRankRootLinearOperator" = some ["RootLinearOperator"] := by decide +kernel

/-- hypotheses are satisfiable on a non-trivial instance: Kronecker + ConstantDiag. -/
example : ∃ r : Op Int, add (.kron (.dense 1 1 fun _ _ => 2) (.dense 2 2 fun i j => ((i + j : Nat) : Int))) (.constDiag 2 3) = .ok r ∧
    r.tree = "KroneckerProductAddedDiag(KroneckerProduct(Dense,Dense),ConstantDiag)" := ⟨_, rfl, by decide⟩

end LinOp.C02
