import LinOp.C05.Model
import LinOp.C05.Proofs
import LinOp.C05.ShapeProofs
import LinOp.C05.ShapeProofs2
import LinOp.C05.ProofsGaussC09
import LinOp.C05.ProofsClamp
import LinOp.C05.ModelFlat
import LinOp.Generated.C05Overrides
import LinOp.C05.ProofsKron5
import LinOp.C05.ProofsGauss2
import LinOp.Core.Bridge
import Mathlib.LinearAlgebra.Matrix.Block
import Mathlib.LinearAlgebra.Matrix.SchurComplement
import Mathlib.LinearAlgebra.Matrix.NonsingularInverse
import Mathlib.LinearAlgebra.Matrix.Trace
import Mathlib.LinearAlgebra.Matrix.Kronecker
import Mathlib.Analysis.SpecialFunctions.Log.Basic
import Mathlib.Data.Sign.Basic
/-!
C05 — logdet and inverse quadratic forms equal the dense values or their quadrature.
Property theorems only.  The model functions (`LinOp.C05.Model`) mirror the value assembly of the
Python; factorization primitives (Cholesky, eigh, solves, Lanczos) enter as hypotheses.
-/
namespace LinOp.C05
open Matrix LinOp
open scoped Kronecker

/-! ### Stochastic Lanczos quadrature -/

/-- `StochasticLQ.to_dense` (as called by `InvQuadLogdet.forward`): from the eigendecompositions
`Tᵢ = Vᵢ diag(θᵢ) Vᵢᵀ` of the Lanczos tridiagonal matrices it returns
`(n/m) Σᵢ e₁ᵀ f(Tᵢ) e₁` with `f` applied spectrally — the Gauss–Lanczos quadrature.  Any number of
probes `m`, any Krylov dimension, any `f` (the code uses `log`). -/
theorem slq_is_gauss_lanczos {R : Type} [CommRing R] {m kk : Nat} (c : R)
    (V : Fin m → Matrix (Fin (kk + 1)) (Fin (kk + 1)) R) (θ : Fin m → Fin (kk + 1) → R) (f : R → R) :
    slqAssemble c (fun i j => V i 0 j) (fun i j => f (θ i j))
      = c * ∑ i, (V i * Matrix.diagonal (fun j => f (θ i j)) * (V i)ᵀ) 0 0 := by
  rw [slqAssemble_eq_sum, Finset.mul_sum]
  refine Finset.sum_congr rfl fun i _ => ?_
  congr 1
  rw [Matrix.mul_apply]
  simp only [Matrix.mul_diagonal, Matrix.transpose_apply]
  refine Finset.sum_congr rfl fun j _ => ?_
  ring

/-- Full Krylov dimension: if `A Q = Q T`, `Q` orthogonal, `T = V diag(θ) Vᵀ` with `V` orthogonal,
then `(QV, θ)` is an eigendecomposition of `A` … -/
theorem slq_full_dimension_eigen {k : Nat} (A Q V : Matrix (Fin k) (Fin k) ℝ) (θ : Fin k → ℝ)
    (hAQ : A * Q = Q * (V * diagonal θ * Vᵀ)) (hQQt : Q * Qᵀ = 1) (hQtQ : Qᵀ * Q = 1) (hV : Vᵀ * V = 1) :
    A = (Q * V) * diagonal θ * (Q * V)ᵀ ∧ (Q * V)ᵀ * (Q * V) = 1 := by
  constructor
  · calc A = A * (Q * Qᵀ) := by rw [hQQt, Matrix.mul_one]
      _ = (A * Q) * Qᵀ := by rw [Matrix.mul_assoc]
      _ = _ := by rw [hAQ, Matrix.transpose_mul]; simp only [Matrix.mul_assoc]
  · rw [Matrix.transpose_mul]
    calc Vᵀ * Qᵀ * (Q * V) = Vᵀ * ((Qᵀ * Q) * V) := by simp only [Matrix.mul_assoc]
      _ = 1 := by rw [hQtQ, Matrix.one_mul, hV]

/-- … and the quadrature node is exact: `e₁ᵀ f(T) e₁ = uᵀ f(A) u` for the probe `u = Q e₁`
(first Lanczos vector), where `f(A) := (QV) diag(f θ) (QV)ᵀ` is `f` applied spectrally to `A`.
Hence with budget ≥ n the SLQ value is `(n/m) Σᵢ uᵢᵀ f(A) uᵢ`: its only error is probe variance. -/
theorem slq_full_dimension {kk : Nat} (Q V : Matrix (Fin (kk + 1)) (Fin (kk + 1)) ℝ) (θ : Fin (kk + 1) → ℝ)
    (f : ℝ → ℝ) (u : Fin (kk + 1) → ℝ) (hQtQ : Qᵀ * Q = 1) (hu : ∀ i, u i = Q i 0) :
    (V * diagonal (fun j => f (θ j)) * Vᵀ) 0 0
      = ∑ i, ∑ j, u i * ((Q * V) * diagonal (fun j => f (θ j)) * (Q * V)ᵀ) i j * u j := by
  have hM : Qᵀ * ((Q * V) * diagonal (fun j => f (θ j)) * (Q * V)ᵀ) * Q = V * diagonal (fun j => f (θ j)) * Vᵀ := by
    rw [Matrix.transpose_mul]
    calc Qᵀ * (Q * V * diagonal (fun j => f (θ j)) * (Vᵀ * Qᵀ)) * Q
        = (Qᵀ * Q) * V * diagonal (fun j => f (θ j)) * Vᵀ * (Qᵀ * Q) := by simp only [Matrix.mul_assoc]
      _ = _ := by rw [hQtQ, Matrix.one_mul, Matrix.mul_one]
  rw [← hM]
  simp only [Matrix.mul_apply (M := Qᵀ * _) (N := Q), Matrix.mul_apply (M := Qᵀ), Matrix.transpose_apply,
    Finset.sum_mul, hu]
  rw [Finset.sum_comm]

/-- **SLQ below full Krylov dimension is the exact Gauss quadrature** (`max_lanczos_quadrature_iterations < n`): let every
probe `i` come with Lanczos data of Krylov dimension `k+1`: `Qᵢ` (`n × (k+1)`) with `QᵢᵀQᵢ = 1`, `QᵢᵀAQᵢ = Tᵢ`,
`A Qᵢ = Qᵢ Tᵢ` off the last column (the residual `r e_{k+1}ᵀ` lives in the last column only), `Tᵢ` lower-Hessenberg (tridiagonal)
and `Tᵢ = Vᵢ diag(θᵢ) Vᵢᵀ` the orthogonal eigendecomposition handed to `StochasticLQ.to_dense`; `A` symmetric.  Then for
EVERY monomial degree `d ≤ 2k+1` the value `to_dense` assembles for `f = x^d` is `(n/m) Σᵢ uᵢᵀ A^d uᵢ` with `uᵢ = Qᵢ e₁`
the probe: the nodes/weights `(θᵢⱼ, Vᵢ[0,j]²)` form THE (k+1)-point Gauss rule of the spectral measure of `(A, uᵢ)` (exact to
degree `2k+1`), not only at full dimension.  Any commutative ring; by linearity the same holds for every polynomial of degree
`≤ 2k+1`.  Preconditioned variant: apply it to `Ã = W⁻¹AW⁻ᵀ`, `ũ = W⁻¹z/‖·‖` and add `log|P|` (`logdet_precond_correction`).
The Lanczos relations are exactly the conclusions of C09's `lanczos_tridiag_matrix_identities` (hypotheses here). -/
theorem slq_gauss_quadrature_exact {R : Type} [CommRing R] {n m k : Nat} (c : R) (A : Matrix (Fin n) (Fin n) R)
    (Q : Fin m → Matrix (Fin n) (Fin (k + 1)) R) (V : Fin m → Matrix (Fin (k + 1)) (Fin (k + 1)) R)
    (θ : Fin m → Fin (k + 1) → R) (hA : Aᵀ = A)
    (hQ : ∀ i, (Q i)ᵀ * Q i = 1) (hP : ∀ i, (Q i)ᵀ * A * Q i = V i * Matrix.diagonal (θ i) * (V i)ᵀ)
    (hV : ∀ i, (V i)ᵀ * V i = 1) (hV' : ∀ i, V i * (V i)ᵀ = 1)
    (hT : ∀ i (a b : Fin (k + 1)), b.1 + 1 < a.1 → (V i * Matrix.diagonal (θ i) * (V i)ᵀ) a b = 0)
    (hres : ∀ i (a : Fin n) (b : Fin (k + 1)), b.1 < k →
      (A * Q i) a b = (Q i * (V i * Matrix.diagonal (θ i) * (V i)ᵀ)) a b)
    (d : Nat) (hd : d ≤ 2 * k + 1) :
    slqAssemble c (fun i j => V i 0 j) (fun i j => θ i j ^ d)
      = c * ∑ i, (Q i).mulVec (Pi.single 0 1) ⬝ᵥ (A ^ d).mulVec ((Q i).mulVec (Pi.single 0 1)) :=
  slq_gauss_aux c A Q V θ hA hQ hP hV hV' hT hres d hd

/-- its hypotheses are satisfiable below full dimension (`n = 2`, Krylov dimension 1; the Hessenberg and residual
conditions are vacuous for a 1×1 `T`). -/
example : ∃ (A : Matrix (Fin 2) (Fin 2) ℚ) (Q : Matrix (Fin 2) (Fin 1) ℚ) (V : Matrix (Fin 1) (Fin 1) ℚ) (θ : Fin 1 → ℚ),
    Aᵀ = A ∧ Qᵀ * Q = 1 ∧ Qᵀ * A * Q = V * Matrix.diagonal θ * Vᵀ ∧ Vᵀ * V = 1 ∧ V * Vᵀ = 1 := slq_gauss_hyp_example

/-! ### Inverse quadratic forms -/

/-- `InvQuad.forward` / `InvQuadLogdet.forward`: `(solves * rhs).sum(-2)` is, per column `j`,
`(Rᵀ B R)[j,j]` for `solves = B R` (any `B`; `B = A⁻¹` below). -/
theorem invQuadCols_eq {n m : Nat} (B : Matrix (Fin n) (Fin n) ℝ) (R : Matrix (Fin n) (Fin m) ℝ) (j : Fin m) :
    invQuadCols (B * R) R j = (Rᵀ * B * R) j j := by
  simp only [invQuadCols, sumFin_eq_sum, Matrix.mul_apply, Matrix.transpose_apply, Finset.sum_mul]
  rw [Finset.sum_comm]
  refine Finset.sum_congr rfl fun i _ => Finset.sum_congr rfl fun l _ => ?_
  ring

/-- **inv_quad refines the dense value**: if the solver returns `S` with `A S = R` (A invertible),
the per-column result (reduce_inv_quad=False) is `diag(Rᵀ A⁻¹ R)` and the reduced result
(`.sum(-1)`) is `tr(Rᵀ A⁻¹ R)`; any number of columns. -/
theorem invQuad_refines {n m : Nat} (A : Matrix (Fin n) (Fin n) ℝ) (S R : Matrix (Fin n) (Fin m) ℝ)
    (hA : IsUnit A.det) (hS : A * S = R) :
    (∀ j, invQuadCols S R j = (Rᵀ * A⁻¹ * R) j j) ∧
    invQuadReduce (invQuadCols S R) = Matrix.trace (Rᵀ * A⁻¹ * R) := by
  have hS' : S = A⁻¹ * R := by
    rw [← hS, ← Matrix.mul_assoc, Matrix.nonsing_inv_mul _ hA, Matrix.one_mul]
  have h1 : ∀ j, invQuadCols S R j = (Rᵀ * A⁻¹ * R) j j := fun j => by rw [hS']; exact invQuadCols_eq _ _ j
  refine ⟨h1, ?_⟩
  simp only [invQuadReduce, sumFin_eq_sum, Matrix.trace, Matrix.diag_apply]
  exact Finset.sum_congr rfl fun j _ => h1 j

/-- `CholLinearOperator.inv_quad`: with `R' = L⁻¹ R` (the triangular solve) the column sums of
squares are `diag(Rᵀ (L Lᵀ)⁻¹ R)`. -/
theorem cholInvQuad_refines {n m : Nat} (L : Matrix (Fin n) (Fin n) ℝ) (R' R : Matrix (Fin n) (Fin m) ℝ)
    (hL : IsUnit L.det) (hR : L * R' = R) (j : Fin m) :
    cholInvQuadCols R' j = (Rᵀ * (L * Lᵀ)⁻¹ * R) j j := by
  have hR' : R' = L⁻¹ * R := by rw [← hR, ← Matrix.mul_assoc, Matrix.nonsing_inv_mul _ hL, Matrix.one_mul]
  have hinv : (L * Lᵀ)⁻¹ = (L⁻¹)ᵀ * L⁻¹ := by
    rw [Matrix.mul_inv_rev, Matrix.transpose_nonsing_inv]
  have : (Rᵀ * (L * Lᵀ)⁻¹ * R) = R'ᵀ * R' := by
    rw [hinv, hR', Matrix.transpose_mul]; simp only [Matrix.mul_assoc]
  rw [this]
  simp [cholInvQuadCols, sumFin_eq_sum, Matrix.mul_apply, Matrix.transpose_apply]

/-! ### Closed-form log-determinants -/

/-- `det(L Lᵀ) = (Π Lᵢᵢ)²` for lower-triangular `L` of any size. -/
theorem chol_det {R : Type} [CommRing R] {n : Nat} (L : Matrix (Fin n) (Fin n) R) (hL : L.IsLowerTriangular) :
    (L * Lᵀ).det = (∏ i, L i i) ^ 2 := by
  rw [Matrix.det_mul, Matrix.det_transpose, Matrix.det_of_isLowerTriangular L hL, sq]

/-- **CholLinearOperator.inv_quad_logdet** (also the base class' Cholesky shortcut):
`chol_diag.pow(2).log().sum(-1) = log det(L Lᵀ)`. -/
theorem cholLogdet_eq {n : Nat} (L : Matrix (Fin n) (Fin n) ℝ) (hL : L.IsLowerTriangular) (hd : ∀ i, L i i ≠ 0) :
    cholLogdet Real.log (fun i => L i i) = Real.log (L * Lᵀ).det := by
  rw [chol_det L hL, cholLogdet, sumFin_eq_sum, Real.log_pow, Real.log_prod (fun i _ => hd i), Finset.mul_sum]
  refine Finset.sum_congr rfl fun i _ => ?_
  rw [Real.log_mul (hd i) (hd i)]; push_cast; ring

/-- `DiagLinearOperator.inv_quad_logdet`: `diag.log().sum(-1) = log det(diag d)`. -/
theorem diagLogdet_eq {n : Nat} (d : Fin n → ℝ) (hd : ∀ i, d i ≠ 0) :
    diagLogdet Real.log d = Real.log (Matrix.diagonal d).det := by
  rw [Matrix.det_diagonal, diagLogdet, sumFin_eq_sum, Real.log_prod (fun i _ => hd i)]

/-- **Matrix determinant lemma** used by `LowRankRootAddedDiagLinearOperator._logdet`:
`det(D + U Uᵀ) = det(D) · det(I + Uᵀ D⁻¹ U)`. -/
theorem detLemma {n k : Nat} (D : Matrix (Fin n) (Fin n) ℝ) (U : Matrix (Fin n) (Fin k) ℝ) (hD : IsUnit D.det) :
    (D + U * Uᵀ).det = D.det * (1 + Uᵀ * D⁻¹ * U).det := by
  have h : D + U * Uᵀ = D * (1 + (D⁻¹ * U) * Uᵀ) := by
    rw [Matrix.mul_add, Matrix.mul_one, ← Matrix.mul_assoc, ← Matrix.mul_assoc, Matrix.mul_nonsing_inv _ hD,
      Matrix.one_mul]
  rw [h, Matrix.det_mul, Matrix.det_one_add_mul_comm]
  simp only [Matrix.mul_assoc]

/-- Block-diagonal operators: `det = Π det(blocks)`, also after any simultaneous permutation of
rows and columns (BlockInterleaved is the block-diagonal matrix re-indexed). -/
theorem block_det {k n : Nat} {ι : Type} [Fintype ι] [DecidableEq ι] (M : Fin k → Matrix (Fin n) (Fin n) ℝ)
    (e : Fin n × Fin k ≃ ι) :
    (Matrix.reindex e e (Matrix.blockDiagonal M)).det = ∏ b, (M b).det := by
  rw [Matrix.det_reindex_self, Matrix.det_blockDiagonal]

/-- `Block*.inv_quad_logdet`: summing the per-block log-determinants over the block dimension
gives the log-determinant of the block-diagonal matrix. -/
theorem block_logdet {k n : Nat} (M : Fin k → Matrix (Fin n) (Fin n) ℝ) (h : ∀ b, (M b).det ≠ 0) :
    blockReduce (fun b => Real.log (M b).det) = Real.log (Matrix.blockDiagonal M).det := by
  rw [Matrix.det_blockDiagonal, blockReduce, sumFin_eq_sum, Real.log_prod (fun b _ => h b)]

/-- Eigenvalue form used by `KroneckerProductLinearOperator._logdet`: the sum of the logs of all
products `λᵢ μⱼ` is `m Σ log λᵢ + n Σ log μⱼ` (any number and size of eigenvalues, all positive). -/
theorem kronLogdet_sum {n m : Nat} (lam : Fin n → ℝ) (mu : Fin m → ℝ) (hl : ∀ i, 0 < lam i) (hm : ∀ j, 0 < mu j) :
    kronLogdet Real.log lam mu = m * ∑ i, Real.log (lam i) + n * ∑ j, Real.log (mu j) := by
  simp only [kronLogdet, sumFin_eq_sum]
  have : ∀ i j, Real.log (lam i * mu j) = Real.log (lam i) + Real.log (mu j) :=
    fun i j => Real.log_mul (ne_of_gt (hl i)) (ne_of_gt (hm j))
  simp only [this, Finset.sum_add_distrib, Finset.sum_const, Finset.card_univ, Fintype.card_fin, nsmul_eq_mul,
    Finset.mul_sum]

/-- **Kronecker `_logdet`**: with eigendecompositions `A = Qa diag(λ) Qaᵀ`, `B = Qb diag(μ) Qbᵀ`
(orthogonal `Q`s, positive eigenvalues) the value computed from the eigenvalues is
`log det(A ⊗ B)` (`det(A⊗B) = det(A)^m det(B)^n`, Mathlib `det_kronecker`). -/
theorem kronLogdet_eq {n m : Nat} (A Qa : Matrix (Fin n) (Fin n) ℝ) (B Qb : Matrix (Fin m) (Fin m) ℝ)
    (lam : Fin n → ℝ) (mu : Fin m → ℝ) (hl : ∀ i, 0 < lam i) (hm : ∀ j, 0 < mu j)
    (hA : A = Qa * diagonal lam * Qaᵀ) (hQa : Qa * Qaᵀ = 1) (hB : B = Qb * diagonal mu * Qbᵀ) (hQb : Qb * Qbᵀ = 1) :
    kronLogdet Real.log lam mu = Real.log (A ⊗ₖ B).det := by
  have hdA : A.det = ∏ i, lam i := det_of_eigendecomp A Qa lam hA hQa
  have hdB : B.det = ∏ j, mu j := det_of_eigendecomp B Qb mu hB hQb
  have hpA : A.det ≠ 0 := by rw [hdA]; exact ne_of_gt (Finset.prod_pos fun i _ => hl i)
  have hpB : B.det ≠ 0 := by rw [hdB]; exact ne_of_gt (Finset.prod_pos fun i _ => hm i)
  rw [kronLogdet_sum lam mu hl hm, Matrix.det_kronecker, Real.log_mul (pow_ne_zero _ hpA) (pow_ne_zero _ hpB),
    Real.log_pow, Real.log_pow, hdA, hdB, Real.log_prod (fun i _ => ne_of_gt (hl i)),
    Real.log_prod (fun j _ => ne_of_gt (hm j))]
  simp [Fintype.card_fin]

/-! ### Kronecker products with ANY number of factors (induction over the factor list)

`l = [n₁,…,n_k]` are the factor sizes, `KMatsM ℝ l` one matrix per factor, `KVecs ℝ l` one vector per factor,
`kronAll l As = A₁ ⊗ … ⊗ A_k` on the multi-index type `KIdx l` (row-major flattening = `torch.kron` layout),
`EigOK l As Qs lams` the per-factor `eigh` contract `Aᵢ = Qᵢ diag(λᵢ) Qᵢᵀ`, `Qᵢ Qᵢᵀ = 1`. -/

/-- **`KroneckerProductLinearOperator._logdet`, any number of factors of any sizes**:
`_kron_diag(factor eigenvalues).clamp(min=eps).log().sum(-1) = log det(A₁ ⊗ … ⊗ A_k)` whenever the factor
eigenvalues are positive and no product of them is below the clamp. -/
theorem kronLogdetN_eq (l : List Nat) (As Qs : KMatsM ℝ l) (lams : KVecs ℝ l) (eps : ℝ)
    (h : EigOK l As Qs lams) (hpos : KVecs.Pos l lams) (hcl : ∀ x ∈ kronDiag (KVecs.toLists l lams), eps ≤ x) :
    kronLogdetN Real.log (fun x => max x eps) (KVecs.toLists l lams) = Real.log (kronAll l As).det :=
  kronLogdetN_eq_aux l As Qs lams eps h hpos hcl

/-- **`log det(⊗ᵢ Aᵢ) = Σᵢ (N/nᵢ) log det Aᵢ`** for any factor list with positive determinants
(`kronLogdetFormula`: the head contributes `(Π of the other sizes) · log det A`, every later term is multiplied by
the head's size — i.e. term `i` carries the weight `N/nᵢ`). -/
theorem kronLogdet_formula (l : List Nat) (As : KMatsM ℝ l) (h : KMatsM.DetPos l As) :
    Real.log (kronAll l As).det = kronLogdetFormula l As ∧
    (∀ (n : Nat) (A : Matrix (Fin n) (Fin n) ℝ), kronLogdetFormula (n :: l) (A, As)
        = (l.prod : ℝ) * Real.log A.det + (n : ℝ) * kronLogdetFormula l As) :=
  ⟨log_det_kronAll l As h, fun _ _ => rfl⟩

/-- **`KroneckerProductLinearOperator._solve` (sequential mode-rotation loop) and the inverse quadratic form**:
if `Bᵢ` is what `qᵢ.solve` applies (`Aᵢ Bᵢ = 1` for every factor), the loop returns `S` with `(⊗ᵢ Aᵢ) S = R`, the
Kronecker product is invertible, and `(S * R).sum(-2)` is `diag(Rᵀ (⊗ᵢ Aᵢ)⁻¹ R)`; any number of factors, sizes, columns. -/
theorem kronInvQuad_refines {m : Nat} (l : List Nat) (As Bs : KMatsM ℝ l) (R : Matrix (KIdx l) (Fin m) ℝ)
    (h : KMatsM.mul l As Bs = KMatsM.one l) (j : Fin m) :
    IsUnit (kronAll l As).det ∧
    kronAll l As * (Matrix.of (kronSolve l (KMatsM.toMats l Bs) R) : Matrix (KIdx l) (Fin m) ℝ) = R ∧
    kronInvQuadCols l (KMatsM.toMats l Bs) R j = (Rᵀ * (kronAll l As)⁻¹ * R) j j :=
  kronInvQuad_aux l As Bs R h j

/-- The loop of `_solve` itself, for ANY semiring and any already-rotated modes `D`: after processing all factors the
entry at the row-major position of `(d, idx)` is `Σ_{idx'} (⊗ᵢ Bᵢ)[idx, idx'] · y[idx', d, c]`; and every position
of the final tensor is of that form. -/
theorem kronSolve_loop {K : Type} [CommSemiring K] {C D : Type} (l : List Nat) (Bs : KMatsM K l)
    (y : KIdx l → D → C → K) :
    (∀ d idx c, kronSolveRot l (KMatsM.toMats l Bs) y (snocOf l d idx) c
        = ∑ idx' : KIdx l, kronAll l Bs idx idx' * y idx' d c) ∧
    (∀ s : SnocIdx D l, ∃ d idx, snocOf l d idx = s) :=
  ⟨fun d idx c => kronSolveRot_eq l Bs y d idx c, snocOf_surjective l⟩

/-- **KPADLO `_logdet`, Kronecker-structured diagonal with constant factors** (`D = ⊗ᵢ cᵢ I`, taken when
`n ≥ max_cholesky_size`): `diag_term + first_term = log det(⊗ᵢ Kᵢ + ⊗ᵢ cᵢ I)`, any number of factors. -/
theorem kpadloLogdet_kronConst (l : List Nat) (Ks Qs : KMatsM ℝ l) (lams : KVecs ℝ l) (cs : KScal l) (eps : ℝ)
    (h : EigOK l Ks Qs lams) (hc : KScal.Pos l cs) (heps : eps ≤ KScal.prod l cs)
    (hpos : ∀ idx, 0 < kronEig l lams idx + KScal.prod l cs) :
    kpadloKronConstLogdet Real.log (fun x => max x eps) (KVecs.toLists l lams) (KVecs.toLists l (KScal.vecs l cs))
        (KScal.toList l cs)
      = Real.log (kronAll l Ks + kronAll l (KMatsM.diagonal l (KScal.vecs l cs))).det :=
  kpadloKronConst_aux l Ks Qs lams cs eps h hc heps hpos

/-- **KPADLO `_logdet`, symmetrised branch** (Kronecker-structured, non-constant diagonal `D = ⊗ᵢ Dᵢ`): with
`rᵢ = dᵢ^-½` and the `eigh` contract for the symmetrised factors `diag(rᵢ) Kᵢ diag(rᵢ) = Qᵢ diag(σᵢ) Qᵢᵀ`,
`D.logdet() + DiagLinearOperator(evals + 1).logdet() = log det(⊗ᵢ Kᵢ + ⊗ᵢ Dᵢ)`, any number of factors. -/
theorem kpadloLogdet_symm (l : List Nat) (Ks Qs : KMatsM ℝ l) (sigs ds rs : KVecs ℝ l)
    (hr : RootInv l rs ds)
    (h : EigOK l (KMatsM.mul l (KMatsM.diagonal l rs) (KMatsM.mul l Ks (KMatsM.diagonal l rs))) Qs sigs)
    (hpos : ∀ idx, 0 < kronEig l sigs idx + 1) :
    kpadloSymmLogdet Real.log (KVecs.toLists l sigs) (KVecs.toLists l ds)
      = Real.log (kronAll l Ks + kronAll l (KMatsM.diagonal l ds)).det :=
  kpadloSymm_aux l Ks Qs sigs ds rs hr h hpos

/-- the hypotheses above are satisfiable with three factors: `[2] ⊗ [3] ⊗ [5]`, constants / diagonals `4, 1, 1`
(`rᵢ = ½, 1, 1`). -/
example : ∃ (As Qs : KMatsM ℝ [1, 1, 1]) (lams : KVecs ℝ [1, 1, 1]),
    EigOK [1, 1, 1] As Qs lams ∧ KVecs.Pos [1, 1, 1] lams ∧ KMatsM.DetPos [1, 1, 1] As ∧
    (∀ x ∈ kronDiag (KVecs.toLists [1, 1, 1] lams), (1e-7 : ℝ) ≤ x) := by
  refine ⟨(Matrix.diagonal fun _ => 2, Matrix.diagonal fun _ => 3, Matrix.diagonal fun _ => 5, ()),
    (1, 1, 1, ()), ((fun _ => 2), (fun _ => 3), (fun _ => 5), ()), ?_, ?_, ?_, ?_⟩
  · simp [EigOK]
  · simp [KVecs.Pos]
  · simp [KMatsM.DetPos]
  · intro x hx
    simp [KVecs.toLists, kronDiag] at hx
    subst hx; norm_num

example : ∃ (ds rs : KVecs ℝ [1, 1]), RootInv [1, 1] rs ds :=
  ⟨((fun _ => 4), (fun _ => 1), ()), ((fun _ => 1 / 2), (fun _ => 1), ()), by simp [RootInv]; norm_num⟩

/-- **KroneckerProductAddedDiag `_logdet`, constant diagonal**: `det(Q Λ Qᵀ + cI) = Π (λᵢ + c)`. -/
theorem kpadlo_const_det {R : Type} [CommRing R] {n : Nat} (A Q : Matrix (Fin n) (Fin n) R) (lam : Fin n → R) (c : R)
    (hA : A = Q * diagonal lam * Qᵀ) (hQ : Q * Qᵀ = 1) :
    (A + c • (1 : Matrix (Fin n) (Fin n) R)).det = ∏ i, (lam i + c) := by
  apply det_of_eigendecomp (A + c • (1 : Matrix (Fin n) (Fin n) R)) Q (fun i => lam i + c) _ hQ
  have hd : diagonal (fun i => lam i + c) = diagonal lam + c • (1 : Matrix (Fin n) (Fin n) R) := by
    ext i j
    by_cases h : i = j
    · subst h; simp
    · simp [h]
  rw [hd, Matrix.mul_add, Matrix.add_mul, ← hA, Matrix.mul_smul, Matrix.smul_mul, Matrix.mul_one, hQ]

/-- … hence `log(evals + c).sum(-1) = log det(A + cI)` whenever all shifted eigenvalues are positive. -/
theorem kpadloLogdet_const {n : Nat} (A Q : Matrix (Fin n) (Fin n) ℝ) (lam : Fin n → ℝ) (c : ℝ)
    (hA : A = Q * diagonal lam * Qᵀ) (hQ : Q * Qᵀ = 1) (hpos : ∀ i, 0 < lam i + c) :
    shiftLogdet Real.log lam c = Real.log (A + c • (1 : Matrix (Fin n) (Fin n) ℝ)).det := by
  rw [kpadlo_const_det A Q lam c hA hQ, shiftLogdet, sumFin_eq_sum, Real.log_prod (fun i _ => ne_of_gt (hpos i))]

/-- **LowRankRootAddedDiag `_logdet`**: with `C` the (lower) Cholesky factor of the capacitance matrix
`I + Uᵀ D⁻¹ U`, `2 Σ log Cᵢᵢ + logdet(D) = log det(D + U Uᵀ)`. -/
theorem lrradLogdet_eq {n k : Nat} (d : Fin n → ℝ) (U : Matrix (Fin n) (Fin k) ℝ) (C : Matrix (Fin k) (Fin k) ℝ)
    (hd : ∀ i, d i ≠ 0) (hC : C.IsLowerTriangular) (hCd : ∀ i, C i i ≠ 0)
    (hcap : C * Cᵀ = 1 + Uᵀ * (diagonal d)⁻¹ * U) :
    lrradLogdet Real.log 2 (fun i => C i i) d = Real.log (diagonal d + U * Uᵀ).det := by
  have hD : IsUnit (diagonal d).det := by
    rw [Matrix.det_diagonal]; exact isUnit_iff_ne_zero.mpr (Finset.prod_ne_zero_iff.mpr fun i _ => hd i)
  have hcapdet : (C * Cᵀ).det ≠ 0 := by
    rw [chol_det C hC]; exact pow_ne_zero _ (Finset.prod_ne_zero_iff.mpr fun i _ => hCd i)
  rw [detLemma _ U hD, ← hcap, Real.log_mul (isUnit_iff_ne_zero.mp hD) hcapdet, ← cholLogdet_eq C hC hCd,
    ← diagLogdet_eq d hd, lrradLogdet]
  have h2 : cholLogdet Real.log (fun i => C i i) = 2 * sumFin k (fun i => Real.log (C i i)) := by
    simp only [cholLogdet, sumFin_eq_sum, Finset.mul_sum]
    exact Finset.sum_congr rfl fun i _ => by rw [Real.log_mul (hCd i) (hCd i)]; ring
  rw [h2]; ring

/-- **Preconditioner correction** in `inv_quad_logdet`: for `P = W Wᵀ`,
`det A = det P · det(W⁻¹ A W⁻ᵀ)`, so `logdet_term + logdet_p` is `log|A|` when `logdet_term` is the
log-determinant of the preconditioned matrix and `logdet_p = log|P|`. -/
theorem logdet_precond_correction {n : Nat} (A W : Matrix (Fin n) (Fin n) ℝ) (hW : IsUnit W.det) (hA : 0 < A.det) :
    Real.log A.det = precondCorrect (Real.log (W⁻¹ * A * (W⁻¹)ᵀ).det) (Real.log (W * Wᵀ).det) := by
  have hw : W.det ≠ 0 := isUnit_iff_ne_zero.mp hW
  have hinv : W⁻¹.det * W.det = 1 := by rw [← Matrix.det_mul, Matrix.nonsing_inv_mul _ hW, Matrix.det_one]
  have hwi : W⁻¹.det ≠ 0 := fun h => by rw [h, zero_mul] at hinv; exact zero_ne_one hinv
  have h1 : (W⁻¹ * A * (W⁻¹)ᵀ).det = W⁻¹.det * A.det * W⁻¹.det := by
    rw [Matrix.det_mul, Matrix.det_mul, Matrix.det_transpose]
  have h2 : (W * Wᵀ).det = W.det * W.det := by rw [Matrix.det_mul, Matrix.det_transpose]
  rw [precondCorrect, h1, h2, ← Real.log_mul (mul_ne_zero (mul_ne_zero hwi (ne_of_gt hA)) hwi) (mul_ne_zero hw hw)]
  congr 1
  calc A.det = (W⁻¹.det * W.det) * A.det * (W⁻¹.det * W.det) := by rw [hinv]; ring
    _ = _ := by ring

/-- **TriangularLinearOperator sign rule**: the code returns NaN exactly when the product of the signs
of the diagonal is negative, i.e. exactly when the determinant is negative; otherwise, for a positive
determinant, `Σ log|Tᵢᵢ| = log det T`.  (`hdet` holds for lower and upper triangular matrices:
`Matrix.det_of_isLowerTriangular` / `det_of_isUpperTriangular`.) -/
theorem triLogdet_sign {n : Nat} (T : Matrix (Fin n) (Fin n) ℝ) (hdet : T.det = ∏ i, T i i) :
    (triLogdet Real.log (fun x => |x|) (fun x => decide (x < 0)) (fun x => decide (x = 0)) (fun i => T i i) = none
        ↔ T.det < 0) ∧
    (∀ v, triLogdet Real.log (fun x => |x|) (fun x => decide (x < 0)) (fun x => decide (x = 0)) (fun i => T i i) = some v
        → 0 < T.det → v = Real.log T.det) := by
  have hs : ∀ x : ℝ, sgn (fun x => decide (x < 0)) (fun x => decide (x = 0)) x = SignType.sign x := by
    intro x
    unfold sgn
    rcases lt_trichotomy x 0 with h | h | h
    · simp [h, sign_neg h]
    · subst h; simp
    · have h1 : ¬ x < 0 := not_lt.mpr (le_of_lt h)
      have h2 : x ≠ 0 := ne_of_gt h
      simp [h1, h2, sign_pos h]
  have hprod : Fin.foldl n (fun acc i => acc * sgn (fun x => decide (x < 0)) (fun x => decide (x = 0)) (T i i)) 1
      = ((SignType.sign T.det : SignType) : ℝ) := by
    rw [foldl_mul_eq_prod, hdet]
    simp only [hs]
    rw [show SignType.sign (∏ i, T i i) = ∏ i, SignType.sign (T i i) from map_prod (signHom : ℝ →*₀ SignType) _ _]
    exact (map_prod (SignType.castHom : SignType →*₀ ℝ) _ _).symm
  have hneg : (((SignType.sign T.det : SignType) : ℝ) < 0) ↔ T.det < 0 := by
    rcases lt_trichotomy T.det 0 with h | h | h
    · simp [sign_neg h, h]
    · simp [h]
    · simp [sign_pos h, not_lt.mpr (le_of_lt h)]
  unfold triLogdet
  rw [hprod]
  constructor
  · by_cases h : T.det < 0
    · simp [h]
    · simp [mt hneg.mp h, h]
  · intro v hv hpos
    have h : ¬ T.det < 0 := not_lt.mpr (le_of_lt hpos)
    simp only [decide_eq_true_eq, mt hneg.mp h, if_false, Option.some.injEq] at hv
    rw [← hv, sumFin_eq_sum, hdet]
    have hne : ∀ i, T i i ≠ 0 := by
      intro i hi
      rw [hdet] at hpos
      have : ∏ j, T j j = 0 := Finset.prod_eq_zero (Finset.mem_univ i) hi
      rw [this] at hpos; exact lt_irrefl _ hpos
    rw [Real.log_prod (fun i _ => hne i)]
    exact Finset.sum_congr rfl fun i _ => Real.log_abs _

/-! ### Output shapes

The shape model describes the code WITH the proposed patches notes/C05_fix_2…6.diff applied (1-D rhs treated as a
one-column matrix; batched triangular sign rule; Block / BatchRepeat overrides post-process only the terms that
were requested).  Until they land, the cells where the unpatched code raises are `open:` findings. -/

/-- **Documented output shapes of `inv_quad_logdet`** for every flag combination, on every code path
of the `Good` family (Chol / base-class Cholesky shortcut, Triangular, Diag, Identity, SumKronecker /
LowRankRootAddedDiag closed forms, the stochastic base path, Kronecker and KroneckerAddedDiag over either
base path, and Block operators nested to any depth over all of those): with a matrix rhs of `m` columns the
inverse quadratic term has shape `batch` (reduce_inv_quad=True) or `batch ++ [m]` (False); the
log-determinant, when requested, has shape `batch`; terms that were not requested never make the call
raise.  Any batch shape with positive dimensions, any `m > 0`, any nesting depth. -/
theorem invQuadLogdet_shape (p : Path) (hg : Good p) (batch : List Nat) (m : Nat) (lg red : Bool)
    (hb : ∀ d ∈ batch, 0 < d) (hm : 0 < m) :
    (shapes p batch (.mat m) lg red).1 = .shape (if red then batch else batch ++ [m]) ∧
    (lg = true → (shapes p batch (.mat m) lg red).2 = .shape batch) ∧
    (shapes p batch (.mat m) lg red).2 ≠ .err ∧
    (shapes p batch .absent true red).1 ≠ .err ∧
    (shapes p batch .absent true red).2 = .shape batch :=
  good_shapes p hg batch m lg red hb hm

/-- A 1-D right-hand side on an unbatched operator of the closed-form classes behaves as a one-column
matrix: reduced shape `[]`, unreduced `[1]`; the log-determinant is unaffected. -/
theorem vector_rhs_shape (lg red : Bool) :
    (shapes .chol [] .vec lg red).1 = .shape (if red then [] else [1]) ∧
    (shapes .tri [] .vec lg red).1 = .shape (if red then [] else [1]) ∧
    (shapes .closed [] .vec lg red).1 = .shape (if red then [] else [1]) ∧
    (shapes .slq [] .vec lg red).1 = .shape (if red then [] else [1]) ∧
    (shapes .chol [] .vec lg red).2 = (shapes .chol [] (.mat 1) lg red).2 := by
  cases lg <;> cases red <;> decide

/-- Block over the stochastic path: the numel-1 placeholders the base returns for terms that were not
requested are passed through untouched, for every block count and batch shape (this is the case that raises
in the unpatched code — finding). -/
theorem block_slq_placeholders (batch : List Nat) (k : Nat) (red : Bool) (hb : ∀ d ∈ batch, 0 < d) (hk : 0 < k) :
    (shapes (.block .slq k) batch .absent true red).2 = .shape batch ∧
    (shapes (.block .slq k) batch .absent true red).1 ≠ .err :=
  let h := good_shapes (.block .slq k) (.block _ _ .slq hk) batch 1 true red hb (by decide)
  ⟨h.2.2.2.2, h.2.2.2.1⟩

/-- **BatchRepeat output shapes, general**: `BatchRepeatLinearOperator.inv_quad_logdet` over any `Good` base path
(Chol / shortcut, Triangular, Diag, Identity, closed forms, the stochastic path, Kronecker, Block nests of any depth; the
base-class path is also what `CatLinearOperator` and `SumBatchLinearOperator` take — Cat only adds `.to(device)` on
the non-`None` terms), for EVERY base batch shape `bb` and repeat vector `rp` with positive entries (operator batch
shape `repeatShape rp bb`), every `m > 0` and flag combination: inverse quadratic term `batch` / `batch ++ [m]`,
log-determinant `batch`, nothing raises; without a rhs the log-determinant has shape `batch`. -/
theorem batchRepeat_shape (p : Path) (hg : Good p) (bb rp : List Nat) (m : Nat) (lg red : Bool)
    (hbb : ∀ d ∈ bb, 0 < d) (hrp : ∀ d ∈ rp, 0 < d) (hm : 0 < m) (batch : List Nat) (hbatch : batch = repeatShape rp bb) :
    (shapes (.rep p bb rp) batch (.mat m) lg red).1 = .shape (if red then batch else batch ++ [m]) ∧
    (lg = true → (shapes (.rep p bb rp) batch (.mat m) lg red).2 = .shape batch) ∧
    (shapes (.rep p bb rp) batch (.mat m) lg red).2 ≠ .err ∧
    (shapes (.rep p bb rp) batch .absent true red).1 ≠ .err ∧
    (shapes (.rep p bb rp) batch .absent true red).2 = .shape batch :=
  rep_shapes p hg bb rp m lg red hbb hrp hm batch hbatch

/-- `repeatShape` is the batch shape `torch.Size` arithmetic of `BatchRepeatLinearOperator._size`: instances. -/
example : repeatShape [2, 1] [3] = [2, 3] ∧ repeatShape [3] [] = [3] ∧ repeatShape [2, 2] [1, 4] = [2, 8] := by decide

/-- BatchRepeat over the stochastic path without a rhs (raises in the unpatched code — finding): instances of
the patched behaviour (the general statement is `batchRepeat_shape`; Block OVER BatchRepeat is not covered by a theorem). -/
theorem rep_slq_partial :
    shapes (.rep .slq [] [2]) [2] .absent true true = (.shape [], .shape [2]) ∧
    shapes (.rep .slq [3] [2, 1]) [2, 3] (.mat 2) true false = (.shape [2, 3, 2], .shape [2, 3]) := by decide

/-! ### Extension session 5: wrappers interleaved in any order, Cat, batch-broadcast right-hand sides, `inv_quad` -/

/-- **Block, BatchRepeat and Cat wrappers interleaved in ANY order and to ANY depth** (`GoodAt`: leaves are the `Good`
paths at any positive batch shape; `Block` over a path that is good at `batch ++ [k]`; `BatchRepeat` over a path good
at its base batch shape `bb`, giving batch shape `repeatShape rp bb`; `Cat` over anything good).  In particular Block
OVER BatchRepeat (over Block …), which `invQuadLogdet_shape` / `batchRepeat_shape` do not reach: for every number of
columns `m > 0` and every flag combination the inverse quadratic term has shape `batch` / `batch ++ [m]`, the
log-determinant `batch`, no unrequested term makes the call raise, and without a rhs the log-determinant is `batch`. -/
theorem nested_wrappers_shape (p : Path) (batch : List Nat) (h : GoodAt p batch) (m : Nat) (lg red : Bool) (hm : 0 < m) :
    (shapes p batch (.mat m) lg red).1 = .shape (if red then batch else batch ++ [m]) ∧
    (lg = true → (shapes p batch (.mat m) lg red).2 = .shape batch) ∧
    (shapes p batch (.mat m) lg red).2 ≠ .err ∧
    (shapes p batch .absent true red).1 ≠ .err ∧
    (shapes p batch .absent true red).2 = .shape batch :=
  goodAt_shapes p batch h m lg red hm

/-- satisfiable, non-trivially: BlockDiag over BatchRepeat over BlockInterleaved over the stochastic path
(blocks 3, base batch `[2, 3]`·… repeated by `[2, 1, 1]`), and Cat over the Cholesky path. -/
example : GoodAt (.block (.rep (.block .slq 4) [1, 3] [2, 1]) 3) [2] ∧ GoodAt (.cat .chol) [2, 5] := by
  refine ⟨?_, .cat _ _ (.leaf _ _ .chol (by decide))⟩
  have h : GoodAt (.rep (.block .slq 4) [1, 3] [2, 1]) (repeatShape [2, 1] [1, 3]) :=
    .rep _ _ _ (.block _ _ _ (.leaf _ _ .slq (by decide)) (by decide) (by decide)) (by decide) (by decide)
  exact .block _ _ _ h (by decide) (by decide)

/-- `CatLinearOperator.inv_quad_logdet` returns exactly what the base-class call on the same operator returns
(`.to(device)` keeps kind and shape of every term; `None` stays `None`), on every `Good` base path, every batch shape,
rhs kind and flag combination that does not raise. -/
theorem cat_is_base (p : Path) (batch : List Nat) (rhs : Rhs) (lg red : Bool)
    (h1 : (shapes p batch rhs lg red).1 ≠ .err) (h2 : (shapes p batch rhs lg red).2 ≠ .err) :
    shapes (.cat p) batch rhs lg red = shapes p batch rhs lg red :=
  catPost_eq _ h1 h2

/-- **Translator fact** (regenerated from /repo's source on every run, `decide +kernel`): the classes that define
`inv_quad_logdet` are exactly the ones the shape model has a `Path` constructor for — so every other class
(SumBatchLinearOperator, …) takes the base-class path — `inv_quad` is defined by the base class and CholLinearOperator only,
and `CatLinearOperator.inv_quad_logdet` is `super().inv_quad_logdet(...)` followed by `.to(...)` on the non-`None` terms. -/
theorem override_table_as_modelled :
    LinOp.Generated.C05.definers "inv_quad_logdet" =
      ["BatchRepeatLinearOperator", "BlockDiagLinearOperator", "BlockInterleavedLinearOperator", "CatLinearOperator",
       "CholLinearOperator", "DiagLinearOperator", "IdentityLinearOperator", "KroneckerProductAddedDiagLinearOperator",
       "KroneckerProductLinearOperator", "LinearOperator", "LowRankRootAddedDiagLinearOperator", "SumKroneckerLinearOperator",
       "TriangularLinearOperator", "ZeroLinearOperator"] ∧
    LinOp.Generated.C05.definers "inv_quad" = ["CholLinearOperator", "LinearOperator", "ZeroLinearOperator"] ∧
    LinOp.Generated.C05.catSkeleton =
      ["assign-super.inv_quad_logdet/3", "return-tuple-genexp/to=1/else-none=1/test-is-not-none=1"] :=
  ⟨LinOp.Generated.C05.inv_quad_logdet_overrides_as_modelled, LinOp.Generated.C05.inv_quad_overrides_as_modelled,
   LinOp.Generated.C05.cat_override_skeleton⟩

/-- torch broadcasting of batch shapes as modelled: a shape broadcasts with itself to itself, with all-ones of the
same length to itself, the operation is symmetric, and the result has the longer length — any shapes. -/
theorem bcast_laws (a b : List Nat) :
    bcast a a = some a ∧ bcast a b = bcast b a ∧ bcast a (List.replicate a.length 1) = some a ∧
    (∀ r, bcast a b = some r → r.length = max a.length b.length) := by
  refine ⟨bcast_self a, bcast_comm a b, ?_, ?_⟩
  · have := bcastRev_ones a.reverse
    simp only [List.length_reverse] at this
    simp [bcast, this]
  · intro r hr
    simp only [bcast, Option.map_eq_some_iff] at hr
    obtain ⟨r', hr', rfl⟩ := hr
    simpa using bcastRev_length _ _ _ hr'

/-- **Batch-broadcast right-hand side, consistency**: when the rhs has the operator's own batch shape the broadcast
model `shapesB` IS the shape model `shapes` on that leaf path — every leaf, batch shape, `m`, flag combination. -/
theorem broadcast_rhs_consistent (p : BLeaf) (batch : List Nat) (m : Nat) (lg red : Bool) :
    shapesB p batch batch m lg red = shapes p.path batch (.mat m) lg red := by
  cases p <;> cases lg <;> cases red <;> simp [shapesB, invQuadEntry, bcast_self, shapes, BLeaf.path]

/-- **Batch-broadcast right-hand side, shapes**: (1) on the Cholesky-shortcut, Diag and Identity paths a rhs with the same
number of batch dimensions whose batch shape `rb` broadcasts with the operator's to `bb` gives an inverse quadratic
term of shape `bb` / `bb ++ [m]` and a log-determinant of the OPERATOR's batch shape; a different number of dimensions
raises; (2) the stochastic branch (`logdet=True`) raises unless `rb = batch`; (3) with `logdet=False` the base class
delegates to `inv_quad`, which broadcasts for any numbers of batch dimensions. -/
theorem broadcast_rhs_shape (batch rb bb : List Nat) (m : Nat) (lg red : Bool)
    (hbb : bcast batch rb = some bb) (hpos : ∀ d ∈ bb, 0 < d) (hm : 0 < m) :
    (∀ p : BLeaf, p ≠ .slq → rb.length = batch.length →
      (shapesB p batch rb m lg red).1 = .shape (if red then bb else bb ++ [m]) ∧
      (lg = true → (shapesB p batch rb m lg red).2 = .shape batch)) ∧
    (∀ p : BLeaf, p ≠ .slq → rb.length ≠ batch.length → shapesB p batch rb m lg red = bothErr) ∧
    (rb ≠ batch → shapesB .slq batch rb m true red = bothErr) ∧
    shapesB .slq batch rb m false red = (.shape (if red then bb else bb ++ [m]), .shape []) ∧
    invQuadEntry batch rb m red = .shape (if red then bb else bb ++ [m]) := by
  refine ⟨?_, ?_, ?_, ?_, ?_⟩
  · intro p hp hl
    cases p
    · simp only [shapesB, hl, hbb, redIf_mat bb m red hpos hm]
      cases lg <;> simp
    · simp only [shapesB, hl, hbb]; cases lg <;> simp
    · simp only [shapesB, hl, hbb]; cases lg <;> simp
    · exact absurd rfl hp
  · intro p hp hl
    cases p <;> first | exact absurd rfl hp | simp [shapesB, hl]
  · intro h; simp [shapesB, h]
  · cases red <;> simp [shapesB, invQuadEntry, hbb]
  · simp [invQuadEntry, hbb]

/-- satisfiable with a genuinely broadcasting pair: operator batch `[2, 1]`, rhs batch `[1, 3]` → `[2, 3]`. -/
example : bcast [2, 1] [1, 3] = some [2, 3] ∧ bcast [2, 3] [3] = some [2, 3] ∧ bcast [2] [3] = none := by decide

/-- **`inv_quad` entry point**: `LinearOperator.inv_quad(rhs, reduce_inv_quad)` with a rhs of the operator's batch shape
returns shape `batch` (reduced) or `batch ++ [m]`; it is the inverse quadratic term of `inv_quad_logdet(logdet=False)` on
the base-class path (which delegates to it) for every rhs batch shape. -/
theorem invQuad_entry_shape (batch rb : List Nat) (m : Nat) (red : Bool) :
    invQuadEntry batch batch m red = .shape (if red then batch else batch ++ [m]) ∧
    (shapesB .slq batch rb m false red).1 = invQuadEntry batch rb m red := by
  refine ⟨by simp [invQuadEntry, bcast_self], ?_⟩
  simp only [shapesB]
  cases h : invQuadEntry batch rb m red <;> simp [bothErr]


/-! ### Extension session 5 (continued): Lanczos relations by import, active clamp, row-major flattening -/

/-- **SLQ is the Gauss rule of the probes, with the Lanczos relations PROVED (C09 by import)**: for every symmetric `A`
over an ordered field, every size, budget `≥ 1` and non-zero start vector, the verified model of `lanczos_tridiag`
(`LinOp.C09.lanczosTridiag`, tied to the source by C09's translator and correspondence) returns `Q`, `T` with
`1 ≤ count ≤ min max_iter n`, and — unless a returned off-diagonal entry is zero (`BetaOK`, breakdown) — for ANY orthogonal
eigendecomposition `T = V diag θ Vᵀ` (the `eigh` primitive of `lanczos_tridiag_to_diag`) the weights and nodes that
`StochasticLQ.to_dense` uses satisfy `Σⱼ V[0,j]² θⱼ^d = uᵀ A^d u`, `u = Q e₁`, for EVERY degree `d ≤ 2·count − 1`.
`slq_gauss_quadrature_exact` takes `QᵀQ = 1`, `QᵀAQ = T`, tridiagonality and the residual structure as hypotheses; here they
come from `LinOp.C09.lanczos_ok` and `LinOp.C09.Props.matrix_identities_of_done`.  (The tridiagonal matrix of the SLQ path is
produced by CG — C08's `cg_tridiag_eq_lanczos` identifies it with the Lanczos matrix; that step is still checked numerically here.) -/
theorem slq_gauss_of_lanczos_tridiag {K : Type} [Field K] [LinearOrder K] [IsStrictOrderedRing K] {n : Nat}
    {ops : LinOp.C09.NumOps K} {p : LinOp.C09.Params K} (hs : LinOp.C09.SqrtLaw ops)
    {A : Matrix (Fin n) (Fin n) K} (hA : Aᵀ = A) (maxIter : Nat) (v : LinOp.C09.Vec K n)
    (hv : LinOp.C09.fn v ⬝ᵥ LinOp.C09.fn v ≠ 0) (hg : p.guardsSingle = true) (h1 : 1 ≤ min maxIter n) :
    ∃ o, LinOp.C09.lanczosTridiag ops p (LinOp.C09.amulOf A) maxIter v = .ok o ∧ o.count ≤ min maxIter n ∧
      ∃ hc : 0 < o.count,
      (LinOp.C09.BetaOK (o.count - 1) o.st →
        ∀ (V : Matrix (Fin o.count) (Fin o.count) K) (θ : Fin o.count → K), Vᵀ * V = 1 → V * Vᵀ = 1 →
          Matrix.of o.T = V * Matrix.diagonal θ * Vᵀ → ∀ d, d + 1 ≤ 2 * o.count →
          ∑ j, V ⟨0, hc⟩ j * V ⟨0, hc⟩ j * θ j ^ d
            = (Matrix.of o.Q).mulVec (Pi.single ⟨0, hc⟩ 1) ⬝ᵥ
                (A ^ d).mulVec ((Matrix.of o.Q).mulVec (Pi.single ⟨0, hc⟩ 1))) :=
  slq_gauss_of_lanczosTridiag hs hA maxIter v hv hg h1

/-- its hypotheses hold together on a concrete real instance with two Lanczos steps and no breakdown (C09's `real_instance`). -/
example : LinOp.C09.SqrtLaw LinOp.C09.realOps ∧ LinOp.C09.exAᵀ = LinOp.C09.exA ∧
    LinOp.C09.fn LinOp.C09.exV ⬝ᵥ LinOp.C09.fn LinOp.C09.exV ≠ 0 ∧ LinOp.C09.exP.guardsSingle = true ∧
    ∃ o, LinOp.C09.lanczosTridiag LinOp.C09.realOps LinOp.C09.exP (LinOp.C09.amulOf LinOp.C09.exA) 2 LinOp.C09.exV = .ok o ∧
      o.count = 2 ∧ LinOp.C09.BetaOK (o.count - 1) o.st :=
  ⟨LinOp.C09.real_instance.1, LinOp.C09.exA_symm, LinOp.C09.real_instance.2.2.1, LinOp.C09.real_instance.2.2.2.1,
   LinOp.C09.real_instance.2.2.2.2.2⟩

/-- **`clamp(min=1e-7)` ACTIVE in `KroneckerProductLinearOperator._logdet`** (any number of factors, positive factor
eigenvalues): the value is `Σ_idx log(max(λ_idx, eps))` over all products `λ_idx` of factor eigenvalues — the log-determinant
of the operator with its spectrum clamped from below; it never under-estimates `log det(⊗Aᵢ)` and is STRICTLY larger as soon
as one product eigenvalue is below the clamp (so `kronLogdetN_eq`'s hypothesis `eps ≤ x` is necessary, not only sufficient). -/
theorem kronLogdetN_clamped (l : List Nat) (As Qs : KMatsM ℝ l) (lams : KVecs ℝ l) (eps : ℝ)
    (h : EigOK l As Qs lams) (hpos : KVecs.Pos l lams) :
    kronLogdetN Real.log (fun x => max x eps) (KVecs.toLists l lams)
      = ∑ idx : KIdx l, Real.log (max (kronEig l lams idx) eps) ∧
    Real.log (kronAll l As).det ≤ kronLogdetN Real.log (fun x => max x eps) (KVecs.toLists l lams) ∧
    ((∃ idx, kronEig l lams idx < eps) →
      Real.log (kronAll l As).det < kronLogdetN Real.log (fun x => max x eps) (KVecs.toLists l lams)) :=
  kronLogdetN_clamped_aux l As Qs lams eps h hpos

/-- **Row-major flattening against flat index arithmetic**, any list of factor sizes: `KIdx.flat` is
`i₁·(n₂⋯n_k) + flat(rest)`, it is `< n₁⋯n_k`, the leading index / the rest are recovered by `/` and `%` of the trailing
product, and the enumeration `KIdx.all` (the order in which the model reads and writes flat tensors — `reshape(-1)` in
`_kron_diag`, `reshape(n, -1)` / `reshape(n_rows, -1)` in `_solve`) visits exactly the flat positions `0, 1, 2, …` in order. -/
theorem rowMajor_flat (l : List Nat) :
    (KIdx.all l).map (KIdx.flat l) = List.range (prodL l) ∧ (KIdx.all l).length = prodL l ∧
    (∀ idx : KIdx l, KIdx.flat l idx < prodL l) ∧
    (∀ (n : Nat) (i : Fin n) (j : KIdx l), KIdx.flat (n :: l) (i, j) = i.1 * prodL l + KIdx.flat l j ∧
      KIdx.flat (n :: l) (i, j) / prodL l = i.1 ∧ KIdx.flat (n :: l) (i, j) % prodL l = KIdx.flat l j) :=
  ⟨rowMajor_is_flat l, KIdx.all_length l, KIdx.flat_lt l,
   fun n i j => ⟨rfl, (KIdx.flat_divmod n l i j).1, (KIdx.flat_divmod n l i j).2⟩⟩

/-- instance: sizes `[2, 3]`, multi-index `(1, 2)` sits at flat position `1·3 + 2 = 5`, the last of `6`. -/
example : KIdx.flat [2, 3] ((1 : Fin 2), ((2 : Fin 3), ())) = 5 ∧ prodL [2, 3] = 6 := by decide

end LinOp.C05
