import LinOp.C01.ProofsA
import LinOp.C01.ProofsB
import LinOp.C01.ProofsC
import LinOp.C01.ProofsD
import LinOp.C01.ProofsE
import LinOp.C01.ProofsF
import LinOp.C01.ProofsH
import LinOp.C01.ProofsI
import LinOp.C01.ProofsG
/-!
C01 — every operator acts exactly as the dense matrix it represents.  Property theorems only.

The model (`LinOp/C01/Model.lean`, core Lean, executable — the driver runs exactly these definitions) mirrors the
index-heavy multiplication code paths of linear_operator; the `…Dense` functions are the documented dense meaning of
the constructor arguments.  Every theorem below is for all sizes (and any number of Kronecker factors / blocks /
concatenated operators), over an arbitrary commutative semiring.  Part A: Kronecker, block, batch-sum, batch-repeat,
Mul-over-roots.  Part B: interpolation, Toeplitz circulant embedding, Cat, Masked.  Part C: permutations, sums /
products / roots / diagonals, the Cholesky orientation (both orientations; D01 of the previous code kept as a named counterexample), base-class `to_dense`,
`rmatmul` and the minimal user subclass.  Part D: the Kronecker `_t_matmul` loop mirrored on its own.  Part E: batch
broadcasting (`torch.broadcast_shapes`, `expand`, `_matmul_broadcast_shape`, batched matmul member by member) for batch
shapes of arbitrary rank.
-/

/-! # from C01/PropsA.lean -/
namespace LinOp.C01
open LinOp Matrix Kronecker

/-- Loop invariant of the `for linear_op in linear_ops:` loop of `KroneckerProductLinearOperator._matmul`, for
any number of rectangular factors with non-empty column dimension, started on a state with
`colsProd fs * q` rows: the loop ends with `q * rowsProd fs` rows, and row `b * rowsProd fs + i` of the final
state is `Σ_j (A₁ ⊗ … ⊗ A_P)[i, j] · res[j * q + b]`.  (Each iteration multiplies the leading mixed-radix digit
of the row index by the factor and rotates it to the end; after all factors the digits are back in order.) -/
theorem kronLoop_spec {α : Type} [CommSemiring α] {c : Nat} (fs : List (Factor α))
    (hpos : ∀ f ∈ fs, 0 < f.n) (q : Nat) (res : Nat → Fin c → α) :
    (kronLoop fs (colsProd fs * q) res).1 = q * rowsProd fs ∧
    ∀ b, b < q → ∀ (i : Fin (rowsProd fs)) (col : Fin c),
      (kronLoop fs (colsProd fs * q) res).2 (b * rowsProd fs + i.1) col
        = ∑ j : Fin (colsProd fs), kronDense fs i j * res (j.1 * q + b) col :=
  kronLoop_inv fs hpos q res

/-- `KroneckerProductLinearOperator._matmul` computes `(A₁ ⊗ … ⊗ A_P) X` for any number of factors of any
(rectangular) sizes with non-empty column dimensions. -/
theorem kronMatmul_eq {α : Type} [CommSemiring α] {c : Nat} (fs : List (Factor α))
    (hpos : ∀ f ∈ fs, 0 < f.n) (X : Mat α (colsProd fs) c) :
    kronMatmul fs X = Mat.mul (kronDense fs) X := by
  funext i col
  have h := (kronLoop_spec fs hpos 1
    (fun i col => if h : i < colsProd fs then X ⟨i, h⟩ col else 0)).2 0 Nat.one_pos i col
  simp only [Nat.mul_one, Nat.zero_mul, Nat.zero_add, Nat.add_zero] at h
  rw [mul_apply]
  show (kronLoop fs (colsProd fs) _).2 i.1 col = _
  rw [h]
  refine Finset.sum_congr rfl fun j _ => ?_
  rw [dif_pos j.2]

/-- the hypothesis of `kronMatmul_eq` is not needed in the model: if some factor has an empty column dimension
the loop returns the zero matrix, and so does the (empty-sum) dense product.  (In PyTorch `res.view(0, -1)` raises,
so this case is a totalisation of the model, not a statement about the library.) -/
theorem kronMatmul_eq_total {α : Type} [CommSemiring α] {c : Nat} (fs : List (Factor α))
    (X : Mat α (colsProd fs) c) :
    kronMatmul fs X = Mat.mul (kronDense fs) X := by
  by_cases hpos : ∀ f ∈ fs, 0 < f.n
  · exact kronMatmul_eq fs hpos X
  · have h0 : ∃ f ∈ fs, f.n = 0 := by
      apply Classical.byContradiction
      intro hne
      exact hpos fun f hf => Nat.pos_of_ne_zero fun h => hne ⟨f, hf, h⟩
    funext i col
    rw [mul_apply]
    show (kronLoop fs (colsProd fs) _).2 i.1 col = _
    rw [kronLoop_of_empty_factor fs h0]
    have hC := colsProd_of_empty_factor fs h0
    exact (Finset.sum_eq_zero fun j _ => False.elim (by have := j.2; omega)).symm

/-- the hypothesis of `kronLoop_spec` / `kronMatmul_eq` holds for a non-trivial list of rectangular factors. -/
example : ∀ f ∈ ([⟨2, 3, fun i j => (i.1 : Int) + 2 * j.1⟩, ⟨3, 2, fun i j => (i.1 : Int) * j.1 - 1⟩] :
    List (Factor Int)), 0 < f.n := by
  intro f hf
  simp only [List.mem_cons, List.not_mem_nil, or_false] at hf
  rcases hf with rfl | rfl <;> decide

/-- the div/mod definition of the two-factor Kronecker product is Mathlib's `A ⊗ₖ B`, reindexed along the
row-major equivalence `Fin m × Fin p ≃ Fin (m * p)`. -/
theorem kron2Dense_eq_kronecker {α : Type} [CommSemiring α] {m n p q : Nat} (A : Mat α m n) (B : Mat α p q) :
    kron2Dense A B
      = Matrix.reindex finProdFinEquiv finProdFinEquiv (Matrix.kroneckerMap (· * ·) (Matrix.of A) (Matrix.of B)) := by
  funext i j
  rfl

/-- the `P`-factor dense definition is the iterated two-factor one. -/
theorem kronDense_cons {α : Type} [CommSemiring α] (f : Factor α) (fs : List (Factor α)) :
    kronDense (f :: fs) = kron2Dense f.A (kronDense fs) := rfl

/-- `_transpose_nonbatch` swaps the sizes: the transposed product has `colsProd fs` rows. -/
theorem kronTranspose_rows {α : Type} (fs : List (Factor α)) : rowsProd (kronTranspose fs) = colsProd fs :=
  rowsProd_kronTranspose fs

/-- `_transpose_nonbatch` swaps the sizes: the transposed product has `rowsProd fs` columns. -/
theorem kronTranspose_cols {α : Type} (fs : List (Factor α)) : colsProd (kronTranspose fs) = rowsProd fs :=
  colsProd_kronTranspose fs

/-- `_transpose_nonbatch` (transpose every factor) denotes the transpose of the Kronecker product:
`(A₁ᵀ ⊗ … ⊗ A_Pᵀ)[i, j] = (A₁ ⊗ … ⊗ A_P)[j, i]`, the indices being transported along the size equalities. -/
theorem kronTranspose_dense {α : Type} [CommSemiring α] (fs : List (Factor α))
    (i : Fin (rowsProd (kronTranspose fs))) (j : Fin (colsProd (kronTranspose fs))) :
    kronDense (kronTranspose fs) i j
      = Mat.transpose (kronDense fs) (Fin.cast (kronTranspose_rows fs) i) (Fin.cast (kronTranspose_cols fs) j) :=
  kronTranspose_dense_heq fs i j _ _ rfl rfl

/-- `_t_matmul` computes `(A₁ ⊗ … ⊗ A_P)ᵀ X` (entrywise, with the index transport of `kronTranspose_dense`). -/
theorem kronTMatmul_eq {α : Type} [CommSemiring α] {c : Nat} (fs : List (Factor α))
    (hpos : ∀ f ∈ fs, 0 < f.m) (X : Mat α (colsProd (kronTranspose fs)) c)
    (i : Fin (rowsProd (kronTranspose fs))) (col : Fin c) :
    kronTMatmul fs X i col
      = ∑ j : Fin (colsProd (kronTranspose fs)),
          kronDense fs (Fin.cast (kronTranspose_cols fs) j) (Fin.cast (kronTranspose_rows fs) i) * X j col := by
  have hpos' : ∀ g ∈ kronTranspose fs, 0 < g.n := by
    intro g hg
    simp only [kronTranspose, List.mem_map] at hg
    obtain ⟨f, hf, rfl⟩ := hg
    exact hpos f hf
  rw [kronTMatmul, kronMatmul_eq _ hpos', mul_apply]
  refine Finset.sum_congr rfl fun j _ => ?_
  rw [kronTranspose_dense, Mat.transpose]

/-- `blockDiagDense` at `[b*m + r, b'*n + s]` is `B[b][r,s]` on the diagonal blocks and zero elsewhere. -/
theorem blockDiagDense_pair {α : Type} [CommSemiring α] {k m n : Nat} (B : Ten3 α k m n)
    (b b' : Fin k) (r : Fin m) (s : Fin n) :
    blockDiagDense B (pairIdx b r) (pairIdx b' s) = if b = b' then B b r s else 0 := by
  simp only [blockDiagDense, divIdx_pairIdx, modIdx_pairIdx]

/-- `BlockDiagLinearOperator._matmul` (view, batched base matmul, reshape back) is multiplication by the dense
block-diagonal matrix, for any number of rectangular blocks. -/
theorem blockDiag_matmul {α : Type} [CommSemiring α] {k m n c : Nat} (B : Ten3 α k m n) (X : Mat α (k * n) c) :
    blockDiagMatmul B X = Mat.mul (blockDiagDense B) X := by
  funext i col
  rw [mul_apply, sum_pairIdx']
  simp only [blockDiagMatmul, blockDiagRemove, bmm, blockDiagAdd, mul_apply, blockDiagDense,
    divIdx_pairIdx, modIdx_pairIdx, ite_mul, zero_mul, Finset.sum_ite_eq, Finset.mem_univ, if_true]

/-- `blockInterDense` at `[r*k + b, s*k + b']` is `B[b][r,s]` if `b = b'` and zero otherwise. -/
theorem blockInterDense_pair {α : Type} [CommSemiring α] {k m n : Nat} (B : Ten3 α k m n)
    (b b' : Fin k) (r : Fin m) (s : Fin n) :
    blockInterDense B (pairIdx r b) (pairIdx s b') = if b = b' then B b r s else 0 := by
  simp only [blockInterDense, divIdx_pairIdx, modIdx_pairIdx]

/-- `BlockInterleavedLinearOperator._matmul` is multiplication by the dense interleaved-block matrix. -/
theorem blockInter_matmul {α : Type} [CommSemiring α] {k m n c : Nat} (B : Ten3 α k m n) (X : Mat α (n * k) c) :
    blockInterMatmul B X = Mat.mul (blockInterDense B) X := by
  funext i col
  rw [mul_apply, sum_pairIdx]
  simp only [blockInterMatmul, blockInterRemove, bmm, blockInterAdd, mul_apply, blockInterDense,
    divIdx_pairIdx, modIdx_pairIdx, ite_mul, zero_mul, Finset.sum_ite_eq, Finset.mem_univ, if_true]

/-- transposing every block transposes the dense block-diagonal matrix. -/
theorem blockDiag_transpose {α : Type} [CommSemiring α] {k m n : Nat} (B : Ten3 α k m n) :
    blockDiagDense (blockTranspose B) = Mat.transpose (blockDiagDense B) := by
  funext i j
  simp only [blockDiagDense, blockTranspose, Mat.transpose]
  by_cases h : divIdx i = divIdx j
  · rw [if_pos h, if_pos h.symm, h]
  · rw [if_neg h, if_neg (Ne.symm h)]

/-- transposing every block transposes the dense interleaved-block matrix. -/
theorem blockInter_transpose {α : Type} [CommSemiring α] {k m n : Nat} (B : Ten3 α k m n) :
    blockInterDense (blockTranspose B) = Mat.transpose (blockInterDense B) := by
  funext i j
  simp only [blockInterDense, blockTranspose, Mat.transpose]
  by_cases h : modIdx i = modIdx j
  · rw [if_pos h, if_pos h.symm, h]
  · rw [if_neg h, if_neg (Ne.symm h)]

/-- `SumBatchLinearOperator._matmul` (expand the rhs, batched matmul, sum over the batch) is multiplication by
the sum of the blocks. -/
theorem sumBatch_matmul {α : Type} [CommSemiring α] {k m n c : Nat} (B : Ten3 α k m n) (X : Mat α n c) :
    sumBatchMatmul B X = Mat.mul (sumBatchDense B) X := by
  funext i col
  simp only [sumBatchMatmul, sumBatchRemove, bmm, sumBatchAdd, sumBatchDense, mul_apply, sumFin_eq_sum,
    Finset.sum_mul]
  exact Finset.sum_comm

/-- `BatchRepeatLinearOperator._matmul` (move the repeat batches into columns, batched base matmul, move back)
multiplies batch entry `t` of the rhs by batch entry `t` of `base.repeat(r, 1, 1)`. -/
theorem batchRepeat_matmul {α : Type} [CommSemiring α] {r b n c : Nat} (B : Ten3 α b n n)
    (X : Ten3 α (r * b) n c) (t : Fin (r * b)) :
    batchRepeatMatmul B X t = Mat.mul (batchRepeatDense (r := r) B t) (X t) := by
  funext i col
  simp only [batchRepeatMatmul, repeatBack, bmm, repeatToColumns, batchRepeatDense, mul_apply,
    divIdx_pairIdx, modIdx_pairIdx, pairIdx_divIdx_modIdx]

/-- the same at batch index `ρ*b + β`: the result is `base[β] · rhs[ρ*b + β]`. -/
theorem batchRepeat_matmul_pair {α : Type} [CommSemiring α] {r b n c : Nat} (B : Ten3 α b n n)
    (X : Ten3 α (r * b) n c) (ρ : Fin r) (β : Fin b) :
    batchRepeatMatmul B X (pairIdx ρ β) = Mat.mul (B β) (X (pairIdx ρ β)) := by
  rw [batchRepeat_matmul]
  simp only [batchRepeatDense, modIdx_pairIdx]

/-- `MulLinearOperator._matmul` with a left root `L`: the rank-expanded formula equals multiplication by the
Hadamard product `(L Lᵀ) ∘ B`. -/
theorem mul_matmul_roots {α : Type} [CommSemiring α] {n k c : Nat} (L : Mat α n k) (B : Mat α n n)
    (X : Mat α n c) :
    mulRootsMatmul L B X = Mat.mul (hadamard (rootDense L) B) X := by
  funext i col
  simp only [mulRootsMatmul, hadamard, rootDense, Mat.transpose, mul_apply, sumFin_eq_sum,
    divIdx_pairIdx, modIdx_pairIdx, Finset.sum_mul]
  rw [Finset.sum_comm]
  refine Finset.sum_congr rfl fun j _ => Finset.sum_congr rfl fun l _ => ?_
  ring

end LinOp.C01


/-! # from C01/PropsB.lean -/
/-!
C01, part B — property theorems for the interpolation, Toeplitz, Cat and Masked code paths.
All statements are for every size, over an arbitrary commutative semiring (the dense-structure facts need no
algebra at all).  Proofs are in `LinOp.C01.ProofsB` (namespace `LinOp.C01.B`).
-/
namespace LinOp.C01

variable {α : Type}

/-! ## Interpolation -/

/-- Row `r` of the interpolation matrix `W` is `Σ_k val[r,k] · e_{idx[r,k]}` (`e_i` = row `i` of the identity):
every (index, value) pair contributes, so duplicate indices inside a row add up. -/
theorem interpW_eq_sum_basis [CommSemiring α] {n K nb : Nat} (idx : Fin n → Fin K → Fin nb) (val : Mat α n K)
    (r : Fin n) : interpW idx val r = fun j => ∑ k, val r k * Mat.one (idx r k) j :=
  B.interpW_eq_sum_basis idx val r

/-- `left_interp` (gather rows `idx[r,k]` of the rhs, scale by `val[r,k]`, sum over `k`) equals `W · X` with the
dense interpolation matrix `W`; no distinctness assumption on the indices. -/
theorem leftInterp_eq [CommSemiring α] {n K nb c : Nat} (idx : Fin n → Fin K → Fin nb) (val : Mat α n K)
    (X : Mat α nb c) : leftInterp idx val X = Mat.mul (interpW idx val) X :=
  B.leftInterp_eq idx val X

/-- `left_t_interp` (scale row `r` of the rhs by `val[r,k]`, flatten the `(r,k)` pairs row-major, multiply by the
0/1 summing matrix `S[idx[r,k], r*K+k]`) equals `Wᵀ · X`: the scatter-add accumulates all pairs that hit the
same target row. -/
theorem leftTInterp_eq [CommSemiring α] {n K nb c : Nat} (idx : Fin n → Fin K → Fin nb) (val : Mat α n K)
    (X : Mat α n c) : leftTInterp idx val X = Mat.mul (Mat.transpose (interpW idx val)) X :=
  B.leftTInterp_eq idx val X

/-- `InterpolatedLinearOperator.matmul` (`left_interp ∘ base.matmul ∘ left_t_interp`) multiplies by the dense
definition `W_l · K · W_rᵀ`. -/
theorem interp_matmul [CommSemiring α] {n n' K K' nb nb' c : Nat} (base : Mat α nb nb')
    (lidx : Fin n → Fin K → Fin nb) (lval : Mat α n K) (ridx : Fin n' → Fin K' → Fin nb') (rval : Mat α n' K')
    (X : Mat α n' c) :
    interpMatmul base lidx lval ridx rval X = Mat.mul (interpDense base lidx lval ridx rval) X :=
  B.interpMatmul_eq base lidx lval ridx rval X

/-- `InterpolatedLinearOperator._matmul` through the coalesced sparse matrices
(`W_l · (K · (W_rᵀ · X))`) multiplies by the same dense definition `W_l · K · W_rᵀ`. -/
theorem interp_matmul_sparse [CommSemiring α] {n n' K K' nb nb' c : Nat} (base : Mat α nb nb')
    (lidx : Fin n → Fin K → Fin nb) (lval : Mat α n K) (ridx : Fin n' → Fin K' → Fin nb') (rval : Mat α n' K')
    (X : Mat α n' c) :
    interpMatmulSparse base lidx lval ridx rval X = Mat.mul (interpDense base lidx lval ridx rval) X :=
  B.interpMatmulSparse_eq base lidx lval ridx rval X

/-- `_transpose_nonbatch` of an interpolated operator (transpose the base, swap left and right
indices/values) denotes the transpose of the dense definition. -/
theorem interp_transpose [CommSemiring α] {n n' K K' nb nb' : Nat} (base : Mat α nb nb')
    (lidx : Fin n → Fin K → Fin nb) (lval : Mat α n K) (ridx : Fin n' → Fin K' → Fin nb') (rval : Mat α n' K') :
    interpDense (Mat.transpose base) ridx rval lidx lval
      = Mat.transpose (interpDense base lidx lval ridx rval) :=
  B.interp_transpose base lidx lval ridx rval

/-! ## Toeplitz -/

/-- `toeplitz_matmul`: the first `n` entries of the length-`(2n−1)` circular convolution of the embedding
`[col, reverse(row[1:])]` with the zero-padded rhs equal `T · X`, where `T[i,j] = col[i−j]` for `i ≥ j` and
`row[j−i]` for `i < j` (so the diagonal is `col[0]`; `row[0]` is never read).  Holds for every `n` and arbitrary
`col`, `row` (no `0 < n` hypothesis is needed: for `n = 0` there are no entries). -/
theorem toeplitz_circulant_embedding [CommSemiring α] {n c : Nat} (col row : Fin n → α) (X : Mat α n c) :
    toeplitzMatmul col row X = Mat.mul (toeplitzDense col row) X :=
  B.toeplitzMatmul_eq col row X

/-- The entry of the embedding vector that output row `i` pairs with input position `j < n` in the circular
convolution, `e[(i + L − j) mod L]` with `L = 2n−1`, is exactly `T[i,j]`. -/
theorem toeplitz_embedding_entry [Zero α] {n : Nat} (col row : Fin n → α) (i j : Fin n) :
    toeplitzEmbedding col row ((i.1 + (2 * n - 1) - j.1) % (2 * n - 1)) = toeplitzDense col row i j :=
  B.toeplitzEmbedding_circ col row i j

/-- The symmetric Toeplitz operator (`row = col`) has a symmetric dense definition. -/
theorem toeplitz_symm_transpose {n : Nat} (c : Fin n → α) :
    toeplitzDense c c = Mat.transpose (toeplitzDense c c) :=
  B.toeplitz_symm_transpose c

/-- Sanity instance (not a theorem about all sizes): `n = 2`, non-symmetric `col = [1,2]`, `row = [1,4]`,
`X = [1,10]ᵀ`; `T = [[1,4],[2,1]]`, so `T·X = [41, 12]ᵀ`. -/
example :
    (fun i : Fin 2 => toeplitzMatmul (α := Int) (c := 1) (fun i => i.1 + 1) (fun i => 1 + 3 * i.1)
      (fun i _ => 10 ^ i.1) i ⟨0, Nat.one_pos⟩) = fun i => if i.1 = 0 then 41 else 12 := by
  decide

/-! ## Cat -/

/-- `CatLinearOperator._matmul` with `cat_dim = -2` (concatenate the per-block products) multiplies by the
row-concatenation of the blocks. -/
theorem cat_matmul_rows [CommSemiring α] {a b n c : Nat} (A : Mat α a n) (B : Mat α b n) (X : Mat α n c) :
    catRowsMatmul A B X = Mat.mul (catRows A B) X :=
  LinOp.C01.B.catRowsMatmul_eq A B X

/-- Loop invariant of the `cat_dim = -1` path: after running the slice-and-accumulate loop over the blocks `bs`
from row offset `curr` with accumulator `acc`, the result is `acc` plus the column-concatenation of `bs` applied
to rows `curr, curr+1, …` of the rhs. -/
theorem cat_cols_loop_invariant [CommSemiring α] {n c : Nat} (bs : List (ColBlock α n)) (curr : Nat)
    (rhs : Nat → Fin c → α) (acc : Mat α n c) (i : Fin n) (col : Fin c) :
    catColsLoop bs curr rhs acc i col
      = acc i col + ∑ j : Fin (totalCols bs), catColsDense bs i j * rhs (curr + j.1) col :=
  B.catColsLoop_eq bs curr rhs acc i col

/-- `CatLinearOperator._matmul` with `cat_dim = -1`, any number of blocks of any widths: slicing the rhs by the
running offset and summing the per-block products multiplies by the column-concatenation of the blocks. -/
theorem cat_matmul_cols [CommSemiring α] {n c : Nat} (bs : List (ColBlock α n)) (X : Mat α (totalCols bs) c) :
    catColsMatmul bs X = Mat.mul (catColsDense bs) X :=
  B.catColsMatmul_eq bs X

/-- Transposing a row-concatenation gives the column-concatenation of the transposed blocks. -/
theorem cat_transpose {a b c : Nat} (A : Mat α a c) (B : Mat α b c) :
    Mat.transpose (catRows A B) = catCols (Mat.transpose A) (Mat.transpose B) :=
  LinOp.C01.B.cat_transpose A B

/-! ## Masked -/

/-- `MaskedLinearOperator._matmul` (expand the rhs to the full column range with zeros at unselected
positions, multiply by the base, keep the selected rows) multiplies by `base[row_mask, :][:, col_mask]`. -/
theorem masked_matmul [CommSemiring α] {N M c : Nat} (base : Mat α N M) (rmask : Fin N → Bool)
    (cmask : Fin M → Bool) (X : Mat α (maskSel cmask).length c) :
    maskedMatmul base rmask cmask X = Mat.mul (maskedDense base rmask cmask) X :=
  B.maskedMatmul_eq base rmask cmask X

/-- `_transpose_nonbatch` of a masked operator (transpose the base, swap the masks) denotes the transpose. -/
theorem masked_transpose {N M : Nat} (base : Mat α N M) (rmask : Fin N → Bool) (cmask : Fin M → Bool) :
    maskedDense (Mat.transpose base) cmask rmask = Mat.transpose (maskedDense base rmask cmask) :=
  B.masked_transpose base rmask cmask

end LinOp.C01


/-! # from C01/PropsC.lean -/
namespace LinOp.C01
open LinOp LinOp.C01.C

/-! ## C01 group C — permutations, sums / products / roots / diagonals, Cholesky orientation, base class -/

/-! ### 1. permutations -/

/-- `PermutationLinearOperator._matmul` (the gather `rhs[perm]`) equals multiplication by the dense permutation
matrix `P[i, perm i] = 1`, for every size and every index map `perm` (bijectivity is not needed here). -/
theorem perm_matmul {α : Type} [CommSemiring α] {n c : Nat} (perm : Fin n → Fin n) (X : Mat α n c) :
    permMatmul perm X = Mat.mul (permDense perm) X := by
  funext i col
  simp only [permMatmul, permDense, mul_apply, ite_mul, one_mul, zero_mul, Finset.sum_ite_eq, Finset.mem_univ,
    if_true]

/-- `PermutationLinearOperator._transpose_nonbatch` swaps `perm` and `inv_perm`: when the two maps are mutually
inverse, the dense matrix of `inv` is the transpose of the dense matrix of `perm`. -/
theorem perm_transpose {α : Type} [CommSemiring α] {n : Nat} (perm inv : Fin n → Fin n)
    (h1 : ∀ i, perm (inv i) = i) (h2 : ∀ j, inv (perm j) = j) :
    permDense inv = Mat.transpose (permDense (α := α) perm) := by
  funext i j
  simp only [permDense, Mat.transpose]
  by_cases h : inv i = j
  · have h' : perm j = i := by rw [← h]; exact h1 i
    rw [if_pos h, if_pos h']
  · have h' : ¬ perm j = i := fun e => h (by rw [← e]; exact h2 j)
    rw [if_neg h, if_neg h']

/-- `TransposePermutationLinearOperator._matmul` (unflatten to `(m, m)`, swap, flatten) equals multiplication by
the dense commutation matrix `K[a*m+b, b*m+a] = 1`. -/
theorem transposePerm_matmul {α : Type} [CommSemiring α] {m c : Nat} (X : Mat α (m * m) c) :
    transposePermMatmul X = Mat.mul transposePermDense X := by
  funext i col
  have hc : ∀ l : Fin (m * m),
      (divIdx i = modIdx l ∧ modIdx i = divIdx l) ↔ pairIdx (modIdx i) (divIdx i) = l := by
    intro l
    rw [← div_mod_eq_iff]
    constructor
    · rintro ⟨h1, h2⟩; exact ⟨h2.symm, h1.symm⟩
    · rintro ⟨h1, h2⟩; exact ⟨h2.symm, h1.symm⟩
  simp only [transposePermMatmul, transposePermDense, mul_apply, hc, ite_mul, one_mul, zero_mul,
    Finset.sum_ite_eq, Finset.mem_univ, if_true]

/-- The commutation matrix is symmetric: `TransposePermutationLinearOperator._transpose_nonbatch` returns `self`. -/
theorem transposePerm_symm {α : Type} [CommSemiring α] {m : Nat} :
    Mat.transpose (transposePermDense (α := α) (m := m)) = transposePermDense := by
  funext i j
  simp only [Mat.transpose, transposePermDense]
  by_cases h : divIdx i = modIdx j ∧ modIdx i = divIdx j
  · rw [if_pos h, if_pos ⟨h.2.symm, h.1.symm⟩]
  · rw [if_neg h, if_neg fun h' => h ⟨h'.2.symm, h'.1.symm⟩]

/-- Entry formula of the commutation matrix in pair coordinates: row `(a, b)`, column `(b', a')` holds `1` exactly
when `(a, b) = (a', b')`, i.e. `K vec(X) = vec(Xᵀ)`. -/
theorem transposePermDense_pair {α : Type} [CommSemiring α] {m : Nat} (a b b' a' : Fin m) :
    transposePermDense (α := α) (pairIdx a b) (pairIdx b' a') = if a = a' ∧ b = b' then 1 else 0 := by
  simp only [transposePermDense, divIdx_pairIdx, modIdx_pairIdx]

/-! ### 2. sums, products, roots, diagonals -/

/-- `AddedDiagLinearOperator._matmul` (`addcmul(A @ rhs, d[:, None], rhs)`) multiplies by `A + diag(d)`. -/
theorem addedDiag_matmul {α : Type} [CommSemiring α] {n c : Nat} (A : Mat α n n) (d : Fin n → α) (X : Mat α n c) :
    addedDiagMatmul A d X = Mat.mul (Mat.add A (Mat.diag d)) X := by
  rw [C.add_mul, diag_mul]; rfl

/-- `DiagLinearOperator.matmul` (`diag[:, None] * rhs`) multiplies by `diag(d)`. -/
theorem diag_matmul {α : Type} [CommSemiring α] {n c : Nat} (d : Fin n → α) (X : Mat α n c) :
    diagMatmul d X = Mat.mul (Mat.diag d) X := by
  rw [diag_mul]; rfl

/-- `ConstantMulLinearOperator._matmul` (`base @ rhs * k`) multiplies by the dense matrix `A * k`. -/
theorem constMul_matmul {α : Type} [CommSemiring α] {n m c : Nat} (A : Mat α n m) (k : α) (X : Mat α m c) :
    constMulMatmul A k X = Mat.mul (constMulDense A k) X := by
  funext i col
  simp only [constMulMatmul, constMulDense, mul_apply, Finset.sum_mul]
  exact Finset.sum_congr rfl fun l _ => mul_right_comm _ _ _

/-- `SumLinearOperator._matmul` (sum of the summands' products) multiplies by `A + B`. -/
theorem sum_matmul {α : Type} [CommSemiring α] {n m c : Nat} (A B : Mat α n m) (X : Mat α m c) :
    sumMatmul A B X = Mat.mul (Mat.add A B) X := by
  rw [C.add_mul]; rfl

/-- `MatmulLinearOperator._matmul` (`left @ (right @ rhs)`) multiplies by the dense product `A B`. -/
theorem matmulOp_matmul {α : Type} [CommSemiring α] {n k m c : Nat} (A : Mat α n k) (B : Mat α k m)
    (X : Mat α m c) : matmulMatmul A B X = Mat.mul (Mat.mul A B) X :=
  (C.mul_assoc A B X).symm

/-- `RootLinearOperator._matmul` (`R @ (Rᵀ @ rhs)`) multiplies by `to_dense() = R Rᵀ`. -/
theorem root_matmul {α : Type} [CommSemiring α] {n k c : Nat} (R : Mat α n k) (X : Mat α n c) :
    rootMatmul R X = Mat.mul (rootDense R) X :=
  (C.mul_assoc R (Mat.transpose R) X).symm

/-- `R Rᵀ` is symmetric (`RootLinearOperator._transpose_nonbatch` returns `self`). -/
theorem root_symm {α : Type} [CommSemiring α] {n k : Nat} (R : Mat α n k) :
    Mat.transpose (rootDense R) = rootDense R := by
  unfold rootDense
  rw [C.transpose_mul]; rfl

/-- `ConstantMulLinearOperator._transpose_nonbatch`: transposing `A * k` is `Aᵀ * k`. -/
theorem constMul_transpose {α : Type} [CommSemiring α] {n m : Nat} (A : Mat α n m) (k : α) :
    Mat.transpose (constMulDense A k) = constMulDense (Mat.transpose A) k := rfl

/-- `SumLinearOperator._transpose_nonbatch`: transposing `A + B` is `Aᵀ + Bᵀ`. -/
theorem sum_transpose {α : Type} [CommSemiring α] {n m : Nat} (A B : Mat α n m) :
    Mat.transpose (Mat.add A B) = Mat.add (Mat.transpose A) (Mat.transpose B) := rfl

/-- `MatmulLinearOperator._transpose_nonbatch`: `(A B)ᵀ = Bᵀ Aᵀ` (factors transposed *and* swapped). -/
theorem matmulOp_transpose {α : Type} [CommSemiring α] {n k m : Nat} (A : Mat α n k) (B : Mat α k m) :
    Mat.transpose (Mat.mul A B) = Mat.mul (Mat.transpose B) (Mat.transpose A) :=
  C.transpose_mul A B

/-- `DiagLinearOperator._transpose_nonbatch` returns `self`: a diagonal matrix is symmetric. -/
theorem diag_symm {α : Type} [CommSemiring α] {n : Nat} (d : Fin n → α) :
    Mat.transpose (Mat.diag d) = Mat.diag d := by
  funext i j
  simp only [Mat.transpose, Mat.diag]
  by_cases h : i = j
  · subst h; rfl
  · rw [if_neg h, if_neg fun e => h e.symm]

/-! ### 3. Cholesky orientation (D01, fixed in /repo 05006ba): `CholLinearOperator(R, upper)` -/

/-- `upper = False`: `_matmul` (`R (Rᵀ rhs)`) agrees with the dense definition `R Rᵀ` for every `R`. -/
theorem chol_lower_matmul {α : Type} [CommSemiring α] {n c : Nat} (R : Mat α n n) (X : Mat α n c) :
    cholMatmul R false X = Mat.mul (cholDense R false) X :=
  root_matmul R X

/-- `upper = True`: `_matmul` (`Rᵀ (R rhs)`) agrees with the dense definition `Rᵀ R` for every `R` and every size
(FULL theorem for the current code; it was a counterexample for the previous code, see below). -/
theorem chol_upper_matmul {α : Type} [CommSemiring α] {n c : Nat} (R : Mat α n n) (X : Mat α n c) :
    cholMatmul R true X = Mat.mul (cholDense R true) X := by
  simp only [cholMatmul, cholDense, if_true]
  exact (C.mul_assoc (Mat.transpose R) R X).symm

/-- Both orientations at once: `CholLinearOperator._matmul` multiplies by the matrix its arguments denote. -/
theorem chol_matmul {α : Type} [CommSemiring α] {n c : Nat} (R : Mat α n n) (upper : Bool) (X : Mat α n c) :
    cholMatmul R upper X = Mat.mul (cholDense R upper) X := by
  cases upper
  · exact chol_lower_matmul R X
  · exact chol_upper_matmul R X

/-- `CholLinearOperator._transpose_nonbatch` returns `self`: `Rᵀ R` and `R Rᵀ` are symmetric. -/
theorem chol_symm {α : Type} [CommSemiring α] {n : Nat} (R : Mat α n n) (upper : Bool) :
    Mat.transpose (cholDense R upper) = cholDense R upper := by
  cases upper
  · simp only [cholDense, Bool.false_eq_true, if_false]
    rw [C.transpose_mul, C.transpose_transpose]
  · simp only [cholDense, if_true]
    rw [C.transpose_mul, C.transpose_transpose]

/-- About the PREVIOUS code (defect D01, before /repo 05006ba): the inherited `_matmul` (`R Rᵀ rhs`, ignoring
`upper`) disagreed with the dense definition `Rᵀ R` — witness `R = [[1,1],[0,1]]` (a valid upper Cholesky factor),
`rhs = e₀`: that code returned `(2,1)ᵀ`, the dense matrix gives `(1,1)ᵀ`. -/
theorem chol_upper_matmul_previous_counterexample :
    ∃ (R : Mat Int 2 2) (X : Mat Int 2 1), cholMatmulPrevious R true X ≠ Mat.mul (cholDense R true) X := by
  refine ⟨fun i j => if i.1 = 1 ∧ j.1 = 0 then 0 else 1, fun i _ => if i.1 = 0 then 1 else 0, fun h => ?_⟩
  have h00 := congrFun (congrFun h 0) 0
  simp only [cholMatmulPrevious, rootMatmul, cholDense, if_true, mul_apply, Mat.transpose, Fin.sum_univ_two] at h00
  revert h00
  decide

/-- About the PREVIOUS code: it was right exactly on normal factors (`R Rᵀ = Rᵀ R`), which is why the suite never
noticed. -/
theorem chol_upper_matmul_previous_correct_iff_normal {α : Type} [CommSemiring α] {n : Nat} (R : Mat α n n) :
    (∀ c (X : Mat α n c), cholMatmulPrevious R true X = Mat.mul (cholDense R true) X) ↔
      Mat.mul R (Mat.transpose R) = Mat.mul (Mat.transpose R) R := by
  constructor
  · intro h
    have h1 := h n (Mat.one (α := α))
    rw [C.mul_one] at h1
    have h2 : cholMatmulPrevious R true (Mat.one (α := α) (n := n)) = Mat.mul R (Mat.transpose R) := by
      show Mat.mul R (Mat.mul (Mat.transpose R) Mat.one) = _
      rw [C.mul_one]
    rw [h2] at h1
    simpa only [cholDense, if_true] using h1
  · intro hR c X
    have h : cholDense R true = Mat.mul R (Mat.transpose R) := by
      simp only [cholDense, if_true]; exact hR.symm
    rw [h]
    exact root_matmul R X

/-! ### 4. base class / minimal user subclass -/

/-- Base `to_dense` (multiply the identity, through the transposed operator when `num_rows < num_cols`) returns
the denoted matrix, in both branches. -/
theorem toDense_default {α : Type} [CommSemiring α] {n m : Nat} (op : UserOp α n m) (D : Mat α n m)
    (h : op.Denotes D) : toDenseDefault op = D := by
  unfold toDenseDefault
  by_cases hnm : n < m
  · rw [if_pos hnm, h.2, C.mul_one]; rfl
  · rw [if_neg hnm, h.1, C.mul_one]

/-- Base `rmatmul` (`self.mT.matmul(other.mT).mT`) is left multiplication `Y D`. -/
theorem rmatmul_refines {α : Type} [CommSemiring α] {n m p : Nat} (op : UserOp α n m) (D : Mat α n m)
    (Y : Mat α p n) (h : op.Denotes D) : rmatmul op Y = Mat.mul Y D := by
  unfold rmatmul
  rw [h.2, C.transpose_mul]; rfl

/-- Base `rmatmul` with a 1-D left operand (`self.mT.matmul(other)`) is the vector–matrix product `y D`. -/
theorem rmatmulVec_refines {α : Type} [CommSemiring α] {n m : Nat} (op : UserOp α n m) (D : Mat α n m)
    (y : Fin n → α) (h : op.Denotes D) : rmatmulVec op y = fun j => ∑ i, y i * D i j := by
  funext j
  unfold rmatmulVec
  rw [h.2, mul_apply]
  exact Finset.sum_congr rfl fun i _ => mul_comm _ _

/-- Every base-class-derived observation of a minimal user subclass (`to_dense`, `matmul`, `rmatmul`, the
transposed operator's `matmul` and `to_dense`) agrees with the single dense matrix `D` it denotes. -/
theorem userMinimal_refines {α : Type} [CommSemiring α] {n m : Nat} (op : UserOp α n m) (D : Mat α n m)
    (h : op.Denotes D) :
    toDenseDefault op = D ∧
    (∀ c (X : Mat α m c), op.mm X = Mat.mul D X) ∧
    (∀ p (Y : Mat α p n), rmatmul op Y = Mat.mul Y D) ∧
    (∀ c (X : Mat α n c), op.tmm X = Mat.mul (Mat.transpose D) X) ∧
    toDenseDefault (⟨op.tmm, op.mm⟩ : UserOp α m n) = Mat.transpose D :=
  ⟨toDense_default op D h, h.1, fun _ Y => rmatmul_refines op D Y h, h.2,
    toDense_default ⟨op.tmm, op.mm⟩ (Mat.transpose D) ⟨h.2, h.1⟩⟩

/-- The hypothesis `Denotes` is satisfiable: the operator built from a dense matrix denotes it. -/
theorem ofDense_denotes {α : Type} [CommSemiring α] {n m : Nat} (D : Mat α n m) : (UserOp.ofDense D).Denotes D :=
  ⟨fun _ _ => rfl, fun _ _ => rfl⟩

/-- Non-vacuity, concrete: a non-square integer operator. -/
example : (UserOp.ofDense (fun (i : Fin 2) (j : Fin 3) => (i.1 + 2 * j.1 : Int))).Denotes
    (fun i j => (i.1 + 2 * j.1 : Int)) := ofDense_denotes _

/-- Non-vacuity, structured: the subclass whose `_matmul` is the row scaling `d[:, None] * rhs` (and which is its
own transpose) denotes `diag(d)` — an instance not built from its dense matrix. -/
example {α : Type} [CommSemiring α] {n : Nat} (d : Fin n → α) :
    (⟨fun X => diagMatmul d X, fun X => diagMatmul d X⟩ : UserOp α n n).Denotes (Mat.diag d) :=
  ⟨fun _ X => diag_matmul d X, fun _ X => by rw [diag_symm]; exact diag_matmul d X⟩

end LinOp.C01


/-! # from C01/PropsD.lean -/
/-!
C01 — part D: the second module-level Kronecker loop, `_t_matmul(linear_ops, kp_shape, rhs)`, modelled on its own
(`kronTStep`, `kronTLoop`, `kronTMatmulLoop`) rather than through `_transpose_nonbatch`.  Property theorems only.
-/
namespace LinOp.C01
open LinOp

/-- One iteration of the `_t_matmul` loop is the `_matmul` iteration of the transposed factor
(`linear_op._t_matmul` in place of `linear_op._matmul`, `size(-2)` and `size(-1)` swapped). -/
theorem kronTStep_eq_kronStep_transpose {α : Type} [CommSemiring α] {c : Nat} (f : Factor α) (R : Nat)
    (res : Nat → Fin c → α) :
    kronTStep f R res = kronStep ⟨f.n, f.m, Mat.transpose f.A⟩ R res :=
  D.kronTStep_eq f R res

/-- The whole `_t_matmul` loop is the `_matmul` loop run on the transposed factors (`_transpose_nonbatch`),
on any state: same final row count and same final state. -/
theorem kronTLoop_eq {α : Type} [CommSemiring α] {c : Nat} (fs : List (Factor α)) (R : Nat)
    (res : Nat → Fin c → α) :
    kronTLoop fs R res = kronLoop (kronTranspose fs) R res :=
  D.kronTLoop_eq fs R res

/-- Loop invariant of the `for linear_op in linear_ops:` loop of `_t_matmul`, stated directly (no index
transport), for any number of rectangular factors with non-empty row dimension, started on a state with
`rowsProd fs * q` rows: the loop ends with `q * colsProd fs` rows, and row `b * colsProd fs + j` of the final
state is `Σ_i (A₁ ⊗ … ⊗ A_P)[i, j] · res[i * q + b]`. -/
theorem kronTLoop_spec {α : Type} [CommSemiring α] {c : Nat} (fs : List (Factor α))
    (hpos : ∀ f ∈ fs, 0 < f.m) (q : Nat) (res : Nat → Fin c → α) :
    (kronTLoop fs (rowsProd fs * q) res).1 = q * colsProd fs ∧
    ∀ b, b < q → ∀ (j : Fin (colsProd fs)) (col : Fin c),
      (kronTLoop fs (rowsProd fs * q) res).2 (b * colsProd fs + j.1) col
        = ∑ i : Fin (rowsProd fs), kronDense fs i j * res (i.1 * q + b) col :=
  D.kronTLoop_inv fs hpos q res

/-- The `_t_matmul` loop computes `(A₁ ⊗ … ⊗ A_P)ᵀ Y` for any number of factors of any (rectangular) sizes with
non-empty row dimensions. -/
theorem kronTMatmulLoop_eq {α : Type} [CommSemiring α] {c : Nat} (fs : List (Factor α))
    (hpos : ∀ f ∈ fs, 0 < f.m) (Y : Mat α (rowsProd fs) c) :
    kronTMatmulLoop fs Y = Mat.mul (Mat.transpose (kronDense fs)) Y := by
  funext j col
  have h := (kronTLoop_spec fs hpos 1
    (fun i col => if h : i < rowsProd fs then Y ⟨i, h⟩ col else 0)).2 0 Nat.one_pos j col
  simp only [Nat.mul_one, Nat.zero_mul, Nat.zero_add, Nat.add_zero] at h
  rw [mul_apply]
  show (kronTLoop fs (rowsProd fs) _).2 j.1 col = _
  rw [h]
  refine Finset.sum_congr rfl fun i _ => ?_
  rw [dif_pos i.2, Mat.transpose]

/-- The hypothesis of `kronTMatmulLoop_eq` is not needed in the model: if some factor has an empty row dimension
the loop returns the zero matrix, and so does the (empty-sum) dense product.  (In PyTorch `res.view(0, -1)` raises,
so this case is a totalisation of the model, not a statement about the library.) -/
theorem kronTMatmulLoop_eq_total {α : Type} [CommSemiring α] {c : Nat} (fs : List (Factor α))
    (Y : Mat α (rowsProd fs) c) :
    kronTMatmulLoop fs Y = Mat.mul (Mat.transpose (kronDense fs)) Y := by
  by_cases hpos : ∀ f ∈ fs, 0 < f.m
  · exact kronTMatmulLoop_eq fs hpos Y
  · have h0 : ∃ f ∈ fs, f.m = 0 := by
      apply Classical.byContradiction
      intro hne
      exact hpos fun f hf => Nat.pos_of_ne_zero fun h => hne ⟨f, hf, h⟩
    funext j col
    rw [mul_apply]
    show (kronTLoop fs (rowsProd fs) _).2 j.1 col = _
    rw [D.kronTLoop_of_empty_factor fs h0]
    have hC := D.rowsProd_of_empty_factor fs h0
    exact (Finset.sum_eq_zero fun i _ => False.elim (by have := i.2; omega)).symm

end LinOp.C01

/-! # from C01/PropsE.lean -/
/-!
C01 — final theorems (group E): batch broadcasting of `matmul` for batch shapes of ARBITRARY rank
(`torch.broadcast_shapes`, `expand`, `_matmul_broadcast_shape`).  All statements quantify over lists of any
length; the proofs are by induction on the shape lists (see `ProofsE.lean`).
-/
namespace LinOp.C01

variable {α : Type}

/-! ## 1. `expand` reads valid members -/

/-- (reversed-order lists) If the shapes `s`, `t` broadcast to `out` and `idx` is a valid multi-index of `out`,
then the multi-indices that `expand` reads from the two operands are valid multi-indices of `s` and of `t`. -/
theorem bcastRev_restrict_inBox {s t out idx : List Nat} (h : bcastRev s t = some out) (hb : InBox out idx) :
    InBox s (restrictRev s idx) ∧ InBox t (restrictRev t idx) :=
  E.bcastRev_restrict_inBox h hb

/-- `InBox` does not depend on the order in which dimensions are listed (both lists reversed together). -/
theorem inBox_reverse_iff {s idx : List Nat} : InBox s.reverse idx.reverse ↔ InBox s idx :=
  E.inBox_reverse_iff

/-- Index-wise characterisation of `InBox`: same rank and every coordinate below the corresponding size. -/
theorem inBox_iff_getElem {s idx : List Nat} :
    InBox s idx ↔ idx.length = s.length ∧ ∀ k (h : k < idx.length) (h' : k < s.length), idx[k] < s[k] :=
  E.inBox_iff_getElem

/-- (user-facing order) If `torch.broadcast_shapes(s, t) = out` and `idx` is a valid batch multi-index of `out`,
then `restrict s idx` / `restrict t idx` (the members that `expand` reads) are valid batch multi-indices of the
operands with batch shapes `s` / `t`. -/
theorem restrict_inBox {s t out idx : List Nat} (h : broadcastShape s t = some out) (hb : InBox out idx) :
    InBox s (restrict s idx) ∧ InBox t (restrict t idx) :=
  E.restrict_inBox h hb

/-! ## 2. batched matmul, member by member -/

/-- Member `idx` of the library's batched matmul is the per-member code path `f` applied to the operand members
`restrict sA idx` and `restrict sB idx`. -/
theorem matmulBroadcast_member {n m c : Nat} (f : Mat α n m → Mat α m c → Mat α n c)
    (sA : List Nat) (A : BMat α n m) (sB : List Nat) (X : BMat α m c) (idx : List Nat) :
    matmulBroadcast f sA A sB X idx = f (A (restrict sA idx)) (X (restrict sB idx)) := rfl

section
variable [Add α] [Mul α] [Zero α]

/-- With the dense product as the per-member path: member `idx` of the batched product is the dense product of
operand members `restrict sA idx` and `restrict sB idx`. -/
theorem matmulBroadcast_mul_member {n m c : Nat}
    (sA : List Nat) (A : BMat α n m) (sB : List Nat) (X : BMat α m c) (idx : List Nat) :
    matmulBroadcast Mat.mul sA A sB X idx = Mat.mul (A (restrict sA idx)) (X (restrict sB idx)) := rfl

/-- Batched matmul refines the dense definition: for every valid member `idx` of the broadcast batch shape, the
result member is the dense product of operand members which are themselves valid members of the operands. -/
theorem matmul_broadcast_refines {n m c : Nat} {sA sB out idx : List Nat} (A : BMat α n m) (X : BMat α m c)
    (h : broadcastShape sA sB = some out) (hb : InBox out idx) :
    matmulBroadcast Mat.mul sA A sB X idx = Mat.mul (A (restrict sA idx)) (X (restrict sB idx)) ∧
      InBox sA (restrict sA idx) ∧ InBox sB (restrict sB idx) :=
  ⟨rfl, restrict_inBox h hb⟩

end

/-! ## 3. shape facts about `torch.broadcast_shapes` -/

/-- A shape broadcasts with itself to itself. -/
theorem broadcastShape_self (s : List Nat) : broadcastShape s s = some s := by
  simp [broadcastShape, E.bcastRev_self]

/-- The empty batch shape broadcasts with anything (left). -/
theorem broadcastShape_nil_left (t : List Nat) : broadcastShape [] t = some t := by
  simp [broadcastShape]

/-- The empty batch shape broadcasts with anything (right). -/
theorem broadcastShape_nil_right (s : List Nat) : broadcastShape s [] = some s := by
  simp [broadcastShape]

/-- Broadcasting is symmetric (including which pairs raise). -/
theorem broadcastShape_comm (s t : List Nat) : broadcastShape s t = broadcastShape t s := by
  simp [broadcastShape, E.bcastRev_comm s.reverse t.reverse]

/-- The broadcast shape has the rank of the higher-rank operand. -/
theorem broadcastShape_length {s t out : List Nat} (h : broadcastShape s t = some out) :
    out.length = max s.length t.length := by
  have := E.bcastRev_length (E.broadcastShape_eq_some.mp h)
  simpa using this

/-- An operand that already has the output batch shape reads its own member (true even with size-1 dimensions,
since then the index entry is `< 1`, i.e. `0`). -/
theorem restrict_of_eq {s idx : List Nat} (h : InBox s idx) : restrict s idx = idx :=
  E.restrict_of_inBox h

/-- Special case of `restrict_of_eq` (the size-1 hypothesis is not needed). -/
theorem restrict_same {s idx : List Nat} (h : InBox s idx) (_h1 : ∀ a ∈ s, a ≠ 1) : restrict s idx = idx :=
  restrict_of_eq h

/-! ## 4. `_matmul_broadcast_shape` raises exactly on incompatible sizes -/

/-- `_matmul_broadcast_shape` raises iff the inner sizes differ or the batch shapes do not broadcast. -/
theorem matmulShape_none_iff (sA : List Nat) (m n : Nat) (sB : List Nat) (n' p : Nat) :
    matmulShape sA m n sB n' p = none ↔ (n ≠ n' ∨ broadcastShape sA sB = none) := by
  unfold matmulShape
  by_cases h : n = n'
  · simp [h]
  · simp [h]

/-- For a 1-D right-hand side, `_matmul_broadcast_shape` raises iff the lengths differ. -/
theorem matmulShapeVec_none_iff (sA : List Nat) (m n p : Nat) : matmulShapeVec sA m n p = none ↔ n ≠ p := by
  unfold matmulShapeVec
  by_cases h : n = p
  · simp [h]
  · simp [h]

/-- With matching inner sizes the result shape is the broadcast batch shape followed by `(m, p)`. -/
theorem matmulShape_some (sA : List Nat) (m n : Nat) (sB : List Nat) (p : Nat) :
    matmulShape sA m n sB n p = (broadcastShape sA sB).map (· ++ [m, p]) := by
  simp [matmulShape]

/-! ## concrete instances -/

example : broadcastShape [2, 1, 3] [4, 1] = some [2, 4, 3] := by decide
example : broadcastShape [2, 3] [4, 1, 1] = some [4, 2, 3] := by decide
example : broadcastShape [2, 3] [4, 2] = none := by decide
example : broadcastShape [0, 1] [1, 5] = some [0, 5] := by decide
example : restrict [4, 1] [1, 3, 2] = [3, 0] := by decide
example : restrict [2, 1, 3] [1, 3, 2] = [1, 0, 2] := by decide
example : matmulShape [2, 1, 3] 5 6 [4, 1] 6 7 = some [2, 4, 3, 5, 7] := by decide
example : matmulShape [2, 1, 3] 5 6 [4, 1] 8 7 = none := by decide

end LinOp.C01

/-! # part F — `BlockLinearOperator.__init__`: the block dimension is MOVED (not swapped) to the last batch position -/
namespace LinOp.C01

/-- The permutation `(*range(p), *range(p+1, nb), p)` the constructor hands to `_permute_batch` is a permutation of
the `nb` batch positions, for every number of batch dims and every block position. -/
theorem blockMove_is_perm {nb p : Nat} (h : p < nb) : (blockMovePerm nb p).Perm (List.range nb) :=
  blockMovePerm_perm h

/-- It is the list of all positions with `p` removed — the other dims in their original order — followed by `p`. -/
theorem blockMove_eq_erase_then_block {nb p : Nat} (h : p < nb) :
    blockMovePerm nb p = (List.range nb).eraseIdx p ++ [p] :=
  blockMovePerm_eq_eraseIdx h

/-- Hence the base's batch shape after the constructor is the original batch shape with the block dim removed
(all other dims in order), followed by the block dim: the move keeps the remaining batch dims in order. -/
theorem blockMove_keeps_order (shape : List Nat) {p : Nat} (h : p < shape.length) :
    permuteShape shape (blockMovePerm shape.length p) = shape.eraseIdx p ++ [shape[p]] :=
  permuteShape_blockMove shape h

/-- A swap of the block position with the last batch position (`transpose(block_dim, -3)`) is a different
permutation as soon as the block dim is two or more positions away from the end (smallest case: 3 batch dims,
block dim first) — it transposes the remaining batch dims. -/
theorem blockSwap_differs_nonadjacent : blockSwapPerm 3 0 ≠ blockMovePerm 3 0 ∧ blockSwapPerm 4 1 ≠ blockMovePerm 4 1 := by
  decide

/-- …while it coincides with the move in the adjacent cases the test-suite uses (checked for 2 and 3 batch dims). -/
theorem blockSwap_same_adjacent : blockSwapPerm 2 0 = blockMovePerm 2 0 ∧ blockSwapPerm 3 1 = blockMovePerm 3 1 ∧
    blockSwapPerm 3 2 = blockMovePerm 3 2 := by
  decide

end LinOp.C01

/-! # part H — operator TREES of arbitrary depth (`LinOp/C01/OpTree.lean`): structural induction over the nesting grammar
dense | diag | toeplitz | sum | matmul | constMul | addedDiag | root | transpose | kron | blockDiag | blockInter | sumBatch |
catRows | catCols | masked | interp, where every sub-operator is again a tree whose own structured `_matmul`/`_t_matmul`
is what the outer class calls. -/
namespace LinOp.C01
open LinOp
section treeH
variable {α : Type} [CommSemiring α]

/-- The structured evaluator of every tree denotes the tree's dense semantics: by structural induction, using the
one-level theorem of the outermost class on the dense semantics of the sub-trees. -/
theorem eval_tree_denotes : ∀ {n m : Nat} (t : Op α n m), t.WF → t.eval.Denotes t.denseSem := by
  intro n m t
  induction t with
  | dense A => exact fun _ => ofDense_denotes A
  | diag d =>
    intro _
    refine ⟨fun c X => diag_matmul d X, fun c Y => ?_⟩
    show diagMatmul d Y = Mat.mul (Mat.transpose (Mat.diag d)) Y
    rw [diag_symm]; exact diag_matmul d Y
  | toeplitz col =>
    intro _
    refine ⟨fun c X => toeplitz_circulant_embedding col col X, fun c Y => ?_⟩
    show toeplitzMatmul col col Y = Mat.mul (Mat.transpose (toeplitzDense col col)) Y
    rw [← toeplitz_symm_transpose]; exact toeplitz_circulant_embedding col col Y
  | sum a b iha ihb =>
    intro h
    have iha := iha h.1
    have ihb := ihb h.2
    refine ⟨fun c X => ?_, fun c Y => ?_⟩
    · show (fun i col => a.eval.mm X i col + b.eval.mm X i col) = _
      rw [iha.1, ihb.1]; exact sum_matmul _ _ X
    · show (fun i col => a.eval.tmm Y i col + b.eval.tmm Y i col) = _
      rw [iha.2, ihb.2]; exact sum_matmul _ _ Y
  | matmul a b iha ihb =>
    intro h
    have iha := iha h.1
    have ihb := ihb h.2
    refine ⟨fun c X => ?_, fun c Y => ?_⟩
    · show a.eval.mm (b.eval.mm X) = _
      rw [ihb.1, iha.1]; exact (C.mul_assoc _ _ X).symm
    · show b.eval.tmm (a.eval.tmm Y) = Mat.mul (Mat.transpose (Mat.mul a.denseSem b.denseSem)) Y
      rw [iha.2, ihb.2, matmulOp_transpose]; exact (C.mul_assoc _ _ Y).symm
  | constMul a k iha =>
    intro h
    have iha := iha h
    refine ⟨fun c X => ?_, fun c Y => ?_⟩
    · show (fun i col => a.eval.mm X i col * k) = _
      rw [iha.1]; exact constMul_matmul _ k X
    · show (fun i col => a.eval.tmm Y i col * k) = _
      rw [iha.2]; exact constMul_matmul _ k Y
  | addedDiag a d iha =>
    intro h
    have iha := iha h
    refine ⟨fun c X => ?_, fun c Y => ?_⟩
    · show (fun i col => a.eval.mm X i col + d i * X i col) = _
      rw [iha.1]; exact addedDiag_matmul _ d X
    · show (fun i col => a.eval.tmm Y i col + d i * Y i col) = Mat.mul (Mat.transpose (Mat.add a.denseSem (Mat.diag d))) Y
      rw [iha.2, sum_transpose, diag_symm]; exact addedDiag_matmul _ d Y
  | root a iha =>
    intro h
    have iha := iha h
    have h : ∀ c (X : Mat α _ c), a.eval.mm (a.eval.tmm X) = Mat.mul (rootDense a.denseSem) X := by
      intro c X; rw [iha.2, iha.1]; exact root_matmul _ X
    refine ⟨h, fun c Y => ?_⟩
    show a.eval.mm (a.eval.tmm Y) = Mat.mul (Mat.transpose (rootDense a.denseSem)) Y
    rw [root_symm]; exact h c Y
  | transpose a iha => exact fun h => ⟨(iha h).2, (iha h).1⟩
  | kron a b iha ihb =>
    intro h
    have iha := iha h.1
    have ihb := ihb h.2
    refine ⟨fun c X => kron_two_step _ _ _ _ iha.1 ihb.1 X, fun c Y => ?_⟩
    show _ = Mat.mul (Mat.transpose (kron2Dense a.denseSem b.denseSem)) Y
    rw [kron2Dense_transpose]
    exact kron_two_step _ _ _ _ iha.2 ihb.2 Y
  | blockDiag blocks ih =>
    intro h
    have ih := fun b => ih b (h b)
    refine ⟨fun c X => ?_, fun c Y => ?_⟩
    · show blockDiagRemove (fun b => (blocks b).eval.mm (blockDiagAdd X b)) = _
      have : (fun b => (blocks b).eval.mm (blockDiagAdd X b)) = bmm (fun b => (blocks b).denseSem) (blockDiagAdd X) := by
        funext b; exact (ih b).1 c _
      rw [this]; exact blockDiag_matmul _ X
    · show blockDiagRemove (fun b => (blocks b).eval.tmm (blockDiagAdd Y b)) = Mat.mul (Mat.transpose (blockDiagDense _)) Y
      have : (fun b => (blocks b).eval.tmm (blockDiagAdd Y b)) = bmm (blockTranspose fun b => (blocks b).denseSem) (blockDiagAdd Y) := by
        funext b; exact (ih b).2 c _
      rw [this, ← blockDiag_transpose]; exact blockDiag_matmul _ Y
  | blockInter blocks ih =>
    intro h
    have ih := fun b => ih b (h b)
    refine ⟨fun c X => ?_, fun c Y => ?_⟩
    · show blockInterRemove (fun b => (blocks b).eval.mm (blockInterAdd X b)) = _
      have : (fun b => (blocks b).eval.mm (blockInterAdd X b)) = bmm (fun b => (blocks b).denseSem) (blockInterAdd X) := by
        funext b; exact (ih b).1 c _
      rw [this]; exact blockInter_matmul _ X
    · show blockInterRemove (fun b => (blocks b).eval.tmm (blockInterAdd Y b)) = Mat.mul (Mat.transpose (blockInterDense _)) Y
      have : (fun b => (blocks b).eval.tmm (blockInterAdd Y b)) = bmm (blockTranspose fun b => (blocks b).denseSem) (blockInterAdd Y) := by
        funext b; exact (ih b).2 c _
      rw [this, ← blockInter_transpose]; exact blockInter_matmul _ Y
  | sumBatch blocks ih =>
    intro h
    have ih := fun b => ih b (h b)
    refine ⟨fun c X => ?_, fun c Y => ?_⟩
    · show sumBatchRemove (fun b => (blocks b).eval.mm X) = _
      have : (fun b => (blocks b).eval.mm X) = bmm (fun b => (blocks b).denseSem) (sumBatchAdd X) := by
        funext b; exact (ih b).1 c _
      rw [this]; exact sumBatch_matmul _ X
    · show sumBatchRemove (fun b => (blocks b).eval.tmm Y) = Mat.mul (Mat.transpose (sumBatchDense _)) Y
      have : (fun b => (blocks b).eval.tmm Y) = bmm (blockTranspose fun b => (blocks b).denseSem) (sumBatchAdd Y) := by
        funext b; exact (ih b).2 c _
      rw [this]; exact sumBatch_matmul _ Y
  | catRows a b iha ihb =>
    intro h
    have iha := iha h.1
    have ihb := ihb h.2
    refine ⟨fun c X => ?_, fun c Y => ?_⟩
    · show catRows (a.eval.mm X) (b.eval.mm X) = _
      rw [iha.1, ihb.1]; exact cat_matmul_rows _ _ X
    · show (fun i col => a.eval.tmm (topRows Y) i col + b.eval.tmm (botRows Y) i col) = Mat.mul (Mat.transpose (catRows _ _)) Y
      rw [iha.2, ihb.2, catRows_transpose, catCols_mul]
  | catCols a b iha ihb =>
    intro h
    have iha := iha h.1
    have ihb := ihb h.2
    refine ⟨fun c X => ?_, fun c Y => ?_⟩
    · show (fun i col => a.eval.mm (topRows X) i col + b.eval.mm (botRows X) i col) = _
      rw [iha.1, ihb.1]; exact (catCols_mul _ _ X).symm
    · show catRows (a.eval.tmm Y) (b.eval.tmm Y) = Mat.mul (Mat.transpose (catCols _ _)) Y
      rw [iha.2, ihb.2, catCols_transpose]; exact cat_matmul_rows _ _ Y
  | masked a rmask cmask iha =>
    intro h
    have iha := iha h
    refine ⟨fun c X => ?_, fun c Y => ?_⟩
    · show maskRows rmask (a.eval.mm (maskExpand cmask X)) = _
      rw [iha.1]; exact masked_matmul _ rmask cmask X
    · show maskRows cmask (a.eval.tmm (maskExpand rmask Y)) = Mat.mul (Mat.transpose (maskedDense _ rmask cmask)) Y
      rw [iha.2, ← masked_transpose]; exact masked_matmul _ cmask rmask Y
  | interp base lidx lval ridx rval ih =>
    intro h
    have ih := ih h
    refine ⟨fun c X => ?_, fun c Y => ?_⟩
    · show leftInterp lidx lval (base.eval.mm (leftTInterp ridx rval X)) = _
      rw [ih.1]; exact interp_matmul _ lidx lval ridx rval X
    · show leftInterp ridx rval (base.eval.tmm (leftTInterp lidx lval Y)) = Mat.mul (Mat.transpose (interpDense _ lidx lval ridx rval)) Y
      rw [ih.2, ← interp_transpose]; exact interp_matmul _ ridx rval lidx lval Y
  | perm p inv =>
    intro h
    have h2 := perm_left_inv_of_right_inv p inv h
    refine ⟨fun c X => perm_matmul p X, fun c Y => ?_⟩
    show permMatmul inv Y = Mat.mul (Mat.transpose (permDense p)) Y
    rw [← perm_transpose p inv h h2]; exact perm_matmul inv Y
  | transposePerm =>
    intro _
    refine ⟨fun c X => transposePerm_matmul X, fun c Y => ?_⟩
    show transposePermMatmul Y = Mat.mul (Mat.transpose transposePermDense) Y
    rw [transposePerm_symm]; exact transposePerm_matmul Y
  | chol r upper ih =>
    intro h
    have ih := ih h
    have key : ∀ c (X : Mat α _ c), (if upper then r.eval.tmm (r.eval.mm X) else r.eval.mm (r.eval.tmm X)) =
        Mat.mul (cholDense r.denseSem upper) X := by
      intro c X
      cases upper
      · rw [if_neg (by decide), ih.2, ih.1]; exact chol_lower_matmul _ X
      · rw [if_pos rfl, ih.1, ih.2]; exact chol_upper_matmul _ X
    refine ⟨key, fun c Y => ?_⟩
    show _ = Mat.mul (Mat.transpose (cholDense r.denseSem upper)) Y
    rw [chol_symm]; exact key c Y
  | @mulRoots n' k k' l r ihl ihr =>
    intro h
    have ihl := ihl h.1
    have ihr := ihr h.2
    have key : ∀ c (X : Mat α n' c), mulRootsWith (toDenseDefault l.eval) (fun Z => r.eval.mm (r.eval.tmm Z)) X =
        Mat.mul (hadamard (rootDense l.denseSem) (rootDense r.denseSem)) X := by
      intro c X
      have hr : (fun Z : Mat α n' (k * c) => r.eval.mm (r.eval.tmm Z)) = fun Z => Mat.mul (rootDense r.denseSem) Z := by
        funext Z; rw [ihr.2, ihr.1]; exact root_matmul _ Z
      rw [toDense_default l.eval l.denseSem ihl, hr, mulRootsWith_eq]
      exact mul_matmul_roots _ _ X
    refine ⟨key, fun c Y => ?_⟩
    show _ = Mat.mul (Mat.transpose (hadamard (rootDense l.denseSem) (rootDense r.denseSem))) Y
    rw [hadamard_symm _ _ (root_symm _) (root_symm _)]; exact key c Y
  | lowRankRoot a iha =>
    intro h
    have iha := iha h
    have hk : ∀ c (X : Mat α _ c), a.eval.mm (a.eval.tmm X) = Mat.mul (rootDense a.denseSem) X := by
      intro c X; rw [iha.2, iha.1]; exact root_matmul _ X
    refine ⟨hk, fun c Y => ?_⟩
    show a.eval.mm (a.eval.tmm Y) = Mat.mul (Mat.transpose (rootDense a.denseSem)) Y
    rw [root_symm]; exact hk c Y
  | identity =>
    intro _
    refine ⟨fun c X => (one_mul' X).symm, fun c Y => ?_⟩
    show Y = Mat.mul (Mat.transpose Mat.one) Y
    rw [transpose_one]; exact (one_mul' Y).symm
  | constDiag k =>
    intro _
    refine ⟨fun c X => diag_matmul _ X, fun c Y => ?_⟩
    show diagMatmul (fun _ => k) Y = Mat.mul (Mat.transpose (Mat.diag fun _ => k)) Y
    rw [diag_symm]; exact diag_matmul _ Y
  | zero =>
    intro _
    exact ⟨fun c X => (zero_mul' X).symm, fun c Y => (zero_mul' Y).symm⟩
  | kernel K Kt =>
    intro h
    refine ⟨fun c X => rfl, fun c Y => ?_⟩
    show Mat.mul Kt Y = Mat.mul (Mat.transpose K) Y
    rw [show Kt = Mat.transpose K from h]


/-- **Tree refinement** — for every tree `t` of any depth and every right-hand side, the structured `_matmul`
(outer class calling the structured routines of its sub-operators, recursively) multiplies by the dense semantics. -/
theorem eval_tree_refines {n m c : Nat} (t : Op α n m) (h : t.WF) (X : Mat α m c) : t.eval.mm X = Mat.mul t.denseSem X :=
  (eval_tree_denotes t h).1 c X

/-- The same for `_t_matmul`: it multiplies by the transpose of the dense semantics. -/
theorem eval_tree_refines_t {n m c : Nat} (t : Op α n m) (h : t.WF) (Y : Mat α n c) :
    t.eval.tmm Y = Mat.mul (Mat.transpose t.denseSem) Y :=
  (eval_tree_denotes t h).2 c Y

/-- `toDense (structured t) = denseSem t`: the base-class default `to_dense` (multiply the identity through the
structured code, through the transposed operator when there are fewer rows than columns) of any tree is its dense semantics. -/
theorem toDense_tree {n m : Nat} (t : Op α n m) (h : t.WF) : t.toDense = t.denseSem :=
  toDense_default t.eval t.denseSem (eval_tree_denotes t h)

/-- `x @ t` (base-class `rmatmul`, double transpose through the structured code) of any tree. -/
theorem rmatmul_tree {n m p : Nat} (t : Op α n m) (h : t.WF) (Y : Mat α p n) : rmatmul t.eval Y = Mat.mul Y t.denseSem :=
  rmatmul_refines t.eval t.denseSem Y (eval_tree_denotes t h)

/-- transposing a tree transposes its dense semantics, and `mT.mT` is the identity on semantics. -/
theorem transpose_tree {n m : Nat} (t : Op α n m) : (Op.transpose t).denseSem = Mat.transpose t.denseSem := rfl

theorem mT_mT_tree {n m : Nat} (t : Op α n m) : (Op.transpose (Op.transpose t)).denseSem = t.denseSem := rfl

/-! ### the constructors added to the grammar -/

/-- **Ill-formed permutation pair** (`validate_args=False`): `_matmul` still multiplies by the dense matrix of `perm`, and
the transposed operator multiplies by the dense matrix of `inv_perm` — whatever `inv_perm` is. -/
theorem perm_tree_any {n c : Nat} (p inv : Fin n → Fin n) (X : Mat α n c) :
    (Op.perm (α := α) p inv).eval.mm X = Mat.mul (permDense p) X ∧
      (Op.perm (α := α) p inv).eval.tmm X = Mat.mul (permDense inv) X :=
  ⟨perm_matmul p X, perm_matmul inv X⟩

/-- … and that matrix is the transpose of `P` EXACTLY when the pair passes the constructor's validation
(`perm[inv_perm] = arange`): the guard of `eval_tree_denotes` is necessary, not only sufficient. -/
theorem perm_transpose_iff [Nontrivial α] {n : Nat} (p inv : Fin n → Fin n) :
    permDense inv = Mat.transpose (permDense (α := α) p) ↔ ∀ i, p (inv i) = i := by
  constructor
  · intro h i
    have e := congrFun (congrFun h i) (inv i)
    simp only [permDense, Mat.transpose, if_true] at e
    by_contra hne
    rw [if_neg hne] at e
    exact one_ne_zero e
  · intro h
    exact perm_transpose p inv h (perm_left_inv_of_right_inv p inv h)

/-- `LowRankRootAddedDiagLinearOperator` (inherits the addcmul `_matmul` of `AddedDiagLinearOperator`) over any sub-tree:
structured product = `(A Aᵀ + diag d) X`, both sides. -/
theorem lowRankRootAddedDiag_tree {n k : Nat} (a : Op α n k) (d : Fin n → α) (h : a.WF) :
    (Op.lowRankRootAddedDiag a d).eval.Denotes (Mat.add (rootDense a.denseSem) (Mat.diag d)) :=
  eval_tree_denotes (Op.lowRankRootAddedDiag a d) h

/-- `KroneckerProductAddedDiagLinearOperator` over any two sub-trees: `(A ⊗ B + diag d) X`. -/
theorem kronAddedDiag_tree {m p : Nat} (a : Op α m m) (b : Op α p p) (d : Fin (m * p) → α) (ha : a.WF) (hb : b.WF) :
    (Op.kronAddedDiag a b d).eval.Denotes (Mat.add (kron2Dense a.denseSem b.denseSem) (Mat.diag d)) :=
  eval_tree_denotes (Op.kronAddedDiag a b d) ⟨ha, hb⟩

/-! ### 1-D operands (promotion `unsqueeze(-1)` … `squeeze(-1)`), value and shape -/

/-- `t @ x` with a 1-D `x`: the matrix–vector product with the dense semantics. -/
theorem matmulVec_tree {n m : Nat} (t : Op α n m) (h : t.WF) (x : Fin m → α) :
    matmulVec t.eval x = fun i => ∑ j, t.denseSem i j * x j := by
  funext i
  simp only [matmulVec, vecOfCol, eval_tree_refines t h, mul_apply, colOfVec]

/-- `t.mT @ y` / `t._t_matmul(y)` with a 1-D `y`. -/
theorem tmatmulVec_tree {n m : Nat} (t : Op α n m) (h : t.WF) (y : Fin n → α) :
    tmatmulVec t.eval y = fun j => ∑ i, t.denseSem i j * y i := by
  funext j
  simp only [tmatmulVec, vecOfCol, eval_tree_refines_t t h, mul_apply, colOfVec, Mat.transpose]

/-- `y @ t` with a 1-D `y` (`rmatmul` → `self.mT.matmul(other)`): the vector–matrix product. -/
theorem rmatmulVec_tree {n m : Nat} (t : Op α n m) (h : t.WF) (y : Fin n → α) :
    rmatmulVec t.eval y = fun j => ∑ i, y i * t.denseSem i j :=
  rmatmulVec_refines t.eval t.denseSem y (eval_tree_denotes t h)

/-- the 1-D `rmatmul` is the 1-D transposed product (the code path is literally the same). -/
theorem rmatmulVec_eq_tmatmulVec {n m : Nat} (op : UserOp α n m) (y : Fin n → α) : rmatmulVec op y = tmatmulVec op y := rfl

/-- **Shapes.**  `op @ x`: a 1-D rhs of the right length gives `(*batch, n)`; an `(*sB, m, c)` rhs gives
`(*broadcast(sA, sB), n, c)`; wrong inner size or non-broadcastable batch shapes raise. -/
theorem matmulResultShape_vec (sA : List Nat) (n m : Nat) : matmulResultShape sA n m [m] = some (sA ++ [n]) := by
  simp [matmulResultShape, matmulShapeVec]

theorem matmulResultShape_mat (sA sB : List Nat) (n m c : Nat) :
    matmulResultShape sA n m (sB ++ [m, c]) = (broadcastShape sA sB).map (· ++ [n, c]) := by
  have hl : (sB ++ [m, c]).length = sB.length + 2 := by simp
  cases sB with
  | nil => simp [matmulResultShape, matmulShape]
  | cons b sB =>
    simp only [List.cons_append, matmulResultShape]
    simp [matmulShape, List.getD_eq_getElem?_getD]

/-- `x @ op` (`rmatmul`): 1-D `x` of length `n` gives `(*batch, m)`; `x = (*sB, c, n)` gives `(*broadcast(sA, sB), c, m)` —
the shape `torch.matmul(x, dense)` has. -/
theorem rmatmulResultShape_vec (sA : List Nat) (n m : Nat) : rmatmulResultShape sA n m [n] = some (sA ++ [m]) := by
  simp [rmatmulResultShape, matmulShapeVec]

theorem rmatmulResultShape_mat (sA sB : List Nat) (n m c : Nat) :
    rmatmulResultShape sA n m (sB ++ [c, n]) = (broadcastShape sA sB).map (· ++ [c, m]) := by
  cases sB with
  | nil =>
    simp [rmatmulResultShape, matmulShape, broadcastShape_nil_right, List.getD_eq_getElem?_getD]
  | cons b sB =>
    simp only [List.cons_append, rmatmulResultShape]
    simp only [matmulShape, List.getD_eq_getElem?_getD]
    cases h : broadcastShape sA (b :: sB) <;> simp [h]

end treeH

/-- Non-vacuity: a depth-4 tree over `Int` — `Sum(Kronecker(Masked(BlockDiag(dense…)), Diag) , ConstantMul(Root(CatRows(…))))`-like
nesting typechecks, and the theorem applies to it. -/
example : ∃ (t : Op Int (2 * 2) (2 * 2)), 3 ≤ t.depth ∧ ∀ (X : Mat Int (2 * 2) 1), t.eval.mm X = Mat.mul t.denseSem X :=
  ⟨Op.sum (Op.kron (Op.transpose (Op.matmul (Op.dense fun i j => (i.1 : Int) + 2 * j.1) (Op.diag fun i => (i.1 : Int) + 1)))
      (Op.toeplitz fun i => (3 : Int) - i.1))
    (Op.constMul (Op.root (Op.catRows (Op.dense (n := 2) (m := 3) (fun _ j => (j.1 : Int))) (Op.dense (n := 2) (m := 3) (fun i j => (i.1 : Int) - j.1)))) 2),
   by decide, fun X => eval_tree_refines _ (by simp [Op.WF]) X⟩

end LinOp.C01

/-! # part G — batch broadcasting of the structured code: structured matmul of broadcast operands = pointwise dense
product per broadcast batch index (batch shapes of arbitrary rank; `LinOp/C01/BatchModel.lean`) -/
namespace LinOp.C01
open LinOp
section batchG
variable {α : Type} [CommSemiring α]

/-- `torch.broadcast_shapes` with a common trailing block dimension: `(sA ++ [k])` against `(sB ++ [k])` broadcasts to
`broadcast(sA, sB) ++ [k]` (and fails exactly when `sA`, `sB` do not broadcast). -/
theorem broadcastShape_append_block (sA sB : List Nat) (k : Nat) :
    broadcastShape (sA ++ [k]) (sB ++ [k]) = (broadcastShape sA sB).map (· ++ [k]) :=
  broadcastShape_append_block' sA sB k

/-- `expand` with a trailing block dimension reads block `b` of the restricted member (also for `k = 1`). -/
theorem restrict_append_block (s idx : List Nat) {k b : Nat} (hb : b < k) :
    restrict (s ++ [k]) (idx ++ [b]) = restrict s idx ++ [b] :=
  restrict_append_block' s idx hb

theorem inBox_append_block (s idx : List Nat) (k b : Nat) : InBox (s ++ [k]) (idx ++ [b]) ↔ InBox s idx ∧ b < k :=
  inBox_append_block' s idx k b

/-- **BlockDiag with batch dims** (base batch `sA ++ [k]`, the last batch dim IS the block dim; rhs batch `sB`): member
`idx` of `_add_batch_dim → base batched matmul (broadcasting sA++[k] against sB++[k]) → _remove_batch_dim` is the dense
block-diagonal matrix of operator member `restrict sA idx` times rhs member `restrict sB idx`; both are valid members. -/
theorem blockDiag_broadcast_refines {m n c : Nat} (k : Nat) (sA sB out idx : List Nat) (base : BMat α m n)
    (X : BMat α (k * n) c) (h : broadcastShape sA sB = some out) (hb : InBox out idx) :
    blockDiagMatmulB k sA base sB X idx = Mat.mul (blockDiagDenseB k base (restrict sA idx)) (X (restrict sB idx)) ∧
      InBox sA (restrict sA idx) ∧ InBox sB (restrict sB idx) := by
  refine ⟨?_, restrict_inBox h hb⟩
  have : (fun b : Fin k => matmulBroadcast Mat.mul (sA ++ [k]) base (sB ++ [k]) (addBlockDiagB k X) (idx ++ [b.1])) =
      bmm (fun b : Fin k => base (restrict sA idx ++ [b.1])) (blockDiagAdd (X (restrict sB idx))) := by
    funext b
    simp only [matmulBroadcast, expandB, restrict_append_block' _ _ b.2, addBlockDiagB, bmm, List.getLastD_concat,
      List.dropLast_concat, b.2, dite_true]
  simp only [blockDiagMatmulB, removeBlockDiagB, this]
  exact blockDiag_matmul _ _

/-- **BlockInterleaved with batch dims**, same statement with the interleaved layout. -/
theorem blockInter_broadcast_refines {m n c : Nat} (k : Nat) (sA sB out idx : List Nat) (base : BMat α m n)
    (X : BMat α (n * k) c) (h : broadcastShape sA sB = some out) (hb : InBox out idx) :
    blockInterMatmulB k sA base sB X idx = Mat.mul (blockInterDenseB k base (restrict sA idx)) (X (restrict sB idx)) ∧
      InBox sA (restrict sA idx) ∧ InBox sB (restrict sB idx) := by
  refine ⟨?_, restrict_inBox h hb⟩
  have : (fun b : Fin k => matmulBroadcast Mat.mul (sA ++ [k]) base (sB ++ [k]) (addBlockInterB k X) (idx ++ [b.1])) =
      bmm (fun b : Fin k => base (restrict sA idx ++ [b.1])) (blockInterAdd (X (restrict sB idx))) := by
    funext b
    simp only [matmulBroadcast, expandB, restrict_append_block' _ _ b.2, addBlockInterB, bmm, List.getLastD_concat,
      List.dropLast_concat, b.2, dite_true]
  simp only [blockInterMatmulB, removeBlockInterB, this]
  exact blockInter_matmul _ _

/-- **SumBatch with batch dims**: the rhs is expanded over the summed dimension, the base multiplies per member, the
results are summed over the block dimension: member `idx` is (Σ_b base[restrict sA idx ++ [b]]) · X[restrict sB idx]. -/
theorem sumBatch_broadcast_refines {m n c : Nat} (k : Nat) (sA sB out idx : List Nat) (base : BMat α m n)
    (X : BMat α n c) (h : broadcastShape sA sB = some out) (hb : InBox out idx) :
    sumBatchMatmulB k sA base sB X idx = Mat.mul (sumBatchDenseB k base (restrict sA idx)) (X (restrict sB idx)) ∧
      InBox sA (restrict sA idx) ∧ InBox sB (restrict sB idx) := by
  refine ⟨?_, restrict_inBox h hb⟩
  have : (fun b : Fin k => matmulBroadcast Mat.mul (sA ++ [k]) base (sB ++ [k]) (addSumBatchB X) (idx ++ [b.1])) =
      bmm (fun b : Fin k => base (restrict sA idx ++ [b.1])) (sumBatchAdd (X (restrict sB idx))) := by
    funext b
    simp only [matmulBroadcast, expandB, restrict_append_block' _ _ b.2, addSumBatchB, bmm, sumBatchAdd,
      List.dropLast_concat]
  simp only [sumBatchMatmulB, removeSumBatchB, this]
  exact sumBatch_matmul _ _

/-- **Any batched operator tree** (in particular a Kronecker product of any number of nested, batch-expanded factors,
BatchRepeat-free nestings of all classes of the grammar) times a broadcast rhs: member `idx` of the structured result is
the dense semantics of operator member `restrict sA idx` times rhs member `restrict sB idx`. -/
theorem tree_broadcast_refines {n m c : Nat} (sA sB out idx : List Nat) (t : List Nat → Op α n m) (X : BMat α m c)
    (hwf : ∀ i, (t i).WF) (h : broadcastShape sA sB = some out) (hb : InBox out idx) :
    treeMatmulB sA t sB X idx = Mat.mul ((t (restrict sA idx)).denseSem) (X (restrict sB idx)) ∧
      InBox sA (restrict sA idx) ∧ InBox sB (restrict sB idx) :=
  ⟨eval_tree_refines _ (hwf _) _, restrict_inBox h hb⟩

/-- **Batched tree × broadcasting operand, all three products at once** (composition of `eval_tree_denotes` with the
broadcasting lemmas): for a batched operator tree with batch shape `sA` and an operand with batch shape `sB` — either may
have size-1 dims or lack leading dims — member `idx` of `op @ X`, of `op.mT @ Y` and of `Z @ op` is the dense product of the
operator member `restrict sA idx` with the operand member `restrict sB idx`, and both are valid members. -/
theorem tree_broadcast_refines_all {n m c : Nat} (sA sB out idx : List Nat) (t : List Nat → Op α n m)
    (X : BMat α m c) (Y : BMat α n c) (Z : BMat α c n)
    (hwf : ∀ i, (t i).WF) (h : broadcastShape sA sB = some out) (hb : InBox out idx) :
    treeMatmulB sA t sB X idx = Mat.mul ((t (restrict sA idx)).denseSem) (X (restrict sB idx)) ∧
    treeTMatmulB sA t sB Y idx = Mat.mul (Mat.transpose (t (restrict sA idx)).denseSem) (Y (restrict sB idx)) ∧
    treeRmatmulB sA t sB Z idx = Mat.mul (Z (restrict sB idx)) ((t (restrict sA idx)).denseSem) ∧
      InBox sA (restrict sA idx) ∧ InBox sB (restrict sB idx) :=
  ⟨eval_tree_refines _ (hwf _) _, eval_tree_refines_t _ (hwf _) _, rmatmul_tree _ (hwf _) _, restrict_inBox h hb⟩

/-- Kronecker instance of the previous theorem: batched factors `A`, `B` (expanded to the operator batch shape `sA`),
rhs batch `sB`: member `idx` of the view/transpose loop result is `(A[i] ⊗ B[i]) · X[j]` with `i = restrict sA idx`,
`j = restrict sB idx`. -/
theorem kron_broadcast_refines {m n p q c : Nat} (sA sB out idx : List Nat) (A : BMat α m n) (B : BMat α p q)
    (X : BMat α (n * q) c) (h : broadcastShape sA sB = some out) (hb : InBox out idx) :
    treeMatmulB sA (fun i => Op.kron (Op.dense (A i)) (Op.dense (B i))) sB X idx =
        Mat.mul (kron2Dense (A (restrict sA idx)) (B (restrict sA idx))) (X (restrict sB idx)) ∧
      InBox sA (restrict sA idx) ∧ InBox sB (restrict sB idx) :=
  tree_broadcast_refines sA sB out idx _ X (fun _ => ⟨trivial, trivial⟩) h hb

/-- **BatchRepeat in batch-index form**: operator batch `[r*b]`, member `ρ*b + β` is `base[β]`; the column-folding code
returns at that member `base[β] · X[ρ*b+β]`. -/
theorem batchRepeat_batch_refines {r b n c : Nat} (B : Ten3 α b n n) (X : Ten3 α (r * b) n c) (ρ : Fin r) (β : Fin b) :
    batchRepeatMatmul B X (pairIdx ρ β) = Mat.mul (batchRepeatDense (r := r) B (pairIdx ρ β)) (X (pairIdx ρ β)) :=
  batchRepeat_matmul B X _

/-- **Cat along a batch dimension** (`cat_dim < -2`; rhs already expanded to the output batch shape): every member of
narrow → per-operand matmul → cat equals the member of the concatenated dense tensor times the rhs member, for every
batch position `d` and every index whose entry `d` is within the concatenated size. -/
theorem catBatch_refines {n m c : Nat} (d a₁ : Nat) (A₁ A₂ : BMat α n m) (X : BMat α m c) (idx : List Nat)
    (hd : d < idx.length) :
    catBatchMatmul d a₁ A₁ A₂ X idx = Mat.mul (catBatchDense d a₁ A₁ A₂ idx) (X idx) := by
  simp only [catBatchMatmul, catBatchDense]
  split
  · rfl
  · rename_i hlt
    have h1 : ((idx.set d (idx.getD d 0 - a₁)).set d ((idx.set d (idx.getD d 0 - a₁)).getD d 0 + a₁)) = idx := by
      apply List.ext_getElem
      · simp
      · intro i h1 h2
        by_cases hi : d = i
        · subst hi
          simp [List.getD_eq_getElem?_getD, hd] at hlt ⊢
          omega
        · simp [hi]
    rw [h1]

end batchG

/-- Non-vacuity of the hypotheses: `[2,1]` against `[3]` broadcasts to `[2,3]`; with block dim `k = 2` the base shapes
`[2,1,2]`/`[3,2]` broadcast to `[2,3,2]`, and output member `[1,2]` reads operator member `[1,0]`, rhs member `[2]`. -/
example : broadcastShape [2, 1] [3] = some [2, 3] ∧ broadcastShape ([2, 1] ++ [2]) ([3] ++ [2]) = some [2, 3, 2] ∧
    InBox [2, 3] [1, 2] ∧ restrict [2, 1] [1, 2] = [1, 0] ∧ restrict [3] [1, 2] = [2] :=
  ⟨by decide, by decide, by simp [InBox], by decide, by decide⟩

/-- … and with the roles exchanged: the OPERATOR lacks a leading dim and has a size-1 dim (`[1,3]` against `[2,4,1]`):
output member `[1,3,2]` reads operator member `[0,2]` and rhs member `[1,3,0]`. -/
example : broadcastShape [1, 3] [2, 4, 1] = some [2, 4, 3] ∧ InBox [2, 4, 3] [1, 3, 2] ∧
    restrict [1, 3] [1, 3, 2] = [0, 2] ∧ restrict [2, 4, 1] [1, 3, 2] = [1, 3, 0] :=
  ⟨by decide, by simp [InBox], by decide, by decide⟩

/-- Non-vacuity of `Op.WF` on the new constructors: a tree containing a valid permutation pair, a symmetric kernel pair, Chol,
Mul over roots, LowRankRootAddedDiag, identity / constant-diagonal / zero leaves is well-formed. -/
example : (Op.sum (Op.matmul (Op.perm (α := Int) (n := 3) (fun i => ⟨(i.1 + 1) % 3, Nat.mod_lt _ (by decide)⟩)
      (fun i => ⟨(i.1 + 2) % 3, Nat.mod_lt _ (by decide)⟩)) (Op.chol (Op.dense fun i j => if j.1 ≤ i.1 then 1 else 0) true))
    (Op.sum (Op.mulRoots (Op.kernel (fun (i : Fin 3) (j : Fin 2) => (i.1 : Int) * j.1) (fun j i => (i.1 : Int) * j.1)) (Op.dense (m := 1) fun i _ => (i.1 : Int)))
      (Op.sum (Op.lowRankRootAddedDiag (Op.dense (m := 2) fun i j => (i.1 : Int) - j.1) (fun _ => 2)) (Op.sum Op.identity (Op.sum (Op.constDiag 3) Op.zero))))).WF := by
  simp only [Op.WF, Op.lowRankRootAddedDiag, and_true]
  refine ⟨by decide, ?_⟩
  funext j i
  simp [Mat.transpose]

end LinOp.C01
