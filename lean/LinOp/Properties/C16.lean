import LinOp.C16.Proofs
import LinOp.C16.ProofsWeak
import LinOp.C16.Skeleton
import LinOp.C16.ProofsPSD
import LinOp.C16.ProofsSkSem
import LinOp.Generated.C16Consts
import Mathlib.Data.Matrix.Mul
import Mathlib.Data.Matrix.Diagonal
/-!
C16 — `psd_safe_cholesky` perturbs minimally, per batch member, or fails loudly.  Property theorems only.

Everything is stated about the model `LinOp.C16.psdSafeCholesky` of
`linear_operator/utils/cholesky.py` for an arbitrary batch (`A : List M`, any length), an arbitrary
`cholesky_ex` (`ops.cholEx`, hence *every info history*), every `max_tries`, every `jitter`, every base
of the schedule (`c.base`; the generated value is shown to be 10 below), over any ring of scalars.
`Lawful ops` = adding 0 to a diagonal changes nothing and two additions add up.
-/
namespace LinOp.C16
open LinOp.Generated

variable {M F α : Type} [Ring α] (ops : Ops M F α) (c : Consts) (env : Env α) (args : Args α) (A : List M)

/-! ### Whole-function theorems -/

/-- **PD ⇒ exact factor, one call, no warning, nothing perturbed**: if `cholesky_ex` reports `info = 0`
for every member, the result is the factor of `A` itself (transposed if `upper`), after exactly one
`cholesky_ex` call, without a warning, and `A` is untouched — whatever jitter/max_tries/settings. -/
theorem psc_pd_exact (hpd : ∀ a ∈ A, (ops.cholEx a).2 = 0) :
    (psdSafeCholesky ops c env args A).result = .ok (A.map fun a => orient ops args.upper (ops.cholEx a).1) ∧
    (psdSafeCholesky ops c env args A).calls = 1 ∧ (psdSafeCholesky ops c env args A).warns = [] ∧
    (psdSafeCholesky ops c env args A).work = A ∧ (psdSafeCholesky ops c env args A).input = A := by
  have hany : anyInfo (A.map (initMember ops)) = false := by
    rw [anyInfo_false_iff]
    intro s hs
    obtain ⟨a, ha, rfl⟩ := List.mem_map.1 hs
    exact hpd a ha
  rw [wrapper_result, wrapper_calls, wrapper_warns, wrapper_work, wrapper_input]
  unfold psdSafeCholeskyCore
  simp only [hany, Bool.not_false, Bool.or_true, if_true, Except.map, factors_map, List.map_map, Function.comp_def,
    initMember, and_self]

/-- **NaN ⇒ NanError before any try**: if some member contains a NaN and the first `cholesky_ex` reports a
failure anywhere in the batch, `NanError` is raised after that single call: no jitter, no warning, `A` untouched. -/
theorem psc_nan_raises (ht : env.traceMode = false) (hinfo : ∃ a ∈ A, (ops.cholEx a).2 ≠ 0) (hnan : ∃ a ∈ A, ops.hasNan a = true) :
    (psdSafeCholesky ops c env args A).result = .error .nanError ∧
    (psdSafeCholesky ops c env args A).calls = 1 ∧ (psdSafeCholesky ops c env args A).warns = [] ∧
    (psdSafeCholesky ops c env args A).work = A ∧ (psdSafeCholesky ops c env args A).input = A := by
  have hany : anyInfo (A.map (initMember ops)) = true := by
    rw [anyInfo_true_iff]
    obtain ⟨a, ha, h⟩ := hinfo
    exact ⟨initMember ops a, List.mem_map.2 ⟨a, ha, rfl⟩, h⟩
  have hn : A.any ops.hasNan = true := List.any_eq_true.2 hnan
  rw [wrapper_result, wrapper_calls, wrapper_warns, wrapper_work, wrapper_input]
  unfold psdSafeCholeskyCore
  simp only [ht, hany, hn, Bool.not_true, Bool.or_self, Bool.false_eq_true, if_false, if_true, Except.map, and_self]

/-- The same under the contract that `cholesky_ex` never reports success on a member containing NaN
(LAPACK's pivot test `ajj <= 0 || isnan(ajj)`; holds for NaNs in the triangle that is read). -/
theorem psc_nan_raises_contract (ht : env.traceMode = false) (hc : ∀ a, ops.hasNan a = true → (ops.cholEx a).2 ≠ 0)
    (hnan : ∃ a ∈ A, ops.hasNan a = true) :
    (psdSafeCholesky ops c env args A).result = .error .nanError ∧ (psdSafeCholesky ops c env args A).calls = 1 := by
  obtain ⟨a, ha, h⟩ := hnan
  have := psc_nan_raises ops c env args A ht ⟨a, ha, hc a h⟩ ⟨a, ha, h⟩
  exact ⟨this.1, this.2.1⟩

/-- **The smallest succeeding try is the one used; the result is what `cholesky_ex` returns for exactly the
perturbed batch**: if (no trace mode, no NaN, first call failed somewhere and) try `k < max_tries` is the first after which
every member has `info = 0`, then the function returns — after `k+2` calls and the `k+1` warnings
`jitter·base^0 … jitter·base^k` — the factors of the members `memberAfter … (k+1)` (see the per-member theorems
for what these are), and these members are the final `Aprime`. -/
theorem psc_minimal_try (ht : env.traceMode = false) (hinfo : ∃ a ∈ A, (ops.cholEx a).2 ≠ 0)
    (hnan : ∀ a ∈ A, ops.hasNan a = false) (k : Nat) (hk : k < effMaxTries env args)
    (hfail : ∀ j, j < k → batchFailsAfter ops c.base (effJitter env args) A j = true)
    (hok : batchFailsAfter ops c.base (effJitter env args) A k = false) :
    let o := psdSafeCholesky ops c env args A
    o.result = .ok (A.map fun a => orient ops args.upper (memberAfter ops c.base (effJitter env args) a (k + 1)).2.1) ∧
    o.calls = k + 2 ∧ o.warns = (List.range (k + 1)).map (jitterAt c.base (effJitter env args)) ∧
    o.work = A.map (fun a => (memberAfter ops c.base (effJitter env args) a (k + 1)).1) ∧
    (c.clones = true → o.input = A) := by
  have hany : anyInfo (A.map (initMember ops)) = true := by
    rw [anyInfo_true_iff]
    obtain ⟨a, ha, h⟩ := hinfo
    exact ⟨initMember ops a, List.mem_map.2 ⟨a, ha, rfl⟩, h⟩
  have hn : A.any ops.hasNan = false := by
    rw [List.any_eq_false]; intro a ha; simp [hnan a ha]
  have hl := tryLoop_succ ops c.base (effJitter env args) (loopInit ops A) (effMaxTries env args) 0 k (Nat.zero_le _) (by omega)
    (fun j _ hj => by rw [iter_loopInit_st]; exact hfail j hj) (by rw [iter_loopInit_st]; exact hok)
  intro o
  simp only [o]
  rw [wrapper_result, wrapper_calls, wrapper_warns, wrapper_work, wrapper_input, core_of_loop ops c env args A ht hany hn]
  simp only [hl]
  refine ⟨?_, ?_, ?_, ?_, fun h => by simp [h]⟩
  · simp only [if_true, iter_loopInit_st, factors_map, Except.map, List.map_map, Function.comp_def]
  · simp only [if_true, iter_calls, loopInit_calls]; omega
  · simp only [if_true, iter_warns, loopInit_warns, List.nil_append]
  · simp only [if_true, iter_loopInit_st, members_map]

/-- **All tries fail ⇒ loud failure after exactly `max_tries` tries**: if after each of the tries `0 … max_tries-1` some
member still has `info ≠ 0`, the function raises after `max_tries + 1` calls and `max_tries` warnings and the caller's
tensor is untouched.  The exception is `NotPSDError` when `max_tries > 0`, or when the source binds `jitter_new` before the
loop (`c.jitterNewBound`, extracted; false today — see `psc_max_tries_zero_counterexample`; true after notes/C16_fix_1.diff).
FULL CLAIM (not provable of the code as it is): the exception is always `NotPSDError`. -/
theorem psc_all_fail_raises_partial (ht : env.traceMode = false) (hinfo : ∃ a ∈ A, (ops.cholEx a).2 ≠ 0)
    (hnan : ∀ a ∈ A, ops.hasNan a = false)
    (hfail : ∀ j, j < effMaxTries env args → batchFailsAfter ops c.base (effJitter env args) A j = true) :
    let o := psdSafeCholesky ops c env args A
    o.result = .error (if effMaxTries env args = 0 ∧ c.jitterNewBound = false then .unboundLocalError else .notPSDError) ∧
    o.calls = effMaxTries env args + 1 ∧
    o.warns = (List.range (effMaxTries env args)).map (jitterAt c.base (effJitter env args)) ∧
    (c.clones = true → o.input = A) := by
  have hany : anyInfo (A.map (initMember ops)) = true := by
    rw [anyInfo_true_iff]
    obtain ⟨a, ha, h⟩ := hinfo
    exact ⟨initMember ops a, List.mem_map.2 ⟨a, ha, rfl⟩, h⟩
  have hn : A.any ops.hasNan = false := by
    rw [List.any_eq_false]; intro a ha; simp [hnan a ha]
  have hl := tryLoop_fail ops c.base (effJitter env args) (loopInit ops A) (effMaxTries env args) 0
    (fun j _ hj => by rw [iter_loopInit_st]; exact hfail j (by omega))
  intro o
  simp only [o]
  rw [wrapper_result, wrapper_calls, wrapper_warns, wrapper_input, core_of_loop ops c env args A ht hany hn]
  simp only [hl]
  refine ⟨?_, ?_, ?_, fun h => by simp [h]⟩
  · simp only [Nat.zero_add, Except.map, Bool.false_eq_true, if_false]
    cases c.jitterNewBound <;> simp
  · simp only [Nat.zero_add, iter_calls, loopInit_calls, Bool.false_eq_true, if_false]; omega
  · simp only [Nat.zero_add, iter_warns, loopInit_warns, List.nil_append, Bool.false_eq_true, if_false]

/-- The full claim "all tries fail ⇒ NotPSDError" is FALSE for the code as it is when `max_tries = 0`:
the message of the final `raise` formats `jitter_new`, which the loop never bound. -/
theorem psc_max_tries_zero_counterexample :
    (psdSafeCholesky (M := Int) (F := Unit) (α := Int)
      { cholEx := fun a => ((), if a > 0 then 0 else 1), hasNan := fun _ => false, addDiag := fun a x => a + x, transposeF := id }
      { base := 10, clones := true } { settingsJitter := 1, settingsMaxTries := 3, traceMode := false }
      { maxTries := some 0 } [-5]).result = .error .unboundLocalError := by decide

/-- **Warnings ⇔ tries; no warning ⇒ nothing was added**: for every input and every info history the number of warnings is
the number of `cholesky_ex` calls minus one, the `i`-th warning reports `jitter·base^i`, and if there was no warning
`Aprime` equals the input. -/
theorem psc_warns_iff_jitter (ht : env.traceMode = false) :
    let o := psdSafeCholesky ops c env args A
    o.calls = o.warns.length + 1 ∧
    o.warns = (List.range o.warns.length).map (jitterAt c.base (effJitter env args)) ∧
    (o.warns = [] → o.work = A) := by
  intro o
  simp only [o]
  rw [wrapper_calls, wrapper_warns, wrapper_work]
  by_cases hany : anyInfo (A.map (initMember ops)) = true
  · by_cases hn : A.any ops.hasNan = false
    · rw [core_of_loop ops c env args A ht hany hn]
      obtain ⟨t, _, h1, _, _⟩ := tryLoop_general ops c.base (effJitter env args) (loopInit ops A) (effMaxTries env args) 0
      simp only [Nat.zero_add] at h1
      have key : ∀ (b : Bool) (x y : Outcome M F α), (if b = true then x else y).calls = (if b = true then x.calls else y.calls) ∧
          (if b = true then x else y).warns = (if b = true then x.warns else y.warns) ∧
          (if b = true then x else y).work = (if b = true then x.work else y.work) := by
        intro b x y; cases b <;> simp
      simp only [key, ite_self, h1, iter_calls, iter_warns, loopInit_calls, loopInit_warns, List.nil_append, List.length_map,
        List.length_range, iter_loopInit_st, members_map]
      refine ⟨by omega, trivial, fun h => ?_⟩
      have : t = 0 := by
        have := congrArg List.length h
        simpa using this
      subst this
      simp [memberAfter, initMember]
    · unfold psdSafeCholeskyCore
      simp only [Bool.not_eq_false] at hn
      simp [ht, hany, hn]
  · unfold psdSafeCholeskyCore
    simp only [Bool.not_eq_true] at hany
    simp [hany]

/-- **The returned factors are `cholesky_ex` of exactly the final perturbed batch, and all of them succeeded** — for every
input, configuration and info history: whenever the function returns (outside trace mode), the `b`-th returned factor is
(the transpose, if `upper`, of) `cholesky_ex(Aprime_b).L` and `cholesky_ex(Aprime_b).info = 0`.  With the contract
"`info = 0` ⇒ the factor is finite" this is "never returns a factor containing NaN or Inf" (`psc_no_nan_out`). -/
theorem psc_result_is_factor_of_work (ht : env.traceMode = false) (ls : List F)
    (h : (psdSafeCholesky ops c env args A).result = .ok ls) :
    ls = (psdSafeCholesky ops c env args A).work.map (fun w => orient ops args.upper (ops.cholEx w).1) ∧
    ∀ w ∈ (psdSafeCholesky ops c env args A).work, (ops.cholEx w).2 = 0 := by
  rw [wrapper_result] at h
  rw [wrapper_work]
  by_cases hany : anyInfo (A.map (initMember ops)) = true
  · by_cases hn : A.any ops.hasNan = false
    · rw [core_of_loop ops c env args A ht hany hn] at h ⊢
      obtain ⟨t, _, h1, _, _⟩ := tryLoop_general ops c.base (effJitter env args) (loopInit ops A) (effMaxTries env args) 0
      have h2 := tryLoop_true_anyInfo ops c.base (effJitter env args) (effMaxTries env args) 0 (loopInit ops A)
      simp only [Nat.zero_add, iter_zero] at h1
      simp only [iter_zero] at h ⊢
      rcases Bool.eq_false_or_eq_true (tryLoop ops c.base (effJitter env args) (effMaxTries env args) 0 (loopInit ops A)).1 with hr | hr
      · have h3 := h2 hr
        simp only [hr, if_true, Except.map, Except.ok.injEq] at h
        simp only [hr, if_true]
        rw [h1, iter_loopInit_st] at h3
        rw [h1, iter_loopInit_st] at h ⊢
        rw [anyInfo_false_iff] at h3
        rw [factors_map] at h
        rw [members_map]
        refine ⟨?_, ?_⟩
        · rw [← h, List.map_map, List.map_map]
          apply List.map_congr_left
          intro a _
          simp only [Function.comp_def, memberAfter_consistent ops c.base (effJitter env args) a t]
        · intro w hw
          obtain ⟨a, ha, rfl⟩ := List.mem_map.1 hw
          have := h3 _ (List.mem_map.2 ⟨a, ha, rfl⟩)
          rw [memberAfter_consistent] at this
          exact this
      · simp [hr, Except.map] at h
    · exfalso
      revert h
      unfold psdSafeCholeskyCore
      simp only [Bool.not_eq_false] at hn
      simp [ht, hany, hn, Except.map]
  · simp only [Bool.not_eq_true] at hany
    have hz := (anyInfo_false_iff _).1 hany
    revert h
    unfold psdSafeCholeskyCore
    simp only [hany, Bool.not_false, Bool.or_true, if_true, Except.map, Except.ok.injEq, factors_map, List.map_map]
    intro h
    refine ⟨?_, fun w hw => hz _ (List.mem_map.2 ⟨w, hw, rfl⟩)⟩
    rw [← h]
    apply List.map_congr_left
    intro a _
    simp [Function.comp_def, initMember]

/-- **Never a factor containing NaN or Inf**: if `cholesky_ex` returns finite factors whenever `info = 0` and transposition
keeps factors finite, every factor the function returns (outside trace mode) is finite. -/
theorem psc_no_nan_out (ht : env.traceMode = false) (Finite : F → Prop)
    (hfin : ∀ w, (ops.cholEx w).2 = 0 → Finite (ops.cholEx w).1) (htr : ∀ l, Finite l → Finite (ops.transposeF l))
    (ls : List F) (h : (psdSafeCholesky ops c env args A).result = .ok ls) : ∀ l ∈ ls, Finite l := by
  obtain ⟨h1, h2⟩ := psc_result_is_factor_of_work ops c env args A ht ls h
  intro l hl
  rw [h1] at hl
  obtain ⟨w, hw, rfl⟩ := List.mem_map.1 hl
  have := hfin w (h2 w hw)
  unfold orient
  split
  · exact htr _ this
  · exact this

/-- **`upper=True` returns the transposes of the lower factors** and changes nothing else. -/
theorem psc_upper :
    (psdSafeCholesky ops c env { args with upper := true } A).result
      = (psdSafeCholesky ops c env { args with upper := false } A).result.map (fun ls => ls.map ops.transposeF) ∧
    (psdSafeCholesky ops c env { args with upper := true } A).calls = (psdSafeCholesky ops c env { args with upper := false } A).calls ∧
    (psdSafeCholesky ops c env { args with upper := true } A).warns = (psdSafeCholesky ops c env { args with upper := false } A).warns ∧
    (psdSafeCholesky ops c env { args with upper := true } A).work = (psdSafeCholesky ops c env { args with upper := false } A).work := by
  have hcore : psdSafeCholeskyCore ops c env { args with upper := true } A = psdSafeCholeskyCore ops c env { args with upper := false } A := rfl
  refine ⟨?_, ?_, ?_, ?_⟩
  · rw [wrapper_result, wrapper_result, hcore]
    cases (psdSafeCholeskyCore ops c env { args with upper := false } A).result <;> simp [Except.map, orient]
  · rw [wrapper_calls, wrapper_calls, hcore]
  · rw [wrapper_warns, wrapper_warns, hcore]
  · rw [wrapper_work, wrapper_work, hcore]

/-- **With `out=`, the caller's buffer holds exactly what is returned.** -/
theorem psc_out (ho : args.out = true) (ls : List F) (h : (psdSafeCholesky ops c env args A).result = .ok ls) :
    (psdSafeCholesky ops c env args A).outBuf = some ls := by
  unfold psdSafeCholesky at h ⊢
  cases hr : (psdSafeCholeskyCore ops c env args A).result with
  | error e => simp [hr] at h
  | ok l0 =>
    have hob : (psdSafeCholeskyCore ops c env args A).outBuf = some l0 := by
      revert hr
      unfold psdSafeCholeskyCore
      simp only [ho, if_true]
      split
      · intro hr; simp only [Except.ok.injEq] at hr; simp [hr]
      · split
        · intro hr; simp at hr
        · split
          · intro hr; simp only [Except.ok.injEq] at hr; simp [hr]
          · intro hr; simp at hr
    simp only [hr] at h ⊢
    split at h <;> simp_all

/-- **The input is never modified**: if the tensor that is written in place is a clone (`c.clones`, extracted from the
source), the caller's tensor at exit is the caller's tensor at entry — for every input, configuration and history,
including the error exits. -/
theorem psc_input_unchanged (hc : c.clones = true) : (psdSafeCholesky ops c env args A).input = A := by
  rw [wrapper_input]
  unfold psdSafeCholeskyCore
  simp only [hc, if_true]
  split
  · rfl
  · split
    · rfl
    · split <;> rfl

/-- Without the clone the property fails (so `clones` is load-bearing): a 1-member batch that needs jitter. -/
theorem psc_no_clone_counterexample :
    (psdSafeCholesky (M := Int) (F := Unit) (α := Int)
      { cholEx := fun a => ((), if a > 0 then 0 else 1), hasNan := fun _ => false, addDiag := fun a x => a + x, transposeF := id }
      { base := 10, clones := false } { settingsJitter := 1, settingsMaxTries := 3, traceMode := false }
      {} [0]).input = [1] := by decide

/-- Trace mode returns the first factors unconditionally (one call, no warning) — documented behaviour of the code,
outside the property. -/
theorem psc_trace_mode (ht : env.traceMode = true) :
    (psdSafeCholesky ops c env args A).result = .ok (A.map fun a => orient ops args.upper (ops.cholEx a).1) ∧
    (psdSafeCholesky ops c env args A).calls = 1 ∧ (psdSafeCholesky ops c env args A).warns = [] := by
  rw [wrapper_result, wrapper_calls, wrapper_warns]
  unfold psdSafeCholeskyCore
  simp only [ht, Bool.true_or, if_true, Except.map, factors_map, List.map_map, Function.comp_def, initMember, and_self]

/-! ### The operator route `op.cholesky(upper)` -/

/-- **Operator route, size ≠ 1**: `op.cholesky(upper)` of a dense-backed operator is `psd_safe_cholesky(dense, upper)` with
jitter and max_tries from the settings — same factors, calls, warnings, perturbed batch and (untouched) input; every theorem
above applies. -/
theorem op_route_eq_psc (sqrtClamp : M → F) (size : Nat) (hs : size ≠ 1) (upper : Bool) :
    (opCholesky ops sqrtClamp size c env upper A).result = (psdSafeCholesky ops c env { upper := upper } A).result ∧
    (opCholesky ops sqrtClamp size c env upper A).calls = (psdSafeCholesky ops c env { upper := upper } A).calls ∧
    (opCholesky ops sqrtClamp size c env upper A).warns = (psdSafeCholesky ops c env { upper := upper } A).warns ∧
    (opCholesky ops sqrtClamp size c env upper A).work = (psdSafeCholesky ops c env { upper := upper } A).work ∧
    (opCholesky ops sqrtClamp size c env upper A).input = (psdSafeCholesky ops c env { upper := upper } A).input := by
  have hcore : psdSafeCholeskyCore ops c env { upper := upper } A = psdSafeCholeskyCore ops c env {} A := rfl
  have hw := wrapper_result ops c env {} A
  refine ⟨?_, ?_, ?_, ?_, ?_⟩
  · rw [wrapper_result, hcore]
    unfold opCholesky
    simp only [hs, if_false]
    cases upper
    · simp only [Bool.false_eq_true, if_false, hw]
    · simp only [if_true, hw]
      cases (psdSafeCholeskyCore ops c env {} A).result <;> simp [Except.map, orient]
  all_goals
    first
      | rw [wrapper_calls, hcore, ← wrapper_calls ops c env {} A]
      | rw [wrapper_warns, hcore, ← wrapper_warns ops c env {} A]
      | rw [wrapper_work, hcore, ← wrapper_work ops c env {} A]
      | rw [wrapper_input, hcore, ← wrapper_input ops c env {} A]
    unfold opCholesky
    simp only [hs, if_false]
    cases upper <;> simp

/-- **Operator route, 1×1 shortcut** (`evaluated_mat.clamp_min(0.0).sqrt()` in `LinearOperator._cholesky`): no `cholesky_ex`
call, no jitter, no warning, never an error, input untouched — `psd_safe_cholesky` is not involved for 1×1 operators. -/
theorem op_route_scalar_shortcut (sqrtClamp : M → F) (upper : Bool) :
    (opCholesky ops sqrtClamp 1 c env upper A).result = .ok (A.map fun a => orient ops upper (sqrtClamp a)) ∧
    (opCholesky ops sqrtClamp 1 c env upper A).calls = 0 ∧ (opCholesky ops sqrtClamp 1 c env upper A).warns = [] ∧
    (opCholesky ops sqrtClamp 1 c env upper A).input = A := by
  unfold opCholesky
  cases upper <;> simp [Except.map, orient, Function.comp_def]

/-- The *function* has no size shortcut: on 1×1 members (any `M`) it behaves as on every other size — in particular a
non-PD, NaN-free 1×1 batch that fails every try raises (instance of `psc_all_fail_raises_partial`), shown here on a concrete
1×1 batch `[-5]` with jitter 1 and 3 tries: four calls, three warnings, NotPSDError. -/
theorem psc_scalar_members_no_shortcut :
    let o := psdSafeCholesky (M := Int) (F := Int) (α := Int)
      { cholEx := fun a => (a, if a > 0 then 0 else 1), hasNan := fun _ => false, addDiag := fun a x => a + x, transposeF := id }
      { base := 10, clones := true, jitterNewBound := true } { settingsJitter := 1, settingsMaxTries := 3, traceMode := false } {} [-500, 4]
    o.result = .error .notPSDError ∧ o.calls = 4 ∧ o.warns = [1, 10, 100] := by decide

/-! ### Per-member theorems (what `memberAfter … (k+1)` is) -/

variable (base : Nat) (jitter : α)

/-- **Cumulative jitter telescopes**: a member that failed the first call and the tries `0 … k-1` carries exactly
`jitter·base^k` on its diagonal after try `k` (not the sum of all increments), and its `L, info` are those of
exactly that matrix. -/
theorem psc_cumulative (hl : Lawful ops) (a : M) (k : Nat) (h0 : 0 < (ops.cholEx a).2)
    (hf : ∀ j, j < k → 0 < (ops.cholEx (ops.addDiag a (jitter * (base : α) ^ j))).2) :
    memberAfter ops base jitter a (k + 1)
      = (ops.addDiag a (jitter * (base : α) ^ k), ops.cholEx (ops.addDiag a (jitter * (base : α) ^ k))) := by
  have e : ∀ j, jitterAt base jitter j = jitter * (base : α) ^ j := fun j => by simp [jitterAt, Nat.cast_pow]
  simpa only [e] using memberAfter_cumulative ops base jitter hl a k h0 (by simpa only [e] using hf)

/-- **Only members that failed are perturbed**: a member with `info = 0` at the first call is never changed and its
factor is the factor of `A` itself, however long the loop runs for the other members. -/
theorem psc_only_failed (hl : Lawful ops) (a : M) (h0 : (ops.cholEx a).2 = 0) (m : Nat) :
    memberAfter ops base jitter a m = (a, ops.cholEx a) :=
  memberAfter_pd ops base jitter hl a h0 m

/-- **A member is frozen once it succeeds** (masking by the *current* info): after its `info` became 0 at some
point of the loop, later tries leave its matrix, factor and info as they are. -/
theorem psc_frozen_after_success (hl : Lawful ops) (a : M) (k m : Nat) (h0 : (memberAfter ops base jitter a k).2.2 = 0) :
    memberAfter ops base jitter a (k + m) = memberAfter ops base jitter a k :=
  memberAfter_frozen ops base jitter hl a k h0 m

/-- **Per-member minimal jitter**: a member whose `info` is 0 after try `k` is either unperturbed (it never failed), or
carries `jitter·base^j` where `j ≤ k` is the *least* exponent for which `cholesky_ex` succeeds on `A + jitter·base^j·I`;
its returned factor is `cholesky_ex` of exactly that matrix. -/
theorem psc_minimal_i (hl : Lawful ops) (a : M) (k : Nat) (hz : (memberAfter ops base jitter a (k + 1)).2.2 = 0) :
    ((ops.cholEx a).2 = 0 ∧ memberAfter ops base jitter a (k + 1) = (a, ops.cholEx a)) ∨
    (0 < (ops.cholEx a).2 ∧ ∃ j, j ≤ k ∧ (∀ i, i < j → 0 < (ops.cholEx (ops.addDiag a (jitter * (base : α) ^ i))).2)
      ∧ (ops.cholEx (ops.addDiag a (jitter * (base : α) ^ j))).2 = 0
      ∧ memberAfter ops base jitter a (k + 1)
          = (ops.addDiag a (jitter * (base : α) ^ j), ops.cholEx (ops.addDiag a (jitter * (base : α) ^ j)))) := by
  have e : ∀ j, jitterAt base jitter j = jitter * (base : α) ^ j := fun j => by simp [jitterAt, Nat.cast_pow]
  have := memberAfter_final ops base jitter hl a k hz
  simp only [e] at this
  exact this

/-- **Minimality in terms of positive definiteness, and the factor really factorises the perturbed matrix**: under the
`cholesky_ex` contract (`info = 0 ↔ PD`, `info = 0 → IsFactor L W`), a member that ends with `info = 0` is PD and returned
with a factor of `A` itself, or is not PD and returned with a factor of `A + jitter·base^j·I` for the least `j` making that PD. -/
theorem psc_factor_of_perturbed (hl : Lawful ops) (PD : M → Prop) (IsFactor : F → M → Prop)
    (hpd : ∀ w, (ops.cholEx w).2 = 0 ↔ PD w) (hfac : ∀ w, (ops.cholEx w).2 = 0 → IsFactor (ops.cholEx w).1 w)
    (a : M) (k : Nat) (hz : (memberAfter ops base jitter a (k + 1)).2.2 = 0) :
    (PD a ∧ (memberAfter ops base jitter a (k + 1)).1 = a ∧ IsFactor (memberAfter ops base jitter a (k + 1)).2.1 a) ∨
    (¬ PD a ∧ ∃ j, j ≤ k ∧ (∀ i, i < j → ¬ PD (ops.addDiag a (jitter * (base : α) ^ i)))
      ∧ PD (ops.addDiag a (jitter * (base : α) ^ j))
      ∧ (memberAfter ops base jitter a (k + 1)).1 = ops.addDiag a (jitter * (base : α) ^ j)
      ∧ IsFactor (memberAfter ops base jitter a (k + 1)).2.1 (ops.addDiag a (jitter * (base : α) ^ j))) := by
  rcases psc_minimal_i ops base jitter hl a k hz with ⟨h0, he⟩ | ⟨h0, j, hj, hf, hs, he⟩
  · left
    rw [he]
    exact ⟨(hpd a).1 h0, rfl, hfac a h0⟩
  · right
    refine ⟨fun h => by have := (hpd a).2 h; omega, j, hj, fun i hi h => ?_, (hpd _).1 hs, ?_, ?_⟩
    · have := (hpd _).2 h; have := hf i hi; omega
    · rw [he]
    · rw [he]; exact hfac _ hs

/-! ### Concrete members: square matrices -/

/-- `A.diagonal().add_(c)` is `A + c·I`, and it satisfies the two laws. -/
theorem addDiag_eq_add_smul_one {R : Type} [Ring R] {n : Nat} (A : Mat R n n) (x : R) :
    Matrix.of (addDiag A x) = Matrix.of A + x • (1 : Matrix (Fin n) (Fin n) R) := by
  ext i j
  by_cases h : i = j <;> simp [addDiag, h, Matrix.one_apply]

theorem matOps_lawful {R G : Type} [Ring R] {n : Nat} (cholEx : Mat R n n → G × Nat) (isNan : R → Bool) (tr : G → G) :
    Lawful (matOps cholEx isNan tr) where
  addDiag_zero w := by funext i j; by_cases h : i = j <;> simp [matOps, addDiag, h]
  addDiag_add w a b := by funext i j; by_cases h : i = j <;> simp [matOps, addDiag, h, add_assoc]

/-- **Matrix form**: with `cholesky_ex` meeting `info = 0 → L Lᵀ = W`, every member that ends with `info = 0` after try
`k` is returned with `L Lᵀ = A` (it never failed) or `L Lᵀ = A + (jitter·base^j)·I` for the least `j ≤ k` at which
`cholesky_ex` succeeds — for every size `n`. -/
theorem psc_factor_of_perturbed_matrix {R : Type} [CommRing R] {n : Nat}
    (cholEx : Mat R n n → Matrix (Fin n) (Fin n) R × Nat) (isNan : R → Bool)
    (hfac : ∀ w, (cholEx w).2 = 0 → (cholEx w).1 * (cholEx w).1.transpose = Matrix.of w)
    (jit : R) (a : Mat R n n) (k : Nat)
    (hz : (memberAfter (matOps cholEx isNan Matrix.transpose) base jit a (k + 1)).2.2 = 0) :
    let L := (memberAfter (matOps cholEx isNan Matrix.transpose) base jit a (k + 1)).2.1
    ((cholEx a).2 = 0 ∧ L * L.transpose = Matrix.of a) ∨
    (0 < (cholEx a).2 ∧ ∃ j, j ≤ k ∧ (∀ i, i < j → 0 < (cholEx (addDiag a (jit * (base : R) ^ i))).2) ∧
      L * L.transpose = Matrix.of a + (jit * (base : R) ^ j) • (1 : Matrix (Fin n) (Fin n) R)) := by
  intro L
  rcases psc_minimal_i (matOps cholEx isNan Matrix.transpose) base jit (matOps_lawful cholEx isNan _) a k hz with
    ⟨h0, he⟩ | ⟨h0, j, hj, hf, hs, he⟩
  · left
    refine ⟨h0, ?_⟩
    simp only [L, he]
    exact hfac a h0
  · right
    refine ⟨h0, j, hj, hf, ?_⟩
    simp only [L, he]
    rw [← addDiag_eq_add_smul_one]
    exact hfac _ hs

/-! ### The weak `cholesky_ex` contract: `info = 0 ⇒ L Lᵀ = A′ and L finite` (no ⇔ with positive definiteness)

Which theorem needs which part of the contract of `torch.linalg.cholesky_ex`:
* NOTHING about `cholesky_ex` (any function `M → F × Nat`): `psc_pd_exact`, `psc_nan_raises`, `psc_minimal_try`, `psc_all_fail_raises(_partial)`,
  `psc_warns_iff_jitter`, `psc_result_is_factor_of_work`, `psc_upper`, `psc_out`, `psc_input_unchanged`, `psc_trace_mode`, `op_route_*`,
  `psc_cumulative`, `psc_only_failed`, `psc_frozen_after_success`, `psc_minimal_i`, `psc_work_minimal`, `psc_fail_every_try`.
* WEAK contract only (`info = 0 ⇒ IsFactor L W ∧ Finite L`): `psc_weak_contract`, `psc_weak_contract_matrix`, `psc_weak_contract_psd`,
  `psc_no_nan_out`, `psc_factor_of_perturbed_matrix`.
* COMPLETENESS only (`PD W ⇒ info = 0`): `psc_pd_exact_of_complete` (PD input ⇒ exact factor), `psc_minimal_of_complete` (the exponent is
  minimal in terms of positive definiteness), `psc_notpsd_genuine`, `psc_no_notpsd_if_repairable`.
* SOUNDNESS only (`info = 0 ⇒ PD W`): `psc_work_pd_of_sound` (the perturbed matrix that is factorised is PD).
* the full ⇔: only the combined statement `psc_factor_of_perturbed`.
`psc_nan_raises_contract` needs "NaN member ⇒ info ≠ 0". -/

/-- **Whenever the function returns, every member of the final `Aprime` is a minimal perturbation of its input member**:
`cholesky_ex` succeeds on it, and it is the input member itself (which never failed) or the input member plus
`jitter·base^j` for the least `j < max_tries` at which `cholesky_ex` succeeds.  No assumption on `cholesky_ex`. -/
theorem psc_work_minimal (hl : Lawful ops) (ht : env.traceMode = false) (ls : List F)
    (h : (psdSafeCholesky ops c env args A).result = .ok ls) :
    List.Forall₂ (MinimalPerturbation ops c.base (effJitter env args) (effMaxTries env args)) A
      (psdSafeCholesky ops c env args A).work := by
  rw [wrapper_result] at h
  rw [wrapper_work]
  cases hr : (psdSafeCholeskyCore ops c env args A).result with
  | error e => simp [hr, Except.map] at h
  | ok l0 => exact core_ok_work_minimal ops c env args A hl ht l0 hr

/-- **Main theorem under the weak contract**: assume only that `cholesky_ex` returning `info = 0` on `W` gives a factor of `W`
that is finite.  Then whenever `psd_safe_cholesky` returns, the `b`-th returned factor is (the transpose, if `upper`, of) a finite
factor of a matrix `W_b` that is a minimal perturbation of `A_b`: `A_b` itself if it never failed, else `A_b + jitter·base^j·I`
for the least `j < max_tries` at which `cholesky_ex` succeeds.  Every batch, history, `max_tries`, jitter. -/
theorem psc_weak_contract (hl : Lawful ops) (ht : env.traceMode = false) (IsFactor : F → M → Prop) (Finite : F → Prop)
    (hw : ∀ w, (ops.cholEx w).2 = 0 → IsFactor (ops.cholEx w).1 w ∧ Finite (ops.cholEx w).1)
    (ls : List F) (h : (psdSafeCholesky ops c env args A).result = .ok ls) :
    List.Forall₂ (fun a l => ∃ w, MinimalPerturbation ops c.base (effJitter env args) (effMaxTries env args) a w ∧
        l = orient ops args.upper (ops.cholEx w).1 ∧ IsFactor (ops.cholEx w).1 w ∧ Finite (ops.cholEx w).1) A ls := by
  obtain ⟨h1, _⟩ := psc_result_is_factor_of_work ops c env args A ht ls h
  rw [h1, List.forall₂_map_right_iff]
  exact (psc_work_minimal ops c env args A hl ht ls h).imp fun a w hm => ⟨w, hm, rfl, hw w hm.1⟩

/-- **Weak contract, matrices of any size `n`**: with `info = 0 ⇒ L Lᵀ = W ∧ Finite L`, every returned factor `l` is finite and
`l lᵀ = A_b + t·I` (`lᵀ l` if `upper`) with `t = 0` or `t = jitter·base^j`, `j < max_tries`. -/
theorem psc_weak_contract_matrix {R : Type} [CommRing R] {n : Nat}
    (cholEx : Mat R n n → Matrix (Fin n) (Fin n) R × Nat) (isNan : R → Bool) (Finite : Matrix (Fin n) (Fin n) R → Prop)
    (hfac : ∀ w, (cholEx w).2 = 0 → (cholEx w).1 * (cholEx w).1.transpose = Matrix.of w ∧ Finite (cholEx w).1)
    (hfinT : ∀ L, Finite L → Finite L.transpose)
    (envR : Env R) (argsR : Args R) (As : List (Mat R n n)) (ht : envR.traceMode = false) (ls : List (Matrix (Fin n) (Fin n) R))
    (h : (psdSafeCholesky (matOps cholEx isNan Matrix.transpose) c envR argsR As).result = .ok ls) :
    List.Forall₂ (fun a l => Finite l ∧ ∃ t : R, (t = 0 ∨ ∃ j, j < effMaxTries envR argsR ∧ t = effJitter envR argsR * (c.base : R) ^ j) ∧
        (if argsR.upper then l.transpose * l else l * l.transpose) = Matrix.of a + t • (1 : Matrix (Fin n) (Fin n) R)) As ls := by
  have := psc_weak_contract (matOps cholEx isNan Matrix.transpose) c envR argsR As (matOps_lawful cholEx isNan _) ht
    (fun L w => L * L.transpose = Matrix.of w) Finite hfac ls h
  refine this.imp fun a l ⟨w, hm, hl, hf, hfin⟩ => ?_
  have hor : Finite l ∧ (if argsR.upper then l.transpose * l else l * l.transpose) = Matrix.of w := by
    subst hl
    unfold orient
    cases argsR.upper
    · exact ⟨hfin, hf⟩
    · refine ⟨hfinT _ hfin, ?_⟩
      simpa [matOps, Matrix.transpose_transpose] using hf
  refine ⟨hor.1, ?_⟩
  rcases hm.2 with ⟨_, rfl⟩ | ⟨_, j, hj, _, rfl⟩
  · exact ⟨0, Or.inl rfl, by rw [hor.2]; simp⟩
  · refine ⟨_, Or.inr ⟨j, hj, rfl⟩, ?_⟩
    rw [hor.2]
    exact addDiag_eq_add_smul_one a _

/-- **The matrix that is factorised is positive semidefinite — derived from the weak contract, not assumed** (ordered scalars with
trivial star, e.g. ℝ or ℚ): with only `info = 0 ⇒ L Lᵀ = W`, whenever the function returns, every member satisfies
`A_b + t·I` PSD with `t = 0` or `t = jitter·base^j`, `j < max_tries` — so a returned factor certifies semidefiniteness of the
(perturbed) member without the soundness half of the `cholesky_ex` contract. -/
theorem psc_weak_contract_psd {K : Type} [CommRing K] [PartialOrder K] [StarRing K] [StarOrderedRing K] [TrivialStar K] {n : Nat}
    (cholEx : Mat K n n → Matrix (Fin n) (Fin n) K × Nat) (isNan : K → Bool)
    (hfac : ∀ w, (cholEx w).2 = 0 → (cholEx w).1 * (cholEx w).1.transpose = Matrix.of w)
    (envR : Env K) (argsR : Args K) (As : List (Mat K n n)) (ht : envR.traceMode = false) (ls : List (Matrix (Fin n) (Fin n) K))
    (h : (psdSafeCholesky (matOps cholEx isNan Matrix.transpose) c envR argsR As).result = .ok ls) :
    List.Forall₂ (fun a _ => ∃ t : K, (t = 0 ∨ ∃ j, j < effMaxTries envR argsR ∧ t = effJitter envR argsR * (c.base : K) ^ j) ∧
        (Matrix.of a + t • (1 : Matrix (Fin n) (Fin n) K)).PosSemidef) As ls := by
  have := psc_weak_contract_matrix c cholEx isNan (fun _ => True) (fun w hw => ⟨hfac w hw, trivial⟩) (fun _ _ => trivial)
    envR argsR As ht ls h
  refine this.imp fun a l ⟨_, t, ht', he⟩ => ⟨t, ht', ?_⟩
  rw [← he]
  split
  · have := posSemidef_self_mul_transpose l.transpose
    rwa [Matrix.transpose_transpose] at this
  · exact posSemidef_self_mul_transpose l

example : ∃ (_ : CommRing ℝ) (_ : PartialOrder ℝ) (_ : StarRing ℝ) (_ : StarOrderedRing ℝ), TrivialStar ℝ := ⟨_, _, _, inferInstance, inferInstance⟩

/-- **Loud failure is justified, no assumption on `cholesky_ex`**: whenever the function raises `NotPSDError` (or today's
`UnboundLocalError`), then for EVERY try `j < max_tries` some member failed without jitter and with each of
`jitter·base^0 … jitter·base^j` — in particular (with `j = max_tries − 1`) with the largest allowed jitter. -/
theorem psc_fail_every_try (hl : Lawful ops) (ht : env.traceMode = false) (e : Err) (he : e ≠ .nanError)
    (h : (psdSafeCholesky ops c env args A).result = .error e) :
    ∀ j, j < effMaxTries env args → ∃ a ∈ A, 0 < (ops.cholEx a).2 ∧
      ∀ i, i ≤ j → 0 < (ops.cholEx (ops.addDiag a (effJitter env args * (c.base : α) ^ i))).2 := by
  rw [wrapper_result] at h
  cases hr : (psdSafeCholeskyCore ops c env args A).result with
  | ok l0 => simp [hr, Except.map] at h
  | error e' =>
    have : e' = e := by simpa [hr, Except.map] using h
    subst this
    exact core_fail_every_try ops c env args A hl ht e' he hr

/-- **Completeness (`PD ⇒ info = 0`) is all that "PD input ⇒ exact factor" needs.** -/
theorem psc_pd_exact_of_complete (PD : M → Prop) (hcomp : ∀ w, PD w → (ops.cholEx w).2 = 0) (hpd : ∀ a ∈ A, PD a) :
    (psdSafeCholesky ops c env args A).result = .ok (A.map fun a => orient ops args.upper (ops.cholEx a).1) ∧
    (psdSafeCholesky ops c env args A).calls = 1 ∧ (psdSafeCholesky ops c env args A).warns = [] ∧
    (psdSafeCholesky ops c env args A).work = A ∧ (psdSafeCholesky ops c env args A).input = A :=
  psc_pd_exact ops c env args A fun a ha => hcomp a (hpd a ha)

/-- **Completeness is all that minimality in terms of positive definiteness needs**: whenever the function returns, each member
of `Aprime` is the input member, or the input member is not PD and carries `jitter·base^j` where no smaller exponent makes it PD. -/
theorem psc_minimal_of_complete (hl : Lawful ops) (ht : env.traceMode = false) (PD : M → Prop)
    (hcomp : ∀ w, PD w → (ops.cholEx w).2 = 0) (ls : List F) (h : (psdSafeCholesky ops c env args A).result = .ok ls) :
    List.Forall₂ (fun a w => w = a ∨ (¬ PD a ∧ ∃ j, j < effMaxTries env args ∧
        (∀ i, i < j → ¬ PD (ops.addDiag a (effJitter env args * (c.base : α) ^ i))) ∧
        w = ops.addDiag a (effJitter env args * (c.base : α) ^ j))) A (psdSafeCholesky ops c env args A).work := by
  refine (psc_work_minimal ops c env args A hl ht ls h).imp fun a w hm => ?_
  rcases hm.2 with ⟨_, rfl⟩ | ⟨h0, j, hj, hf, rfl⟩
  · exact Or.inl rfl
  · refine Or.inr ⟨fun hp => by have := hcomp a hp; omega, j, hj, fun i hi hp => ?_, rfl⟩
    have := hcomp _ hp
    have := hf i hi
    omega

/-- **Soundness (`info = 0 ⇒ PD`) is all that "the factorised perturbed matrix is PD" needs.** -/
theorem psc_work_pd_of_sound (ht : env.traceMode = false) (PD : M → Prop)
    (hsound : ∀ w, (ops.cholEx w).2 = 0 → PD w) (ls : List F) (h : (psdSafeCholesky ops c env args A).result = .ok ls) :
    ∀ w ∈ (psdSafeCholesky ops c env args A).work, PD w :=
  fun w hw => hsound w ((psc_result_is_factor_of_work ops c env args A ht ls h).2 w hw)

/-- **`NotPSDError` is genuine (completeness only)**: if it is raised, then for every try `j < max_tries` some member is not PD and
stays not PD with each of the jitters `jitter·base^0 … jitter·base^j`. -/
theorem psc_notpsd_genuine (hl : Lawful ops) (ht : env.traceMode = false) (PD : M → Prop)
    (hcomp : ∀ w, PD w → (ops.cholEx w).2 = 0) (h : (psdSafeCholesky ops c env args A).result = .error .notPSDError) :
    ∀ j, j < effMaxTries env args → ∃ a ∈ A, ¬ PD a ∧ ∀ i, i ≤ j → ¬ PD (ops.addDiag a (effJitter env args * (c.base : α) ^ i)) := by
  intro j hj
  obtain ⟨a, ha, h0, hf⟩ := psc_fail_every_try ops c env args A hl ht _ (by decide) h j hj
  exact ⟨a, ha, fun hp => by have := hcomp a hp; omega, fun i hi hp => by have := hcomp _ hp; have := hf i hi; omega⟩

/-- **No spurious `NotPSDError` (completeness only)**: if some allowed jitter level `jitter·base^j`, `j < max_tries`, makes every member
PD that is not PD already, the function does not raise `NotPSDError`. -/
theorem psc_no_notpsd_if_repairable (hl : Lawful ops) (ht : env.traceMode = false) (PD : M → Prop)
    (hcomp : ∀ w, PD w → (ops.cholEx w).2 = 0) (j : Nat) (hj : j < effMaxTries env args)
    (hrep : ∀ a ∈ A, PD a ∨ PD (ops.addDiag a (effJitter env args * (c.base : α) ^ j))) :
    (psdSafeCholesky ops c env args A).result ≠ .error .notPSDError := by
  intro h
  obtain ⟨a, ha, hn, hf⟩ := psc_notpsd_genuine ops c env args A hl ht PD hcomp h j hj
  rcases hrep a ha with hp | hp
  · exact hn hp
  · exact hf j (Nat.le_refl _) hp

/-- The weak contract (and completeness, soundness) is satisfiable by a non-trivial instance: 1×1 integer "matrices",
`PD a := a > 0`, factor = the matrix. -/
example :
    let ops' : Ops Int Int Int := { cholEx := fun a => (a, if a > 0 then 0 else 1), hasNan := fun _ => false, addDiag := fun a x => a + x, transposeF := id }
    (∀ w, (ops'.cholEx w).2 = 0 → (ops'.cholEx w).1 = w ∧ True) ∧ (∀ w, w > 0 → (ops'.cholEx w).2 = 0) ∧
    (∀ w, (ops'.cholEx w).2 = 0 → w > 0) := by
  refine ⟨fun w _ => ⟨rfl, trivial⟩, fun w h => by simp [h], fun w h => ?_⟩
  by_contra hn
  simp [hn] at h

/-! ### Obligations on the constants and structure extracted from today's source -/

/-- The schedule in the source is `jitter * 10**i`, the increment is the masked difference to the previous try
starting from 0, and the mask is `info > 0` (or an equivalent test on a non-negative `info`). -/
theorem gen_schedule :
    C16.base = 10 ∧ C16.expOffset = 0 ∧ C16.jitterPrevInit = 0 ∧ C16.cumulative = true ∧ C16.loopBound = "max_tries" ∧
    C16.maskVar = "info" ∧ (C16.maskOp, C16.maskThreshold) ∈ [("Gt", (0 : Int)), ("NotEq", 0), ("GtE", 1)] := by
  decide +kernel

/-- The tensor that is written in place and re-factorised is `A.clone()`; the first call is on `A` itself. -/
theorem gen_clones : C16.clones = true ∧ C16.firstCallArg = "A" := by decide +kernel

/-- NaN screen before the loop on the input, raising `NanError`; `NotPSDError` after it; one `NumericalWarning` per try. -/
theorem gen_errors :
    C16.raises = ["NanError", "NotPSDError"] ∧ C16.nanScreenBeforeLoop = true ∧ C16.nanSource = "torch.isnan(A)" ∧
    C16.warnCategory = "NumericalWarning" ∧ C16.warnInLoop = true := by decide +kernel

/-- Defaults come from the settings by dtype, and the settings defaults are the documented ones. -/
theorem gen_defaults :
    C16.jitterDefaultExpr = "settings.cholesky_jitter.value(A.dtype)" ∧
    C16.maxTriesDefaultExpr = "settings.cholesky_max_tries.value()" ∧
    C16.jitterFloat = C16.docJitterFloat ∧ C16.jitterDouble = C16.docJitterDouble ∧ C16.maxTries = C16.docMaxTries ∧
    0 < C16.jitterFloat ∧ 0 < C16.jitterDouble ∧ 0 < C16.maxTries ∧
    C16.wrapperParams = [("A", "<required>"), ("upper", "False"), ("out", "None"), ("jitter", "None"), ("max_tries", "None")] := by
  decide +kernel

/-- Corollary: with `max_tries > 0` (or `jitter_new` bound) the loud failure is `NotPSDError`. -/
theorem psc_all_fail_raises (ht : env.traceMode = false) (hinfo : ∃ a ∈ A, (ops.cholEx a).2 ≠ 0)
    (hnan : ∀ a ∈ A, ops.hasNan a = false) (hpos : 0 < effMaxTries env args ∨ c.jitterNewBound = true)
    (hfail : ∀ j, j < effMaxTries env args → batchFailsAfter ops c.base (effJitter env args) A j = true) :
    (psdSafeCholesky ops c env args A).result = .error .notPSDError := by
  have h := (psc_all_fail_raises_partial ops c env args A ht hinfo hnan hfail).1
  rw [h]
  rcases hpos with hp | hb
  · rw [if_neg (fun hh => by omega)]
  · rw [if_neg (fun hh => by simp [hb] at hh)]

/-- Neither function has an exit (size shortcut or other) before the first `cholesky_ex` / before the call of the core, the
wrapper forwards all arguments; the only size shortcut is the 1×1 one of `LinearOperator._cholesky` modelled by `opCholesky`,
and `cholesky(upper)` transposes the lower factor. -/
theorem gen_no_shortcut :
    C16.coreEarlyExits = 0 ∧ C16.wrapperEarlyExits = 0 ∧
    C16.wrapperCoreCall = "_psd_safe_cholesky(A, out=out, jitter=jitter, max_tries=max_tries)" ∧
    C16.opShortcutTest = "evaluated_mat.size(-1) == 1" ∧
    C16.opShortcutReturn = "TriangularLinearOperator(evaluated_mat.clamp_min(0.0).sqrt())" ∧
    C16.opPscCall = "psd_safe_cholesky(evaluated_mat, upper=upper)" ∧ C16.opCholeskyCallsLower = true := by decide +kernel

/-! ### The statement skeleton of the two function bodies (AST-derived, `LinOp/C16/Skeleton.lean`) -/

/-- The body of `_psd_safe_cholesky` in today's source consists — in this order, with nothing else except effect-free
logging — of: `out` packing, first `cholesky_ex` on the input, exit test (trace mode or no info), NaN scan of the input, `NanError`
raise, the two defaults, clone, `jitter_prev` initialisation, the loop over `range(max_tries)` with body schedule / masked increment /
in-place write on the clone's diagonal / `jitter_prev` update / `NumericalWarning` / `cholesky_ex` on the clone / exit test, and the
final `NotPSDError` raise.  This is the statement order the model `psdSafeCholeskyCore` mirrors. -/
theorem gen_skeleton_core : C16.coreSkeleton = expectedCore C16.jitterNewBound := by decide +kernel

/-- The body of `psd_safe_cholesky`: call of the core forwarding `A, out, jitter, max_tries`; under `if upper:` the in-place transpose
of `out` if given, else the transpose of the result; `return` of the result.  Mirrored by `psdSafeCholesky`. -/
theorem gen_skeleton_wrapper : C16.wrapperSkeleton = expectedWrapper := by decide +kernel

theorem splitSk_expectedCore (b : Bool) :
    splitSk (expectedCore b) =
      (["outpack", "chol(input)", "return-if(trace|noinfo)", "nanscan(input)", "raise-if(nan):NanError", "default(jitter)",
        "default(max_tries)", "clone", if b then "init(jitter_new,jitter_prev=0)" else "init(jitter_prev=0)"],
       ["for(range(max_tries))"],
       ["sched", "incr(masked)", "write(clone.diagonal)", "prev", "warn:NumericalWarning", "chol(clone)", "return-if(noinfo)"],
       ["raise:NotPSDError"]) := by
  cases b <;> decide +kernel

/-- **The control flow of the pinned skeleton agrees with the model's counters, for every number of tries**: the statement sequence
executed when the loop runs `k` times (returning from inside, or falling through to the raise) contains exactly one first attempt
on the input, one clone, `k` schedule/increment/write steps, `k` warnings and `k` retries on the clone — i.e. `k + 1` `cholesky_ex`
calls and `k` warnings, as `Outcome.calls` / `Outcome.warns` of the model (`psc_minimal_try`, `psc_all_fail_raises_partial`,
`psc_warns_iff_jitter`) — and the final raise is reached only in the fall-through case. -/
theorem skeleton_trace_counts (b : Bool) (k : Nat) (o : String) (ho : o = "ok" ∨ o = "fail") :
    (roleTrace (expectedCore b) o k).count "chol(input)" = 1 ∧ (roleTrace (expectedCore b) o k).count "clone" = 1 ∧
    (roleTrace (expectedCore b) o k).count "chol(clone)" = k ∧ (roleTrace (expectedCore b) o k).count "warn:NumericalWarning" = k ∧
    (roleTrace (expectedCore b) o k).count "write(clone.diagonal)" = k ∧ (roleTrace (expectedCore b) o k).count "incr(masked)" = k ∧
    (roleTrace (expectedCore b) o k).count "raise:NotPSDError" = (if o = "fail" then 1 else 0) := by
  have hrep : ∀ (x : String) (xs : List String) (k : Nat), (rep k xs).count x = k * xs.count x := by
    intro x xs k
    induction k with
    | zero => simp [rep]
    | succ k ih => simp [rep, List.count_append, ih, Nat.succ_mul, Nat.add_comm]
  unfold roleTrace
  rw [splitSk_expectedCore]
  rcases ho with rfl | rfl <;> cases b <;>
    simp [assemble, List.count_append, hrep, List.count_cons, List.count_nil]

/-- Early exits of the skeleton: returning at the first exit test executes no NaN scan, clone or loop statement; the NaN raise
happens after exactly one `cholesky_ex` and before the clone. -/
theorem skeleton_trace_early (b : Bool) (k : Nat) :
    roleTrace (expectedCore b) "first" k = ["outpack", "chol(input)", "return-if(trace|noinfo)"] ∧
    roleTrace (expectedCore b) "nan" k = ["outpack", "chol(input)", "return-if(trace|noinfo)", "nanscan(input)", "raise-if(nan):NanError"] := by
  have h1 : ∀ (p : List String × List String × List String × List String) (k : Nat),
      assemble p "first" k = upto p.1 (·.startsWith "return-if(") := by
    intro ⟨a, b, c, d⟩ k; simp [assemble]
  have h2 : ∀ (p : List String × List String × List String × List String) (k : Nat),
      assemble p "nan" k = upto p.1 (·.startsWith "raise-if(nan)") := by
    intro ⟨a, b, c, d⟩ k; simp [assemble]
  unfold roleTrace
  rw [splitSk_expectedCore, h1, h2]
  cases b <;> exact ⟨by decide +kernel, by decide +kernel⟩

/-- The input-immutability theorem applies to today's source. -/
theorem psc_input_unchanged_generated (base : Nat) :
    (psdSafeCholesky ops { base := base, clones := C16.clones, jitterNewBound := C16.jitterNewBound } env args A).input = A :=
  psc_input_unchanged ops _ env args A gen_clones.1


/-! ### State semantics of the skeleton (extension session 5): translated body ⇒ model, by theorem

`LinOp/C16/SkSem.lean` gives every statement role a meaning as a transformer of the Python-level state (locals, the aliasing of
`Aprime` with the caller's tensor, call counter, warning log) and runs ANY skeleton in the order of its statements (`runSkeleton`).
The theorems below are unbounded: every batch (length and content), every `cholesky_ex` (= every info history), every NaN test,
every `jitter`, `max_tries`, base, settings/trace state, `out`. -/

/-- **Running the pinned skeleton statement by statement IS the model**: for every input the state-semantics interpreter applied
to `expectedCore b` terminates without getting stuck and produces exactly the `Outcome` (result / error, `cholesky_ex` calls,
warning log, final `Aprime`, caller's tensor, `out` buffer) of `psdSafeCholeskyCore` with `clones := true`. -/
theorem skeleton_semantics_eq_model (base : Nat) (b : Bool) :
    runSkeleton ops base env args A (expectedCore b) =
      some (psdSafeCholeskyCore ops { base := base, clones := true, jitterNewBound := b } env args A) := by
  unfold runSkeleton
  rw [parse_expectedCore]
  exact run_expectedProg ops base env args A b true

/-- **The semantics is sensitive to the statements** (it is not a constant function of the skeleton): the same skeleton without its
`clone` statement runs to the model with `clones := false` — the one for which `psc_no_clone_counterexample` shows that the
caller's tensor is modified. -/
theorem skeleton_noclone_semantics_eq_model (base : Nat) (b : Bool) :
    runSkeleton ops base env args A (expectedCoreNoClone b) =
      some (psdSafeCholeskyCore ops { base := base, clones := false, jitterNewBound := b } env args A) := by
  unfold runSkeleton
  rw [parse_expectedCoreNoClone]
  exact run_expectedProg ops base env args A b false

/-- **Translated body ⇒ model** (the analogue of C17's `model_refines_translated_bodies`): the skeleton that the `ast` translator
extracted from today's `_psd_safe_cholesky`, executed by the state-semantics interpreter with the extracted base, is the model
instantiated with the extracted constants — the object all `psc_*` theorems speak about.  Uses the generated obligations
`gen_skeleton_core` and `gen_clones` only to identify the extracted skeleton; everything else is proof. -/
theorem model_refines_translated_body :
    runSkeleton ops C16.base env args A C16.coreSkeleton =
      some (psdSafeCholeskyCore ops { base := C16.base, clones := C16.clones, jitterNewBound := C16.jitterNewBound } env args A) := by
  rw [gen_skeleton_core, gen_clones.1]
  exact skeleton_semantics_eq_model ops env args A C16.base C16.jitterNewBound

/-- **Running the pinned WRAPPER skeleton is `psdSafeCholesky`**: the nested `if upper: (if out: in-place transpose of out / else:
transpose of the result)` and the `return`, interpreted statement by statement on the outcome of the core call, give exactly the
model of the public function — for every outcome of the core (returned or raised), `upper`, `out`. -/
theorem wrapper_semantics_eq_model :
    runWrapperSk ops args expectedWrapper (psdSafeCholeskyCore ops c env args A) = some (psdSafeCholesky ops c env args A) := by
  rw [wrapper_semantics_of_core ops args _ (core_outBuf_none ops env args A c)]
  rfl

/-- **Both translated bodies ⇒ model**: interpret the extracted skeleton of `_psd_safe_cholesky`, feed its outcome to the interpreted
extracted skeleton of `psd_safe_cholesky`: the result is `psdSafeCholesky` with the extracted constants, for every input. -/
theorem model_refines_translated_bodies :
    (runSkeleton ops C16.base env args A C16.coreSkeleton).bind (runWrapperSk ops args C16.wrapperSkeleton) =
      some (psdSafeCholesky ops { base := C16.base, clones := C16.clones, jitterNewBound := C16.jitterNewBound } env args A) := by
  rw [model_refines_translated_body, gen_skeleton_wrapper]
  exact wrapper_semantics_eq_model ops _ env args A

/-- the wrapper interpreter really executes and distinguishes the branches: `upper` with and without `out=` (transpose = negation
here, to make it visible), and a wrapper that transposes `out` in place although no `out=` was passed is stuck. -/
example :
    let ops : Ops Int Int Int :=
      { cholEx := fun a => (a, if a > 0 then 0 else 1), hasNan := fun _ => false, addDiag := fun a x => a + x, transposeF := fun x => -x }
    let env : Env Int := { settingsJitter := 1, settingsMaxTries := 3, traceMode := false }
    let run := fun (args : Args Int) (sk : List (Nat × String)) =>
      ((runSkeleton ops 10 env args [4, -5, 0] C16.coreSkeleton).bind (runWrapperSk ops args sk)).map fun o => (o.result, o.outBuf)
    run { upper := true } C16.wrapperSkeleton = some (.ok [-4, -5, -1], none) ∧
    run { upper := true, out := true } C16.wrapperSkeleton = some (.ok [-4, -5, -1], some [-4, -5, -1]) ∧
    run { out := true } C16.wrapperSkeleton = some (.ok [4, 5, 1], some [4, 5, 1]) ∧
    run { upper := true } [(0, "core-call(forward-all)"), (0, "transpose-out-inplace"), (0, "return-result")] = none := by
  decide +kernel

/-- Consequence stated purely about the TRANSLATED body: whatever the input, executing the extracted statements terminates (never
stuck, never falls off the end) with an outcome whose caller-side tensor is the input. -/
theorem translated_body_input_unchanged :
    ∃ o, runSkeleton ops C16.base env args A C16.coreSkeleton = some o ∧ o.input = A := by
  refine ⟨_, model_refines_translated_body ops env args A, ?_⟩
  rw [← wrapper_input]; exact psc_input_unchanged_generated ops env args A C16.base

/-- The interpreter really executes: the 3-member `Int` batch of the example below, run through the EXTRACTED skeleton. -/
example :
    (runSkeleton (M := Int) (F := Int) (α := Int)
      { cholEx := fun a => (a, if a > 0 then 0 else 1), hasNan := fun _ => false, addDiag := fun a x => a + x, transposeF := id }
      10 { settingsJitter := 1, settingsMaxTries := 3, traceMode := false } {} [4, -5, 0] C16.coreSkeleton).map
        (fun o => (o.result, o.calls, o.warns, o.work, o.input)) = some (.ok [4, 5, 1], 3, [1, 10], [4, 5, 1], [4, -5, 0]) := by
  decide +kernel

/-- … and a skeleton whose statements are in another order means something else: with the `clone` removed the caller's tensor is
written; with the warning placed before the schedule the interpreter is stuck (`jitter_new` unbound when max_tries-independent init is absent). -/
example :
    (runSkeleton (M := Int) (F := Int) (α := Int)
      { cholEx := fun a => (a, if a > 0 then 0 else 1), hasNan := fun _ => false, addDiag := fun a x => a + x, transposeF := id }
      10 { settingsJitter := 1, settingsMaxTries := 3, traceMode := false } {} [4, -5, 0] (expectedCoreNoClone true)).map
        (fun o => o.input) = some [4, 5, 1] ∧
    (runSkeleton (M := Int) (F := Int) (α := Int)
      { cholEx := fun a => (a, if a > 0 then 0 else 1), hasNan := fun _ => false, addDiag := fun a x => a + x, transposeF := id }
      10 { settingsJitter := 1, settingsMaxTries := 3, traceMode := false } {} [4, -5, 0]
      ((expectedCore false).filter fun e => e.2 != "sched")).isNone = true := by
  decide +kernel

/-! ### The hypotheses are satisfiable by non-trivial instances -/

/-- A 3-member batch over `Int` "matrices" (1×1): one PD, one needing `jitter·10`, one needing `jitter·1`;
two tries, three calls, per-member jitters 0 / 10 / 1. -/
example :
    let o := psdSafeCholesky (M := Int) (F := Int) (α := Int)
      { cholEx := fun a => (a, if a > 0 then 0 else 1), hasNan := fun _ => false, addDiag := fun a x => a + x, transposeF := id }
      { base := 10, clones := true } { settingsJitter := 1, settingsMaxTries := 3, traceMode := false } {} [4, -5, 0]
    o.result = .ok [4, 5, 1] ∧ o.calls = 3 ∧ o.warns = [1, 10] ∧ o.work = [4, 5, 1] ∧ o.input = [4, -5, 0] := by decide

example : Lawful (α := Int) (M := Int) (F := Int)
    { cholEx := fun a => (a, if a > 0 then 0 else 1), hasNan := fun _ => false, addDiag := fun a x => a + x, transposeF := id } :=
  ⟨fun w => by simp, fun w a b => by simp [add_assoc]⟩

end LinOp.C16
