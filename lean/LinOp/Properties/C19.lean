import LinOp.C19.Proofs
import LinOp.C19.ProofsPair
import LinOp.Generated.C19Guards
import LinOp.C19.Known
import LinOp.C19.KnownDelegations
import LinOp.C19.KnownDispatch
import LinOp.C19.ProofsExt
import LinOp.C19.KnownExt
import LinOp.Generated.C19Ext
/-!
C19 — incompatible shapes and out-of-range indices raise, never mis-compute.  Property theorems.

`Spec.*` is torch's verdict on the densified operator, `Impl.*` the guard the library runs
(see LinOp/C19/Model.lean).  Shapes of operators are written `A ++ [m, n]` (any batch rank).
-/
namespace LinOp.C19
open Spec Impl

/-- **The base guard accepts exactly what `torch.matmul` accepts, with the same result shape** — for
every operator shape `A ++ [m, n]` (any number of batch dimensions, any sizes) and every
second-operand shape `b` (0-d, 1-d, matrix, batched; broadcastable or not). -/
theorem matmulBroadcastShape_iff_torch (A : List Nat) (m n : Nat) (b s : List Nat) :
    matmulBroadcastShape (A ++ [m, n]) b = .ok s ↔ torchMatmulShape? (A ++ [m, n]) b = some s := by
  rcases shape_cases b with rfl | ⟨p, rfl⟩ | ⟨B, k, p, rfl⟩
  · simp [matmulBroadcastShape, torch_mm_scalar, split2_append]
  · rw [torch_mm_vec]
    by_cases h : n = p
    · simp [matmulBroadcastShape, split2_append, h]
    · simp [matmulBroadcastShape, split2_append, h]
  · rw [torch_mm_mat]
    by_cases h : n = k
    · subst h
      simp only [matmulBroadcastShape, split2_append, List.reverse_append, List.reverse_cons,
        List.reverse_nil, List.nil_append, List.cons_append, List.reverse_reverse]
      cases broadcastShapes? A B <;> simp
    · simp [matmulBroadcastShape, split2_append, h]

/-- …and it raises exactly when torch raises. -/
theorem matmulBroadcastShape_error_iff_torch_none (A : List Nat) (m n : Nat) (b : List Nat) :
    (∃ e, matmulBroadcastShape (A ++ [m, n]) b = .error e) ↔ torchMatmulShape? (A ++ [m, n]) b = none := by
  constructor
  · rintro ⟨e, he⟩
    cases h : torchMatmulShape? (A ++ [m, n]) b with
    | none => rfl
    | some s => rw [← matmulBroadcastShape_iff_torch] at h; rw [h] at he; cases he
  · intro h
    cases h' : matmulBroadcastShape (A ++ [m, n]) b with
    | error e => exact ⟨e, rfl⟩
    | ok s => rw [matmulBroadcastShape_iff_torch] at h'; rw [h] at h'; cases h'

/-- `inv_quad`'s guard = square ∧ torch-valid product, same shape. -/
theorem invQuadGuard_iff (A : List Nat) (m n : Nat) (b s : List Nat) :
    invQuadGuard (A ++ [m, n]) b = .ok s ↔ solveShape? (A ++ [m, n]) b = some s := by
  by_cases h : m = n
  · subst h
    simp only [invQuadGuard, solveShape?, split2_append]
    simpa using matmulBroadcastShape_iff_torch A m m b s
  · simp [invQuadGuard, solveShape?, split2_append, h]

/-- **Square-only operations raise on rectangular operators** (`solve`, `inv_quad`,
`inv_quad_logdet`, `add_diagonal`), whatever the second operand. -/
theorem square_only (A : List Nat) (m n : Nat) (b : List Nat) (h : m ≠ n) :
    solveGuard (A ++ [m, n]) b = .error .notSquare ∧
    invQuadGuard (A ++ [m, n]) b = .error .notSquare ∧
    iqlGuard (A ++ [m, n]) b = .error .notSquare ∧
    addDiagonalGuard (A ++ [m, n]) b = .error .notSquare := by
  simp [solveGuard, invQuadGuard, iqlGuard, addDiagonalGuard, split2_append, h]

/-- `inv_quad_logdet`'s stricter guard only lets torch-valid operands through. -/
theorem iqlGuard_sound (A : List Nat) (n : Nat) (B : List Nat) (k p : Nat)
    (h : iqlGuard (A ++ [n, n]) (B ++ [k, p]) = .ok ()) :
    solveShape? (A ++ [n, n]) (B ++ [k, p]) = some (A ++ [n, p]) := by
  have h1 : ¬ ((A ++ [n, n]).length = 2 ∧ (B ++ [k, p]).length = 1) := by simp
  simp only [iqlGuard, split2_append, ne_eq, not_true_eq_false, if_false, h1] at h
  split at h
  · cases h
  · split at h
    · cases h
    · rename_i hc
      have hAB : A = B := by
        by_cases hab : A = B
        · exact hab
        · exact absurd (Or.inl hab) hc
      have hnk : n = k := by
        by_cases hn : n = k
        · exact hn
        · exact absurd (Or.inr hn) hc
      subst hAB; subst hnk
      simp [solveShape?, split2_append, torch_mm_mat, broadcast_self]

/-! ### The matmul overrides: guard + shortcut.
`diagMatmul` / `identityMatmul` are the shortcuts the overrides compute *after* the guard; the counterexamples
show what the shortcut alone would accept (the defects D23 / D24 fixed by the guard), the `…Guarded_iff_torch`
theorems are the property for the code as it is. -/

/-- D23: Diag / ConstantDiag `matmul` multiplies elementwise: a 3×3 diagonal operator times a 1×2
tensor is accepted (result 3×2) although torch rejects it; likewise a length-1 vector. -/
theorem diagMatmul_counterexample :
    diagMatmul [] 3 [1, 2] = .ok [3, 2] ∧ torchMatmulShape? [3, 3] [1, 2] = none ∧
    diagMatmul [] 3 [1] = .ok [3] ∧ torchMatmulShape? [3, 3] [1] = none ∧
    diagMatmul [2] 3 [] = .ok [2, 3, 1] ∧ torchMatmulShape? [2, 3, 3] [] = none := by decide

/-- The elementwise shortcut is never too strict: everything torch accepts it accepts with torch's shape. -/
theorem diagMatmul_complete (A : List Nat) (n : Nat) (b s : List Nat)
    (h : torchMatmulShape? (A ++ [n, n]) b = some s) : diagMatmul A n b = .ok s := by
  rcases shape_cases b with rfl | ⟨p, rfl⟩ | ⟨B, k, p, rfl⟩
  · simp [torch_mm_scalar] at h
  · rw [torch_mm_vec] at h
    by_cases hp : n = p
    · subst hp
      simp at h
      subst h
      simp [diagMatmul, broadcast_append_vec]
    · simp [hp] at h
  · rw [torch_mm_mat] at h
    by_cases hk : n = k
    · subst hk
      have e4 : (B ++ [n, p]).length ≠ 1 := by simp
      simp only [diagMatmul, e4, if_false, broadcast_append_col]
      cases hb : broadcastShapes? A B with
      | none => simp [hb] at h
      | some bc => simp [hb] at h; subst h; simp
    · simp [hk] at h

/-- *Partial* form of the property for Diag/ConstantDiag: when the operand's row count already
equals the matrix size, the override accepts exactly what torch accepts (batches included). -/
theorem diagMatmul_partial (A B : List Nat) (n p : Nat) (s : List Nat) :
    diagMatmul A n (B ++ [n, p]) = .ok s ↔ torchMatmulShape? (A ++ [n, n]) (B ++ [n, p]) = some s := by
  have e4 : (B ++ [n, p]).length ≠ 1 := by simp
  rw [torch_mm_mat]
  simp only [diagMatmul, e4, if_false, broadcast_append_col, if_true]
  cases broadcastShapes? A B <;> simp

/-- D24: Identity `matmul` / `solve` return the argument: 3×3 identity "times" a 4×2 tensor is 4×2. -/
theorem identityMatmul_counterexample :
    identityMatmul [] 3 [4, 2] = .ok [4, 2] ∧ torchMatmulShape? [3, 3] [4, 2] = none ∧
    identityMatmul [2] 3 [5] = .ok [2, 5] ∧ torchMatmulShape? [2, 3, 3] [5] = none := by decide

/-- *Partial*: for operands whose row count is the matrix size, Identity agrees with torch. -/
theorem identityMatmul_partial (A B : List Nat) (n p : Nat) (s : List Nat) :
    identityMatmul A n (B ++ [n, p]) = .ok s ↔ torchMatmulShape? (A ++ [n, n]) (B ++ [n, p]) = some s := by
  have e4 : ¬ (B ++ [n, p]).length = 1 := by simp
  rw [torch_mm_mat]
  simp only [identityMatmul, e4, if_false, take_append_two, drop_append_two, if_true]
  by_cases hAB : A = B
  · subst hAB; simp [broadcast_self]
  · rw [broadcast_comm B A]
    simp only [ne_eq, hAB, not_false_eq_true, if_true]
    cases broadcastShapes? A B <;> simp

/-- regression counterexample for the pre-fix Zero `matmul` (it forgot its own batch shape); today's Zero `matmul`
returns the base guard's shape (`matmulVerdict .zero`), covered by `matmulBroadcastShape_iff_torch`. -/
theorem zeroMatmul_counterexample :
    zeroMatmul [2, 3, 3] [3, 2] = .ok [3, 2] ∧ torchMatmulShape? [2, 3, 3] [3, 2] = some [2, 3, 2] ∧
    zeroMatmul [2, 3, 3] [3, 3, 2] = .ok [3, 3, 2] ∧ torchMatmulShape? [2, 3, 3] [3, 3, 2] = none := by decide

/-- *Partial*: for an unbatched Zero operator the override agrees with torch. -/
theorem zeroMatmul_partial (m n : Nat) (b s : List Nat) :
    zeroMatmul [m, n] b = .ok s ↔ torchMatmulShape? [m, n] b = some s := by
  have hs : split2 [m, n] = some ([], m, n) := split2_append [] m n
  rcases shape_cases b with rfl | ⟨p, rfl⟩ | ⟨B, k, p, rfl⟩
  · simp [zeroMatmul, torch_mm_scalar, hs]
  · have := torch_mm_vec [] m n p
    simp only [List.nil_append] at this
    rw [this]
    by_cases h : n = p
    · subst h; simp [zeroMatmul, hs]
    · simp [zeroMatmul, hs, h]
  · have := torch_mm_mat [] B m n k p
    simp only [List.nil_append] at this
    rw [this]
    by_cases h : n = k
    · subst h; simp [zeroMatmul, hs, broadcast_nil_left]
    · simp [zeroMatmul, hs, h]

/-- **Diag / ConstantDiag / KroneckerProductDiag `matmul(Tensor)` accepts exactly what torch accepts, with torch's
shape** (guard, then elementwise shortcut) — all batch ranks, all operand ranks. -/
theorem diagMatmulGuarded_iff_torch (A : List Nat) (n : Nat) (b s : List Nat) :
    diagMatmulGuarded A n b = .ok s ↔ torchMatmulShape? (A ++ [n, n]) b = some s := by
  simp only [diagMatmulGuarded]
  cases hg : matmulBroadcastShape (A ++ [n, n]) b with
  | error e =>
    have hn := (matmulBroadcastShape_error_iff_torch_none A n n b).mp ⟨e, hg⟩
    simp [hn]
  | ok t =>
    have ht := (matmulBroadcastShape_iff_torch A n n b t).mp hg
    have hd := diagMatmul_complete A n b t ht
    simp [hd, ht]

/-- the Identity shortcut returns torch's shape on everything torch accepts. -/
theorem identityMatmul_complete (A : List Nat) (n : Nat) (b s : List Nat)
    (h : torchMatmulShape? (A ++ [n, n]) b = some s) : identityMatmul A n b = .ok s := by
  rcases shape_cases b with rfl | ⟨p, rfl⟩ | ⟨B, k, p, rfl⟩
  · simp [torch_mm_scalar] at h
  · rw [torch_mm_vec] at h
    by_cases hp : n = p
    · subst hp
      simp at h
      subst h
      by_cases hA : A = []
      · subst hA; simp [identityMatmul]
      · simp [identityMatmul, hA, broadcast_nil_left]
    · simp [hp] at h
  · by_cases hk : n = k
    · subst hk; exact (identityMatmul_partial A B n p s).mpr h
    · rw [torch_mm_mat] at h; simp [hk] at h

/-- **Identity `matmul` / `solve` accept exactly what torch accepts, with torch's shape.** -/
theorem identityMatmulGuarded_iff_torch (A : List Nat) (n : Nat) (b s : List Nat) :
    identityMatmulGuarded A n b = .ok s ↔ torchMatmulShape? (A ++ [n, n]) b = some s := by
  simp only [identityMatmulGuarded]
  cases hg : matmulBroadcastShape (A ++ [n, n]) b with
  | error e =>
    have hn := (matmulBroadcastShape_error_iff_torch_none A n n b).mp ⟨e, hg⟩
    simp [hn]
  | ok t =>
    have ht := (matmulBroadcastShape_iff_torch A n n b t).mp hg
    have hd := identityMatmul_complete A n b t ht
    simp [hd, ht]

/-- int and tensor indices are accepted by `__getitem__` exactly when every entry is a valid torch index. -/
theorem tensorIndexGuard_iff (size : Nat) (l : List Int) :
    tensorIndexGuard size l = .ok () ↔ ∀ i ∈ l, indexValid size i = true := by
  simp only [tensorIndexGuard]
  split <;> simp_all

/-! ### Elementwise operations, expand, cat -/

/-- The base `expand` guard raises whenever fewer than two sizes are given or the last two are
neither the matrix shape nor `(-1, -1)`. -/
theorem expandMatrixGuard_sizes (A : List Nat) (m n : Nat) (S : List Int) (r c : Int) (batch : List Int)
    (h : expandMatrixGuard (A ++ [m, n]) (S ++ [r, c]) = .ok batch) :
    batch = S ∧ ((r = m ∧ c = n) ∨ (r = -1 ∧ c = -1)) := by
  simp only [expandMatrixGuard, split2_append, List.reverse_append, List.reverse_cons, List.reverse_nil,
    List.nil_append, List.cons_append, List.reverse_reverse] at h
  split at h
  · rename_i hc; simp at h; exact ⟨h.symm, hc⟩
  · cases h

/-- Cat's `_check_args` (which only runs under `settings.debug`) accepts exactly what `torch.cat`
accepts, for ≥ 2 operands and a cat dimension inside the rank. -/
theorem catCheckArgs_iff (s0 s1 : List Nat) (rest : List (List Nat)) (dim : Nat) (hd : dim < s0.length) :
    catCheckArgs (s0 :: s1 :: rest) dim = .ok () ↔ (catShape? (s0 :: s1 :: rest) dim).isSome := by
  have hd' : ¬ dim ≥ s0.length := by omega
  simp only [catCheckArgs, catShape?, hd', if_false]
  split <;> simp

/-! ### Index ranges -/

/-- The debug-mode range check `range(size)[i]` accepts exactly torch's valid integers
`-size ≤ i < size` — for every size and every integer. -/
theorem rangeCheck_iff_indexValid (size : Nat) (i : Int) :
    (∃ k, rangeCheck size i = .ok k) ↔ indexValid size i = true := by
  simp only [rangeCheck, indexValid, Bool.and_eq_true, decide_eq_true_eq]
  constructor
  · rintro ⟨k, hk⟩
    split at hk
    · split at hk
      · omega
      · cases hk
    · split at hk
      · omega
      · cases hk
  · intro ⟨h1, h2⟩
    by_cases h0 : 0 ≤ i
    · exact ⟨i.toNat, by simp [h0, h2]⟩
    · have : 0 ≤ (size : Int) + i := by omega
      exact ⟨((size : Int) + i).toNat, by simp [h0, this]⟩

/-- …and normalises a valid index to the torch position. -/
theorem rangeCheck_value (size : Nat) (i : Int) (k : Nat) (h : rangeCheck size i = .ok k) :
    (k : Int) = if 0 ≤ i then i else size + i := by
  simp only [rangeCheck] at h
  split at h
  · split at h
    · simp at h; omega
    · cases h
  · split at h
    · simp at h; omega
    · cases h

/-- Why the unconditional `intIndexGuard` is load-bearing: the later rewrite of an int to `slice(i, i+1)`
selects **zero** rows for every out-of-range `i` — no exception, an empty result. -/
theorem intAsSlice_out_of_range_selects_nothing (size : Nat) (i : Int) (h : indexValid size i = false) :
    intAsSliceLen size i = 0 := by
  simp only [indexValid, Bool.and_eq_false_iff, decide_eq_false_iff_not] at h
  simp only [intAsSliceLen, sliceBound]
  split <;> split <;> omega

/-- The rewrite is right exactly for `0 ≤ i < size` and `-size ≤ i < -1` (it loses `i = -1`, D06). -/
theorem intAsSlice_selects_one_iff (size : Nat) (i : Int) :
    intAsSliceLen size i = 1 ↔ (0 ≤ i ∧ i < size) ∨ (-(size : Int) ≤ i ∧ i < -1) := by
  simp only [intAsSliceLen, sliceBound]
  split <;> split <;> omega

/-- D25: Toeplitz `_get_indices` maps *every* pair of integers into the column — it can never
raise, whatever the indices. -/
theorem toeplitzIndex_never_out_of_range (n : Nat) (hn : 0 < n) (i j : Int) : toeplitzIndex n i j < n := by
  simp only [toeplitzIndex]
  have h1 := Int.tmod_lt_of_pos (i - j) (show (0 : Int) < n by omega)
  have h2 : -(n : Int) < (i - j).tmod n := by
    have := Int.lt_tmod_of_pos (i - j) (show (0 : Int) < n by omega)
    simpa using this
  omega

/-- *Partial*: for in-range indices the Toeplitz lookup is the dense entry's `|i − j|`. -/
theorem toeplitzIndex_in_range (n : Nat) (i j : Nat) (hi : i < n) (hj : j < n) :
    toeplitzIndex n i j = ((i : Int) - j).natAbs := by
  simp only [toeplitzIndex]
  have hlt : ((i : Int) - j).natAbs < n := by omega
  rw [Int.natAbs_tmod]
  simp only [Int.natAbs_natCast]
  exact Nat.mod_eq_of_lt hlt

theorem toeplitzIndex_counterexample :
    toeplitzIndex 3 3 0 = 0 ∧ indexValid 3 3 = false := by decide

/-- Kronecker / Block / BatchRepeat use `fmod(size)` on tensor indices: in range it is the
identity (partial), out of range it wraps silently (counterexample). -/
theorem fmodIndex_in_range (size : Nat) (i : Nat) (h : i < size) : fmodIndex size i = i := by
  simp only [fmodIndex]
  exact Int.tmod_eq_of_lt (by omega) (by omega)

theorem fmodIndex_wraps_counterexample : fmodIndex 2 2 = 0 ∧ indexValid 2 2 = false ∧
    fmodIndex 2 (-3) = -1 := by decide

/-! ### Elementwise guards, add_diagonal, inv_quad_logdet, Dense expand: exact characterisations -/

/-- **base `add_diagonal` accepts a diagonal exactly when torch accepts `dense + diag_embed(d)` AND the sum keeps the
operator's own shape** — every batch rank, every diag shape (0-d, `(…, n)`, `(…, 1)`).  (torch additionally lets `d` add new
batch dimensions, which the guard refuses: `addDiagonalGuard_stricter_example`.) -/
theorem addDiagonalGuard_iff (A : List Nat) (n : Nat) (d : List Nat) :
    addDiagonalGuard (A ++ [n, n]) d = .ok (A ++ [n, n]) ↔
      addDiagonalShape? (A ++ [n, n]) d = some (A ++ [n, n]) := by
  rcases shape_cases1 d with rfl | ⟨D, k, rfl⟩
  · simp [addDiagonalGuard, addDiagonalShape?, split2_append]
  · have hb : (broadcastShapes? A D).map (· ++ [n, n]) = some (A ++ [n, n]) ↔ broadcastShapes? A D = some A := by
      cases broadcastShapes? A D with
      | none => simp
      | some r => simp
    simp only [addDiagonalGuard, addDiagonalShape?, split2_append, ne_eq, not_true_eq_false, if_false,
      List.reverse_append, List.reverse_cons, List.reverse_nil, List.nil_append, List.cons_append,
      List.reverse_reverse, expandOk_append_one]
    by_cases hk : k = 1
    · subst hk
      simp only [not_true_eq_false, if_false, decide_true, Bool.or_true, Bool.true_and, or_true, if_true, hb]
      rw [← expandOk_iff_broadcast D A]
      cases expandOk D A <;> simp
    · simp only [hk, not_false_eq_true, if_true, decide_false, Bool.or_false, or_false]
      by_cases hn : k = n
      · subst hn
        simp only [decide_true, Bool.true_and, if_true, hb]
        rw [← expandOk_iff_broadcast D A]
        cases expandOk D A <;> simp
      · simp [hn]
/-- torch accepts a diag with an extra batch dimension (result 2×3×3); the library's guard is stricter. -/
theorem addDiagonalGuard_stricter_example :
    addDiagonalGuard [3, 3] [2, 3] = .error .shape ∧ addDiagonalShape? [3, 3] [2, 3] = some [2, 3, 3] := by decide

/-- base `mul` (tensor / operator operand) accepts exactly torch-broadcastable shapes, with the broadcast shape. -/
theorem mulGuard_iff (a b s : List Nat) : mulGuard a b = .ok s ↔ broadcastShapes? a b = some s := by
  simp only [mulGuard]
  cases broadcastShapes? a b <;> simp

/-- base `__add__(Tensor)` under `settings.debug`: exactly the ≥ 2-d tensors whose shape broadcasts with the operator's. -/
theorem addTensorGuard_iff (a b s : List Nat) :
    addTensorGuard a b = .ok s ↔ 2 ≤ b.length ∧ broadcastShapes? a b = some s := by
  simp only [addTensorGuard]
  by_cases h : b.length < 2
  · simp [h]; omega
  · simp only [h, if_false, mulGuard_iff]
    constructor
    · intro hs; exact ⟨by omega, hs⟩
    · intro ⟨_, hs⟩; exact hs

/-- whatever `add_diagonal` accepts, the result has the operator's shape. -/
theorem addDiagonalGuard_shape (a d s : List Nat) (h : addDiagonalGuard a d = .ok s) : s = a := by
  simp only [addDiagonalGuard] at h
  split at h
  · cases h
  · split at h
    · cases h
    · split at h
      · simp at h; exact h.symm
      · split at h
        · split at h
          · simp at h; exact h.symm
          · cases h
        · split at h
          · simp at h; exact h.symm
          · cases h

/-- `inv_quad_logdet`'s guard (CG path), matrix right-hand sides: accepted iff same batch shape and matching rows
(strictly stronger than torch: no batch broadcasting). -/
theorem iqlGuard_iff (A B : List Nat) (n k p : Nat) :
    iqlGuard (A ++ [n, n]) (B ++ [k, p]) = .ok () ↔ A.length = B.length ∧ A = B ∧ n = k := by
  have h1 : ¬ ((A ++ [n, n]).length = 2 ∧ (B ++ [k, p]).length = 1) := by simp
  simp only [iqlGuard, split2_append, ne_eq, not_true_eq_false, if_false, h1]
  by_cases hl : (A ++ [n, n]).length = (B ++ [k, p]).length
  · simp only [hl, not_true_eq_false, if_false]
    have hl' : A.length = B.length := by simpa using hl
    by_cases hc : A = B ∧ n = k
    · obtain ⟨rfl, rfl⟩ := hc; simp
    · have : ¬A = B ∨ ¬n = k := by
        by_cases ha : A = B
        · right; intro hn; exact hc ⟨ha, hn⟩
        · left; exact ha
      simp only [this, if_true]
      constructor
      · intro h; cases h
      · intro ⟨_, h2, h3⟩; exact absurd ⟨h2, h3⟩ hc
  · simp only [hl, not_false_eq_true, if_true]
    constructor
    · intro h; cases h
    · intro ⟨h, _⟩; exfalso; apply hl; simp [h]

/-- …and for a vector against an unbatched operator: accepted iff the length matches. -/
theorem iqlGuard_vec (n p : Nat) : iqlGuard [n, n] [p] = .ok () ↔ n = p := by
  have hs : split2 [n, n] = some ([], n, n) := split2_append [] n n
  simp only [iqlGuard, hs]
  by_cases h : n = p <;> simp [h]

/-- **Dense `expand` (base guard + `tensor.expand`) accepts exactly what torch's `expand` accepts on the dense tensor, with
the same result shape**, for both admissible spellings of the matrix sizes. -/
theorem denseExpand_iff_torch (A : List Nat) (m n : Nat) (S : List Int) (r c : Int)
    (h : (r = m ∧ c = n) ∨ (r = -1 ∧ c = -1)) (s : List Nat) :
    denseExpand (A ++ [m, n]) (S ++ [r, c]) = .ok s ↔ torchExpand? (A ++ [m, n]) (S ++ [r, c]) = some s := by
  have hg : expandMatrixGuard (A ++ [m, n]) (S ++ [r, c]) = .ok S := by
    simp [expandMatrixGuard, split2_append, h]
  have hn : ¬ ((n : Int) = -1) := by omega
  have hm : ¬ ((m : Int) = -1) := by omega
  have hn0 : ¬ ((n : Int) < 0) := by omega
  have hm0 : ¬ ((m : Int) < 0) := by omega
  have key : torchExpand? (A ++ [m, n]) (S ++ [r, c]) = torchExpand? (A ++ [m, n]) (S ++ [(m : Int), (n : Int)]) := by
    rcases h with ⟨rfl, rfl⟩ | ⟨rfl, rfl⟩
    · rfl
    · simp [torchExpand?, torchExpandRev, hn, hm, hn0, hm0]
  rw [key]
  simp only [denseExpand, split2_append, expandGuard, hg]
  by_cases hb : expandBatchOkRev A.reverse S.reverse = true
  · simp only [hb, if_true]
    cases torchExpand? (A ++ [m, n]) (S ++ [(m : Int), (n : Int)]) <;> simp
  · have hb' : expandBatchOkRev A.reverse S.reverse = false := by simpa using hb
    have hnone : torchExpand? (A ++ [m, n]) (S ++ [(m : Int), (n : Int)]) = none := by
      have h2 : (torchExpandRev A.reverse S.reverse).isSome = false := by
        cases hx : (torchExpandRev A.reverse S.reverse).isSome with
        | false => rfl
        | true => rw [← expandBatchOkRev_iff_torch] at hx; rw [hx] at hb'; cases hb'
      simp only [torchExpand?, List.reverse_append, List.reverse_cons, List.reverse_nil, List.nil_append,
        List.cons_append, torchExpandRev, hn, hm, hn0, hm0, if_false, true_or, if_true]
      cases hx : torchExpandRev A.reverse S.reverse with
      | none => simp
      | some v => simp [hx] at h2
    simp [hb', hnone]

/-- **The executable `broadcastShapes?` (used by every guard model) is exactly torch's broadcasting rule**, stated as a
relation: result rank = the larger rank; right-aligned, each pair of sizes is equal or contains a 1; the result takes
the non-1 size — for all ranks and sizes. -/
theorem broadcastShapes_iff_rel (a b s : List Nat) :
    broadcastShapes? a b = some s ↔ BroadcastRel a.reverse b.reverse s.reverse := by
  rw [← bcastRev_rel]
  simp only [broadcastShapes?]
  cases bcastRev a.reverse b.reverse with
  | none => simp
  | some r =>
    simp only [Option.map_some, Option.some.injEq]
    constructor
    · intro h; rw [← h]; simp
    · intro h; rw [h]; simp

example : BroadcastRel [3, 1, 2] [3, 4] [3, 4, 2] := by
  rw [← bcastRev_rel]; decide

example : addDiagonalGuard [2, 3, 3] [3] = .ok [2, 3, 3] ∧ addDiagonalGuard [2, 3, 3] [2, 1] = .ok [2, 3, 3] := by decide
example : denseExpand [1, 3, 3] [4, 2, -1, -1] = .ok [4, 2, 3, 3] := by decide
example : iqlGuard [2, 3, 3] [2, 3, 5] = .ok () := by decide

/-! ### `solve` and `expand` -/

/-- base `solve` accepts exactly the right-hand sides for which `A⁻¹R` exists (square ∧ torch-valid
product), with the result's shape — all batch ranks, all operand ranks. -/
theorem solveGuard_iff (A : List Nat) (m n : Nat) (b s : List Nat) :
    solveGuard (A ++ [m, n]) b = .ok s ↔ solveShape? (A ++ [m, n]) b = some s :=
  invQuadGuard_iff A m n b s

/-- `solve` with a `left_tensor`: accepted exactly when `A⁻¹R` exists and `L (A⁻¹R)` is a valid product, with that
shape — the right-hand side is judged against the operator, not against the left tensor. -/
theorem solveLeft_iff (A : List Nat) (m n : Nat) (b l s : List Nat) :
    solveLeft (A ++ [m, n]) b l = .ok s ↔ solveLeftShape? (A ++ [m, n]) b l = some s := by
  simp only [solveLeft, solveLeftShape?]
  cases hg : solveGuard (A ++ [m, n]) b with
  | error e =>
    have hn : solveShape? (A ++ [m, n]) b = none := by
      cases hs : solveShape? (A ++ [m, n]) b with
      | none => rfl
      | some t => rw [← solveGuard_iff] at hs; rw [hs] at hg; cases hg
    simp [hn]
  | ok t =>
    have ht := (solveGuard_iff A m n b t).mp hg
    simp only [ht, Option.bind_some]
    cases torchMatmulShape? l t <;> simp

/-- why the order matters: a left tensor that fits a wrong right-hand side (4 rows for a 5×5 operator) makes
`left_tensor @ right_tensor` a valid product although `A⁻¹R` does not exist. -/
theorem solveLeftUnguarded_counterexample :
    solveLeftUnguarded [5, 5] [4, 2] [2, 4] = .ok [2, 2] ∧ solveLeftShape? [5, 5] [4, 2] [2, 4] = none ∧
    solveLeft [5, 5] [4, 2] [2, 4] = .error .shape := by decide

/-- base `expand`: for the two admissible spellings of the matrix sizes, the guard accepts exactly the
size lists torch's `expand` accepts for the dense tensor (any batch rank, `-1` included). -/
theorem expandGuard_iff_torch (A : List Nat) (m n : Nat) (S : List Int) (r c : Int)
    (h : (r = m ∧ c = n) ∨ (r = -1 ∧ c = -1)) :
    expandGuard (A ++ [m, n]) (S ++ [r, c]) = .ok S ↔
      (torchExpand? (A ++ [m, n]) (S ++ [r, c])).isSome = true := by
  have hg : expandMatrixGuard (A ++ [m, n]) (S ++ [r, c]) = .ok S := by
    simp [expandMatrixGuard, split2_append, h]
  simp only [expandGuard, split2_append, hg, torchExpand?, Option.isSome_map, List.reverse_append,
    List.reverse_cons, List.reverse_nil, List.nil_append, List.cons_append]
  rcases h with ⟨rfl, rfl⟩ | ⟨rfl, rfl⟩
  · have hn : ¬ ((n : Int) = -1) := by omega
    have hm : ¬ ((m : Int) = -1) := by omega
    have hn0 : ¬ ((n : Int) < 0) := by omega
    have hm0 : ¬ ((m : Int) < 0) := by omega
    simp only [torchExpandRev, hn, hm, hn0, hm0, if_false, true_or, if_true, Option.isSome_map]
    rw [← expandBatchOkRev_iff_torch]
    cases expandBatchOkRev A.reverse S.reverse <;> simp
  · simp only [torchExpandRev, if_true, Option.isSome_map]
    rw [← expandBatchOkRev_iff_torch]
    cases expandBatchOkRev A.reverse S.reverse <;> simp

/-- the entry check of `__getitem__` returns a position inside the dimension -/
theorem rangeCheck_lt (size : Nat) (i : Int) (k : Nat) (h : rangeCheck size i = .ok k) : k < size := by
  simp only [rangeCheck] at h
  split at h
  · split at h
    · simp at h; omega
    · cases h
  · split at h
    · simp at h; omega
    · cases h

/-- **With the entry check in place the modular `_get_indices` (Kronecker / Block / BatchRepeat `fmod`) cannot wrap**:
on every index the guard lets through (normalised to `k`), `fmod(size)` is the identity. -/
theorem guarded_fmodIndex_is_identity (size : Nat) (i : Int) (k : Nat) (h : rangeCheck size i = .ok k) :
    fmodIndex size k = k :=
  fmodIndex_in_range size k (rangeCheck_lt size i k h)

/-- …and Toeplitz' `(row − col).fmod(n).abs()` is the dense entry's `|r − c|` for every guarded index pair. -/
theorem guarded_toeplitzIndex (n : Nat) (i j : Int) (r c : Nat)
    (hi : rangeCheck n i = .ok r) (hj : rangeCheck n j = .ok c) :
    toeplitzIndex n r c = ((r : Int) - c).natAbs :=
  toeplitzIndex_in_range n r c (rangeCheck_lt n i r hi) (rangeCheck_lt n j c hj)

example : rangeCheck 4 (-1) = .ok 3 := by decide


/-! ### Operator ⋆ operator shortcuts on the internal tensors (BlockDiag @ BlockDiag, Diag @ Diag, ConstantDiag ± ConstantDiag) -/

/-- **`BlockDiag @ BlockDiag` (guard first, then the block-wise shortcut for EQUAL base shapes) accepts exactly what torch accepts
for the two dense block-diagonal matrices, with torch's shape** — for all batch shapes `B`, `B'`, block counts `nb`, `nb'` and
block sizes `k`, `j`. -/
theorem blockDiagPairMatmul_iff_torch (B B' : List Nat) (nb k nb' j : Nat) (s : List Nat) :
    blockDiagPairMatmul (B ++ [nb, k, k]) (B' ++ [nb', j, j]) = .ok s ↔
      torchMatmulShape? (B ++ [nb * k, nb * k]) (B' ++ [nb' * j, nb' * j]) = some s := by
  simp only [blockDiagPairMatmul, blockDiagShape_append]
  cases hgd : matmulBroadcastShape (B ++ [nb * k, nb * k]) (B' ++ [nb' * j, nb' * j]) with
  | error e =>
    have hn := (matmulBroadcastShape_error_iff_torch_none B (nb * k) (nb * k) (B' ++ [nb' * j, nb' * j])).mp ⟨e, hgd⟩
    simp [hn]
  | ok g =>
    have htg := (matmulBroadcastShape_iff_torch B (nb * k) (nb * k) (B' ++ [nb' * j, nb' * j]) g).mp hgd
    by_cases he : B ++ [nb, k, k] = B' ++ [nb', j, j]
    · obtain ⟨hB, ht⟩ := List.append_inj' he (by simp)
      subst hB
      simp only [List.cons.injEq, and_true] at ht
      obtain ⟨rfl, rfl, _⟩ := ht
      have h1 : B ++ [nb, k, k] = (B ++ [nb]) ++ [k, k] := by simp
      have hg : matmulBroadcastShape (B ++ [nb, k, k]) (B ++ [nb, k, k]) = .ok (B ++ [nb, k, k]) := by
        rw [h1, matmulBroadcastShape_iff_torch, torch_mm_mat]
        simp [broadcast_self]
      simp only [if_true, blockDiagOfBaseProduct, hg, blockDiagShape_append, torch_mm_mat, broadcast_self,
        Option.map_some]
      constructor
      · intro h; cases h; rfl
      · intro h; cases h; rfl
    · simp only [he, if_false, htg]
      constructor
      · intro h; cases h; rfl
      · intro h; cases h; rfl

/-- Statement about the PREVIOUS code (before 53611b1, shortcut tried before any guard): with the equal-base-shape condition
it, too, accepted exactly what torch accepts. -/
theorem blockDiagPairMatmulUnguarded_iff_torch (B B' : List Nat) (nb k nb' j : Nat) (s : List Nat) :
    blockDiagPairMatmulUnguarded (B ++ [nb, k, k]) (B' ++ [nb', j, j]) = .ok s ↔
      torchMatmulShape? (B ++ [nb * k, nb * k]) (B' ++ [nb' * j, nb' * j]) = some s := by
  simp only [blockDiagPairMatmulUnguarded, blockDiagShape_append]
  by_cases he : B ++ [nb, k, k] = B' ++ [nb', j, j]
  · obtain ⟨hB, ht⟩ := List.append_inj' he (by simp)
    subst hB
    simp only [List.cons.injEq, and_true] at ht
    obtain ⟨rfl, rfl, _⟩ := ht
    have h1 : B ++ [nb, k, k] = (B ++ [nb]) ++ [k, k] := by simp
    have hg : matmulBroadcastShape (B ++ [nb, k, k]) (B ++ [nb, k, k]) = .ok (B ++ [nb, k, k]) := by
      rw [h1, matmulBroadcastShape_iff_torch, torch_mm_mat]
      simp [broadcast_self]
    simp only [if_true, blockDiagOfBaseProduct, hg, blockDiagShape_append, torch_mm_mat, broadcast_self,
      Option.map_some]
    constructor
    · intro h; cases h; rfl
    · intro h; cases h; rfl
  · simp only [he, if_false]
    exact matmulBroadcastShape_iff_torch B (nb * k) (nb * k) _ s

/-- Statement about the PREVIOUS (unguarded) structure — why its condition had to compare the WHOLE base shape, and why the
guard now comes first: with "same block size" only, a 1-block 3×3 operator times a
2-block 6×6 operator is accepted (the size-1 block dimension broadcasts inside `base @ base`) and yields a 6×6 result,
although torch refuses (3×3)@(6×6); likewise against a batched base, in both orders. -/
theorem blockDiagPairMatmulLoose_counterexample :
    blockDiagPairMatmulLoose [1, 3, 3] [2, 3, 3] = .ok [6, 6] ∧ torchMatmulShape? [3, 3] [6, 6] = none ∧
    blockDiagPairMatmulLoose [2, 3, 3] [1, 3, 3] = .ok [6, 6] ∧ torchMatmulShape? [6, 6] [3, 3] = none ∧
    blockDiagPairMatmulLoose [1, 3, 3] [2, 2, 3, 3] = .ok [2, 6, 6] ∧ torchMatmulShape? [3, 3] [2, 6, 6] = none ∧
    blockDiagPairMatmul [1, 3, 3] [2, 3, 3] = .error .shape ∧ blockDiagPairMatmul [1, 3, 3] [2, 2, 3, 3] = .error .shape := by
  decide

/-- **`Diag @ Diag` (guard, then the elementwise product of the two diagonals) accepts exactly what torch accepts for the
dense diagonal matrices, with torch's shape** — all batch shapes, all diagonal lengths. -/
theorem diagPairMatmul_iff_torch (A : List Nat) (n : Nat) (B : List Nat) (m : Nat) (s : List Nat) :
    diagPairMatmul A n B m = .ok s ↔ torchMatmulShape? (A ++ [n, n]) (B ++ [m, m]) = some s := by
  simp only [diagPairMatmul]
  cases hg : matmulBroadcastShape (A ++ [n, n]) (B ++ [m, m]) with
  | error e =>
    have hn := (matmulBroadcastShape_error_iff_torch_none A n n (B ++ [m, m])).mp ⟨e, hg⟩
    simp [hn]
  | ok t =>
    have ht := (matmulBroadcastShape_iff_torch A n n (B ++ [m, m]) t).mp hg
    rw [torch_mm_mat] at ht ⊢
    by_cases hnm : n = m
    · subst hnm
      simp only [if_true] at ht ⊢
      rw [broadcast_append_same]
      cases hb : broadcastShapes? A B with
      | none => simp [hb] at ht
      | some bc => simp
    · simp [hnm] at ht

/-- the product of the diagonals alone (shortcut in front of the guard) broadcasts a length-1 diagonal: a 1×1 diagonal
operator times a 3×3 one would be 3×3. -/
theorem diagPairMatmulUnguarded_counterexample :
    diagPairMatmulUnguarded [] 1 [] 3 = .ok [3, 3] ∧ torchMatmulShape? [1, 1] [3, 3] = none ∧
    diagPairMatmul [] 1 [] 3 = .error .shape := by decide

/-- **`ConstantDiag + ConstantDiag` (also Identity, and `-`): whatever the shortcut accepts torch accepts for the dense
matrices, with the same shape** — all batch shapes of the constants, all matrix sizes. -/
theorem constantDiagPairAdd_sound (A : List Nat) (n : Nat) (B : List Nat) (m : Nat) (s : List Nat)
    (h : constantDiagPairAdd A n B m = .ok s) : broadcastShapes? (A ++ [n, n]) (B ++ [m, m]) = some s := by
  simp only [constantDiagPairAdd] at h
  by_cases hnm : n = m
  · subst hnm
    simp only [ne_eq, not_true_eq_false, if_false, broadcast_append_same] at h
    rw [broadcast_append_same2]
    cases hb : broadcastShapes? A B with
    | none => simp [hb] at h
    | some bc => simp [hb] at h; simp [h]
  · simp [hnm] at h

/-- …and for equal matrix sizes it accepts exactly the broadcastable batch shapes. -/
theorem constantDiagPairAdd_iff (A B : List Nat) (n : Nat) (s : List Nat) :
    constantDiagPairAdd A n B n = .ok s ↔ broadcastShapes? (A ++ [n, n]) (B ++ [n, n]) = some s := by
  simp only [constantDiagPairAdd, ne_eq, not_true_eq_false, if_false, broadcast_append_same, broadcast_append_same2]
  cases broadcastShapes? A B <;> simp

/-- different matrix sizes always raise (the `diag_shape` comparison), whatever the batch shapes of the constants -/
theorem constantDiagPairAdd_size_mismatch (A B : List Nat) (n m : Nat) (h : n ≠ m) :
    constantDiagPairAdd A n B m = .error .shape := by
  simp [constantDiagPairAdd, h]

/-- Why the size comparison is load-bearing: the two `(*batch, 1)` constants always broadcast, so without it `c₁·I₃ + c₂·I₄`
is a 3×3 operator (and `c₁·I₄ + c₂·I₁` a 4×4 one with the wrong off-diagonal), although torch refuses (3×3)+(4×4). -/
theorem constantDiagPairAddUnchecked_counterexample :
    constantDiagPairAddUnchecked [] 3 [] 4 = .ok [3, 3] ∧ broadcastShapes? [3, 3] [4, 4] = none ∧
    constantDiagPairAddUnchecked [2] 4 [] 3 = .ok [2, 4, 4] ∧ broadcastShapes? [2, 4, 4] [3, 3] = none ∧
    constantDiagPairAdd [] 3 [] 4 = .error .shape := by decide

example : blockDiagPairMatmul [2, 3, 3] [2, 3, 3] = .ok [6, 6] ∧ diagPairMatmul [2] 3 [] 3 = .ok [2, 3, 3] ∧
    constantDiagPairAdd [2] 3 [1] 3 = .ok [2, 3, 3] := by decide

/-! ### Square-requirement guards -/

/-- **A method with the `is_square` guard accepts an operator exactly when it is square; a method without it accepts every
shape** — any batch rank. -/
theorem squareGuard_iff (g : Bool) (A : List Nat) (m n : Nat) :
    squareGuard g (A ++ [m, n]) = .ok () ↔ (g = true → m = n) := by
  simp only [squareGuard, split2_append]
  cases g <;> by_cases h : m = n <;> simp [h]

/-- a guarded method raises `notSquare` on every rectangular operator -/
theorem squareGuard_rect (A : List Nat) (m n : Nat) (h : m ≠ n) :
    squareGuard true (A ++ [m, n]) = .error .notSquare := by
  simp [squareGuard, split2_append, h]

/-- class level: if the first class of the MRO that defines `method` carries the guard in the table, the method raises on
every rectangular operator; the verdict depends on that class's row only. -/
theorem squareGuardOf_rect (table : List ((String × String) × Bool)) (mro : List String) (method : String)
    (A : List Nat) (m n : Nat) (h : m ≠ n)
    (hd : mro.findSome? (fun c => table.lookup (c, method)) = some true) :
    squareGuardOf table mro method (A ++ [m, n]) = .error .notSquare := by
  simp [squareGuardOf, hd, squareGuard_rect A m n h]

example : squareGuardOf [(("LinearOperator", "solve"), true)] ["DenseLinearOperator", "LinearOperator"] "solve" [2, 3, 4]
    = .error .notSquare := by decide

/-! ### Obligations over the table regenerated from the source on every run -/

/-- How the shape / index guard of a public entry point is accounted for. -/
inductive GuardRef
  | lemma (thm : Lean.Name)                 -- its own guard is modelled; `thm` is the proved characterisation
  | via (method : String) (thm : Lean.Name) -- forwards its operand to public `method`, whose guard lemma is `thm`
  | alwaysRaises                            -- raises for every operand (ZeroLinearOperator is not invertible)
  | scalarOnly                              -- takes a python scalar only; no shape to check
  | sweepOnly                               -- no proved guard: covered by the implementation sweep against torch only
  | uncovered                               -- neither proved nor swept (base sqrt_inv_matmul: contour-integral quadrature)

def GuardRef.proved : GuardRef → Bool
  | .lemma _ | .via _ _ | .alwaysRaises | .scalarOnly => true
  | _ => false

/-- entry point ↦ guard lemma.  The names are checked by the elaborator (``` ``name ``` must resolve to a declaration). -/
def guardTable : List ((String × String) × GuardRef) := [
  (("AddedDiagLinearOperator", "__add__"), .sweepOnly),
  (("ConstantDiagLinearOperator", "__add__"), .sweepOnly),
  (("DenseLinearOperator", "__add__"), .sweepOnly),
  (("DiagLinearOperator", "__add__"), .sweepOnly),
  (("KroneckerProductAddedDiagLinearOperator", "__add__"), .sweepOnly),
  (("KroneckerProductLinearOperator", "__add__"), .sweepOnly),
  (("LinearOperator", "__add__"), .lemma ``addTensorGuard_iff),
  (("LowRankRootAddedDiagLinearOperator", "__add__"), .sweepOnly),
  (("LowRankRootLinearOperator", "__add__"), .sweepOnly),
  (("SumLinearOperator", "__add__"), .sweepOnly),
  (("TriangularLinearOperator", "__add__"), .sweepOnly),
  (("ZeroLinearOperator", "__add__"), .lemma ``mulGuard_iff),
  (("LinearOperator", "__getitem__"), .lemma ``rangeCheck_iff_indexValid),
  (("LinearOperator", "__matmul__"), .via "matmul" ``matmulBroadcastShape_iff_torch),
  (("LinearOperator", "__mul__"), .via "mul" ``mulGuard_iff),
  (("LinearOperator", "__radd__"), .via "__add__" ``addTensorGuard_iff),
  (("LinearOperator", "__rmatmul__"), .via "rmatmul" ``Ext.rmatmulGuard_iff_torch),
  (("LinearOperator", "__rmul__"), .via "mul" ``mulGuard_iff),
  (("LinearOperator", "__rsub__"), .via "__add__" ``addTensorGuard_iff),
  (("LinearOperator", "__sub__"), .via "__add__" ``addTensorGuard_iff),
  (("LinearOperator", "add"), .via "__add__" ``addTensorGuard_iff),
  (("AddedDiagLinearOperator", "add_diagonal"), .via "add_diagonal" ``Ext.diagAddDiagonal_iff_torch),
  (("DiagLinearOperator", "add_diagonal"), .lemma ``Ext.diagAddDiagonal_iff_torch),
  (("KroneckerProductLinearOperator", "add_diagonal"), .lemma ``Ext.kronAddDiagonal_iff_torch),
  (("LinearOperator", "add_diagonal"), .lemma ``addDiagonalGuard_iff),
  (("LowRankRootLinearOperator", "add_diagonal"), .lemma ``Ext.lowRankRootAddDiagonal_sound),
  (("TriangularLinearOperator", "add_diagonal"), .via "add_diagonal" ``addDiagonalGuard_iff),
  (("ZeroLinearOperator", "add_diagonal"), .lemma ``Ext.zeroAddDiagonal_eq_base),
  (("BatchRepeatLinearOperator", "add_jitter"), .scalarOnly),
  (("LinearOperator", "add_jitter"), .scalarOnly),
  (("ToeplitzLinearOperator", "add_jitter"), .scalarOnly),
  (("LinearOperator", "expand"), .lemma ``expandGuard_iff_torch),
  (("CholLinearOperator", "inv_quad"), .via "solve" ``solveGuard_iff),
  (("LinearOperator", "inv_quad"), .lemma ``invQuadGuard_iff),
  (("ZeroLinearOperator", "inv_quad"), .alwaysRaises),
  (("BatchRepeatLinearOperator", "inv_quad_logdet"), .via "inv_quad_logdet" ``matmulBroadcastShape_iff_torch),
  (("BlockDiagLinearOperator", "inv_quad_logdet"), .sweepOnly),
  (("BlockInterleavedLinearOperator", "inv_quad_logdet"), .sweepOnly),
  (("CatLinearOperator", "inv_quad_logdet"), .via "inv_quad_logdet" ``matmulBroadcastShape_iff_torch),
  (("CholLinearOperator", "inv_quad_logdet"), .via "inv_quad" ``solveGuard_iff),
  (("DiagLinearOperator", "inv_quad_logdet"), .lemma ``matmulBroadcastShape_iff_torch),
  (("IdentityLinearOperator", "inv_quad_logdet"), .lemma ``matmulBroadcastShape_iff_torch),
  (("KroneckerProductAddedDiagLinearOperator", "inv_quad_logdet"), .via "inv_quad_logdet" ``iqlGuard_iff),
  (("KroneckerProductLinearOperator", "inv_quad_logdet"), .via "inv_quad_logdet" ``iqlGuard_iff),
  (("LinearOperator", "inv_quad_logdet"), .lemma ``iqlGuard_iff),
  (("LowRankRootAddedDiagLinearOperator", "inv_quad_logdet"), .sweepOnly),
  (("SumKroneckerLinearOperator", "inv_quad_logdet"), .sweepOnly),
  (("TriangularLinearOperator", "inv_quad_logdet"), .sweepOnly),
  (("ZeroLinearOperator", "inv_quad_logdet"), .alwaysRaises),
  (("BlockDiagLinearOperator", "matmul"), .via "matmul" ``matmulBroadcastShape_iff_torch),
  (("ConstantDiagLinearOperator", "matmul"), .via "matmul" ``diagMatmulGuarded_iff_torch),
  (("DiagLinearOperator", "matmul"), .lemma ``diagMatmulGuarded_iff_torch),
  (("IdentityLinearOperator", "matmul"), .lemma ``identityMatmulGuarded_iff_torch),
  (("InterpolatedLinearOperator", "matmul"), .lemma ``matmulBroadcastShape_iff_torch),
  (("LinearOperator", "matmul"), .lemma ``matmulBroadcastShape_iff_torch),
  (("ZeroLinearOperator", "matmul"), .lemma ``matmulBroadcastShape_iff_torch),
  (("LinearOperator", "mul"), .lemma ``mulGuard_iff),
  (("ZeroLinearOperator", "mul"), .lemma ``mulGuard_iff),
  (("LinearOperator", "rmatmul"), .lemma ``Ext.rmatmulGuard_iff_torch),
  (("CholLinearOperator", "solve"), .lemma ``solveGuard_iff),
  (("DiagLinearOperator", "solve"), .via "matmul" ``diagMatmulGuarded_iff_torch),
  (("IdentityLinearOperator", "solve"), .lemma ``solveLeft_iff),
  (("KroneckerProductTriangularLinearOperator", "solve"), .lemma ``solveLeft_iff),
  (("LinearOperator", "solve"), .lemma ``solveLeft_iff),
  (("LowRankRootAddedDiagLinearOperator", "solve"), .lemma ``solveGuard_iff),
  (("TriangularLinearOperator", "solve"), .sweepOnly),
  (("ZeroLinearOperator", "solve"), .alwaysRaises),
  (("DiagLinearOperator", "sqrt_inv_matmul"), .via "matmul" ``diagMatmulGuarded_iff_torch),
  (("IdentityLinearOperator", "sqrt_inv_matmul"), .lemma ``identityMatmulGuarded_iff_torch),
  (("LinearOperator", "sqrt_inv_matmul"), .uncovered),
  (("LinearOperator", "sub"), .via "__add__" ``addTensorGuard_iff)]

/-- the entry points without a proved guard statement (every other one is `.proved`) -/
def unprovedEntryPoints : List (String × String) := [
  ("AddedDiagLinearOperator", "__add__"),
  ("ConstantDiagLinearOperator", "__add__"),
  ("DenseLinearOperator", "__add__"),
  ("DiagLinearOperator", "__add__"),
  ("KroneckerProductAddedDiagLinearOperator", "__add__"),
  ("KroneckerProductLinearOperator", "__add__"),
  ("LowRankRootAddedDiagLinearOperator", "__add__"),
  ("LowRankRootLinearOperator", "__add__"),
  ("SumLinearOperator", "__add__"),
  ("TriangularLinearOperator", "__add__"),
  ("BlockDiagLinearOperator", "inv_quad_logdet"),
  ("BlockInterleavedLinearOperator", "inv_quad_logdet"),
  ("LowRankRootAddedDiagLinearOperator", "inv_quad_logdet"),
  ("SumKroneckerLinearOperator", "inv_quad_logdet"),
  ("TriangularLinearOperator", "inv_quad_logdet"),
  ("TriangularLinearOperator", "solve"),
  ("LinearOperator", "sqrt_inv_matmul")]

open LinOp.Generated.C19 in
/-- **Every public entry point of the generated table is mapped to exactly one guard account**: the hand-kept `guardTable`
has no duplicate keys, covers every generated entry point (class that defines the method × method) and has no stale row.
A new override of `matmul`, `solve`, `__add__`, … in any class adds an entry point that has no row and breaks this. -/
theorem guards_complete :
    (guardTable.map (·.1)).Nodup ∧
    entryPoints.all (fun e => (guardTable.lookup e).isSome) = true ∧
    guardTable.all (fun r => entryPoints.contains r.1) = true := by decide +kernel

/-- Exactly the listed entry points lack a proved guard lemma (they are compared with torch by the sweep only, the base
`sqrt_inv_matmul` not even that); all others point to a theorem of this file, to a forwarding target with one, or
trivially need none. -/
theorem unproved_entry_points_are_the_known_ones :
    (guardTable.filter (fun r => !r.2.proved)).map (·.1) = unprovedEntryPoints := by decide +kernel

example : (guardTable.lookup ("DiagLinearOperator", "matmul")).isSome = true := by decide

open LinOp.Generated.C19 in
/-- Every class's public `matmul` is defined by a class whose guard behaviour is modelled
(`matmulKindOf`): a new `matmul` override anywhere in the library breaks this obligation. -/
theorem every_matmul_definer_is_modelled :
    matmulDefiners.all (fun d => (matmulKindOf d.2).isSome) = true := by decide +kernel

open LinOp.Generated.C19 in
/-- The overrides of guarded public methods are exactly the known ones (same classes, same methods),
each with the known "reaches the base guard" status (`guarded = true` iff the method body calls
`_matmul_broadcast_shape` or `super().<method>`): removing a guard or adding an override changes the
table and breaks this obligation. -/
theorem overrides_are_the_known_ones : overrides = knownOverrides := by decide +kernel

open LinOp.Generated.C19 in
/-- The delegation chains of the solve-type methods (which hooks each public method and each hook calls, and whether on every
path) are the known ones: a hook re-routed past the method that carries the right-hand-side guard, a guarded helper call made
conditional, or a new hook override changes the table and breaks this obligation. -/
theorem delegations_are_the_known_ones : delegations = knownDelegations := by decide +kernel

open LinOp.Generated.C19 in
/-- The operator-operator dispatch of `matmul` / `__add__` / `__sub__` / `mul` / `_mul_matrix` / `add_low_rank` (which class
tests, with which exact shape conditions, in which order relative to the shape guard) is the known one — the conditions the
shortcut models (`blockDiagPairMatmul`, `diagPairMatmul`, `constantDiagPairAdd`) mirror. -/
theorem dispatch_conditions_are_the_known_ones : dispatches = knownDispatches := by decide +kernel

open LinOp.Generated.C19 in
/-- Which square-only public methods carry the `is_square` guard themselves, per defining class, is the known table
(the `squareGuardOf` model reads the generated table). -/
theorem square_guards_are_the_known_ones : squareGuards = knownSquareGuards := by decide +kernel

open LinOp.Generated.C19 in
/-- **Every class's `solve`, `inv_quad`, `inv_quad_logdet`, `add_diagonal`, `diagonal`, `diagonalization`, `root_decomposition`,
`root_inv_decomposition` resolved through the base class raises `notSquare` on every rectangular operator**: for each class
whose MRO reaches the base-class definition of the method, the model's verdict on a `2 × 3` operator is `notSquare`
(with `squareGuardOf_rect` / `squareGuard_iff` this extends to all rectangular shapes: the verdict depends on `m ≠ n` only). -/
theorem base_square_methods_guarded :
    mros.all (fun cm =>
      ["solve", "inv_quad", "inv_quad_logdet", "add_diagonal", "diagonal", "diagonalization", "root_decomposition",
       "root_inv_decomposition"].all (fun meth =>
        match cm.2.find? (fun c => (squareGuards.lookup (c, meth)).isSome) with
        | some "LinearOperator" => Impl.squareGuardOf squareGuards cm.2 meth [2, 3] == .error .notSquare
        | _ => true)) = true := by decide +kernel

open LinOp.Generated.C19 in
/-- The base-class methods still contain their guards. -/
theorem base_guards_present : baseGuards.all (fun g => g.2) = true := by decide +kernel


/-! ## Extension session 5: per-class `add_diagonal`, `rmatmul`, the Cat constructor -/

/-- **Diag / ConstantDiag / Identity / KroneckerProductDiag `add_diagonal` (and AddedDiag / KroneckerProductAddedDiag /
LowRankRootAddedDiag, which forward to their diagonal part) accept exactly the diagonals torch accepts for
`dense + diag_embed(d)`, with torch's result shape** — every batch rank, every diagonal shape (0-d, `(…, n)`, `(…, 1)`, extra
batch dimensions), every `n ≠ 1`.  (`n = 1`: `diagAddDiagonal_size1_example`.) -/
theorem diagAddDiagonal_iff_torch (A : List Nat) (n : Nat) (hn : n ≠ 1) (d s : List Nat) :
    diagAddDiagonal A n d = .ok s ↔ addDiagonalShape? (A ++ [n, n]) d = some s :=
  Ext.diagAddDiagonal_iff_torch A n hn d s

example : diagAddDiagonal [2] 3 [4, 1, 3] = .ok [4, 2, 3, 3] := by decide
example : diagAddDiagonal [2] 3 [5, 3] = .error .shape := by decide

/-- For a 1×1 diagonal operator `broadcast_shapes` lets the diagonal grow the MATRIX: `Diag(1).add_diagonal(d : 5)` is 5×5.
torch's `dense + diag_embed(d)` broadcasts the 1×1 matrix in the same way, so this is torch-valid and not judged (same policy as
the `ew1` operator pairs); `addDiagonalShape?` (which demands `k = n ∨ k = 1`) is stricter here. -/
theorem diagAddDiagonal_size1_example :
    diagAddDiagonal [] 1 [5] = .ok [5, 5] ∧ addDiagonalShape? [1, 1] [5] = none := by decide

/-- **KroneckerProduct (and KroneckerProductTriangular) `add_diagonal` ⇔ torch**, same shape, all batch ranks, `n ≠ 1`:
the unchecked constant branches are caught by the batch broadcast of the KroneckerProductAddedDiag constructor. -/
theorem kronAddDiagonal_iff_torch (A : List Nat) (n : Nat) (hn : n ≠ 1) (d s : List Nat) :
    kronAddDiagonal (A ++ [n, n]) d = .ok s ↔ addDiagonalShape? (A ++ [n, n]) d = some s :=
  Ext.kronAddDiagonal_iff_torch A n hn d s

example : kronAddDiagonal [2, 4, 4] [3, 1, 1] = .ok [3, 2, 4, 4] := by decide
example : kronAddDiagonal [2, 4, 4] [3, 4] = .error .shape := by decide

/-- **LowRankRoot `add_diagonal` is sound**: whatever it accepts torch accepts, with the same shape (all batch ranks / sizes).
It is not complete: the non-constant branch refuses a diagonal that adds batch dimensions (`lowRankRootAddDiagonal_examples`). -/
theorem lowRankRootAddDiagonal_sound (A : List Nat) (n : Nat) (d s : List Nat)
    (h : lowRankRootAddDiagonal (A ++ [n, n]) d = .ok s) : addDiagonalShape? (A ++ [n, n]) d = some s :=
  Ext.lowRankRootAddDiagonal_sound A n d s h

theorem lowRankRootAddDiagonal_examples :
    lowRankRootAddDiagonal [2, 3, 3] [3, 2, 1] = .ok [3, 2, 3, 3] ∧
    lowRankRootAddDiagonal [2, 3, 3] [3, 2, 3] = .error .shape ∧
    addDiagonalShape? [2, 3, 3] [3, 2, 3] = some [3, 2, 3, 3] := Ext.lowRankRootAddDiagonal_examples

/-- **Zero `add_diagonal` = the base-class guard** (hence `addDiagonalGuard_iff`) for operators with at most one batch
dimension, every size and every diagonal shape. -/
theorem zeroAddDiagonal_eq_base (A : List Nat) (hA : A.length ≤ 1) (n : Nat) (d : List Nat) :
    zeroAddDiagonal (A ++ [n, n]) d = addDiagonalGuard (A ++ [n, n]) d :=
  Ext.zeroAddDiagonal_eq_base A hA n d

example : zeroAddDiagonal [2, 3, 3] [2, 1] = .ok [2, 3, 3] := by decide

/-- With two or more batch dimensions Zero `add_diagonal` expands the diagonal to `(size(0),)` and then fails its own size
comparison — it rejects even a 0-d diagonal (stricter than torch; raising is not a C19 violation). -/
theorem zeroAddDiagonal_rank4_example :
    zeroAddDiagonal [3, 1, 3, 3] [] = .error .shape ∧ zeroAddDiagonal [3, 1, 3, 3] [3] = .error .shape ∧
    addDiagonalShape? [3, 1, 3, 3] [] = some [3, 1, 3, 3] := by decide

/-- every class's `add_diagonal` resolves (C3 MRO, generated table) to a definer the model knows -/
theorem every_add_diagonal_definer_is_modelled :
    LinOp.Generated.C19Ext.addDiagonalDefiners.all (fun p => (addDiagKindOf p.2).isSome) = true := by decide +kernel

/-- **base `rmatmul` accepts exactly what `torch.matmul(other, dense)` accepts, with torch's shape** — any batch rank of the
operator, any operand rank (0-d, 1-d, matrix, batched). -/
theorem rmatmulGuard_iff_torch (A : List Nat) (m n : Nat) (b s : List Nat) :
    rmatmulGuard (A ++ [m, n]) b = .ok s ↔ rmatmulShape? (A ++ [m, n]) b = some s :=
  Ext.rmatmulGuard_iff_torch A m n b s

example : rmatmulGuard [2, 3, 4] [5, 1, 6, 3] = .ok [5, 2, 6, 4] := by decide
example : rmatmulGuard [2, 3, 4] [1, 4] = .error .shape := by decide

/-- **With `settings.debug` on, the CatLinearOperator constructor accepts exactly what `torch.cat` accepts and its `_shape`
is torch's shape** (≥ 2 operands of any rank, cat dimension inside the rank). -/
theorem catCtor_debug_iff (s0 s1 : List Nat) (rest : List (List Nat)) (dim : Nat) (hd : dim < s0.length) (s : List Nat) :
    catCtor true (s0 :: s1 :: rest) dim = .ok s ↔ catShape? (s0 :: s1 :: rest) dim = some s :=
  Ext.catCtor_debug_iff s0 s1 rest dim hd s

example : catCtor true [[2, 3, 3], [2, 1, 3], [2, 4, 3]] 1 = .ok [2, 8, 3] := by decide

/-- With `settings.debug` off the constructor performs no check: the shape is computed from the first operand only
(the mismatch surfaces — or not — when the operator is used). -/
theorem catCtor_nodebug_counterexample :
    catCtor false [[3, 3], [2, 4]] 0 = .ok [5, 3] ∧ catShape? [[3, 3], [2, 4]] 0 = none :=
  Ext.catCtor_nodebug_counterexample

/-- **`cat_rows` (debug on; the code after 6da5c17: `is_square` guard, then the three concatenations; ANY operator, also
rectangular; cross / new matrices of the operator's rank, every batch rank and size) accepts exactly the `cross_mat`, `new_mat`
for which the dense block matrix `[[A, Bᵀ], [B, D]]` exists, with its shape.**
Full statement (not proved): the same for every rank combination, i.e. including the branch that first expands `self` to the
broadcast batch shape when `cross_mat` has more dimensions, and the rank-mismatch rejections (swept by the harness, cells
`cat_rows/extra-batch-*`, `batch-missing`, `cross-1d`, `new-1d`). -/
theorem catRows_iff_torch_partial (A C W : List Nat) (m n o n' o1 o2 : Nat) (hC : C.length = A.length)
    (hW : W.length = A.length) (s : List Nat) :
    catRows (A ++ [m, n]) (C ++ [o, n']) (W ++ [o1, o2]) = .ok s ↔
      catRowsShape? (A ++ [m, n]) (C ++ [o, n']) (W ++ [o1, o2]) = some s :=
  Ext.catRows_same_rank_iff A C W m n o n' o1 o2 hC hW s

example : catRows [2, 3, 3] [2, 2, 3] [2, 2, 2] = .ok [2, 5, 5] := by decide

/-- **Regression statement about the PREVIOUS code (before 6da5c17, defect F13)**: without the `is_square` guard a 4×3
operator with `cross_mat` 2×3 and a compensating `new_mat` 3×2 passed all three CatLinearOperator checks (`[A; B]` is 6×3,
`[Bᵀ; D]` is 6×2) and yielded a 6×5 operator that is not the block matrix (torch refuses `[[A, Bᵀ], [B, D]]`); the guarded
`cat_rows` answers `notSquare`. -/
theorem catRows_rect_counterexample :
    catRowsUnguarded [4, 3] [2, 3] [3, 2] = .ok [6, 5] ∧ catRowsShape? [4, 3] [2, 3] [3, 2] = none ∧
    catRows [4, 3] [2, 3] [3, 2] = .error .notSquare :=
  Ext.catRows_rect_counterexample

/-- **`__getitem__` raises "too many indices" exactly when torch does** (716435a): for an operator of any rank and any
None-free index tuple of ints, slices, integer tensors and at most one ellipsis, the length test after the ellipsis expansion
and the padding fires iff the tuple has more non-ellipsis entries than the operator has dimensions. -/
theorem tooManyIndices_iff_torch (ndim : Nat) (idx : List Idx) (h : idx.count .ellipsis ≤ 1) :
    indexCountGuard ndim idx = .error .index ↔ tooManyIndices ndim idx = true :=
  Ext.tooManyIndices_iff_torch ndim idx h

example : indexCountGuard 2 [.int, .int, .int] = .error .index := by decide
example : indexCountGuard 3 [.int, .ellipsis, .int, .slice] = .ok () := by decide
example : indexCountGuard 3 [.ellipsis, .int, .tensor, .int, .slice] = .error .index := by decide

/-- before 716435a no length test existed (`zip(index, shape)` dropped the surplus: `Dense(3×3)[0, 1, 2]` was a scalar) -/
theorem indexCountUnguarded_counterexample :
    indexCountUnguarded 2 [.int, .int, .int] = .ok () ∧ tooManyIndices 2 [.int, .int, .int] = true := by decide

/-- `cat_rows` (debug on): examples of the three constructor checks against the dense block matrix. -/
theorem catRows_examples :
    catRows [3, 3] [2, 3] [2, 2] = .ok [5, 5] ∧ catRowsShape? [3, 3] [2, 3] [2, 2] = some [5, 5] ∧
    catRows [3, 3] [2, 4] [2, 2] = .error .shape ∧ catRowsShape? [3, 3] [2, 4] [2, 2] = none ∧
    catRows [3, 3] [2, 2, 3] [2, 2, 2] = .ok [2, 5, 5] ∧ catRowsShape? [3, 3] [2, 2, 3] [2, 2, 2] = some [2, 5, 5] ∧
    catRows [3, 3] [2, 3] [3, 3] = .error .shape ∧ catRows [3, 3] [3] [1, 1] = .error .value := by decide

/-- **base `add_low_rank(B)` accepts exactly what torch accepts for `dense + B @ B.mT`, with torch's shape** (all batch ranks,
all ranks of `B`; this includes torch's own broadcasting of a 1×1 product against the matrix dimensions). -/
theorem addLowRank_iff_torch (a b s : List Nat) :
    addLowRank a b = .ok s ↔ addLowRankShape? a b = some s := Ext.addLowRank_iff_torch a b s

example : addLowRank [2, 3, 3] [4, 1, 3, 2] = .ok [4, 2, 3, 3] := by decide
example : addLowRank [3, 3] [4, 1] = .error .shape := by decide

/-- the bodies the extension model mirrors are the ones recorded at design time (generated from /repo on every run) -/
theorem ext_bodies_are_the_known_ones :
    LinOp.Generated.C19Ext.addDiagonalBodies = KnownExt.knownAddDiagonalBodies ∧
    LinOp.Generated.C19Ext.rmatmulBodies = KnownExt.knownRmatmulBodies ∧
    LinOp.Generated.C19Ext.catBodies = KnownExt.knownCatBodies ∧
    LinOp.Generated.C19Ext.addDiagonalDefiners = KnownExt.knownAddDiagonalDefiners := by decide +kernel

end LinOp.C19
