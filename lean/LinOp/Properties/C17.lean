import LinOp.C17.Proofs
import LinOp.Generated.C17Table
/-!
C17 — settings contexts are properly scoped and never leak.  Property theorems only.

`K : Nat → Kind` assigns each setting class its base-class behaviour; it is arbitrary here, so the
theorems hold for every table the extractor can generate.
-/
namespace LinOp.C17

/-- **Exit restores the value in force immediately before entry** — for every state, every context
object `o`, and every history `h` in between that does not enter/construct `o` itself
(any nesting depth, any interleaving of other objects of the same or other settings, normal or
exceptional exit). -/
theorem exit_restores_entry_value (K : Nat → Kind) (s : State) (o : ObjId) (h : List Event) (exc : Bool)
    (hno : ∀ e ∈ h, e.obj? ≠ some o) :
    settingVal (K o.1) ((run K s (Event.enter o :: h ++ [Event.exit o exc])).globals o.1)
      = settingVal (K o.1) (s.globals o.1) ∨ s.objs o = none := by
  cases hob : s.objs o with
  | none => right; rfl
  | some ob =>
    left
    rw [List.cons_append, run_cons, run_append]
    have h1 := step_enter_some K s o ob hob
    have h2 := run_objs_other K h (step K s (Event.enter o)) o hno
    rw [h1] at h2
    show settingVal (K o.1) ((step K (run K (step K s (Event.enter o)) h) (Event.exit o exc)).globals o.1) = _
    rw [step_exit_some K _ o exc _ h2]
    exact settingVal_restore _ _ _

/-- Exceptional exit behaves exactly like normal exit. -/
theorem exception_exit_same (K : Nat → Kind) (s : State) (o : ObjId) :
    step K s (Event.exit o true) = step K s (Event.exit o false) := rfl

/-- **No cross-talk between settings**: an event on one setting class changes no other class. -/
theorem no_cross_talk (K : Nat → Kind) (s : State) (e : Event) (c : Nat) (h : e.cls ≠ c) :
    (step K s e).globals c = s.globals c := step_globals_other K s e c h

/-- **No cross-talk between dtype slots**: entering a per-dtype context whose instance value for a
slot is `None` leaves that slot unchanged. -/
theorem dtype_slot_isolated (g inst : Slots) :
    (inst.a = none → (setOnEnter .dtype g inst).a = g.a) ∧
    (inst.b = none → (setOnEnter .dtype g inst).b = g.b) ∧
    (inst.c = none → (setOnEnter .dtype g inst).c = g.c) := by
  refine ⟨?_, ?_, ?_⟩ <;> intro h <;> simp [setOnEnter, h]

/-- Entry puts the instance value in force (for the slots it names). -/
theorem enter_takes_effect (k : Kind) (g inst : Slots) :
    (match k with
      | .dtype => (∀ v, inst.a = some v → (setOnEnter k g inst).a = some v) ∧
                  (∀ v, inst.b = some v → (setOnEnter k g inst).b = some v) ∧
                  (∀ v, inst.c = some v → (setOnEnter k g inst).c = some v)
      | _ => (setOnEnter k g inst).a = inst.a) := by
  cases k <;> simp [setOnEnter] <;> (refine ⟨?_, ?_, ?_⟩ <;> intro v h <;> simp [h])

/-- Histories whose projection on class `c` is well nested (`with` blocks; an object is not
re-entered while active).  Events of other classes are unconstrained. -/
inductive WN (K : Nat → Kind) (c : Nat) : List Event → Prop
  | nil : WN K c []
  | other (e : Event) (h : List Event) : e.cls ≠ c → WN K c h → WN K c (e :: h)
  | ctor (k : Nat) (inst : Slots) (h : List Event) : WN K c h → WN K c (Event.construct (c, k) inst :: h)
  | poke (r : Bool) (v : Val) (h : List Event) : K c = .flag r → WN K c h → WN K c (Event.poke c v :: h)
  | block (k : Nat) (exc : Bool) (h1 h2 : List Event) :
      WN K c h1 → (∀ e ∈ h1, e.obj? ≠ some (c, k)) → WN K c h2 →
      WN K c (Event.enter (c, k) :: h1 ++ Event.exit (c, k) exc :: h2)

/-- **Nothing leaks out of `with` blocks**: after any history that is well nested for class `c`
the setting `c` has its initial value — whatever other settings did in between. -/
theorem lifo_restores_all (K : Nat → Kind) (c : Nat) (h : List Event) (hw : WN K c h) (s : State) :
    settingVal (K c) ((run K s h).globals c) = settingVal (K c) (s.globals c) := by
  induction hw generalizing s with
  | nil => rfl
  | other e h hne _ ih => rw [run_cons, ih, step_globals_other K s e c hne]
  | ctor k inst h _ ih => rw [run_cons, ih]; rfl
  | poke r v h hk _ ih =>
    rw [run_cons, ih]
    simp only [step, upd_same]
    rw [hk]; exact settingVal_poke r _ v
  | block k exc h1 h2 _ hno _ ih1 ih2 =>
    rw [List.cons_append, run_cons, run_append, run_cons, ih2]
    cases hob : s.objs (c, k) with
    | none =>
      rw [step_enter_none K s (c, k) hob]
      have e2 := run_objs_other K h1 s (c, k) hno
      rw [step_exit_none K _ (c, k) exc (e2.trans hob), ih1]
    | some ob =>
      have e1 := step_enter_some K s (c, k) ob hob
      have e2 := run_objs_other K h1 (step K s (Event.enter (c, k))) (c, k) hno
      rw [e1] at e2
      rw [step_exit_some K _ (c, k) exc _ e2]
      exact settingVal_restore _ _ _

/-- Non-vacuity: a concrete nested history (`with A: with B(same class): pass`, an exceptional exit,
a pre-constructed object) satisfies `WN`. -/
example : WN (fun _ => Kind.value) 0
    [Event.construct (0, 1) ⟨some 5, none, none⟩, Event.construct (0, 2) ⟨some 7, none, none⟩,
     Event.enter (0, 2), Event.enter (0, 1), Event.exit (0, 1) true, Event.exit (0, 2) false] := by
  refine WN.ctor 1 _ _ (WN.ctor 2 _ _ ?_)
  exact WN.block 2 false [Event.enter (0, 1), Event.exit (0, 1) true] []
    (WN.block 1 true [] [] WN.nil (by simp) WN.nil) (by simp [Event.obj?]) WN.nil

/-! ### Obligations on the table generated from today's `settings.py` -/

open LinOp.Generated.C17 in
/-- No setting class overrides the context protocol of its base class; the only override anywhere
is `deterministic_probes._set_state` (modelled as `Kind.flag true`). -/
theorem table_no_protocol_overrides :
    ∀ c ∈ classes, c.defines = [] ∨ (c.name = "deterministic_probes" ∧ c.defines = ["_set_state"]) := by
  decide +kernel

open LinOp.Generated.C17 in
/-- Composite contexts enter and exit exactly their parts, each once, and their parts are contexts
of pairwise different setting classes (so by `no_cross_talk` the order among parts is irrelevant
and `lifo_restores_all` applies to each part class separately). -/
theorem table_composites_sound :
    ∀ c ∈ composites, (c.parts.map Prod.snd).Nodup ∧ (c.parts.map Prod.fst).Nodup ∧
      c.enterOrder.Perm (c.parts.map Prod.fst) ∧ c.exitOrder.Perm (c.parts.map Prod.fst) ∧
      (∀ p ∈ c.parts, ∃ k ∈ classes, k.name = p.2) := by
  decide +kernel

end LinOp.C17
