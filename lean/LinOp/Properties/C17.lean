import LinOp.C17.Proofs2
import LinOp.Generated.C17Table
import LinOp.Generated.C17Bodies
/-!
C17 — settings contexts are properly scoped and never leak.  Property theorems only.

`K : Nat → Kind` assigns each setting class its base-class behaviour; it is arbitrary here, so the
theorems hold for every table the extractor can generate.
-/
namespace LinOp.C17

/-- **Exit restores the value in force immediately before entry** — for every state, every context
object `o`, and every history `h` in between that does not enter/construct `o` itself
(any nesting depth, any interleaving of other objects of the same or other settings, normal or
exceptional exit). -/
theorem exit_restores_entry_value (K : Nat → Kind) (s : State) (o : ObjId) (h : List Event) (exc : Bool)
    (hno : ∀ e ∈ h, e.obj? ≠ some o) :
    settingVal (K o.1) ((run K s (Event.enter o :: h ++ [Event.exit o exc])).globals o.1)
      = settingVal (K o.1) (s.globals o.1) ∨ s.objs o = none := by
  cases hob : s.objs o with
  | none => right; rfl
  | some ob =>
    left
    rw [List.cons_append, run_cons, run_append]
    have h1 := step_enter_some K s o ob hob
    have h2 := run_objs_other K h (step K s (Event.enter o)) o hno
    rw [h1] at h2
    show settingVal (K o.1) ((step K (run K (step K s (Event.enter o)) h) (Event.exit o exc)).globals o.1) = _
    rw [step_exit_some K _ o exc _ h2]
    exact settingVal_restore _ _ _

/-- Exceptional exit behaves exactly like normal exit. -/
theorem exception_exit_same (K : Nat → Kind) (s : State) (o : ObjId) :
    step K s (Event.exit o true) = step K s (Event.exit o false) := rfl

/-- **No cross-talk between settings**: an event on one setting class changes no other class. -/
theorem no_cross_talk (K : Nat → Kind) (s : State) (e : Event) (c : Nat) (h : e.cls ≠ c) :
    (step K s e).globals c = s.globals c := step_globals_other K s e c h

/-- **No cross-talk between dtype slots**: entering a per-dtype context whose instance value for a
slot is `None` leaves that slot unchanged. -/
theorem dtype_slot_isolated (g inst : Slots) :
    (inst.a = none → (setOnEnter .dtype g inst).a = g.a) ∧
    (inst.b = none → (setOnEnter .dtype g inst).b = g.b) ∧
    (inst.c = none → (setOnEnter .dtype g inst).c = g.c) := by
  refine ⟨?_, ?_, ?_⟩ <;> intro h <;> simp [setOnEnter, h]

/-- Entry puts the instance value in force (for the slots it names). -/
theorem enter_takes_effect (k : Kind) (g inst : Slots) :
    (match k with
      | .dtype => (∀ v, inst.a = some v → (setOnEnter k g inst).a = some v) ∧
                  (∀ v, inst.b = some v → (setOnEnter k g inst).b = some v) ∧
                  (∀ v, inst.c = some v → (setOnEnter k g inst).c = some v)
      | _ => (setOnEnter k g inst).a = inst.a) := by
  cases k <;> simp [setOnEnter] <;> (refine ⟨?_, ?_, ?_⟩ <;> intro v h <;> simp [h])

/-- Histories whose projection on class `c` is well nested (`with` blocks; an object is not
re-entered while active).  Events of other classes are unconstrained. -/
inductive WN (K : Nat → Kind) (c : Nat) : List Event → Prop
  | nil : WN K c []
  | other (e : Event) (h : List Event) : e.cls ≠ c → WN K c h → WN K c (e :: h)
  | ctor (k : Nat) (inst : Slots) (h : List Event) : WN K c h → WN K c (Event.construct (c, k) inst :: h)
  | poke (r : Bool) (v : Val) (h : List Event) : K c = .flag r → WN K c h → WN K c (Event.poke c v :: h)
  | block (k : Nat) (exc : Bool) (h1 h2 : List Event) :
      WN K c h1 → (∀ e ∈ h1, e.obj? ≠ some (c, k)) → WN K c h2 →
      WN K c (Event.enter (c, k) :: h1 ++ Event.exit (c, k) exc :: h2)

/-- **Nothing leaks out of `with` blocks**: after any history that is well nested for class `c`
the setting `c` has its initial value — whatever other settings did in between. -/
theorem lifo_restores_all (K : Nat → Kind) (c : Nat) (h : List Event) (hw : WN K c h) (s : State) :
    settingVal (K c) ((run K s h).globals c) = settingVal (K c) (s.globals c) := by
  induction hw generalizing s with
  | nil => rfl
  | other e h hne _ ih => rw [run_cons, ih, step_globals_other K s e c hne]
  | ctor k inst h _ ih => rw [run_cons, ih]; rfl
  | poke r v h hk _ ih =>
    rw [run_cons, ih]
    simp only [step, upd_same]
    rw [hk]; exact settingVal_poke r _ v
  | block k exc h1 h2 _ hno _ ih1 ih2 =>
    rw [List.cons_append, run_cons, run_append, run_cons, ih2]
    cases hob : s.objs (c, k) with
    | none =>
      rw [step_enter_none K s (c, k) hob]
      have e2 := run_objs_other K h1 s (c, k) hno
      rw [step_exit_none K _ (c, k) exc (e2.trans hob), ih1]
    | some ob =>
      have e1 := step_enter_some K s (c, k) ob hob
      have e2 := run_objs_other K h1 (step K s (Event.enter (c, k))) (c, k) hno
      rw [e1] at e2
      rw [step_exit_some K _ (c, k) exc _ e2]
      exact settingVal_restore _ _ _

/-- Non-vacuity: a concrete nested history (`with A: with B(same class): pass`, an exceptional exit,
a pre-constructed object) satisfies `WN`. -/
example : WN (fun _ => Kind.value) 0
    [Event.construct (0, 1) ⟨some 5, none, none⟩, Event.construct (0, 2) ⟨some 7, none, none⟩,
     Event.enter (0, 2), Event.enter (0, 1), Event.exit (0, 1) true, Event.exit (0, 2) false] := by
  refine WN.ctor 1 _ _ (WN.ctor 2 _ _ ?_)
  exact WN.block 2 false [Event.enter (0, 1), Event.exit (0, 1) true] []
    (WN.block 1 true [] [] WN.nil (by simp) WN.nil) (by simp [Event.obj?]) WN.nil

/-! ### Session 5: class-level setters, re-used / re-entered objects, non-LIFO, composites, slots -/

/-- Class-level `cls._set_state(v)` / `cls._set_value(v)` / `cls._set_value(f, d, h)` is exactly the write
performed by `__enter__` with instance value `v` (so `enter_takes_effect` applies to it), and it touches no
context object. -/
theorem class_setter_takes_effect (K : Nat → Kind) (s : State) (c : Nat) (v : Slots) :
    (step K s (Event.set c v)).globals c = setOnEnter (K c) (s.globals c) v ∧
    (step K s (Event.set c v)).objs = s.objs := by
  simp [step]

/-- `__enter__` of an existing object installs its instance value and snapshots the value in force. -/
theorem enter_takes_effect_step (K : Nat → Kind) (s : State) (o : ObjId) (ob : Obj) (h : s.objs o = some ob) :
    (step K s (Event.enter o)).globals o.1 = setOnEnter (K o.1) (s.globals o.1) ob.inst ∧
    (step K s (Event.enter o)).objs o = some { ob with saved := s.globals o.1 } := by
  simp [step, h]

/-- **Re-used objects**: after ANY earlier history `h0a ++ construct o :: h0b` (in which `o` may have been entered
and exited any number of times, in any order, with class-level setters in between), one more
`enter o … exit o` block (body `h` arbitrary but not naming `o`) restores exactly the value in force just before
that entry.  No escape clause. -/
theorem exit_restores_entry_value_reused (K : Nat → Kind) (s : State) (o : ObjId) (inst : Slots)
    (h0a h0b h : List Event) (exc : Bool) (hno : ∀ e ∈ h, e.obj? ≠ some o) :
    settingVal (K o.1)
        ((run K (run K s (h0a ++ Event.construct o inst :: h0b)) (Event.enter o :: h ++ [Event.exit o exc])).globals o.1)
      = settingVal (K o.1) ((run K s (h0a ++ Event.construct o inst :: h0b)).globals o.1) := by
  rcases exit_restores_entry_value K (run K s (h0a ++ Event.construct o inst :: h0b)) o h exc hno with h1 | h1
  · exact h1
  · exfalso
    have h2 : ((run K s (h0a ++ Event.construct o inst :: h0b)).objs o).isSome := by
      rw [run_append, run_cons]
      exact run_objs_isSome K _ _ o (step_construct_isSome K _ o inst)
    rw [h1] at h2; simp at h2

example : ∃ (h0b : List Event), Event.enter (0, 1) ∈ h0b ∧ Event.exit (0, 1) false ∈ h0b ∧ Event.set 0 ⟨some 3, none, none⟩ ∈ h0b :=
  ⟨[Event.enter (0, 1), Event.set 0 ⟨some 3, none, none⟩, Event.exit (0, 1) false], by simp⟩

/-- **Nested re-entry of the SAME object** (`with c: with c: …`): the context objects are not re-entrant; what the
code guarantees is that BOTH exits write back the value in force just before the INNER entry (the outer
snapshot is overwritten).  `h1` is arbitrary; `h2`, `h3` do not name `o`. -/
theorem reentry_nested_guarantee (K : Nat → Kind) (s : State) (o : ObjId) (h1 h2 h3 : List Event) (e1 e2 : Bool)
    (hob : (s.objs o).isSome)
    (hno2 : ∀ e ∈ h2, e.obj? ≠ some o) (hno3 : ∀ e ∈ h3, e.obj? ≠ some o) :
    settingVal (K o.1) ((run K (run K s (Event.enter o :: h1))
        (Event.enter o :: h2 ++ Event.exit o e1 :: h3 ++ [Event.exit o e2])).globals o.1)
      = settingVal (K o.1) ((run K s (Event.enter o :: h1)).globals o.1) := by
  obtain ⟨ob1, hob1⟩ := Option.isSome_iff_exists.mp (run_objs_isSome K (Event.enter o :: h1) s o hob)
  generalize run K s (Event.enter o :: h1) = s1 at hob1 ⊢
  have ha := step_enter_some K s1 o ob1 hob1
  have hb := (run_objs_other K h2 _ o hno2).trans ha
  have hc : (step K (run K (step K s1 (Event.enter o)) h2) (Event.exit o e1)).objs o
      = some { ob1 with saved := s1.globals o.1 } := by
    rw [step_exit_objs]; exact hb
  have hd := (run_objs_other K h3 _ o hno3).trans hc
  simp only [List.cons_append, run_cons, run_append, run_nil]
  rw [exit_restores_saved K _ o e2 _ hd]

/-- …so a nested re-entry leaks the instance value: `with c(5): with c(5): pass` started at 1 ends at 5. -/
theorem reentry_nested_leaks_counterexample :
    ((run (fun _ => Kind.value) ⟨fun _ => ⟨some 1, none, none⟩, fun _ => none⟩
      [Event.construct (0, 1) ⟨some 5, none, none⟩, Event.enter (0, 1), Event.enter (0, 1),
       Event.exit (0, 1) false, Event.exit (0, 1) false]).globals 0).a = some 5 := by decide

/-- **Non-LIFO interleaving** (generators / threads / manual `__enter__`/`__exit__`; the state is process-global,
there are no thread-locals): each `__exit__` writes back what ITS OWN `__enter__` observed, whatever happened in
between.  For the crossing pattern `enter o1 … enter o2 … exit o1 … exit o2` the final value is therefore the one
in force just before `enter o2` — i.e. `o1`'s value if both are contexts of the same setting. -/
theorem interleaved_non_lifo (K : Nat → Kind) (s : State) (o1 o2 : ObjId) (h1 h2 h3 : List Event) (e1 e2 : Bool)
    (hob : (s.objs o2).isSome) (hne : o1 ≠ o2)
    (hno2 : ∀ e ∈ h2, e.obj? ≠ some o2) (hno3 : ∀ e ∈ h3, e.obj? ≠ some o2) :
    settingVal (K o2.1) ((run K (run K s (Event.enter o1 :: h1))
        (Event.enter o2 :: h2 ++ Event.exit o1 e1 :: h3 ++ [Event.exit o2 e2])).globals o2.1)
      = settingVal (K o2.1) ((run K s (Event.enter o1 :: h1)).globals o2.1) := by
  have hno : ∀ e ∈ h2 ++ Event.exit o1 e1 :: h3, e.obj? ≠ some o2 := by
    intro e he
    rcases List.mem_append.mp he with h | h
    · exact hno2 e h
    · rcases List.mem_cons.mp h with h | h
      · subst h; simpa [Event.obj?] using hne
      · exact hno3 e h
  have key := exit_restores_entry_value K (run K s (Event.enter o1 :: h1)) o2 _ e2 hno
  simp only [List.cons_append, List.append_assoc] at key ⊢
  rcases key with h | h
  · exact h
  · exfalso
    have h2' := run_objs_isSome K (Event.enter o1 :: h1) s o2 hob
    rw [h] at h2'; simp at h2'

/-- …and that is a leak for two contexts of one setting: started at 1, `enter A(5); enter B(7); exit A; exit B` ends at 5. -/
theorem non_lifo_leaks_counterexample :
    ((run (fun _ => Kind.value) ⟨fun _ => ⟨some 1, none, none⟩, fun _ => none⟩
      [Event.construct (0, 1) ⟨some 5, none, none⟩, Event.construct (0, 2) ⟨some 7, none, none⟩,
       Event.enter (0, 1), Event.enter (0, 2), Event.exit (0, 1) false, Event.exit (0, 2) false]).globals 0).a = some 5 := by
  decide

/-- Histories as produced by `with` statements over single contexts and composites: ONE stack across all
settings; construction and probe pokes anywhere; no class-level setter. -/
inductive WNAll (K : Nat → Kind) : List Event → Prop
  | nil : WNAll K []
  | ctor (o : ObjId) (inst : Slots) (h : List Event) : WNAll K h → WNAll K (Event.construct o inst :: h)
  | poke (c : Nat) (r : Bool) (v : Val) (h : List Event) : K c = .flag r → WNAll K h → WNAll K (Event.poke c v :: h)
  | block (o : ObjId) (exc : Bool) (h1 h2 : List Event) :
      WNAll K h1 → (∀ e ∈ h1, e.obj? ≠ some o) → WNAll K h2 →
      WNAll K (Event.enter o :: h1 ++ Event.exit o exc :: h2)
  /-- a `with` block over a composite: members of pairwise different setting classes, entered in member order and
      exited in the SAME order (not LIFO), as `fast_computations` / `linalg_dtypes` do -/
  | comp (ps : List ObjId) (exc : Bool) (h1 h2 : List Event) :
      (ps.map Prod.fst).Nodup → WNAll K h1 → (∀ e ∈ h1, ∀ p ∈ ps, e.obj? ≠ some p) → WNAll K h2 →
      WNAll K (enterAll ps ++ h1 ++ exitAll ps exc ++ h2)

private theorem WN_of_other {K : Nat → Kind} {c : Nat} (l : List Event) (h : ∀ e ∈ l, e.cls ≠ c) : WN K c l := by
  induction l with
  | nil => exact WN.nil
  | cons e l ih =>
    exact WN.other e l (h e List.mem_cons_self) (ih (fun e' he' => h e' (List.mem_cons_of_mem _ he')))

private theorem WN_append {K : Nat → Kind} {c : Nat} {h1 h2 : List Event} (w1 : WN K c h1) (w2 : WN K c h2) :
    WN K c (h1 ++ h2) := by
  induction w1 with
  | nil => exact w2
  | other e h hne _ ih => exact WN.other e _ hne ih
  | ctor k inst h _ ih => exact WN.ctor k inst _ ih
  | poke r v h hk _ ih => exact WN.poke r v _ hk ih
  | block k exc h1 h2' w1 hno _ _ ih2 =>
    have : (Event.enter (c, k) :: h1 ++ Event.exit (c, k) exc :: h2') ++ h2
        = Event.enter (c, k) :: h1 ++ Event.exit (c, k) exc :: (h2' ++ h2) := by simp
    rw [this]; exact WN.block k exc h1 _ w1 hno ih2

/-- A single-stack history is well nested for every class. -/
theorem WNAll_WN {K : Nat → Kind} {h : List Event} (w : WNAll K h) (c : Nat) : WN K c h := by
  induction w with
  | nil => exact WN.nil
  | ctor o inst h _ ih =>
    by_cases hc : o.1 = c
    · obtain ⟨c', k⟩ := o; simp only at hc; subst hc; exact WN.ctor k inst h ih
    · exact WN.other _ _ (by simpa [Event.cls] using hc) ih
  | poke c' r v h hk _ ih =>
    by_cases hc : c' = c
    · subst hc; exact WN.poke r v h hk ih
    · exact WN.other _ _ (by simpa [Event.cls] using hc) ih
  | block o exc h1 h2 _ hno _ ih1 ih2 =>
    by_cases hc : o.1 = c
    · obtain ⟨c', k⟩ := o; simp only at hc; subst hc; exact WN.block k exc h1 h2 ih1 hno ih2
    · have : Event.enter o :: h1 ++ Event.exit o exc :: h2
          = [Event.enter o] ++ (h1 ++ ([Event.exit o exc] ++ h2)) := by simp
      rw [this]
      exact WN_append (WN.other _ _ (by simpa [Event.cls] using hc) WN.nil)
        (WN_append ih1 (WN.other _ _ (by simpa [Event.cls] using hc) ih2))
  | comp ps exc h1 h2 hnd _ hno _ ih1 ih2 =>
    by_cases hc : ∃ p ∈ ps, p.1 = c
    · obtain ⟨p, hp, hpc⟩ := hc
      obtain ⟨l1, l2, rfl⟩ := List.append_of_mem hp
      have hd1 : ∀ q ∈ l1, q.1 ≠ p.1 := by
        intro q hq heq
        simp only [List.map_append, List.map_cons, List.nodup_append, List.nodup_cons] at hnd
        exact hnd.2.2 q.1 (List.mem_map_of_mem hq) p.1 (List.mem_cons_self) heq
      have hd2 : ∀ q ∈ l2, q.1 ≠ p.1 := by
        intro q hq heq
        simp only [List.map_append, List.map_cons, List.nodup_append, List.nodup_cons] at hnd
        exact hnd.2.1.1 (heq ▸ List.mem_map_of_mem hq)
      have hq1 : ∀ q ∈ l1, q ≠ p := fun q hq heq => hd1 q hq (heq ▸ rfl)
      have hq2 : ∀ q ∈ l2, q ≠ p := fun q hq heq => hd2 q hq (heq ▸ rfl)
      have hmid : ∀ e ∈ enterAll l2 ++ h1 ++ exitAll l1 exc, e.obj? ≠ some p := by
        intro e he
        rcases List.mem_append.mp he with he | he
        · rcases List.mem_append.mp he with he | he
          · exact enterAll_obj l2 p hq2 e he
          · exact hno e he p hp
        · exact exitAll_obj l1 exc p hq1 e he
      have hshape : enterAll (l1 ++ p :: l2) ++ h1 ++ exitAll (l1 ++ p :: l2) exc ++ h2
          = enterAll l1 ++ (Event.enter p :: (enterAll l2 ++ h1 ++ exitAll l1 exc) ++ Event.exit p exc :: (exitAll l2 exc ++ h2)) := by
        simp [enterAll, exitAll]
      rw [hshape]
      obtain ⟨c', k⟩ := p
      simp only at hpc; subst hpc
      refine WN_append (WN_of_other _ (enterAll_cls l1 c' hd1)) ?_
      refine WN.block k exc _ _ ?_ hmid (WN_append (WN_of_other _ (exitAll_cls l2 exc c' hd2)) ih2)
      exact WN_append (WN_append (WN_of_other _ (enterAll_cls l2 c' hd2)) ih1) (WN_of_other _ (exitAll_cls l1 exc c' hd1))
    · have hall : ∀ q ∈ ps, q.1 ≠ c := fun q hq heq => hc ⟨q, hq, heq⟩
      exact WN_append (WN_append (WN_append (WN_of_other _ (enterAll_cls ps c hall)) ih1)
        (WN_of_other _ (exitAll_cls ps exc c hall))) ih2

/-- **Any well-nested history is the identity on every setting**: after any single-stack `with` history (any
depth, any mix of settings, pre-constructed and re-used objects, exceptional exits) EVERY setting class has its
initial value. -/
theorem wellNested_history_is_identity (K : Nat → Kind) (h : List Event) (hw : WNAll K h) (s : State) (c : Nat) :
    settingVal (K c) ((run K s h).globals c) = settingVal (K c) (s.globals c) :=
  lifo_restores_all K c h (WNAll_WN hw c) s

example : WNAll (fun _ => Kind.value)
    [Event.construct (0, 1) ⟨some 5, none, none⟩, Event.construct (1, 1) ⟨none, none, none⟩,
     Event.enter (0, 1), Event.enter (1, 1), Event.exit (1, 1) true, Event.exit (0, 1) false,
     Event.enter (0, 1), Event.exit (0, 1) false] := by
  refine WNAll.ctor _ _ _ (WNAll.ctor _ _ _ ?_)
  exact WNAll.block (0, 1) false [Event.enter (1, 1), Event.exit (1, 1) true] _
    (WNAll.block (1, 1) true [] [] WNAll.nil (by simp) WNAll.nil) (by simp [Event.obj?])
    (WNAll.block (0, 1) false [] [] WNAll.nil (by simp) WNAll.nil)

example : WNAll (fun _ => Kind.flag false)
    (enterAll [(0, 1), (1, 1), (2, 1)] ++ [Event.enter (1, 2), Event.exit (1, 2) true] ++ exitAll [(0, 1), (1, 1), (2, 1)] false ++ []) :=
  WNAll.comp [(0, 1), (1, 1), (2, 1)] false _ [] (by decide)
    (WNAll.block (1, 2) true [] [] WNAll.nil (by simp) WNAll.nil) (by simp [Event.obj?]) WNAll.nil

/-- **The default is observed outside**: after a history that is well nested for flag class `c`, `on()` and
`is_default()` report what they reported before — in particular a flag that was never set still reports its
`_default` and `is_default() = True`. -/
theorem default_observed_outside (K : Nat → Kind) (c : Nat) (h : List Event) (hw : WN K c h) (s : State) (dflt : Bool) :
    flagOn dflt ((run K s h).globals c) = flagOn dflt (s.globals c) ∧
    isDefault ((run K s h).globals c) = isDefault (s.globals c) ∧
    ((s.globals c).a = none → flagOn dflt ((run K s h).globals c) = dflt) := by
  have ha := settingVal_a _ _ _ (lifo_restores_all K c h hw s)
  refine ⟨?_, ?_, ?_⟩
  · simp [flagOn, ha]
  · simp [isDefault, ha]
  · intro h0; simp [flagOn, ha, h0]

/-- Event `e` names no value for slot `i` of per-dtype class `c` (constructor argument / class-level setter
argument for that dtype is `None`). -/
def Event.leavesSlot (c : Nat) (i : Slot) : Event → Prop
  | .construct o inst => o.1 = c → inst.get i = none
  | .set c' v => c' = c → v.get i = none
  | .poke c' _ => c' ≠ c
  | _ => True

/-- Invariant: slot `i` of class `c` holds `v0`, and so does every snapshot; no object names the slot. -/
structure SlotInv (c : Nat) (i : Slot) (v0 : Val) (s : State) : Prop where
  g : (s.globals c).get i = v0
  objs : ∀ k ob, s.objs (c, k) = some ob → ob.inst.get i = none ∧ ob.saved.get i = v0

private theorem slotInv_step (K : Nat → Kind) (c : Nat) (i : Slot) (v0 : Val) (hk : K c = .dtype)
    (s : State) (e : Event) (he : e.leavesSlot c i) (inv : SlotInv c i v0 s) : SlotInv c i v0 (step K s e) := by
  obtain ⟨hg, hobjs⟩ := inv
  cases e with
  | construct o inst =>
    refine ⟨hg, ?_⟩
    intro k ob hk'
    simp only [step, upd] at hk'
    split at hk'
    · rename_i heq
      have hc : o.1 = c := by rw [← heq]
      simp only [Option.some.injEq] at hk'; subst hk'
      exact ⟨he hc, by simp only; rw [hc]; exact hg⟩
    · exact hobjs k ob hk'
  | enter o =>
    simp only [step]
    split
    · exact ⟨hg, hobjs⟩
    · rename_i ob0 hob0
      by_cases hc : o.1 = c
      · obtain ⟨c', k0⟩ := o; simp only at hc; subst hc
        have h0 := hobjs k0 ob0 hob0
        refine ⟨?_, ?_⟩
        · simp only [upd_same]; rw [hk, setOnEnter_dtype_get _ _ _ h0.1]; exact hg
        · intro k ob hk'
          simp only [upd] at hk'
          split at hk'
          · simp only [Option.some.injEq] at hk'; subst hk'; exact ⟨h0.1, hg⟩
          · exact hobjs k ob hk'
      · refine ⟨?_, ?_⟩
        · dsimp only; rw [upd_other _ _ _ _ (Ne.symm hc)]; exact hg
        · intro k ob hk'
          have : (c, k) ≠ o := by intro hh; apply hc; rw [← hh]
          dsimp only at hk'
          rw [upd_other _ _ _ _ this] at hk'
          exact hobjs k ob hk'
  | exit o exc =>
    simp only [step]
    split
    · exact ⟨hg, hobjs⟩
    · rename_i ob0 hob0
      refine ⟨?_, hobjs⟩
      by_cases hc : o.1 = c
      · obtain ⟨c', k0⟩ := o; simp only at hc; subst hc
        simp only [upd_same]; rw [hk]; exact (hobjs k0 ob0 hob0).2
      · dsimp only; rw [upd_other _ _ _ _ (Ne.symm hc)]; exact hg
  | poke c' v =>
    refine ⟨?_, hobjs⟩
    simp only [step]
    rw [upd_other _ _ _ _ (Ne.symm he)]; exact hg
  | set c' v =>
    refine ⟨?_, hobjs⟩
    simp only [step]
    by_cases hc : c' = c
    · subst hc; simp only [upd_same]; rw [hk, setOnEnter_dtype_get _ _ _ (he rfl)]; exact hg
    · rw [upd_other _ _ _ _ (Ne.symm hc)]; exact hg

/-- **dtype slot isolation over arbitrary histories** (all three slots `i`): as long as no constructor call and no
class-level `_set_value` names a value for dtype slot `i` of per-dtype setting `c`, that slot NEVER changes —
for every history whatsoever (non-LIFO exits, nested re-entry, exceptional exits, events of other settings),
not only well-nested ones. -/
theorem dtype_slot_never_touched (K : Nat → Kind) (c : Nat) (i : Slot) (v0 : Val) (hk : K c = .dtype)
    (h : List Event) (hl : ∀ e ∈ h, e.leavesSlot c i) (s : State) (inv : SlotInv c i v0 s) :
    SlotInv c i v0 (run K s h) := by
  induction h generalizing s with
  | nil => exact inv
  | cons e h ih =>
    rw [run_cons]
    exact ih (fun e' he' => hl e' (List.mem_cons_of_mem _ he')) _
      (slotInv_step K c i v0 hk s e (hl e List.mem_cons_self) inv)

/-- Non-vacuity: every state without context objects satisfies the invariant (for its current slot value), and a
history writing the float and half slots leaves the double slot alone. -/
example (g : Nat → Slots) (c : Nat) (i : Slot) : SlotInv c i ((g c).get i) ⟨g, fun _ => none⟩ :=
  ⟨rfl, fun _ _ h => by simp at h⟩

example : ∀ e ∈ [Event.construct (5, 1) ⟨some 3, none, some 4⟩, Event.enter (5, 1), Event.set 5 ⟨some 9, none, none⟩,
    Event.enter (5, 1), Event.exit (5, 1) true], e.leavesSlot 5 Slot.b := by
  simp [Event.leavesSlot, Slots.get]

/-- `deterministic_probes`: every write of the flag's state (`__enter__`, `__exit__`, class-level `_set_state`)
clears the probe-vector cache. -/
theorem probe_cache_reset (K : Nat → Kind) (s : State) (c : Nat) (hk : K c = .flag true) :
    (∀ k ob, s.objs (c, k) = some ob → ((step K s (Event.enter (c, k))).globals c).b = none) ∧
    (∀ k ob exc, s.objs (c, k) = some ob → ((step K s (Event.exit (c, k) exc)).globals c).b = none) ∧
    (∀ v, ((step K s (Event.set c v)).globals c).b = none) := by
  refine ⟨?_, ?_, ?_⟩
  · intro k ob h; simp [step, h, hk, setOnEnter]
  · intro k ob exc h; simp [step, h, hk, restore]
  · intro v; simp [step, hk, setOnEnter]

/-- **Composite block** (`with fast_computations(…):` / `with linalg_dtypes(…):`): members of pairwise different
setting classes, entered in list order and exited in the SAME list order (as the code does), any body `h` that
does not name the members: every member's setting is restored. -/
theorem composite_block_restores (K : Nat → Kind) (s : State) (ps : List ObjId) (h : List Event) (exc : Bool)
    (hnd : (ps.map Prod.fst).Nodup) (hob : ∀ p ∈ ps, (s.objs p).isSome)
    (hno : ∀ e ∈ h, ∀ p ∈ ps, e.obj? ≠ some p) :
    ∀ p ∈ ps, settingVal (K p.1) ((run K s (enterAll ps ++ h ++ exitAll ps exc)).globals p.1)
      = settingVal (K p.1) (s.globals p.1) := by
  intro p hp
  obtain ⟨l1, l2, rfl⟩ := List.append_of_mem hp
  have hd1 : ∀ q ∈ l1, q.1 ≠ p.1 := by
    intro q hq heq
    simp only [List.map_append, List.map_cons, List.nodup_append, List.nodup_cons] at hnd
    exact hnd.2.2 q.1 (List.mem_map_of_mem hq) p.1 (List.mem_cons_self) heq
  have hd2 : ∀ q ∈ l2, q.1 ≠ p.1 := by
    intro q hq heq
    simp only [List.map_append, List.map_cons, List.nodup_append, List.nodup_cons] at hnd
    exact hnd.2.1.1 (heq ▸ List.mem_map_of_mem hq)
  have hq1 : ∀ q ∈ l1, q ≠ p := fun q hq heq => hd1 q hq (heq ▸ rfl)
  have hq2 : ∀ q ∈ l2, q ≠ p := fun q hq heq => hd2 q hq (heq ▸ rfl)
  have hmid : ∀ e ∈ enterAll l2 ++ h ++ exitAll l1 exc, e.obj? ≠ some p := by
    intro e he
    rcases List.mem_append.mp he with he | he
    · rcases List.mem_append.mp he with he | he
      · exact enterAll_obj l2 p hq2 e he
      · exact hno e he p hp
    · exact exitAll_obj l1 exc p hq1 e he
  have hshape : enterAll (l1 ++ p :: l2) ++ h ++ exitAll (l1 ++ p :: l2) exc
      = enterAll l1 ++ ((Event.enter p :: (enterAll l2 ++ h ++ exitAll l1 exc) ++ [Event.exit p exc]) ++ exitAll l2 exc) := by
    simp [enterAll, exitAll]
  rw [hshape, run_append, run_append,
    run_globals_other K (exitAll l2 exc) _ p.1 (exitAll_cls l2 exc p.1 hd2)]
  rcases exit_restores_entry_value K (run K s (enterAll l1)) p _ exc hmid with h1 | h1
  · rw [h1, run_globals_other K (enterAll l1) s p.1 (enterAll_cls l1 p.1 hd1)]
  · exfalso
    have := run_objs_isSome K (enterAll l1) s p (hob p hp)
    rw [h1] at this; simp at this

/-- **Composite `__enter__` failing at member `j`** — what the code does: the first `j` members stay entered (they hold
their instance values), the others are untouched, and `with` never calls `__exit__`.  FULL CLAIM WANTED BY THE
PROPERTY (`composite_partial_enter_restores`): after a failed composite `__enter__` every member's setting has
the value it had before.  That is FALSE for the code as it is (`composite_partial_enter_counterexample`); what
holds is: once the already-entered prefix is exited (which is what notes/C17_fix_1.diff makes `__enter__` do
before re-raising), every member is restored. -/
theorem composite_partial_enter_restores_partial (K : Nat → Kind) (s : State) (ps : List ObjId) (j : Nat) (exc : Bool)
    (hnd : (ps.map Prod.fst).Nodup) (hob : ∀ p ∈ ps, (s.objs p).isSome) :
    (∀ p ∈ ps.drop j, (run K s (enterFail ps j)).globals p.1 = s.globals p.1) ∧
    (∀ p ∈ ps, settingVal (K p.1) ((run K s (enterFail ps j ++ exitAll (ps.take j) exc)).globals p.1)
      = settingVal (K p.1) (s.globals p.1)) := by
  have hsplit : ps = ps.take j ++ ps.drop j := (List.take_append_drop j ps).symm
  have hnd' : ((ps.take j).map Prod.fst ++ (ps.drop j).map Prod.fst).Nodup := by
    rw [← List.map_append, ← hsplit]; exact hnd
  have hdisj : ∀ q ∈ ps.take j, ∀ p ∈ ps.drop j, q.1 ≠ p.1 := by
    intro q hq p hp
    exact (List.nodup_append.mp hnd').2.2 q.1 (List.mem_map_of_mem hq) p.1 (List.mem_map_of_mem hp)
  have hdrop : ∀ p ∈ ps.drop j, ∀ l : List Event, (∀ e ∈ l, ∃ q ∈ ps.take j, e.cls = q.1) →
      (run K s l).globals p.1 = s.globals p.1 := by
    intro p hp l hl
    apply run_globals_other
    intro e he heq
    obtain ⟨q, hq, hq'⟩ := hl e he
    exact hdisj q hq p hp (hq' ▸ heq)
  refine ⟨?_, ?_⟩
  · intro p hp
    apply hdrop p hp
    intro e he
    simp only [enterFail, enterAll, List.mem_map] at he
    obtain ⟨q, hq, rfl⟩ := he
    exact ⟨q, hq, rfl⟩
  · intro p hp
    rw [hsplit] at hp
    rcases List.mem_append.mp hp with hp | hp
    · have := composite_block_restores K s (ps.take j) [] exc (List.nodup_append.mp hnd').1
        (fun q hq => hob q (List.mem_of_mem_take hq)) (by simp) p hp
      simpa [enterFail] using this
    · rw [hdrop p hp]
      intro e he
      rcases List.mem_append.mp he with he | he
      · simp only [enterFail, enterAll, List.mem_map] at he
        obtain ⟨q, hq, rfl⟩ := he
        exact ⟨q, hq, rfl⟩
      · simp only [exitAll, List.mem_map] at he
        obtain ⟨q, hq, rfl⟩ := he
        exact ⟨q, hq, rfl⟩

/-- The code as it is: `fast_computations.__enter__` whose second member raises leaves the first member set
(default/unset `none` → `some 0`, i.e. `False`): a leak out of a `with` statement whose body never ran. -/
theorem composite_partial_enter_counterexample :
    ((run (fun _ => Kind.flag false) ⟨fun _ => ⟨none, none, none⟩, fun _ => none⟩
      ([Event.construct (0, 1) ⟨some 0, none, none⟩, Event.construct (1, 1) ⟨some 0, none, none⟩,
        Event.construct (2, 1) ⟨some 0, none, none⟩] ++ enterFail [(0, 1), (1, 1), (2, 1)] 1)).globals 0).a = some 0 := by
  decide

/-! ### Obligations on the table generated from today's `settings.py` -/

open LinOp.Generated.C17 in
/-- No setting class overrides the context protocol of its base class; the only override anywhere
is `deterministic_probes._set_state` (modelled as `Kind.flag true`). -/
theorem table_no_protocol_overrides :
    ∀ c ∈ classes, c.defines = [] ∨ (c.name = "deterministic_probes" ∧ c.defines = ["_set_state"]) := by
  decide +kernel

open LinOp.Generated.C17 in
/-- Composite contexts enter and exit exactly their parts, each once, and their parts are contexts
of pairwise different setting classes (so by `no_cross_talk` the order among parts is irrelevant
and `lifo_restores_all` applies to each part class separately). -/
theorem table_composites_sound :
    ∀ c ∈ composites, (c.parts.map Prod.snd).Nodup ∧ (c.parts.map Prod.fst).Nodup ∧
      c.enterOrder.Perm (c.parts.map Prod.fst) ∧ c.exitOrder.Perm (c.parts.map Prod.fst) ∧
      (∀ p ∈ c.parts, ∃ k ∈ classes, k.name = p.2) := by
  decide +kernel

/-! ### Session 5: method bodies of today's `settings.py`, translated from the `ast`, pinned and refined -/

/-- The statement lists of `__init__` / `__enter__` / `__exit__` / `_set_state` / `_set_value` of the three base
classes and of `deterministic_probes` (the only setting class defining a protocol method), as translated from
today's source, ARE the canonical bodies (parameters and defaults included); no other setting class defines a
protocol method (any such method would be an extra row).  A body edit breaks this obligation. -/
theorem bodies_pinned : LinOp.Generated.C17.methods = IR.canon := by decide +kernel

/-- `value` / `value(dtype)` / `is_default` / `on` / `off` are the canonical readers. -/
theorem readers_pinned : LinOp.Generated.C17.readers = IR.canonReaders := by decide +kernel

/-- The composites' `__init__` / `__enter__` / `__exit__` are the canonical ones: members entered and exited in
source order, `__exit__` returns `False`, and `__enter__` is either unguarded (the code as it is; a failing member
leaves the earlier ones entered: `composite_partial_enter_counterexample`) or exactly the guarded form of
notes/C17_fix_1.diff (earlier members exited in member order, exception re-raised:
`composite_partial_enter_restores_partial`).  The harness reads the same text to choose the model of a failed enter. -/
theorem composite_bodies_pinned :
    LinOp.Generated.C17.compositeMethods = IR.canonComposite ∨
    LinOp.Generated.C17.compositeMethods = IR.canonCompositeFixed := by decide +kernel

/-- Refinement, for ALL values: the class-level setter a class of kind `k` resolves to computes `setOnEnter`. -/
theorem ir_setter_refines (k : Kind) (g v : Slots) :
    IR.setterOf IR.canon k [v.a, v.b, v.c] g = setOnEnter k g v := by
  obtain ⟨va, vb, vc⟩ := v
  cases k with
  | flag r => cases r <;> rfl
  | value => rfl
  | dtype => cases va <;> cases vb <;> cases vc <;> rfl

/-- Refinement, for ALL values: executing the canonical `__enter__` body is the model's `enter` step — it installs
`setOnEnter k g inst`, keeps the instance value, and the snapshot it takes restores exactly like the model's. -/
theorem ir_enter_refines (k : Kind) (g inst saved args : Slots) :
    (IR.runMethod IR.canon k "__enter__" ⟨g, inst, saved, args⟩).g = setOnEnter k g inst ∧
    (IR.runMethod IR.canon k "__enter__" ⟨g, inst, saved, args⟩).inst = inst ∧
    (∀ g', restore k g' (IR.runMethod IR.canon k "__enter__" ⟨g, inst, saved, args⟩).saved = restore k g' g) := by
  obtain ⟨ia, ib, ic⟩ := inst
  cases k with
  | flag r => cases r <;> exact ⟨rfl, rfl, fun _ => rfl⟩
  | value => exact ⟨rfl, rfl, fun _ => rfl⟩
  | dtype => cases ia <;> cases ib <;> cases ic <;> exact ⟨rfl, rfl, fun _ => rfl⟩

/-- Refinement, for ALL values: the canonical `__exit__` body is the model's `restore`, ignores the exception
info, and returns `False`. -/
theorem ir_exit_refines (k : Kind) (env : IR.Env) :
    (IR.runMethod IR.canon k "__exit__" env).g = restore k env.g env.saved ∧
    IR.returnsFalse (IR.bodyOf IR.canon (IR.baseName k) "__exit__") = true := by
  obtain ⟨g, inst, ⟨sa, sb, sc⟩, args⟩ := env
  cases k with
  | flag r => cases r <;> exact ⟨rfl, by decide⟩
  | value => exact ⟨rfl, by decide⟩
  | dtype => exact ⟨rfl, by decide⟩

/-- Refinement, for ALL values: the canonical `__init__` body writes no class attribute, records the constructor
arguments as the instance value, and its (unused) snapshot is the construction-time value. -/
theorem ir_init_refines (k : Kind) (g inst saved args : Slots) :
    (IR.runMethod IR.canon k "__init__" ⟨g, inst, saved, args⟩).g = g ∧
    (∀ g', setOnEnter k g' (IR.runMethod IR.canon k "__init__" ⟨g, inst, saved, args⟩).inst = setOnEnter k g' args) ∧
    (∀ g', restore k g' (IR.runMethod IR.canon k "__init__" ⟨g, inst, saved, args⟩).saved = restore k g' g) := by
  cases k with
  | flag r => cases r <;> exact ⟨rfl, fun _ => rfl, fun _ => rfl⟩
  | value => exact ⟨rfl, fun _ => rfl, fun _ => rfl⟩
  | dtype => exact ⟨rfl, fun _ => rfl, fun _ => rfl⟩

/-! ### Session 5: the hand-written `step` IS the semantics of the pinned bodies, on all histories -/

private theorem ir_exit_keeps_obj (k : Kind) (env : IR.Env) :
    (IR.runMethod IR.canon k "__exit__" env).inst = env.inst ∧
    (IR.runMethod IR.canon k "__exit__" env).saved = env.saved := by
  obtain ⟨g, inst, ⟨sa, sb, sc⟩, args⟩ := env
  cases k with
  | flag r => cases r <;> exact ⟨rfl, rfl⟩
  | value => exact ⟨rfl, rfl⟩
  | dtype => exact ⟨rfl, rfl⟩

private theorem sim_step (K : Nat → Kind) (s1 s2 : State) (e : Event) (hs : IR.Sim K s1 s2) :
    IR.Sim K (step K s1 e) (IR.stepIR IR.canon K s2 e) := by
  obtain ⟨hg, ho⟩ := hs
  cases e with
  | construct o inst =>
    have hi := ir_init_refines (K o.1) (s2.globals o.1) IR.none3 IR.none3 inst
    refine ⟨?_, ?_⟩
    · intro c
      simp only [step, IR.stepIR, upd]
      split
      · rename_i h; rw [hi.1, h, hg]
      · exact hg c
    · intro o'
      simp only [step, IR.stepIR, upd]
      split
      · rename_i h; subst h
        exact ⟨fun g => (hi.2.1 g).symm, fun g => by rw [hi.2.2 g, hg]⟩
      · exact ho o'
  | enter o =>
    have hoo := ho o
    simp only [step, IR.stepIR]
    cases h1 : s1.objs o with
    | none =>
      cases h2 : s2.objs o with
      | none => exact ⟨hg, ho⟩
      | some b => rw [h1, h2] at hoo; exact hoo.elim
    | some a =>
      cases h2 : s2.objs o with
      | none => rw [h1, h2] at hoo; exact hoo.elim
      | some b =>
        rw [h1, h2] at hoo
        have hi := ir_enter_refines (K o.1) (s2.globals o.1) b.inst b.saved IR.none3
        refine ⟨?_, ?_⟩
        · intro c
          simp only [upd]
          split
          · rw [hi.1, hg, hoo.1]
          · exact hg c
        · intro o'
          simp only [upd]
          split
          · rename_i h; subst h
            exact ⟨fun g => by rw [hi.2.1]; exact hoo.1 g, fun g => by rw [hi.2.2 g, hg]⟩
          · exact ho o'
  | exit o exc =>
    have hoo := ho o
    simp only [step, IR.stepIR]
    cases h1 : s1.objs o with
    | none =>
      cases h2 : s2.objs o with
      | none => exact ⟨hg, ho⟩
      | some b => rw [h1, h2] at hoo; exact hoo.elim
    | some a =>
      cases h2 : s2.objs o with
      | none => rw [h1, h2] at hoo; exact hoo.elim
      | some b =>
        rw [h1, h2] at hoo
        have hi := ir_exit_refines (K o.1) ⟨s2.globals o.1, b.inst, b.saved, IR.none3⟩
        have hk := ir_exit_keeps_obj (K o.1) ⟨s2.globals o.1, b.inst, b.saved, IR.none3⟩
        refine ⟨?_, ?_⟩
        · intro c
          simp only [upd]
          split
          · rw [hi.1, hg]; exact hoo.2 _
          · exact hg c
        · intro o'
          simp only [upd]
          split
          · rename_i h; subst h
            rw [h1, hk.1, hk.2]; exact hoo
          · exact ho o'
  | poke c v =>
    refine ⟨?_, ho⟩
    intro c'
    simp only [step, IR.stepIR, upd]
    split
    · rw [hg]
    · exact hg c'
  | set c v =>
    refine ⟨?_, ho⟩
    intro c'
    simp only [step, IR.stepIR, upd]
    split
    · rw [ir_setter_refines, hg]
    · exact hg c'

/-- **Refinement over histories**: run any history through the bodies translated from today's `settings.py`
(`Generated.C17.methods`, executed by the IR semantics) and through the hand-written model `step`: starting from
related states (e.g. the same state without context objects) the class attributes agree after every history, for every
class table `K`.  So every theorem above about `run` is a theorem about the translated code. -/
theorem model_refines_translated_bodies (K : Nat → Kind) (h : List Event) (s1 s2 : State) (hs : IR.Sim K s1 s2) :
    IR.Sim K (run K s1 h) (IR.runIR LinOp.Generated.C17.methods K s2 h) := by
  rw [bodies_pinned]
  induction h generalizing s1 s2 with
  | nil => exact hs
  | cons e h ih => exact ih _ _ (sim_step K s1 s2 e hs)

/-- Non-vacuity: a state without context objects is related to itself, and related states have equal attributes. -/
example (K : Nat → Kind) (g : Nat → Slots) : IR.Sim K ⟨g, fun _ => none⟩ ⟨g, fun _ => none⟩ :=
  ⟨fun _ => rfl, fun _ => trivial⟩

/-- The canonical bodies contain no statement outside the IR. -/
theorem ir_no_unknown_statement : ∀ m ∈ IR.canon, IR.noOther m.body = true := by decide +kernel

end LinOp.C17
