import LinOp.C13.Proofs
import LinOp.C13.ProofsSem
import LinOp.C13.Examples
import LinOp.Generated.C13Table
import LinOp.Generated.C13PTable
import LinOp.Generated.C13Sites
/-!
C13 — no operation mutates caller-owned tensors or an existing operator's matrix.  Property theorems only.

`Generated.C13.table` is the alias IR of **every** function of /repo/linear_operator as translated on
this run by `harness/extract/c13_alias.py`; `Generated.C13P.table` is the same tree with the root
defects listed in known_findings.txt replaced by their fixed form (a function that only writes to
new tensors).  `Safe Φ fn allowed` (Model.lean): for every aliasing of the arguments and every
nondeterministic choice, each storage written during the call was allocated during the call or
belongs to a formal in `allowed` (explicit `out=` buffers).
-/
namespace LinOp.C13

/-- **Soundness of the analysis** (all programs, all tables, calls executed by running the callee's
body, unbounded recursion depth, loops of any length): if every function of the table conforms to
its candidate summary and the summary of `f` mutates only allowed formals, then no execution of `f`
writes a pre-existing storage outside the allowed formals. -/
theorem analyse_sound (Sg : List Summary) (Φ : List Fn) (hT : tableOK Sg Sg Φ = true)
    (f : Nat) (fn : Fn) (allowed : List Nat) (hf : Φ[f]? = some fn)
    (hm : mutsWithin Sg f allowed = true) : Safe Φ fn allowed :=
  analyse_sound_aux Sg Φ hT f fn allowed hf hm

/-- A function (and everything it calls) without any `write` is safe: special case used for the
mutation-free part of the package. -/
theorem no_write_safe (Sg : List Summary) (Φ : List Fn) (hT : tableOK Sg Sg Φ = true)
    (f : Nat) (fn : Fn) (hf : Φ[f]? = some fn) (hm : mutsWithin Sg f [] = true) : Safe Φ fn [] :=
  analyse_sound Sg Φ hT f fn [] hf hm

/-- The analysis is not vacuous: it rejects the program that writes its parameter, that program is
really unsafe, and a program writing a fresh buffer or a clone is accepted and safe. -/
theorem analysis_discriminates :
    ¬ Safe Examples.table Examples.writeParam [] ∧ fnOK Examples.sigma Examples.writeParam ⟨[], []⟩ = false ∧
    Safe Examples.table Examples.writeClone [] ∧ ¬ Safe Examples.table Examples.writeView [] ∧
    ¬ Safe Examples.table Examples.callsKernel [] :=
  ⟨Examples.writeParam_unsafe, by decide, Examples.writeClone_safe, Examples.writeView_unsafe, Examples.callsKernel_unsafe⟩

/-- D15 as a machine-checked counterexample: the empty-selection branch of `sparse_getitem`
(`indices = sparse._indices(); indices.resize_(…).zero_()`) writes the caller's sparse tensor. -/
theorem sparse_getitem_counterexample : ¬ Safe Examples.table Examples.sparseGetitemEmptyBranch [] :=
  Examples.sparseGetitemEmptyBranch_unsafe

/-- The repaired form of that branch (allocate new tensors) is safe. -/
theorem sparse_getitem_fixed_safe : Safe Examples.table Examples.sparseGetitemFixedBranch [] :=
  Examples.sparseGetitemFixedBranch_safe

/-- Every function of the regenerated IR conforms to its regenerated summary (kernel-evaluated, `decide +kernel`
per chunk of 60 functions in `Generated/C13IR*.lean`, assembled with `tableOK_append`). -/
theorem generated_table_ok :
    tableOK Generated.C13.sigma Generated.C13.sigma Generated.C13.table = true := Generated.C13.table_ok

/-- Same for the tree with the known root defects repaired. -/
theorem generatedP_table_ok :
    tableOK Generated.C13P.sigma Generated.C13P.sigma Generated.C13P.table = true := Generated.C13P.table_ok

theorem generated_obligations_ok :
    Generated.C13.obligations.all (fun p => mutsWithin Generated.C13.sigma p.1 p.2) = true := by decide +kernel

theorem generatedP_obligations_ok :
    Generated.C13P.obligations.all (fun p => mutsWithin Generated.C13P.sigma p.1 p.2) = true := by decide +kernel

/-- **C13 on today's source** (*partial*: the functions that can reach the known root defects are
excluded from `obligations`; they are in `Generated.C13.flagged`): every listed public function /
method of the package is `Safe`. -/
theorem repo_functions_safe_partial :
    ∀ p ∈ Generated.C13.obligations, ∀ fn, Generated.C13.table[p.1]? = some fn →
      Safe Generated.C13.table fn p.2 := by
  intro p hp fn hf
  have h := generated_obligations_ok
  rw [List.all_eq_true] at h
  exact analyse_sound _ _ generated_table_ok p.1 fn p.2 hf (h p hp)

/-- **C13 modulo the known root defects**: with `sparse_getitem` / `make_sparse_from_indices_and_values`
(the entries of known_findings.txt) in their repaired form, *every* public function and method of the
package is `Safe` (`Generated.C13P.flagged` is empty on the unchanged tree — checked by the harness). -/
theorem repo_functions_safe_modulo_known :
    ∀ p ∈ Generated.C13P.obligations, ∀ fn, Generated.C13P.table[p.1]? = some fn →
      Safe Generated.C13P.table fn p.2 := by
  intro p hp fn hf
  have h := generatedP_obligations_ok
  rw [List.all_eq_true] at h
  exact analyse_sound _ _ generatedP_table_ok p.1 fn p.2 hf (h p hp)

/-! ### Extension session 5 — storage semantics -/

/-- **A view of a view aliases the base** (all tables, states, variable numberings): after
`y = x.view(…); z = y.view(…)` every storage `z` reaches is a storage `x` reached before. -/
theorem view_of_view_aliases (Φ : List Fn) (x y z : Var) (st st' : State)
    (h : Exec Φ (.seq (.assign y (.view x)) (.assign z (.view y))) st st') :
    ∀ s ∈ st'.env z, s ∈ st.env x :=
  view_of_view_aliases_aux h

/-- … and therefore an in-place write through a view of a view of *any* formal is not `Safe`
(any arity `k`, any formal `x < k`, any temporaries `y z`, any table). -/
theorem view_of_view_write_unsafe (Φ : List Fn) (k : Nat) (x y z : Var) (hx : x < k) :
    ¬ Safe Φ ⟨k, .seq (.seq (.assign y (.view x)) (.assign z (.view y))) (.write z)⟩ [] :=
  view_of_view_write_unsafe_aux Φ k x y z hx

/-- **`clone()` breaks the alias**: the storages of a `fresh` value did not exist before the
assignment (so they belong to no caller tensor), and `y = <clone>; y.op_()` is `Safe` for every
arity, variable numbering and table — directly from the semantics, not through the analysis. -/
theorem clone_breaks_alias (Φ : List Fn) (k : Nat) (y : Var) :
    (∀ st st', Exec Φ (.assign y .fresh) st st' → ∀ s ∈ st'.env y, st.n ≤ s) ∧
    Safe Φ ⟨k, .seq (.assign y .fresh) (.write y)⟩ [] :=
  ⟨fun _ _ h => fresh_is_new h, clone_then_write_safe_aux Φ k y⟩

/-- **The analysis is monotone** (all statements incl. loops, branches and calls, all summaries):
more taint on entry (every variable's root set, the written set, the returned set — `LeA`) gives
more taint on exit.  Consequently dropping a root on entry can only hide writes, never invent them. -/
theorem analysis_monotone (Sg : List Summary) (s : Stmt) (a b : AState) (h : LeA a b) :
    LeA (analyse Sg s a) (analyse Sg s b) :=
  analyse_mono Sg s a b h

example : LeA (entryA 1) ⟨[[0, 1], [1]], [1], [], true⟩ ∧ ¬ LeA ⟨[[0, 1], [1]], [1], [], true⟩ (entryA 1) := by
  refine ⟨⟨?_, by simp [entryA], by simp [entryA]⟩, ?_⟩
  · intro x p hp
    rw [look_entryA] at hp
    by_cases hx : x < 1
    · have : x = 0 := by omega
      subst this
      simp at hp
      subst hp
      simp [look]
    · simp [hx] at hp
  · intro h
    have := h.2.1 1 (by simp)
    simp [entryA] at this

/-- **End to end: verdict clean ⇒ snapshots equal.**  If the table conforms to its summaries and the
summary of `f` mutates only `allowed` formals, then for *every* execution of `f` (any aliasing of the
arguments, any nondeterministic choice, any recursion depth / loop count) and every pair of heaps
`h`, `h'` that differ at most on the storages the execution wrote (`HeapFrame`): every storage that
existed on entry and is not reachable from an allowed formal holds the same value afterwards — in
particular every storage reachable from a caller tensor (`P x`) when `allowed = []`. -/
theorem no_caller_root_written_implies_snapshot_equal {α : Type} (Sg : List Summary) (Φ : List Fn)
    (hT : tableOK Sg Sg Φ = true) (f : Nat) (fn : Fn) (allowed : List Nat) (hf : Φ[f]? = some fn)
    (hm : mutsWithin Sg f allowed = true) (P : Var → List Nat) (n0 : Nat) (st' : State)
    (hP : ∀ x s, s ∈ P x → s < n0) (hE : Exec Φ fn.body ⟨entry fn.nparams P, n0, [], []⟩ st')
    (h h' : Nat → α) (hfr : HeapFrame h h' st'.w) :
    ∀ s, s < n0 → (∀ p ∈ allowed, s ∉ entry fn.nparams P p) → h' s = h s :=
  snapshot_equal_of_safe (analyse_sound Sg Φ hT f fn allowed hf hm) P n0 st' hP hE h h' hfr

/-- the hypotheses are satisfiable with a run that really writes (a clone) and a heap that really changes -/
example : ∃ (st' : State) (h h' : Nat → Nat),
    Exec Examples.table Examples.writeClone.body ⟨entry 1 Examples.P0, 1, [], []⟩ st' ∧
    st'.w = [1] ∧ HeapFrame h h' st'.w ∧ h' 1 ≠ h 1 ∧ h' 0 = h 0 := by
  have e1 : Exec Examples.table (.assign 1 .fresh) ⟨entry 1 Examples.P0, 1, [], []⟩ _ :=
    Exec.assign _ 1 .fresh [1] 2 ⟨by simp, by intro s hs; right; simp at hs; subst hs; simp [Rhs.mayFresh]⟩
  have e2 := Exec.seq _ _ _ _ _ e1 (Exec.write _ 1)
  refine ⟨_, fun _ => 0, fun s => if s = 1 then 7 else 0, e2, by simp [upd], ?_, by simp, by simp⟩
  intro s hs
  simp [upd] at hs
  simp [hs]

/-- **C13 on today's source, heap form**: for every obligation of the regenerated table and every
execution, all caller storages outside the `out=` formals are bitwise unchanged. -/
theorem repo_functions_snapshot_equal {α : Type} :
    ∀ p ∈ Generated.C13.obligations, ∀ fn, Generated.C13.table[p.1]? = some fn →
      ∀ (P : Var → List Nat) (n0 : Nat) (st' : State), (∀ x s, s ∈ P x → s < n0) →
      Exec Generated.C13.table fn.body ⟨entry fn.nparams P, n0, [], []⟩ st' →
      ∀ (h h' : Nat → α), HeapFrame h h' st'.w →
      ∀ s, s < n0 → (∀ q ∈ p.2, s ∉ entry fn.nparams P q) → h' s = h s := by
  intro p hp fn hf P n0 st' hP hE h h' hfr
  exact snapshot_equal_of_safe (repo_functions_safe_partial p hp fn hf) P n0 st' hP hE h h' hfr

/-- **No write statement is dropped between the source and the table** (per run, `decide +kernel`): for every
function in which the independent `ast` census (`harness/extract/c13_sites.py`: `x.op_(…)`, `out=`, index
assignment / `del x[i]`, augmented assignment) found in-place sites that the translator turned into writes, the
emitted (slimmed) IR of that function — the one `repo_functions_safe_partial` is about — contains at least as
many `write` / mutating-`call` operations (`countW`); the census total is pinned next to it. -/
theorem generated_sites_ok :
    siteRowsOK Generated.C13.siteRows = true ∧
    (Generated.C13.siteRows.map (fun r => r.2.1)).sum = Generated.C13.siteTotal :=
  ⟨Generated.C13.site_rows_ok, Generated.C13.site_total_ok⟩

/-- `siteRowsOK` really rejects a row with more sites than IR writes -/
example : siteRowsOK [(0, 2, countW [] (.seq (.write 0) (.assign 1 .fresh)))] = false ∧
    siteRowsOK [(0, 2, countW [] (.seq (.write 0) (.ifStar (.write 1) .skip)))] = true := by decide

end LinOp.C13
