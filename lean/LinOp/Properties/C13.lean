import LinOp.C13.Proofs
import LinOp.C13.Examples
import LinOp.Generated.C13Table
import LinOp.Generated.C13PTable
/-!
C13 — no operation mutates caller-owned tensors or an existing operator's matrix.  Property theorems only.

`Generated.C13.table` is the alias IR of **every** function of /repo/linear_operator as translated on
this run by `harness/extract/c13_alias.py`; `Generated.C13P.table` is the same tree with the root
defects listed in known_findings.txt replaced by their fixed form (a function that only writes to
new tensors).  `Safe Φ fn allowed` (Model.lean): for every aliasing of the arguments and every
nondeterministic choice, each storage written during the call was allocated during the call or
belongs to a formal in `allowed` (explicit `out=` buffers).
-/
namespace LinOp.C13

/-- **Soundness of the analysis** (all programs, all tables, calls executed by running the callee's
body, unbounded recursion depth, loops of any length): if every function of the table conforms to
its candidate summary and the summary of `f` mutates only allowed formals, then no execution of `f`
writes a pre-existing storage outside the allowed formals. -/
theorem analyse_sound (Sg : List Summary) (Φ : List Fn) (hT : tableOK Sg Sg Φ = true)
    (f : Nat) (fn : Fn) (allowed : List Nat) (hf : Φ[f]? = some fn)
    (hm : mutsWithin Sg f allowed = true) : Safe Φ fn allowed :=
  analyse_sound_aux Sg Φ hT f fn allowed hf hm

/-- A function (and everything it calls) without any `write` is safe: special case used for the
mutation-free part of the package. -/
theorem no_write_safe (Sg : List Summary) (Φ : List Fn) (hT : tableOK Sg Sg Φ = true)
    (f : Nat) (fn : Fn) (hf : Φ[f]? = some fn) (hm : mutsWithin Sg f [] = true) : Safe Φ fn [] :=
  analyse_sound Sg Φ hT f fn [] hf hm

/-- The analysis is not vacuous: it rejects the program that writes its parameter, that program is
really unsafe, and a program writing a fresh buffer or a clone is accepted and safe. -/
theorem analysis_discriminates :
    ¬ Safe Examples.table Examples.writeParam [] ∧ fnOK Examples.sigma Examples.writeParam ⟨[], []⟩ = false ∧
    Safe Examples.table Examples.writeClone [] ∧ ¬ Safe Examples.table Examples.writeView [] ∧
    ¬ Safe Examples.table Examples.callsKernel [] :=
  ⟨Examples.writeParam_unsafe, by decide, Examples.writeClone_safe, Examples.writeView_unsafe, Examples.callsKernel_unsafe⟩

/-- D15 as a machine-checked counterexample: the empty-selection branch of `sparse_getitem`
(`indices = sparse._indices(); indices.resize_(…).zero_()`) writes the caller's sparse tensor. -/
theorem sparse_getitem_counterexample : ¬ Safe Examples.table Examples.sparseGetitemEmptyBranch [] :=
  Examples.sparseGetitemEmptyBranch_unsafe

/-- The repaired form of that branch (allocate new tensors) is safe. -/
theorem sparse_getitem_fixed_safe : Safe Examples.table Examples.sparseGetitemFixedBranch [] :=
  Examples.sparseGetitemFixedBranch_safe

/-- Every function of the regenerated IR conforms to its regenerated summary (kernel-evaluated, `decide +kernel`
per chunk of 60 functions in `Generated/C13IR*.lean`, assembled with `tableOK_append`). -/
theorem generated_table_ok :
    tableOK Generated.C13.sigma Generated.C13.sigma Generated.C13.table = true := Generated.C13.table_ok

/-- Same for the tree with the known root defects repaired. -/
theorem generatedP_table_ok :
    tableOK Generated.C13P.sigma Generated.C13P.sigma Generated.C13P.table = true := Generated.C13P.table_ok

theorem generated_obligations_ok :
    Generated.C13.obligations.all (fun p => mutsWithin Generated.C13.sigma p.1 p.2) = true := by decide +kernel

theorem generatedP_obligations_ok :
    Generated.C13P.obligations.all (fun p => mutsWithin Generated.C13P.sigma p.1 p.2) = true := by decide +kernel

/-- **C13 on today's source** (*partial*: the functions that can reach the known root defects are
excluded from `obligations`; they are in `Generated.C13.flagged`): every listed public function /
method of the package is `Safe`. -/
theorem repo_functions_safe_partial :
    ∀ p ∈ Generated.C13.obligations, ∀ fn, Generated.C13.table[p.1]? = some fn →
      Safe Generated.C13.table fn p.2 := by
  intro p hp fn hf
  have h := generated_obligations_ok
  rw [List.all_eq_true] at h
  exact analyse_sound _ _ generated_table_ok p.1 fn p.2 hf (h p hp)

/-- **C13 modulo the known root defects**: with `sparse_getitem` / `make_sparse_from_indices_and_values`
(the entries of known_findings.txt) in their repaired form, *every* public function and method of the
package is `Safe` (`Generated.C13P.flagged` is empty on the unchanged tree — checked by the harness). -/
theorem repo_functions_safe_modulo_known :
    ∀ p ∈ Generated.C13P.obligations, ∀ fn, Generated.C13P.table[p.1]? = some fn →
      Safe Generated.C13P.table fn p.2 := by
  intro p hp fn hf
  have h := generatedP_obligations_ok
  rw [List.all_eq_true] at h
  exact analyse_sound _ _ generatedP_table_ok p.1 fn p.2 hf (h p hp)

end LinOp.C13
