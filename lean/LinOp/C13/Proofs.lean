import LinOp.C13.Model
/-! Soundness of the taint analysis w.r.t. the storage semantics (core Lean only). -/
namespace LinOp.C13

theorem mem_uni {a b : List Nat} {p : Nat} : p ∈ uni a b ↔ p ∈ a ∨ p ∈ b := by
  unfold uni
  simp only [List.mem_append, List.mem_filter]
  constructor
  · rintro (h | ⟨h, _⟩)
    · exact Or.inl h
    · exact Or.inr h
  · rintro (h | h)
    · exact Or.inl h
    · by_cases ha : p ∈ a
      · exact Or.inl ha
      · right
        refine ⟨h, ?_⟩
        simp [ha]

theorem sub_sound {a b : List Nat} (h : sub a b = true) : ∀ p ∈ a, p ∈ b := by
  intro p hp
  unfold sub at h
  rw [List.all_eq_true] at h
  have := h p hp
  simpa using this

theorem sub_refl (a : List Nat) : sub a a = true := by
  unfold sub
  rw [List.all_eq_true]
  intro p hp
  simpa using hp

theorem look_nil (x : Nat) : look [] x = [] := by
  cases x <;> rfl

theorem look_aset (a : AEnv) (x y : Nat) (v : List Nat) :
    look (aset a x v) y = if y = x then v else look a y := by
  induction a generalizing x y with
  | nil =>
    induction x generalizing y with
    | zero =>
      cases y with
      | zero => simp [aset, look]
      | succ y => simp [aset, look]
    | succ x ih =>
      cases y with
      | zero => simp [aset, look]
      | succ y => simp [aset, look, ih]
  | cons h t ih =>
    cases x with
    | zero =>
      cases y with
      | zero => simp [aset, look]
      | succ y => simp [aset, look]
    | succ x =>
      cases y with
      | zero => simp [aset, look]
      | succ y => simp [aset, look, ih]

theorem mem_look_ajoin (a b : AEnv) (x p : Nat) :
    p ∈ look (ajoin a b) x ↔ p ∈ look a x ∨ p ∈ look b x := by
  induction a generalizing b x with
  | nil => simp [ajoin, look_nil]
  | cons h t ih =>
    cases b with
    | nil => simp [ajoin, look_nil]
    | cons h' t' =>
      cases x with
      | zero => simp [ajoin, look, mem_uni]
      | succ x => simp [ajoin, look, ih]

theorem ale_sound {a b : AEnv} (h : ale a b = true) : ∀ x p, p ∈ look a x → p ∈ look b x := by
  induction a generalizing b with
  | nil => intro x p hp; simp [look_nil] at hp
  | cons h' t ih =>
    cases b with
    | nil =>
      simp only [ale, Bool.and_eq_true] at h
      intro x p hp
      cases x with
      | zero => exact absurd (sub_sound h.1 p hp) (by simp)
      | succ x => have := ih h.2 x p hp; simp [look_nil] at this
    | cons g t' =>
      simp only [ale, Bool.and_eq_true] at h
      intro x p hp
      cases x with
      | zero => exact sub_sound h.1 p hp
      | succ x => exact ih h.2 x p hp

theorem ale_refl (a : AEnv) : ale a a = true := by
  induction a with
  | nil => rfl
  | cons h t ih => simp [ale, sub_refl, ih]

theorem mem_tj (a : AEnv) (ys : List Var) (p : Nat) : p ∈ tj a ys ↔ ∃ y ∈ ys, p ∈ look a y := by
  induction ys with
  | nil => simp [tj]
  | cons y ys ih => simp [tj, mem_uni, ih]

theorem mem_tjArgs (a : AEnv) (args : List Var) (is : List Nat) (p : Nat) :
    p ∈ tjArgs a args is ↔ ∃ i ∈ is, ∃ y, args[i]? = some y ∧ p ∈ look a y := by
  induction is with
  | nil => simp [tjArgs]
  | cons i is ih =>
    unfold tjArgs
    cases hi : args[i]? with
    | none => simp [ih, hi]
    | some y => simp [mem_uni, ih, hi]

theorem look_entryA (k x : Nat) : look (entryA k).env x = if x < k then [x] else [] := by
  have h : ∀ (l : List Nat) x, look (l.map (fun i => [i])) x = match l[x]? with | some i => [i] | none => [] := by
    intro l
    induction l with
    | nil => intro x; simp [look_nil]
    | cons h t ih =>
      intro x
      cases x with
      | zero => simp [look]
      | succ x => simp [look, ih]
  unfold entryA
  simp only [h]
  by_cases hx : x < k
  · simp [hx]
  · simp [hx]

/-! ### the simulation invariant -/

/-- allocation bound: everything the state mentions exists (`< st.n`), and the counter only grows -/
structure Bnd (n0 : Nat) (st : State) : Prop where
  le : n0 ≤ st.n
  env : ∀ x s, s ∈ st.env x → s < st.n
  r : ∀ s ∈ st.r, s < st.n

/-- the abstract state `a` describes the concrete state `st`: every *old* storage (`< n0`) a
variable reaches belongs to a formal in the variable's taint set; likewise for the written and the
returned storages. -/
structure Resp (P : Var → List Nat) (n0 : Nat) (st : State) (a : AState) : Prop where
  env : ∀ x s, s ∈ st.env x → s < n0 → ∃ p ∈ look a.env x, s ∈ P p
  w : ∀ s ∈ st.w, s < n0 → ∃ p ∈ a.w, s ∈ P p
  r : ∀ s ∈ st.r, s < n0 → ∃ p ∈ a.r, s ∈ P p

theorem ok_mono (Sg : List Summary) (s : Stmt) (a : AState) : (analyse Sg s a).ok = true → a.ok = true := by
  induction s generalizing a with
  | skip => exact id
  | assign x r => exact id
  | write x => exact id
  | ret x => exact id
  | seq s t ihs iht => intro h; exact ihs _ (iht _ h)
  | ifStar s t ihs _ =>
    intro h
    simp only [analyse, Bool.and_eq_true] at h
    exact ihs _ h.1
  | whileStar inv b _ =>
    intro h
    simp only [analyse, Bool.and_eq_true] at h
    exact h.1.1
  | call x f args =>
    intro h
    unfold analyse at h
    cases hs : Sg[f]? with
    | none => simp [hs] at h
    | some σ => simpa [hs] using h

/-- summaries conform: every function in the table has a summary that its body satisfies -/
def TableOK (Sg : List Summary) (Φ : List Fn) : Prop :=
  ∀ (f : Nat) (fn : Fn), Φ[f]? = some fn → ∃ σ, Sg[f]? = some σ ∧ fnOK Sg fn σ = true

theorem tableOK_sound_aux (Sg : List Summary) : ∀ (σs : List Summary) (fns : List Fn),
    tableOK Sg σs fns = true → ∀ (f : Nat) (fn : Fn), fns[f]? = some fn → ∃ σ, σs[f]? = some σ ∧ fnOK Sg fn σ = true := by
  intro σs
  induction σs with
  | nil =>
    intro fns h f fn hf
    cases fns with
    | nil => simp at hf
    | cons a b => simp [tableOK] at h
  | cons σ σs ih =>
    intro fns h f fn hf
    cases fns with
    | nil => simp at hf
    | cons g gs =>
      simp only [tableOK, Bool.and_eq_true] at h
      cases f with
      | zero =>
        simp only [List.getElem?_cons_zero, Option.some.injEq] at hf
        subst hf
        exact ⟨σ, by simp, h.1⟩
      | succ f =>
        simp only [List.getElem?_cons_succ] at hf
        obtain ⟨σ', h1, h2⟩ := ih gs h.2 f fn hf
        exact ⟨σ', by simpa using h1, h2⟩

theorem tableOK_sound {Sg : List Summary} {Φ : List Fn} (h : tableOK Sg Sg Φ = true) : TableOK Sg Φ :=
  tableOK_sound_aux Sg Sg Φ h

theorem entry_resp (k : Nat) (vals : Var → List Nat) (n0 : Nat) :
    Resp (entry k vals) n0 ⟨entry k vals, n0, [], []⟩ (entryA k) := by
  refine ⟨?_, ?_, ?_⟩
  · intro x s hs _
    rw [look_entryA]
    by_cases hx : x < k
    · exact ⟨x, by simp [hx], hs⟩
    · simp [entry, hx] at hs
  · intro s hs; simp at hs
  · intro s hs; simp at hs

/-- **Simulation.**  One induction over the big-step derivation (calls run the callee's body, so
the induction hypothesis covers the callee with *its* formals as the protected family). -/
theorem sound (Sg : List Summary) (Φ : List Fn) (hT : TableOK Sg Φ) {s : Stmt} {st st' : State}
    (hex : Exec Φ s st st') :
    ∀ (P : Var → List Nat) (n0 : Nat) (a : AState), Bnd n0 st → Resp P n0 st a →
      (analyse Sg s a).ok = true → Bnd n0 st' ∧ Resp P n0 st' (analyse Sg s a) := by
  induction hex with
  | skip st => intro P n0 a hb hr _; exact ⟨hb, hr⟩
  | assign st x r l n' hv =>
    intro P n0 a hb hr _
    obtain ⟨hn, hl⟩ := hv
    refine ⟨⟨Nat.le_trans hb.le hn, ?_, ?_⟩, ⟨?_, hr.w, hr.r⟩⟩
    · intro y s hs
      simp only [upd] at hs
      by_cases hy : y = x
      · simp only [hy, if_true] at hs
        rcases hl s hs with ⟨z, _, hz⟩ | ⟨_, _, h2⟩
        · exact Nat.lt_of_lt_of_le (hb.env z s hz) hn
        · exact h2
      · simp only [hy, if_false] at hs
        exact Nat.lt_of_lt_of_le (hb.env y s hs) hn
    · intro s hs; exact Nat.lt_of_lt_of_le (hb.r s hs) hn
    · intro y s hs hlt
      simp only [analyse, look_aset]
      simp only [upd] at hs
      by_cases hy : y = x
      · simp only [hy, if_true] at hs ⊢
        rcases hl s hs with ⟨z, hz1, hz2⟩ | ⟨_, h1, _⟩
        · obtain ⟨p, hp1, hp2⟩ := hr.env z s hz2 hlt
          exact ⟨p, (mem_tj _ _ _).2 ⟨z, hz1, hp1⟩, hp2⟩
        · exact absurd (Nat.lt_of_lt_of_le hlt hb.le) (Nat.not_lt.2 h1)
      · simp only [hy, if_false] at hs ⊢
        exact hr.env y s hs hlt
  | write st x =>
    intro P n0 a hb hr _
    refine ⟨⟨hb.le, hb.env, hb.r⟩, ⟨hr.env, ?_, hr.r⟩⟩
    intro s hs hlt
    simp only [List.mem_append] at hs
    simp only [analyse]
    rcases hs with hs | hs
    · obtain ⟨p, hp1, hp2⟩ := hr.env x s hs hlt
      exact ⟨p, mem_uni.2 (Or.inl hp1), hp2⟩
    · obtain ⟨p, hp1, hp2⟩ := hr.w s hs hlt
      exact ⟨p, mem_uni.2 (Or.inr hp1), hp2⟩
  | ret st x =>
    intro P n0 a hb hr _
    refine ⟨⟨hb.le, hb.env, ?_⟩, ⟨hr.env, hr.w, ?_⟩⟩
    · intro s hs
      simp only [List.mem_append] at hs
      rcases hs with hs | hs
      · exact hb.env x s hs
      · exact hb.r s hs
    · intro s hs hlt
      simp only [List.mem_append] at hs
      simp only [analyse]
      rcases hs with hs | hs
      · obtain ⟨p, hp1, hp2⟩ := hr.env x s hs hlt
        exact ⟨p, mem_uni.2 (Or.inl hp1), hp2⟩
      · obtain ⟨p, hp1, hp2⟩ := hr.r s hs hlt
        exact ⟨p, mem_uni.2 (Or.inr hp1), hp2⟩
  | seq s t st st1 st2 _ _ ih1 ih2 =>
    intro P n0 a hb hr hok
    have hok1 : (analyse Sg s a).ok = true := ok_mono Sg t _ hok
    obtain ⟨hb1, hr1⟩ := ih1 P n0 a hb hr hok1
    exact ih2 P n0 _ hb1 hr1 hok
  | ifL s t st st1 _ ih =>
    intro P n0 a hb hr hok
    simp only [analyse, Bool.and_eq_true] at hok
    obtain ⟨hb1, hr1⟩ := ih P n0 a hb hr hok.1
    refine ⟨hb1, ⟨?_, ?_, ?_⟩⟩
    · intro x s hs hlt
      obtain ⟨p, hp1, hp2⟩ := hr1.env x s hs hlt
      exact ⟨p, (mem_look_ajoin _ _ _ _).2 (Or.inl hp1), hp2⟩
    · intro s hs hlt
      obtain ⟨p, hp1, hp2⟩ := hr1.w s hs hlt
      exact ⟨p, mem_uni.2 (Or.inl hp1), hp2⟩
    · intro s hs hlt
      obtain ⟨p, hp1, hp2⟩ := hr1.r s hs hlt
      exact ⟨p, mem_uni.2 (Or.inl hp1), hp2⟩
  | ifR s t st st1 _ ih =>
    intro P n0 a hb hr hok
    simp only [analyse, Bool.and_eq_true] at hok
    obtain ⟨hb1, hr1⟩ := ih P n0 a hb hr hok.2
    refine ⟨hb1, ⟨?_, ?_, ?_⟩⟩
    · intro x s hs hlt
      obtain ⟨p, hp1, hp2⟩ := hr1.env x s hs hlt
      exact ⟨p, (mem_look_ajoin _ _ _ _).2 (Or.inr hp1), hp2⟩
    · intro s hs hlt
      obtain ⟨p, hp1, hp2⟩ := hr1.w s hs hlt
      exact ⟨p, mem_uni.2 (Or.inr hp1), hp2⟩
    · intro s hs hlt
      obtain ⟨p, hp1, hp2⟩ := hr1.r s hs hlt
      exact ⟨p, mem_uni.2 (Or.inr hp1), hp2⟩
  | whileDone inv b st =>
    intro P n0 a hb hr hok
    simp only [analyse, Bool.and_eq_true] at hok
    obtain ⟨⟨_, ⟨he, hw⟩, hrr⟩, _⟩ := hok
    refine ⟨hb, ⟨?_, ?_, ?_⟩⟩
    · intro x s hs hlt
      obtain ⟨p, hp1, hp2⟩ := hr.env x s hs hlt
      exact ⟨p, ale_sound he x p hp1, hp2⟩
    · intro s hs hlt
      obtain ⟨p, hp1, hp2⟩ := hr.w s hs hlt
      exact ⟨p, sub_sound hw p hp1, hp2⟩
    · intro s hs hlt
      obtain ⟨p, hp1, hp2⟩ := hr.r s hs hlt
      exact ⟨p, sub_sound hrr p hp1, hp2⟩
  | whileStep inv b st st1 st2 _ _ ih1 ih2 =>
    intro P n0 a hb hr hok
    have hok' := hok
    simp only [analyse, Bool.and_eq_true] at hok
    obtain ⟨⟨_, ⟨he, hw⟩, hrr⟩, ⟨⟨⟨hcok, hce⟩, hcw⟩, hcr⟩⟩ := hok
    -- the state before the iteration satisfies the invariant
    have hinv : Resp P n0 st ⟨inv.env, inv.w, inv.r, true⟩ := by
      refine ⟨?_, ?_, ?_⟩
      · intro x s hs hlt
        obtain ⟨p, hp1, hp2⟩ := hr.env x s hs hlt
        exact ⟨p, ale_sound he x p hp1, hp2⟩
      · intro s hs hlt
        obtain ⟨p, hp1, hp2⟩ := hr.w s hs hlt
        exact ⟨p, sub_sound hw p hp1, hp2⟩
      · intro s hs hlt
        obtain ⟨p, hp1, hp2⟩ := hr.r s hs hlt
        exact ⟨p, sub_sound hrr p hp1, hp2⟩
    obtain ⟨hb1, hr1⟩ := ih1 P n0 _ hb hinv hcok
    -- the body re-establishes it
    have hinv1 : Resp P n0 st1 ⟨inv.env, inv.w, inv.r, true⟩ := by
      refine ⟨?_, ?_, ?_⟩
      · intro x s hs hlt
        obtain ⟨p, hp1, hp2⟩ := hr1.env x s hs hlt
        exact ⟨p, ale_sound hce x p hp1, hp2⟩
      · intro s hs hlt
        obtain ⟨p, hp1, hp2⟩ := hr1.w s hs hlt
        exact ⟨p, sub_sound hcw p hp1, hp2⟩
      · intro s hs hlt
        obtain ⟨p, hp1, hp2⟩ := hr1.r s hs hlt
        exact ⟨p, sub_sound hcr p hp1, hp2⟩
    have hok2 : (analyse Sg (.whileStar inv b) ⟨inv.env, inv.w, inv.r, true⟩).ok = true := by
      simp only [analyse, Bool.and_eq_true]
      exact ⟨⟨by simp, ⟨ale_refl _, sub_refl _⟩, sub_refl _⟩, ⟨⟨⟨hcok, hce⟩, hcw⟩, hcr⟩⟩
    obtain ⟨hb2, hr2⟩ := ih2 P n0 _ hb1 hinv1 hok2
    exact ⟨hb2, ⟨hr2.env, hr2.w, hr2.r⟩⟩
  | call st x f args fn st' hf _ ih =>
    intro P n0 a hb hr hok
    obtain ⟨σ, hσ, hfn⟩ := hT f fn hf
    simp only [fnOK, Bool.and_eq_true] at hfn
    obtain ⟨⟨hbok, hbw⟩, hbr⟩ := hfn
    -- run the callee with its own formals as the protected family, entry counter = st.n
    have hb0 : Bnd st.n ⟨entry fn.nparams (argVals st.env args), st.n, [], []⟩ := by
      refine ⟨Nat.le_refl _, ?_, ?_⟩
      · intro y s hs
        simp only [entry] at hs
        by_cases hy : y < fn.nparams
        · simp only [hy, if_true, argVals] at hs
          cases ha : args[y]? with
          | none => simp [ha] at hs
          | some z => simp only [ha] at hs; exact hb.env z s hs
        · simp [hy] at hs
      · intro s hs; simp at hs
    obtain ⟨hb1, hr1⟩ := ih (entry fn.nparams (argVals st.env args)) st.n (entryA fn.nparams) hb0
      (entry_resp _ _ _) hbok
    -- an old storage of the callee's formal `i` is an old storage of the actual bound to `i`
    have back : ∀ (is : List Nat) (s : Nat), s < n0 →
        (∃ i ∈ is, s ∈ entry fn.nparams (argVals st.env args) i) →
        ∃ p ∈ tjArgs a.env args is, s ∈ P p := by
      intro is s hlt ⟨i, hi, hs⟩
      simp only [entry] at hs
      by_cases hy : i < fn.nparams
      · simp only [hy, if_true, argVals] at hs
        cases ha : args[i]? with
        | none => simp [ha] at hs
        | some z =>
          simp only [ha] at hs
          obtain ⟨p, hp1, hp2⟩ := hr.env z s hs hlt
          exact ⟨p, (mem_tjArgs _ _ _ _).2 ⟨i, hi, z, ha, hp1⟩, hp2⟩
      · simp [hy] at hs
    have hlook : analyse Sg (.call x f args) a =
        { a with env := aset a.env x (tjArgs a.env args σ.rets), w := uni (tjArgs a.env args σ.muts) a.w } := by
      simp only [analyse, hσ]
    rw [hlook]
    refine ⟨⟨Nat.le_trans hb.le hb1.le, ?_, ?_⟩, ⟨?_, ?_, ?_⟩⟩
    · intro y s hs
      simp only [upd] at hs
      by_cases hy : y = x
      · simp only [hy, if_true] at hs; exact hb1.r s hs
      · simp only [hy, if_false] at hs; exact Nat.lt_of_lt_of_le (hb.env y s hs) hb1.le
    · intro s hs; exact Nat.lt_of_lt_of_le (hb.r s hs) hb1.le
    · intro y s hs hlt
      simp only [look_aset]
      simp only [upd] at hs
      by_cases hy : y = x
      · simp only [hy, if_true] at hs ⊢
        have hlt' : s < st.n := Nat.lt_of_lt_of_le hlt hb.le
        obtain ⟨i, hi1, hi2⟩ := hr1.r s hs hlt'
        exact back σ.rets s hlt ⟨i, sub_sound hbr i hi1, hi2⟩
      · simp only [hy, if_false] at hs ⊢
        exact hr.env y s hs hlt
    · intro s hs hlt
      simp only [List.mem_append] at hs
      rcases hs with hs | hs
      · have hlt' : s < st.n := Nat.lt_of_lt_of_le hlt hb.le
        obtain ⟨i, hi1, hi2⟩ := hr1.w s hs hlt'
        obtain ⟨p, hp1, hp2⟩ := back σ.muts s hlt ⟨i, sub_sound hbw i hi1, hi2⟩
        exact ⟨p, mem_uni.2 (Or.inl hp1), hp2⟩
      · obtain ⟨p, hp1, hp2⟩ := hr.w s hs hlt
        exact ⟨p, mem_uni.2 (Or.inr hp1), hp2⟩
    · exact hr.r

theorem tableOK_append (Sg : List Summary) : ∀ (σ1 : List Summary) (f1 : List Fn) (σ2 : List Summary) (f2 : List Fn),
    tableOK Sg σ1 f1 = true → tableOK Sg σ2 f2 = true → tableOK Sg (σ1 ++ σ2) (f1 ++ f2) = true := by
  intro σ1
  induction σ1 with
  | nil =>
    intro f1 σ2 f2 h1 h2
    cases f1 with
    | nil => simpa using h2
    | cons a b => simp [tableOK] at h1
  | cons σ σs ih =>
    intro f1 σ2 f2 h1 h2
    cases f1 with
    | nil => simp [tableOK] at h1
    | cons g gs =>
      simp only [tableOK, Bool.and_eq_true, List.cons_append] at h1 ⊢
      exact ⟨h1.1, ih gs σ2 f2 h1.2 h2⟩

/-- soundness of the analysis for a function of the table (restated in Properties/C13.lean) -/
theorem analyse_sound_aux (Sg : List Summary) (Φ : List Fn) (hT : tableOK Sg Sg Φ = true)
    (f : Nat) (fn : Fn) (allowed : List Nat) (hf : Φ[f]? = some fn)
    (hm : mutsWithin Sg f allowed = true) : Safe Φ fn allowed := by
  intro P n0 st' hP hex s hs hlt
  have hTab := tableOK_sound hT
  obtain ⟨σ, hσ, hfn⟩ := hTab f fn hf
  simp only [fnOK, Bool.and_eq_true] at hfn
  have hb0 : Bnd n0 ⟨entry fn.nparams P, n0, [], []⟩ := by
    refine ⟨Nat.le_refl _, ?_, ?_⟩
    · intro x t ht
      simp only [entry] at ht
      by_cases hx : x < fn.nparams
      · simp only [hx, if_true] at ht; exact hP x t ht
      · simp [hx] at ht
    · intro t ht; simp at ht
  obtain ⟨_, hr⟩ := sound Sg Φ hTab hex (entry fn.nparams P) n0 (entryA fn.nparams) hb0 (entry_resp _ _ _) hfn.1.1
  obtain ⟨p, hp1, hp2⟩ := hr.w s hs hlt
  have hp3 : p ∈ σ.muts := sub_sound hfn.1.2 p hp1
  unfold mutsWithin at hm
  rw [hσ] at hm
  exact ⟨p, sub_sound hm p hp3, hp2⟩

end LinOp.C13
