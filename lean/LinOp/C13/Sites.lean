import LinOp.C13.Model
/-! C13 — counting the write operations of an IR body (core Lean only).  Used by `Generated/C13Sites.lean`:
the number of syntactic in-place sites found by an independent `ast` census of a python function must not exceed
the number of `write` / mutating-`call` operations of the IR of that function in the table `analyse_sound` is about. -/
namespace LinOp.C13

/-- does the summary of callee `f` mutate a formal?  (unknown callee: counted as mutating) -/
def mutating (Sg : List Summary) (f : Nat) : Bool :=
  match Sg[f]? with
  | some σ => !σ.muts.isEmpty
  | none => true

/-- number of `write` operations and calls of mutating callees in a body -/
def countW (Sg : List Summary) : Stmt → Nat
  | .skip => 0
  | .assign _ _ => 0
  | .write _ => 1
  | .ret _ => 0
  | .call _ f _ => if mutating Sg f then 1 else 0
  | .seq s t => countW Sg s + countW Sg t
  | .ifStar s t => countW Sg s + countW Sg t
  | .whileStar _ b => countW Sg b

/-- rows `(function id, in-place sites of the source, write operations of the IR)`: no site was dropped -/
def siteRowsOK (rows : List (Nat × Nat × Nat)) : Bool :=
  rows.all (fun r => decide (r.2.1 ≤ r.2.2))

end LinOp.C13
