import LinOp.C13.Proofs
/-! Storage-semantics facts about the alias IR (extension session 5): views of views alias the base,
`clone` (a `fresh` right-hand side) breaks the alias, the abstract interpreter is monotone in its
taint sets, and the end-to-end heap reading of `Safe` (snapshot of caller storages unchanged). -/
namespace LinOp.C13

/-! ### views / clones in the concrete semantics -/

theorem exec_assign_inv {Φ : List Fn} {x : Var} {r : Rhs} {st st' : State}
    (h : Exec Φ (.assign x r) st st') :
    ∃ l n', RhsVal st.env st.n r l n' ∧ st' = { st with env := upd st.env x l, n := n' } := by
  cases h with
  | assign _ _ _ l n' hv => exact ⟨l, n', hv, rfl⟩

theorem exec_write_inv {Φ : List Fn} {x : Var} {st st' : State}
    (h : Exec Φ (.write x) st st') : st' = { st with w := st.env x ++ st.w } := by
  cases h with
  | write _ _ => rfl

theorem exec_seq_inv {Φ : List Fn} {s t : Stmt} {st st' : State}
    (h : Exec Φ (.seq s t) st st') : ∃ st1, Exec Φ s st st1 ∧ Exec Φ t st1 st' := by
  cases h with
  | seq _ _ _ st1 _ h1 h2 => exact ⟨st1, h1, h2⟩

/-- a (definite) view reaches only storages of its base -/
theorem view_aliases_base {Φ : List Fn} {x y : Var} {st st' : State}
    (h : Exec Φ (.assign y (.view x)) st st') : ∀ s ∈ st'.env y, s ∈ st.env x := by
  obtain ⟨l, n', hv, rfl⟩ := exec_assign_inv h
  intro s hs
  simp only [upd, if_true] at hs
  rcases hv.2 s hs with ⟨y', hy', hm⟩ | ⟨hf, _⟩
  · simp only [Rhs.src, List.mem_singleton] at hy'
    subst hy'
    exact hm
  · simp [Rhs.mayFresh] at hf

theorem view_of_view_aliases_aux {Φ : List Fn} {x y z : Var} {st st' : State}
    (h : Exec Φ (.seq (.assign y (.view x)) (.assign z (.view y))) st st') :
    ∀ s ∈ st'.env z, s ∈ st.env x := by
  obtain ⟨st1, h1, h2⟩ := exec_seq_inv h
  intro s hs
  exact view_aliases_base h1 s (view_aliases_base h2 s hs)

/-- storages of a `fresh` value (clone / new allocation) did not exist before the assignment -/
theorem fresh_is_new {Φ : List Fn} {y : Var} {st st' : State}
    (h : Exec Φ (.assign y .fresh) st st') : ∀ s ∈ st'.env y, st.n ≤ s := by
  obtain ⟨l, n', hv, rfl⟩ := exec_assign_inv h
  intro s hs
  simp only [upd, if_true] at hs
  rcases hv.2 s hs with ⟨y', hy', _⟩ | ⟨_, hge, _⟩
  · simp [Rhs.src] at hy'
  · exact hge

theorem clone_then_write_safe_aux (Φ : List Fn) (k : Nat) (y : Var) :
    Safe Φ ⟨k, .seq (.assign y .fresh) (.write y)⟩ [] := by
  intro P n0 st' _ hE s hs hlt
  obtain ⟨st1, h1, h2⟩ := exec_seq_inv hE
  have hnew := fresh_is_new h1
  obtain ⟨l, n', hv, rfl⟩ := exec_assign_inv h1
  have := exec_write_inv h2
  subst this
  simp only [List.append_nil] at hs
  have := hnew s hs
  simp only at this
  omega

/-- writing through a view of a view of a formal is unsafe, whatever the variable numbering -/
theorem view_of_view_write_unsafe_aux (Φ : List Fn) (k : Nat) (x y z : Var) (hx : x < k) :
    ¬ Safe Φ ⟨k, .seq (.seq (.assign y (.view x)) (.assign z (.view y))) (.write z)⟩ [] := by
  intro h
  let P : Var → List Nat := fun _ => [0]
  have hP : ∀ v s, s ∈ P v → s < 1 := by
    intro v s hs
    simp [P] at hs
    omega
  have e1 : Exec Φ (.assign y (.view x)) ⟨entry k P, 1, [], []⟩ _ :=
    Exec.assign _ y (.view x) [0] 1 ⟨Nat.le_refl _, by
      intro s hs; left; exact ⟨x, by simp [Rhs.src], by simpa [entry, P, hx] using hs⟩⟩
  have e2 : Exec Φ (.assign z (.view y)) ⟨upd (entry k P) y [0], 1, [], []⟩ _ :=
    Exec.assign _ z (.view y) [0] 1 ⟨Nat.le_refl _, by
      intro s hs; left; exact ⟨y, by simp [Rhs.src], by simpa [upd] using hs⟩⟩
  have e3 := Exec.seq _ _ _ _ _ (Exec.seq _ _ _ _ _ e1 e2) (Exec.write _ z)
  obtain ⟨p, hp, _⟩ := h P 1 _ hP e3 0 (by simp [upd]) (by omega)
  simp at hp

/-! ### monotonicity of the abstract interpreter -/

/-- pointwise inclusion of abstract states (taints of every variable, written set, returned set) -/
def LeA (a b : AState) : Prop :=
  (∀ x p, p ∈ look a.env x → p ∈ look b.env x) ∧ (∀ p ∈ a.w, p ∈ b.w) ∧ (∀ p ∈ a.r, p ∈ b.r)

theorem LeA.refl (a : AState) : LeA a a := ⟨fun _ _ h => h, fun _ h => h, fun _ h => h⟩

theorem analyse_mono (Sg : List Summary) (s : Stmt) :
    ∀ a b : AState, LeA a b → LeA (analyse Sg s a) (analyse Sg s b) := by
  induction s with
  | skip => intro a b h; exact h
  | assign x r =>
    intro a b h
    refine ⟨?_, h.2.1, h.2.2⟩
    intro v p hp
    simp only [analyse, look_aset] at hp ⊢
    by_cases hv : v = x
    · simp only [hv, if_true] at hp ⊢
      rw [mem_tj] at hp ⊢
      obtain ⟨y, hy, hm⟩ := hp
      exact ⟨y, hy, h.1 y p hm⟩
    · simp only [hv, if_false] at hp ⊢
      exact h.1 v p hp
  | write x =>
    intro a b h
    refine ⟨h.1, ?_, h.2.2⟩
    intro p hp
    simp only [analyse, mem_uni] at hp ⊢
    rcases hp with hp | hp
    · exact Or.inl (h.1 x p hp)
    · exact Or.inr (h.2.1 p hp)
  | ret x =>
    intro a b h
    refine ⟨h.1, h.2.1, ?_⟩
    intro p hp
    simp only [analyse, mem_uni] at hp ⊢
    rcases hp with hp | hp
    · exact Or.inl (h.1 x p hp)
    · exact Or.inr (h.2.2 p hp)
  | seq s t ihs iht =>
    intro a b h
    exact iht _ _ (ihs _ _ h)
  | ifStar s t ihs iht =>
    intro a b h
    have h1 := ihs a b h
    have h2 := iht a b h
    refine ⟨?_, ?_, ?_⟩
    · intro v p hp
      simp only [analyse, mem_look_ajoin] at hp ⊢
      rcases hp with hp | hp
      · exact Or.inl (h1.1 v p hp)
      · exact Or.inr (h2.1 v p hp)
    · intro p hp
      simp only [analyse, mem_uni] at hp ⊢
      rcases hp with hp | hp
      · exact Or.inl (h1.2.1 p hp)
      · exact Or.inr (h2.2.1 p hp)
    · intro p hp
      simp only [analyse, mem_uni] at hp ⊢
      rcases hp with hp | hp
      · exact Or.inl (h1.2.2 p hp)
      · exact Or.inr (h2.2.2 p hp)
  | whileStar inv body _ =>
    intro a b _
    exact ⟨fun _ _ hp => by simpa [analyse] using hp, fun _ hp => by simpa [analyse] using hp,
      fun _ hp => by simpa [analyse] using hp⟩
  | call x f args =>
    intro a b h
    simp only [analyse]
    cases hσ : Sg[f]? with
    | none => exact h
    | some σ =>
      refine ⟨?_, ?_, h.2.2⟩
      · intro v p hp
        simp only [look_aset] at hp ⊢
        by_cases hv : v = x
        · simp only [hv, if_true] at hp ⊢
          rw [mem_tjArgs] at hp ⊢
          obtain ⟨i, hi, y, hy, hm⟩ := hp
          exact ⟨i, hi, y, hy, h.1 y p hm⟩
        · simp only [hv, if_false] at hp ⊢
          exact h.1 v p hp
      · intro p hp
        simp only [mem_uni] at hp ⊢
        rcases hp with hp | hp
        · left
          rw [mem_tjArgs] at hp ⊢
          obtain ⟨i, hi, y, hy, hm⟩ := hp
          exact ⟨i, hi, y, hy, h.1 y p hm⟩
        · exact Or.inr (h.2.1 p hp)

/-! ### heap reading of `Safe` -/

/-- `h'` differs from `h` at most on the storages in `w` (what a run that wrote `w` can do to a heap) -/
def HeapFrame {α : Type} (h h' : Nat → α) (w : List Nat) : Prop := ∀ s, s ∉ w → h' s = h s

theorem snapshot_equal_of_safe {α : Type} {Φ : List Fn} {fn : Fn} {allowed : List Nat}
    (hS : Safe Φ fn allowed) (P : Var → List Nat) (n0 : Nat) (st' : State)
    (hP : ∀ x s, s ∈ P x → s < n0) (hE : Exec Φ fn.body ⟨entry fn.nparams P, n0, [], []⟩ st')
    (h h' : Nat → α) (hfr : HeapFrame h h' st'.w) :
    ∀ s, s < n0 → (∀ p ∈ allowed, s ∉ entry fn.nparams P p) → h' s = h s := by
  intro s hs hna
  apply hfr
  intro hw
  obtain ⟨p, hp, hm⟩ := hS P n0 st' hP hE s hw hs
  exact hna p hp hm

end LinOp.C13
