import LinOp.Core.Parse
import LinOp.C13.Model
import LinOp.C13.Sites
import LinOp.Generated.C13Table
import LinOp.Generated.C13PTable
/-! Line-protocol driver: `<R|P> <function id>` → the result of the Lean abstract interpreter on the
generated IR of that function (ok flag, mutated formals, formals the result may alias);
`W <function id>` → number of write / mutating-call operations (`countW`) of the emitted IR of that function. -/
open LinOp LinOp.C13 LinOp.Parse

def sortNat (l : List Nat) : List Nat := (l.toArray.qsort (· < ·)).toList.eraseDups

def runOne (sg : List Summary) (tbl : List Fn) (i : Nat) : String :=
  match tbl[i]? with
  | none => "no-such-function"
  | some fn =>
    let r := analyse sg fn.body (entryA fn.nparams)
    s!"ok={r.ok} w={showList toString (sortNat r.w)} r={showList toString (sortNat r.r)}"

def stepLine (s : Unit) (line : String) : Unit × String :=
  match words line with
  | ["R", i] => (s, match i.toNat? with | some i => runOne Generated.C13.sigma Generated.C13.table i | none => "bad")
  | ["P", i] => (s, match i.toNat? with | some i => runOne Generated.C13P.sigma Generated.C13P.table i | none => "bad")
  | ["W", i] => (s, match i.toNat? with
      | some i => (match Generated.C13.table[i]? with
        | some fn => s!"countW={countW Generated.C13.sigma fn.body}"
        | none => "no-such-function")
      | none => "bad")
  | _ => (s, "bad-op")

def main : IO Unit := do
  let stdin ← IO.getStdin
  loop stdin () stepLine
