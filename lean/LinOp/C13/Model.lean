/-!
C13 — alias IR, storage-level big-step semantics, taint analysis (core Lean only).

The translator `harness/extract/c13_alias.py` turns every function of /repo/linear_operator into a
`Fn` (a body over numbered variables; variables `0 … nparams-1` are the formals).  A *value* is the
list of storages (natural numbers) it can reach: a tensor reaches its storage, a view reaches the
storage of its base, a tuple / list / operator object reaches the storages of everything stored in it.

* `Exec` is the concrete (nondeterministic) semantics over storages; `State.n` is the allocation
  counter: every storage `< n` exists, `fresh` values only contain storages `≥ n`.
* `Safe Φ fn allowed` — no execution of `fn` (calls are executed by running the callee's body from
  the table `Φ`) writes a storage that existed on entry, except storages reachable from the formals
  listed in `allowed` (explicit `out=` buffers).
* `analyse` — abstract interpreter: for each variable the set of formals it may point into;
  union at `ifStar`; `whileStar` carries a candidate invariant that is *checked*; `call` uses callee
  summaries (mutated formals, formals the result may alias) that are *checked* by `tableOK`.
-/
namespace LinOp.C13

abbrev Var := Nat

/-- Right-hand sides.  `opq` = result of an opaque callable (a closure, an unknown method). -/
inductive Rhs where
  | fresh
  | view (y : Var)
  | maybeView (y : Var)
  | same (y : Var)
  | opq (args : List Var)
  | join (args : List Var)
  deriving Repr, DecidableEq

/-- variables whose storages the result may contain -/
def Rhs.src : Rhs → List Var
  | .fresh => []
  | .view y => [y]
  | .maybeView y => [y]
  | .same y => [y]
  | .opq as => as
  | .join as => as

/-- may the result contain newly allocated storages? -/
def Rhs.mayFresh : Rhs → Bool
  | .fresh => true
  | .view _ => false
  | .maybeView _ => true
  | .same _ => false
  | .opq _ => true
  | .join _ => false

abbrev AEnv := List (List Nat)

/-- candidate loop invariant supplied by the translator (checked by `analyse`) -/
structure AInv where
  env : AEnv
  w : List Nat
  r : List Nat
  deriving Repr, DecidableEq

inductive Stmt where
  | skip
  | assign (x : Var) (r : Rhs)
  | write (x : Var)
  | call (x : Var) (f : Nat) (args : List Var)
  | ret (x : Var)
  | seq (s t : Stmt)
  | ifStar (s t : Stmt)
  | whileStar (inv : AInv) (body : Stmt)
  deriving Repr

structure Fn where
  nparams : Nat
  body : Stmt
  deriving Repr

/-- callee summary: formals whose storages may be written; formals the result may point into -/
structure Summary where
  muts : List Nat
  rets : List Nat
  deriving Repr, DecidableEq

/-! ### concrete semantics -/

structure State where
  env : Var → List Nat
  n : Nat
  /-- storages written so far -/
  w : List Nat
  /-- storages reachable from the value(s) returned so far -/
  r : List Nat

def upd (e : Var → List Nat) (x : Var) (l : List Nat) : Var → List Nat :=
  fun y => if y = x then l else e y

/-- entry environment of a callee: formal `i` holds `vals i`, every other variable is unset -/
def entry (k : Nat) (vals : Var → List Nat) : Var → List Nat :=
  fun x => if x < k then vals x else []

def argVals (e : Var → List Nat) (args : List Var) : Var → List Nat :=
  fun i => match args[i]? with
    | some y => e y
    | none => []

/-- `RhsVal e n r l n'` — `r` may evaluate to a value reaching exactly the storages `l`, moving the
allocation counter from `n` to `n'`. -/
def RhsVal (e : Var → List Nat) (n : Nat) (r : Rhs) (l : List Nat) (n' : Nat) : Prop :=
  n ≤ n' ∧ ∀ s ∈ l, (∃ y ∈ r.src, s ∈ e y) ∨ (r.mayFresh = true ∧ n ≤ s ∧ s < n')

inductive Exec (Φ : List Fn) : Stmt → State → State → Prop
  | skip (st) : Exec Φ .skip st st
  | assign (st x r l n') : RhsVal st.env st.n r l n' →
      Exec Φ (.assign x r) st { st with env := upd st.env x l, n := n' }
  | write (st x) : Exec Φ (.write x) st { st with w := st.env x ++ st.w }
  | ret (st x) : Exec Φ (.ret x) st { st with r := st.env x ++ st.r }
  | seq (s t st st1 st2) : Exec Φ s st st1 → Exec Φ t st1 st2 → Exec Φ (.seq s t) st st2
  | ifL (s t st st1) : Exec Φ s st st1 → Exec Φ (.ifStar s t) st st1
  | ifR (s t st st1) : Exec Φ t st st1 → Exec Φ (.ifStar s t) st st1
  | whileDone (inv b st) : Exec Φ (.whileStar inv b) st st
  | whileStep (inv b st st1 st2) : Exec Φ b st st1 → Exec Φ (.whileStar inv b) st1 st2 →
      Exec Φ (.whileStar inv b) st st2
  | call (st x f args fn st') : Φ[f]? = some fn →
      Exec Φ fn.body ⟨entry fn.nparams (argVals st.env args), st.n, [], []⟩ st' →
      Exec Φ (.call x f args) st ⟨upd st.env x st'.r, st'.n, st'.w ++ st.w, st.r⟩

/-- **The property.**  Whatever the formals reach on entry (`P`, any aliasing between them) and
whatever nondeterministic choices are made: every storage written during the call either was
allocated during the call (`≥ n0`) or belongs to an explicitly allowed formal. -/
def Safe (Φ : List Fn) (fn : Fn) (allowed : List Nat) : Prop :=
  ∀ (P : Var → List Nat) (n0 : Nat) (st' : State),
    (∀ x s, s ∈ P x → s < n0) →
    Exec Φ fn.body ⟨entry fn.nparams P, n0, [], []⟩ st' →
    ∀ s ∈ st'.w, s < n0 → ∃ p ∈ allowed, s ∈ entry fn.nparams P p

/-! ### abstract interpreter -/

def look : AEnv → Nat → List Nat
  | [], _ => []
  | h :: _, 0 => h
  | _ :: t, x + 1 => look t x

def aset : AEnv → Nat → List Nat → AEnv
  | [], 0, v => [v]
  | [], x + 1, v => [] :: aset [] x v
  | _ :: t, 0, v => v :: t
  | h :: t, x + 1, v => h :: aset t x v

def uni (a b : List Nat) : List Nat := a ++ b.filter (fun x => !a.contains x)

def sub (a b : List Nat) : Bool := a.all (fun p => b.contains p)

def ajoin : AEnv → AEnv → AEnv
  | [], b => b
  | a, [] => a
  | x :: a, y :: b => uni x y :: ajoin a b

def ale : AEnv → AEnv → Bool
  | [], _ => true
  | h :: t, [] => sub h [] && ale t []
  | h :: t, h' :: t' => sub h h' && ale t t'

/-- union of the taints of a list of variables -/
def tj (a : AEnv) : List Var → List Nat
  | [] => []
  | y :: ys => uni (look a y) (tj a ys)

/-- union of the taints of the actuals bound to the formals `is` -/
def tjArgs (a : AEnv) (args : List Var) : List Nat → List Nat
  | [] => []
  | i :: is => match args[i]? with
    | some y => uni (look a y) (tjArgs a args is)
    | none => tjArgs a args is

structure AState where
  env : AEnv
  w : List Nat
  r : List Nat
  ok : Bool
  deriving Repr, DecidableEq

def analyse (Sg : List Summary) : Stmt → AState → AState
  | .skip, a => a
  | .assign x r, a => { a with env := aset a.env x (tj a.env r.src) }
  | .write x, a => { a with w := uni (look a.env x) a.w }
  | .ret x, a => { a with r := uni (look a.env x) a.r }
  | .seq s t, a => analyse Sg t (analyse Sg s a)
  | .ifStar s t, a =>
      let a1 := analyse Sg s a
      let a2 := analyse Sg t a
      ⟨ajoin a1.env a2.env, uni a1.w a2.w, uni a1.r a2.r, a1.ok && a2.ok⟩
  | .whileStar inv b, a =>
      let c := analyse Sg b ⟨inv.env, inv.w, inv.r, true⟩
      ⟨inv.env, inv.w, inv.r,
        a.ok && (ale a.env inv.env && sub a.w inv.w && sub a.r inv.r) &&
        (c.ok && ale c.env inv.env && sub c.w inv.w && sub c.r inv.r)⟩
  | .call x f args, a =>
      match Sg[f]? with
      | none => { a with ok := false }
      | some σ =>
        { a with env := aset a.env x (tjArgs a.env args σ.rets), w := uni (tjArgs a.env args σ.muts) a.w }

def entryA (k : Nat) : AState := ⟨(List.range k).map (fun i => [i]), [], [], true⟩

/-- the function's body conforms to the summary `σ` (under the summaries `Sg` of its callees) -/
def fnOK (Sg : List Summary) (fn : Fn) (σ : Summary) : Bool :=
  let r := analyse Sg fn.body (entryA fn.nparams)
  r.ok && sub r.w σ.muts && sub r.r σ.rets

/-- every function of the table conforms to its summary -/
def tableOK : List Summary → List Summary → List Fn → Bool
  | _, [], [] => true
  | Sg, σ :: σs, fn :: fns => fnOK Sg fn σ && tableOK Sg σs fns
  | _, _, _ => false

/-- summary of function `f` mutates only allowed formals -/
def mutsWithin (Sg : List Summary) (f : Nat) (allowed : List Nat) : Bool :=
  match Sg[f]? with
  | none => false
  | some σ => sub σ.muts allowed

end LinOp.C13
