import LinOp.C13.Proofs
/-! Small hand-written IR programs: non-vacuity of `Safe` / `analyse`, and the D15 counterexample. -/
namespace LinOp.C13.Examples
open LinOp.C13

/-- `def f(x): x.add_(1)` -/
def writeParam : Fn := ⟨1, .write 0⟩
/-- `def f(x): y = x.clone(); y.add_(1)` -/
def writeClone : Fn := ⟨1, .seq (.assign 1 .fresh) (.write 1)⟩
/-- `def f(x): y = x.view(-1); y.add_(1)` -/
def writeView : Fn := ⟨1, .seq (.assign 1 (.view 0)) (.write 1)⟩
/-- `def _kernel(buf): buf.mul_(2)` — helper that mutates its formal -/
def kernel : Fn := ⟨1, .write 0⟩
/-- `def f(x): _kernel(x)` -/
def callsKernel : Fn := ⟨1, .call 1 3 [0]⟩
/-- `indices = sparse._indices(); if <empty selection>: indices.resize_(…).zero_()` (utils/sparse.py, D15) -/
def sparseGetitemEmptyBranch : Fn :=
  ⟨1, .seq (.assign 1 (.view 0)) (.ifStar (.seq (.assign 2 (.same 1)) (.write 2)) .skip)⟩
/-- the repaired branch: `indices = torch.zeros(…)` -/
def sparseGetitemFixedBranch : Fn :=
  ⟨1, .seq (.assign 1 (.view 0)) (.ifStar (.seq (.assign 2 .fresh) (.write 2)) .skip)⟩

def table : List Fn :=
  [writeParam, writeClone, writeView, kernel, callsKernel, sparseGetitemEmptyBranch, sparseGetitemFixedBranch]

/-- summaries of the good functions (the unsafe ones get their true summary: formal 0 mutated) -/
def sigma : List Summary :=
  [⟨[0], []⟩, ⟨[], []⟩, ⟨[0], []⟩, ⟨[0], []⟩, ⟨[0], []⟩, ⟨[0], []⟩, ⟨[], []⟩]

theorem table_ok : tableOK sigma sigma table = true := by decide

def P0 : Var → List Nat := fun _ => [0]
theorem P0_old : ∀ x s, s ∈ P0 x → s < 1 := by
  intro x s hs
  simp [P0] at hs
  omega

theorem writeParam_unsafe : ¬ Safe table writeParam [] := by
  intro h
  obtain ⟨p, hp, _⟩ := h P0 1 _ P0_old (Exec.write _ 0) 0 (by simp [entry, P0, writeParam]) (by omega)
  simp at hp

theorem writeView_unsafe : ¬ Safe table writeView [] := by
  intro h
  have e1 : Exec table (.assign 1 (.view 0)) ⟨entry 1 P0, 1, [], []⟩ _ :=
    Exec.assign _ 1 (.view 0) [0] 1 ⟨Nat.le_refl _, by intro s hs; left; exact ⟨0, by simp [Rhs.src], by simpa [entry, P0] using hs⟩⟩
  have e2 := Exec.seq _ _ _ _ _ e1 (Exec.write _ 1)
  obtain ⟨p, hp, _⟩ := h P0 1 _ P0_old e2 0 (by simp [upd]) (by omega)
  simp at hp

theorem callsKernel_unsafe : ¬ Safe table callsKernel [] := by
  intro h
  have e1 : Exec table (.call 1 3 [0]) ⟨entry 1 P0, 1, [], []⟩ _ :=
    Exec.call _ 1 3 [0] kernel _ rfl (Exec.write _ 0)
  obtain ⟨p, hp, _⟩ := h P0 1 _ P0_old e1 0 (by simp [entry, argVals, P0, kernel]) (by omega)
  simp at hp

theorem sparseGetitemEmptyBranch_unsafe : ¬ Safe table sparseGetitemEmptyBranch [] := by
  intro h
  have e1 : Exec table (.assign 1 (.view 0)) ⟨entry 1 P0, 1, [], []⟩ _ :=
    Exec.assign _ 1 (.view 0) [0] 1 ⟨Nat.le_refl _, by intro s hs; left; exact ⟨0, by simp [Rhs.src], by simpa [entry, P0] using hs⟩⟩
  have e2 : Exec table (.assign 2 (.same 1)) ⟨upd (entry 1 P0) 1 [0], 1, [], []⟩ _ :=
    Exec.assign _ 2 (.same 1) [0] 1 ⟨Nat.le_refl _, by intro s hs; left; exact ⟨1, by simp [Rhs.src], by simpa [upd] using hs⟩⟩
  have e3 := Exec.seq _ _ _ _ _ e1 (Exec.ifL _ .skip _ _ (Exec.seq _ _ _ _ _ e2 (Exec.write _ 2)))
  obtain ⟨p, hp, _⟩ := h P0 1 _ P0_old e3 0 (by simp [upd]) (by omega)
  simp at hp

theorem writeClone_safe : Safe table writeClone [] :=
  analyse_sound_aux sigma table table_ok 1 writeClone [] rfl (by decide)

theorem sparseGetitemFixedBranch_safe : Safe table sparseGetitemFixedBranch [] :=
  analyse_sound_aux sigma table table_ok 6 sparseGetitemFixedBranch [] rfl (by decide)

end LinOp.C13.Examples
