import LinOp.C01.Model
import LinOp.Core.Bridge
import Mathlib.Algebra.BigOperators.Fin
import Mathlib.Algebra.BigOperators.Ring.Finset
import Mathlib.Data.Matrix.Mul
import Mathlib.Algebra.Ring.Int.Defs
/-!
C01 — helper lemmas (group C): permutations, sums/products/roots/diagonals, Cholesky orientation,
base-class defaults of a minimal user subclass.
-/
namespace LinOp.C01

/-- A `UserOp` (a subclass giving only `_matmul` and the `_matmul` of its `_transpose_nonbatch()`) *denotes* the
dense matrix `D` when `_matmul` multiplies by `D` and the transposed operator's `_matmul` multiplies by `Dᵀ`,
for right-hand sides with any number of columns. -/
def UserOp.Denotes {α : Type} [Add α] [Mul α] [Zero α] {n m : Nat} (op : UserOp α n m) (D : Mat α n m) : Prop :=
  (∀ c (X : Mat α m c), op.mm X = Mat.mul D X) ∧
  (∀ c (X : Mat α n c), op.tmm X = Mat.mul (Mat.transpose D) X)

end LinOp.C01

namespace LinOp.C01.C
open LinOp

variable {α : Type}

/-! ### index arithmetic -/

theorem divIdx_pairIdx {a b : Nat} (i : Fin a) (j : Fin b) : divIdx (pairIdx i j) = i := by
  apply Fin.ext
  show (i.1 * b + j.1) / b = i.1
  have hb : 0 < b := Nat.lt_of_le_of_lt (Nat.zero_le _) j.2
  rw [Nat.add_comm, Nat.add_mul_div_right _ _ hb, Nat.div_eq_of_lt j.2, Nat.zero_add]

theorem modIdx_pairIdx {a b : Nat} (i : Fin a) (j : Fin b) : modIdx (pairIdx i j) = j := by
  apply Fin.ext
  show (i.1 * b + j.1) % b = j.1
  rw [Nat.add_comm, Nat.add_mul_mod_self_right, Nat.mod_eq_of_lt j.2]

theorem pairIdx_div_mod {a b : Nat} (k : Fin (a * b)) : pairIdx (divIdx k) (modIdx k) = k := by
  apply Fin.ext
  show k.1 / b * b + k.1 % b = k.1
  exact Nat.div_add_mod' _ _

/-- `(divIdx k, modIdx k) = (x, y)` iff `k` is the flat index of `(x, y)`. -/
theorem div_mod_eq_iff {a b : Nat} (k : Fin (a * b)) (x : Fin a) (y : Fin b) :
    (divIdx k = x ∧ modIdx k = y) ↔ pairIdx x y = k := by
  constructor
  · rintro ⟨h1, h2⟩; rw [← h1, ← h2]; exact pairIdx_div_mod k
  · intro h; rw [← h]; exact ⟨divIdx_pairIdx x y, modIdx_pairIdx x y⟩

/-! ### `Mat.mul` algebra -/

theorem mul_apply [NonUnitalNonAssocSemiring α] {n k m : Nat} (A : Mat α n k) (B : Mat α k m)
    (i : Fin n) (j : Fin m) : Mat.mul A B i j = ∑ l, A i l * B l j := by
  simp [Mat.mul, sumFin_eq_sum]

theorem mul_assoc [NonUnitalSemiring α] {n k m c : Nat} (A : Mat α n k) (B : Mat α k m) (X : Mat α m c) :
    Mat.mul (Mat.mul A B) X = Mat.mul A (Mat.mul B X) := by
  funext i j
  simp only [mul_apply, Finset.sum_mul, Finset.mul_sum]
  rw [Finset.sum_comm]
  exact Finset.sum_congr rfl fun l _ => Finset.sum_congr rfl fun t _ => _root_.mul_assoc _ _ _

theorem transpose_mul [NonUnitalCommSemiring α] {n k m : Nat} (A : Mat α n k) (B : Mat α k m) :
    Mat.transpose (Mat.mul A B) = Mat.mul (Mat.transpose B) (Mat.transpose A) := by
  funext i j
  simp only [Mat.transpose, mul_apply]
  exact Finset.sum_congr rfl fun l _ => mul_comm _ _

theorem transpose_transpose {n m : Nat} (A : Mat α n m) : Mat.transpose (Mat.transpose A) = A := rfl

theorem mul_one [NonAssocSemiring α] {n m : Nat} (A : Mat α n m) : Mat.mul A (Mat.one (α := α)) = A := by
  funext i j
  simp only [mul_apply, Mat.one, mul_ite, _root_.mul_one, mul_zero, Finset.sum_ite_eq', Finset.mem_univ, if_true]

theorem add_mul [NonUnitalNonAssocSemiring α] {n m c : Nat} (A B : Mat α n m) (X : Mat α m c) :
    Mat.mul (Mat.add A B) X = Mat.add (Mat.mul A X) (Mat.mul B X) := by
  funext i j
  simp only [mul_apply, Mat.add, _root_.add_mul, Finset.sum_add_distrib]

theorem diag_mul [NonUnitalNonAssocSemiring α] {n c : Nat} (d : Fin n → α) (X : Mat α n c) :
    Mat.mul (Mat.diag d) X = fun i col => d i * X i col := by
  funext i j
  simp only [mul_apply, Mat.diag, ite_mul, zero_mul, Finset.sum_ite_eq, Finset.mem_univ, if_true]

end LinOp.C01.C
