import LinOp.C01.ProofsE
/-!
C01 — final theorems (group E): batch broadcasting of `matmul` for batch shapes of ARBITRARY rank
(`torch.broadcast_shapes`, `expand`, `_matmul_broadcast_shape`).  All statements quantify over lists of any
length; the proofs are by induction on the shape lists (see `ProofsE.lean`).
-/
namespace LinOp.C01

variable {α : Type}

/-! ## 1. `expand` reads valid members -/

/-- (reversed-order lists) If the shapes `s`, `t` broadcast to `out` and `idx` is a valid multi-index of `out`,
then the multi-indices that `expand` reads from the two operands are valid multi-indices of `s` and of `t`. -/
theorem bcastRev_restrict_inBox {s t out idx : List Nat} (h : bcastRev s t = some out) (hb : InBox out idx) :
    InBox s (restrictRev s idx) ∧ InBox t (restrictRev t idx) :=
  E.bcastRev_restrict_inBox h hb

/-- `InBox` does not depend on the order in which dimensions are listed (both lists reversed together). -/
theorem inBox_reverse_iff {s idx : List Nat} : InBox s.reverse idx.reverse ↔ InBox s idx :=
  E.inBox_reverse_iff

/-- Index-wise characterisation of `InBox`: same rank and every coordinate below the corresponding size. -/
theorem inBox_iff_getElem {s idx : List Nat} :
    InBox s idx ↔ idx.length = s.length ∧ ∀ k (h : k < idx.length) (h' : k < s.length), idx[k] < s[k] :=
  E.inBox_iff_getElem

/-- (user-facing order) If `torch.broadcast_shapes(s, t) = out` and `idx` is a valid batch multi-index of `out`,
then `restrict s idx` / `restrict t idx` (the members that `expand` reads) are valid batch multi-indices of the
operands with batch shapes `s` / `t`. -/
theorem restrict_inBox {s t out idx : List Nat} (h : broadcastShape s t = some out) (hb : InBox out idx) :
    InBox s (restrict s idx) ∧ InBox t (restrict t idx) :=
  E.restrict_inBox h hb

/-! ## 2. batched matmul, member by member -/

/-- Member `idx` of the library's batched matmul is the per-member code path `f` applied to the operand members
`restrict sA idx` and `restrict sB idx`. -/
theorem matmulBroadcast_member {n m c : Nat} (f : Mat α n m → Mat α m c → Mat α n c)
    (sA : List Nat) (A : BMat α n m) (sB : List Nat) (X : BMat α m c) (idx : List Nat) :
    matmulBroadcast f sA A sB X idx = f (A (restrict sA idx)) (X (restrict sB idx)) := rfl

section
variable [Add α] [Mul α] [Zero α]

/-- With the dense product as the per-member path: member `idx` of the batched product is the dense product of
operand members `restrict sA idx` and `restrict sB idx`. -/
theorem matmulBroadcast_mul_member {n m c : Nat}
    (sA : List Nat) (A : BMat α n m) (sB : List Nat) (X : BMat α m c) (idx : List Nat) :
    matmulBroadcast Mat.mul sA A sB X idx = Mat.mul (A (restrict sA idx)) (X (restrict sB idx)) := rfl

/-- Batched matmul refines the dense definition: for every valid member `idx` of the broadcast batch shape, the
result member is the dense product of operand members which are themselves valid members of the operands. -/
theorem matmul_broadcast_refines {n m c : Nat} {sA sB out idx : List Nat} (A : BMat α n m) (X : BMat α m c)
    (h : broadcastShape sA sB = some out) (hb : InBox out idx) :
    matmulBroadcast Mat.mul sA A sB X idx = Mat.mul (A (restrict sA idx)) (X (restrict sB idx)) ∧
      InBox sA (restrict sA idx) ∧ InBox sB (restrict sB idx) :=
  ⟨rfl, restrict_inBox h hb⟩

end

/-! ## 3. shape facts about `torch.broadcast_shapes` -/

/-- A shape broadcasts with itself to itself. -/
theorem broadcastShape_self (s : List Nat) : broadcastShape s s = some s := by
  simp [broadcastShape, E.bcastRev_self]

/-- The empty batch shape broadcasts with anything (left). -/
theorem broadcastShape_nil_left (t : List Nat) : broadcastShape [] t = some t := by
  simp [broadcastShape]

/-- The empty batch shape broadcasts with anything (right). -/
theorem broadcastShape_nil_right (s : List Nat) : broadcastShape s [] = some s := by
  simp [broadcastShape]

/-- Broadcasting is symmetric (including which pairs raise). -/
theorem broadcastShape_comm (s t : List Nat) : broadcastShape s t = broadcastShape t s := by
  simp [broadcastShape, E.bcastRev_comm s.reverse t.reverse]

/-- The broadcast shape has the rank of the higher-rank operand. -/
theorem broadcastShape_length {s t out : List Nat} (h : broadcastShape s t = some out) :
    out.length = max s.length t.length := by
  have := E.bcastRev_length (E.broadcastShape_eq_some.mp h)
  simpa using this

/-- An operand that already has the output batch shape reads its own member (true even with size-1 dimensions,
since then the index entry is `< 1`, i.e. `0`). -/
theorem restrict_of_eq {s idx : List Nat} (h : InBox s idx) : restrict s idx = idx :=
  E.restrict_of_inBox h

/-- Special case of `restrict_of_eq` (the size-1 hypothesis is not needed). -/
theorem restrict_same {s idx : List Nat} (h : InBox s idx) (_h1 : ∀ a ∈ s, a ≠ 1) : restrict s idx = idx :=
  restrict_of_eq h

/-! ## 4. `_matmul_broadcast_shape` raises exactly on incompatible sizes -/

/-- `_matmul_broadcast_shape` raises iff the inner sizes differ or the batch shapes do not broadcast. -/
theorem matmulShape_none_iff (sA : List Nat) (m n : Nat) (sB : List Nat) (n' p : Nat) :
    matmulShape sA m n sB n' p = none ↔ (n ≠ n' ∨ broadcastShape sA sB = none) := by
  unfold matmulShape
  by_cases h : n = n'
  · simp [h]
  · simp [h]

/-- For a 1-D right-hand side, `_matmul_broadcast_shape` raises iff the lengths differ. -/
theorem matmulShapeVec_none_iff (sA : List Nat) (m n p : Nat) : matmulShapeVec sA m n p = none ↔ n ≠ p := by
  unfold matmulShapeVec
  by_cases h : n = p
  · simp [h]
  · simp [h]

/-- With matching inner sizes the result shape is the broadcast batch shape followed by `(m, p)`. -/
theorem matmulShape_some (sA : List Nat) (m n : Nat) (sB : List Nat) (p : Nat) :
    matmulShape sA m n sB n p = (broadcastShape sA sB).map (· ++ [m, p]) := by
  simp [matmulShape]

/-! ## concrete instances -/

example : broadcastShape [2, 1, 3] [4, 1] = some [2, 4, 3] := by decide
example : broadcastShape [2, 3] [4, 1, 1] = some [4, 2, 3] := by decide
example : broadcastShape [2, 3] [4, 2] = none := by decide
example : broadcastShape [0, 1] [1, 5] = some [0, 5] := by decide
example : restrict [4, 1] [1, 3, 2] = [3, 0] := by decide
example : restrict [2, 1, 3] [1, 3, 2] = [1, 0, 2] := by decide
example : matmulShape [2, 1, 3] 5 6 [4, 1] 6 7 = some [2, 4, 3, 5, 7] := by decide
example : matmulShape [2, 1, 3] 5 6 [4, 1] 8 7 = none := by decide

end LinOp.C01
