import LinOp.C01.ProofsA
namespace LinOp.C01
open LinOp Matrix Kronecker

/-- Loop invariant of the `for linear_op in linear_ops:` loop of `KroneckerProductLinearOperator._matmul`, for
any number of rectangular factors with non-empty column dimension, started on a state with
`colsProd fs * q` rows: the loop ends with `q * rowsProd fs` rows, and row `b * rowsProd fs + i` of the final
state is `Σ_j (A₁ ⊗ … ⊗ A_P)[i, j] · res[j * q + b]`.  (Each iteration multiplies the leading mixed-radix digit
of the row index by the factor and rotates it to the end; after all factors the digits are back in order.) -/
theorem kronLoop_spec {α : Type} [CommSemiring α] {c : Nat} (fs : List (Factor α))
    (hpos : ∀ f ∈ fs, 0 < f.n) (q : Nat) (res : Nat → Fin c → α) :
    (kronLoop fs (colsProd fs * q) res).1 = q * rowsProd fs ∧
    ∀ b, b < q → ∀ (i : Fin (rowsProd fs)) (col : Fin c),
      (kronLoop fs (colsProd fs * q) res).2 (b * rowsProd fs + i.1) col
        = ∑ j : Fin (colsProd fs), kronDense fs i j * res (j.1 * q + b) col :=
  kronLoop_inv fs hpos q res

/-- `KroneckerProductLinearOperator._matmul` computes `(A₁ ⊗ … ⊗ A_P) X` for any number of factors of any
(rectangular) sizes with non-empty column dimensions. -/
theorem kronMatmul_eq {α : Type} [CommSemiring α] {c : Nat} (fs : List (Factor α))
    (hpos : ∀ f ∈ fs, 0 < f.n) (X : Mat α (colsProd fs) c) :
    kronMatmul fs X = Mat.mul (kronDense fs) X := by
  funext i col
  have h := (kronLoop_spec fs hpos 1
    (fun i col => if h : i < colsProd fs then X ⟨i, h⟩ col else 0)).2 0 Nat.one_pos i col
  simp only [Nat.mul_one, Nat.zero_mul, Nat.zero_add, Nat.add_zero] at h
  rw [mul_apply]
  show (kronLoop fs (colsProd fs) _).2 i.1 col = _
  rw [h]
  refine Finset.sum_congr rfl fun j _ => ?_
  rw [dif_pos j.2]

/-- the hypothesis of `kronMatmul_eq` is not needed in the model: if some factor has an empty column dimension
the loop returns the zero matrix, and so does the (empty-sum) dense product.  (In PyTorch `res.view(0, -1)` raises,
so this case is a totalisation of the model, not a statement about the library.) -/
theorem kronMatmul_eq_total {α : Type} [CommSemiring α] {c : Nat} (fs : List (Factor α))
    (X : Mat α (colsProd fs) c) :
    kronMatmul fs X = Mat.mul (kronDense fs) X := by
  by_cases hpos : ∀ f ∈ fs, 0 < f.n
  · exact kronMatmul_eq fs hpos X
  · have h0 : ∃ f ∈ fs, f.n = 0 := by
      apply Classical.byContradiction
      intro hne
      exact hpos fun f hf => Nat.pos_of_ne_zero fun h => hne ⟨f, hf, h⟩
    funext i col
    rw [mul_apply]
    show (kronLoop fs (colsProd fs) _).2 i.1 col = _
    rw [kronLoop_of_empty_factor fs h0]
    have hC := colsProd_of_empty_factor fs h0
    exact (Finset.sum_eq_zero fun j _ => False.elim (by have := j.2; omega)).symm

/-- the hypothesis of `kronLoop_spec` / `kronMatmul_eq` holds for a non-trivial list of rectangular factors. -/
example : ∀ f ∈ ([⟨2, 3, fun i j => (i.1 : Int) + 2 * j.1⟩, ⟨3, 2, fun i j => (i.1 : Int) * j.1 - 1⟩] :
    List (Factor Int)), 0 < f.n := by
  intro f hf
  simp only [List.mem_cons, List.not_mem_nil, or_false] at hf
  rcases hf with rfl | rfl <;> decide

/-- the div/mod definition of the two-factor Kronecker product is Mathlib's `A ⊗ₖ B`, reindexed along the
row-major equivalence `Fin m × Fin p ≃ Fin (m * p)`. -/
theorem kron2Dense_eq_kronecker {α : Type} [CommSemiring α] {m n p q : Nat} (A : Mat α m n) (B : Mat α p q) :
    kron2Dense A B
      = Matrix.reindex finProdFinEquiv finProdFinEquiv (Matrix.kroneckerMap (· * ·) (Matrix.of A) (Matrix.of B)) := by
  funext i j
  rfl

/-- the `P`-factor dense definition is the iterated two-factor one. -/
theorem kronDense_cons {α : Type} [CommSemiring α] (f : Factor α) (fs : List (Factor α)) :
    kronDense (f :: fs) = kron2Dense f.A (kronDense fs) := rfl

/-- `_transpose_nonbatch` swaps the sizes: the transposed product has `colsProd fs` rows. -/
theorem kronTranspose_rows {α : Type} (fs : List (Factor α)) : rowsProd (kronTranspose fs) = colsProd fs :=
  rowsProd_kronTranspose fs

/-- `_transpose_nonbatch` swaps the sizes: the transposed product has `rowsProd fs` columns. -/
theorem kronTranspose_cols {α : Type} (fs : List (Factor α)) : colsProd (kronTranspose fs) = rowsProd fs :=
  colsProd_kronTranspose fs

/-- `_transpose_nonbatch` (transpose every factor) denotes the transpose of the Kronecker product:
`(A₁ᵀ ⊗ … ⊗ A_Pᵀ)[i, j] = (A₁ ⊗ … ⊗ A_P)[j, i]`, the indices being transported along the size equalities. -/
theorem kronTranspose_dense {α : Type} [CommSemiring α] (fs : List (Factor α))
    (i : Fin (rowsProd (kronTranspose fs))) (j : Fin (colsProd (kronTranspose fs))) :
    kronDense (kronTranspose fs) i j
      = Mat.transpose (kronDense fs) (Fin.cast (kronTranspose_rows fs) i) (Fin.cast (kronTranspose_cols fs) j) :=
  kronTranspose_dense_heq fs i j _ _ rfl rfl

/-- `_t_matmul` computes `(A₁ ⊗ … ⊗ A_P)ᵀ X` (entrywise, with the index transport of `kronTranspose_dense`). -/
theorem kronTMatmul_eq {α : Type} [CommSemiring α] {c : Nat} (fs : List (Factor α))
    (hpos : ∀ f ∈ fs, 0 < f.m) (X : Mat α (colsProd (kronTranspose fs)) c)
    (i : Fin (rowsProd (kronTranspose fs))) (col : Fin c) :
    kronTMatmul fs X i col
      = ∑ j : Fin (colsProd (kronTranspose fs)),
          kronDense fs (Fin.cast (kronTranspose_cols fs) j) (Fin.cast (kronTranspose_rows fs) i) * X j col := by
  have hpos' : ∀ g ∈ kronTranspose fs, 0 < g.n := by
    intro g hg
    simp only [kronTranspose, List.mem_map] at hg
    obtain ⟨f, hf, rfl⟩ := hg
    exact hpos f hf
  rw [kronTMatmul, kronMatmul_eq _ hpos', mul_apply]
  refine Finset.sum_congr rfl fun j _ => ?_
  rw [kronTranspose_dense, Mat.transpose]

/-- `blockDiagDense` at `[b*m + r, b'*n + s]` is `B[b][r,s]` on the diagonal blocks and zero elsewhere. -/
theorem blockDiagDense_pair {α : Type} [CommSemiring α] {k m n : Nat} (B : Ten3 α k m n)
    (b b' : Fin k) (r : Fin m) (s : Fin n) :
    blockDiagDense B (pairIdx b r) (pairIdx b' s) = if b = b' then B b r s else 0 := by
  simp only [blockDiagDense, divIdx_pairIdx, modIdx_pairIdx]

/-- `BlockDiagLinearOperator._matmul` (view, batched base matmul, reshape back) is multiplication by the dense
block-diagonal matrix, for any number of rectangular blocks. -/
theorem blockDiag_matmul {α : Type} [CommSemiring α] {k m n c : Nat} (B : Ten3 α k m n) (X : Mat α (k * n) c) :
    blockDiagMatmul B X = Mat.mul (blockDiagDense B) X := by
  funext i col
  rw [mul_apply, sum_pairIdx']
  simp only [blockDiagMatmul, blockDiagRemove, bmm, blockDiagAdd, mul_apply, blockDiagDense,
    divIdx_pairIdx, modIdx_pairIdx, ite_mul, zero_mul, Finset.sum_ite_eq, Finset.mem_univ, if_true]

/-- `blockInterDense` at `[r*k + b, s*k + b']` is `B[b][r,s]` if `b = b'` and zero otherwise. -/
theorem blockInterDense_pair {α : Type} [CommSemiring α] {k m n : Nat} (B : Ten3 α k m n)
    (b b' : Fin k) (r : Fin m) (s : Fin n) :
    blockInterDense B (pairIdx r b) (pairIdx s b') = if b = b' then B b r s else 0 := by
  simp only [blockInterDense, divIdx_pairIdx, modIdx_pairIdx]

/-- `BlockInterleavedLinearOperator._matmul` is multiplication by the dense interleaved-block matrix. -/
theorem blockInter_matmul {α : Type} [CommSemiring α] {k m n c : Nat} (B : Ten3 α k m n) (X : Mat α (n * k) c) :
    blockInterMatmul B X = Mat.mul (blockInterDense B) X := by
  funext i col
  rw [mul_apply, sum_pairIdx]
  simp only [blockInterMatmul, blockInterRemove, bmm, blockInterAdd, mul_apply, blockInterDense,
    divIdx_pairIdx, modIdx_pairIdx, ite_mul, zero_mul, Finset.sum_ite_eq, Finset.mem_univ, if_true]

/-- transposing every block transposes the dense block-diagonal matrix. -/
theorem blockDiag_transpose {α : Type} [CommSemiring α] {k m n : Nat} (B : Ten3 α k m n) :
    blockDiagDense (blockTranspose B) = Mat.transpose (blockDiagDense B) := by
  funext i j
  simp only [blockDiagDense, blockTranspose, Mat.transpose]
  by_cases h : divIdx i = divIdx j
  · rw [if_pos h, if_pos h.symm, h]
  · rw [if_neg h, if_neg (Ne.symm h)]

/-- transposing every block transposes the dense interleaved-block matrix. -/
theorem blockInter_transpose {α : Type} [CommSemiring α] {k m n : Nat} (B : Ten3 α k m n) :
    blockInterDense (blockTranspose B) = Mat.transpose (blockInterDense B) := by
  funext i j
  simp only [blockInterDense, blockTranspose, Mat.transpose]
  by_cases h : modIdx i = modIdx j
  · rw [if_pos h, if_pos h.symm, h]
  · rw [if_neg h, if_neg (Ne.symm h)]

/-- `SumBatchLinearOperator._matmul` (expand the rhs, batched matmul, sum over the batch) is multiplication by
the sum of the blocks. -/
theorem sumBatch_matmul {α : Type} [CommSemiring α] {k m n c : Nat} (B : Ten3 α k m n) (X : Mat α n c) :
    sumBatchMatmul B X = Mat.mul (sumBatchDense B) X := by
  funext i col
  simp only [sumBatchMatmul, sumBatchRemove, bmm, sumBatchAdd, sumBatchDense, mul_apply, sumFin_eq_sum,
    Finset.sum_mul]
  exact Finset.sum_comm

/-- `BatchRepeatLinearOperator._matmul` (move the repeat batches into columns, batched base matmul, move back)
multiplies batch entry `t` of the rhs by batch entry `t` of `base.repeat(r, 1, 1)`. -/
theorem batchRepeat_matmul {α : Type} [CommSemiring α] {r b n c : Nat} (B : Ten3 α b n n)
    (X : Ten3 α (r * b) n c) (t : Fin (r * b)) :
    batchRepeatMatmul B X t = Mat.mul (batchRepeatDense (r := r) B t) (X t) := by
  funext i col
  simp only [batchRepeatMatmul, repeatBack, bmm, repeatToColumns, batchRepeatDense, mul_apply,
    divIdx_pairIdx, modIdx_pairIdx, pairIdx_divIdx_modIdx]

/-- the same at batch index `ρ*b + β`: the result is `base[β] · rhs[ρ*b + β]`. -/
theorem batchRepeat_matmul_pair {α : Type} [CommSemiring α] {r b n c : Nat} (B : Ten3 α b n n)
    (X : Ten3 α (r * b) n c) (ρ : Fin r) (β : Fin b) :
    batchRepeatMatmul B X (pairIdx ρ β) = Mat.mul (B β) (X (pairIdx ρ β)) := by
  rw [batchRepeat_matmul]
  simp only [batchRepeatDense, modIdx_pairIdx]

/-- `MulLinearOperator._matmul` with a left root `L`: the rank-expanded formula equals multiplication by the
Hadamard product `(L Lᵀ) ∘ B`. -/
theorem mul_matmul_roots {α : Type} [CommSemiring α] {n k c : Nat} (L : Mat α n k) (B : Mat α n n)
    (X : Mat α n c) :
    mulRootsMatmul L B X = Mat.mul (hadamard (rootDense L) B) X := by
  funext i col
  simp only [mulRootsMatmul, hadamard, rootDense, Mat.transpose, mul_apply, sumFin_eq_sum,
    divIdx_pairIdx, modIdx_pairIdx, Finset.sum_mul]
  rw [Finset.sum_comm]
  refine Finset.sum_congr rfl fun j _ => Finset.sum_congr rfl fun l _ => ?_
  ring

end LinOp.C01
