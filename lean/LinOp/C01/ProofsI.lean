import LinOp.C01.OpTree
import LinOp.C01.ProofsA
import LinOp.C01.ProofsC
import Mathlib.Data.Fintype.Card
/-! helper lemmas for the new constructors of the operator-tree grammar (perm, identity, zero, mulRoots) -/
namespace LinOp.C01
open LinOp LinOp.C01.C

variable {α : Type}

/-- On a finite index set a right inverse is a left inverse: `perm ∘ inv = id` (what the constructor of
`PermutationLinearOperator` validates) implies `inv ∘ perm = id`. -/
theorem perm_left_inv_of_right_inv {n : Nat} (p inv : Fin n → Fin n) (h : ∀ i, p (inv i) = i) : ∀ j, inv (p j) = j := by
  have hs : Function.Surjective p := fun i => ⟨inv i, h i⟩
  have hi : Function.Injective p := Finite.injective_iff_surjective.mpr hs
  intro j
  exact hi (h (p j))

theorem one_mul' [NonAssocSemiring α] {n c : Nat} (X : Mat α n c) : Mat.mul (Mat.one (α := α)) X = X := by
  have h := C.diag_mul (fun _ : Fin n => (1 : α)) X
  have e : Mat.one (α := α) (n := n) = Mat.diag (fun _ => 1) := rfl
  rw [e, h]
  funext i col
  exact _root_.one_mul _

theorem transpose_one [Zero α] [One α] {n : Nat} : Mat.transpose (Mat.one (α := α) (n := n)) = Mat.one := by
  funext i j
  simp only [Mat.transpose, Mat.one]
  by_cases h : i = j
  · rw [if_pos h, if_pos h.symm]
  · rw [if_neg h, if_neg fun e => h e.symm]

theorem zero_mul' [NonUnitalNonAssocSemiring α] {n m c : Nat} (X : Mat α m c) :
    Mat.mul (fun (_ : Fin n) (_ : Fin m) => (0 : α)) X = fun _ _ => 0 := by
  funext i col
  simp only [mul_apply, zero_mul, Finset.sum_const_zero]

theorem hadamard_symm [Mul α] {n : Nat} (S T : Mat α n n) (hS : Mat.transpose S = S) (hT : Mat.transpose T = T) :
    Mat.transpose (hadamard S T) = hadamard S T := by
  funext i j
  have h1 : S j i = S i j := congrFun (congrFun hS i) j
  have h2 : T j i = T i j := congrFun (congrFun hT i) j
  simp only [Mat.transpose, hadamard, h1, h2]

/-- `mulRootsWith` with a right routine that multiplies by `B` is the `MulLinearOperator._matmul` formula of `Model.lean`. -/
theorem mulRootsWith_eq [Add α] [Mul α] [Zero α] {n k c : Nat} (L : Mat α n k) (B : Mat α n n) (X : Mat α n c) :
    mulRootsWith L (fun Z => Mat.mul B Z) X = mulRootsMatmul L B X := rfl

end LinOp.C01
