import LinOp.Core.Basic
/-!
C01 — executable model (core Lean only) of the index-heavy multiplication code paths of
linear_operator, written as index functions.  Each definition names the Python statements it mirrors.

Conventions: `Mat α n m = Fin n → Fin m → α`; `Ten3 α k n m` is a stack of `k` matrices (one batch /
block dimension in front); row-major flattening of a pair of indices is `pairIdx a b = a * q + b`.
The *dense definitions* (what the constructor arguments denote) are the `…Dense` functions.
-/
namespace LinOp.C01

variable {α : Type}

/-! ## index arithmetic (row-major view / reshape) -/

theorem pair_lt {a b : Nat} (i : Fin a) (j : Fin b) : i.1 * b + j.1 < a * b := by
  have h := Nat.mul_le_mul_right b (Nat.succ_le_of_lt i.2)
  rw [Nat.succ_mul] at h
  have := j.2
  omega

/-- flat index of `(i, j)` in a row-major `(a, b)` view: `i * b + j`. -/
def pairIdx {a b : Nat} (i : Fin a) (j : Fin b) : Fin (a * b) := ⟨i.1 * b + j.1, pair_lt i j⟩

theorem pos_of_lt_mul {a b k : Nat} (h : k < a * b) : 0 < b := by
  rcases Nat.eq_zero_or_pos b with hb | hb
  · rw [hb, Nat.mul_zero] at h; omega
  · exact hb

theorem pos_of_fin_mul {a b : Nat} (k : Fin (a * b)) : 0 < b := pos_of_lt_mul k.2

/-- leading coordinate of a flat index: `k / b`. -/
def divIdx {a b : Nat} (k : Fin (a * b)) : Fin a :=
  ⟨k.1 / b, Nat.div_lt_of_lt_mul (Nat.lt_of_lt_of_eq k.2 (Nat.mul_comm a b))⟩

/-- trailing coordinate of a flat index: `k % b`. -/
def modIdx {a b : Nat} (k : Fin (a * b)) : Fin b := ⟨k.1 % b, Nat.mod_lt _ (pos_of_fin_mul k)⟩

abbrev Ten3 (α : Type) (k n m : Nat) := Fin k → Fin n → Fin m → α

section ops
variable [Add α] [Mul α] [Zero α]

/-- `base_linear_op._matmul(rhs)` of a dense base with one leading batch/block dimension. -/
def bmm {k n m c : Nat} (B : Ten3 α k n m) (T : Ten3 α k m c) : Ten3 α k n c := fun b => Mat.mul (B b) (T b)

/-! ## Kronecker product: `kronecker_product_linear_operator._matmul / _t_matmul` -/

/-- one factor of a Kronecker product (`m × n`). -/
structure Factor (α : Type) where
  m : Nat
  n : Nat
  A : Mat α m n

def rowsProd : List (Factor α) → Nat
  | [] => 1
  | f :: fs => f.m * rowsProd fs

def colsProd : List (Factor α) → Nat
  | [] => 1
  | f :: fs => f.n * colsProd fs

/-- **Dense definition** of `A₁ ⊗ … ⊗ A_P`: `(A ⊗ K)[i, j] = A[i / rows K, j / cols K] · K[i % rows K, j % cols K]`. -/
def kronDense : (fs : List (Factor α)) → [One α] → Mat α (rowsProd fs) (colsProd fs)
  | [], _ => fun _ _ => 1
  | f :: fs, _ => fun i j => f.A (divIdx i) (divIdx j) * kronDense fs (modIdx i) (modIdx j)

/-- One iteration of the loop in `_matmul(linear_ops, kp_shape, rhs)` on a state with `R` rows
(given as a function of the row number; only rows `< R` are meaningful) and `c` columns:
```
res    = res.view(n, -1)                         # q := R / n ;  res2[a, b*c+col] = res[a*q+b, col]
factor = linear_op._matmul(res)                  # factor[r, b*c+col] = Σ_a A[r,a] res2[a, b*c+col]
factor = factor.view(m, -1, c).transpose(-3,-2)  # [b, r, col]
res    = factor.reshape(-1, c)                   # new[b*m + r, col]
```
-/
def kronStep {c : Nat} (f : Factor α) (R : Nat) (res : Nat → Fin c → α) : Nat → Fin c → α :=
  fun i col =>
    if h : 0 < f.m then
      sumFin f.n fun a => f.A ⟨i % f.m, Nat.mod_lt _ h⟩ a * res (a.1 * (R / f.n) + i / f.m) col
    else 0

/-- number of rows of the state after `kronStep`: `(R / n) * m`. -/
def kronStepRows (f : Factor α) (R : Nat) : Nat := R / f.n * f.m

/-- The loop `for linear_op in linear_ops:` of `_matmul`; returns the final number of rows and the state. -/
def kronLoop {c : Nat} : List (Factor α) → Nat → (Nat → Fin c → α) → Nat × (Nat → Fin c → α)
  | [], R, res => (R, res)
  | f :: fs, R, res => kronLoop fs (kronStepRows f R) (kronStep f R res)

/-- `KroneckerProductLinearOperator._matmul` on an unbatched `(cols, c)` right-hand side. -/
def kronMatmul {c : Nat} (fs : List (Factor α)) (X : Mat α (colsProd fs) c) : Mat α (rowsProd fs) c :=
  let st := kronLoop fs (colsProd fs) (fun i col => if h : i < colsProd fs then X ⟨i, h⟩ col else 0)
  fun i col => st.2 i.1 col

/-- `_transpose_nonbatch`: transpose every factor. -/
def kronTranspose (fs : List (Factor α)) : List (Factor α) :=
  fs.map fun f => ⟨f.n, f.m, Mat.transpose f.A⟩

/-- `_t_matmul` runs the same loop with `linear_op._t_matmul` and the roles of `size(-1)/size(-2)` swapped. -/
def kronTMatmul {c : Nat} (fs : List (Factor α)) (X : Mat α (colsProd (kronTranspose fs)) c) :
    Mat α (rowsProd (kronTranspose fs)) c := kronMatmul (kronTranspose fs) X

/-- two-factor special case with static sizes (used to tie the definition to Mathlib's `⊗ₖ`). -/
def kron2Dense {m n p q : Nat} (A : Mat α m n) (B : Mat α p q) : Mat α (m * p) (n * q) :=
  fun i j => A (divIdx i) (divIdx j) * B (modIdx i) (modIdx j)

/-! ## Block operators: `_add_batch_dim`, base `_matmul`, `_remove_batch_dim` -/

/-- `BlockDiagLinearOperator._add_batch_dim`: `other.view(*batch, num_blocks, num_rows // num_blocks, num_cols)`. -/
def blockDiagAdd {k m c : Nat} (X : Mat α (k * m) c) : Ten3 α k m c := fun b r col => X (pairIdx b r) col

/-- `BlockDiagLinearOperator._remove_batch_dim`: `del shape[-3]; shape[-2] *= num_blocks; reshape`. -/
def blockDiagRemove {k m c : Nat} (T : Ten3 α k m c) : Mat α (k * m) c := fun i col => T (divIdx i) (modIdx i) col

/-- `BlockLinearOperator._matmul` for block-diagonal structure. -/
def blockDiagMatmul {k m n c : Nat} (B : Ten3 α k m n) (X : Mat α (k * n) c) : Mat α (k * m) c :=
  blockDiagRemove (bmm B (blockDiagAdd X))

/-- **Dense definition** of a block-diagonal matrix: entry `[b*m + r, b'*n + s] = B[b][r,s]` if `b = b'`, else 0. -/
def blockDiagDense {k m n : Nat} (B : Ten3 α k m n) : Mat α (k * m) (k * n) :=
  fun i j => if divIdx i = divIdx j then B (divIdx i) (modIdx i) (modIdx j) else 0

/-- `BlockInterleavedLinearOperator._add_batch_dim`:
`other.view(*batch, num_rows // num_blocks, num_blocks, num_cols).transpose(-2, -3)`. -/
def blockInterAdd {k m c : Nat} (X : Mat α (m * k) c) : Ten3 α k m c := fun b r col => X (pairIdx r b) col

/-- `BlockInterleavedLinearOperator._remove_batch_dim`: `transpose(-2,-3)`, drop a dim, reshape. -/
def blockInterRemove {k m c : Nat} (T : Ten3 α k m c) : Mat α (m * k) c := fun i col => T (modIdx i) (divIdx i) col

def blockInterMatmul {k m n c : Nat} (B : Ten3 α k m n) (X : Mat α (n * k) c) : Mat α (m * k) c :=
  blockInterRemove (bmm B (blockInterAdd X))

/-- **Dense definition** of interleaved blocks: entry `[r*k + b, s*k + b'] = B[b][r,s]` if `b = b'`, else 0. -/
def blockInterDense {k m n : Nat} (B : Ten3 α k m n) : Mat α (m * k) (n * k) :=
  fun i j => if modIdx i = modIdx j then B (modIdx i) (divIdx i) (divIdx j) else 0

/-- `_transpose_nonbatch` of a block operator: transpose the base. -/
def blockTranspose {k m n : Nat} (B : Ten3 α k m n) : Ten3 α k n m := fun b => Mat.transpose (B b)

/-- `SumBatchLinearOperator`: `_add_batch_dim` = reshape + expand over the summed dimension,
`_remove_batch_dim` = `sum(-3)`. -/
def sumBatchAdd {k n c : Nat} (X : Mat α n c) : Ten3 α k n c := fun _ => X
def sumBatchRemove {k m c : Nat} (T : Ten3 α k m c) : Mat α m c := fun i col => sumFin k fun b => T b i col
def sumBatchMatmul {k m n c : Nat} (B : Ten3 α k m n) (X : Mat α n c) : Mat α m c :=
  sumBatchRemove (bmm B (sumBatchAdd X))
/-- **Dense definition**: the sum of the blocks. -/
def sumBatchDense {k m n : Nat} (B : Ten3 α k m n) : Mat α m n := fun i j => sumFin k fun b => B b i j

/-! ## BatchRepeat: `_move_repeat_batches_to_columns / _back` (one batch dimension) -/

/-- rhs `(r*b, n, c)` → `view(r, b, n, c)` → `permute(b, n, c, r)` → `view(b, n, c*r)`. -/
def repeatToColumns {r b n c : Nat} (T : Ten3 α (r * b) n c) : Ten3 α b n (c * r) :=
  fun β i j => T (pairIdx (modIdx j) β) i (divIdx j)

/-- result `(b, n, c*r)` → `view(b, n, c, r)` → `permute(r, b, n, c)` → `view(r*b, n, c)`. -/
def repeatBack {r b n c : Nat} (T : Ten3 α b n (c * r)) : Ten3 α (r * b) n c :=
  fun t i col => T (modIdx t) i (pairIdx col (divIdx t))

def batchRepeatMatmul {r b n c : Nat} (B : Ten3 α b n n) (X : Ten3 α (r * b) n c) : Ten3 α (r * b) n c :=
  repeatBack (bmm B (repeatToColumns X))

/-- **Dense definition** of `base.repeat(r, 1, 1)`: batch entry `ρ*b + β` is `base[β]`. -/
def batchRepeatDense {r b n m : Nat} (B : Ten3 α b n m) : Ten3 α (r * b) n m := fun t => B (modIdx t)

/-! ## Cat: `CatLinearOperator._matmul` -/

/-- `torch.cat([X, Y], dim=-2)`. -/
def catRows {a b c : Nat} (X : Mat α a c) (Y : Mat α b c) : Mat α (a + b) c :=
  fun i col => if h : i.1 < a then X ⟨i.1, h⟩ col else Y ⟨i.1 - a, by have := i.2; omega⟩ col

/-- `torch.cat([X, Y], dim=-1)`. -/
def catCols {a b n : Nat} (X : Mat α n a) (Y : Mat α n b) : Mat α n (a + b) :=
  fun i j => if h : j.1 < a then X i ⟨j.1, h⟩ else Y i ⟨j.1 - a, by have := j.2; omega⟩

/-- `cat_dim == -2`: `torch.cat([t._matmul(rhs) for t in linear_ops], dim=-2)`. -/
def catRowsMatmul {a b n c : Nat} (A : Mat α a n) (B : Mat α b n) (X : Mat α n c) : Mat α (a + b) c :=
  catRows (Mat.mul A X) (Mat.mul B X)

/-- a block of a column-concatenation (`n × m`). -/
structure ColBlock (α : Type) (n : Nat) where
  m : Nat
  A : Mat α n m

def totalCols {n : Nat} : List (ColBlock α n) → Nat
  | [] => 0
  | b :: bs => b.m + totalCols bs

/-- `cat_dim == -1`: the loop `index[-2] = slice(curr_idx, curr_idx + size); res_list.append(t._matmul(rhs[index]));
curr_idx += size` followed by the running sum `res = res + x` (starting from `0.0`).
The rhs is a function of the row number. -/
def catColsLoop {n c : Nat} : List (ColBlock α n) → Nat → (Nat → Fin c → α) → Mat α n c → Mat α n c
  | [], _, _, acc => acc
  | b :: bs, curr, rhs, acc =>
    catColsLoop bs (curr + b.m) rhs
      (fun i col => acc i col + Mat.mul b.A (fun l col => rhs (curr + l.1) col) i col)

def catColsMatmul {n c : Nat} (bs : List (ColBlock α n)) (X : Mat α (totalCols bs) c) : Mat α n c :=
  catColsLoop bs 0 (fun i col => if h : i < totalCols bs then X ⟨i, h⟩ col else 0) (fun _ _ => 0)

/-- **Dense definition** of `cat(dim=-1)`: column `j` belongs to the first block whose cumulative width exceeds it. -/
def catColsDense {n : Nat} : (bs : List (ColBlock α n)) → Mat α n (totalCols bs)
  | [] => fun _ j => j.elim0
  | b :: bs => catCols b.A (catColsDense bs)

/-! ## Masked: `_expand`, `_matmul` -/

/-- positions selected by a boolean mask, in increasing order (`arange(N0)[mask]`). -/
def maskSel {N : Nat} (mask : Fin N → Bool) : List (Fin N) := (List.finRange N).filter mask

/-- `MaskedLinearOperator._expand`: `res = zeros(N0, c); res[mask, :] = tensor`. -/
def maskExpand {N c : Nat} (mask : Fin N → Bool) (X : Mat α (maskSel mask).length c) : Mat α N c :=
  fun i col =>
    if h : (maskSel mask).idxOf i < (maskSel mask).length then X ⟨(maskSel mask).idxOf i, h⟩ col else 0

/-- `t[..., mask, :]`. -/
def maskRows {N c : Nat} (mask : Fin N → Bool) (Y : Mat α N c) : Mat α (maskSel mask).length c :=
  fun k col => Y ((maskSel mask).get k) col

def maskedMatmul {N M c : Nat} (base : Mat α N M) (rmask : Fin N → Bool) (cmask : Fin M → Bool)
    (X : Mat α (maskSel cmask).length c) : Mat α (maskSel rmask).length c :=
  maskRows rmask (Mat.mul base (maskExpand cmask X))

/-- **Dense definition**: `base[row_mask, :][:, col_mask]`. -/
def maskedDense {N M : Nat} (base : Mat α N M) (rmask : Fin N → Bool) (cmask : Fin M → Bool) :
    Mat α (maskSel rmask).length (maskSel cmask).length :=
  fun k l => base ((maskSel rmask).get k) ((maskSel cmask).get l)

/-! ## Permutations -/

/-- `PermutationLinearOperator._matmul`: `expanded_rhs[batch, perm.unsqueeze(-1), arange(c)]`. -/
def permMatmul {n c : Nat} (perm : Fin n → Fin n) (X : Mat α n c) : Mat α n c := fun i col => X (perm i) col

/-- **Dense definition**: `P[i, perm[i]] = 1`. -/
def permDense [One α] {n : Nat} (perm : Fin n → Fin n) : Mat α n n := fun i j => if perm i = j then 1 else 0

/-- `TransposePermutationLinearOperator._matmul`:
`rhs.unflatten(-2, (m, m)).transpose(-3, -2).flatten(-3, -2)`. -/
def transposePermMatmul {m c : Nat} (X : Mat α (m * m) c) : Mat α (m * m) c :=
  fun i col => X (pairIdx (modIdx i) (divIdx i)) col

/-- **Dense definition**: `K vec(X) = vec(Xᵀ)`, i.e. `K[a*m+b, b*m+a] = 1`. -/
def transposePermDense [One α] {m : Nat} : Mat α (m * m) (m * m) :=
  fun i j => if divIdx i = modIdx j ∧ modIdx i = divIdx j then 1 else 0

/-! ## Interpolation: `left_interp` (gather), `left_t_interp` (scatter-add), sparse `W` -/

/-- **Dense definition** of the interpolation matrix `W[r, idx[r,k]] += val[r,k]` (duplicates add). -/
def interpW {n K nb : Nat} (idx : Fin n → Fin K → Fin nb) (val : Mat α n K) : Mat α n nb :=
  fun r j => sumFin K fun k => if idx r k = j then val r k else 0

/-- `left_interp`: `rhs_expanded.gather(-3, idx).mul(val).sum(-2)`. -/
def leftInterp {n K nb c : Nat} (idx : Fin n → Fin K → Fin nb) (val : Mat α n K) (X : Mat α nb c) : Mat α n c :=
  fun r col => sumFin K fun k => X (idx r k) col * val r k

/-- `left_t_interp`: `values = rhs.unsqueeze(-2) * val.unsqueeze(-1)` reshaped to `(n*K, c)`, multiplied by the
sparse summing matrix `S[idx[r,k], r*K + k] = 1`. -/
def leftTInterp {n K nb c : Nat} (idx : Fin n → Fin K → Fin nb) (val : Mat α n K) (X : Mat α n c) : Mat α nb c :=
  fun j col => sumFin (n * K) fun t =>
    if idx (divIdx t) (modIdx t) = j then X (divIdx t) col * val (divIdx t) (modIdx t) else 0

/-- `InterpolatedLinearOperator.matmul`: `left_interp(l_idx, l_val, base.matmul(left_t_interp(r_idx, r_val, rhs)))`. -/
def interpMatmul {n n' K K' nb nb' c : Nat} (base : Mat α nb nb')
    (lidx : Fin n → Fin K → Fin nb) (lval : Mat α n K) (ridx : Fin n' → Fin K' → Fin nb') (rval : Mat α n' K')
    (X : Mat α n' c) : Mat α n c :=
  leftInterp lidx lval (Mat.mul base (leftTInterp ridx rval X))

/-- `InterpolatedLinearOperator._matmul`: the same product through the sparse matrices built by
`make_sparse_from_indices_and_values` (coalescing adds duplicates) and `bdsmm`. -/
def interpMatmulSparse {n n' K K' nb nb' c : Nat} (base : Mat α nb nb')
    (lidx : Fin n → Fin K → Fin nb) (lval : Mat α n K) (ridx : Fin n' → Fin K' → Fin nb') (rval : Mat α n' K')
    (X : Mat α n' c) : Mat α n c :=
  Mat.mul (interpW lidx lval) (Mat.mul base (Mat.mul (Mat.transpose (interpW ridx rval)) X))

/-- **Dense definition** `W_l K W_rᵀ`. -/
def interpDense {n n' K K' nb nb' : Nat} (base : Mat α nb nb')
    (lidx : Fin n → Fin K → Fin nb) (lval : Mat α n K) (ridx : Fin n' → Fin K' → Fin nb') (rval : Mat α n' K') :
    Mat α n n' :=
  Mat.mul (interpW lidx lval) (Mat.mul base (Mat.transpose (interpW ridx rval)))

/-! ## Toeplitz: dense definition and the circulant embedding of `toeplitz_matmul` -/

/-- **Dense definition**: `T[i,j] = col[i-j]` for `i ≥ j`, `row[j-i]` otherwise (`row = col` for the symmetric operator). -/
def toeplitzDense {n : Nat} (col row : Fin n → α) : Mat α n n :=
  fun i j => if h : j.1 ≤ i.1 then col ⟨i.1 - j.1, by have := i.2; omega⟩ else row ⟨j.1 - i.1, by have := j.2; omega⟩

/-- `c_r_rev`: `[:n] = column`, `[n:] = row[1:].flip()`; length `2n − 1` (as a function of the position). -/
def toeplitzEmbedding {n : Nat} (col row : Fin n → α) (t : Nat) : α :=
  if h : t < n then col ⟨t, h⟩
  else if h2 : 2 * n - 1 - t < n then row ⟨2 * n - 1 - t, h2⟩ else 0

/-- `temp_tensor[:n] = tensor`, zero elsewhere. -/
def zeroPad {n c : Nat} (X : Mat α n c) (t : Nat) (col : Fin c) : α := if h : t < n then X ⟨t, h⟩ col else 0

/-- circular convolution of length `L` — what `ifft(fft(e) * fft(x))` computes (FFT is abstracted). -/
def circConv {c : Nat} (L : Nat) (e : Nat → α) (x : Nat → Fin c → α) (i : Nat) (col : Fin c) : α :=
  sumFin L fun j => e ((i + L - j.1) % L) * x j.1 col

/-- `toeplitz_matmul`: first `n` rows of the circular convolution of the embedding with the padded tensor. -/
def toeplitzMatmul {n c : Nat} (col row : Fin n → α) (X : Mat α n c) : Mat α n c :=
  fun i cc => circConv (2 * n - 1) (toeplitzEmbedding col row) (zeroPad X) i.1 cc

/-! ## products, sums, roots, diagonals -/

/-- Hadamard product (dense definition of `MulLinearOperator`). -/
def hadamard {n m : Nat} (A B : Mat α n m) : Mat α n m := fun i j => A i j * B i j

/-- `MulLinearOperator._matmul` with a left root `L` (`n × k`), `(L Lᵀ ∘ B) v = diag(L D_v B)`-formula:
`left_res[i, k, col] = rhs[i, col] * L[i, k]` viewed `(n, rank*m)`, multiplied by the right operator, viewed
`(n, rank, m)`, multiplied by `L.unsqueeze(-1)` and summed over the rank. -/
def mulRootsMatmul {n k c : Nat} (L : Mat α n k) (B : Mat α n n) (X : Mat α n c) : Mat α n c :=
  let leftRes : Mat α n (k * c) := fun i t => X i (modIdx t) * L i (divIdx t)
  let r := Mat.mul B leftRes
  fun i col => sumFin k fun l => r i (pairIdx l col) * L i l

/-- `AddedDiagLinearOperator._matmul`: `torch.addcmul(A._matmul(rhs), d.unsqueeze(-1), rhs)`. -/
def addedDiagMatmul {n c : Nat} (A : Mat α n n) (d : Fin n → α) (X : Mat α n c) : Mat α n c :=
  fun i col => Mat.mul A X i col + d i * X i col

/-- `DiagLinearOperator.matmul`: `diag.unsqueeze(-1) * rhs`. -/
def diagMatmul {n c : Nat} (d : Fin n → α) (X : Mat α n c) : Mat α n c := fun i col => d i * X i col

/-- `RootLinearOperator._matmul`: `root._matmul(root._t_matmul(rhs))` (also `LowRankRoot`, and `Chol` for *both*
orientations — `CholLinearOperator` inherits it unchanged). -/
def rootMatmul {n k c : Nat} (R : Mat α n k) (X : Mat α n c) : Mat α n c := Mat.mul R (Mat.mul (Mat.transpose R) X)

/-- `RootLinearOperator.to_dense`: `R Rᵀ`. -/
def rootDense {n k : Nat} (R : Mat α n k) : Mat α n n := Mat.mul R (Mat.transpose R)

/-- `CholLinearOperator.to_dense`: `Rᵀ R` if `upper` else `R Rᵀ` — the documented meaning of the flag. -/
def cholDense {n : Nat} (R : Mat α n n) (upper : Bool) : Mat α n n :=
  if upper then Mat.mul (Mat.transpose R) R else Mat.mul R (Mat.transpose R)

/-- `CholLinearOperator._matmul` (since /repo 05006ba): `Rᵀ (R rhs)` if `upper` else the inherited `R (Rᵀ rhs)`. -/
def cholMatmul {n c : Nat} (R : Mat α n n) (upper : Bool) (X : Mat α n c) : Mat α n c :=
  if upper then Mat.mul (Mat.transpose R) (Mat.mul R X) else rootMatmul R X

/-- The PREVIOUS code (before /repo 05006ba, defect D01): `_matmul` was inherited from `RootLinearOperator`
unchanged and ignored `upper`.  Kept only to state what was wrong with it. -/
def cholMatmulPrevious {n c : Nat} (R : Mat α n n) (_upper : Bool) (X : Mat α n c) : Mat α n c := rootMatmul R X

/-- `ConstantMulLinearOperator._matmul`: `base._matmul(rhs) * expanded_constant`. -/
def constMulMatmul {n m c : Nat} (A : Mat α n m) (k : α) (X : Mat α m c) : Mat α n c :=
  fun i col => Mat.mul A X i col * k

def constMulDense {n m : Nat} (A : Mat α n m) (k : α) : Mat α n m := fun i j => A i j * k

/-- `SumLinearOperator._matmul` (two summands). -/
def sumMatmul {n m c : Nat} (A B : Mat α n m) (X : Mat α m c) : Mat α n c :=
  fun i col => Mat.mul A X i col + Mat.mul B X i col

/-- `MatmulLinearOperator._matmul`: `left._matmul(right._matmul(rhs))`. -/
def matmulMatmul {n k m c : Nat} (A : Mat α n k) (B : Mat α k m) (X : Mat α m c) : Mat α n c :=
  Mat.mul A (Mat.mul B X)

/-! ## base class: `to_dense`, `rmatmul`, minimal user subclass -/

/-- A user subclass supplying only `_matmul`, `_size`, `_transpose_nonbatch` (sizes are the type indices). -/
structure UserOp (α : Type) (n m : Nat) where
  mm : {c : Nat} → Mat α m c → Mat α n c
  tmm : {c : Nat} → Mat α n c → Mat α m c   -- `_transpose_nonbatch()._matmul`

/-- base `to_dense`: `matmul(eye(num_cols))`, or `mT.matmul(eye(num_rows)).mT` when `num_rows < num_cols`. -/
def toDenseDefault [One α] {n m : Nat} (op : UserOp α n m) : Mat α n m :=
  if n < m then Mat.transpose (op.tmm (Mat.one (α := α) (n := n))) else op.mm (Mat.one (α := α) (n := m))

/-- base `rmatmul`: `self.mT.matmul(other.mT).mT` (2-D) — `other` is `p × n`. -/
def rmatmul {n m p : Nat} (op : UserOp α n m) (Y : Mat α p n) : Mat α p m :=
  Mat.transpose (op.tmm (Mat.transpose Y))

/-- base `rmatmul`, 1-D left operand: `self.mT.matmul(other)`; a vector is a one-column matrix here
(`Matmul.forward` unsqueezes and squeezes). -/
def rmatmulVec {n m : Nat} (op : UserOp α n m) (y : Fin n → α) : Fin m → α :=
  fun j => op.tmm (c := 1) (fun i _ => y i) j ⟨0, Nat.one_pos⟩

/-- the operator given by a dense matrix, as a `UserOp`. -/
def UserOp.ofDense {n m : Nat} (D : Mat α n m) : UserOp α n m :=
  ⟨fun X => Mat.mul D X, fun X => Mat.mul (Mat.transpose D) X⟩


/-! ## Kronecker `_t_matmul`: the second module-level loop, mirrored on its own -/

/-- One iteration of `_t_matmul(linear_ops, kp_shape, rhs)`:
```
res    = res.view(m, -1)                          # q := R / m   (linear_op.size(-2))
factor = linear_op._t_matmul(res)                 # factor[s, b*c+col] = Σ_a A[a,s] res2[a, b*c+col]
factor = factor.view(n, -1, c).transpose(-3,-2)   # [b, s, col]      (linear_op.size(-1))
res    = factor.reshape(-1, c)                    # new[b*n + s, col]
```
-/
def kronTStep {c : Nat} (f : Factor α) (R : Nat) (res : Nat → Fin c → α) : Nat → Fin c → α :=
  fun i col =>
    if h : 0 < f.n then
      sumFin f.m fun a => f.A a ⟨i % f.n, Nat.mod_lt _ h⟩ * res (a.1 * (R / f.m) + i / f.n) col
    else 0

def kronTStepRows (f : Factor α) (R : Nat) : Nat := R / f.m * f.n

def kronTLoop {c : Nat} : List (Factor α) → Nat → (Nat → Fin c → α) → Nat × (Nat → Fin c → α)
  | [], R, res => (R, res)
  | f :: fs, R, res => kronTLoop fs (kronTStepRows f R) (kronTStep f R res)

/-- `KroneckerProductLinearOperator._t_matmul` on an unbatched `(rows, c)` right-hand side. -/
def kronTMatmulLoop {c : Nat} (fs : List (Factor α)) (Y : Mat α (rowsProd fs) c) : Mat α (colsProd fs) c :=
  let st := kronTLoop fs (rowsProd fs) (fun i col => if h : i < rowsProd fs then Y ⟨i, h⟩ col else 0)
  fun i col => st.2 i.1 col

end ops


/-! ## batch broadcasting: `_matmul_broadcast_shape` / `torch.broadcast_shapes`, `expand`, batched matmul -/

/-- `torch.broadcast_shapes` of two batch shapes given in REVERSED order (trailing dimension first). -/
def bcastRev : List Nat → List Nat → Option (List Nat)
  | [], t => some t
  | s, [] => some s
  | a :: s, b :: t =>
    if a = b ∨ b = 1 then (bcastRev s t).map (a :: ·)
    else if a = 1 then (bcastRev s t).map (b :: ·)
    else none

/-- `torch.broadcast_shapes(s, t)` (dimensions aligned at the right); `none` = RuntimeError. -/
def broadcastShape (s t : List Nat) : Option (List Nat) := (bcastRev s.reverse t.reverse).map List.reverse

/-- Which member of an operand of (reversed) shape `s` an output member with (reversed) multi-index `idx` reads:
missing leading dimensions are dropped, size-1 dimensions read index 0 (semantics of `expand`). -/
def restrictRev : List Nat → List Nat → List Nat
  | [], _ => []
  | _ :: _, [] => []
  | a :: s, i :: idx => (if a = 1 then 0 else i) :: restrictRev s idx

def restrict (s idx : List Nat) : List Nat := (restrictRev s.reverse idx.reverse).reverse

/-- `idx` is a valid multi-index of a tensor with batch shape `s` (same order for both lists). -/
def InBox : List Nat → List Nat → Prop
  | [], [] => True
  | a :: s, i :: idx => i < a ∧ InBox s idx
  | _, _ => False

/-- a batched matrix: one matrix per batch multi-index (only indices in the box are meaningful). -/
abbrev BMat (α : Type) (n m : Nat) := List Nat → Mat α n m

/-- `t.expand(*out, n, m)` of a tensor with batch shape `s`. -/
def expandB {n m : Nat} (s : List Nat) (T : BMat α n m) : BMat α n m := fun idx => T (restrict s idx)

/-- `_matmul_broadcast_shape(shape_a, shape_b)` for `shape_a = (*sA, m, n)` and a ≥2-D `shape_b = (*sB, n', p)`:
`none` (RuntimeError) iff the inner sizes differ or the batch shapes do not broadcast. -/
def matmulShape (sA : List Nat) (m n : Nat) (sB : List Nat) (n' p : Nat) : Option (List Nat) :=
  if n = n' then (broadcastShape sA sB).map (· ++ [m, p]) else none

/-- `_matmul_broadcast_shape` for a 1-D right-hand side of length `p`: `shape_a[:-1]`. -/
def matmulShapeVec (sA : List Nat) (m n p : Nat) : Option (List Nat) :=
  if n = p then some (sA ++ [m]) else none

section bops
variable [Add α] [Mul α] [Zero α]
/-- Batched matmul as the library performs it: both operands are expanded to the broadcast batch shape and
multiplied member by member (`rhs.expand(*output_batch_shape, …)`, then the per-member code path `f`). -/
def matmulBroadcast {n m c : Nat} (f : Mat α n m → Mat α m c → Mat α n c)
    (sA : List Nat) (A : BMat α n m) (sB : List Nat) (X : BMat α m c) : BMat α n c :=
  fun idx => f (expandB sA A idx) (expandB sB X idx)
end bops

end LinOp.C01
