import LinOp.C01.ProofsB
/-!
C01, part B — property theorems for the interpolation, Toeplitz, Cat and Masked code paths.
All statements are for every size, over an arbitrary commutative semiring (the dense-structure facts need no
algebra at all).  Proofs are in `LinOp.C01.ProofsB` (namespace `LinOp.C01.B`).
-/
namespace LinOp.C01

variable {α : Type}

/-! ## Interpolation -/

/-- Row `r` of the interpolation matrix `W` is `Σ_k val[r,k] · e_{idx[r,k]}` (`e_i` = row `i` of the identity):
every (index, value) pair contributes, so duplicate indices inside a row add up. -/
theorem interpW_eq_sum_basis [CommSemiring α] {n K nb : Nat} (idx : Fin n → Fin K → Fin nb) (val : Mat α n K)
    (r : Fin n) : interpW idx val r = fun j => ∑ k, val r k * Mat.one (idx r k) j :=
  B.interpW_eq_sum_basis idx val r

/-- `left_interp` (gather rows `idx[r,k]` of the rhs, scale by `val[r,k]`, sum over `k`) equals `W · X` with the
dense interpolation matrix `W`; no distinctness assumption on the indices. -/
theorem leftInterp_eq [CommSemiring α] {n K nb c : Nat} (idx : Fin n → Fin K → Fin nb) (val : Mat α n K)
    (X : Mat α nb c) : leftInterp idx val X = Mat.mul (interpW idx val) X :=
  B.leftInterp_eq idx val X

/-- `left_t_interp` (scale row `r` of the rhs by `val[r,k]`, flatten the `(r,k)` pairs row-major, multiply by the
0/1 summing matrix `S[idx[r,k], r*K+k]`) equals `Wᵀ · X`: the scatter-add accumulates all pairs that hit the
same target row. -/
theorem leftTInterp_eq [CommSemiring α] {n K nb c : Nat} (idx : Fin n → Fin K → Fin nb) (val : Mat α n K)
    (X : Mat α n c) : leftTInterp idx val X = Mat.mul (Mat.transpose (interpW idx val)) X :=
  B.leftTInterp_eq idx val X

/-- `InterpolatedLinearOperator.matmul` (`left_interp ∘ base.matmul ∘ left_t_interp`) multiplies by the dense
definition `W_l · K · W_rᵀ`. -/
theorem interp_matmul [CommSemiring α] {n n' K K' nb nb' c : Nat} (base : Mat α nb nb')
    (lidx : Fin n → Fin K → Fin nb) (lval : Mat α n K) (ridx : Fin n' → Fin K' → Fin nb') (rval : Mat α n' K')
    (X : Mat α n' c) :
    interpMatmul base lidx lval ridx rval X = Mat.mul (interpDense base lidx lval ridx rval) X :=
  B.interpMatmul_eq base lidx lval ridx rval X

/-- `InterpolatedLinearOperator._matmul` through the coalesced sparse matrices
(`W_l · (K · (W_rᵀ · X))`) multiplies by the same dense definition `W_l · K · W_rᵀ`. -/
theorem interp_matmul_sparse [CommSemiring α] {n n' K K' nb nb' c : Nat} (base : Mat α nb nb')
    (lidx : Fin n → Fin K → Fin nb) (lval : Mat α n K) (ridx : Fin n' → Fin K' → Fin nb') (rval : Mat α n' K')
    (X : Mat α n' c) :
    interpMatmulSparse base lidx lval ridx rval X = Mat.mul (interpDense base lidx lval ridx rval) X :=
  B.interpMatmulSparse_eq base lidx lval ridx rval X

/-- `_transpose_nonbatch` of an interpolated operator (transpose the base, swap left and right
indices/values) denotes the transpose of the dense definition. -/
theorem interp_transpose [CommSemiring α] {n n' K K' nb nb' : Nat} (base : Mat α nb nb')
    (lidx : Fin n → Fin K → Fin nb) (lval : Mat α n K) (ridx : Fin n' → Fin K' → Fin nb') (rval : Mat α n' K') :
    interpDense (Mat.transpose base) ridx rval lidx lval
      = Mat.transpose (interpDense base lidx lval ridx rval) :=
  B.interp_transpose base lidx lval ridx rval

/-! ## Toeplitz -/

/-- `toeplitz_matmul`: the first `n` entries of the length-`(2n−1)` circular convolution of the embedding
`[col, reverse(row[1:])]` with the zero-padded rhs equal `T · X`, where `T[i,j] = col[i−j]` for `i ≥ j` and
`row[j−i]` for `i < j` (so the diagonal is `col[0]`; `row[0]` is never read).  Holds for every `n` and arbitrary
`col`, `row` (no `0 < n` hypothesis is needed: for `n = 0` there are no entries). -/
theorem toeplitz_circulant_embedding [CommSemiring α] {n c : Nat} (col row : Fin n → α) (X : Mat α n c) :
    toeplitzMatmul col row X = Mat.mul (toeplitzDense col row) X :=
  B.toeplitzMatmul_eq col row X

/-- The entry of the embedding vector that output row `i` pairs with input position `j < n` in the circular
convolution, `e[(i + L − j) mod L]` with `L = 2n−1`, is exactly `T[i,j]`. -/
theorem toeplitz_embedding_entry [Zero α] {n : Nat} (col row : Fin n → α) (i j : Fin n) :
    toeplitzEmbedding col row ((i.1 + (2 * n - 1) - j.1) % (2 * n - 1)) = toeplitzDense col row i j :=
  B.toeplitzEmbedding_circ col row i j

/-- The symmetric Toeplitz operator (`row = col`) has a symmetric dense definition. -/
theorem toeplitz_symm_transpose {n : Nat} (c : Fin n → α) :
    toeplitzDense c c = Mat.transpose (toeplitzDense c c) :=
  B.toeplitz_symm_transpose c

/-- Sanity instance (not a theorem about all sizes): `n = 2`, non-symmetric `col = [1,2]`, `row = [1,4]`,
`X = [1,10]ᵀ`; `T = [[1,4],[2,1]]`, so `T·X = [41, 12]ᵀ`. -/
example :
    (fun i : Fin 2 => toeplitzMatmul (α := Int) (c := 1) (fun i => i.1 + 1) (fun i => 1 + 3 * i.1)
      (fun i _ => 10 ^ i.1) i ⟨0, Nat.one_pos⟩) = fun i => if i.1 = 0 then 41 else 12 := by
  decide

/-! ## Cat -/

/-- `CatLinearOperator._matmul` with `cat_dim = -2` (concatenate the per-block products) multiplies by the
row-concatenation of the blocks. -/
theorem cat_matmul_rows [CommSemiring α] {a b n c : Nat} (A : Mat α a n) (B : Mat α b n) (X : Mat α n c) :
    catRowsMatmul A B X = Mat.mul (catRows A B) X :=
  LinOp.C01.B.catRowsMatmul_eq A B X

/-- Loop invariant of the `cat_dim = -1` path: after running the slice-and-accumulate loop over the blocks `bs`
from row offset `curr` with accumulator `acc`, the result is `acc` plus the column-concatenation of `bs` applied
to rows `curr, curr+1, …` of the rhs. -/
theorem cat_cols_loop_invariant [CommSemiring α] {n c : Nat} (bs : List (ColBlock α n)) (curr : Nat)
    (rhs : Nat → Fin c → α) (acc : Mat α n c) (i : Fin n) (col : Fin c) :
    catColsLoop bs curr rhs acc i col
      = acc i col + ∑ j : Fin (totalCols bs), catColsDense bs i j * rhs (curr + j.1) col :=
  B.catColsLoop_eq bs curr rhs acc i col

/-- `CatLinearOperator._matmul` with `cat_dim = -1`, any number of blocks of any widths: slicing the rhs by the
running offset and summing the per-block products multiplies by the column-concatenation of the blocks. -/
theorem cat_matmul_cols [CommSemiring α] {n c : Nat} (bs : List (ColBlock α n)) (X : Mat α (totalCols bs) c) :
    catColsMatmul bs X = Mat.mul (catColsDense bs) X :=
  B.catColsMatmul_eq bs X

/-- Transposing a row-concatenation gives the column-concatenation of the transposed blocks. -/
theorem cat_transpose {a b c : Nat} (A : Mat α a c) (B : Mat α b c) :
    Mat.transpose (catRows A B) = catCols (Mat.transpose A) (Mat.transpose B) :=
  LinOp.C01.B.cat_transpose A B

/-! ## Masked -/

/-- `MaskedLinearOperator._matmul` (expand the rhs to the full column range with zeros at unselected
positions, multiply by the base, keep the selected rows) multiplies by `base[row_mask, :][:, col_mask]`. -/
theorem masked_matmul [CommSemiring α] {N M c : Nat} (base : Mat α N M) (rmask : Fin N → Bool)
    (cmask : Fin M → Bool) (X : Mat α (maskSel cmask).length c) :
    maskedMatmul base rmask cmask X = Mat.mul (maskedDense base rmask cmask) X :=
  B.maskedMatmul_eq base rmask cmask X

/-- `_transpose_nonbatch` of a masked operator (transpose the base, swap the masks) denotes the transpose. -/
theorem masked_transpose {N M : Nat} (base : Mat α N M) (rmask : Fin N → Bool) (cmask : Fin M → Bool) :
    maskedDense (Mat.transpose base) cmask rmask = Mat.transpose (maskedDense base rmask cmask) :=
  B.masked_transpose base rmask cmask

end LinOp.C01
