import LinOp.C01.Model
/-!
C01 — `BlockLinearOperator.__init__`: a `block_dim` other than −3 is MOVED to the last batch position
(`base._permute_batch(*range(p), *range(p+1, nb), p)` for the positive batch position `p`, `nb` batch dims).
Core Lean only (the driver runs `blockMovePerm`).
-/
namespace LinOp.C01

/-- negative-to-positive normalisation of `block_dim` for a base with `nb` batch dims (`dim = nb + 2`):
`block_dim if block_dim < 0 else block_dim - dim`, then `dim + block_dim`. -/
def blockDimPos (nb : Nat) (blockDim : Int) : Int :=
  let d : Int := nb + 2
  let neg := if blockDim < 0 then blockDim else blockDim - d
  d + neg

/-- the permutation handed to `_permute_batch`: `(*range(p), *range(p+1, nb), p)`. -/
def blockMovePerm (nb p : Nat) : List Nat := List.range p ++ List.range' (p + 1) (nb - (p + 1)) ++ [p]

/-- the seeded "simplification" `base.transpose(block_dim, -3)`: a SWAP of positions `p` and `nb-1`. -/
def blockSwapPerm (nb p : Nat) : List Nat :=
  (List.range nb).map fun i => if i = p then nb - 1 else if i = nb - 1 then p else i

/-- batch shape after `_permute_batch(perm)`: `new_shape[i] = shape[perm[i]]`. -/
def permuteShape (shape perm : List Nat) : List Nat := perm.map fun i => shape.getD i 0

end LinOp.C01
