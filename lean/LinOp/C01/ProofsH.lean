import LinOp.C01.OpTree
import LinOp.C01.ProofsA
/-! helper lemmas for the operator-tree induction -/
namespace LinOp.C01
open LinOp

variable {α : Type} [CommSemiring α]

theorem kronStepOp_spec {n m q c : Nat} (g : Mat α n (q * c) → Mat α m (q * c)) (G : Mat α m n)
    (hg : ∀ Z, g Z = Mat.mul G Z) (X : Mat α (n * q) c) (b : Fin q) (r : Fin m) (col : Fin c) :
    kronStepOp g X (pairIdx b r) col = ∑ a, G r a * X (pairIdx a b) col := by
  simp only [kronStepOp, hg, mul_apply, divIdx_pairIdx, modIdx_pairIdx]

theorem kron_two_step {m n p q c : Nat} (gA : {c : Nat} → Mat α n c → Mat α m c) (gB : {c : Nat} → Mat α q c → Mat α p c)
    (A : Mat α m n) (B : Mat α p q) (hA : ∀ c (Z : Mat α n c), gA Z = Mat.mul A Z)
    (hB : ∀ c (Z : Mat α q c), gB Z = Mat.mul B Z) (X : Mat α (n * q) c) :
    kronStepOp (fun Z => gB Z) (kronStepOp (fun Z => gA Z) X) = Mat.mul (kron2Dense A B) X := by
  funext i col
  rw [← pairIdx_divIdx_modIdx i]
  rw [kronStepOp_spec _ B (fun Z => hB _ Z)]
  simp only [kronStepOp_spec _ A (fun Z => hA _ Z)]
  rw [mul_apply, sum_pairIdx']
  refine Finset.sum_congr rfl fun b _ => ?_
  rw [Finset.mul_sum]
  refine Finset.sum_congr rfl fun a _ => ?_
  simp only [kron2Dense, divIdx_pairIdx, modIdx_pairIdx]
  ring

theorem kron2Dense_transpose {m n p q : Nat} (A : Mat α m n) (B : Mat α p q) :
    Mat.transpose (kron2Dense A B) = kron2Dense (Mat.transpose A) (Mat.transpose B) := rfl

theorem catCols_mul {n r s c : Nat} (A : Mat α n r) (B : Mat α n s) (X : Mat α (r + s) c) :
    Mat.mul (catCols A B) X = fun i col => Mat.mul A (topRows X) i col + Mat.mul B (botRows X) i col := by
  funext i col
  simp only [mul_apply, Fin.sum_univ_add, catCols, topRows, botRows]
  congr 1
  · refine Finset.sum_congr rfl fun l _ => ?_
    simp
  · refine Finset.sum_congr rfl fun l _ => ?_
    simp

theorem catRows_transpose {r s n : Nat} (A : Mat α r n) (B : Mat α s n) :
    Mat.transpose (catRows A B) = catCols (Mat.transpose A) (Mat.transpose B) := rfl

theorem catCols_transpose {r s n : Nat} (A : Mat α n r) (B : Mat α n s) :
    Mat.transpose (catCols A B) = catRows (Mat.transpose A) (Mat.transpose B) := rfl


end LinOp.C01
