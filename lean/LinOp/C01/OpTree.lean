import LinOp.C01.Model
/-!
C01 — deep embedding of NESTED operators (core Lean only).  In the library the sub-operators of a structured
operator are themselves structured operators whose own `_matmul` / `_t_matmul` are called; `Op.eval` mirrors that:
it evaluates a tree by calling the evaluators of the sub-trees exactly where the Python calls `sub._matmul` /
`sub._t_matmul`.  `Op.dense` is the dense semantics (the `…Dense` definitions applied to the sub-trees' semantics).
-/
namespace LinOp.C01

variable {α : Type}

inductive Op (α : Type) : Nat → Nat → Type where
  | dense {n m : Nat} (A : Mat α n m) : Op α n m
  | diag {n : Nat} (d : Fin n → α) : Op α n n
  | toeplitz {n : Nat} (col : Fin n → α) : Op α n n
  | sum {n m : Nat} (a b : Op α n m) : Op α n m
  | matmul {n k m : Nat} (a : Op α n k) (b : Op α k m) : Op α n m
  | constMul {n m : Nat} (a : Op α n m) (k : α) : Op α n m
  | addedDiag {n : Nat} (a : Op α n n) (d : Fin n → α) : Op α n n
  | root {n k : Nat} (a : Op α n k) : Op α n n
  | transpose {n m : Nat} (a : Op α n m) : Op α m n
  | kron {m n p q : Nat} (a : Op α m n) (b : Op α p q) : Op α (m * p) (n * q)
  | blockDiag {k m n : Nat} (blocks : Fin k → Op α m n) : Op α (k * m) (k * n)
  | blockInter {k m n : Nat} (blocks : Fin k → Op α m n) : Op α (m * k) (n * k)
  | sumBatch {k m n : Nat} (blocks : Fin k → Op α m n) : Op α m n
  | catRows {r s n : Nat} (a : Op α r n) (b : Op α s n) : Op α (r + s) n
  | catCols {r s n : Nat} (a : Op α n r) (b : Op α n s) : Op α n (r + s)
  | masked {N M : Nat} (a : Op α N M) (rmask : Fin N → Bool) (cmask : Fin M → Bool) :
      Op α (maskSel rmask).length (maskSel cmask).length
  | interp {n n' K K' nb nb' : Nat} (base : Op α nb nb') (lidx : Fin n → Fin K → Fin nb) (lval : Mat α n K)
      (ridx : Fin n' → Fin K' → Fin nb') (rval : Mat α n' K') : Op α n n'
  /-- `PermutationLinearOperator(perm, inv_perm)` (well-formed iff `perm ∘ inv_perm = id`, what the constructor validates) -/
  | perm {n : Nat} (p inv : Fin n → Fin n) : Op α n n
  /-- `TransposePermutationLinearOperator(m)` -/
  | transposePerm {m : Nat} : Op α (m * m) (m * m)
  /-- `CholLinearOperator(R, upper)`; `R` is any sub-operator (a `TriangularLinearOperator` in the library) -/
  | chol {n : Nat} (r : Op α n n) (upper : Bool) : Op α n n
  /-- `MulLinearOperator(RootLinearOperator(l), RootLinearOperator(r))` -/
  | mulRoots {n k k' : Nat} (l : Op α n k) (r : Op α n k') : Op α n n
  /-- `LowRankRootLinearOperator(a)` (inherits `_matmul`/`_t_matmul` from `RootLinearOperator`) -/
  | lowRankRoot {n k : Nat} (a : Op α n k) : Op α n n
  /-- `IdentityLinearOperator(n)` -/
  | identity {n : Nat} : Op α n n
  /-- `ConstantDiagLinearOperator(c, diag_shape=n)` -/
  | constDiag {n : Nat} (c : α) : Op α n n
  /-- `ZeroLinearOperator(n, m)` -/
  | zero {n m : Nat} : Op α n m
  /-- `KernelLinearOperator(x1, x2, covar_func)` with an opaque torch `covar_func`: `K = covar_func(x1, x2)` is what
  `_matmul` multiplies by (`self.covar_mat @ rhs`), `Kt = covar_func(x2, x1)` is what the transposed operator
  (`KernelLinearOperator(x2, x1, covar_func)`) multiplies by.  Well-formed iff `covar_func(x2, x1) = covar_func(x1, x2)ᵀ`. -/
  | kernel {n m : Nat} (K : Mat α n m) (Kt : Mat α m n) : Op α n m

section
variable [Add α] [Mul α] [Zero α] [One α]

/-- One iteration of the Kronecker loop with the factor given by its multiplication routine `g`
(`linear_op._matmul` resp. `linear_op._t_matmul`): view `(n, q*c)`, apply `g`, view `(m, q, c)`, transpose, reshape. -/
def kronStepOp {n m q c : Nat} (g : Mat α n (q * c) → Mat α m (q * c)) (X : Mat α (n * q) c) : Mat α (q * m) c :=
  let f := g (fun a t => X (pairIdx a (divIdx t)) (modIdx t))
  fun i col => f (modIdx i) (pairIdx (divIdx i) col)

/-- first `a` rows / the remaining rows of a matrix with `a + b` rows (`rhs[..., curr_idx:curr_idx+size, :]`). -/
def topRows {a b c : Nat} (X : Mat α (a + b) c) : Mat α a c := fun i col => X (Fin.castAdd b i) col
def botRows {a b c : Nat} (X : Mat α (a + b) c) : Mat α b c := fun i col => X (Fin.natAdd a i) col

/-- `MulLinearOperator._matmul` with the dense left root `L` and the right operand given by its `_matmul` routine `g`. -/
def mulRootsWith {n k c : Nat} (L : Mat α n k) (g : Mat α n (k * c) → Mat α n (k * c)) (X : Mat α n c) : Mat α n c :=
  let r := g (fun i t => X i (modIdx t) * L i (divIdx t))
  fun i col => sumFin k fun l => r i (pairIdx l col) * L i l

/-- Structured evaluation of a tree: `(eval t).mm` is the `_matmul` of the outermost class calling the evaluators of
the sub-trees, `(eval t).tmm` its `_t_matmul`. -/
def Op.eval : {n m : Nat} → Op α n m → UserOp α n m
  | _, _, .dense A => UserOp.ofDense A
  | _, _, .diag d => ⟨fun X => diagMatmul d X, fun X => diagMatmul d X⟩
  | _, _, .toeplitz col => ⟨fun X => toeplitzMatmul col col X, fun X => toeplitzMatmul col col X⟩
  | _, _, .sum a b =>
    ⟨fun X i col => a.eval.mm X i col + b.eval.mm X i col, fun Y i col => a.eval.tmm Y i col + b.eval.tmm Y i col⟩
  | _, _, .matmul a b => ⟨fun X => a.eval.mm (b.eval.mm X), fun Y => b.eval.tmm (a.eval.tmm Y)⟩
  | _, _, .constMul a k => ⟨fun X i col => a.eval.mm X i col * k, fun Y i col => a.eval.tmm Y i col * k⟩
  | _, _, .addedDiag a d =>
    ⟨fun X i col => a.eval.mm X i col + d i * X i col, fun Y i col => a.eval.tmm Y i col + d i * Y i col⟩
  | _, _, .root a => ⟨fun X => a.eval.mm (a.eval.tmm X), fun X => a.eval.mm (a.eval.tmm X)⟩
  | _, _, .transpose a => ⟨fun X => a.eval.tmm X, fun Y => a.eval.mm Y⟩
  | _, _, .kron a b =>
    ⟨fun X => kronStepOp (fun Z => b.eval.mm Z) (kronStepOp (fun Z => a.eval.mm Z) X),
     fun Y => kronStepOp (fun Z => b.eval.tmm Z) (kronStepOp (fun Z => a.eval.tmm Z) Y)⟩
  | _, _, .blockDiag blocks =>
    ⟨fun X => blockDiagRemove (fun b => (blocks b).eval.mm (blockDiagAdd X b)),
     fun Y => blockDiagRemove (fun b => (blocks b).eval.tmm (blockDiagAdd Y b))⟩
  | _, _, .blockInter blocks =>
    ⟨fun X => blockInterRemove (fun b => (blocks b).eval.mm (blockInterAdd X b)),
     fun Y => blockInterRemove (fun b => (blocks b).eval.tmm (blockInterAdd Y b))⟩
  | _, _, .sumBatch blocks =>
    ⟨fun X => sumBatchRemove (fun b => (blocks b).eval.mm X), fun Y => sumBatchRemove (fun b => (blocks b).eval.tmm Y)⟩
  | _, _, .catRows a b =>
    ⟨fun X => LinOp.C01.catRows (a.eval.mm X) (b.eval.mm X),
     fun Y i col => a.eval.tmm (topRows Y) i col + b.eval.tmm (botRows Y) i col⟩
  | _, _, .catCols a b =>
    ⟨fun X i col => a.eval.mm (topRows X) i col + b.eval.mm (botRows X) i col,
     fun Y => LinOp.C01.catRows (a.eval.tmm Y) (b.eval.tmm Y)⟩
  | _, _, .masked a rmask cmask =>
    ⟨fun X => maskRows rmask (a.eval.mm (maskExpand cmask X)), fun Y => maskRows cmask (a.eval.tmm (maskExpand rmask Y))⟩
  | _, _, .interp base lidx lval ridx rval =>
    ⟨fun X => leftInterp lidx lval (base.eval.mm (leftTInterp ridx rval X)),
     fun Y => leftInterp ridx rval (base.eval.tmm (leftTInterp lidx lval Y))⟩
  -- `_matmul` gathers with `perm`; `_transpose_nonbatch` = `PermutationLinearOperator(inv_perm, perm, validate_args=False)`
  | _, _, .perm p inv => ⟨fun X => permMatmul p X, fun Y => permMatmul inv Y⟩
  -- `_transpose_nonbatch` returns `self`
  | _, _, .transposePerm => ⟨fun X => transposePermMatmul X, fun Y => transposePermMatmul Y⟩
  -- `CholLinearOperator._matmul`: `root._t_matmul(root._matmul(rhs))` if `upper` else the inherited
  -- `root._matmul(root._t_matmul(rhs))`; `_t_matmul` is `RootLinearOperator._t_matmul` = `self._matmul`
  | _, _, .chol r upper =>
    ⟨fun X => if upper then r.eval.tmm (r.eval.mm X) else r.eval.mm (r.eval.tmm X),
     fun X => if upper then r.eval.tmm (r.eval.mm X) else r.eval.mm (r.eval.tmm X)⟩
  -- `MulLinearOperator._matmul`: `left_root = left.root.to_dense()`; `left_res = rhs.unsqueeze(-2) * left_root.unsqueeze(-1)`
  -- viewed `(n, rank*m)`; `right_linear_op._matmul(left_res)` (the right operand is a RootLinearOperator: its `_matmul`
  -- is `root._matmul(root._t_matmul(·))`); view `(n, rank, m)`, `.mul_(left_root.unsqueeze(-1)).sum(-2)`.
  -- `_transpose_nonbatch` returns `self`.
  | _, _, .mulRoots l r =>
    ⟨fun X => mulRootsWith (toDenseDefault l.eval) (fun Z => r.eval.mm (r.eval.tmm Z)) X,
     fun X => mulRootsWith (toDenseDefault l.eval) (fun Z => r.eval.mm (r.eval.tmm Z)) X⟩
  | _, _, .lowRankRoot a => ⟨fun X => a.eval.mm (a.eval.tmm X), fun X => a.eval.mm (a.eval.tmm X)⟩
  -- `IdentityLinearOperator._matmul/_t_matmul` return the (reshaped) rhs
  | _, _, .identity => ⟨fun X => X, fun Y => Y⟩
  -- `DiagLinearOperator.matmul`: `diag.unsqueeze(-1) * rhs` with the expanded constant
  | _, _, .constDiag c => ⟨fun X => diagMatmul (fun _ => c) X, fun Y => diagMatmul (fun _ => c) Y⟩
  -- `ZeroLinearOperator._matmul/_t_matmul`: `torch.zeros(output_shape)`
  | _, _, .zero => ⟨fun _ _ _ => 0, fun _ _ _ => 0⟩
  | _, _, .kernel K Kt => ⟨fun X => Mat.mul K X, fun Y => Mat.mul Kt Y⟩

/-- Dense semantics of a tree. -/
def Op.denseSem : {n m : Nat} → Op α n m → Mat α n m
  | _, _, .dense A => A
  | _, _, .diag d => Mat.diag d
  | _, _, .toeplitz col => toeplitzDense col col
  | _, _, .sum a b => Mat.add a.denseSem b.denseSem
  | _, _, .matmul a b => Mat.mul a.denseSem b.denseSem
  | _, _, .constMul a k => constMulDense a.denseSem k
  | _, _, .addedDiag a d => Mat.add a.denseSem (Mat.diag d)
  | _, _, .root a => rootDense a.denseSem
  | _, _, .transpose a => Mat.transpose a.denseSem
  | _, _, .kron a b => kron2Dense a.denseSem b.denseSem
  | _, _, .blockDiag blocks => blockDiagDense (fun b => (blocks b).denseSem)
  | _, _, .blockInter blocks => blockInterDense (fun b => (blocks b).denseSem)
  | _, _, .sumBatch blocks => sumBatchDense (fun b => (blocks b).denseSem)
  | _, _, .catRows a b => LinOp.C01.catRows a.denseSem b.denseSem
  | _, _, .catCols a b => LinOp.C01.catCols a.denseSem b.denseSem
  | _, _, .masked a rmask cmask => maskedDense a.denseSem rmask cmask
  | _, _, .interp base lidx lval ridx rval => interpDense base.denseSem lidx lval ridx rval
  | _, _, .perm p _ => permDense p
  | _, _, .transposePerm => transposePermDense
  | _, _, .chol r upper => cholDense r.denseSem upper
  | _, _, .mulRoots l r => hadamard (rootDense l.denseSem) (rootDense r.denseSem)
  | _, _, .lowRankRoot a => rootDense a.denseSem
  | _, _, .identity => Mat.one
  | _, _, .constDiag c => Mat.diag (fun _ => c)
  | _, _, .zero => fun _ _ => 0
  | _, _, .kernel K _ => K

/-- Well-formedness of a tree: the constructor-argument conditions the dense meaning relies on.
`perm`: `perm[inv_perm] = arange(n)` — exactly what `PermutationLinearOperator.__init__` validates;
`kernel`: the covariance function satisfies `covar_func(x2, x1) = covar_func(x1, x2)ᵀ`; everything else: the sub-trees. -/
def Op.WF : {n m : Nat} → Op α n m → Prop
  | _, _, .perm p inv => ∀ i, p (inv i) = i
  | _, _, .kernel K Kt => Kt = Mat.transpose K
  | _, _, .sum a b => a.WF ∧ b.WF
  | _, _, .matmul a b => a.WF ∧ b.WF
  | _, _, .constMul a _ => a.WF
  | _, _, .addedDiag a _ => a.WF
  | _, _, .root a => a.WF
  | _, _, .transpose a => a.WF
  | _, _, .kron a b => a.WF ∧ b.WF
  | _, _, .blockDiag blocks => ∀ b, (blocks b).WF
  | _, _, .blockInter blocks => ∀ b, (blocks b).WF
  | _, _, .sumBatch blocks => ∀ b, (blocks b).WF
  | _, _, .catRows a b => a.WF ∧ b.WF
  | _, _, .catCols a b => a.WF ∧ b.WF
  | _, _, .masked a _ _ => a.WF
  | _, _, .interp base _ _ _ _ => base.WF
  | _, _, .chol r _ => r.WF
  | _, _, .mulRoots l r => l.WF ∧ r.WF
  | _, _, .lowRankRoot a => a.WF
  | _, _, _ => True

/-- `LowRankRootAddedDiagLinearOperator(LowRankRoot(a), Diag(d))` and `KroneckerProductAddedDiagLinearOperator(Kronecker(a, b),
Diag(d))` inherit `_matmul` (addcmul) and `_t_matmul` from `AddedDiagLinearOperator` (the harness checks that the classes
define neither), so they are the nestings: -/
def Op.lowRankRootAddedDiag {n k : Nat} (a : Op α n k) (d : Fin n → α) : Op α n n := .addedDiag (.lowRankRoot a) d
def Op.kronAddedDiag {m p : Nat} (a : Op α m m) (b : Op α p p) (d : Fin (m * p) → α) : Op α (m * p) (m * p) :=
  .addedDiag (.kron a b) d

/-- number of nested levels (to state non-triviality of examples). -/
def Op.depth : {n m : Nat} → Op α n m → Nat
  | _, _, .sum a b => max a.depth b.depth + 1
  | _, _, .matmul a b => max a.depth b.depth + 1
  | _, _, .constMul a _ => a.depth + 1
  | _, _, .addedDiag a _ => a.depth + 1
  | _, _, .root a => a.depth + 1
  | _, _, .transpose a => a.depth + 1
  | _, _, .kron a b => max a.depth b.depth + 1
  | _, _, .catRows a b => max a.depth b.depth + 1
  | _, _, .catCols a b => max a.depth b.depth + 1
  | _, _, .masked a _ _ => a.depth + 1
  | _, _, .interp base _ _ _ _ => base.depth + 1
  | _, _, .chol r _ => r.depth + 1
  | _, _, .mulRoots l r => max l.depth r.depth + 1
  | _, _, .lowRankRoot a => a.depth + 1
  | _, _, _ => 1

/-! ### 1-D operands: `Matmul.forward` / `LinearOperator.matmul` promote a 1-D right-hand side with `unsqueeze(-1)`, run the 2-D
code, and `squeeze(-1)`; `rmatmul` with a 1-D left operand is `self.mT.matmul(other)` (same promotion on the transposed
operator); with a ≥2-D left operand `self.mT.matmul(other.mT).mT`. -/

/-- `unsqueeze(-1)` of a 1-D tensor. -/
def colOfVec {n : Nat} (x : Fin n → α) : Mat α n 1 := fun i _ => x i
/-- `squeeze(-1)` of an `(n, 1)` tensor. -/
def vecOfCol {n : Nat} (X : Mat α n 1) : Fin n → α := fun i => X i ⟨0, Nat.one_pos⟩

/-- `op @ x`, `x` 1-D. -/
def matmulVec {n m : Nat} (op : UserOp α n m) (x : Fin m → α) : Fin n → α := vecOfCol (op.mm (colOfVec x))
/-- `op.mT @ y` / `op._t_matmul(y)`, `y` 1-D. -/
def tmatmulVec {n m : Nat} (op : UserOp α n m) (y : Fin n → α) : Fin m → α := vecOfCol (op.tmm (colOfVec y))

/-- result shape of `op @ x` (`_matmul_broadcast_shape`; `none` = RuntimeError): operator `(*sA, n, m)`;
rhs 1-D of length `p` → `(*sA, n)`; rhs `(*sB, p, c)` → `(*broadcast(sA, sB), n, c)`. -/
def matmulResultShape (sA : List Nat) (n m : Nat) : (rhs : List Nat) → Option (List Nat)
  | [] => none
  | [p] => matmulShapeVec sA n m p
  | rhs => matmulShape sA n m (rhs.take (rhs.length - 2)) (rhs.getD (rhs.length - 2) 0) (rhs.getD (rhs.length - 1) 0)

/-- result shape of `x @ op` (`rmatmul`): 1-D `x` of length `p` → shape of `op.mT @ x`; `x = (*sB, c, p)` → the shape of
`op.mT @ x.mT` with the last two entries swapped. -/
def rmatmulResultShape (sA : List Nat) (n m : Nat) : (lhs : List Nat) → Option (List Nat)
  | [] => none
  | [p] => matmulShapeVec sA m n p
  | lhs =>
    (matmulShape sA m n (lhs.take (lhs.length - 2)) (lhs.getD (lhs.length - 1) 0) (lhs.getD (lhs.length - 2) 0)).map fun s =>
      s.take (s.length - 2) ++ [s.getD (s.length - 1) 0, s.getD (s.length - 2) 0]

/-- base-class default `to_dense` of the structured tree: multiply the identity through `eval`. -/
def Op.toDense {n m : Nat} (t : Op α n m) : Mat α n m := toDenseDefault t.eval

end
end LinOp.C01
