import LinOp.C01.Model
/-!
C01 — deep embedding of NESTED operators (core Lean only).  In the library the sub-operators of a structured
operator are themselves structured operators whose own `_matmul` / `_t_matmul` are called; `Op.eval` mirrors that:
it evaluates a tree by calling the evaluators of the sub-trees exactly where the Python calls `sub._matmul` /
`sub._t_matmul`.  `Op.dense` is the dense semantics (the `…Dense` definitions applied to the sub-trees' semantics).
-/
namespace LinOp.C01

variable {α : Type}

inductive Op (α : Type) : Nat → Nat → Type where
  | dense {n m : Nat} (A : Mat α n m) : Op α n m
  | diag {n : Nat} (d : Fin n → α) : Op α n n
  | toeplitz {n : Nat} (col : Fin n → α) : Op α n n
  | sum {n m : Nat} (a b : Op α n m) : Op α n m
  | matmul {n k m : Nat} (a : Op α n k) (b : Op α k m) : Op α n m
  | constMul {n m : Nat} (a : Op α n m) (k : α) : Op α n m
  | addedDiag {n : Nat} (a : Op α n n) (d : Fin n → α) : Op α n n
  | root {n k : Nat} (a : Op α n k) : Op α n n
  | transpose {n m : Nat} (a : Op α n m) : Op α m n
  | kron {m n p q : Nat} (a : Op α m n) (b : Op α p q) : Op α (m * p) (n * q)
  | blockDiag {k m n : Nat} (blocks : Fin k → Op α m n) : Op α (k * m) (k * n)
  | blockInter {k m n : Nat} (blocks : Fin k → Op α m n) : Op α (m * k) (n * k)
  | sumBatch {k m n : Nat} (blocks : Fin k → Op α m n) : Op α m n
  | catRows {r s n : Nat} (a : Op α r n) (b : Op α s n) : Op α (r + s) n
  | catCols {r s n : Nat} (a : Op α n r) (b : Op α n s) : Op α n (r + s)
  | masked {N M : Nat} (a : Op α N M) (rmask : Fin N → Bool) (cmask : Fin M → Bool) :
      Op α (maskSel rmask).length (maskSel cmask).length
  | interp {n n' K K' nb nb' : Nat} (base : Op α nb nb') (lidx : Fin n → Fin K → Fin nb) (lval : Mat α n K)
      (ridx : Fin n' → Fin K' → Fin nb') (rval : Mat α n' K') : Op α n n'

section
variable [Add α] [Mul α] [Zero α]

/-- One iteration of the Kronecker loop with the factor given by its multiplication routine `g`
(`linear_op._matmul` resp. `linear_op._t_matmul`): view `(n, q*c)`, apply `g`, view `(m, q, c)`, transpose, reshape. -/
def kronStepOp {n m q c : Nat} (g : Mat α n (q * c) → Mat α m (q * c)) (X : Mat α (n * q) c) : Mat α (q * m) c :=
  let f := g (fun a t => X (pairIdx a (divIdx t)) (modIdx t))
  fun i col => f (modIdx i) (pairIdx (divIdx i) col)

/-- first `a` rows / the remaining rows of a matrix with `a + b` rows (`rhs[..., curr_idx:curr_idx+size, :]`). -/
def topRows {a b c : Nat} (X : Mat α (a + b) c) : Mat α a c := fun i col => X (Fin.castAdd b i) col
def botRows {a b c : Nat} (X : Mat α (a + b) c) : Mat α b c := fun i col => X (Fin.natAdd a i) col

/-- Structured evaluation of a tree: `(eval t).mm` is the `_matmul` of the outermost class calling the evaluators of
the sub-trees, `(eval t).tmm` its `_t_matmul`. -/
def Op.eval : {n m : Nat} → Op α n m → UserOp α n m
  | _, _, .dense A => UserOp.ofDense A
  | _, _, .diag d => ⟨fun X => diagMatmul d X, fun X => diagMatmul d X⟩
  | _, _, .toeplitz col => ⟨fun X => toeplitzMatmul col col X, fun X => toeplitzMatmul col col X⟩
  | _, _, .sum a b =>
    ⟨fun X i col => a.eval.mm X i col + b.eval.mm X i col, fun Y i col => a.eval.tmm Y i col + b.eval.tmm Y i col⟩
  | _, _, .matmul a b => ⟨fun X => a.eval.mm (b.eval.mm X), fun Y => b.eval.tmm (a.eval.tmm Y)⟩
  | _, _, .constMul a k => ⟨fun X i col => a.eval.mm X i col * k, fun Y i col => a.eval.tmm Y i col * k⟩
  | _, _, .addedDiag a d =>
    ⟨fun X i col => a.eval.mm X i col + d i * X i col, fun Y i col => a.eval.tmm Y i col + d i * Y i col⟩
  | _, _, .root a => ⟨fun X => a.eval.mm (a.eval.tmm X), fun X => a.eval.mm (a.eval.tmm X)⟩
  | _, _, .transpose a => ⟨fun X => a.eval.tmm X, fun Y => a.eval.mm Y⟩
  | _, _, .kron a b =>
    ⟨fun X => kronStepOp (fun Z => b.eval.mm Z) (kronStepOp (fun Z => a.eval.mm Z) X),
     fun Y => kronStepOp (fun Z => b.eval.tmm Z) (kronStepOp (fun Z => a.eval.tmm Z) Y)⟩
  | _, _, .blockDiag blocks =>
    ⟨fun X => blockDiagRemove (fun b => (blocks b).eval.mm (blockDiagAdd X b)),
     fun Y => blockDiagRemove (fun b => (blocks b).eval.tmm (blockDiagAdd Y b))⟩
  | _, _, .blockInter blocks =>
    ⟨fun X => blockInterRemove (fun b => (blocks b).eval.mm (blockInterAdd X b)),
     fun Y => blockInterRemove (fun b => (blocks b).eval.tmm (blockInterAdd Y b))⟩
  | _, _, .sumBatch blocks =>
    ⟨fun X => sumBatchRemove (fun b => (blocks b).eval.mm X), fun Y => sumBatchRemove (fun b => (blocks b).eval.tmm Y)⟩
  | _, _, .catRows a b =>
    ⟨fun X => LinOp.C01.catRows (a.eval.mm X) (b.eval.mm X),
     fun Y i col => a.eval.tmm (topRows Y) i col + b.eval.tmm (botRows Y) i col⟩
  | _, _, .catCols a b =>
    ⟨fun X i col => a.eval.mm (topRows X) i col + b.eval.mm (botRows X) i col,
     fun Y => LinOp.C01.catRows (a.eval.tmm Y) (b.eval.tmm Y)⟩
  | _, _, .masked a rmask cmask =>
    ⟨fun X => maskRows rmask (a.eval.mm (maskExpand cmask X)), fun Y => maskRows cmask (a.eval.tmm (maskExpand rmask Y))⟩
  | _, _, .interp base lidx lval ridx rval =>
    ⟨fun X => leftInterp lidx lval (base.eval.mm (leftTInterp ridx rval X)),
     fun Y => leftInterp ridx rval (base.eval.tmm (leftTInterp lidx lval Y))⟩

/-- Dense semantics of a tree. -/
def Op.denseSem : {n m : Nat} → Op α n m → Mat α n m
  | _, _, .dense A => A
  | _, _, .diag d => Mat.diag d
  | _, _, .toeplitz col => toeplitzDense col col
  | _, _, .sum a b => Mat.add a.denseSem b.denseSem
  | _, _, .matmul a b => Mat.mul a.denseSem b.denseSem
  | _, _, .constMul a k => constMulDense a.denseSem k
  | _, _, .addedDiag a d => Mat.add a.denseSem (Mat.diag d)
  | _, _, .root a => rootDense a.denseSem
  | _, _, .transpose a => Mat.transpose a.denseSem
  | _, _, .kron a b => kron2Dense a.denseSem b.denseSem
  | _, _, .blockDiag blocks => blockDiagDense (fun b => (blocks b).denseSem)
  | _, _, .blockInter blocks => blockInterDense (fun b => (blocks b).denseSem)
  | _, _, .sumBatch blocks => sumBatchDense (fun b => (blocks b).denseSem)
  | _, _, .catRows a b => LinOp.C01.catRows a.denseSem b.denseSem
  | _, _, .catCols a b => LinOp.C01.catCols a.denseSem b.denseSem
  | _, _, .masked a rmask cmask => maskedDense a.denseSem rmask cmask
  | _, _, .interp base lidx lval ridx rval => interpDense base.denseSem lidx lval ridx rval

/-- number of nested levels (to state non-triviality of examples). -/
def Op.depth : {n m : Nat} → Op α n m → Nat
  | _, _, .sum a b => max a.depth b.depth + 1
  | _, _, .matmul a b => max a.depth b.depth + 1
  | _, _, .constMul a _ => a.depth + 1
  | _, _, .addedDiag a _ => a.depth + 1
  | _, _, .root a => a.depth + 1
  | _, _, .transpose a => a.depth + 1
  | _, _, .kron a b => max a.depth b.depth + 1
  | _, _, .catRows a b => max a.depth b.depth + 1
  | _, _, .catCols a b => max a.depth b.depth + 1
  | _, _, .masked a _ _ => a.depth + 1
  | _, _, .interp base _ _ _ _ => base.depth + 1
  | _, _, _ => 1

/-- base-class default `to_dense` of the structured tree: multiply the identity through `eval`. -/
def Op.toDense [One α] {n m : Nat} (t : Op α n m) : Mat α n m := toDenseDefault t.eval

end
end LinOp.C01
