import LinOp.Core.Parse
import LinOp.C01.OpTree
/-! Line-protocol driver for operator TREES: `<X> <Y> <prefix-encoded tree…>` → `eval.mm X # denseSem # eval.tmm Y`.
Tokens: `dense M | diag v | sum t t | matmul t t | cmul k t | adiag v t | root t | T t | kron t t | catr t t | catc t t |
bdiag k t…t | binter k t…t | sumb k t…t | perm v v | tperm m | chol 0/1 t | mulr t t | lrr t | eye n | cdiag n c | zero n m |
kern K Kt` (matrices `r1c1,r1c2;…`, vectors as one row).  Output also carries the 1-D products (first columns of X / Y as 1-D
operands: `op @ x`, `y @ op`) and `Yᵀ @ op` through the base-class `rmatmul`. -/
open LinOp LinOp.C01 LinOp.Parse

abbrev A2 := Array (Array Rat)
def rowsOf (a : A2) : Nat := a.size
def colsOf (a : A2) : Nat := if h : 0 < a.size then a[0].size else 0
def matAs (n m : Nat) (a : A2) : Mat Rat n m := Mat.ofArrays n m a
def showM {n m : Nat} (M : Mat Rat n m) : String := showMat (Mat.toLists M)
def vecOf (n : Nat) (a : A2) : Fin n → Rat := fun i => (a[0]!)[i.1]!
/-- an index map `Fin n → Fin n` from a row of naturals (entries are reduced mod n: the library would raise on them). -/
def idxOf (n : Nat) (a : A2) : Fin n → Fin n := fun i =>
  ⟨((a[0]!)[i.1]!).num.toNat % n, Nat.mod_lt _ (Nat.lt_of_le_of_lt (Nat.zero_le _) i.2)⟩
def showV {n : Nat} (v : Fin n → Rat) : String := showMat [(List.finRange n).map v]

structure AnyOp where
  n : Nat
  m : Nat
  t : Op Rat n m

def castOp {n m n' m' : Nat} (h1 : n = n') (h2 : m = m') (t : Op Rat n m) : Op Rat n' m' := h1 ▸ h2 ▸ t

/-- `k` trees of equal sizes as a function of the block index. -/
def blocksOf (k m n : Nat) (l : List AnyOp) : Option (Fin k → Op Rat m n) :=
  if hk : l.length = k then
    if hall : ∀ i : Fin l.length, (l[i]).n = m ∧ (l[i]).m = n then
      some fun b => castOp (hall ⟨b.1, hk ▸ b.2⟩).1 (hall ⟨b.1, hk ▸ b.2⟩).2 (l[b.1]'(hk ▸ b.2)).t
    else none
  else none

mutual
partial def parseOp : List String → Option (AnyOp × List String)
  | "dense" :: M :: rest => do
    let a ← parseMat? M
    pure (⟨rowsOf a, colsOf a, .dense (matAs _ _ a)⟩, rest)
  | "diag" :: v :: rest => do
    let a ← parseMat? v
    let n := colsOf a
    pure (⟨n, n, .diag (vecOf n a)⟩, rest)
  | "sum" :: rest => do
    let (a, r1) ← parseOp rest
    let (b, r2) ← parseOp r1
    if h : b.n = a.n ∧ b.m = a.m then pure (⟨a.n, a.m, .sum a.t (castOp h.1 h.2 b.t)⟩, r2) else none
  | "matmul" :: rest => do
    let (a, r1) ← parseOp rest
    let (b, r2) ← parseOp r1
    if h : b.n = a.m then pure (⟨a.n, b.m, .matmul a.t (castOp h rfl b.t)⟩, r2) else none
  | "cmul" :: k :: rest => do
    let k ← parseRat? k
    let (a, r1) ← parseOp rest
    pure (⟨a.n, a.m, .constMul a.t k⟩, r1)
  | "adiag" :: v :: rest => do
    let d ← parseMat? v
    let (a, r1) ← parseOp rest
    if h : a.m = a.n then pure (⟨a.n, a.n, .addedDiag (castOp rfl h a.t) (vecOf a.n d)⟩, r1) else none
  | "root" :: rest => do
    let (a, r1) ← parseOp rest
    pure (⟨a.n, a.n, .root a.t⟩, r1)
  | "T" :: rest => do
    let (a, r1) ← parseOp rest
    pure (⟨a.m, a.n, .transpose a.t⟩, r1)
  | "kron" :: rest => do
    let (a, r1) ← parseOp rest
    let (b, r2) ← parseOp r1
    pure (⟨a.n * b.n, a.m * b.m, .kron a.t b.t⟩, r2)
  | "catr" :: rest => do
    let (a, r1) ← parseOp rest
    let (b, r2) ← parseOp r1
    if h : b.m = a.m then pure (⟨a.n + b.n, a.m, .catRows a.t (castOp rfl h b.t)⟩, r2) else none
  | "catc" :: rest => do
    let (a, r1) ← parseOp rest
    let (b, r2) ← parseOp r1
    if h : b.n = a.n then pure (⟨a.n, a.m + b.m, .catCols a.t (castOp h rfl b.t)⟩, r2) else none
  | "bdiag" :: k :: rest => do
    let k ← k.toNat?
    let (l, r1) ← parseMany k rest
    let a ← l.head?
    let bl ← blocksOf k a.n a.m l
    pure (⟨k * a.n, k * a.m, .blockDiag bl⟩, r1)
  | "binter" :: k :: rest => do
    let k ← k.toNat?
    let (l, r1) ← parseMany k rest
    let a ← l.head?
    let bl ← blocksOf k a.n a.m l
    pure (⟨a.n * k, a.m * k, .blockInter bl⟩, r1)
  | "sumb" :: k :: rest => do
    let k ← k.toNat?
    let (l, r1) ← parseMany k rest
    let a ← l.head?
    let bl ← blocksOf k a.n a.m l
    pure (⟨a.n, a.m, .sumBatch bl⟩, r1)
  | "perm" :: v :: w :: rest => do
    let a ← parseMat? v
    let b ← parseMat? w
    let n := colsOf a
    pure (⟨n, n, .perm (idxOf n a) (idxOf n b)⟩, rest)
  | "tperm" :: m :: rest => do
    let m ← m.toNat?
    pure (⟨m * m, m * m, .transposePerm⟩, rest)
  | "chol" :: u :: rest => do
    let (a, r1) ← parseOp rest
    if h : a.m = a.n then pure (⟨a.n, a.n, .chol (castOp rfl h a.t) (u == "1")⟩, r1) else none
  | "mulr" :: rest => do
    let (a, r1) ← parseOp rest
    let (b, r2) ← parseOp r1
    if h : b.n = a.n then pure (⟨a.n, a.n, .mulRoots a.t (castOp h rfl b.t)⟩, r2) else none
  | "lrr" :: rest => do
    let (a, r1) ← parseOp rest
    pure (⟨a.n, a.n, .lowRankRoot a.t⟩, r1)
  | "eye" :: n :: rest => do
    let n ← n.toNat?
    pure (⟨n, n, .identity⟩, rest)
  | "cdiag" :: n :: c :: rest => do
    let n ← n.toNat?
    let c ← parseRat? c
    pure (⟨n, n, .constDiag c⟩, rest)
  | "zero" :: n :: m :: rest => do
    let n ← n.toNat?
    let m ← m.toNat?
    pure (⟨n, m, .zero⟩, rest)
  | "kern" :: K :: Kt :: rest => do
    let a ← parseMat? K
    let b ← parseMat? Kt
    pure (⟨rowsOf a, colsOf a, .kernel (matAs _ _ a) (matAs _ _ b)⟩, rest)
  | _ => none
partial def parseMany : Nat → List String → Option (List AnyOp × List String)
  | 0, rest => some ([], rest)
  | k + 1, rest => do
    let (a, r1) ← parseOp rest
    let (l, r2) ← parseMany k r1
    pure (a :: l, r2)
end

def run (ws : List String) : String :=
  match ws with
  | x :: y :: toks =>
    match parseMat? x, parseMat? y, parseOp toks with
    | some xa, some ya, some (op, []) =>
      let X := matAs op.m (colsOf xa) xa
      let Y := matAs op.n (colsOf ya) ya
      showM (op.t.eval.mm X) ++ " # " ++ showM op.t.denseSem ++ " # " ++ showM (op.t.eval.tmm Y) ++ " # " ++
        showV (matmulVec op.t.eval fun j => if h : 0 < colsOf xa then X j ⟨0, h⟩ else 0) ++ " # " ++
        showV (rmatmulVec op.t.eval fun i => if h : 0 < colsOf ya then Y i ⟨0, h⟩ else 0) ++ " # " ++
        showM (rmatmul op.t.eval (Mat.transpose Y))
    | _, _, _ => "bad"
  | _ => "bad"

def main : IO Unit := do
  loop (← IO.getStdin) () fun _ line => ((), run (words line))
