import LinOp.C01.ProofsC
namespace LinOp.C01
open LinOp LinOp.C01.C

/-! ## C01 group C — permutations, sums / products / roots / diagonals, Cholesky orientation, base class -/

/-! ### 1. permutations -/

/-- `PermutationLinearOperator._matmul` (the gather `rhs[perm]`) equals multiplication by the dense permutation
matrix `P[i, perm i] = 1`, for every size and every index map `perm` (bijectivity is not needed here). -/
theorem perm_matmul {α : Type} [CommSemiring α] {n c : Nat} (perm : Fin n → Fin n) (X : Mat α n c) :
    permMatmul perm X = Mat.mul (permDense perm) X := by
  funext i col
  simp only [permMatmul, permDense, mul_apply, ite_mul, one_mul, zero_mul, Finset.sum_ite_eq, Finset.mem_univ,
    if_true]

/-- `PermutationLinearOperator._transpose_nonbatch` swaps `perm` and `inv_perm`: when the two maps are mutually
inverse, the dense matrix of `inv` is the transpose of the dense matrix of `perm`. -/
theorem perm_transpose {α : Type} [CommSemiring α] {n : Nat} (perm inv : Fin n → Fin n)
    (h1 : ∀ i, perm (inv i) = i) (h2 : ∀ j, inv (perm j) = j) :
    permDense inv = Mat.transpose (permDense (α := α) perm) := by
  funext i j
  simp only [permDense, Mat.transpose]
  by_cases h : inv i = j
  · have h' : perm j = i := by rw [← h]; exact h1 i
    rw [if_pos h, if_pos h']
  · have h' : ¬ perm j = i := fun e => h (by rw [← e]; exact h2 j)
    rw [if_neg h, if_neg h']

/-- `TransposePermutationLinearOperator._matmul` (unflatten to `(m, m)`, swap, flatten) equals multiplication by
the dense commutation matrix `K[a*m+b, b*m+a] = 1`. -/
theorem transposePerm_matmul {α : Type} [CommSemiring α] {m c : Nat} (X : Mat α (m * m) c) :
    transposePermMatmul X = Mat.mul transposePermDense X := by
  funext i col
  have hc : ∀ l : Fin (m * m),
      (divIdx i = modIdx l ∧ modIdx i = divIdx l) ↔ pairIdx (modIdx i) (divIdx i) = l := by
    intro l
    rw [← div_mod_eq_iff]
    constructor
    · rintro ⟨h1, h2⟩; exact ⟨h2.symm, h1.symm⟩
    · rintro ⟨h1, h2⟩; exact ⟨h2.symm, h1.symm⟩
  simp only [transposePermMatmul, transposePermDense, mul_apply, hc, ite_mul, one_mul, zero_mul,
    Finset.sum_ite_eq, Finset.mem_univ, if_true]

/-- The commutation matrix is symmetric: `TransposePermutationLinearOperator._transpose_nonbatch` returns `self`. -/
theorem transposePerm_symm {α : Type} [CommSemiring α] {m : Nat} :
    Mat.transpose (transposePermDense (α := α) (m := m)) = transposePermDense := by
  funext i j
  simp only [Mat.transpose, transposePermDense]
  by_cases h : divIdx i = modIdx j ∧ modIdx i = divIdx j
  · rw [if_pos h, if_pos ⟨h.2.symm, h.1.symm⟩]
  · rw [if_neg h, if_neg fun h' => h ⟨h'.2.symm, h'.1.symm⟩]

/-- Entry formula of the commutation matrix in pair coordinates: row `(a, b)`, column `(b', a')` holds `1` exactly
when `(a, b) = (a', b')`, i.e. `K vec(X) = vec(Xᵀ)`. -/
theorem transposePermDense_pair {α : Type} [CommSemiring α] {m : Nat} (a b b' a' : Fin m) :
    transposePermDense (α := α) (pairIdx a b) (pairIdx b' a') = if a = a' ∧ b = b' then 1 else 0 := by
  simp only [transposePermDense, divIdx_pairIdx, modIdx_pairIdx]

/-! ### 2. sums, products, roots, diagonals -/

/-- `AddedDiagLinearOperator._matmul` (`addcmul(A @ rhs, d[:, None], rhs)`) multiplies by `A + diag(d)`. -/
theorem addedDiag_matmul {α : Type} [CommSemiring α] {n c : Nat} (A : Mat α n n) (d : Fin n → α) (X : Mat α n c) :
    addedDiagMatmul A d X = Mat.mul (Mat.add A (Mat.diag d)) X := by
  rw [C.add_mul, diag_mul]; rfl

/-- `DiagLinearOperator.matmul` (`diag[:, None] * rhs`) multiplies by `diag(d)`. -/
theorem diag_matmul {α : Type} [CommSemiring α] {n c : Nat} (d : Fin n → α) (X : Mat α n c) :
    diagMatmul d X = Mat.mul (Mat.diag d) X := by
  rw [diag_mul]; rfl

/-- `ConstantMulLinearOperator._matmul` (`base @ rhs * k`) multiplies by the dense matrix `A * k`. -/
theorem constMul_matmul {α : Type} [CommSemiring α] {n m c : Nat} (A : Mat α n m) (k : α) (X : Mat α m c) :
    constMulMatmul A k X = Mat.mul (constMulDense A k) X := by
  funext i col
  simp only [constMulMatmul, constMulDense, mul_apply, Finset.sum_mul]
  exact Finset.sum_congr rfl fun l _ => mul_right_comm _ _ _

/-- `SumLinearOperator._matmul` (sum of the summands' products) multiplies by `A + B`. -/
theorem sum_matmul {α : Type} [CommSemiring α] {n m c : Nat} (A B : Mat α n m) (X : Mat α m c) :
    sumMatmul A B X = Mat.mul (Mat.add A B) X := by
  rw [C.add_mul]; rfl

/-- `MatmulLinearOperator._matmul` (`left @ (right @ rhs)`) multiplies by the dense product `A B`. -/
theorem matmulOp_matmul {α : Type} [CommSemiring α] {n k m c : Nat} (A : Mat α n k) (B : Mat α k m)
    (X : Mat α m c) : matmulMatmul A B X = Mat.mul (Mat.mul A B) X :=
  (C.mul_assoc A B X).symm

/-- `RootLinearOperator._matmul` (`R @ (Rᵀ @ rhs)`) multiplies by `to_dense() = R Rᵀ`. -/
theorem root_matmul {α : Type} [CommSemiring α] {n k c : Nat} (R : Mat α n k) (X : Mat α n c) :
    rootMatmul R X = Mat.mul (rootDense R) X :=
  (C.mul_assoc R (Mat.transpose R) X).symm

/-- `R Rᵀ` is symmetric (`RootLinearOperator._transpose_nonbatch` returns `self`). -/
theorem root_symm {α : Type} [CommSemiring α] {n k : Nat} (R : Mat α n k) :
    Mat.transpose (rootDense R) = rootDense R := by
  unfold rootDense
  rw [C.transpose_mul]; rfl

/-- `ConstantMulLinearOperator._transpose_nonbatch`: transposing `A * k` is `Aᵀ * k`. -/
theorem constMul_transpose {α : Type} [CommSemiring α] {n m : Nat} (A : Mat α n m) (k : α) :
    Mat.transpose (constMulDense A k) = constMulDense (Mat.transpose A) k := rfl

/-- `SumLinearOperator._transpose_nonbatch`: transposing `A + B` is `Aᵀ + Bᵀ`. -/
theorem sum_transpose {α : Type} [CommSemiring α] {n m : Nat} (A B : Mat α n m) :
    Mat.transpose (Mat.add A B) = Mat.add (Mat.transpose A) (Mat.transpose B) := rfl

/-- `MatmulLinearOperator._transpose_nonbatch`: `(A B)ᵀ = Bᵀ Aᵀ` (factors transposed *and* swapped). -/
theorem matmulOp_transpose {α : Type} [CommSemiring α] {n k m : Nat} (A : Mat α n k) (B : Mat α k m) :
    Mat.transpose (Mat.mul A B) = Mat.mul (Mat.transpose B) (Mat.transpose A) :=
  C.transpose_mul A B

/-- `DiagLinearOperator._transpose_nonbatch` returns `self`: a diagonal matrix is symmetric. -/
theorem diag_symm {α : Type} [CommSemiring α] {n : Nat} (d : Fin n → α) :
    Mat.transpose (Mat.diag d) = Mat.diag d := by
  funext i j
  simp only [Mat.transpose, Mat.diag]
  by_cases h : i = j
  · subst h; rfl
  · rw [if_neg h, if_neg fun e => h e.symm]

/-! ### 3. defect D01 — `CholLinearOperator(upper=True)` multiplies as `R Rᵀ` but densifies as `Rᵀ R` -/

/-- Partial correctness: with `upper = False` the inherited `_matmul` agrees with `to_dense()` for every `R`. -/
theorem chol_lower_matmul {α : Type} [CommSemiring α] {n c : Nat} (R : Mat α n n) (X : Mat α n c) :
    cholMatmul R false X = Mat.mul (cholDense R false) X :=
  root_matmul R X

/-- Defect D01: with `upper = True` the inherited `_matmul` (`R Rᵀ rhs`) disagrees with `to_dense()` (`Rᵀ R`) —
witness `R = [[1,1],[0,1]]` (a valid upper Cholesky factor), `rhs = e₀`: the code returns `(2,1)ᵀ`, the dense
matrix gives `(1,1)ᵀ`. -/
theorem chol_upper_matmul_counterexample :
    ∃ (R : Mat Int 2 2) (X : Mat Int 2 1), cholMatmul R true X ≠ Mat.mul (cholDense R true) X := by
  refine ⟨fun i j => if i.1 = 1 ∧ j.1 = 0 then 0 else 1, fun i _ => if i.1 = 0 then 1 else 0, fun h => ?_⟩
  have h00 := congrFun (congrFun h 0) 0
  simp only [cholMatmul, rootMatmul, cholDense, if_true, mul_apply, Mat.transpose, Fin.sum_univ_two] at h00
  revert h00
  decide

/-- The defect is invisible exactly on normal factors: if `R Rᵀ = Rᵀ R` then `upper = True` multiplies correctly. -/
theorem chol_upper_matmul_symmetric_only {α : Type} [CommSemiring α] {n c : Nat} (R : Mat α n n) (X : Mat α n c)
    (hR : Mat.mul R (Mat.transpose R) = Mat.mul (Mat.transpose R) R) :
    cholMatmul R true X = Mat.mul (cholDense R true) X := by
  have h : cholDense R true = Mat.mul R (Mat.transpose R) := by
    simp only [cholDense, if_true]; exact hR.symm
  rw [h]
  exact root_matmul R X

/-- Converse direction of the previous theorem: if `upper = True` multiplies correctly against the identity
right-hand side, then `R` is normal — so normality is exactly the condition under which D01 is invisible. -/
theorem chol_upper_matmul_correct_iff_normal {α : Type} [CommSemiring α] {n : Nat} (R : Mat α n n) :
    (∀ c (X : Mat α n c), cholMatmul R true X = Mat.mul (cholDense R true) X) ↔
      Mat.mul R (Mat.transpose R) = Mat.mul (Mat.transpose R) R := by
  constructor
  · intro h
    have h1 := h n (Mat.one (α := α))
    rw [C.mul_one] at h1
    have h2 : cholMatmul R true (Mat.one (α := α) (n := n)) = Mat.mul R (Mat.transpose R) := by
      show Mat.mul R (Mat.mul (Mat.transpose R) Mat.one) = _
      rw [C.mul_one]
    rw [h2] at h1
    simpa only [cholDense, if_true] using h1
  · intro hR c X
    exact chol_upper_matmul_symmetric_only R X hR

/-! ### 4. base class / minimal user subclass -/

/-- Base `to_dense` (multiply the identity, through the transposed operator when `num_rows < num_cols`) returns
the denoted matrix, in both branches. -/
theorem toDense_default {α : Type} [CommSemiring α] {n m : Nat} (op : UserOp α n m) (D : Mat α n m)
    (h : op.Denotes D) : toDenseDefault op = D := by
  unfold toDenseDefault
  by_cases hnm : n < m
  · rw [if_pos hnm, h.2, C.mul_one]; rfl
  · rw [if_neg hnm, h.1, C.mul_one]

/-- Base `rmatmul` (`self.mT.matmul(other.mT).mT`) is left multiplication `Y D`. -/
theorem rmatmul_refines {α : Type} [CommSemiring α] {n m p : Nat} (op : UserOp α n m) (D : Mat α n m)
    (Y : Mat α p n) (h : op.Denotes D) : rmatmul op Y = Mat.mul Y D := by
  unfold rmatmul
  rw [h.2, C.transpose_mul]; rfl

/-- Base `rmatmul` with a 1-D left operand (`self.mT.matmul(other)`) is the vector–matrix product `y D`. -/
theorem rmatmulVec_refines {α : Type} [CommSemiring α] {n m : Nat} (op : UserOp α n m) (D : Mat α n m)
    (y : Fin n → α) (h : op.Denotes D) : rmatmulVec op y = fun j => ∑ i, y i * D i j := by
  funext j
  unfold rmatmulVec
  rw [h.2, mul_apply]
  exact Finset.sum_congr rfl fun i _ => mul_comm _ _

/-- Every base-class-derived observation of a minimal user subclass (`to_dense`, `matmul`, `rmatmul`, the
transposed operator's `matmul` and `to_dense`) agrees with the single dense matrix `D` it denotes. -/
theorem userMinimal_refines {α : Type} [CommSemiring α] {n m : Nat} (op : UserOp α n m) (D : Mat α n m)
    (h : op.Denotes D) :
    toDenseDefault op = D ∧
    (∀ c (X : Mat α m c), op.mm X = Mat.mul D X) ∧
    (∀ p (Y : Mat α p n), rmatmul op Y = Mat.mul Y D) ∧
    (∀ c (X : Mat α n c), op.tmm X = Mat.mul (Mat.transpose D) X) ∧
    toDenseDefault (⟨op.tmm, op.mm⟩ : UserOp α m n) = Mat.transpose D :=
  ⟨toDense_default op D h, h.1, fun _ Y => rmatmul_refines op D Y h, h.2,
    toDense_default ⟨op.tmm, op.mm⟩ (Mat.transpose D) ⟨h.2, h.1⟩⟩

/-- The hypothesis `Denotes` is satisfiable: the operator built from a dense matrix denotes it. -/
theorem ofDense_denotes {α : Type} [CommSemiring α] {n m : Nat} (D : Mat α n m) : (UserOp.ofDense D).Denotes D :=
  ⟨fun _ _ => rfl, fun _ _ => rfl⟩

/-- Non-vacuity, concrete: a non-square integer operator. -/
example : (UserOp.ofDense (fun (i : Fin 2) (j : Fin 3) => (i.1 + 2 * j.1 : Int))).Denotes
    (fun i j => (i.1 + 2 * j.1 : Int)) := ofDense_denotes _

/-- Non-vacuity, structured: the subclass whose `_matmul` is the row scaling `d[:, None] * rhs` (and which is its
own transpose) denotes `diag(d)` — an instance not built from its dense matrix. -/
example {α : Type} [CommSemiring α] {n : Nat} (d : Fin n → α) :
    (⟨fun X => diagMatmul d X, fun X => diagMatmul d X⟩ : UserOp α n n).Denotes (Mat.diag d) :=
  ⟨fun _ X => diag_matmul d X, fun _ X => by rw [diag_symm]; exact diag_matmul d X⟩

end LinOp.C01
