import LinOp.C01.BlockDim
import Mathlib.Data.List.Range
import Mathlib.Data.List.Perm.Basic
namespace LinOp.C01

theorem blockMovePerm_length {nb p : Nat} (h : p < nb) : (blockMovePerm nb p).length = nb := by
  simp [blockMovePerm]; omega

/-- entrywise description: positions before `p` stay, positions from `p` on shift up by one, `p` goes last. -/
theorem blockMovePerm_getElem {nb p : Nat} (h : p < nb) (i : Nat) (hi : i < (blockMovePerm nb p).length) :
    (blockMovePerm nb p)[i] = if i < p then i else if i < nb - 1 then i + 1 else p := by
  have hl := blockMovePerm_length h
  simp only [blockMovePerm] at hi ⊢
  by_cases h1 : i < p
  · rw [List.getElem_append_left (by simp; omega), List.getElem_append_left (by simp; omega)]
    simp [h1]
  · by_cases h2 : i < nb - 1
    · rw [List.getElem_append_left (by simp; omega), List.getElem_append_right (by simp; omega)]
      simp [h1, h2]; omega
    · rw [List.getElem_append_right (by simp; omega)]
      simp [h1, h2]

end LinOp.C01

namespace LinOp.C01

theorem blockMovePerm_eq_eraseIdx {nb p : Nat} (h : p < nb) :
    blockMovePerm nb p = (List.range nb).eraseIdx p ++ [p] := by
  apply List.ext_getElem
  · rw [blockMovePerm_length h]; simp [List.length_eraseIdx, h]; omega
  · intro i h1 h2
    rw [blockMovePerm_getElem h i h1]
    have hl := blockMovePerm_length h
    by_cases hi : i < nb - 1
    · rw [List.getElem_append_left (by simp [List.length_eraseIdx, h]; omega), List.getElem_eraseIdx]
      by_cases hp : i < p <;> simp [hp, hi]
    · rw [List.getElem_append_right (by simp [List.length_eraseIdx, h]; omega)]
      have : ¬ i < p := by omega
      simp [hi, this]

theorem range_split {nb p : Nat} (h : p < nb) :
    List.range nb = List.range p ++ (p :: List.range' (p + 1) (nb - (p + 1))) := by
  have hk : nb = p + ((nb - (p + 1)) + 1) := by omega
  conv_lhs => rw [hk]
  rw [List.range_eq_range', List.range_eq_range', ← List.range'_append_1, List.range'_succ]
  simp

theorem blockMovePerm_perm {nb p : Nat} (h : p < nb) : (blockMovePerm nb p).Perm (List.range nb) := by
  rw [range_split h, blockMovePerm, List.append_assoc]
  exact List.Perm.append_left _ (List.perm_append_singleton _ _)

/-- Applying the constructor's permutation to a batch shape moves entry `p` to the end and keeps all other
entries in their original order. -/
theorem permuteShape_blockMove (shape : List Nat) {p : Nat} (h : p < shape.length) :
    permuteShape shape (blockMovePerm shape.length p) = shape.eraseIdx p ++ [shape[p]] := by
  apply List.ext_getElem
  · simp [permuteShape, blockMovePerm_length h, List.length_eraseIdx, h]; omega
  · intro i h1 h2
    have hl : i < (blockMovePerm shape.length p).length := by simpa [permuteShape] using h1
    have hlen := blockMovePerm_length h
    simp only [permuteShape, List.getElem_map, blockMovePerm_getElem h i hl]
    by_cases hi : i < shape.length - 1
    · rw [List.getElem_append_left (by simp [List.length_eraseIdx, h]; omega), List.getElem_eraseIdx]
      by_cases hp : i < p
      · simp [hp, List.getD_eq_getElem?_getD]; rw [List.getElem?_eq_getElem (by omega)]; rfl
      · simp [hp, hi, List.getD_eq_getElem?_getD]; rw [List.getElem?_eq_getElem (by omega)]; rfl
    · rw [List.getElem_append_right (by simp [List.length_eraseIdx, h]; omega)]
      have : ¬ i < p := by omega
      simp [hi, this, List.getD_eq_getElem?_getD]; rw [List.getElem?_eq_getElem h]; rfl

end LinOp.C01
