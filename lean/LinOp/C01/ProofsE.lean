import LinOp.C01.Model
/-!
C01 — helper lemmas (group E): batch broadcasting (`bcastRev`, `restrictRev`, `InBox`) for batch shapes of
arbitrary rank.  Pure `List`/`Nat` reasoning by induction on the shape lists.
-/
namespace LinOp.C01.E

open LinOp.C01

/-! ### `InBox` unfolding lemmas -/

@[simp] theorem inBox_nil_nil : InBox [] [] = True := rfl
@[simp] theorem inBox_cons_cons (a i : Nat) (s idx : List Nat) :
    InBox (a :: s) (i :: idx) = (i < a ∧ InBox s idx) := rfl
@[simp] theorem inBox_nil_cons (i : Nat) (idx : List Nat) : InBox [] (i :: idx) = False := rfl
@[simp] theorem inBox_cons_nil (a : Nat) (s : List Nat) : InBox (a :: s) [] = False := rfl

theorem inBox_nil_left {idx : List Nat} (h : InBox [] idx) : idx = [] := by
  cases idx with
  | nil => rfl
  | cons i idx => simp at h

theorem inBox_length : ∀ {s idx : List Nat}, InBox s idx → idx.length = s.length
  | [], [], _ => rfl
  | [], _ :: _, h => by simp at h
  | _ :: _, [], h => by simp at h
  | _ :: s, _ :: idx, h => by
    simp at h
    simp [inBox_length h.2]

theorem inBox_append : ∀ {s₁ i₁ s₂ i₂ : List Nat}, InBox s₁ i₁ → InBox s₂ i₂ → InBox (s₁ ++ s₂) (i₁ ++ i₂)
  | [], [], _, _, _, h₂ => by simpa using h₂
  | [], _ :: _, _, _, h₁, _ => by simp at h₁
  | _ :: _, [], _, _, h₁, _ => by simp at h₁
  | a :: s₁, i :: i₁, s₂, i₂, h₁, h₂ => by
    simp at h₁
    simp only [List.cons_append, inBox_cons_cons]
    exact ⟨h₁.1, inBox_append h₁.2 h₂⟩

theorem inBox_reverse_of : ∀ {s idx : List Nat}, InBox s idx → InBox s.reverse idx.reverse
  | [], [], _ => by simp
  | [], _ :: _, h => by simp at h
  | _ :: _, [], h => by simp at h
  | a :: s, i :: idx, h => by
    simp at h
    rw [List.reverse_cons, List.reverse_cons]
    refine inBox_append (inBox_reverse_of h.2) ?_
    simp [h.1]

/-- `InBox` is insensitive to reversing both lists. -/
theorem inBox_reverse_iff {s idx : List Nat} : InBox s.reverse idx.reverse ↔ InBox s idx := by
  constructor
  · intro h
    have := inBox_reverse_of h
    simpa using this
  · exact inBox_reverse_of

/-- index-wise characterisation of `InBox`. -/
theorem inBox_iff_getElem : ∀ {s idx : List Nat},
    InBox s idx ↔ idx.length = s.length ∧ ∀ k (h : k < idx.length) (h' : k < s.length), idx[k] < s[k]
  | [], [] => by simp
  | [], _ :: _ => by simp
  | _ :: _, [] => by simp
  | a :: s, i :: idx => by
    simp only [inBox_cons_cons, List.length_cons, Nat.add_right_cancel_iff]
    rw [inBox_iff_getElem (s := s) (idx := idx)]
    constructor
    · rintro ⟨hi, hl, hk⟩
      refine ⟨hl, ?_⟩
      intro k h h'
      cases k with
      | zero => simpa using hi
      | succ k =>
        simp only [List.getElem_cons_succ]
        exact hk k (by omega) (by omega)
    · rintro ⟨hl, hk⟩
      refine ⟨?_, hl, ?_⟩
      · simpa using hk 0 (by omega) (by omega)
      · intro k h h'
        exact hk (k + 1) (by omega) (by omega)

/-! ### `restrictRev` -/

@[simp] theorem restrictRev_nil (idx : List Nat) : restrictRev [] idx = [] := by
  cases idx <;> rfl
@[simp] theorem restrictRev_cons_nil (a : Nat) (s : List Nat) : restrictRev (a :: s) [] = [] := rfl
@[simp] theorem restrictRev_cons_cons (a i : Nat) (s idx : List Nat) :
    restrictRev (a :: s) (i :: idx) = (if a = 1 then 0 else i) :: restrictRev s idx := rfl

/-- an operand that already has the output shape reads its own member (size-1 dims force index 0). -/
theorem restrictRev_of_inBox : ∀ {s idx : List Nat}, InBox s idx → restrictRev s idx = idx
  | [], [], _ => by simp
  | [], _ :: _, h => by simp at h
  | _ :: _, [], h => by simp at h
  | a :: s, i :: idx, h => by
    simp at h
    rw [restrictRev_cons_cons, restrictRev_of_inBox h.2]
    by_cases ha : a = 1
    · have : i = 0 := by omega
      simp [ha, this]
    · simp [ha]

theorem restrictRev_length : ∀ (s idx : List Nat), (restrictRev s idx).length = min s.length idx.length
  | [], idx => by simp
  | _ :: _, [] => by simp
  | a :: s, i :: idx => by
    simp [restrictRev_length s idx, Nat.succ_min_succ]

/-! ### `bcastRev` -/

@[simp] theorem bcastRev_nil_left (t : List Nat) : bcastRev [] t = some t := by
  cases t <;> rfl
@[simp] theorem bcastRev_nil_right (s : List Nat) : bcastRev s [] = some s := by
  cases s <;> rfl
theorem bcastRev_cons_cons (a b : Nat) (s t : List Nat) :
    bcastRev (a :: s) (b :: t) =
      if a = b ∨ b = 1 then (bcastRev s t).map (a :: ·)
      else if a = 1 then (bcastRev s t).map (b :: ·)
      else none := rfl

theorem bcastRev_self : ∀ (s : List Nat), bcastRev s s = some s
  | [] => by simp
  | a :: s => by simp [bcastRev_cons_cons, bcastRev_self s]

theorem bcastRev_comm : ∀ (s t : List Nat), bcastRev s t = bcastRev t s
  | [], t => by simp
  | _ :: _, [] => by simp
  | a :: s, b :: t => by
    rw [bcastRev_cons_cons, bcastRev_cons_cons, bcastRev_comm s t]
    by_cases hab : a = b
    · subst hab; simp
    · by_cases hb : b = 1
      · subst hb
        have h1 : ¬ (1 : Nat) = a := fun h => hab h.symm
        simp [hab, h1]
      · by_cases ha : a = 1
        · subst ha
          simp [hab, hb]
        · have hba : ¬ b = a := fun h => hab h.symm
          simp [hab, hba, hb, ha]

theorem bcastRev_length : ∀ {s t out : List Nat}, bcastRev s t = some out → out.length = max s.length t.length
  | [], t, out, h => by
    simp at h; subst h; simp
  | a :: s, [], out, h => by
    simp at h; subst h; simp
  | a :: s, b :: t, out, h => by
    rw [bcastRev_cons_cons] at h
    split at h
    · obtain ⟨o, ho, rfl⟩ := Option.map_eq_some_iff.mp h
      simp [bcastRev_length ho, Nat.succ_max_succ]
    · split at h
      · obtain ⟨o, ho, rfl⟩ := Option.map_eq_some_iff.mp h
        simp [bcastRev_length ho, Nat.succ_max_succ]
      · cases h

/-- core soundness of `expand`: members of the broadcast box restrict to members of the operand boxes. -/
theorem bcastRev_restrict_inBox : ∀ {s t out idx : List Nat}, bcastRev s t = some out → InBox out idx →
    InBox s (restrictRev s idx) ∧ InBox t (restrictRev t idx)
  | [], t, out, idx, h, hb => by
    simp at h; subst h
    rw [restrictRev_of_inBox hb]
    exact ⟨by simp, hb⟩
  | a :: s, [], out, idx, h, hb => by
    simp at h; subst h
    rw [restrictRev_of_inBox hb]
    exact ⟨hb, by simp⟩
  | a :: s, b :: t, out, idx, h, hb => by
    rw [bcastRev_cons_cons] at h
    split at h
    · rename_i hc
      obtain ⟨o, ho, rfl⟩ := Option.map_eq_some_iff.mp h
      cases idx with
      | nil => simp at hb
      | cons i idx =>
        simp at hb
        have ih := bcastRev_restrict_inBox ho hb.2
        simp only [restrictRev_cons_cons, inBox_cons_cons]
        refine ⟨⟨?_, ih.1⟩, ⟨?_, ih.2⟩⟩
        · split <;> omega
        · split <;> omega
    · rename_i hc
      split at h
      · rename_i ha
        obtain ⟨o, ho, rfl⟩ := Option.map_eq_some_iff.mp h
        cases idx with
        | nil => simp at hb
        | cons i idx =>
          simp at hb
          have ih := bcastRev_restrict_inBox ho hb.2
          simp only [restrictRev_cons_cons, inBox_cons_cons]
          refine ⟨⟨?_, ih.1⟩, ⟨?_, ih.2⟩⟩
          · split <;> omega
          · split <;> omega
      · cases h

/-! ### un-reversed versions -/

theorem broadcastShape_eq_some {s t out : List Nat} :
    broadcastShape s t = some out ↔ bcastRev s.reverse t.reverse = some out.reverse := by
  unfold broadcastShape
  rw [Option.map_eq_some_iff]
  constructor
  · rintro ⟨o, ho, rfl⟩
    simpa using ho
  · intro h
    exact ⟨out.reverse, h, by simp⟩

theorem restrict_of_inBox {s idx : List Nat} (h : InBox s idx) : restrict s idx = idx := by
  unfold restrict
  rw [restrictRev_of_inBox (inBox_reverse_iff.mpr h)]
  simp

theorem restrict_inBox {s t out idx : List Nat} (h : broadcastShape s t = some out) (hb : InBox out idx) :
    InBox s (restrict s idx) ∧ InBox t (restrict t idx) := by
  have h' := broadcastShape_eq_some.mp h
  have := bcastRev_restrict_inBox h' (inBox_reverse_iff.mpr hb)
  unfold restrict
  constructor
  · have h1 := inBox_reverse_of this.1
    simpa using h1
  · have h2 := inBox_reverse_of this.2
    simpa using h2

end LinOp.C01.E
