import LinOp.C01.Model
import LinOp.Core.Bridge
import Mathlib.Algebra.BigOperators.Fin
import Mathlib.Algebra.BigOperators.Ring.Finset
import Mathlib.Data.Matrix.Mul
import Mathlib.LinearAlgebra.Matrix.Kronecker
import Mathlib.Logic.Equiv.Fin.Basic
import Mathlib.Tactic.Ring
/-!
C01 — helper lemmas for the index-arithmetic theorems (part A): div/mod/pair round trips, splitting a sum
over `Fin (a*b)` into a double sum, and unfolding lemmas for `Mat.mul`.
-/
namespace LinOp.C01
open LinOp

variable {α : Type}

/-! ## index arithmetic -/

@[simp] theorem divIdx_pairIdx {a b : Nat} (i : Fin a) (j : Fin b) : divIdx (pairIdx i j) = i := by
  apply Fin.ext
  show (i.1 * b + j.1) / b = i.1
  have hb : 0 < b := Nat.lt_of_le_of_lt (Nat.zero_le _) j.2
  rw [Nat.add_comm, Nat.add_mul_div_right _ _ hb, Nat.div_eq_of_lt j.2, Nat.zero_add]

@[simp] theorem modIdx_pairIdx {a b : Nat} (i : Fin a) (j : Fin b) : modIdx (pairIdx i j) = j := by
  apply Fin.ext
  show (i.1 * b + j.1) % b = j.1
  rw [Nat.mul_comm, Nat.mul_add_mod, Nat.mod_eq_of_lt j.2]

@[simp] theorem pairIdx_divIdx_modIdx {a b : Nat} (k : Fin (a * b)) : pairIdx (divIdx k) (modIdx k) = k := by
  apply Fin.ext
  show k.1 / b * b + k.1 % b = k.1
  exact Nat.div_add_mod' _ _

theorem pairIdx_eq_finProdFinEquiv {a b : Nat} (i : Fin a) (j : Fin b) :
    pairIdx i j = finProdFinEquiv (i, j) := by
  apply Fin.ext
  show i.1 * b + j.1 = j.1 + b * i.1
  rw [Nat.add_comm, Nat.mul_comm]

theorem pairIdx_inj {a b : Nat} {i i' : Fin a} {j j' : Fin b} :
    pairIdx i j = pairIdx i' j' ↔ i = i' ∧ j = j' := by
  constructor
  · intro h
    have h1 := congrArg divIdx h
    have h2 := congrArg modIdx h
    simp only [divIdx_pairIdx, modIdx_pairIdx] at h1 h2
    exact ⟨h1, h2⟩
  · rintro ⟨rfl, rfl⟩; rfl

/-- a sum over a flat row-major index is the double sum over its two coordinates. -/
theorem sum_pairIdx [AddCommMonoid α] {a b : Nat} (g : Fin (a * b) → α) :
    ∑ k : Fin (a * b), g k = ∑ i : Fin a, ∑ j : Fin b, g (pairIdx i j) := by
  rw [← finProdFinEquiv.sum_comp g, Fintype.sum_prod_type]
  refine Finset.sum_congr rfl fun i _ => Finset.sum_congr rfl fun j _ => ?_
  rw [pairIdx_eq_finProdFinEquiv]

/-- the same, with the roles of the coordinates swapped in the summation order. -/
theorem sum_pairIdx' [AddCommMonoid α] {a b : Nat} (g : Fin (a * b) → α) :
    ∑ k : Fin (a * b), g k = ∑ j : Fin b, ∑ i : Fin a, g (pairIdx i j) := by
  rw [sum_pairIdx, Finset.sum_comm]

/-- `Mat.mul` entrywise as a `Finset` sum. -/
theorem mul_apply [NonUnitalNonAssocSemiring α] {n k m : Nat} (A : Mat α n k) (B : Mat α k m)
    (i : Fin n) (j : Fin m) : Mat.mul A B i j = ∑ l, A i l * B l j := by
  simp only [Mat.mul, tab_eq, sumFin_eq_sum]

/-! ## Kronecker loop -/

/-- one loop iteration at row `y * m + d` (`d < m`): row `d` of the factor applied to the strided column `y`. -/
theorem kronStep_apply [CommSemiring α] {c : Nat} (f : Factor α) (R : Nat) (res : Nat → Fin c → α)
    (y d : Nat) (hd : d < f.m) (col : Fin c) :
    kronStep f R res (y * f.m + d) col = ∑ a : Fin f.n, f.A ⟨d, hd⟩ a * res (a.1 * (R / f.n) + y) col := by
  have hm : 0 < f.m := Nat.lt_of_le_of_lt (Nat.zero_le _) hd
  have h1 : (y * f.m + d) % f.m = d := by
    rw [Nat.mul_comm, Nat.mul_add_mod, Nat.mod_eq_of_lt hd]
  have h2 : (y * f.m + d) / f.m = y := by
    rw [Nat.add_comm, Nat.add_mul_div_right _ _ hm, Nat.div_eq_of_lt hd, Nat.zero_add]
  simp only [kronStep, dif_pos hm, sumFin_eq_sum, h1, h2]

theorem kronDense_cons_apply [CommSemiring α] (f : Factor α) (fs : List (Factor α))
    (i : Fin (f.m * rowsProd fs)) (j : Fin (f.n * colsProd fs)) :
    kronDense (f :: fs) i j = f.A (divIdx i) (divIdx j) * kronDense fs (modIdx i) (modIdx j) := rfl

/-- the loop invariant of `kronLoop` (see `kronLoop_spec` in `PropsA`). -/
theorem kronLoop_inv [CommSemiring α] {c : Nat} (fs : List (Factor α)) (hpos : ∀ f ∈ fs, 0 < f.n)
    (q : Nat) (res : Nat → Fin c → α) :
    (kronLoop fs (colsProd fs * q) res).1 = q * rowsProd fs ∧
    ∀ b, b < q → ∀ (i : Fin (rowsProd fs)) (col : Fin c),
      (kronLoop fs (colsProd fs * q) res).2 (b * rowsProd fs + i.1) col
        = ∑ j : Fin (colsProd fs), kronDense fs i j * res (j.1 * q + b) col := by
  induction fs generalizing q res with
  | nil =>
    refine ⟨by simp only [kronLoop, colsProd, rowsProd, Nat.one_mul, Nat.mul_one], ?_⟩
    intro b _ i col
    have hi : i.1 = 0 := by have := i.2; simp only [rowsProd] at this; omega
    show res (b * 1 + i.1) col = ∑ j : Fin 1, 1 * res (j.1 * q + b) col
    simp only [hi, Finset.univ_unique, Finset.sum_singleton, Fin.default_eq_zero, Fin.val_zero,
      Nat.zero_mul, Nat.zero_add, Nat.mul_one, Nat.add_zero, one_mul]
  | cons f fs ih =>
    have hn : 0 < f.n := hpos f List.mem_cons_self
    have hfs : ∀ g ∈ fs, 0 < g.n := fun g hg => hpos g (List.mem_cons_of_mem _ hg)
    have hdiv : colsProd (f :: fs) * q / f.n = colsProd fs * q := by
      simp only [colsProd]; rw [Nat.mul_assoc, Nat.mul_div_cancel_left _ hn]
    have hR : kronStepRows f (colsProd (f :: fs) * q) = colsProd fs * (q * f.m) := by
      simp only [kronStepRows, hdiv, Nat.mul_assoc]
    have hstep : kronLoop (f :: fs) (colsProd (f :: fs) * q) res
        = kronLoop fs (colsProd fs * (q * f.m)) (kronStep f (colsProd (f :: fs) * q) res) := by
      rw [← hR]; rfl
    rw [hstep]
    obtain ⟨ih1, ih2⟩ := ih hfs (q * f.m) (kronStep f (colsProd (f :: fs) * q) res)
    refine ⟨by rw [ih1]; simp only [rowsProd, Nat.mul_assoc], ?_⟩
    intro b hb i col
    let i' : Fin (f.m * rowsProd fs) := i
    have hd : (divIdx i').1 < f.m := (divIdx i').2
    have hidx : b * rowsProd (f :: fs) + i.1
        = (b * f.m + (divIdx i').1) * rowsProd fs + (modIdx i').1 := by
      show b * (f.m * rowsProd fs) + i.1
        = (b * f.m + i.1 / rowsProd fs) * rowsProd fs + i.1 % rowsProd fs
      rw [Nat.add_mul, Nat.mul_assoc, Nat.add_assoc, Nat.div_add_mod']
    have hb' : b * f.m + (divIdx i').1 < q * f.m := pair_lt ⟨b, hb⟩ (divIdx i')
    rw [hidx, ih2 _ hb' (modIdx i') col]
    refine Eq.trans ?_ (sum_pairIdx' (a := f.n) (b := colsProd fs)
      (fun j => kronDense (f :: fs) i j * res (j.1 * q + b) col)).symm
    refine Finset.sum_congr rfl fun j' _ => ?_
    have harg : j'.1 * (q * f.m) + (b * f.m + (divIdx i').1) = (j'.1 * q + b) * f.m + (divIdx i').1 := by
      ring
    rw [harg, kronStep_apply f _ res _ _ hd, hdiv, Finset.mul_sum]
    refine Finset.sum_congr rfl fun a _ => ?_
    have harg2 : a.1 * (colsProd fs * q) + (j'.1 * q + b) = (pairIdx a j').1 * q + b := by
      show _ = (a.1 * colsProd fs + j'.1) * q + b
      ring
    rw [harg2, kronDense_cons_apply f fs i' (pairIdx a j'), divIdx_pairIdx, modIdx_pairIdx]
    ring

/-! ## transposed Kronecker product -/

theorem kronTranspose_cons (f : Factor α) (fs : List (Factor α)) :
    kronTranspose (f :: fs) = ⟨f.n, f.m, Mat.transpose f.A⟩ :: kronTranspose fs := rfl

theorem rowsProd_kronTranspose (fs : List (Factor α)) : rowsProd (kronTranspose fs) = colsProd fs := by
  induction fs with
  | nil => rfl
  | cons f fs ih => rw [kronTranspose_cons]; simp only [rowsProd, colsProd, ih]

theorem colsProd_kronTranspose (fs : List (Factor α)) : colsProd (kronTranspose fs) = rowsProd fs := by
  induction fs with
  | nil => rfl
  | cons f fs ih => rw [kronTranspose_cons]; simp only [rowsProd, colsProd, ih]

/-- entry `(i, j)` of the Kronecker product of the transposed factors is entry `(j, i)` of the original
(indices compared by value, since the index types differ propositionally). -/
theorem kronTranspose_dense_heq [CommSemiring α] (fs : List (Factor α))
    (i : Fin (rowsProd (kronTranspose fs))) (j : Fin (colsProd (kronTranspose fs)))
    (i' : Fin (rowsProd fs)) (j' : Fin (colsProd fs)) (hi : i.1 = j'.1) (hj : j.1 = i'.1) :
    kronDense (kronTranspose fs) i j = kronDense fs i' j' := by
  induction fs with
  | nil => rfl
  | cons f fs ih =>
    let a : Fin (f.n * rowsProd (kronTranspose fs)) := i
    let b : Fin (f.m * colsProd (kronTranspose fs)) := j
    let a' : Fin (f.m * rowsProd fs) := i'
    let b' : Fin (f.n * colsProd fs) := j'
    show Mat.transpose f.A (divIdx a) (divIdx b) * kronDense (kronTranspose fs) (modIdx a) (modIdx b)
      = f.A (divIdx a') (divIdx b') * kronDense fs (modIdx a') (modIdx b')
    have h1 : divIdx a = divIdx b' := by
      apply Fin.ext
      show i.1 / rowsProd (kronTranspose fs) = j'.1 / colsProd fs
      rw [hi, rowsProd_kronTranspose]
    have h2 : divIdx b = divIdx a' := by
      apply Fin.ext
      show j.1 / colsProd (kronTranspose fs) = i'.1 / rowsProd fs
      rw [hj, colsProd_kronTranspose]
    have h3 : (modIdx a).1 = (modIdx b').1 := by
      show i.1 % rowsProd (kronTranspose fs) = j'.1 % colsProd fs
      rw [hi, rowsProd_kronTranspose]
    have h4 : (modIdx b).1 = (modIdx a').1 := by
      show j.1 % colsProd (kronTranspose fs) = i'.1 % rowsProd fs
      rw [hj, colsProd_kronTranspose]
    rw [ih (modIdx a) (modIdx b) (modIdx a') (modIdx b') h3 h4, Mat.transpose, h1, h2]

/-! ## degenerate factors (`n = 0`): the model's loop returns zero, as does the dense product -/

theorem kronStep_zero [CommSemiring α] {c : Nat} (f : Factor α) (R : Nat) :
    kronStep f R (fun _ (_ : Fin c) => (0 : α)) = fun _ _ => 0 := by
  funext i col
  unfold kronStep
  split
  · simp only [sumFin_eq_sum, mul_zero, Finset.sum_const_zero]
  · rfl

theorem kronLoop_zero [CommSemiring α] {c : Nat} (fs : List (Factor α)) (R : Nat) :
    (kronLoop fs R (fun _ (_ : Fin c) => (0 : α))).2 = fun _ _ => 0 := by
  induction fs generalizing R with
  | nil => rfl
  | cons f fs ih =>
    show (kronLoop fs (kronStepRows f R) (kronStep f R _)).2 = _
    rw [kronStep_zero, ih]

theorem kronLoop_of_empty_factor [CommSemiring α] {c : Nat} (fs : List (Factor α))
    (h : ∃ f ∈ fs, f.n = 0) (R : Nat) (res : Nat → Fin c → α) :
    (kronLoop fs R res).2 = fun _ _ => 0 := by
  induction fs generalizing R res with
  | nil => obtain ⟨f, hf, _⟩ := h; cases hf
  | cons f fs ih =>
    show (kronLoop fs (kronStepRows f R) (kronStep f R res)).2 = _
    by_cases hn : f.n = 0
    · have hz : kronStep f R res = fun _ _ => 0 := by
        funext i col
        unfold kronStep
        split
        · rw [sumFin_eq_sum]
          exact Finset.sum_eq_zero fun a _ => False.elim (by have := a.2; omega)
        · rfl
      rw [hz, kronLoop_zero]
    · obtain ⟨g, hg, hg0⟩ := h
      rcases List.mem_cons.1 hg with rfl | hg'
      · exact absurd hg0 hn
      · exact ih ⟨g, hg', hg0⟩ _ _

theorem colsProd_of_empty_factor (fs : List (Factor α)) (h : ∃ f ∈ fs, f.n = 0) : colsProd fs = 0 := by
  induction fs with
  | nil => obtain ⟨f, hf, _⟩ := h; cases hf
  | cons f fs ih =>
    obtain ⟨g, hg, hg0⟩ := h
    rcases List.mem_cons.1 hg with rfl | hg'
    · simp only [colsProd, hg0, Nat.zero_mul]
    · simp only [colsProd, ih ⟨g, hg', hg0⟩, Nat.mul_zero]

end LinOp.C01
