import LinOp.C01.OpTree
/-!
C01 — batched / broadcast versions of the structured multiplication code (core Lean only).
A batched matrix is `BMat α n m = List Nat → Mat α n m` (one matrix per batch multi-index); broadcasting is the index
projection `restrict` (Model.lean).  For the block classes a batch dimension of the base operator IS the block
dimension: the base has batch shape `sA ++ [k]` (the constructor moves the block dim last, see BlockDim.lean).
-/
namespace LinOp.C01
variable {α : Type}

section
variable [Add α] [Mul α] [Zero α]

/-- `BlockDiagLinearOperator._add_batch_dim` on a batched rhs: `(*sB, k*m, c)` viewed as `(*sB, k, m, c)`:
member `j = idx ++ [b]` of the result is block `b` of member `idx`. -/
def addBlockDiagB {m c : Nat} (k : Nat) (X : BMat α (k * m) c) : BMat α m c := fun j =>
  if h : j.getLastD 0 < k then blockDiagAdd (X j.dropLast) ⟨j.getLastD 0, h⟩ else fun _ _ => 0

/-- `BlockDiagLinearOperator._remove_batch_dim`: merge the trailing batch dim back into the rows. -/
def removeBlockDiagB {m c : Nat} (k : Nat) (T : BMat α m c) : BMat α (k * m) c := fun idx =>
  blockDiagRemove (fun b => T (idx ++ [b.1]))

def addBlockInterB {m c : Nat} (k : Nat) (X : BMat α (m * k) c) : BMat α m c := fun j =>
  if h : j.getLastD 0 < k then blockInterAdd (X j.dropLast) ⟨j.getLastD 0, h⟩ else fun _ _ => 0

def removeBlockInterB {m c : Nat} (k : Nat) (T : BMat α m c) : BMat α (m * k) c := fun idx =>
  blockInterRemove (fun b => T (idx ++ [b.1]))

/-- `SumBatchLinearOperator._add_batch_dim`: `reshape(*sB, 1, n, c).expand(*sB, k, n, c)`. -/
def addSumBatchB {n c : Nat} (X : BMat α n c) : BMat α n c := fun j => X j.dropLast

/-- `SumBatchLinearOperator._remove_batch_dim`: `sum(-3)`. -/
def removeSumBatchB {m c : Nat} (k : Nat) (T : BMat α m c) : BMat α m c := fun idx =>
  sumBatchRemove (k := k) (fun b => T (idx ++ [b.1]))

/-- `BlockLinearOperator._matmul` with batch dims: `_add_batch_dim`, the BASE's batched matmul (which broadcasts the
base batch `sA ++ [k]` against the rhs batch `sB ++ [k]`), `_remove_batch_dim`. -/
def blockDiagMatmulB {m n c : Nat} (k : Nat) (sA : List Nat) (base : BMat α m n) (sB : List Nat) (X : BMat α (k * n) c) :
    BMat α (k * m) c :=
  removeBlockDiagB k (matmulBroadcast Mat.mul (sA ++ [k]) base (sB ++ [k]) (addBlockDiagB k X))

def blockInterMatmulB {m n c : Nat} (k : Nat) (sA : List Nat) (base : BMat α m n) (sB : List Nat) (X : BMat α (n * k) c) :
    BMat α (m * k) c :=
  removeBlockInterB k (matmulBroadcast Mat.mul (sA ++ [k]) base (sB ++ [k]) (addBlockInterB k X))

def sumBatchMatmulB {m n c : Nat} (k : Nat) (sA : List Nat) (base : BMat α m n) (sB : List Nat) (X : BMat α n c) :
    BMat α m c :=
  removeSumBatchB k (matmulBroadcast Mat.mul (sA ++ [k]) base (sB ++ [k]) (addSumBatchB X))

/-- dense semantics of a batched block operator: member `idx` is built from the base members `idx ++ [b]`. -/
def blockDiagDenseB {m n : Nat} (k : Nat) (base : BMat α m n) : BMat α (k * m) (k * n) := fun idx =>
  blockDiagDense (fun b : Fin k => base (idx ++ [b.1]))
def blockInterDenseB {m n : Nat} (k : Nat) (base : BMat α m n) : BMat α (m * k) (n * k) := fun idx =>
  blockInterDense (fun b : Fin k => base (idx ++ [b.1]))
def sumBatchDenseB {m n : Nat} (k : Nat) (base : BMat α m n) : BMat α m n := fun idx =>
  sumBatchDense (fun b : Fin k => base (idx ++ [b.1]))

/-- A batched operator TREE (every member a tree of the same outer sizes — e.g. a Kronecker product whose factors
were expanded to the common batch shape by the constructor) times a batched rhs: both are expanded to the broadcast
batch shape and the structured code runs per member. -/
def treeMatmulB [One α] {n m c : Nat} (sA : List Nat) (t : List Nat → Op α n m) (sB : List Nat) (X : BMat α m c) : BMat α n c :=
  fun idx => (t (restrict sA idx)).eval.mm (X (restrict sB idx))

/-- the same for `_t_matmul` / `op.mT @ Y` and for `Y @ op` (`rmatmul`: `self.mT.matmul(other.mT).mT`, member by member). -/
def treeTMatmulB [One α] {n m c : Nat} (sA : List Nat) (t : List Nat → Op α n m) (sB : List Nat) (Y : BMat α n c) : BMat α m c :=
  fun idx => (t (restrict sA idx)).eval.tmm (Y (restrict sB idx))
def treeRmatmulB [One α] {n m p : Nat} (sA : List Nat) (t : List Nat → Op α n m) (sB : List Nat) (Y : BMat α p n) : BMat α p m :=
  fun idx => rmatmul (t (restrict sA idx)).eval (Y (restrict sB idx))

/-- `CatLinearOperator._matmul`, concatenation along batch position `d` (`cat_dim < -2`): the rhs (already expanded
to the output batch shape) is narrowed to the slice of each operand along that dim, multiplied, and the results are
concatenated along it.  `a₁` = size of the first operand along `d`. -/
def catBatchMatmul {n m c : Nat} (d a₁ : Nat) (A₁ A₂ : BMat α n m) (X : BMat α m c) : BMat α n c := fun idx =>
  if idx.getD d 0 < a₁ then
    -- member of `t₁._matmul(rhs.narrow(d, 0, a₁))`
    Mat.mul (A₁ idx) (X idx)
  else
    -- member `idx[d] - a₁` of `t₂._matmul(rhs.narrow(d, a₁, a₂))`; narrow shifts the index back by `a₁`
    Mat.mul (A₂ (idx.set d (idx.getD d 0 - a₁))) (X ((idx.set d (idx.getD d 0 - a₁)).set d ((idx.set d (idx.getD d 0 - a₁)).getD d 0 + a₁)))

/-- dense semantics of `torch.cat([A₁, A₂], dim=d)` on the batch position `d`. -/
def catBatchDense {n m : Nat} (d a₁ : Nat) (A₁ A₂ : BMat α n m) : BMat α n m := fun idx =>
  if idx.getD d 0 < a₁ then A₁ idx else A₂ (idx.set d (idx.getD d 0 - a₁))

end
end LinOp.C01
