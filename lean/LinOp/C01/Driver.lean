import LinOp.Core.Parse
import LinOp.C01.Model
import LinOp.C01.BlockDim
/-! Line-protocol driver for the C01 model.  One case per line: `<cmd> <args…>`; matrices travel as
`r1c1,r1c2;r2c1,…`, stacks of matrices as several words.  Output: one canonical line. -/
open LinOp LinOp.C01 LinOp.Parse

abbrev A2 := Array (Array Rat)

def rowsOf (a : A2) : Nat := a.size
def colsOf (a : A2) : Nat := if h : 0 < a.size then a[0].size else 0
def matOf (a : A2) : Mat Rat (rowsOf a) (colsOf a) := Mat.ofArrays _ _ a
def matAs (n m : Nat) (a : A2) : Mat Rat n m := Mat.ofArrays n m a
def showM {n m : Nat} (M : Mat Rat n m) : String := showMat (Mat.toLists M)
def showT {k n m : Nat} (T : Ten3 Rat k n m) : String :=
  " | ".intercalate ((List.finRange k).map fun b => showM (T b))
def ten3Of (k n m : Nat) (l : List A2) : Ten3 Rat k n m := fun b => matAs n m (l.getD b.1 #[])
def toFin (n : Nat) (h : 0 < n) (v : Nat) : Fin n := ⟨v % n, Nat.mod_lt _ h⟩
def natOf (r : Rat) : Nat := r.num.toNat
def idxOf (n K nb : Nat) (h : 0 < nb) (a : A2) : Fin n → Fin K → Fin nb :=
  fun r k => toFin nb h (natOf ((a[r.1]!)[k.1]!))
def vecOf (n : Nat) (a : A2) : Fin n → Rat := fun i => (a[0]!)[i.1]!
def maskOf (n : Nat) (a : A2) : Fin n → Bool := fun i => (a[0]!)[i.1]! != 0
def factorOf (a : A2) : Factor Rat := ⟨rowsOf a, colsOf a, matOf a⟩

def mats (ws : List String) : Option (List A2) := ws.mapM parseMat?

/-- states handed to each factor's `_matmul` in the Kronecker loop (flattened), then the final state. -/
def kronTrace {c : Nat} : List (Factor Rat) → Nat → (Nat → Fin c → Rat) → List String
  | [], R, res => [showM (fun (i : Fin R) col => res i.1 col)]
  | f :: fs, R, res => showM (fun (i : Fin R) col => res i.1 col) :: kronTrace fs (kronStepRows f R) (kronStep f R res)

/-- states handed to each factor's `_t_matmul` in the Kronecker `_t_matmul` loop (flattened), then the final state. -/
def kronTTrace {c : Nat} : List (Factor Rat) → Nat → (Nat → Fin c → Rat) → List String
  | [], R, res => [showM (fun (i : Fin R) col => res i.1 col)]
  | f :: fs, R, res => showM (fun (i : Fin R) col => res i.1 col) :: kronTTrace fs (kronTStepRows f R) (kronTStep f R res)

def showShape (o : Option (List Nat)) : String :=
  match o with
  | none => "error"
  | some l => showList toString l

def run (ws : List String) : String :=
  match ws with
  | ["blockperm", nb, bd] =>
    match nb.toNat?, bd.toInt? with
    | some nb, some bd => showList toString (blockMovePerm nb (blockDimPos nb bd).toNat)
    | _, _ => "bad"
  | ["bshape", a, b] =>
    match parseNats? a, parseNats? b with
    | some sa, some sb => showShape (broadcastShape sa sb)
    | _, _ => "bad"
  | ["mshape", a, m, n, b, n', p] =>
    match parseNats? a, m.toNat?, n.toNat?, parseNats? b, n'.toNat?, p.toNat? with
    | some sa, some m, some n, some sb, some n', some p => showShape (matmulShape sa m n sb n' p)
    | _, _, _, _, _, _ => "bad"
  | ["mshapevec", a, m, n, p] =>
    match parseNats? a, m.toNat?, n.toNat?, p.toNat? with
    | some sa, some m, some n, some p => showShape (matmulShapeVec sa m n p)
    | _, _, _, _ => "bad"
  | ["brestrict", a, i] =>
    match parseNats? a, parseNats? i with
    | some sa, some idx => showList toString (restrict sa idx)
    | _, _ => "bad"
  | "kronttrace" :: x :: fsw =>
    match parseMat? x, mats fsw with
    | some xa, some fa =>
      let fs := fa.map factorOf
      let Y := matAs (rowsProd fs) (colsOf xa) xa
      " | ".intercalate (kronTTrace fs (rowsProd fs) (fun i col => if h : i < rowsProd fs then Y ⟨i, h⟩ col else 0))
    | _, _ => "bad"
  | "kron" :: x :: fsw =>
    match parseMat? x, mats fsw with
    | some xa, some fa =>
      let fs := fa.map factorOf
      showM (kronMatmul fs (matAs (colsProd fs) (colsOf xa) xa))
    | _, _ => "bad"
  | "kront" :: x :: fsw =>
    match parseMat? x, mats fsw with
    | some xa, some fa =>
      let fs := fa.map factorOf
      showM (kronTMatmulLoop fs (matAs (rowsProd fs) (colsOf xa) xa))
    | _, _ => "bad"
  | "krondense" :: fsw =>
    match mats fsw with
    | some fa => showM (kronDense (fa.map factorOf))
    | _ => "bad"
  | "krontrace" :: x :: fsw =>
    match parseMat? x, mats fsw with
    | some xa, some fa =>
      let fs := fa.map factorOf
      let X := matAs (colsProd fs) (colsOf xa) xa
      " | ".intercalate (kronTrace fs (colsProd fs) (fun i col => if h : i < colsProd fs then X ⟨i, h⟩ col else 0))
    | _, _ => "bad"
  | "bdiag" :: x :: bw | "binter" :: x :: bw | "sumbatch" :: x :: bw =>
    match parseMat? x, mats bw with
    | some xa, some (b0 :: bs) =>
      let k := bs.length + 1; let m := rowsOf b0; let n := colsOf b0; let c := colsOf xa
      let B := ten3Of k m n (b0 :: bs)
      if ws.head! = "bdiag" then showM (blockDiagMatmul B (matAs (k * n) c xa)) ++ " # " ++ showM (blockDiagDense B)
      else if ws.head! = "binter" then showM (blockInterMatmul B (matAs (n * k) c xa)) ++ " # " ++ showM (blockInterDense B)
      else showM (sumBatchMatmul B (matAs n c xa)) ++ " # " ++ showM (sumBatchDense B)
    | _, _ => "bad"
  | ["bdadd", k, x] | ["biadd", k, x] =>
    match k.toNat?, parseMat? x with
    | some k, some xa =>
      let m := rowsOf xa / k; let c := colsOf xa
      if ws.head! = "bdadd" then showT (blockDiagAdd (k := k) (m := m) (matAs (k * m) c xa))
      else showT (blockInterAdd (k := k) (m := m) (matAs (m * k) c xa))
    | _, _ => "bad"
  | "bdrem" :: tw | "birem" :: tw =>
    match mats tw with
    | some (t0 :: ts) =>
      let k := ts.length + 1; let m := rowsOf t0; let c := colsOf t0
      let T := ten3Of k m c (t0 :: ts)
      if ws.head! = "bdrem" then showM (blockDiagRemove T) else showM (blockInterRemove T)
    | _ => "bad"
  | "brep" :: r :: b :: rest =>
    match r.toNat?, b.toNat?, mats rest with
    | some r, some b, some ms =>
      match ms.take b, ms.drop b with
      | b0 :: bs, x0 :: xs =>
        let n := rowsOf b0; let c := colsOf x0
        let B := ten3Of b n n (b0 :: bs); let X := ten3Of (r * b) n c (x0 :: xs)
        showT (batchRepeatMatmul B X) ++ " # " ++ showT (repeatToColumns X)
      | _, _ => "bad"
    | _, _, _ => "bad"
  | "brepback" :: r :: tw =>
    match r.toNat?, mats tw with
    | some r, some (t0 :: ts) =>
      let b := ts.length + 1; let n := rowsOf t0; let c := colsOf t0 / r
      showT (repeatBack (r := r) (c := c) (ten3Of b n (c * r) (t0 :: ts)))
    | _, _ => "bad"
  | ["catrows", x, a, b] =>
    match parseMat? x, parseMat? a, parseMat? b with
    | some xa, some aa, some ba =>
      let n := colsOf aa
      showM (catRowsMatmul (matAs (rowsOf aa) n aa) (matAs (rowsOf ba) n ba) (matAs n (colsOf xa) xa))
    | _, _, _ => "bad"
  | "catcols" :: x :: bw =>
    match parseMat? x, mats bw with
    | some xa, some (b0 :: bs) =>
      let n := rowsOf b0
      let blocks : List (ColBlock Rat n) := (b0 :: bs).map fun a => ⟨colsOf a, matAs n (colsOf a) a⟩
      showM (catColsMatmul blocks (matAs (totalCols blocks) (colsOf xa) xa)) ++ " # " ++ showM (catColsDense blocks)
    | _, _ => "bad"
  | ["masked", base, rm, cm, x] =>
    match parseMat? base, parseMat? rm, parseMat? cm, parseMat? x with
    | some ba, some ra, some ca, some xa =>
      let N := rowsOf ba; let M := colsOf ba
      let rmask := maskOf N ra; let cmask := maskOf M ca
      showM (maskedMatmul (matOf ba) rmask cmask (matAs _ (colsOf xa) xa)) ++ " # " ++ showM (maskedDense (matOf ba) rmask cmask)
    | _, _, _, _ => "bad"
  | ["mexpand", mk, x] =>
    match parseMat? mk, parseMat? x with
    | some ma, some xa => showM (maskExpand (maskOf (colsOf ma) ma) (matAs _ (colsOf xa) xa))
    | _, _ => "bad"
  | ["perm", p, x] =>
    match parseMat? p, parseMat? x with
    | some pa, some xa =>
      let n := rowsOf xa
      if h : 0 < n then
        showM (permMatmul (fun i => toFin n h (natOf ((pa[0]!)[i.1]!))) (matOf xa))
      else "bad"
    | _, _ => "bad"
  | ["tperm", m, x] =>
    match m.toNat?, parseMat? x with
    | some m, some xa => showM (transposePermMatmul (m := m) (matAs (m * m) (colsOf xa) xa)) ++ " # " ++ showM (transposePermDense (α := Rat) (m := m))
    | _, _ => "bad"
  | ["interp", base, li, lv, ri, rv, x] =>
    match parseMat? base, parseMat? li, parseMat? lv, parseMat? ri, parseMat? rv, parseMat? x with
    | some ba, some lia, some lva, some ria, some rva, some xa =>
      let nb := rowsOf ba; let nb' := colsOf ba
      if h : 0 < nb ∧ 0 < nb' then
        let n := rowsOf lva; let K := colsOf lva; let n' := rowsOf rva; let K' := colsOf rva
        let lidx := idxOf n K nb h.1 lia; let ridx := idxOf n' K' nb' h.2 ria
        let X := matAs n' (colsOf xa) xa
        showM (interpMatmul (matOf ba) lidx (matAs n K lva) ridx (matAs n' K' rva) X) ++ " # " ++
        showM (interpMatmulSparse (matOf ba) lidx (matAs n K lva) ridx (matAs n' K' rva) X) ++ " # " ++
        showM (interpDense (matOf ba) lidx (matAs n K lva) ridx (matAs n' K' rva))
      else "bad"
    | _, _, _, _, _, _ => "bad"
  | ["linterp", li, lv, x] =>
    match parseMat? li, parseMat? lv, parseMat? x with
    | some lia, some lva, some xa =>
      let nb := rowsOf xa
      if h : 0 < nb then
        showM (leftInterp (idxOf (rowsOf lva) (colsOf lva) nb h lia) (matOf lva) (matOf xa))
      else "bad"
    | _, _, _ => "bad"
  | ["ltinterp", nb, li, lv, x] =>
    match nb.toNat?, parseMat? li, parseMat? lv, parseMat? x with
    | some nb, some lia, some lva, some xa =>
      if h : 0 < nb then
        showM (leftTInterp (idxOf (rowsOf lva) (colsOf lva) nb h lia) (matOf lva) (matAs (rowsOf lva) (colsOf xa) xa))
      else "bad"
    | _, _, _, _ => "bad"
  | ["toep", c, x] =>
    match parseMat? c, parseMat? x with
    | some ca, some xa =>
      let n := colsOf ca
      let col := vecOf n ca
      showM (toeplitzMatmul col col (matAs n (colsOf xa) xa)) ++ " # " ++ showM (toeplitzDense col col)
    | _, _ => "bad"
  | ["mulroots", l, b, x] =>
    match parseMat? l, parseMat? b, parseMat? x with
    | some la, some ba, some xa =>
      let n := rowsOf la
      showM (mulRootsMatmul (matOf la) (matAs n n ba) (matAs n (colsOf xa) xa))
    | _, _, _ => "bad"
  | ["addeddiag", a, d, x] =>
    match parseMat? a, parseMat? d, parseMat? x with
    | some aa, some da, some xa =>
      let n := rowsOf aa
      showM (addedDiagMatmul (matAs n n aa) (vecOf n da) (matAs n (colsOf xa) xa))
    | _, _, _ => "bad"
  | ["diag", d, x] =>
    match parseMat? d, parseMat? x with
    | some da, some xa => let n := rowsOf xa; showM (diagMatmul (vecOf n da) (matOf xa))
    | _, _ => "bad"
  | ["root", r, x] =>
    match parseMat? r, parseMat? x with
    | some ra, some xa => showM (rootMatmul (matOf ra) (matAs (rowsOf ra) (colsOf xa) xa)) ++ " # " ++ showM (rootDense (matOf ra))
    | _, _ => "bad"
  | ["chol", r, up, x] =>
    match parseMat? r, parseMat? x with
    | some ra, some xa =>
      let n := rowsOf ra
      showM (cholMatmul (matAs n n ra) (up = "1") (matAs n (colsOf xa) xa)) ++ " # " ++ showM (cholDense (matAs n n ra) (up = "1"))
    | _, _ => "bad"
  | ["cmul", a, k, x] =>
    match parseMat? a, parseRat? k, parseMat? x with
    | some aa, some k, some xa => showM (constMulMatmul (matOf aa) k (matAs (colsOf aa) (colsOf xa) xa))
    | _, _, _ => "bad"
  | ["todense", d] =>
    match parseMat? d with
    | some da => showM (toDenseDefault (UserOp.ofDense (matOf da)))
    | _ => "bad"
  | ["rmatmul", d, y] =>
    match parseMat? d, parseMat? y with
    | some da, some ya => showM (rmatmul (UserOp.ofDense (matOf da)) (matAs (rowsOf ya) (rowsOf da) ya))
    | _, _ => "bad"
  | _ => "bad-op"

def main : IO Unit := do
  loop (← IO.getStdin) () fun _ line => ((), run (words line))
