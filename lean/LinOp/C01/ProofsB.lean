import LinOp.C01.Model
import LinOp.Core.Bridge
import Mathlib.Algebra.BigOperators.Fin
import Mathlib.Algebra.BigOperators.Ring.Finset
import Mathlib.Algebra.BigOperators.Group.Finset.Basic
import Mathlib.Data.Fintype.BigOperators
import Mathlib.Data.Matrix.Mul
import Mathlib.Data.List.Nodup
import Mathlib.Logic.Equiv.Fin.Basic
import Mathlib.Tactic.Ring
/-!
C01, part B — helper lemmas for interpolation, Toeplitz, Cat and Masked operators.
Everything lives in `LinOp.C01.B` so that it cannot clash with the sibling helper files.
-/
namespace LinOp.C01.B
open LinOp LinOp.C01

variable {α : Type}

/-! ## generic: `Mat.mul` entrywise, associativity -/

theorem mul_apply [CommSemiring α] {n k m : Nat} (A : Mat α n k) (B : Mat α k m) (i : Fin n) (j : Fin m) :
    Mat.mul A B i j = ∑ l, A i l * B l j := by
  simp only [Mat.mul, tab_eq, sumFin_eq_sum]

theorem mul_assoc' [CommSemiring α] {n k m p : Nat} (A : Mat α n k) (B : Mat α k m) (C : Mat α m p) :
    Mat.mul (Mat.mul A B) C = Mat.mul A (Mat.mul B C) := by
  funext i j
  simp only [mul_apply, Finset.sum_mul, Finset.mul_sum]
  rw [Finset.sum_comm]
  exact Finset.sum_congr rfl fun l _ => Finset.sum_congr rfl fun l' _ => mul_assoc _ _ _

theorem transpose_mul' [CommSemiring α] {n k m : Nat} (A : Mat α n k) (B : Mat α k m) :
    Mat.transpose (Mat.mul A B) = Mat.mul (Mat.transpose B) (Mat.transpose A) := by
  funext i j
  simp only [Mat.transpose, mul_apply]
  exact Finset.sum_congr rfl fun l _ => mul_comm _ _

theorem transpose_transpose' {n m : Nat} (A : Mat α n m) : Mat.transpose (Mat.transpose A) = A := rfl

/-! ## index arithmetic -/

theorem divIdx_pairIdx {a b : Nat} (i : Fin a) (j : Fin b) : divIdx (pairIdx i j) = i := by
  apply Fin.ext
  have hb : 0 < b := Nat.lt_of_le_of_lt (Nat.zero_le _) j.2
  show (i.1 * b + j.1) / b = i.1
  rw [Nat.mul_comm, Nat.mul_add_div hb, Nat.div_eq_of_lt j.2, Nat.add_zero]

theorem modIdx_pairIdx {a b : Nat} (i : Fin a) (j : Fin b) : modIdx (pairIdx i j) = j := by
  apply Fin.ext
  show (i.1 * b + j.1) % b = j.1
  rw [Nat.mul_comm, Nat.mul_add_mod, Nat.mod_eq_of_lt j.2]

theorem pairIdx_divIdx_modIdx {a b : Nat} (k : Fin (a * b)) : pairIdx (divIdx k) (modIdx k) = k := by
  apply Fin.ext
  show k.1 / b * b + k.1 % b = k.1
  rw [Nat.mul_comm]; exact Nat.div_add_mod _ _

/-- a sum over a flattened (row-major) pair of indices is the double sum. -/
theorem sum_pair [AddCommMonoid α] {a b : Nat} (g : Fin (a * b) → α) :
    ∑ k, g k = ∑ i : Fin a, ∑ j : Fin b, g (pairIdx i j) := by
  rw [← Fintype.sum_prod_type']
  refine (Fintype.sum_equiv finProdFinEquiv (fun p => g (pairIdx p.1 p.2)) g fun p => ?_).symm
  congr 1
  apply Fin.ext
  show p.1.1 * b + p.2.1 = p.2.1 + b * p.1.1
  rw [Nat.mul_comm, Nat.add_comm]

/-! ## interpolation -/

theorem interpW_apply [CommSemiring α] {n K nb : Nat} (idx : Fin n → Fin K → Fin nb) (val : Mat α n K)
    (r : Fin n) (j : Fin nb) : interpW idx val r j = ∑ k, if idx r k = j then val r k else 0 := by
  simp only [interpW, sumFin_eq_sum]

theorem leftInterp_eq [CommSemiring α] {n K nb c : Nat} (idx : Fin n → Fin K → Fin nb) (val : Mat α n K)
    (X : Mat α nb c) : leftInterp idx val X = Mat.mul (interpW idx val) X := by
  funext r col
  simp only [leftInterp, sumFin_eq_sum, mul_apply, interpW_apply, Finset.sum_mul]
  rw [Finset.sum_comm]
  refine Finset.sum_congr rfl fun k _ => ?_
  simp only [ite_mul, zero_mul, Finset.sum_ite_eq, Finset.mem_univ, if_true]
  exact mul_comm _ _

theorem leftTInterp_eq [CommSemiring α] {n K nb c : Nat} (idx : Fin n → Fin K → Fin nb) (val : Mat α n K)
    (X : Mat α n c) : leftTInterp idx val X = Mat.mul (Mat.transpose (interpW idx val)) X := by
  funext j col
  simp only [leftTInterp, sumFin_eq_sum, mul_apply, Mat.transpose, interpW_apply, Finset.sum_mul]
  rw [sum_pair]
  refine Finset.sum_congr rfl fun r _ => Finset.sum_congr rfl fun k _ => ?_
  rw [divIdx_pairIdx, modIdx_pairIdx]
  split_ifs
  · exact mul_comm _ _
  · exact (zero_mul _).symm

theorem interpMatmulSparse_eq [CommSemiring α] {n n' K K' nb nb' c : Nat} (base : Mat α nb nb')
    (lidx : Fin n → Fin K → Fin nb) (lval : Mat α n K) (ridx : Fin n' → Fin K' → Fin nb') (rval : Mat α n' K')
    (X : Mat α n' c) :
    interpMatmulSparse base lidx lval ridx rval X = Mat.mul (interpDense base lidx lval ridx rval) X := by
  simp only [interpMatmulSparse, interpDense, mul_assoc']

theorem interpMatmul_eq [CommSemiring α] {n n' K K' nb nb' c : Nat} (base : Mat α nb nb')
    (lidx : Fin n → Fin K → Fin nb) (lval : Mat α n K) (ridx : Fin n' → Fin K' → Fin nb') (rval : Mat α n' K')
    (X : Mat α n' c) :
    interpMatmul base lidx lval ridx rval X = Mat.mul (interpDense base lidx lval ridx rval) X := by
  rw [← interpMatmulSparse_eq]
  simp only [interpMatmul, interpMatmulSparse, leftInterp_eq, leftTInterp_eq]

theorem interp_transpose [CommSemiring α] {n n' K K' nb nb' : Nat} (base : Mat α nb nb')
    (lidx : Fin n → Fin K → Fin nb) (lval : Mat α n K) (ridx : Fin n' → Fin K' → Fin nb') (rval : Mat α n' K') :
    interpDense (Mat.transpose base) ridx rval lidx lval
      = Mat.transpose (interpDense base lidx lval ridx rval) := by
  simp only [interpDense, transpose_mul', transpose_transpose', mul_assoc']

theorem interpW_eq_sum_basis [CommSemiring α] {n K nb : Nat} (idx : Fin n → Fin K → Fin nb) (val : Mat α n K)
    (r : Fin n) : interpW idx val r = fun j => ∑ k, val r k * Mat.one (idx r k) j := by
  funext j
  rw [interpW_apply]
  refine Finset.sum_congr rfl fun k _ => ?_
  simp only [Mat.one, mul_ite, mul_one, mul_zero]

/-! ## Cat -/

theorem catRowsMatmul_eq [CommSemiring α] {a b n c : Nat} (A : Mat α a n) (B : Mat α b n) (X : Mat α n c) :
    catRowsMatmul A B X = Mat.mul (catRows A B) X := by
  funext i col
  simp only [catRowsMatmul, catRows, mul_apply]
  split_ifs <;> rfl

theorem cat_transpose {a b c : Nat} (A : Mat α a c) (B : Mat α b c) :
    Mat.transpose (catRows A B) = catCols (Mat.transpose A) (Mat.transpose B) := rfl

theorem catColsLoop_eq [CommSemiring α] {n c : Nat} (bs : List (ColBlock α n)) :
    ∀ (curr : Nat) (rhs : Nat → Fin c → α) (acc : Mat α n c) (i : Fin n) (col : Fin c),
      catColsLoop bs curr rhs acc i col
        = acc i col + ∑ j : Fin (totalCols bs), catColsDense bs i j * rhs (curr + j.1) col := by
  induction bs with
  | nil =>
    intro curr rhs acc i col
    show acc i col = acc i col + ∑ j : Fin 0, catColsDense [] i j * rhs (curr + j.1) col
    rw [Fin.sum_univ_zero, add_zero]
  | cons b bs ih =>
    intro curr rhs acc i col
    simp only [catColsLoop]
    rw [ih]
    show _ = acc i col + ∑ j : Fin (b.m + totalCols bs), catCols b.A (catColsDense bs) i j * rhs (curr + j.1) col
    rw [Fin.sum_univ_add, mul_apply, add_assoc]
    congr 1
    congr 1
    · refine Finset.sum_congr rfl fun j _ => ?_
      simp only [catCols, Fin.val_castAdd, j.2, dite_true]
    · refine Finset.sum_congr rfl fun j _ => ?_
      have h : ¬ (b.m + j.1 < b.m) := by omega
      simp only [catCols, Fin.val_natAdd, h, dite_false, Nat.add_sub_cancel_left, Nat.add_assoc]

theorem catColsMatmul_eq [CommSemiring α] {n c : Nat} (bs : List (ColBlock α n)) (X : Mat α (totalCols bs) c) :
    catColsMatmul bs X = Mat.mul (catColsDense bs) X := by
  funext i col
  rw [catColsMatmul, catColsLoop_eq, mul_apply, zero_add]
  refine Finset.sum_congr rfl fun j _ => ?_
  simp only [Nat.zero_add, j.2, dite_true]

/-! ## Toeplitz -/

/-- a sum of a function of the position that vanishes from `n` on can be truncated to `n` terms. -/
theorem sum_truncate [AddCommMonoid α] {n L : Nat} (hnL : n ≤ L) (g : Nat → α) (hg : ∀ t, n ≤ t → g t = 0) :
    ∑ j : Fin L, g j.1 = ∑ j : Fin n, g j.1 := by
  rw [Fin.sum_univ_eq_sum_range, Fin.sum_univ_eq_sum_range]
  symm
  apply Finset.sum_subset
  · intro x hx
    rw [Finset.mem_range] at hx ⊢
    omega
  · intro x _ hx
    rw [Finset.mem_range] at hx
    exact hg x (by omega)

/-- the entry of the circulant embedding hit by output row `i` and input position `j < n` is `T[i, j]`. -/
theorem toeplitzEmbedding_circ [Zero α] {n : Nat} (col row : Fin n → α) (i j : Fin n) :
    toeplitzEmbedding col row ((i.1 + (2 * n - 1) - j.1) % (2 * n - 1)) = toeplitzDense col row i j := by
  have hi := i.2
  have hj := j.2
  unfold toeplitzDense
  by_cases hji : j.1 ≤ i.1
  · have e1 : i.1 + (2 * n - 1) - j.1 = (2 * n - 1) + (i.1 - j.1) := by omega
    have e2 : (i.1 + (2 * n - 1) - j.1) % (2 * n - 1) = i.1 - j.1 := by
      rw [e1, Nat.add_mod_left, Nat.mod_eq_of_lt (by omega)]
    have hlt : i.1 - j.1 < n := by omega
    rw [dif_pos hji]
    simp only [e2, toeplitzEmbedding, hlt, dite_true]
  · have e2 : (i.1 + (2 * n - 1) - j.1) % (2 * n - 1) = i.1 + (2 * n - 1) - j.1 :=
      Nat.mod_eq_of_lt (by omega)
    have hnlt : ¬ (i.1 + (2 * n - 1) - j.1 < n) := by omega
    have hlt : 2 * n - 1 - (i.1 + (2 * n - 1) - j.1) < n := by omega
    rw [dif_neg hji]
    simp only [e2, toeplitzEmbedding, hnlt, hlt, dite_false, dite_true]
    congr 1
    apply Fin.ext
    show 2 * n - 1 - (i.1 + (2 * n - 1) - j.1) = j.1 - i.1
    omega

theorem toeplitzMatmul_eq [CommSemiring α] {n c : Nat} (col row : Fin n → α) (X : Mat α n c) :
    toeplitzMatmul col row X = Mat.mul (toeplitzDense col row) X := by
  funext i cc
  have hi := i.2
  simp only [toeplitzMatmul, circConv, sumFin_eq_sum, mul_apply]
  rw [sum_truncate (n := n) (L := 2 * n - 1) (by omega)
    (fun t => toeplitzEmbedding col row ((i.1 + (2 * n - 1) - t) % (2 * n - 1)) * zeroPad X t cc)]
  · refine Finset.sum_congr rfl fun j _ => ?_
    rw [toeplitzEmbedding_circ]
    simp only [zeroPad, j.2, dite_true]
  · intro t ht
    have h : ¬ t < n := by omega
    simp only [zeroPad, h, dite_false, mul_zero]

theorem toeplitz_symm_transpose {n : Nat} (c : Fin n → α) :
    toeplitzDense c c = Mat.transpose (toeplitzDense c c) := by
  funext i j
  simp only [Mat.transpose, toeplitzDense]
  by_cases h1 : j.1 ≤ i.1 <;> by_cases h2 : i.1 ≤ j.1
  · rw [dif_pos h1, dif_pos h2]; congr 1; apply Fin.ext; show i.1 - j.1 = j.1 - i.1; omega
  · rw [dif_pos h1, dif_neg h2]
  · rw [dif_neg h1, dif_pos h2]
  · omega

/-! ## Masked -/

theorem maskSel_nodup {N : Nat} (mask : Fin N → Bool) : (maskSel mask).Nodup :=
  (List.nodup_finRange N).filter _

/-- a sum against a zero-expanded vector only sees the selected positions. -/
theorem sum_expand [CommSemiring α] {M : Nat} (sel : List (Fin M)) (hs : sel.Nodup) (f : Fin M → α)
    (x : Fin sel.length → α) :
    ∑ j, f j * (if h : sel.idxOf j < sel.length then x ⟨sel.idxOf j, h⟩ else 0)
      = ∑ l : Fin sel.length, f (sel.get l) * x l := by
  symm
  apply Fintype.sum_of_injective sel.get hs.injective_get
  · intro j hj
    have hmem : j ∉ sel := by
      intro hm
      apply hj
      obtain ⟨l, hl⟩ := List.get_of_mem hm
      exact ⟨l, hl⟩
    have h : ¬ sel.idxOf j < sel.length := by
      rw [List.idxOf_lt_length_iff]; exact hmem
    rw [dif_neg h, mul_zero]
  · intro l
    have hl : sel.idxOf (sel.get l) = l.1 := List.get_idxOf hs l
    have h : sel.idxOf (sel.get l) < sel.length := by rw [hl]; exact l.2
    rw [dif_pos h]
    congr 2
    exact (Fin.ext hl).symm

theorem maskedMatmul_eq [CommSemiring α] {N M c : Nat} (base : Mat α N M) (rmask : Fin N → Bool)
    (cmask : Fin M → Bool) (X : Mat α (maskSel cmask).length c) :
    maskedMatmul base rmask cmask X = Mat.mul (maskedDense base rmask cmask) X := by
  funext k col
  simp only [maskedMatmul, maskRows, mul_apply, maskedDense, maskExpand]
  exact sum_expand (maskSel cmask) (maskSel_nodup cmask) (fun j => base ((maskSel rmask).get k) j)
    (fun l => X l col)

theorem masked_transpose {N M : Nat} (base : Mat α N M) (rmask : Fin N → Bool) (cmask : Fin M → Bool) :
    maskedDense (Mat.transpose base) cmask rmask = Mat.transpose (maskedDense base rmask cmask) := rfl

end LinOp.C01.B
