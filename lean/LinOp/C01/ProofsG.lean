import LinOp.C01.BatchModel
import LinOp.C01.ProofsE
import LinOp.C01.ProofsA
/-! helper lemmas: broadcasting with a trailing block dimension -/
namespace LinOp.C01
open LinOp LinOp.C01.E

theorem broadcastShape_append_block' (sA sB : List Nat) (k : Nat) :
    broadcastShape (sA ++ [k]) (sB ++ [k]) = (broadcastShape sA sB).map (· ++ [k]) := by
  simp only [broadcastShape, List.reverse_append, List.reverse_cons, List.reverse_nil, List.nil_append,
    List.singleton_append]
  rw [bcastRev_cons_cons]
  simp only [true_or, if_true, Option.map_map]
  congr 1
  funext l
  simp

theorem restrict_append_block' (s idx : List Nat) {k b : Nat} (hb : b < k) :
    restrict (s ++ [k]) (idx ++ [b]) = restrict s idx ++ [b] := by
  simp only [restrict, List.reverse_append, List.reverse_cons, List.reverse_nil, List.nil_append,
    List.singleton_append, restrictRev_cons_cons]
  by_cases hk : k = 1
  · subst hk
    have : b = 0 := by omega
    subst this; simp
  · simp [hk]

theorem inBox_append_block' : ∀ (s idx : List Nat) (k b : Nat), InBox (s ++ [k]) (idx ++ [b]) ↔ InBox s idx ∧ b < k
  | [], [], k, b => by simp
  | [], i :: idx, k, b => by
      cases idx <;> simp
  | a :: s, [], k, b => by
      cases s <;> simp
  | a :: s, i :: idx, k, b => by
      simp only [List.cons_append, inBox_cons_cons, inBox_append_block' s idx k b, and_assoc]

end LinOp.C01
