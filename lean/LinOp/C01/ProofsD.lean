import LinOp.C01.ProofsA
/-!
C01 — helper lemmas (part D) for the second module-level Kronecker loop `_t_matmul`, mirrored on its own in the
model as `kronTStep` / `kronTLoop` / `kronTMatmulLoop`: the iteration is the `_matmul` iteration of the transposed
factor, and the loop invariant is proved directly by induction (roles of rows and columns swapped with respect to
`kronLoop_inv`).
-/
namespace LinOp.C01.D
open LinOp LinOp.C01

variable {α : Type}

/-- the `_t_matmul` iteration is the `_matmul` iteration of the transposed factor. -/
theorem kronTStep_eq [CommSemiring α] {c : Nat} (f : Factor α) (R : Nat) (res : Nat → Fin c → α) :
    kronTStep f R res = kronStep ⟨f.n, f.m, Mat.transpose f.A⟩ R res := rfl

theorem kronTStepRows_eq (f : Factor α) (R : Nat) :
    kronTStepRows f R = kronStepRows ⟨f.n, f.m, Mat.transpose f.A⟩ R := rfl

theorem kronTLoop_eq [CommSemiring α] {c : Nat} (fs : List (Factor α)) (R : Nat) (res : Nat → Fin c → α) :
    kronTLoop fs R res = kronLoop (kronTranspose fs) R res := by
  induction fs generalizing R res with
  | nil => rfl
  | cons f fs ih =>
    show kronTLoop fs (kronTStepRows f R) (kronTStep f R res)
      = kronLoop (kronTranspose fs) (kronStepRows ⟨f.n, f.m, Mat.transpose f.A⟩ R)
          (kronStep ⟨f.n, f.m, Mat.transpose f.A⟩ R res)
    rw [ih, kronTStep_eq, kronTStepRows_eq]

/-- one `_t_matmul` iteration at row `y * n + d` (`d < n`): column `d` of the factor applied to the strided
column `y` of the state. -/
theorem kronTStep_apply [CommSemiring α] {c : Nat} (f : Factor α) (R : Nat) (res : Nat → Fin c → α)
    (y d : Nat) (hd : d < f.n) (col : Fin c) :
    kronTStep f R res (y * f.n + d) col = ∑ a : Fin f.m, f.A a ⟨d, hd⟩ * res (a.1 * (R / f.m) + y) col := by
  have hn : 0 < f.n := Nat.lt_of_le_of_lt (Nat.zero_le _) hd
  have h1 : (y * f.n + d) % f.n = d := by
    rw [Nat.mul_comm, Nat.mul_add_mod, Nat.mod_eq_of_lt hd]
  have h2 : (y * f.n + d) / f.n = y := by
    rw [Nat.add_comm, Nat.add_mul_div_right _ _ hn, Nat.div_eq_of_lt hd, Nat.zero_add]
  simp only [kronTStep, dif_pos hn, sumFin_eq_sum, h1, h2]

/-- the loop invariant of `kronTLoop`, proved directly (no index transport). -/
theorem kronTLoop_inv [CommSemiring α] {c : Nat} (fs : List (Factor α)) (hpos : ∀ f ∈ fs, 0 < f.m)
    (q : Nat) (res : Nat → Fin c → α) :
    (kronTLoop fs (rowsProd fs * q) res).1 = q * colsProd fs ∧
    ∀ b, b < q → ∀ (j : Fin (colsProd fs)) (col : Fin c),
      (kronTLoop fs (rowsProd fs * q) res).2 (b * colsProd fs + j.1) col
        = ∑ i : Fin (rowsProd fs), kronDense fs i j * res (i.1 * q + b) col := by
  induction fs generalizing q res with
  | nil =>
    refine ⟨by simp only [kronTLoop, colsProd, rowsProd, Nat.one_mul, Nat.mul_one], ?_⟩
    intro b _ j col
    have hj : j.1 = 0 := by have := j.2; simp only [colsProd] at this; omega
    show res (b * 1 + j.1) col = ∑ i : Fin 1, 1 * res (i.1 * q + b) col
    simp only [hj, Finset.univ_unique, Finset.sum_singleton, Fin.default_eq_zero, Fin.val_zero,
      Nat.zero_mul, Nat.zero_add, Nat.mul_one, Nat.add_zero, one_mul]
  | cons f fs ih =>
    have hm : 0 < f.m := hpos f List.mem_cons_self
    have hfs : ∀ g ∈ fs, 0 < g.m := fun g hg => hpos g (List.mem_cons_of_mem _ hg)
    have hdiv : rowsProd (f :: fs) * q / f.m = rowsProd fs * q := by
      simp only [rowsProd]; rw [Nat.mul_assoc, Nat.mul_div_cancel_left _ hm]
    have hR : kronTStepRows f (rowsProd (f :: fs) * q) = rowsProd fs * (q * f.n) := by
      simp only [kronTStepRows, hdiv, Nat.mul_assoc]
    have hstep : kronTLoop (f :: fs) (rowsProd (f :: fs) * q) res
        = kronTLoop fs (rowsProd fs * (q * f.n)) (kronTStep f (rowsProd (f :: fs) * q) res) := by
      rw [← hR]; rfl
    rw [hstep]
    obtain ⟨ih1, ih2⟩ := ih hfs (q * f.n) (kronTStep f (rowsProd (f :: fs) * q) res)
    refine ⟨by rw [ih1]; simp only [colsProd, Nat.mul_assoc], ?_⟩
    intro b hb j col
    let j' : Fin (f.n * colsProd fs) := j
    have hd : (divIdx j').1 < f.n := (divIdx j').2
    have hidx : b * colsProd (f :: fs) + j.1
        = (b * f.n + (divIdx j').1) * colsProd fs + (modIdx j').1 := by
      show b * (f.n * colsProd fs) + j.1
        = (b * f.n + j.1 / colsProd fs) * colsProd fs + j.1 % colsProd fs
      rw [Nat.add_mul, Nat.mul_assoc, Nat.add_assoc, Nat.div_add_mod']
    have hb' : b * f.n + (divIdx j').1 < q * f.n := pair_lt ⟨b, hb⟩ (divIdx j')
    rw [hidx, ih2 _ hb' (modIdx j') col]
    refine Eq.trans ?_ (sum_pairIdx' (a := f.m) (b := rowsProd fs)
      (fun i => kronDense (f :: fs) i j * res (i.1 * q + b) col)).symm
    refine Finset.sum_congr rfl fun i' _ => ?_
    have harg : i'.1 * (q * f.n) + (b * f.n + (divIdx j').1) = (i'.1 * q + b) * f.n + (divIdx j').1 := by
      ring
    rw [harg, kronTStep_apply f _ res _ _ hd, hdiv, Finset.mul_sum]
    refine Finset.sum_congr rfl fun a _ => ?_
    have harg2 : a.1 * (rowsProd fs * q) + (i'.1 * q + b) = (pairIdx a i').1 * q + b := by
      show _ = (a.1 * rowsProd fs + i'.1) * q + b
      ring
    rw [harg2, kronDense_cons_apply f fs (pairIdx a i') j', divIdx_pairIdx, modIdx_pairIdx]
    ring

/-! ## degenerate factors (`m = 0`) -/

theorem kronTStep_zero [CommSemiring α] {c : Nat} (f : Factor α) (R : Nat) :
    kronTStep f R (fun _ (_ : Fin c) => (0 : α)) = fun _ _ => 0 := by
  funext i col
  unfold kronTStep
  split
  · simp only [sumFin_eq_sum, mul_zero, Finset.sum_const_zero]
  · rfl

theorem kronTLoop_zero [CommSemiring α] {c : Nat} (fs : List (Factor α)) (R : Nat) :
    (kronTLoop fs R (fun _ (_ : Fin c) => (0 : α))).2 = fun _ _ => 0 := by
  induction fs generalizing R with
  | nil => rfl
  | cons f fs ih =>
    show (kronTLoop fs (kronTStepRows f R) (kronTStep f R _)).2 = _
    rw [kronTStep_zero, ih]

theorem kronTLoop_of_empty_factor [CommSemiring α] {c : Nat} (fs : List (Factor α))
    (h : ∃ f ∈ fs, f.m = 0) (R : Nat) (res : Nat → Fin c → α) :
    (kronTLoop fs R res).2 = fun _ _ => 0 := by
  induction fs generalizing R res with
  | nil => obtain ⟨f, hf, _⟩ := h; cases hf
  | cons f fs ih =>
    show (kronTLoop fs (kronTStepRows f R) (kronTStep f R res)).2 = _
    by_cases hm : f.m = 0
    · have hz : kronTStep f R res = fun _ _ => 0 := by
        funext i col
        unfold kronTStep
        split
        · rw [sumFin_eq_sum]
          exact Finset.sum_eq_zero fun a _ => False.elim (by have := a.2; omega)
        · rfl
      rw [hz, kronTLoop_zero]
    · obtain ⟨g, hg, hg0⟩ := h
      rcases List.mem_cons.1 hg with rfl | hg'
      · exact absurd hg0 hm
      · exact ih ⟨g, hg', hg0⟩ _ _

theorem rowsProd_of_empty_factor (fs : List (Factor α)) (h : ∃ f ∈ fs, f.m = 0) : rowsProd fs = 0 := by
  induction fs with
  | nil => obtain ⟨f, hf, _⟩ := h; cases hf
  | cons f fs ih =>
    obtain ⟨g, hg, hg0⟩ := h
    rcases List.mem_cons.1 hg with rfl | hg'
    · simp only [rowsProd, hg0, Nat.zero_mul]
    · simp only [rowsProd, ih ⟨g, hg', hg0⟩, Nat.mul_zero]

end LinOp.C01.D
