import LinOp.C01.ProofsD
/-!
C01 — part D: the second module-level Kronecker loop, `_t_matmul(linear_ops, kp_shape, rhs)`, modelled on its own
(`kronTStep`, `kronTLoop`, `kronTMatmulLoop`) rather than through `_transpose_nonbatch`.  Property theorems only.
-/
namespace LinOp.C01
open LinOp

/-- One iteration of the `_t_matmul` loop is the `_matmul` iteration of the transposed factor
(`linear_op._t_matmul` in place of `linear_op._matmul`, `size(-2)` and `size(-1)` swapped). -/
theorem kronTStep_eq_kronStep_transpose {α : Type} [CommSemiring α] {c : Nat} (f : Factor α) (R : Nat)
    (res : Nat → Fin c → α) :
    kronTStep f R res = kronStep ⟨f.n, f.m, Mat.transpose f.A⟩ R res :=
  D.kronTStep_eq f R res

/-- The whole `_t_matmul` loop is the `_matmul` loop run on the transposed factors (`_transpose_nonbatch`),
on any state: same final row count and same final state. -/
theorem kronTLoop_eq {α : Type} [CommSemiring α] {c : Nat} (fs : List (Factor α)) (R : Nat)
    (res : Nat → Fin c → α) :
    kronTLoop fs R res = kronLoop (kronTranspose fs) R res :=
  D.kronTLoop_eq fs R res

/-- Loop invariant of the `for linear_op in linear_ops:` loop of `_t_matmul`, stated directly (no index
transport), for any number of rectangular factors with non-empty row dimension, started on a state with
`rowsProd fs * q` rows: the loop ends with `q * colsProd fs` rows, and row `b * colsProd fs + j` of the final
state is `Σ_i (A₁ ⊗ … ⊗ A_P)[i, j] · res[i * q + b]`. -/
theorem kronTLoop_spec {α : Type} [CommSemiring α] {c : Nat} (fs : List (Factor α))
    (hpos : ∀ f ∈ fs, 0 < f.m) (q : Nat) (res : Nat → Fin c → α) :
    (kronTLoop fs (rowsProd fs * q) res).1 = q * colsProd fs ∧
    ∀ b, b < q → ∀ (j : Fin (colsProd fs)) (col : Fin c),
      (kronTLoop fs (rowsProd fs * q) res).2 (b * colsProd fs + j.1) col
        = ∑ i : Fin (rowsProd fs), kronDense fs i j * res (i.1 * q + b) col :=
  D.kronTLoop_inv fs hpos q res

/-- The `_t_matmul` loop computes `(A₁ ⊗ … ⊗ A_P)ᵀ Y` for any number of factors of any (rectangular) sizes with
non-empty row dimensions. -/
theorem kronTMatmulLoop_eq {α : Type} [CommSemiring α] {c : Nat} (fs : List (Factor α))
    (hpos : ∀ f ∈ fs, 0 < f.m) (Y : Mat α (rowsProd fs) c) :
    kronTMatmulLoop fs Y = Mat.mul (Mat.transpose (kronDense fs)) Y := by
  funext j col
  have h := (kronTLoop_spec fs hpos 1
    (fun i col => if h : i < rowsProd fs then Y ⟨i, h⟩ col else 0)).2 0 Nat.one_pos j col
  simp only [Nat.mul_one, Nat.zero_mul, Nat.zero_add, Nat.add_zero] at h
  rw [mul_apply]
  show (kronTLoop fs (rowsProd fs) _).2 j.1 col = _
  rw [h]
  refine Finset.sum_congr rfl fun i _ => ?_
  rw [dif_pos i.2, Mat.transpose]

/-- The hypothesis of `kronTMatmulLoop_eq` is not needed in the model: if some factor has an empty row dimension
the loop returns the zero matrix, and so does the (empty-sum) dense product.  (In PyTorch `res.view(0, -1)` raises,
so this case is a totalisation of the model, not a statement about the library.) -/
theorem kronTMatmulLoop_eq_total {α : Type} [CommSemiring α] {c : Nat} (fs : List (Factor α))
    (Y : Mat α (rowsProd fs) c) :
    kronTMatmulLoop fs Y = Mat.mul (Mat.transpose (kronDense fs)) Y := by
  by_cases hpos : ∀ f ∈ fs, 0 < f.m
  · exact kronTMatmulLoop_eq fs hpos Y
  · have h0 : ∃ f ∈ fs, f.m = 0 := by
      apply Classical.byContradiction
      intro hne
      exact hpos fun f hf => Nat.pos_of_ne_zero fun h => hne ⟨f, hf, h⟩
    funext j col
    rw [mul_apply]
    show (kronTLoop fs (rowsProd fs) _).2 j.1 col = _
    rw [D.kronTLoop_of_empty_factor fs h0]
    have hC := D.rowsProd_of_empty_factor fs h0
    exact (Finset.sum_eq_zero fun i _ => False.elim (by have := i.2; omega)).symm

end LinOp.C01
