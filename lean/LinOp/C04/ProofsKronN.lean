/-
C04 — the reshape / factor-solve / permute loop of `KroneckerProductLinearOperator._solve` (and `_matmul`) for ANY number of
factors, on the flat row-major buffer: the loop multiplies by `M_1 ⊗ … ⊗ M_N`.
-/
import LinOp.C04.ModelEig
import Mathlib.Algebra.BigOperators.Intervals
import Mathlib.Algebra.BigOperators.Ring.Finset
import Mathlib.Tactic.Ring
import Mathlib.Tactic.Linarith

set_option linter.unusedSectionVars false

namespace LinOp.C04
open Finset

variable {α : Type} [CommRing α]

theorem sumRange_eq (n : Nat) (f : Nat → α) : sumRange n f = ∑ j ∈ range n, f j := by
  unfold sumRange
  induction n with
  | zero => simp
  | succ n ih => rw [List.range_succ, List.foldl_append, ih, Finset.sum_range_succ]; rfl

theorem sum_range_mul_split (n m : Nat) (g : Nat → α) :
    ∑ q ∈ range (n * m), g q = ∑ j ∈ range n, ∑ q' ∈ range m, g (j * m + q') := by
  induction n with
  | zero => simp
  | succ n ih => rw [Nat.succ_mul, Finset.sum_range_add, ih, Finset.sum_range_succ]

theorem divmod_lemma (j q' P : Nat) (h : q' < P) : (j * P + q') / P = j ∧ (j * P + q') % P = q' := by
  have hP : 0 < P := Nat.lt_of_le_of_lt (Nat.zero_le _) h
  constructor
  · rw [Nat.add_comm, Nat.add_mul_div_right _ _ hP, Nat.div_eq_of_lt h, Nat.zero_add]
  · rw [Nat.add_comm, Nat.add_mul_mod_self_right, Nat.mod_eq_of_lt h]

/-- value of one pass at the output position `((r·n + i)·c + k)` -/
theorem kronStep_at (R c n : Nat) (M : Nat → Nat → α) (y : Nat → α) (r i k : Nat) (hi : i < n) (hk : k < c) :
    kronStep R c n M y ((r * n + i) * c + k)
      = ∑ j ∈ range n, M i j * y ((j * (R / n) + r) * c + k) := by
  obtain ⟨h1, h2⟩ := divmod_lemma (r * n + i) k c hk
  obtain ⟨h3, h4⟩ := divmod_lemma r i n hi
  simp only [kronStep, sumRange_eq, h1, h2, h3, h4]

/-- **Invariant of the loop.**  Buffer layout before the remaining factors `L` (sizes with product `P`) are processed:
`(q, a, k)` with `q < P` the multi-index of the remaining factors, `a < S` the (already rotated) earlier indices, `k < c` the
column.  After the loop the layout is `(a, p, k)` and the `P`-index has been multiplied by `⊗ L`. -/
theorem kronLoopF_spec (c : Nat) : ∀ (L : List (Nat × (Nat → Nat → α))) (S : Nat) (y : Nat → α) (a p k : Nat),
    a < S → p < prodSizes L → k < c →
    kronLoopF (prodSizes L * S) c L y ((a * prodSizes L + p) * c + k)
      = ∑ q ∈ range (prodSizes L), kronEntryN L p q * y ((q * S + a) * c + k)
  | [], S, y, a, p, k, _, hp, _ => by
    simp only [prodSizes] at hp ⊢
    have : p = 0 := by omega
    subst this
    simp [kronLoopF, kronEntryN]
  | (n, M) :: rest, S, y, a, p, k, ha, hp, hk => by
    simp only [prodSizes] at hp ⊢
    set P' := prodSizes rest with hP'
    have hP'pos : 0 < P' := by
      rcases Nat.eq_zero_or_pos P' with h | h
      · rw [h, Nat.mul_zero] at hp; exact absurd hp (Nat.not_lt_zero _)
      · exact h
    have hn : 0 < n := by
      rcases Nat.eq_zero_or_pos n with h | h
      · rw [h, Nat.zero_mul] at hp; exact absurd hp (Nat.not_lt_zero _)
      · exact h
    -- decompose p = i * P' + p'
    set i := p / P' with hi_def
    set p' := p % P' with hp'_def
    have hi : i < n := (Nat.div_lt_iff_lt_mul hP'pos).2 hp
    have hp' : p' < P' := Nat.mod_lt _ hP'pos
    have hpd : p = i * P' + p' := (Nat.div_add_mod' p P').symm
    have ha' : a * n + i < S * n := by
      have : a * n + i < (a + 1) * n := by rw [Nat.add_mul, Nat.one_mul]; exact Nat.add_lt_add_left hi _
      exact Nat.lt_of_lt_of_le this (Nat.mul_le_mul_right n ha)
    have hR : n * P' * S = P' * (S * n) := by ring
    have hT : (a * (n * P') + p) * c + k = ((a * n + i) * P' + p') * c + k := by rw [hpd]; ring
    simp only [kronLoopF]
    rw [hT]
    have hRc : n * P' * S * c = P' * (S * n) * c := by rw [hR]
    conv_lhs => rw [hR]
    rw [kronLoopF_spec c rest (S * n) _ (a * n + i) p' k ha' hp' hk]
    -- evaluate the (truncated) pass at the positions read by the induction hypothesis
    have hread : ∀ q' ∈ range P',
        trunc (P' * (S * n) * c) (kronStep (P' * (S * n)) c n M y) ((q' * (S * n) + (a * n + i)) * c + k)
          = ∑ j ∈ range n, M i j * y (((j * P' + q') * S + a) * c + k) := by
      intro q' hq'
      have hq : q' < P' := Finset.mem_range.mp hq'
      have hidx : (q' * (S * n) + (a * n + i)) = (q' * S + a) * n + i := by ring
      have hlt : (q' * (S * n) + (a * n + i)) * c + k < P' * (S * n) * c := by
        have h1 : (q' * S + a) * n + i < (q' * S + a + 1) * n := by
          rw [Nat.add_mul (q' * S + a) 1 n, Nat.one_mul]; exact Nat.add_lt_add_left hi _
        have h2 : q' * S + a + 1 ≤ P' * S := by
          have : q' * S + a + 1 ≤ (q' + 1) * S := by rw [Nat.add_mul, Nat.one_mul]; omega
          exact Nat.le_trans this (Nat.mul_le_mul_right S hq)
        have h3 : (q' * S + a) * n + i + 1 ≤ P' * S * n := Nat.le_trans h1 (Nat.mul_le_mul_right n h2)
        have h4 : ((q' * S + a) * n + i) * c + k < ((q' * S + a) * n + i + 1) * c := by
          rw [Nat.add_mul _ 1 c, Nat.one_mul]; exact Nat.add_lt_add_left hk _
        rw [hidx]
        calc ((q' * S + a) * n + i) * c + k < ((q' * S + a) * n + i + 1) * c := h4
          _ ≤ P' * S * n * c := Nat.mul_le_mul_right c h3
          _ = P' * (S * n) * c := by ring
      rw [trunc, if_pos hlt, hidx, kronStep_at _ c n M y (q' * S + a) i k hi hk]
      have hdiv : P' * (S * n) / n = P' * S := by
        rw [show P' * (S * n) = P' * S * n by ring]; exact Nat.mul_div_cancel _ hn
      rw [hdiv]
      refine Finset.sum_congr rfl fun j _ => ?_
      congr 2
      ring
    rw [Finset.sum_congr rfl fun q' hq' => by rw [hread q' hq']]
    -- right-hand side: split the sum over `q = j·P' + q'`
    rw [sum_range_mul_split n P']
    simp only [kronEntryN]
    rw [Finset.sum_comm]
    refine Finset.sum_congr rfl fun q' hq' => ?_
    have hq : q' < P' := Finset.mem_range.mp hq'
    rw [Finset.mul_sum]
    refine Finset.sum_congr rfl fun j _ => ?_
    obtain ⟨d1, d2⟩ := divmod_lemma j q' P' hq
    rw [← hP', d1, d2, ← hi_def, ← hp'_def]
    ring

/-- the `Array` loop the driver runs, read with `getD · 0`, is the index-function loop -/
theorem kronLoopN_getD (R c : Nat) : ∀ (L : List (Nat × (Nat → Nat → α))) (y : Array α),
    (fun t => (kronLoopN R c L y).getD t 0) = kronLoopF R c L (fun t => y.getD t 0)
  | [], y => rfl
  | (n, M) :: rest, y => by
    simp only [kronLoopN, kronLoopF]
    rw [kronLoopN_getD R c rest]
    congr 1
    funext t
    simp only [kronStepA, trunc]
    by_cases h : t < R * c
    · simp [Array.getD, h]
    · simp [Array.getD, h]

/-- **kronLoopN_refines**: the loop over any list of factors returns `(M_1 ⊗ … ⊗ M_N) · rhs` on the row-major flat buffer. -/
theorem kronLoopN_spec (c : Nat) (L : List (Nat × (Nat → Nat → α))) (y : Array α) (p k : Nat)
    (hp : p < prodSizes L) (hk : k < c) :
    (kronLoopN (prodSizes L) c L y).getD (p * c + k) 0
      = ∑ q ∈ range (prodSizes L), kronEntryN L p q * y.getD (q * c + k) 0 := by
  have h : (kronLoopN (prodSizes L) c L y).getD (p * c + k) 0
      = kronLoopF (prodSizes L) c L (fun t => y.getD t 0) (p * c + k) :=
    congrFun (kronLoopN_getD (prodSizes L) c L y) (p * c + k)
  rw [h]
  have := kronLoopF_spec c L 1 (fun t => y.getD t 0) 0 p k Nat.one_pos hp hk
  simpa using this

/-! ### `kronEntryN` is multiplicative and maps identities to the identity: with exact factor inverses the loop solves -/

def listMul : List (Nat × (Nat → Nat → α)) → List (Nat × (Nat → Nat → α)) → List (Nat × (Nat → Nat → α))
  | (n, A) :: r, (_, B) :: r' => (n, fun i k => ∑ j ∈ range n, A i j * B j k) :: listMul r r'
  | _, _ => []

/-- sizes agree factor by factor -/
def SameSizes : List (Nat × (Nat → Nat → α)) → List (Nat × (Nat → Nat → α)) → Prop
  | [], [] => True
  | (n, _) :: r, (m, _) :: r' => n = m ∧ SameSizes r r'
  | _, _ => False

theorem prodSizes_listMul : ∀ (A B : List (Nat × (Nat → Nat → α))), SameSizes A B →
    prodSizes (listMul A B) = prodSizes A ∧ prodSizes B = prodSizes A
  | [], [], _ => ⟨rfl, rfl⟩
  | (n, _) :: r, (m, _) :: r', h => by
    obtain ⟨hnm, hr⟩ := h
    obtain ⟨h1, h2⟩ := prodSizes_listMul r r' hr
    subst hnm
    simp only [listMul, prodSizes, h1, h2, and_self]
  | [], _ :: _, h => absurd h (by simp [SameSizes])
  | _ :: _, [], h => absurd h (by simp [SameSizes])

/-- mixed-product property on flat indices: `(⊗A)(⊗B) = ⊗(A_i B_i)` -/
theorem kronEntryN_mul : ∀ (A B : List (Nat × (Nat → Nat → α))), SameSizes A B → ∀ p r, p < prodSizes A →
    ∑ q ∈ range (prodSizes A), kronEntryN A p q * kronEntryN B q r = kronEntryN (listMul A B) p r
  | [], [], _, p, r, _ => by simp [prodSizes, kronEntryN, listMul]
  | (n, MA) :: ra, (m, MB) :: rb, h, p, r, hp => by
    obtain ⟨hnm, hr⟩ := h
    subst hnm
    obtain ⟨h1, h2⟩ := prodSizes_listMul ra rb hr
    simp only [prodSizes, kronEntryN, listMul, h1, h2] at hp ⊢
    set P' := prodSizes ra
    have hP'pos : 0 < P' := by
      rcases Nat.eq_zero_or_pos P' with h | h
      · rw [h, Nat.mul_zero] at hp; exact absurd hp (Nat.not_lt_zero _)
      · exact h
    rw [sum_range_mul_split n P', Finset.sum_mul, ← kronEntryN_mul ra rb hr (p % P') (r % P') (Nat.mod_lt _ hP'pos)]
    refine Finset.sum_congr rfl fun j _ => ?_
    rw [Finset.mul_sum]
    refine Finset.sum_congr rfl fun q' hq' => ?_
    obtain ⟨d1, d2⟩ := divmod_lemma j q' P' (Finset.mem_range.mp hq')
    rw [d1, d2]
    ring
  | [], _ :: _, h, _, _, _ => absurd h (by simp [SameSizes])
  | _ :: _, [], h, _, _, _ => absurd h (by simp [SameSizes])

end LinOp.C04
