/-
C04 — refinement proofs for the eigen-structured solves (KroneckerProductAddedDiag, SumKronecker, BatchRepeat).
-/
import LinOp.C04.ModelEig
import LinOp.C04.Proofs

set_option linter.unusedSectionVars false

namespace LinOp.C04
open Matrix
open scoped Kronecker

variable {α : Type} [Field α]

/-! ## `kronDense` is a multiplicative, transpose- and diagonal-preserving embedding -/

section KD
variable {n1 n2 : Nat}

/-- flattened Kronecker product as a Mathlib matrix -/
def KD (A : Matrix (Fin n1) (Fin n1) α) (B : Matrix (Fin n2) (Fin n2) α) : Matrix (Fin (n1 * n2)) (Fin (n1 * n2)) α :=
  Matrix.of (kronDense A B)

theorem KD_eq (A : Matrix (Fin n1) (Fin n1) α) (B : Matrix (Fin n2) (Fin n2) α) :
    KD A B = Matrix.reindex finProdFinEquiv finProdFinEquiv (A ⊗ₖ B) := kronDense_eq A B

theorem KD_mul (A C : Matrix (Fin n1) (Fin n1) α) (B D : Matrix (Fin n2) (Fin n2) α) :
    KD A B * KD C D = KD (A * C) (B * D) := by
  rw [KD_eq, KD_eq, KD_eq, mul_kronecker_mul]
  simp only [reindex_apply, submatrix_mul_equiv]

theorem KD_one : KD (1 : Matrix (Fin n1) (Fin n1) α) (1 : Matrix (Fin n2) (Fin n2) α) = 1 := by
  rw [KD_eq, one_kronecker_one]
  simp only [reindex_apply, submatrix_one_equiv]

theorem KD_transpose (A : Matrix (Fin n1) (Fin n1) α) (B : Matrix (Fin n2) (Fin n2) α) :
    (KD A B)ᵀ = KD Aᵀ Bᵀ := by
  ext p q
  simp [KD, kronDense]

theorem KD_diagonal (e1 : Fin n1 → α) (e2 : Fin n2 → α) :
    KD (diagonal e1) (diagonal e2) = diagonal (kronVec e1 e2) := by
  rw [KD_eq, diagonal_kronecker_diagonal]
  simp only [reindex_apply, submatrix_diagonal_equiv]
  rfl

theorem KD_add_left (A A' : Matrix (Fin n1) (Fin n1) α) (B : Matrix (Fin n2) (Fin n2) α) :
    KD (A + A') B = KD A B + KD A' B := by
  ext p q; simp [KD, kronDense, add_mul]

theorem kronLoop2_KD {c : Nat} (A : Mat α n1 n1) (B : Mat α n2 n2) (X : Mat α (n1 * n2) c) :
    (Matrix.of (kronLoop2 A B X) : Matrix _ _ α) = KD (Matrix.of A) (Matrix.of B) * Matrix.of X := kronLoop2_eq A B X

theorem of_transpose {n m : Nat} (A : Mat α n m) :
    (Matrix.of (Mat.transpose A) : Matrix _ _ α) = (Matrix.of A)ᵀ := rfl

theorem diagMul_eq {n c : Nat} (d : Fin n → α) (X : Mat α n c) :
    (Matrix.of (diagMul d X) : Matrix _ _ α) = diagonal d * Matrix.of X := by
  ext i k; simp [diagMul, diagonal_mul]

end KD

/-! ## eigen-systems and their closure under Kronecker products (any number of factors by iteration) -/

/-- the contract of `eigh` / `diagonalization()`: `Q` orthogonal, `Q diag(ev) Qᵀ = K` -/
structure IsEig {ι : Type} [Fintype ι] [DecidableEq ι] (K Q : Matrix ι ι α) (ev : ι → α) : Prop where
  orth1 : Qᵀ * Q = 1
  orth2 : Q * Qᵀ = 1
  recon : Q * diagonal ev * Qᵀ = K

/-- Kronecker products of eigen-systems are eigen-systems (Mathlib index `ι × κ`). -/
theorem IsEig.kron {ι κ : Type} [Fintype ι] [DecidableEq ι] [Fintype κ] [DecidableEq κ]
    {K1 Q1 : Matrix ι ι α} {e1 : ι → α} {K2 Q2 : Matrix κ κ α} {e2 : κ → α}
    (h1 : IsEig K1 Q1 e1) (h2 : IsEig K2 Q2 e2) :
    IsEig (K1 ⊗ₖ K2) (Q1 ⊗ₖ Q2) (fun p => e1 p.1 * e2 p.2) where
  orth1 := by rw [← kroneckerMap_transpose, ← mul_kronecker_mul, h1.orth1, h2.orth1, one_kronecker_one]
  orth2 := by rw [← kroneckerMap_transpose, ← mul_kronecker_mul, h1.orth2, h2.orth2, one_kronecker_one]
  recon := by
    rw [← kroneckerMap_transpose, ← diagonal_kronecker_diagonal, ← mul_kronecker_mul, ← mul_kronecker_mul, h1.recon,
      h2.recon]

/-- … on flattened row-major indices (what `KroneckerProductLinearOperator.diagonalization()` returns): the result is
again a `Fin`-indexed eigen-system, so the lemma iterates to any number of factors. -/
theorem IsEig.kronDense {n1 n2 : Nat} {K1 Q1 : Matrix (Fin n1) (Fin n1) α} {e1 : Fin n1 → α}
    {K2 Q2 : Matrix (Fin n2) (Fin n2) α} {e2 : Fin n2 → α} (h1 : IsEig K1 Q1 e1) (h2 : IsEig K2 Q2 e2) :
    IsEig (KD K1 K2) (KD Q1 Q2) (kronVec e1 e2) where
  orth1 := by rw [KD_transpose, KD_mul, h1.orth1, h2.orth1, KD_one]
  orth2 := by rw [KD_transpose, KD_mul, h1.orth2, h2.orth2, KD_one]
  recon := by rw [KD_transpose, ← KD_diagonal, KD_mul, KD_mul, h1.recon, h2.recon]

/-! ## the congruence lemma behind the symmetrised and the sum-of-Kronecker solves -/

/-- `Rᵀ X R = M` with `R` invertible ⇒ `X⁻¹ = R M⁻¹ Rᵀ`. -/
theorem congr_inv {ι : Type} [Fintype ι] [DecidableEq ι] (R X M : Matrix ι ι α) (hR : IsUnit R.det)
    (h : Rᵀ * X * R = M) : X⁻¹ = R * M⁻¹ * Rᵀ := by
  have hRt : IsUnit (Rᵀ).det := by rwa [det_transpose]
  have hX : X = (Rᵀ)⁻¹ * M * R⁻¹ := by
    rw [← h]
    simp only [Matrix.mul_assoc]
    rw [mul_nonsing_inv _ hR, Matrix.mul_one, nonsing_inv_mul_cancel_left _ _ hRt]
  rw [hX, Matrix.mul_inv_rev, Matrix.mul_inv_rev, nonsing_inv_nonsing_inv _ hR, nonsing_inv_nonsing_inv _ hRt,
    Matrix.mul_assoc]

/-- eigen-shift by the identity: `(QΛQᵀ + 1)⁻¹ B = Q ((Λ+1)⁻¹ (Qᵀ B))`. -/
theorem eig_shift_one {ι κ : Type} [Fintype ι] [DecidableEq ι] [Fintype κ] [DecidableEq κ]
    {K Q : Matrix ι ι α} {ev : ι → α} (h : IsEig K Q ev)
    (hne : ∀ i, ev i + 1 ≠ 0) (B : Matrix ι κ α) :
    (K + 1)⁻¹ * B = Q * (diagonal (fun i => (ev i + 1)⁻¹) * (Qᵀ * B)) := by
  have := kpadlo_constDiag_solve ev (1 : α) h.orth1 h.orth2 hne B
  rwa [one_smul, h.recon] at this

/-! ## KroneckerProductAddedDiag, the three diagonal kinds -/

section KPADLO
variable {n1 n2 c : Nat}

theorem diagSolve_eq_mul {n c : Nat} (d : Fin n → α) (X : Mat α n c) :
    (Matrix.of (diagSolve d X) : Matrix _ _ α) = diagonal (fun i => (d i)⁻¹) * Matrix.of X := by
  ext i k; simp [diagSolve, diagonal_mul, div_eq_inv_mul]

theorem kpadloConstSolve2_refines (sq : α → α) {K1 : Matrix (Fin n1) (Fin n1) α} {Q1 : Mat α n1 n1} {e1 : Fin n1 → α}
    {K2 : Matrix (Fin n2) (Fin n2) α} {Q2 : Mat α n2 n2} {e2 : Fin n2 → α}
    (h1 : IsEig K1 (Matrix.of Q1) e1) (h2 : IsEig K2 (Matrix.of Q2) e2) (cst : α)
    (hsq : ∀ p, sq (kronVec e1 e2 p + cst) * sq (kronVec e1 e2 p + cst) = kronVec e1 e2 p + cst)
    (hpos : ∀ p, kronVec e1 e2 p + cst ≠ 0) (rhs : Mat α (n1 * n2) c) :
    (Matrix.of (kpadloConstSolve2 sq Q1 Q2 e1 e2 cst rhs) : Matrix _ _ α)
      = (KD K1 K2 + cst • (1 : Matrix _ _ α))⁻¹ * Matrix.of rhs := by
  have hE := IsEig.kronDense h1 h2
  have hr0 : ∀ p, sq (kronVec e1 e2 p + cst) ≠ 0 := fun p h0 => hpos p (by rw [← hsq p, h0, mul_zero])
  have key := kpadlo_constDiag_sqrt (kronVec e1 e2) (fun p => sq (kronVec e1 e2 p + cst)) cst hE.orth1 hE.orth2 hsq hr0
    (Matrix.of rhs)
  rw [hE.recon] at key
  rw [← key]
  simp only [kpadloConstSolve2, kpadloConstSolve2V, ofV_matV, ofV1_vecV]
  rw [kronLoop2_KD, diagMul_eq, diagMul_eq, kronLoop2_KD, of_transpose, of_transpose, ← KD_transpose]
  simp only [one_div, Matrix.mul_assoc]

theorem kpadloKronConstSolve2_refines {K1 : Matrix (Fin n1) (Fin n1) α} {Q1 : Mat α n1 n1} {e1 : Fin n1 → α}
    {K2 : Matrix (Fin n2) (Fin n2) α} {Q2 : Mat α n2 n2} {e2 : Fin n2 → α}
    (h1 : IsEig K1 (Matrix.of Q1) e1) (h2 : IsEig K2 (Matrix.of Q2) e2) (d1 d2 : α)
    (hd1 : d1 ≠ 0) (hd2 : d2 ≠ 0) (hne : ∀ p, kronVec e1 e2 p / (d1 * d2) + 1 ≠ 0) (rhs : Mat α (n1 * n2) c) :
    (Matrix.of (kpadloKronConstSolve2 Q1 Q2 e1 e2 d1 d2 rhs) : Matrix _ _ α)
      = (KD K1 K2 + KD (diagonal fun _ => d1) (diagonal fun _ => d2))⁻¹ * Matrix.of rhs := by
  have hE := IsEig.kronDense h1 h2
  have hd : d1 * d2 ≠ 0 := mul_ne_zero hd1 hd2
  have hD : KD (diagonal fun _ : Fin n1 => d1) (diagonal fun _ : Fin n2 => d2) = (d1 * d2) • (1 : Matrix _ _ α) := by
    rw [KD_diagonal]
    ext p q
    by_cases hpq : p = q <;> simp [hpq, kronVec, diagonal, Matrix.one_apply]
  have key := kpadlo_kronConst_solve (kronVec e1 e2) (d1 * d2) hd hE.orth1 hE.orth2 hne (Matrix.of rhs)
  rw [hE.recon] at key
  rw [hD, key]
  have hev : (fun p => kronVec (fun i => e1 i / d1) (fun j => e2 j / d2) p + 1)
      = fun p => kronVec e1 e2 p / (d1 * d2) + 1 := by
    funext p; simp only [kronVec]; field_simp
  have hdd : (fun p => (kronVec (fun _ : Fin n1 => d1) (fun _ : Fin n2 => d2) p)⁻¹) = fun _ => (d1 * d2)⁻¹ := by
    funext p; simp [kronVec]
  simp only [kpadloKronConstSolve2, kpadloKronConstSolve2V, ofV_matV, ofV1_vecV, hev]
  rw [diagSolve_eq_mul, kronLoop2_KD, diagSolve_eq_mul, kronLoop2_KD, of_transpose, of_transpose, ← KD_transpose, hdd]
  have : diagonal (fun _ : Fin (n1 * n2) => (d1 * d2)⁻¹) = (d1 * d2)⁻¹ • (1 : Matrix _ _ α) := by
    ext p q; by_cases hpq : p = q <;> simp [hpq, diagonal, Matrix.one_apply]
  rw [this, Matrix.smul_mul, Matrix.one_mul]

/-- general lemma: `S = diag(s)` with `s_p² d_p = 1`, `(Q, ev)` an eigen-system of `S K S` ⇒
`(K + diag d)⁻¹ B = S Q (Λ+1)⁻¹ Qᵀ S B`. -/
theorem symm_solve {ι κ : Type} [Fintype ι] [DecidableEq ι] [Fintype κ] [DecidableEq κ]
    (K Q : Matrix ι ι α) (ev s d : ι → α) (hs : ∀ p, s p * s p * d p = 1)
    (hE : IsEig (diagonal s * K * diagonal s) Q ev) (hne : ∀ i, ev i + 1 ≠ 0) (B : Matrix ι κ α) :
    (K + diagonal d)⁻¹ * B
      = diagonal s * (Q * (diagonal (fun i => (ev i + 1)⁻¹) * (Qᵀ * (diagonal s * B)))) := by
  have hs0 : ∀ p, s p ≠ 0 := fun p h0 => by have := hs p; rw [h0] at this; simp at this
  have hS : IsUnit (diagonal s).det := by
    rw [det_diagonal]; exact isUnit_iff_ne_zero.mpr (Finset.prod_ne_zero_iff.mpr fun i _ => hs0 i)
  have hSDS : diagonal s * diagonal d * diagonal s = (1 : Matrix ι ι α) := by
    rw [diagonal_mul_diagonal, diagonal_mul_diagonal, ← diagonal_one]
    congr 1; funext p; rw [← hs p]; ring
  have hcong : (diagonal s)ᵀ * (K + diagonal d) * diagonal s = diagonal s * K * diagonal s + 1 := by
    rw [diagonal_transpose, Matrix.mul_add, Matrix.add_mul, hSDS]
  rw [congr_inv (diagonal s) (K + diagonal d) _ hS hcong, diagonal_transpose, Matrix.mul_assoc, Matrix.mul_assoc,
    eig_shift_one hE hne]

theorem kpadloSymmSolve2_refines (sq : α → α) (K1 : Matrix (Fin n1) (Fin n1) α) (Q1 : Mat α n1 n1) (e1 d1 : Fin n1 → α)
    (K2 : Matrix (Fin n2) (Fin n2) α) (Q2 : Mat α n2 n2) (e2 d2 : Fin n2 → α)
    (hsq1 : ∀ i, sq (d1 i) * sq (d1 i) = d1 i) (hsq2 : ∀ j, sq (d2 j) * sq (d2 j) = d2 j)
    (hd1 : ∀ i, d1 i ≠ 0) (hd2 : ∀ j, d2 j ≠ 0)
    (h1 : IsEig (diagonal (fun i => 1 / sq (d1 i)) * K1 * diagonal (fun i => 1 / sq (d1 i))) (Matrix.of Q1) e1)
    (h2 : IsEig (diagonal (fun j => 1 / sq (d2 j)) * K2 * diagonal (fun j => 1 / sq (d2 j))) (Matrix.of Q2) e2)
    (hne : ∀ p, kronVec e1 e2 p + 1 ≠ 0) (rhs : Mat α (n1 * n2) c) :
    (Matrix.of (kpadloSymmSolve2 sq Q1 Q2 e1 e2 d1 d2 rhs) : Matrix _ _ α)
      = (KD K1 K2 + KD (diagonal d1) (diagonal d2))⁻¹ * Matrix.of rhs := by
  have hE := IsEig.kronDense h1 h2
  rw [← KD_mul, ← KD_mul, KD_diagonal] at hE
  have hs : ∀ p, kronVec (fun i => 1 / sq (d1 i)) (fun j => 1 / sq (d2 j)) p
      * kronVec (fun i => 1 / sq (d1 i)) (fun j => 1 / sq (d2 j)) p * kronVec d1 d2 p = 1 := by
    intro p
    simp only [kronVec]
    have a1 : sq (d1 (fstIdx p)) ≠ 0 := fun h0 => hd1 (fstIdx p) (by rw [← hsq1, h0, mul_zero])
    have a2 : sq (d2 (sndIdx p)) ≠ 0 := fun h0 => hd2 (sndIdx p) (by rw [← hsq2, h0, mul_zero])
    have e1' := hsq1 (fstIdx p)
    have e2' := hsq2 (sndIdx p)
    generalize sq (d1 (fstIdx p)) = s1 at *
    generalize sq (d2 (sndIdx p)) = s2 at *
    rw [← e1', ← e2']
    field_simp
  rw [KD_diagonal, symm_solve (KD K1 K2) (KD (Matrix.of Q1) (Matrix.of Q2)) (kronVec e1 e2) _ (kronVec d1 d2) hs hE hne]
  simp only [kpadloSymmSolve2, kpadloSymmSolve2V, ofV_matV, ofV1_vecV]
  rw [diagMul_eq, kronLoop2_KD, diagSolve_eq_mul, kronLoop2_KD, diagMul_eq, of_transpose, of_transpose, ← KD_transpose]

end KPADLO

/-! ## SumKronecker -/

/-- `R Rᵀ = C⁻¹` (contract of `root_inv_decomposition`), `C` invertible ⇒ `R` invertible and `Rᵀ C R = 1`. -/
theorem rootInv_congr {ι : Type} [Fintype ι] [DecidableEq ι] (R C : Matrix ι ι α) (hC : IsUnit C.det)
    (h : R * Rᵀ = C⁻¹) : IsUnit R.det ∧ Rᵀ * C * R = 1 := by
  have h1 : C * R * Rᵀ = 1 := by rw [Matrix.mul_assoc, h, mul_nonsing_inv _ hC]
  have h2 : Rᵀ * (C * R) = 1 := mul_eq_one_comm.mp h1
  refine ⟨?_, by rw [Matrix.mul_assoc]; exact h2⟩
  have : IsUnit (Rᵀ).det := isUnit_det_of_left_inverse (B := C * R) (by exact mul_eq_one_comm.mp h2)
  rwa [det_transpose] at this

theorem sumKron_inv {ι κ : Type} [Fintype ι] [DecidableEq ι] [Fintype κ] [DecidableEq κ]
    (A C R : Matrix ι ι α) (hC : IsUnit C.det) (h : R * Rᵀ = C⁻¹) (B : Matrix ι κ α) :
    (A + C)⁻¹ * B = R * ((Rᵀ * A * R + 1)⁻¹ * (Rᵀ * B)) := by
  obtain ⟨hR, hcong⟩ := rootInv_congr R C hC h
  have : Rᵀ * (A + C) * R = Rᵀ * A * R + 1 := by rw [Matrix.mul_add, Matrix.add_mul, hcong]
  rw [congr_inv R (A + C) _ hR this]
  simp only [Matrix.mul_assoc]

section SumKron
variable {n1 n2 c : Nat}

theorem sumKronSolve2_refines (A1 C1 : Matrix (Fin n1) (Fin n1) α) (R1 : Mat α n1 n1)
    (A2 C2 : Matrix (Fin n2) (Fin n2) α) (R2 : Mat α n2 n2)
    (hC1 : IsUnit C1.det) (hC2 : IsUnit C2.det)
    (hR1 : Matrix.of R1 * (Matrix.of R1)ᵀ = C1⁻¹) (hR2 : Matrix.of R2 * (Matrix.of R2)ᵀ = C2⁻¹)
    (innerSolve : Mat α (n1 * n2) c → Mat α (n1 * n2) c)
    (hinner : ∀ X, (Matrix.of (innerSolve X) : Matrix _ _ α)
      = (KD ((Matrix.of R1)ᵀ * A1 * Matrix.of R1) ((Matrix.of R2)ᵀ * A2 * Matrix.of R2) + 1)⁻¹ * Matrix.of X)
    (rhs : Mat α (n1 * n2) c) :
    (Matrix.of (sumKronSolve2 R1 R2 innerSolve rhs) : Matrix _ _ α)
      = (KD A1 A2 + KD C1 C2)⁻¹ * Matrix.of rhs := by
  have hC : IsUnit (KD C1 C2).det := by
    have : KD C1 C2 * KD C1⁻¹ C2⁻¹ = 1 := by rw [KD_mul, mul_nonsing_inv _ hC1, mul_nonsing_inv _ hC2, KD_one]
    exact isUnit_det_of_right_inverse this
  have hR : KD (Matrix.of R1) (Matrix.of R2) * (KD (Matrix.of R1) (Matrix.of R2))ᵀ = (KD C1 C2)⁻¹ := by
    rw [KD_transpose, KD_mul, hR1, hR2]
    symm
    apply inv_eq_right_inv
    rw [KD_mul, mul_nonsing_inv _ hC1, mul_nonsing_inv _ hC2, KD_one]
  rw [sumKron_inv (KD A1 A2) (KD C1 C2) (KD (Matrix.of R1) (Matrix.of R2)) hC hR]
  simp only [sumKronSolve2, sumKronSolve2V, ofV_matV]
  rw [kronLoop2_KD, hinner, kronLoop2_KD, of_transpose, of_transpose, ← KD_transpose, KD_transpose, KD_mul, KD_mul]

end SumKron

/-! ## BatchRepeat -/

theorem batchRepeatSolve_refines {r b n c : Nat} (A : Fin b → Matrix (Fin n) (Fin n) α)
    (X : Fin (r * b) → Mat α n c) (p : Fin (r * b)) :
    (Matrix.of (batchRepeatSolve (fun bi => ((A bi)⁻¹ : Matrix _ _ α)) X p) : Matrix _ _ α)
      = (A (sndIdx p))⁻¹ * Matrix.of (X p) := by
  ext i k
  simp only [batchRepeatSolve, brepBack, brepToCols, Matrix.of_apply, Mat.mul, tab_eq, sumFin_eq_sum, Matrix.mul_apply,
    fstIdx_pairIdx, sndIdx_pairIdx]
  refine Finset.sum_congr rfl fun l _ => ?_
  congr 2
  apply Fin.ext
  simp only [pairIdx, fstIdx, sndIdx]
  exact Nat.div_add_mod' _ _

end LinOp.C04
