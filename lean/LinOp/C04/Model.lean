/-
C04 — executable model of linear_operator's solve machinery (core Lean only, no Mathlib).

Mirrors
  * `functions/_solve.py::_solve` and `functions/_inv_quad.py::_solve`      → `selectSolve`, `selectInvQuad`
  * which numerical routine is logged by `settings.verbose_linalg` for a
    solve on an operator tree (`trace`, `cholTrace`, `innerTrace`)            → exact discrete tie to the code
  * `torch.linalg.solve_triangular(T, B, upper=flag)` as the textbook forward / back substitution that
    reads ONLY the triangle named by the flag                                → `fwdSub`, `bwdSub`, `triSolve`
  * `TriangularLinearOperator._cholesky_solve` (two substitutions, order by `upper`)  → `cholSolve`
  * `DiagLinearOperator._cholesky_solve` / `solve`                            → `diagCholSolve`, `diagSolve`
  * `KroneckerProductLinearOperator._solve` (reshape → factor solve → reshape/permute loop)  → `kronLoop2`
  * `Solve.forward` left-factor handling (concatenate `[Lᵀ | R]`, solve once, slice, multiply) → `solveForward`
  * `LowRankRootAddedDiagLinearOperator._solve` (Woodbury)                    → `woodbury`
  * `BlockDiag/BlockInterleaved._add_batch_dim / _remove_batch_dim` around the base solve → `blockDiagSolve`, `blockInterleavedSolve`
  * `CholLinearOperator.inverse()` → `cholInverseRoot` (current code: a RootLinearOperator of L⁻ᵀ resp. R⁻¹);
    `cholInverseSolvePrevious` records the code before 05006ba (defect D09)
-/
import LinOp.Core.Basic

namespace LinOp.C04

/-! ## Method selection -/

structure Settings where
  maxChol : Nat            -- settings.max_cholesky_size.value()
  fastSolves : Bool        -- settings.fast_computations.solves.on()
  fastLogProb : Bool       -- settings.fast_computations.log_prob.on()   (inv_quad path only)
  precSize : Nat           -- settings.max_preconditioner_size.value()
  minPrec : Nat            -- settings.min_preconditioning_size.value()
  deriving DecidableEq, Repr

inductive Method | structured | cholesky | iterative
  deriving DecidableEq, Repr

def Method.name : Method → String
  | .structured => "structured" | .cholesky => "cholesky" | .iterative => "iterative"

/-- `functions/_solve.py::_solve`: Chol/Triangular → `linear_op.solve(rhs)`; fast solves off or
`size(-1) <= max_cholesky_size` → `cholesky()._cholesky_solve(rhs)`; else `linear_op._solve(rhs, preconditioner)`. -/
def selectSolve (cholOrTri : Bool) (n : Nat) (s : Settings) : Method :=
  if cholOrTri then .structured
  else if (!s.fastSolves) || decide (n ≤ s.maxChol) then .cholesky
  else .iterative

/-- `functions/_inv_quad.py::_solve` (no isinstance shortcut; `log_prob` flag also forces Cholesky). -/
def selectInvQuad (n : Nat) (s : Settings) : Method :=
  if (!s.fastSolves) || (!s.fastLogProb) || decide (n ≤ s.maxChol) then .cholesky else .iterative

/-! ## Which routine runs: the `verbose_linalg` trace of a solve -/

inductive Ev
  | chol (n : Nat)      -- "Running Cholesky on a matrix of size (..., n, n)"
  | cg (n : Nat)        -- "Running CG on a (..., n, c) RHS"
  | symeig (n : Nat)    -- "Running symeig on a matrix of size (..., n, n)"
  | pivchol (n : Nat)   -- "Running Pivoted Cholesky on a ... (..., n, n)"
  deriving DecidableEq, Repr

def Ev.show : Ev → String
  | .chol n => s!"chol:{n}" | .cg n => s!"cg:{n}" | .symeig n => s!"symeig:{n}" | .pivchol n => s!"pivchol:{n}"

def Ev.isCg : Ev → Bool | .cg _ => true | _ => false

/-- Operator classes as far as solve dispatch distinguishes them. -/
inductive Op
  | gen (n : Nat)                    -- no solve-related override (Dense, Toeplitz, Sum, PsdSum, ConstantMul, SumBatch, Kron+Diag general …)
  | addedDiag (n : Nat)              -- AddedDiagLinearOperator: pivoted-Cholesky preconditioner in front of CG
  | diag (n : Nat)                   -- Diag / ConstantDiag / KroneckerProductDiag: `solve` overridden, nothing logged
  | ident (n : Nat)
  | tri (n : Nat)                    -- TriangularLinearOperator(dense)
  | chol (n : Nat)                   -- CholLinearOperator(TriangularLinearOperator(dense))
  | kron (a b : Op)                  -- KroneckerProductLinearOperator(a, b)
  | kron3 (a b c : Op)
  | block (k : Nat) (base : Op)      -- BlockDiag / BlockInterleaved (k blocks)
  | brep (base : Op)                 -- BatchRepeatLinearOperator
  | lrrad (n k : Nat) (cached : Bool) -- LowRankRootAddedDiag, root n×k; `cached`: chol_cap_mat already in the cache
  | kpadloConst (a b : Op)           -- Kronecker(a,b) + ConstantDiag
  deriving Repr

def Op.size : Op → Nat
  | .gen n | .addedDiag n | .diag n | .ident n | .tri n | .chol n => n
  | .kron a b | .kpadloConst a b => a.size * b.size
  | .kron3 a b c => a.size * b.size * c.size
  | .block k base => k * base.size
  | .brep base => base.size
  | .lrrad n _ _ => n

def Op.isCholOrTri : Op → Bool
  | .diag _ | .ident _ | .tri _ | .chol _ => true      -- Diag and Identity are TriangularLinearOperator subclasses
  | _ => false

/-- `LinearOperator._cholesky` on the dense matrix: a 1×1 matrix takes the `sqrt` shortcut (nothing is logged),
otherwise `psd_safe_cholesky` logs "Running Cholesky". -/
def cholEv (n : Nat) : List Ev := if n = 1 then [] else [.chol n]

/-- events of `op.cholesky()` -/
def cholTrace : Op → List Ev
  | .gen n | .addedDiag n => cholEv n
  | .diag _ | .ident _ | .chol _ | .tri _ => []
  | .kron a b => cholTrace a ++ cholTrace b
  | .kron3 a b c => cholTrace a ++ cholTrace b ++ cholTrace c
  | .block _ base => cholTrace base
  | .brep base => cholTrace base
  | .lrrad n _ _ => cholEv n
  | .kpadloConst a b => cholEv (a.size * b.size)

mutual
/-- events of `op.solve(rhs)` (through `Solve.forward` → `_solve(linear_op, rhs)`, or the class's own `solve`) -/
def trace (s : Settings) : Op → List Ev
  | .gen n => match selectSolve false n s with
      | .iterative => [.cg n] | _ => cholEv n
  | .addedDiag n => match selectSolve false n s with
      | .iterative => (if s.precSize = 0 ∨ n < s.minPrec then [] else [.pivchol n]) ++ [.cg n]
      | _ => cholEv n
  | .diag _ | .ident _ | .tri _ | .chol _ => []
  | .lrrad _ k cached => if cached then [] else [.chol k]      -- own `solve`: Woodbury, no selection
  | .kron a b => match selectSolve false (a.size * b.size) s with
      | .iterative => trace s a ++ trace s b
      | _ => cholTrace a ++ cholTrace b
  | .kron3 a b c => match selectSolve false (a.size * b.size * c.size) s with
      | .iterative => trace s a ++ trace s b ++ trace s c
      | _ => cholTrace a ++ cholTrace b ++ cholTrace c
  | .block k base => match selectSolve false (k * base.size) s with
      | .iterative => innerTrace s base
      | _ => cholTrace base
  | .brep base => match selectSolve false base.size s with
      | .iterative => [.cg base.size]
      | _ => cholTrace base
  | .kpadloConst a b => match selectSolve false (a.size * b.size) s with
      | .iterative => [.symeig a.size, .symeig b.size]
      | _ => cholEv (a.size * b.size)
/-- events of `op._solve(rhs, preconditioner)` (what the block operators call on their base) -/
def innerTrace (s : Settings) : Op → List Ev
  | .gen n => [.cg n]
  | .addedDiag n => [.cg n]          -- the preconditioner handed down belongs to the block operator (none)
  | .diag _ | .ident _ | .tri _ | .chol _ => []
  | .lrrad _ k cached => if cached then [] else [.chol k]
  | .kron a b => trace s a ++ trace s b
  | .kron3 a b c => trace s a ++ trace s b ++ trace s c
  | .block _ base => innerTrace s base
  | .brep base => [.cg base.size]
  | .kpadloConst a b => [.symeig a.size, .symeig b.size]
end

/-! ## Substitution: `torch.linalg.solve_triangular` -/

section Values
variable {α : Type} [Add α] [Sub α] [Mul α] [Div α] [Zero α]

/-- Forward substitution on the LOWER triangle of `T` (entries above the diagonal are never read). -/
def fwdSub : (n : Nat) → Mat α n n → (Fin n → α) → (Fin n → α)
  | 0, _, _ => fun i => i.elim0
  | n + 1, T, b =>
    let x0 := b 0 / T 0 0
    let rest := fwdSub n (fun i j => T i.succ j.succ) (fun i => b i.succ - T i.succ 0 * x0)
    fun i => Fin.cases x0 rest i

/-- Back substitution on the UPPER triangle of `T` (entries below the diagonal are never read). -/
def bwdSub : (n : Nat) → Mat α n n → (Fin n → α) → (Fin n → α)
  | 0, _, _ => fun i => i.elim0
  | n + 1, T, b =>
    let xl := b (Fin.last n) / T (Fin.last n) (Fin.last n)
    let rest := bwdSub n (fun i j => T i.castSucc j.castSucc) (fun i => b i.castSucc - T i.castSucc (Fin.last n) * xl)
    fun i => Fin.lastCases xl rest i

/-- `torch.linalg.solve_triangular(T, B, upper=upper)` column by column: the stored flag picks the substitution. -/
def triSolve {n m : Nat} (upper : Bool) (T : Mat α n n) (B : Mat α n m) : Mat α n m :=
  let cols : Fin m → Fin n → α := fun j =>
    tab1 (if upper then bwdSub n T (fun i => B i j) else fwdSub n T (fun i => B i j))
  fun i j => cols j i

/-- `TriangularLinearOperator(T, upper=flag)._transpose_nonbatch().solve(·)`: the transposed tensor with the flag flipped. -/
def triSolveT {n m : Nat} (upper : Bool) (T : Mat α n n) (B : Mat α n m) : Mat α n m :=
  triSolve (!upper) (Mat.transpose T) B

/-- `TriangularLinearOperator._cholesky_solve(rhs, upper)` fallback = `torch.cholesky_solve(rhs, T, upper)`:
upper: `U⁻¹ (U⁻ᵀ v)`; lower: `L⁻ᵀ (L⁻¹ v)` — the triangle named by `upper` is the only one read. -/
def cholSolve {n m : Nat} (upper : Bool) (T : Mat α n n) (B : Mat α n m) : Mat α n m :=
  if upper then triSolve true T (triSolveT true T B)
  else triSolveT false T (triSolve false T B)

/-- PREVIOUS CODE (before /repo commit 05006ba, defect D09): `CholLinearOperator(L).inverse()` wrapped
`Linv = root.inverse()` (a lower-triangular matrix for a lower root) as `TriangularLinearOperator(Linv, upper=True)` inside
`CholLinearOperator(·, upper=True)`, whose `solve` is `root._cholesky_solve(B, upper=True)` — the upper triangle of a
LOWER-triangular `Linv` was read.  Kept only as a statement about that code; the current code is `cholInverseRoot`. -/
def cholInverseSolvePrevious {n m : Nat} (rootUpper : Bool) (linv : Mat α n n) (B : Mat α n m) : Mat α n m :=
  cholSolve (!rootUpper) linv B

/-- CURRENT CODE: `CholLinearOperator.inverse()` computes `Linv = self.root.inverse()` (`root.solve(eye)`: the stored flag
picks the substitution) and returns `RootLinearOperator(Linv)` for an upper root, `RootLinearOperator(Linvᵀ)` for a lower
one.  This is the root `B` handed to `RootLinearOperator` (so the operator is `B Bᵀ`). -/
def cholInverseRoot [One α] {n : Nat} (rootUpper : Bool) (T : Mat α n n) : Mat α n n :=
  let linv := triSolve rootUpper T (Mat.one : Mat α n n)
  if rootUpper then linv else Mat.transpose linv

/-- What the inverse operator's solve must return: `(A⁻¹)⁻¹ B = A B`, with `A = L Lᵀ` (lower) or `RᵀR` (upper). -/
def cholInverseSolveSpec {n m : Nat} (rootUpper : Bool) (root : Mat α n n) (B : Mat α n m) : Mat α n m :=
  if rootUpper then Mat.mul (Mat.transpose root) (Mat.mul root B) else Mat.mul root (Mat.mul (Mat.transpose root) B)

def diagSolve {n m : Nat} (d : Fin n → α) (B : Mat α n m) : Mat α n m := fun i j => B i j / d i

/-- `DiagLinearOperator._cholesky_solve`: `rhs / diag²` (the operator is the Cholesky factor). -/
def diagCholSolve {n m : Nat} (d : Fin n → α) (B : Mat α n m) : Mat α n m := fun i j => B i j / (d i * d i)

/-! ### Kronecker solve loop, two factors
`y = rhs.reshape(n1, n2·c); y = A⁻¹ y; y = y.reshape(n1, n2, c).permute(1,0,2)` then the same for the second
factor; final `reshape(n1·n2, c)`.  `ai`, `bi` stand for the factor solves (exact inverses in the driver). -/

def pairIdx {a b : Nat} (i : Fin a) (j : Fin b) : Fin (a * b) :=
  ⟨i.1 * b + j.1, by
    have hi := i.2; have hj := j.2
    calc i.1 * b + j.1 < i.1 * b + b := Nat.add_lt_add_left hj _
      _ = (i.1 + 1) * b := by rw [Nat.add_mul, Nat.one_mul]
      _ ≤ a * b := Nat.mul_le_mul_right b hi⟩

def fstIdx {a b : Nat} (p : Fin (a * b)) : Fin a :=
  ⟨p.1 / b, by
    have hb : 0 < b := Nat.pos_of_ne_zero (fun h => by
      have h2 : p.1 < a * b := p.2
      simp [h] at h2)
    exact (Nat.div_lt_iff_lt_mul hb).2 p.2⟩

def sndIdx {a b : Nat} (p : Fin (a * b)) : Fin b :=
  ⟨p.1 % b, by
    have hb : 0 < b := Nat.pos_of_ne_zero (fun h => by
      have h2 : p.1 < a * b := p.2
      simp [h] at h2)
    exact Nat.mod_lt _ hb⟩

/-- The loop of `KroneckerProductLinearOperator._solve` for two factors, written on index functions:
step 1 contracts the first Kronecker index with `ai`, the permute moves it behind the second index,
step 2 contracts the second index with `bi`, the last permute restores the order. -/
def kronLoop2 {n1 n2 c : Nat} (ai : Mat α n1 n1) (bi : Mat α n2 n2) (rhs : Mat α (n1 * n2) c) : Mat α (n1 * n2) c :=
  -- y1[i1, (i2, k)] = Σ_j ai[i1, j] rhs[(j, i2), k]
  let y1 : Fin n1 → Fin n2 → Fin c → α := fun i1 i2 k => sumFin n1 fun j => ai i1 j * rhs (pairIdx j i2) k
  let y1 := fun i1 => tab (y1 i1)
  -- permuted view: z[i2, (i1, k)] = y1[i1, i2, k];  y2[i2, (i1, k)] = Σ_l bi[i2, l] z[l, (i1, k)]
  let y2 : Fin n2 → Fin n1 → Fin c → α := fun i2 i1 k => sumFin n2 fun l => bi i2 l * y1 i1 l k
  let y2 := fun i2 => tab (y2 i2)
  -- permute back and flatten: res[(i1, i2), k] = y2[i2, i1, k]
  fun p k => y2 (sndIdx p) (fstIdx p) k

/-- Dense Kronecker product `(A ⊗ B)[(i,k),(j,l)] = A[i,j]·B[k,l]` on flattened indices. -/
def kronDense {n1 n2 : Nat} (A : Mat α n1 n1) (B : Mat α n2 n2) : Mat α (n1 * n2) (n1 * n2) :=
  fun p q => A (fstIdx p) (fstIdx q) * B (sndIdx p) (sndIdx q)

/-! ### `Solve.forward` with a left factor -/

/-- `rhs = cat([Lᵀ, R], -1); solves = solve(rhs); res = L @ solves[..., o:]`, with `solve` the column-wise
linear map `X ↦ Ainv · X`. -/
def solveForward {n o p : Nat} (ainv : Mat α n n) (L : Mat α o n) (R : Mat α n p) : Mat α o p :=
  let cat : Mat α n (o + p) := fun i j => if h : j.1 < o then L ⟨j.1, h⟩ i else R i ⟨j.1 - o, by omega⟩
  let solves : Mat α n (o + p) := Mat.mul ainv cat
  let sliced : Mat α n p := fun i j => solves i ⟨o + j.1, by omega⟩
  Mat.mul L sliced

/-! ### Woodbury (LowRankRootAddedDiag) -/

/-- `A_inv = D⁻¹; res = Uᵀ(D⁻¹ rhs); res = cap⁻¹ res; res = D⁻¹(U res); solve = D⁻¹ rhs − res`
with `capInv` the exact inverse of `I + Uᵀ D⁻¹ U` (the code uses its Cholesky factor). -/
def woodbury {n k m : Nat} (d : Fin n → α) (U : Mat α n k) (capInv : Mat α k k) (B : Mat α n m) : Mat α n m :=
  let dB : Mat α n m := diagSolve d B
  let r1 : Mat α k m := Mat.mul (Mat.transpose U) dB
  let r2 : Mat α k m := Mat.mul capInv r1
  let r3 : Mat α n m := diagSolve d (Mat.mul U r2)
  fun i j => dB i j - r3 i j

/-- the capacitance matrix `I + Uᵀ D⁻¹ U` -/
def capMat [One α] {n k : Nat} (d : Fin n → α) (U : Mat α n k) : Mat α k k :=
  fun a b => (if a = b then 1 else 0) + sumFin n fun i => U i a * (U i b / d i)

/-! ### Block operators: `_add_batch_dim` → base solve → `_remove_batch_dim` -/

/-- BlockDiag: row `b·n + i` of the rhs goes to block `b`, row `i`. `binv b` is the solve of block `b`. -/
def blockDiagSolve {k n m : Nat} (binv : Fin k → Mat α n n) (B : Mat α (k * n) m) : Mat α (k * n) m :=
  fun p j => sumFin n fun l => binv (fstIdx p) (sndIdx p) l * B (pairIdx (fstIdx p) l) j

/-- BlockInterleaved: row `i·k + b` of the rhs goes to block `b`, row `i`. -/
def blockInterleavedSolve {k n m : Nat} (binv : Fin k → Mat α n n) (B : Mat α (n * k) m) : Mat α (n * k) m :=
  fun p j => sumFin n fun l => binv (sndIdx p) (fstIdx p) l * B (pairIdx l (sndIdx p)) j

end Values

end LinOp.C04
