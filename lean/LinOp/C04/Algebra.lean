/-
C04 — the matrix identities behind each direct solve path (Mathlib matrices over a field, any size).
Factorizations (`L Lᵀ = A`, `Q Λ Qᵀ`, orthogonality) are hypotheses: the primitives that produce them
(`cholesky_ex`, `eigh`) are assumed to meet these contracts.
-/
import Mathlib.LinearAlgebra.Matrix.NonsingularInverse
import Mathlib.Data.Matrix.Block
import Mathlib.Data.Matrix.ColumnRowPartitioned
import Mathlib.LinearAlgebra.Matrix.Permutation

set_option linter.unusedSectionVars false

namespace LinOp.C04
open Matrix
open scoped Kronecker

variable {α : Type*} [Field α]
variable {ι κ μ : Type*} [Fintype ι] [DecidableEq ι] [Fintype κ] [DecidableEq κ] [Fintype μ] [DecidableEq μ]

/-- Any `X` with `A X = B` is `A⁻¹ B` (the bridge used by every path). -/
theorem solve_unique {A : Matrix ι ι α} {X B : Matrix ι κ α} (hA : IsUnit A.det) (h : A * X = B) :
    X = A⁻¹ * B := by
  rw [← h, nonsing_inv_mul_cancel_left _ _ hA]

/-- `L Lᵀ = A ⇒ L⁻ᵀ (L⁻¹ B) = A⁻¹ B` — lower Cholesky solve. -/
theorem cholSolve_lower {L A : Matrix ι ι α} (B : Matrix ι κ α) (h : L * Lᵀ = A) :
    (Lᵀ)⁻¹ * (L⁻¹ * B) = A⁻¹ * B := by
  rw [← h, Matrix.mul_inv_rev, Matrix.mul_assoc]

/-- `Rᵀ R = A ⇒ R⁻¹ (R⁻ᵀ B) = A⁻¹ B` — upper Cholesky solve. -/
theorem cholSolve_upper {R A : Matrix ι ι α} (B : Matrix ι κ α) (h : Rᵀ * R = A) :
    R⁻¹ * ((Rᵀ)⁻¹ * B) = A⁻¹ * B := by
  rw [← h, Matrix.mul_inv_rev, Matrix.mul_assoc]

/-- Inverse of a Cholesky-factored matrix: `(L Lᵀ)⁻¹ = (L⁻¹)ᵀ L⁻¹`, i.e. with `R := L⁻¹` it is `Rᵀ R`
(the "upper" reading of the stored factor `R`), NOT `R Rᵀ`. -/
theorem chol_inverse_orientation (L : Matrix ι ι α) : (L * Lᵀ)⁻¹ = (L⁻¹)ᵀ * L⁻¹ := by
  rw [Matrix.mul_inv_rev, transpose_nonsing_inv]

theorem chol_inverse_orientation_upper (R : Matrix ι ι α) : (Rᵀ * R)⁻¹ = R⁻¹ * (R⁻¹)ᵀ := by
  rw [Matrix.mul_inv_rev, transpose_nonsing_inv]

/-- Diagonal solve: `diag(d)⁻¹ B = B / d` row-wise. -/
theorem diagSolve_eq (d : ι → α) (hd : ∀ i, d i ≠ 0) (B : Matrix ι κ α) :
    (diagonal d)⁻¹ * B = of fun i j => B i j / d i := by
  have hu : IsUnit (diagonal d).det := by
    rw [det_diagonal]
    exact isUnit_iff_ne_zero.mpr (Finset.prod_ne_zero_iff.mpr fun i _ => hd i)
  symm
  apply solve_unique hu
  ext i j
  simp [diagonal_mul, mul_div_cancel₀ _ (hd i)]

/-- `DiagLinearOperator._cholesky_solve`: the operator is the factor `s`, the matrix is `diag(s²)`. -/
theorem diagCholSolve_eq (s : ι → α) (hs : ∀ i, s i ≠ 0) (B : Matrix ι κ α) :
    (diagonal s * (diagonal s)ᵀ)⁻¹ * B = of fun i j => B i j / (s i * s i) := by
  rw [diagonal_transpose, diagonal_mul_diagonal]
  exact diagSolve_eq _ (fun i => mul_ne_zero (hs i) (hs i)) B

/-- `(A ⊗ B)⁻¹ = A⁻¹ ⊗ B⁻¹`. -/
theorem kronSolve (A : Matrix ι ι α) (B : Matrix κ κ α) : (A ⊗ₖ B)⁻¹ = A⁻¹ ⊗ₖ B⁻¹ :=
  inv_kronecker A B

theorem kronSolve3 (A : Matrix ι ι α) (B : Matrix κ κ α) (C : Matrix μ μ α) :
    ((A ⊗ₖ B) ⊗ₖ C)⁻¹ = (A⁻¹ ⊗ₖ B⁻¹) ⊗ₖ C⁻¹ := by
  rw [inv_kronecker, inv_kronecker]

/-- Applying the factor inverses solves the Kronecker system. -/
theorem kronSolve_mul {A : Matrix ι ι α} {B : Matrix κ κ α} (hA : IsUnit A.det) (hB : IsUnit B.det)
    (X : Matrix (ι × κ) μ α) : (A ⊗ₖ B) * ((A⁻¹ ⊗ₖ B⁻¹) * X) = X := by
  rw [← Matrix.mul_assoc, ← mul_kronecker_mul, mul_nonsing_inv _ hA, mul_nonsing_inv _ hB, one_kronecker_one,
    Matrix.one_mul]

/-- Kronecker + constant diagonal, eigen-shift: `(QΛQᵀ + cI) · Q(Λ+c)⁻¹Qᵀ = I` for orthogonal `Q`. -/
theorem kpadlo_constDiag_mul {Q : Matrix ι ι α} (ev : ι → α) (c : α) (h1 : Qᵀ * Q = 1) (h2 : Q * Qᵀ = 1)
    (hne : ∀ i, ev i + c ≠ 0) :
    (Q * diagonal ev * Qᵀ + c • (1 : Matrix ι ι α)) * (Q * diagonal (fun i => (ev i + c)⁻¹) * Qᵀ) = 1 := by
  have hc : c • (1 : Matrix ι ι α) = Q * diagonal (fun _ => c) * Qᵀ := by
    have : diagonal (fun _ : ι => c) = c • (1 : Matrix ι ι α) := by
      ext i j; by_cases h : i = j <;> simp [h, diagonal, one_apply]
    rw [this, Matrix.mul_smul, Matrix.smul_mul, Matrix.mul_one, h2]
  rw [hc, ← Matrix.add_mul, ← Matrix.mul_add, diagonal_add]
  calc Q * diagonal (fun i => ev i + c) * Qᵀ * (Q * diagonal (fun i => (ev i + c)⁻¹) * Qᵀ)
      = Q * diagonal (fun i => ev i + c) * (Qᵀ * Q) * diagonal (fun i => (ev i + c)⁻¹) * Qᵀ := by
        simp only [Matrix.mul_assoc]
    _ = Q * (diagonal (fun i => ev i + c) * diagonal (fun i => (ev i + c)⁻¹)) * Qᵀ := by
        rw [h1, Matrix.mul_one]; simp only [Matrix.mul_assoc]
    _ = 1 := by
        rw [diagonal_mul_diagonal]
        have : (fun i => (ev i + c) * (ev i + c)⁻¹) = fun _ : ι => (1 : α) := by
          funext i; exact mul_inv_cancel₀ (hne i)
        rw [this, diagonal_one, Matrix.mul_one, h2]

/-- The constant-diagonal branch of `KroneckerProductAddedDiagLinearOperator._solve`. -/
theorem kpadlo_constDiag_solve {Q : Matrix ι ι α} (ev : ι → α) (c : α) (h1 : Qᵀ * Q = 1) (h2 : Q * Qᵀ = 1)
    (hne : ∀ i, ev i + c ≠ 0) (B : Matrix ι κ α) :
    (Q * diagonal ev * Qᵀ + c • (1 : Matrix ι ι α))⁻¹ * B
      = Q * (diagonal (fun i => (ev i + c)⁻¹) * (Qᵀ * B)) := by
  rw [inv_eq_right_inv (kpadlo_constDiag_mul ev c h1 h2 hne)]
  simp only [Matrix.mul_assoc]

/-- … in the form the code evaluates: two half-steps with `(Λ+c)^{-1/2}`. -/
theorem kpadlo_constDiag_sqrt {Q : Matrix ι ι α} (ev r : ι → α) (c : α) (h1 : Qᵀ * Q = 1) (h2 : Q * Qᵀ = 1)
    (hr : ∀ i, r i * r i = ev i + c) (hr0 : ∀ i, r i ≠ 0) (B : Matrix ι κ α) :
    (Q * diagonal (fun i => (r i)⁻¹)) * (diagonal (fun i => (r i)⁻¹) * (Qᵀ * B))
      = (Q * diagonal ev * Qᵀ + c • (1 : Matrix ι ι α))⁻¹ * B := by
  have hne : ∀ i, ev i + c ≠ 0 := fun i => by rw [← hr i]; exact mul_ne_zero (hr0 i) (hr0 i)
  rw [kpadlo_constDiag_solve ev c h1 h2 hne, Matrix.mul_assoc, ← Matrix.mul_assoc (diagonal _) (diagonal _),
    diagonal_mul_diagonal]
  congr 3
  funext i
  rw [← hr i, mul_inv]

/-- Kronecker + Kronecker-structured constant diagonal (`D = d·I`): `(K + D)⁻¹ = D⁻¹ Q (Λ/d + 1)⁻¹ Qᵀ`. -/
theorem kpadlo_kronConst_solve {Q : Matrix ι ι α} (ev : ι → α) (d : α) (hd : d ≠ 0) (h1 : Qᵀ * Q = 1)
    (h2 : Q * Qᵀ = 1) (hne : ∀ i, ev i / d + 1 ≠ 0) (B : Matrix ι κ α) :
    (Q * diagonal ev * Qᵀ + d • (1 : Matrix ι ι α))⁻¹ * B
      = d⁻¹ • (Q * (diagonal (fun i => (ev i / d + 1)⁻¹) * (Qᵀ * B))) := by
  have hne' : ∀ i, ev i + d ≠ 0 := fun i => by
    have := hne i
    rw [div_add_one hd] at this
    exact fun h => this (by rw [h, zero_div])
  have hdiag : diagonal (fun i => (ev i + d)⁻¹) = d⁻¹ • diagonal (fun i => (ev i / d + 1)⁻¹) := by
    rw [← diagonal_smul]
    congr 1; funext i
    simp only [Pi.smul_apply, smul_eq_mul]
    have h3 := hne' i
    have h4 := hne i
    field_simp
  rw [kpadlo_constDiag_solve ev d h1 h2 hne', hdiag]
  simp only [Matrix.smul_mul, Matrix.mul_smul]

/-- Woodbury for `D + U Uᵀ` with the capacitance matrix `C = I + Uᵀ D⁻¹ U`:
`(D + UUᵀ)⁻¹ B = D⁻¹B − D⁻¹ U C⁻¹ Uᵀ D⁻¹ B`. -/
theorem woodbury_solve (D : Matrix ι ι α) (U : Matrix ι κ α) (B : Matrix ι μ α) (hD : IsUnit D.det)
    (hC : IsUnit ((1 : Matrix κ κ α) + Uᵀ * D⁻¹ * U).det) :
    (D + U * Uᵀ)⁻¹ * B = D⁻¹ * B - D⁻¹ * (U * (((1 : Matrix κ κ α) + Uᵀ * D⁻¹ * U)⁻¹ * (Uᵀ * (D⁻¹ * B)))) := by
  have hw := add_mul_mul_inv_eq_sub D U (1 : Matrix κ κ α) Uᵀ ((isUnit_iff_isUnit_det _).2 hD) isUnit_one
    (by rw [inv_one]; exact (isUnit_iff_isUnit_det _).2 hC)
  rw [Matrix.mul_one, inv_one] at hw
  rw [hw, Matrix.sub_mul]
  simp only [Matrix.mul_assoc]

/-- Block-diagonal solve: the inverse of a block-diagonal matrix is the block diagonal of the inverses. -/
theorem block_solve (M : μ → Matrix ι ι α) (h : ∀ k, IsUnit (M k).det) :
    (blockDiagonal M)⁻¹ = blockDiagonal fun k => (M k)⁻¹ := by
  apply inv_eq_right_inv
  rw [← blockDiagonal_mul]
  have : (fun k => M k * (M k)⁻¹) = (1 : μ → Matrix ι ι α) := by
    funext k; exact mul_nonsing_inv _ (h k)
  rw [this, blockDiagonal_one]

/-- Permutation solve: `P⁻¹ = Pᵀ`. -/
theorem perm_solve (σ : Equiv.Perm ι) : (σ.permMatrix α)⁻¹ = (σ.permMatrix α)ᵀ := by
  apply inv_eq_right_inv
  rw [transpose_permMatrix, ← permMatrix_mul]
  simp

/-- `PermutationLinearOperator._matmul` is `x ↦ x ∘ perm`; solving is applying the inverse permutation. -/
def permApply {β : Type*} (σ : Equiv.Perm ι) (x : ι → β) : ι → β := fun i => x (σ i)

theorem perm_solve_apply {β : Type*} (σ : Equiv.Perm ι) (x : ι → β) :
    permApply σ⁻¹ (permApply σ x) = x ∧ permApply σ (permApply σ⁻¹ x) = x := by
  constructor <;> funext i <;> simp [permApply]

/-- `Solve.forward` with a left factor: concatenate `[Lᵀ | R]`, solve once, keep the last block of
columns, multiply by `L` — the left factor is applied exactly once: `L A⁻¹ R`. -/
theorem solveForward_left (A : Matrix ι ι α) (Lf : Matrix κ ι α) (R : Matrix ι μ α) :
    Lf * (A⁻¹ * fromCols Lfᵀ R).toCols₂ = Lf * A⁻¹ * R ∧ (A⁻¹ * fromCols Lfᵀ R).toCols₁ = A⁻¹ * Lfᵀ := by
  rw [mul_fromCols, toCols₂_fromCols, toCols₁_fromCols, Matrix.mul_assoc]
  exact ⟨rfl, rfl⟩

end LinOp.C04
