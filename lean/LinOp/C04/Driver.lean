import LinOp.Core.Parse
import LinOp.C04.Model
import LinOp.C04.ModelEig
import LinOp.C04.ModelSelect
import LinOp.C04.ModelBcast
/-! Line-protocol driver for the C04 solve model (exact rationals).
  sel solve <cholOrTri 0/1> <n> <maxChol> <fast 0/1>
  sel invquad <n> <maxChol> <fast> <logprob>
  trace <maxChol> <fast> <precSize> <minPrec> <op tokens …>      op ::= gen n | ad n | diag n | id n | tri n | chol n
        | kron op op | kron3 op op op | block k op | brep op | lrrad n k cached | kpc op op
  tri|chols|cholinvroot|cholinvprev|cholinvspec <upper 0/1> <n> <m> <T> <B>     (cholinvroot ignores B)
  diag|diagchol <n> <m> <d> <B>
  kron <n1> <n2> <c> <Ainv> <Binv> <rhs>        krond <n1> <n2> <A> <B>
  left <n> <o> <p> <Ainv> <L> <R>
  woodbury <n> <k> <m> <d> <U> <capInv> <B>      cap <n> <k> <d> <U>
  bdiag|bint <k> <n> <m> <stacked block inverses (k·n rows, n cols)> <B>
  (update 4; `sq` = exact rational square root, inputs are chosen so that every radicand is a perfect square)
  kpconst <n1> <n2> <c> <Q1> <Q2> <e1> <e2> <cst> <rhs>
  kpkconst <n1> <n2> <c> <Q1> <Q2> <e1> <e2> <d1> <d2> <rhs>            (d1, d2 scalars)
  kpsymm <n1> <n2> <c> <Q1> <Q2> <e1> <e2> <d1 list> <d2 list> <rhs>
  sumkron <n1> <n2> <c> <RC> <RD> <Q1> <Q2> <e1> <e2> <rhs>             (inner solve = kpadloConstSolve2 … cst = 1)
  brepsolve <r> <b> <n> <c> <stacked base inverses (b·n rows)> <stacked rhs (r·b·n rows, c cols)>
  kronn <c> <sizes n1,n2,…> <stacked factor-solve matrices (Σ n_i rows; row i padded to max n)> <rhs (R rows, c cols)>
  bcastsolve <n> <c> <sA> <sB> <stacked inverses (prod sA · n rows)> <stacked rhs (prod sB · n rows)>   (shapes `s2x1`, `s` = ())
  bcastleft <n> <c> <o> <sA> <sB> <sL> <inverses> <rhs> <stacked left factors (prod sL · o rows, n cols)>
  bcastkron <n1> <n2> <c> <sA> <sB> <factor-1 inverses> <factor-2 inverses> <rhs (prod sB · n1·n2 rows)>
  method <solve|invquad|iql> <class> <n> <maxChol> <fast> <logprob> <precSize> <minPrec> <chol> <triRoot> <capChol>  -/
open LinOp LinOp.C04 LinOp.Parse

def getM (a : Array (Array Rat)) (n m : Nat) : Mat Rat n m := Mat.ofArrays n m a
def out {n m : Nat} (A : Mat Rat n m) : String := showMat A.toLists
def b01 (s : String) : Bool := s = "1"

def parseOp : Nat → List String → Option (Op × List String)
  | 0, _ => none
  | fuel + 1, toks =>
    match toks with
    | "gen" :: n :: r => n.toNat?.map fun n => (Op.gen n, r)
    | "ad" :: n :: r => n.toNat?.map fun n => (Op.addedDiag n, r)
    | "diag" :: n :: r => n.toNat?.map fun n => (Op.diag n, r)
    | "id" :: n :: r => n.toNat?.map fun n => (Op.ident n, r)
    | "tri" :: n :: r => n.toNat?.map fun n => (Op.tri n, r)
    | "chol" :: n :: r => n.toNat?.map fun n => (Op.chol n, r)
    | "lrrad" :: n :: k :: c :: r => do
        let n ← n.toNat?; let k ← k.toNat?
        pure (Op.lrrad n k (b01 c), r)
    | "kron" :: r => do
        let (a, r) ← parseOp fuel r; let (b, r) ← parseOp fuel r
        pure (Op.kron a b, r)
    | "kpc" :: r => do
        let (a, r) ← parseOp fuel r; let (b, r) ← parseOp fuel r
        pure (Op.kpadloConst a b, r)
    | "kron3" :: r => do
        let (a, r) ← parseOp fuel r; let (b, r) ← parseOp fuel r; let (c, r) ← parseOp fuel r
        pure (Op.kron3 a b c, r)
    | "block" :: k :: r => do
        let k ← k.toNat?; let (a, r) ← parseOp fuel r
        pure (Op.block k a, r)
    | "brep" :: r => do
        let (a, r) ← parseOp fuel r
        pure (Op.brep a, r)
    | _ => none

def showEvs (l : List Ev) : String := if l.isEmpty then "-" else ",".intercalate (l.map Ev.show)

def run (line : String) : String :=
  match words line with
  | ["sel", "solve", cot, n, mc, fast] =>
    match n.toNat?, mc.toNat? with
    | some n, some mc => (selectSolve (b01 cot) n ⟨mc, b01 fast, true, 0, 0⟩).name
    | _, _ => "bad-op"
  | ["sel", "invquad", n, mc, fast, lp] =>
    match n.toNat?, mc.toNat? with
    | some n, some mc => (selectInvQuad n ⟨mc, b01 fast, b01 lp, 0, 0⟩).name
    | _, _ => "bad-op"
  | "trace" :: mc :: fast :: ps :: mp :: toks =>
    match mc.toNat?, ps.toNat?, mp.toNat?, parseOp 64 toks with
    | some mc, some ps, some mp, some (op, []) =>
      let s : Settings := ⟨mc, b01 fast, true, ps, mp⟩
      s!"{op.size} {(selectSolve op.isCholOrTri op.size s).name} {showEvs (trace s op)}"
    | _, _, _, _ => "bad-op"
  | [cmd, up, n, m, t, b] =>
    match n.toNat?, m.toNat?, parseMat? t, parseMat? b with
    | some n, some m, some t, some b =>
      let T := getM t n n; let B := getM b n m
      if cmd = "tri" then out (triSolve (b01 up) T B)
      else if cmd = "chols" then out (cholSolve (b01 up) T B)
      else if cmd = "cholinvprev" then out (cholInverseSolvePrevious (b01 up) T B)
      else if cmd = "cholinvroot" then out (cholInverseRoot (b01 up) T)
      else if cmd = "cholinvspec" then out (cholInverseSolveSpec (b01 up) T B)
      else "bad-op"
    | _, _, _, _ => "bad-op"
  | [cmd, n, m, d, b] =>
    match n.toNat?, m.toNat?, parseRats? d, parseMat? b with
    | some n, some m, some d, some b =>
      let da := d.toArray
      let dv : Fin n → Rat := fun i => da[i.1]!
      if cmd = "diag" then out (diagSolve dv (getM b n m))
      else if cmd = "diagchol" then out (diagCholSolve dv (getM b n m))
      else if cmd = "cap" then out (capMat dv (getM b n m))      -- cap n k d U
      else "bad-op"
    | _, _, _, _ =>
      if cmd = "krond" then
        match n.toNat?, m.toNat?, parseMat? d, parseMat? b with
        | some n1, some n2, some a, some b => out (kronDense (getM a n1 n1) (getM b n2 n2))
        | _, _, _, _ => "bad-op"
      else "bad-op"
  | ["kron", n1, n2, c, a, b, r] =>
    match n1.toNat?, n2.toNat?, c.toNat?, parseMat? a, parseMat? b, parseMat? r with
    | some n1, some n2, some c, some a, some b, some r =>
      out (kronLoop2 (getM a n1 n1) (getM b n2 n2) (getM r (n1 * n2) c))
    | _, _, _, _, _, _ => "bad-op"
  | ["left", n, o, p, a, l, r] =>
    match n.toNat?, o.toNat?, p.toNat?, parseMat? a, parseMat? l, parseMat? r with
    | some n, some o, some p, some a, some l, some r =>
      out (solveForward (getM a n n) (getM l o n) (getM r n p))
    | _, _, _, _, _, _ => "bad-op"
  | ["woodbury", n, k, m, d, u, ci, b] =>
    match n.toNat?, k.toNat?, m.toNat?, parseRats? d, parseMat? u, parseMat? ci, parseMat? b with
    | some n, some k, some m, some d, some u, some ci, some b =>
      let da := d.toArray
      out (woodbury (fun i : Fin n => da[i.1]!) (getM u n k) (getM ci k k) (getM b n m))
    | _, _, _, _, _, _, _ => "bad-op"
  | _ => "bad-op"

def runBlock (line : String) : Option String :=
  match words line with
  | [cmd, k, n, m, bi, b] =>
    if cmd = "bdiag" || cmd = "bint" then
      match k.toNat?, n.toNat?, m.toNat?, parseMat? bi, parseMat? b with
      | some k, some n, some m, some bi, some b =>
        let binv : Fin k → Mat Rat n n := fun blk i j => (bi[blk.1 * n + i.1]!)[j.1]!
        if cmd = "bdiag" then some (out (blockDiagSolve binv (getM b (k * n) m)))
        else some (out (blockInterleavedSolve binv (getM b (n * k) m)))
      | _, _, _, _, _ => some "bad-op"
    else none
  | _ => none

/-! ### update 4: eigen-structured solves, BatchRepeat, N-factor Kronecker loop, decision function -/

def ratSqrt (q : Rat) : Rat := ((q.num.toNat.sqrt : Nat) : Rat) / ((q.den.sqrt : Nat) : Rat)

def outV {n m : Nat} (v : Vector (Vector Rat m) n) : String := showMat (v.toList.map Vector.toList)

def vecOf (l : List Rat) (n : Nat) : Fin n → Rat := let a := l.toArray; fun i => a[i.1]!

/-- batch shape `s2x1x3` (`s` = the empty shape) -/
def parseShape (s : String) : Option (List Nat) :=
  match s.splitOn "s" with
  | ["", r] => ((r.splitOn "x").filter (· ≠ "")).mapM String.toNat?
  | _ => none

def parseCls : String → Option OpClass
  | "generic" => some .generic | "addedDiag" => some .addedDiag | "diag" => some .diag | "ident" => some .ident
  | "tri" => some .tri | "kronTri" => some .kronTri | "chol" => some .chol | "kron" => some .kron
  | "kpadloConst" => some .kpadloConst | "kpadloKronConst" => some .kpadloKronConst | "kpadloKronDiag" => some .kpadloKronDiag
  | "kpadloOther" => some .kpadloOther | "sumKron" => some .sumKron | "lrrad" => some .lrrad | "blockDiag" => some .blockDiag
  | "blockInterleaved" => some .blockInterleaved | "batchRepeat" => some .batchRepeat | _ => none

def parseEntry : String → Option Entry
  | "solve" => some .solve | "invquad" => some .invQuad | "iql" => some .invQuadLogdet | _ => none

def runNew (line : String) : Option String :=
  match words line with
  | ["kpconst", n1, n2, c, q1, q2, e1, e2, cst, r] =>
    match n1.toNat?, n2.toNat?, c.toNat?, parseMat? q1, parseMat? q2, parseRats? e1, parseRats? e2, parseRat? cst, parseMat? r with
    | some n1, some n2, some c, some q1, some q2, some e1, some e2, some cst, some r =>
      some (outV (kpadloConstSolve2V ratSqrt (getM q1 n1 n1) (getM q2 n2 n2) (vecOf e1 n1) (vecOf e2 n2) cst (getM r (n1 * n2) c)))
    | _, _, _, _, _, _, _, _, _ => some "bad-op"
  | ["kpkconst", n1, n2, c, q1, q2, e1, e2, d1, d2, r] =>
    match n1.toNat?, n2.toNat?, c.toNat?, parseMat? q1, parseMat? q2, parseRats? e1, parseRats? e2, parseRat? d1, parseRat? d2, parseMat? r with
    | some n1, some n2, some c, some q1, some q2, some e1, some e2, some d1, some d2, some r =>
      some (outV (kpadloKronConstSolve2V (getM q1 n1 n1) (getM q2 n2 n2) (vecOf e1 n1) (vecOf e2 n2) d1 d2 (getM r (n1 * n2) c)))
    | _, _, _, _, _, _, _, _, _, _ => some "bad-op"
  | ["kpsymm", n1, n2, c, q1, q2, e1, e2, d1, d2, r] =>
    match n1.toNat?, n2.toNat?, c.toNat?, parseMat? q1, parseMat? q2, parseRats? e1, parseRats? e2, parseRats? d1, parseRats? d2, parseMat? r with
    | some n1, some n2, some c, some q1, some q2, some e1, some e2, some d1, some d2, some r =>
      some (outV (kpadloSymmSolve2V ratSqrt (getM q1 n1 n1) (getM q2 n2 n2) (vecOf e1 n1) (vecOf e2 n2) (vecOf d1 n1) (vecOf d2 n2)
        (getM r (n1 * n2) c)))
    | _, _, _, _, _, _, _, _, _, _ => some "bad-op"
  | ["sumkron", n1, n2, c, rc, rd, q1, q2, e1, e2, r] =>
    match n1.toNat?, n2.toNat?, c.toNat?, parseMat? rc, parseMat? rd, parseMat? q1, parseMat? q2, parseRats? e1, parseRats? e2, parseMat? r with
    | some n1, some n2, some c, some rc, some rd, some q1, some q2, some e1, some e2, some r =>
      some (outV (sumKronSolve2V (getM rc n1 n1) (getM rd n2 n2)
        (kpadloConstSolve2V ratSqrt (getM q1 n1 n1) (getM q2 n2 n2) (vecOf e1 n1) (vecOf e2 n2) 1) (getM r (n1 * n2) c)))
    | _, _, _, _, _, _, _, _, _, _ => some "bad-op"
  | ["brepsolve", r, b, n, c, bi, x] =>
    match r.toNat?, b.toNat?, n.toNat?, c.toNat?, parseMat? bi, parseMat? x with
    | some r, some b, some n, some c, some bi, some x =>
      let binv : Fin b → Mat Rat n n := fun blk i j => (bi[blk.1 * n + i.1]!)[j.1]!
      let X : Fin (r * b) → Mat Rat n c := fun p i k => (x[p.1 * n + i.1]!)[k.1]!
      let Y := batchRepeatSolve binv X
      some (showMat ((List.finRange (r * b)).flatMap fun p => (Y p).toLists))
    | _, _, _, _, _, _ => some "bad-op"
  | ["kronn", c, sizes, ms, r] =>
    match c.toNat?, parseRats? sizes, parseMat? ms, parseMat? r with
    | some c, some sizes, some ms, some r =>
      let ns := sizes.map fun q => q.num.toNat
      let R := ns.foldr (· * ·) 1
      let offs := ns.foldl (fun (acc : List Nat × Nat) n => (acc.1 ++ [acc.2], acc.2 + n)) ([], 0)
      let facs : List (Nat × (Nat → Nat → Rat)) := (ns.zip offs.1).map fun (n, off) => (n, fun i j => (ms[off + i]!)[j]!)
      let y0 : Array Rat := Array.ofFn (n := R * c) fun t => (r[t.1 / c]!)[t.1 % c]!
      let y := kronLoopN R c facs y0
      some (showMat ((List.range R).map fun p => (List.range c).map fun k => y.getD (p * c + k) 0))
    | _, _, _, _ => some "bad-op"
  | ["method", e, cls, n, mc, fast, lp, ps, mp, ch, tr, cc] =>
    match parseEntry e, parseCls cls, n.toNat?, mc.toNat?, ps.toNat?, mp.toNat? with
    | some e, some cls, some n, some mc, some ps, some mp =>
      some (methodOf e cls n ⟨mc, b01 fast, b01 lp, ps, mp⟩ ⟨b01 ch, b01 tr, b01 cc⟩).name
    | _, _, _, _, _, _ => some "bad-op"
  | ["bcastsolve", n, c, sa, sb, ai, x] =>
    match n.toNat?, c.toNat?, parseShape sa, parseShape sb, parseMat? ai, parseMat? x with
    | some n, some c, some sA, some sB, some ai, some x =>
      match LinOp.C01.broadcastShape sA sB with
      | none => some "shape-error"
      | some out =>
        let Ainv : Nat → Mat Rat n n := fun m i j => (ai[m * n + i.1]!)[j.1]!
        let B : Nat → Mat Rat n c := fun m i k => (x[m * n + i.1]!)[k.1]!
        let Y := solveBroadcastFlat sA sB out Ainv B
        some (showMat ((List.range (prodL out)).flatMap fun p => (Y p).toLists))
    | _, _, _, _, _, _ => some "bad-op"
  | ["bcastleft", n, c, o, sa, sb, sl, ai, x, l] =>
    match n.toNat?, c.toNat?, o.toNat?, parseShape sa, parseShape sb, parseShape sl, parseMat? ai, parseMat? x, parseMat? l with
    | some n, some c, some o, some sA, some sB, some sL, some ai, some x, some l =>
      match LinOp.C01.broadcastShape sA sB with
      | none => some "shape-error"
      | some out =>
        match LinOp.C01.broadcastShape sL out with
        | none => some "shape-error"
        | some out2 =>
          let Ainv : Nat → Mat Rat n n := fun m i j => (ai[m * n + i.1]!)[j.1]!
          let B : Nat → Mat Rat n c := fun m i k => (x[m * n + i.1]!)[k.1]!
          let L : Nat → Mat Rat o n := fun m i k => (l[m * o + i.1]!)[k.1]!
          let S := solveBroadcastFlat sA sB out Ainv B
          let Sv : Array (Mat Rat n c) := (Array.range (prodL out)).map fun p => getM ((S p).toLists.map List.toArray).toArray n c
          let Y := leftBroadcastFlat sL out out2 L (fun q => Sv.getD q (fun _ _ => 0))
          some (showMat ((List.range (prodL out2)).flatMap fun p => (Y p).toLists))
    | _, _, _, _, _, _, _, _, _ => some "bad-op"
  | ["bcastkron", n1, n2, c, sa, sb, ai, bi, x] =>
    match n1.toNat?, n2.toNat?, c.toNat?, parseShape sa, parseShape sb, parseMat? ai, parseMat? bi, parseMat? x with
    | some n1, some n2, some c, some sA, some sB, some ai, some bi, some x =>
      match LinOp.C01.broadcastShape sA sB with
      | none => some "shape-error"
      | some out =>
        let Ainv : Nat → Mat Rat n1 n1 := fun m i j => (ai[m * n1 + i.1]!)[j.1]!
        let Binv : Nat → Mat Rat n2 n2 := fun m i j => (bi[m * n2 + i.1]!)[j.1]!
        let X : Nat → Mat Rat (n1 * n2) c := fun m i k => (x[m * (n1 * n2) + i.1]!)[k.1]!
        let Y := kronSolveBroadcastFlat sA sB out Ainv Binv X
        some (showMat ((List.range (prodL out)).flatMap fun p => (Y p).toLists))
    | _, _, _, _, _, _, _, _ => some "bad-op"
  | _ => none

def main : IO Unit := do
  loop (← IO.getStdin) () (fun _ l => ((), match runNew l with
    | some r => r
    | none => match runBlock l with | some r => r | none => run l))
