/-
C04 — the hand-written mirror of the source facts the model was written against.  `LinOp/Generated/C04Select.lean`
is regenerated from /repo on every run; `Properties/C04.lean` proves (by `decide`) that the regenerated facts equal
these, so any edit of the selection code, of the hook table or of the CG stopping rule breaks an obligation.
-/
import LinOp.C04.Model
import LinOp.Generated.C04Select

namespace LinOp.C04.Expected

def solveTests : List String := ["isinstance(linear_op, (CholLinearOperator, TriangularLinearOperator))", "settings.fast_computations.solves.off() or linear_op.size(-1) <= settings.max_cholesky_size.value()"]
def solveReturns : List String := ["linear_op.solve(rhs)", "linear_op.cholesky()._cholesky_solve(rhs)", "linear_op._solve(rhs, preconditioner)"]
def invQuadTests : List String := ["settings.fast_computations.solves.off() or settings.fast_computations.log_prob.off() or linear_op.size(-1) <= settings.max_cholesky_size.value()"]
def invQuadReturns : List String := ["linear_op.cholesky()._cholesky_solve(rhs)", "linear_op._solve(rhs, preconditioner)"]
def cgStopTests : List String := ["k >= min(10, max_iter - 1) and bool(residual_norm.mean() < tolerance) and (not (n_tridiag and k < min(n_tridiag_iter, max_iter - 1)))"]
def cgNIter : String := "min(max_iter, num_rows) if settings.terminate_cg_by_size.on() else max_iter"
def precondSwitch : String := "settings.max_preconditioner_size.value() == 0 or self.size(-1) < settings.min_preconditioning_size.value()"
def cgEps : String := "1e-10"
def cgStopUpdatingAfter : String := "1e-10"
/-- eigen-structured solves and the base `_symeig` read the SYMEIG dtype; nothing on a solve path reads the Cholesky dtype -/
def linalgDtypeReads : List (String × String × List String) := [("KroneckerProductAddedDiagLinearOperator", "_solve", ["_linalg_dtype_symeig"]), ("LinearOperator", "_symeig", ["_linalg_dtype_symeig"])]

def hookTable : List (String × List String) := [
  ("AbstractPermutationLinearOperator", ["_solve", "inverse"]),
  ("AddedDiagLinearOperator", ["_preconditioner"]),
  ("BatchRepeatLinearOperator", ["_cholesky", "_cholesky_solve", "inv_quad_logdet"]),
  ("BlockDiagLinearOperator", ["_cholesky", "_cholesky_solve", "_solve", "inv_quad_logdet"]),
  ("BlockInterleavedLinearOperator", ["_cholesky", "_cholesky_solve", "_solve", "inv_quad_logdet"]),
  ("CatLinearOperator", ["inv_quad_logdet"]),
  ("CholLinearOperator", ["_cholesky", "_solve", "inv_quad", "inv_quad_logdet", "inverse", "solve"]),
  ("ConstantDiagLinearOperator", ["inverse"]),
  ("DenseLinearOperator", ["_cholesky_solve"]),
  ("DiagLinearOperator", ["_cholesky", "_cholesky_solve", "inv_quad_logdet", "inverse", "solve"]),
  ("IdentityLinearOperator", ["_cholesky", "_cholesky_solve", "inv_quad_logdet", "inverse", "solve"]),
  ("KroneckerProductAddedDiagLinearOperator", ["_preconditioner", "_solve", "inv_quad_logdet"]),
  ("KroneckerProductDiagLinearOperator", ["_cholesky", "inverse"]),
  ("KroneckerProductLinearOperator", ["_cholesky", "_inv_matmul", "_solve", "inv_quad_logdet", "inverse"]),
  ("KroneckerProductTriangularLinearOperator", ["_cholesky", "_cholesky_solve", "inverse", "solve"]),
  ("LinearOperator", ["_cholesky", "_cholesky_solve", "_preconditioner", "_solve", "_solve_preconditioner", "inv_quad", "inv_quad_logdet", "inverse", "solve"]),
  ("LowRankRootAddedDiagLinearOperator", ["_preconditioner", "_solve", "_solve_preconditioner", "inv_quad_logdet", "solve"]),
  ("SumKroneckerLinearOperator", ["_solve", "inv_quad_logdet"]),
  ("TriangularLinearOperator", ["_cholesky", "_cholesky_solve", "_solve", "inv_quad_logdet", "inverse", "solve"]),
  ("ZeroLinearOperator", ["inv_quad", "inv_quad_logdet", "solve"])]

end LinOp.C04.Expected

namespace LinOp.C04

/-- the settings in force when nothing is overridden (today's defaults, from the generated file) -/
def defaultSettings : Settings :=
  ⟨Generated.C04.maxCholeskySizeDefault, Generated.C04.fastSolvesDefault, Generated.C04.fastLogProbDefault,
   Generated.C04.maxPreconditionerSizeDefault, Generated.C04.minPreconditioningSizeDefault⟩

end LinOp.C04
