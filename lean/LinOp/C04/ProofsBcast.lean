/-
C04 — proofs for the batch-broadcast solve on flat buffers (`ModelBcast.lean`).
-/
import LinOp.C04.ModelBcast
import LinOp.C04.Proofs
import LinOp.C01.ProofsE

namespace LinOp.C04
open LinOp.C01 (broadcastShape restrict InBox)
open LinOp.C01.E (restrict_inBox restrict_of_inBox)
open Matrix

theorem prodL_pos_of_lt {s : List Nat} {p : Nat} (h : p < prodL s) : 0 < prodL s := by omega

theorem unflat_inBox : ∀ (s : List Nat) (p : Nat), p < prodL s → InBox s (unflat s p)
  | [], _, _ => trivial
  | a :: s, p, h => by
    simp only [prodL] at h
    have hpos : 0 < prodL s := by
      rcases Nat.eq_zero_or_pos (prodL s) with h0 | h0
      · rw [h0] at h; omega
      · exact h0
    refine ⟨?_, unflat_inBox s _ (Nat.mod_lt _ hpos)⟩
    exact Nat.div_lt_of_lt_mul (by rw [Nat.mul_comm]; exact h)

theorem flatOf_lt : ∀ (s idx : List Nat), InBox s idx → flatOf s idx < prodL s
  | [], [], _ => by simp [flatOf, prodL]
  | [], _ :: _, h => absurd h (by simp [InBox])
  | _ :: _, [], h => absurd h (by simp [InBox])
  | a :: s, i :: idx, h => by
    obtain ⟨hi, hr⟩ := h
    have ih := flatOf_lt s idx hr
    simp only [flatOf, prodL]
    have : (i + 1) * prodL s ≤ a * prodL s := Nat.mul_le_mul_right _ hi
    rw [Nat.add_mul] at this
    omega

theorem flatOf_unflat : ∀ (s : List Nat) (p : Nat), p < prodL s → flatOf s (unflat s p) = p
  | [], p, h => by simp [prodL] at h; simp [flatOf, unflat, h]
  | a :: s, p, h => by
    simp only [prodL] at h
    have hpos : 0 < prodL s := by
      rcases Nat.eq_zero_or_pos (prodL s) with h0 | h0
      · rw [h0] at h; omega
      · exact h0
    simp only [unflat, flatOf]
    rw [flatOf_unflat s _ (Nat.mod_lt _ hpos)]
    exact Nat.div_add_mod' p (prodL s)

theorem unflat_flatOf : ∀ (s idx : List Nat), InBox s idx → unflat s (flatOf s idx) = idx
  | [], [], _ => rfl
  | [], _ :: _, h => absurd h (by simp [InBox])
  | _ :: _, [], h => absurd h (by simp [InBox])
  | a :: s, i :: idx, h => by
    obtain ⟨_, hr⟩ := h
    have hlt := flatOf_lt s idx hr
    have hpos : 0 < prodL s := by omega
    simp only [flatOf, unflat]
    have h1 : (i * prodL s + flatOf s idx) / prodL s = i := by
      rw [Nat.add_comm, Nat.add_mul_div_right _ _ hpos, Nat.div_eq_of_lt hlt, Nat.zero_add]
    have h2 : (i * prodL s + flatOf s idx) % prodL s = flatOf s idx := by
      rw [Nat.add_comm, Nat.add_mul_mod_self_right, Nat.mod_eq_of_lt hlt]
    rw [h1, h2, unflat_flatOf s idx hr]

/-- the index map of a broadcasting operand: in range, and its multi-index is C01's `restrict` of the output multi-index. -/
theorem bcastMember_spec {s t out : List Nat} (h : broadcastShape s t = some out) {p : Nat} (hp : p < prodL out) :
    bcastMember s out p < prodL s ∧ bcastMember t out p < prodL t ∧
    unflat s (bcastMember s out p) = restrict s (unflat out p) ∧
    unflat t (bcastMember t out p) = restrict t (unflat out p) := by
  have hb := restrict_inBox h (unflat_inBox out p hp)
  exact ⟨flatOf_lt _ _ hb.1, flatOf_lt _ _ hb.2, unflat_flatOf _ _ hb.1, unflat_flatOf _ _ hb.2⟩

variable {α : Type} [Field α]

theorem solveBroadcastFlat_refines {n c : Nat} (sA sB out : List Nat) (A : Nat → Matrix (Fin n) (Fin n) α)
    (B : Nat → Mat α n c) (p : Nat) :
    (Matrix.of (solveBroadcastFlat sA sB out (fun m => ((A m)⁻¹ : Matrix _ _ α)) B p) : Matrix _ _ α)
      = (A (bcastMember sA out p))⁻¹ * Matrix.of (B (bcastMember sB out p)) := by
  ext i k
  simp only [solveBroadcastFlat, Matrix.of_apply, Mat.mul, tab_eq, sumFin_eq_sum, Matrix.mul_apply]

theorem kronSolveBroadcastFlat_refines {n1 n2 c : Nat} (sA sB out : List Nat) (A : Nat → Mat α n1 n1) (B : Nat → Mat α n2 n2)
    (X : Nat → Mat α (n1 * n2) c) (p : Nat) :
    (Matrix.of (kronSolveBroadcastFlat sA sB out (fun m => ((Matrix.of (A m))⁻¹ : Matrix (Fin n1) (Fin n1) α))
        (fun m => ((Matrix.of (B m))⁻¹ : Matrix (Fin n2) (Fin n2) α)) X p) : Matrix _ _ α)
      = (Matrix.of (kronDense (A (bcastMember sA out p)) (B (bcastMember sA out p))))⁻¹ * Matrix.of (X (bcastMember sB out p)) := by
  simp only [kronSolveBroadcastFlat]
  exact kronLoop2_solves _ _ _

end LinOp.C04
