/-
C04 — executable models of the eigen-structured solves (core Lean only, no Mathlib).

Mirrors
  * `KroneckerProductAddedDiagLinearOperator._solve`, constant diagonal  → `kpadloConstSolve2`
      evals, Q = K.diagonalization();  r = (evals + c)^(1/2);  res = Qᵀ rhs;  res2 = r⁻¹ res;  (Q r⁻¹) res2
  * … Kronecker-structured diagonal with constant factors (`_constant_kpadlt_constructor`) → `kpadloKronConstSolve2`
      evals_p_i = ⊗(Λ_i / d_i) + 1;  res1 = (Qᵀ rhs) / evals_p_i;  res = (Q res1) / (d_1 d_2)
  * … Kronecker-structured diagonal, general (`_symmetrize_kpadlt_constructor`) → `kpadloSymmSolve2`
      S = ⊗ D_i^{-1/2};  (Λ̃_i, Q̃_i) = eigh(S_i K_i S_i);  res = S Q̃ ((Q̃ᵀ S rhs) / (⊗Λ̃_i + 1))
  * `SumKroneckerLinearOperator._solve`  → `sumKronSolve2`
      R = ⊗ root_inv(C_i);  res = Rᵀ rhs;  res = inner.solve(res);  res = R res      (inner = ⊗(R_iᵀ A_i R_i) + 1·I)
  * `BatchRepeatLinearOperator._cholesky_solve` (`_move_repeat_batches_to_columns` → base solve →
    `_move_repeat_batches_back`)  → `batchRepeatSolve`
  * `KroneckerProductLinearOperator._solve` / `_matmul` for ANY number of factors on a flat buffer → `kronStep`, `kronLoopN`
Every Kronecker-structured matmul (`Q.matmul`, `Qᵀ.matmul`, `R.matmul`) is the reshape/permute loop `kronLoop2`.
`eigh` / `sqrt` / `root_inv_decomposition` are parameters (their outputs are inputs of the model).
-/
import LinOp.C04.Model

namespace LinOp.C04

section Values
variable {α : Type} [Add α] [Sub α] [Mul α] [Div α] [Zero α] [One α]

/-- diagonal of a `KroneckerProductDiagLinearOperator` / eigenvalues of a Kronecker product: `(e1 ⊗ e2)[(i,j)] = e1[i]·e2[j]` -/
def kronVec {n1 n2 : Nat} (e1 : Fin n1 → α) (e2 : Fin n2 → α) : Fin (n1 * n2) → α :=
  fun p => e1 (fstIdx p) * e2 (sndIdx p)

/-- `DiagLinearOperator(d).matmul(X)` -/
def diagMul {n c : Nat} (d : Fin n → α) (X : Mat α n c) : Mat α n c := fun i k => d i * X i k

/-! Strict materialisation between the stages (the driver runs the `…V` functions: they return data, so every stage is
computed once; the `Mat`-valued functions the theorems talk about are `ofV` of them). -/

def matV {n m : Nat} (f : Mat α n m) : Vector (Vector α m) n := Vector.ofFn fun i => Vector.ofFn (f i)
def ofV {n m : Nat} (v : Vector (Vector α m) n) : Mat α n m := fun i j => (v[i.1]'i.2)[j.1]'j.2
def vecV {n : Nat} (f : Fin n → α) : Vector α n := Vector.ofFn f
def ofV1 {n : Nat} (v : Vector α n) : Fin n → α := fun i => v[i.1]'i.2

@[simp] theorem ofV_matV {n m : Nat} (f : Mat α n m) : ofV (matV f) = f := by
  funext i j; simp [ofV, matV]

@[simp] theorem ofV1_vecV {n : Nat} (f : Fin n → α) : ofV1 (vecV f) = f := by
  funext i; simp [ofV1, vecV]

/-- Constant diagonal `c·I`: `sq` is the square-root primitive, `(Q_i, e_i)` what `eigh` returned for factor `i`. -/
def kpadloConstSolve2V {n1 n2 c : Nat} (sq : α → α) (Q1 : Mat α n1 n1) (Q2 : Mat α n2 n2)
    (e1 : Fin n1 → α) (e2 : Fin n2 → α) (cst : α) (rhs : Mat α (n1 * n2) c) : Vector (Vector α c) (n1 * n2) :=
  let rinv := vecV fun p => 1 / sq (kronVec e1 e2 p + cst)                              -- evals_root.reciprocal()
  let res := matV (kronLoop2 (Mat.transpose Q1) (Mat.transpose Q2) rhs)                -- q_matrix.mT.matmul(rhs)
  let res2 := matV (diagMul (ofV1 rinv) (ofV res))                                      -- inv_mat_sqrt.matmul(res)
  let res3 := matV (diagMul (ofV1 rinv) (ofV res2))                                     -- (Q · inv_mat_sqrt).matmul(res2), inner factor
  matV (kronLoop2 Q1 Q2 (ofV res3))

def kpadloConstSolve2 {n1 n2 c : Nat} (sq : α → α) (Q1 : Mat α n1 n1) (Q2 : Mat α n2 n2)
    (e1 : Fin n1 → α) (e2 : Fin n2 → α) (cst : α) (rhs : Mat α (n1 * n2) c) : Mat α (n1 * n2) c :=
  ofV (kpadloConstSolve2V sq Q1 Q2 e1 e2 cst rhs)

/-- Diagonal `(d1·I) ⊗ (d2·I)` (`_constant_kpadlt_constructor`). -/
def kpadloKronConstSolve2V {n1 n2 c : Nat} (Q1 : Mat α n1 n1) (Q2 : Mat α n2 n2)
    (e1 : Fin n1 → α) (e2 : Fin n2 → α) (d1 d2 : α) (rhs : Mat α (n1 * n2) c) : Vector (Vector α c) (n1 * n2) :=
  let evp := vecV fun p => kronVec (fun i => e1 i / d1) (fun j => e2 j / d2) p + 1
  let t := matV (kronLoop2 (Mat.transpose Q1) (Mat.transpose Q2) rhs)
  let res1 := matV (diagSolve (ofV1 evp) (ofV t))                   -- evals_p_i.solve(evecsᵀ rhs)
  let u := matV (kronLoop2 Q1 Q2 (ofV res1))
  matV (diagSolve (kronVec (fun _ : Fin n1 => d1) (fun _ : Fin n2 => d2)) (ofV u))    -- dlt.solve(…)

def kpadloKronConstSolve2 {n1 n2 c : Nat} (Q1 : Mat α n1 n1) (Q2 : Mat α n2 n2)
    (e1 : Fin n1 → α) (e2 : Fin n2 → α) (d1 d2 : α) (rhs : Mat α (n1 * n2) c) : Mat α (n1 * n2) c :=
  ofV (kpadloKronConstSolve2V Q1 Q2 e1 e2 d1 d2 rhs)

/-- Diagonal `D1 ⊗ D2` with arbitrary positive diagonals (`_symmetrize_kpadlt_constructor`);
`(Q_i, e_i)` is what `eigh` returned for the symmetrised factor `D_i^{-1/2} K_i D_i^{-1/2}`. -/
def kpadloSymmSolve2V {n1 n2 c : Nat} (sq : α → α) (Q1 : Mat α n1 n1) (Q2 : Mat α n2 n2)
    (e1 : Fin n1 → α) (e2 : Fin n2 → α) (d1 : Fin n1 → α) (d2 : Fin n2 → α) (rhs : Mat α (n1 * n2) c) :
    Vector (Vector α c) (n1 * n2) :=
  let s := vecV (kronVec (fun i => 1 / sq (d1 i)) (fun j => 1 / sq (d2 j)))   -- dlt.sqrt().inverse()
  let evp := vecV fun p => kronVec e1 e2 p + 1
  let r0 := matV (diagMul (ofV1 s) rhs)
  let res1 := matV (kronLoop2 (Mat.transpose Q1) (Mat.transpose Q2) (ofV r0))
  let res2 := matV (diagSolve (ofV1 evp) (ofV res1))
  let res3 := matV (kronLoop2 Q1 Q2 (ofV res2))
  matV (diagMul (ofV1 s) (ofV res3))

def kpadloSymmSolve2 {n1 n2 c : Nat} (sq : α → α) (Q1 : Mat α n1 n1) (Q2 : Mat α n2 n2)
    (e1 : Fin n1 → α) (e2 : Fin n2 → α) (d1 : Fin n1 → α) (d2 : Fin n2 → α) (rhs : Mat α (n1 * n2) c) :
    Mat α (n1 * n2) c :=
  ofV (kpadloSymmSolve2V sq Q1 Q2 e1 e2 d1 d2 rhs)

/-- `SumKroneckerLinearOperator._solve`: `RC`, `RD` are the roots returned by `root_inv_decomposition()` of the factors of
the SECOND Kronecker summand, `innerSolve` is `inner_mat.solve`. -/
def sumKronSolve2V {n1 n2 c : Nat} (RC : Mat α n1 n1) (RD : Mat α n2 n2)
    (innerSolveV : Mat α (n1 * n2) c → Vector (Vector α c) (n1 * n2)) (rhs : Mat α (n1 * n2) c) :
    Vector (Vector α c) (n1 * n2) :=
  let res := matV (kronLoop2 (Mat.transpose RC) (Mat.transpose RD) rhs)
  let res := innerSolveV (ofV res)
  matV (kronLoop2 RC RD (ofV res))

def sumKronSolve2 {n1 n2 c : Nat} (RC : Mat α n1 n1) (RD : Mat α n2 n2)
    (innerSolve : Mat α (n1 * n2) c → Mat α (n1 * n2) c) (rhs : Mat α (n1 * n2) c) : Mat α (n1 * n2) c :=
  ofV (sumKronSolve2V RC RD (fun X => matV (innerSolve X)) rhs)

/-! ### BatchRepeat: repeats become extra columns of the base solve
rhs `(r·b, n, c)` → view `(r, b, n, c)` → permute `(b, n, c, r)` → view `(b, n, c·r)`; base solve; view `(b, n, c, r)` →
permute `(r, b, n, c)` → view `(r·b, n, c)`. -/

def brepToCols {r b n c : Nat} (X : Fin (r * b) → Mat α n c) : Fin b → Mat α n (c * r) :=
  fun bi i q => X (pairIdx (sndIdx q) bi) i (fstIdx q)

def brepBack {r b n c : Nat} (Y : Fin b → Mat α n (c * r)) : Fin (r * b) → Mat α n c :=
  fun p i k => Y (sndIdx p) i (pairIdx k (fstIdx p))

/-- `baseInv bi` stands for the solve of base batch member `bi` (exact inverse in the driver). -/
def batchRepeatSolve {r b n c : Nat} (baseInv : Fin b → Mat α n n) (X : Fin (r * b) → Mat α n c) :
    Fin (r * b) → Mat α n c :=
  brepBack (fun bi => Mat.mul (baseInv bi) (brepToCols X bi))

end Values

/-! ### Kronecker `_solve` / `_matmul` loop for any number of factors, on the flat buffer
The tensor is a flat row-major buffer `Nat → α` of `R·c` entries (`R` rows, `c` columns).  One pass of the loop for a factor of
size `n`:  `y = M @ y.reshape(n, -1)`; `y.reshape(n, R/n, c).permute(1, 0, 2)` made contiguous.  -/

section Flat
variable {α : Type} [Add α] [Mul α] [Zero α]

def sumRange (n : Nat) (f : Nat → α) : α := (List.range n).foldl (fun acc j => acc + f j) 0

/-- one pass: output flat index `(r·n + i)·c + k`  ←  `Σ_j M[i,j] · y[(j·(R/n) + r)·c + k]` -/
def kronStep (R c n : Nat) (M : Nat → Nat → α) (y : Nat → α) : Nat → α :=
  fun t =>
    let k := t % c
    let p := t / c
    let i := p % n
    let r := p / n
    sumRange n fun j => M i j * y ((j * (R / n) + r) * c + k)

/-- one pass on the buffer as data -/
def kronStepA (R c n : Nat) (M : Nat → Nat → α) (y : Array α) : Array α :=
  Array.ofFn (n := R * c) fun t => kronStep R c n M (fun i => y.getD i 0) t.1

/-- the whole loop over the list of `(size, factor-solve matrix)` -/
def kronLoopN (R c : Nat) : List (Nat × (Nat → Nat → α)) → Array α → Array α
  | [], y => y
  | (n, M) :: rest, y => kronLoopN R c rest (kronStepA R c n M y)

/-- product of the factor sizes -/
def prodSizes : List (Nat × (Nat → Nat → α)) → Nat
  | [] => 1
  | (n, _) :: rest => n * prodSizes rest

/-- what reading an `Array` of `len` entries with `getD · 0` sees of an index function -/
def trunc (len : Nat) (f : Nat → α) : Nat → α := fun t => if t < len then f t else 0

/-- the loop on index functions (what `kronLoopN` computes, seen through `getD`) -/
def kronLoopF (R c : Nat) : List (Nat × (Nat → Nat → α)) → (Nat → α) → (Nat → α)
  | [], y => y
  | (n, M) :: rest, y => kronLoopF R c rest (trunc (R * c) (kronStep R c n M y))

/-- entries of `M_1 ⊗ … ⊗ M_N` on row-major flat indices -/
def kronEntryN [One α] : List (Nat × (Nat → Nat → α)) → Nat → Nat → α
  | [], _, _ => 1
  | (_, M) :: rest, p, q =>
    M (p / prodSizes rest) (q / prodSizes rest) * kronEntryN rest (p % prodSizes rest) (q % prodSizes rest)

end Flat

end LinOp.C04
