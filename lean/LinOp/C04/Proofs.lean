/-
C04 — the executable model refines the matrix specification.
-/
import LinOp.C04.Model
import LinOp.C04.Algebra
import LinOp.Core.Bridge
import Mathlib.LinearAlgebra.Matrix.Block
import Mathlib.LinearAlgebra.Matrix.Kronecker
import Mathlib.Logic.Equiv.Fin.Basic
import Mathlib.Tactic.Ring
import Mathlib.Tactic.FieldSimp

set_option linter.unusedSectionVars false

namespace LinOp.C04
open Matrix

variable {α : Type} [Field α]

theorem of_mat {n m : Nat} (X : Matrix (Fin n) (Fin m) α) : Matrix.of X = X := rfl

/-! ## Substitution -/

/-- Forward substitution solves the system given by the LOWER part of `T` (whatever sits above the
diagonal is never read). -/
theorem fwdSub_spec : ∀ (n : Nat) (T : Mat α n n) (b : Fin n → α), (∀ i, T i i ≠ 0) →
    ∀ i, ∑ j : Fin n, (if j ≤ i then T i j else 0) * fwdSub n T b j = b i
  | 0, _, _, _, i => i.elim0
  | n + 1, T, b, hd, i => by
    rw [Fin.sum_univ_succ]
    refine Fin.cases ?_ (fun i' => ?_) i
    · have h0 : ∀ j : Fin n, ¬ (j.succ ≤ (0 : Fin (n + 1))) := fun j h => by
        simp [Fin.le_def] at h
      simp only [fwdSub, Fin.cases_zero, le_refl, if_true, h0, if_false, zero_mul, Finset.sum_const_zero, add_zero]
      exact mul_div_cancel₀ _ (hd 0)
    · have ih := fwdSub_spec n (fun i j => T i.succ j.succ)
        (fun i => b i.succ - T i.succ 0 * (b 0 / T 0 0)) (fun i => hd i.succ) i'
      simp only [fwdSub, Fin.cases_zero, Fin.cases_succ, Fin.zero_le, if_true, Fin.succ_le_succ_iff] at ih ⊢
      rw [ih]
      ring

/-- Back substitution solves the system given by the UPPER part of `T`. -/
theorem bwdSub_spec : ∀ (n : Nat) (T : Mat α n n) (b : Fin n → α), (∀ i, T i i ≠ 0) →
    ∀ i, ∑ j : Fin n, (if i ≤ j then T i j else 0) * bwdSub n T b j = b i
  | 0, _, _, _, i => i.elim0
  | n + 1, T, b, hd, i => by
    rw [Fin.sum_univ_castSucc]
    refine Fin.lastCases ?_ (fun i' => ?_) i
    · have h0 : ∀ j : Fin n, ¬ (Fin.last n ≤ j.castSucc) := fun j h => by
        have := j.2
        simp [Fin.le_def] at h
        omega
      simp only [bwdSub, Fin.lastCases_last, le_refl, if_true, h0, if_false, zero_mul, Finset.sum_const_zero, zero_add]
      exact mul_div_cancel₀ _ (hd _)
    · have ih := bwdSub_spec n (fun i j => T i.castSucc j.castSucc)
        (fun i => b i.castSucc - T i.castSucc (Fin.last n) * (b (Fin.last n) / T (Fin.last n) (Fin.last n)))
        (fun i => hd i.castSucc) i'
      have hl : i'.castSucc ≤ Fin.last n := Fin.le_last _
      simp only [bwdSub, Fin.lastCases_last, Fin.lastCases_castSucc, hl, if_true,
        Fin.castSucc_le_castSucc_iff] at ih ⊢
      rw [ih]
      ring

def IsLower {n : Nat} (T : Mat α n n) : Prop := ∀ i j, i < j → T i j = 0
def IsUpper {n : Nat} (T : Mat α n n) : Prop := ∀ i j, j < i → T i j = 0

theorem isUnit_det_of_lower {n : Nat} (T : Mat α n n) (h : IsLower T) (hd : ∀ i, T i i ≠ 0) :
    IsUnit (Matrix.of T).det := by
  rw [det_of_lowerTriangular (Matrix.of T) (fun i j hij => h i j hij)]
  exact isUnit_iff_ne_zero.mpr (Finset.prod_ne_zero_iff.mpr fun i _ => hd i)

theorem isUnit_det_of_upper {n : Nat} (T : Mat α n n) (h : IsUpper T) (hd : ∀ i, T i i ≠ 0) :
    IsUnit (Matrix.of T).det := by
  rw [det_of_upperTriangular (M := Matrix.of T) (fun i j hij => h i j hij)]
  exact isUnit_iff_ne_zero.mpr (Finset.prod_ne_zero_iff.mpr fun i _ => hd i)

/-- flag = lower and the tensor is lower-triangular: `triSolve` is `T⁻¹ B`. -/
theorem triSolve_lower {n m : Nat} (T : Mat α n n) (B : Mat α n m) (h : IsLower T) (hd : ∀ i, T i i ≠ 0) :
    (Matrix.of (triSolve false T B) : Matrix (Fin n) (Fin m) α) = (Matrix.of T)⁻¹ * Matrix.of B := by
  apply solve_unique (isUnit_det_of_lower T h hd)
  ext i j
  have := fwdSub_spec n T (fun i => B i j) hd i
  simp only [Matrix.mul_apply, Matrix.of_apply, triSolve, tab1_eq, Bool.false_eq_true, if_false]
  rw [← this]
  refine Finset.sum_congr rfl fun l _ => ?_
  by_cases hl : l ≤ i
  · simp [hl]
  · simp [hl, h i l (lt_of_not_ge hl)]

/-- flag = upper and the tensor is upper-triangular: `triSolve` is `T⁻¹ B`. -/
theorem triSolve_upper {n m : Nat} (T : Mat α n n) (B : Mat α n m) (h : IsUpper T) (hd : ∀ i, T i i ≠ 0) :
    (Matrix.of (triSolve true T B) : Matrix (Fin n) (Fin m) α) = (Matrix.of T)⁻¹ * Matrix.of B := by
  apply solve_unique (isUnit_det_of_upper T h hd)
  ext i j
  have := bwdSub_spec n T (fun i => B i j) hd i
  simp only [Matrix.mul_apply, Matrix.of_apply, triSolve, tab1_eq, if_true]
  rw [← this]
  refine Finset.sum_congr rfl fun l _ => ?_
  by_cases hl : i ≤ l
  · simp [hl]
  · simp [hl, h i l (lt_of_not_ge hl)]

/-- With the WRONG flag only the diagonal of a triangular tensor is read: a lower-triangular tensor
solved with `upper=True` returns `diag(T)⁻¹ B`. -/
theorem triSolve_wrong_flag {n m : Nat} (T : Mat α n n) (B : Mat α n m) (h : IsLower T) (hd : ∀ i, T i i ≠ 0) :
    triSolve true T B = fun i j => B i j / T i i := by
  have hD : IsUpper (fun i j : Fin n => if i = j then T i i else 0) := fun i j hij => by
    simp [(ne_of_lt hij).symm]
  funext i j
  have hb := bwdSub_spec n T (fun i => B i j) hd i
  simp only [triSolve, tab1_eq, if_true]
  have : ∑ l : Fin n, (if i ≤ l then T i l else 0) * bwdSub n T (fun i => B i j) l
      = T i i * bwdSub n T (fun i => B i j) i := by
    rw [Finset.sum_eq_single i]
    · simp
    · intro l _ hli
      by_cases hl : i ≤ l
      · simp [hl, h i l (lt_of_le_of_ne hl (Ne.symm hli))]
      · simp [hl]
    · simp
  rw [this] at hb
  rw [← hb, mul_div_cancel_left₀ _ (hd i)]

/-- `_cholesky_solve(rhs, upper=False)` on a lower-triangular factor with non-zero diagonal is `(L Lᵀ)⁻¹ B`. -/
theorem cholSolve_model_lower {n m : Nat} (L : Mat α n n) (B : Mat α n m) (h : IsLower L) (hd : ∀ i, L i i ≠ 0) :
    (Matrix.of (cholSolve false L B) : Matrix (Fin n) (Fin m) α)
      = ((Matrix.of L) * (Matrix.of L)ᵀ)⁻¹ * Matrix.of B := by
  have hU : IsUpper (Mat.transpose L) := fun i j hij => h j i hij
  have hdU : ∀ i, Mat.transpose L i i ≠ 0 := fun i => hd i
  simp only [cholSolve, Bool.false_eq_true, if_false, triSolveT, Bool.not_false]
  rw [triSolve_upper _ _ hU hdU]
  have h1 := triSolve_lower L B h hd
  rw [show (Matrix.of (triSolve false L B)) = (Matrix.of L)⁻¹ * Matrix.of B from h1]
  exact cholSolve_lower (Matrix.of B) rfl

/-- `_cholesky_solve(rhs, upper=True)` on an upper-triangular factor is `(RᵀR)⁻¹ B`. -/
theorem cholSolve_model_upper {n m : Nat} (R : Mat α n n) (B : Mat α n m) (h : IsUpper R) (hd : ∀ i, R i i ≠ 0) :
    (Matrix.of (cholSolve true R B) : Matrix (Fin n) (Fin m) α)
      = ((Matrix.of R)ᵀ * (Matrix.of R))⁻¹ * Matrix.of B := by
  have hL : IsLower (Mat.transpose R) := fun i j hij => h j i hij
  have hdL : ∀ i, Mat.transpose R i i ≠ 0 := fun i => hd i
  simp only [cholSolve, if_true, triSolveT, Bool.not_true]
  rw [triSolve_upper _ _ h hd]
  have h1 := triSolve_lower (Mat.transpose R) B hL hdL
  rw [show (Matrix.of (triSolve false (Mat.transpose R) B)) = (Matrix.of (Mat.transpose R))⁻¹ * Matrix.of B from h1]
  exact cholSolve_upper (Matrix.of B) rfl

/-! ## Inverse of a Cholesky operator (current code) -/

theorem of_one {n : Nat} : (Matrix.of (Mat.one : Mat α n n) : Matrix (Fin n) (Fin n) α) = 1 := by
  ext i j; simp [Mat.one, Matrix.one_apply]

/-- lower root `L`: the root handed to `RootLinearOperator` is `B = (L⁻¹)ᵀ` and `B Bᵀ = (L Lᵀ)⁻¹`. -/
theorem cholInverseRoot_lower {n : Nat} (L : Mat α n n) (h : IsLower L) (hd : ∀ i, L i i ≠ 0) :
    (Matrix.of (cholInverseRoot false L) : Matrix (Fin n) (Fin n) α) * (Matrix.of (cholInverseRoot false L))ᵀ
      = (Matrix.of L * (Matrix.of L)ᵀ)⁻¹ := by
  have h1 := triSolve_lower L (Mat.one : Mat α n n) h hd
  rw [of_one, Matrix.mul_one] at h1
  have h2 : (Matrix.of (cholInverseRoot false L) : Matrix (Fin n) (Fin n) α) = ((Matrix.of L)⁻¹)ᵀ := by
    rw [← h1]; rfl
  rw [h2, Matrix.transpose_transpose, chol_inverse_orientation]

/-- upper root `R`: the root is `B = R⁻¹` and `B Bᵀ = (RᵀR)⁻¹`. -/
theorem cholInverseRoot_upper {n : Nat} (R : Mat α n n) (h : IsUpper R) (hd : ∀ i, R i i ≠ 0) :
    (Matrix.of (cholInverseRoot true R) : Matrix (Fin n) (Fin n) α) * (Matrix.of (cholInverseRoot true R))ᵀ
      = ((Matrix.of R)ᵀ * Matrix.of R)⁻¹ := by
  have h1 := triSolve_upper R (Mat.one : Mat α n n) h hd
  rw [of_one, Matrix.mul_one] at h1
  have h2 : (Matrix.of (cholInverseRoot true R) : Matrix (Fin n) (Fin n) α) = (Matrix.of R)⁻¹ := by
    rw [← h1]; rfl
  rw [h2, chol_inverse_orientation_upper]

/-! ## Diagonal -/

theorem diagSolve_model {n m : Nat} (d : Fin n → α) (hd : ∀ i, d i ≠ 0) (B : Mat α n m) :
    (Matrix.of (diagSolve d B) : Matrix (Fin n) (Fin m) α) = (diagonal d)⁻¹ * Matrix.of B :=
  (diagSolve_eq d hd (Matrix.of B)).symm

theorem diagCholSolve_model {n m : Nat} (s : Fin n → α) (hs : ∀ i, s i ≠ 0) (B : Mat α n m) :
    (Matrix.of (diagCholSolve s B) : Matrix (Fin n) (Fin m) α)
      = (diagonal s * (diagonal s)ᵀ)⁻¹ * Matrix.of B :=
  (diagCholSolve_eq s hs (Matrix.of B)).symm

/-! ## Kronecker loop -/

theorem fstIdx_pairIdx {a b : Nat} (i : Fin a) (j : Fin b) : fstIdx (pairIdx i j) = i := by
  apply Fin.ext
  simp only [fstIdx, pairIdx]
  have hb : 0 < b := Nat.pos_of_ne_zero (fun h => by have := j.2; omega)
  rw [Nat.add_comm, Nat.add_mul_div_right _ _ hb, Nat.div_eq_of_lt j.2, Nat.zero_add]

theorem sndIdx_pairIdx {a b : Nat} (i : Fin a) (j : Fin b) : sndIdx (pairIdx i j) = j := by
  apply Fin.ext
  simp only [sndIdx, pairIdx]
  rw [Nat.add_comm, Nat.add_mul_mod_self_right, Nat.mod_eq_of_lt j.2]

theorem pairIdx_eq_equiv {a b : Nat} (i : Fin a) (j : Fin b) : pairIdx i j = finProdFinEquiv (i, j) := by
  apply Fin.ext
  simp [pairIdx, finProdFinEquiv, Nat.mul_comm, Nat.add_comm]

theorem sum_pair {a b : Nat} (f : Fin (a * b) → α) : ∑ q, f q = ∑ i : Fin a, ∑ j : Fin b, f (pairIdx i j) := by
  rw [← Fintype.sum_prod_type', ← finProdFinEquiv.sum_comp]
  refine Finset.sum_congr rfl fun x _ => ?_
  rw [pairIdx_eq_equiv]

/-- The reshape/permute loop of `KroneckerProductLinearOperator._solve` multiplies by the Kronecker
product of whatever the factor solves are. -/
theorem kronLoop2_eq {n1 n2 c : Nat} (ai : Mat α n1 n1) (bi : Mat α n2 n2) (rhs : Mat α (n1 * n2) c) :
    (Matrix.of (kronLoop2 ai bi rhs) : Matrix _ _ α) = Matrix.of (kronDense ai bi) * Matrix.of rhs := by
  ext p k
  simp only [Matrix.of_apply, Matrix.mul_apply, kronLoop2, kronDense, tab_eq, sumFin_eq_sum]
  rw [sum_pair, Finset.sum_comm]
  refine Finset.sum_congr rfl fun l _ => ?_
  rw [Finset.mul_sum]
  refine Finset.sum_congr rfl fun j _ => ?_
  rw [fstIdx_pairIdx, sndIdx_pairIdx]
  ring

open scoped Kronecker in
/-- `kronDense` is Mathlib's Kronecker product on row-major flattened indices. -/
theorem kronDense_eq {n1 n2 : Nat} (A : Mat α n1 n1) (B : Mat α n2 n2) :
    (Matrix.of (kronDense A B) : Matrix _ _ α)
      = Matrix.reindex finProdFinEquiv finProdFinEquiv ((Matrix.of A) ⊗ₖ (Matrix.of B)) := by
  ext p q
  simp only [Matrix.of_apply, kronDense, reindex_apply, submatrix_apply, kroneckerMap_apply]
  rfl

open scoped Kronecker in
/-- With exact factor solves (MATRIX inverses of the factors) the loop solves the Kronecker system. -/
theorem kronLoop2_solves {n1 n2 c : Nat} (A : Mat α n1 n1) (B : Mat α n2 n2) (rhs : Mat α (n1 * n2) c) :
    (Matrix.of (kronLoop2 ((Matrix.of A)⁻¹ : Matrix (Fin n1) (Fin n1) α) ((Matrix.of B)⁻¹ : Matrix (Fin n2) (Fin n2) α) rhs)
        : Matrix _ _ α)
      = (Matrix.of (kronDense A B))⁻¹ * Matrix.of rhs := by
  refine (kronLoop2_eq (α := α) ((Matrix.of A)⁻¹ : Matrix (Fin n1) (Fin n1) α)
    ((Matrix.of B)⁻¹ : Matrix (Fin n2) (Fin n2) α) rhs).trans ?_
  congr 1
  rw [kronDense_eq A B, inv_reindex, kronSolve]
  exact kronDense_eq (α := α) ((Matrix.of A)⁻¹ : Matrix (Fin n1) (Fin n1) α) ((Matrix.of B)⁻¹ : Matrix (Fin n2) (Fin n2) α)

/-! ## Left factor -/

theorem solveForward_model {n o p : Nat} (ainv : Mat α n n) (L : Mat α o n) (R : Mat α n p) :
    (Matrix.of (solveForward ainv L R) : Matrix _ _ α) = Matrix.of L * Matrix.of ainv * Matrix.of R := by
  ext i j
  simp only [solveForward, Mat.mul, tab_eq, sumFin_eq_sum, Matrix.of_apply, Matrix.mul_apply]
  have hdite : ∀ x : Fin n, (if h : o + j.1 < o then L ⟨o + j.1, h⟩ x else R x ⟨o + j.1 - o, by omega⟩) = R x j := by
    intro x
    have h1 : ¬ (o + j.1 < o) := by omega
    rw [dif_neg h1]
    congr 1
    exact Fin.ext (by simp)
  simp only [hdite, Finset.mul_sum, Finset.sum_mul]
  rw [Finset.sum_comm]
  refine Finset.sum_congr rfl fun l _ => Finset.sum_congr rfl fun k _ => ?_
  ring

/-! ## Woodbury -/

theorem woodbury_unfold {n k m : Nat} (d : Fin n → α) (hd : ∀ i, d i ≠ 0) (U : Mat α n k) (ci : Mat α k k)
    (B : Mat α n m) :
    (Matrix.of (woodbury d U ci B) : Matrix _ _ α)
      = (diagonal d)⁻¹ * Matrix.of B
        - (diagonal d)⁻¹ * (Matrix.of U * (Matrix.of ci * ((Matrix.of U)ᵀ * ((diagonal d)⁻¹ * Matrix.of B)))) := by
  ext i j
  simp only [diagSolve_eq d hd, Matrix.mul_apply, Matrix.of_apply, Matrix.transpose_apply, Matrix.sub_apply]
  simp only [woodbury, diagSolve, Mat.mul, tab_eq, sumFin_eq_sum, Mat.transpose]

/-- `LowRankRootAddedDiagLinearOperator._solve` with the exact (matrix) inverse of the capacitance matrix
`I + Uᵀ D⁻¹ U` is `(D + UUᵀ)⁻¹B`. -/
theorem woodbury_model {n k m : Nat} (d : Fin n → α) (hd : ∀ i, d i ≠ 0) (U : Mat α n k) (B : Mat α n m)
    (hC : IsUnit ((1 : Matrix (Fin k) (Fin k) α) + (Matrix.of U)ᵀ * (diagonal d)⁻¹ * Matrix.of U).det) :
    (Matrix.of (woodbury d U
        (((1 : Matrix (Fin k) (Fin k) α) + (Matrix.of U)ᵀ * (diagonal d)⁻¹ * Matrix.of U)⁻¹ : Matrix (Fin k) (Fin k) α) B)
        : Matrix _ _ α)
      = (diagonal d + Matrix.of U * (Matrix.of U)ᵀ)⁻¹ * Matrix.of B := by
  have hD : IsUnit (diagonal d).det := by
    rw [det_diagonal]; exact isUnit_iff_ne_zero.mpr (Finset.prod_ne_zero_iff.mpr fun i _ => hd i)
  rw [woodbury_solve (diagonal d) (Matrix.of U) (Matrix.of B) hD hC]
  exact woodbury_unfold d hd U _ B

/-! ## Selection and trace -/

theorem cholEv_no_cg (n : Nat) (e : Ev) (h : e ∈ cholEv n) : e.isCg = false := by
  unfold cholEv at h
  split at h
  · simp at h
  · simp at h; subst h; rfl

theorem cholTrace_no_cg : ∀ (op : Op) (e : Ev), e ∈ cholTrace op → e.isCg = false := by
  intro op
  induction op with
  | gen n | addedDiag n | lrrad n k c | kpadloConst a b => intro e h; exact cholEv_no_cg _ e (by simpa [cholTrace] using h)
  | diag n | ident n | tri n | chol n => intro e h; simp [cholTrace] at h
  | kron a b iha ihb =>
    intro e h; simp only [cholTrace, List.mem_append] at h
    rcases h with h | h
    · exact iha e h
    · exact ihb e h
  | kron3 a b c iha ihb ihc =>
    intro e h; simp only [cholTrace, List.mem_append] at h
    rcases h with (h | h) | h
    · exact iha e h
    · exact ihb e h
    · exact ihc e h
  | block k base ih => intro e h; exact ih e (by simpa [cholTrace] using h)
  | brep base ih => intro e h; exact ih e (by simpa [cholTrace] using h)

theorem selectSolve_fast_off (c : Bool) (n : Nat) (s : Settings) (h : s.fastSolves = false) :
    selectSolve c n s ≠ .iterative := by
  unfold selectSolve
  by_cases hc : c <;> simp [hc, h]

/-- With `fast_computations(solves=False)` no solve at any nesting depth runs CG. -/
theorem trace_no_cg_of_fast_off (s : Settings) (h : s.fastSolves = false) :
    ∀ (op : Op) (e : Ev), e ∈ trace s op → e.isCg = false := by
  have hs : ∀ n, selectSolve false n s = .cholesky := fun n => by simp [selectSolve, h]
  intro op
  induction op with
  | gen n => intro e he; exact cholEv_no_cg _ e (by simpa [trace, hs] using he)
  | addedDiag n => intro e he; exact cholEv_no_cg _ e (by simpa [trace, hs] using he)
  | diag n | ident n | tri n | chol n => intro e he; simp [trace] at he
  | lrrad n k c =>
    intro e he; simp only [trace] at he
    by_cases hc : c <;> simp [hc] at he
    subst he; rfl
  | kron a b _ _ => intro e he; simp only [trace, hs] at he; exact cholTrace_no_cg (.kron a b) e (by simpa [cholTrace] using he)
  | kron3 a b c _ _ _ =>
    intro e he; simp only [trace, hs] at he; exact cholTrace_no_cg (.kron3 a b c) e (by simpa [cholTrace] using he)
  | block k base _ => intro e he; simp only [trace, hs] at he; exact cholTrace_no_cg base e he
  | brep base _ => intro e he; simp only [trace, hs] at he; exact cholTrace_no_cg base e he
  | kpadloConst a b _ _ => intro e he; exact cholEv_no_cg _ e (by simpa [trace, hs] using he)

/-- A CG run anywhere in the trace of `op.solve` implies the TOP-LEVEL selection was iterative:
fast solves on and `size > max_cholesky_size`. -/
theorem trace_cg_imp_iterative (s : Settings) (op : Op) (e : Ev) (he : e ∈ trace s op) (hc : e.isCg = true) :
    op.isCholOrTri = false ∧ s.fastSolves = true ∧ s.maxChol < op.size := by
  have key : ∀ n, selectSolve false n s ≠ .iterative → ¬ (s.fastSolves = true ∧ s.maxChol < n) → True := fun _ _ _ => trivial
  have sel : ∀ n, selectSolve false n s = .iterative → s.fastSolves = true ∧ s.maxChol < n := by
    intro n hn
    unfold selectSolve at hn
    by_cases hf : s.fastSolves <;> by_cases hm : n ≤ s.maxChol <;> simp [hf, hm] at hn
    exact ⟨hf, Nat.lt_of_not_le hm⟩
  have nocg : ∀ (l : List Ev), (∀ x ∈ l, Ev.isCg x = false) → e ∈ l → False := fun l hl hel => by
    have := hl e hel; rw [hc] at this; exact Bool.noConfusion this
  cases op with
  | gen n =>
    refine ⟨rfl, ?_⟩
    cases hsel : selectSolve false n s with
    | iterative => exact sel n hsel
    | cholesky => exact (nocg _ (cholEv_no_cg _) (by simpa [trace, hsel] using he)).elim
    | structured => exact (nocg _ (cholEv_no_cg _) (by simpa [trace, hsel] using he)).elim
  | addedDiag n =>
    refine ⟨rfl, ?_⟩
    cases hsel : selectSolve false n s with
    | iterative => exact sel n hsel
    | cholesky => exact (nocg _ (cholEv_no_cg _) (by simpa [trace, hsel] using he)).elim
    | structured => exact (nocg _ (cholEv_no_cg _) (by simpa [trace, hsel] using he)).elim
  | diag n | ident n | tri n | chol n => simp [trace] at he
  | lrrad n k c =>
    simp only [trace] at he
    by_cases hcc : c <;> simp [hcc] at he
    subst he; cases hc
  | kron a b =>
    refine ⟨rfl, ?_⟩
    cases hsel : selectSolve false (a.size * b.size) s with
    | iterative => exact sel _ hsel
    | cholesky =>
      simp only [trace, hsel] at he
      exact (nocg _ (cholTrace_no_cg (.kron a b)) (by simpa [cholTrace] using he)).elim
    | structured =>
      simp only [trace, hsel] at he
      exact (nocg _ (cholTrace_no_cg (.kron a b)) (by simpa [cholTrace] using he)).elim
  | kron3 a b c =>
    refine ⟨rfl, ?_⟩
    cases hsel : selectSolve false (a.size * b.size * c.size) s with
    | iterative => exact sel _ hsel
    | cholesky =>
      simp only [trace, hsel] at he
      exact (nocg _ (cholTrace_no_cg (.kron3 a b c)) (by simpa [cholTrace] using he)).elim
    | structured =>
      simp only [trace, hsel] at he
      exact (nocg _ (cholTrace_no_cg (.kron3 a b c)) (by simpa [cholTrace] using he)).elim
  | block k base =>
    refine ⟨rfl, ?_⟩
    cases hsel : selectSolve false (k * base.size) s with
    | iterative => exact sel _ hsel
    | cholesky => simp only [trace, hsel] at he; exact (nocg _ (cholTrace_no_cg base) he).elim
    | structured => simp only [trace, hsel] at he; exact (nocg _ (cholTrace_no_cg base) he).elim
  | brep base =>
    refine ⟨rfl, ?_⟩
    cases hsel : selectSolve false base.size s with
    | iterative => exact sel _ hsel
    | cholesky => simp only [trace, hsel] at he; exact (nocg _ (cholTrace_no_cg base) he).elim
    | structured => simp only [trace, hsel] at he; exact (nocg _ (cholTrace_no_cg base) he).elim
  | kpadloConst a b =>
    refine ⟨rfl, ?_⟩
    cases hsel : selectSolve false (a.size * b.size) s with
    | iterative => exact sel _ hsel
    | cholesky => exact (nocg _ (cholEv_no_cg _) (by simpa [trace, hsel] using he)).elim
    | structured => exact (nocg _ (cholEv_no_cg _) (by simpa [trace, hsel] using he)).elim

end LinOp.C04
